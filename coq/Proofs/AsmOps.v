(* Assembly proofs, part 2: the routines of ff/element_ops_amd64.s
   (weakest-precondition form; the final statements are in Proofs/AsmProofs.v).

   For every routine: for all operands, EVERY aliasing pattern of the pointer
   arguments (the locations are universally quantified, nothing is assumed
   about their equalities unless stated), every initial content of registers,
   flags and stack slots, and both values of the ADX switch, running the
   generated program (Gen/FfAsm.v) terminates with RET, stores in the
   destination exactly the limbs computed by the portable model
   (Model/FfLimbs.v) and leaves every other object untouched.  By the theorems
   of Proofs/FfOps.v the result is canonical and mathematically correct. *)
From Coq Require Import ZArith List Lia Bool.
From Verif Require Import Lib.Params Lib.Words Model.FfLimbs Model.AsmSem
  Proofs.FfWords Proofs.FfEl Proofs.FfArith Proofs.FfOps Proofs.AsmLemmas.
From Verif Require Gen.FfAsm.
Import ListNotations.
Local Open Scope Z_scope.
Local Opaque q.
Local Opaque mulGeneric.

(* ------------------------------------------------------------------ *)
(** * add *)

Lemma asm_add_ok : forall adx (lres lx ly : loc) (st : state) (x y : el),
  args st = [VP lres; VP lx; VP ly] -> mem st lx = x -> mem st ly = y ->
  ok (fun st' => mem st' lres = addGeneric x y /\
                 (forall l, l <> lres -> mem st' l = mem st l))
     (run adx FfAsm.asm_add st).
Proof.
  intros adx lres lx ly st [[[x0 x1] x2] x3] [[[y0 y1] y2] y3] Ha Hx Hy.
  open_state st. asm_start FfAsm.asm_add.
  do 6 step0.
  do_add4 s0 s1 s2 s3 k A L.
  do_reduce L r0 r1 r2 r3 ER.
  do 5 step0. asm_finish.
  split.
  - rewrite upd4_same, addGeneric_shape, A. cbn [fst]. symmetry. exact ER.
  - intros l Hl. apply upd4_other. exact Hl.
Qed.

(* ------------------------------------------------------------------ *)
(** * double *)

Lemma asm_double_ok : forall adx (lres lx : loc) (st : state) (x : el),
  args st = [VP lres; VP lx] -> mem st lx = x ->
  ok (fun st' => mem st' lres = doubleGeneric x /\
                 (forall l, l <> lres -> mem st' l = mem st l))
     (run adx FfAsm.asm_double st).
Proof.
  intros adx lres lx st [[[x0 x1] x2] x3] Ha Hx.
  open_state st. asm_start FfAsm.asm_double.
  do 5 step0.
  do_add4 s0 s1 s2 s3 k A L.
  do_reduce L r0 r1 r2 r3 ER.
  do 5 step0. asm_finish.
  split.
  - rewrite upd4_same, doubleGeneric_shape, A. cbn [fst]. symmetry. exact ER.
  - intros l Hl. apply upd4_other. exact Hl.
Qed.

(* ------------------------------------------------------------------ *)
(** * reduce (in place) *)

Lemma asm_reduce_ok : forall adx (lres : loc) (st : state) (x : el),
  limbs_ok x ->
  args st = [VP lres] -> mem st lres = x ->
  ok (fun st' => mem st' lres = reduceGeneric x /\
                 (forall l, l <> lres -> mem st' l = mem st l))
     (run adx FfAsm.asm_reduce st).
Proof.
  intros adx lres st [[[x0 x1] x2] x3] L Ha Hx.
  open_state st. asm_start FfAsm.asm_reduce.
  do 5 step0.
  do_reduce L r0 r1 r2 r3 ER.
  do 4 step0. asm_finish.
  split.
  - rewrite upd4_same, reduceGeneric_shape. symmetry. exact ER.
  - intros l Hl. apply upd4_other. exact Hl.
Qed.

(* ------------------------------------------------------------------ *)
(** * sub: the assembly adds q masked by the borrow *)

Lemma masked_add : forall d b s k,
  limbs_ok d -> b = 0 \/ b = 1 ->
  add4 d (if b =? 0 then 0 else q0, if b =? 0 then 0 else q1,
          if b =? 0 then 0 else q2, if b =? 0 then 0 else q3) = (s, k) ->
  s = if negb (b =? 0) then fst (add4 d qEl) else d.
Proof.
  intros d b s k Ld [Hb | Hb] A; subst b.
  - change (0 =? 0) with true in *. cbv iota in A. cbn [negb].
    rewrite (add4_zero d Ld) in A. inversion A. reflexivity.
  - change (1 =? 0) with false in *. cbv iota in A. cbn [negb].
    unfold qEl. rewrite A. reflexivity.
Qed.

Lemma asm_sub_ok : forall adx (lres lx ly : loc) (st : state) (x y : el),
  args st = [VP lres; VP lx; VP ly] -> mem st lx = x -> mem st ly = y ->
  ok (fun st' => mem st' lres = subGeneric x y /\
                 (forall l, l <> lres -> mem st' l = mem st l))
     (run adx FfAsm.asm_sub st).
Proof.
  intros adx lres lx ly st [[[x0 x1] x2] x3] [[[y0 y1] y2] y3] Ha Hx Hy.
  open_state st. asm_start FfAsm.asm_sub.
  do 7 step0.
  do_sub4 d0 d1 d2 d3 b S4 Ld.
  do 8 step0.
  do_add4 s0 s1 s2 s3 k A L.
  do 5 step0. asm_finish.
  split.
  - rewrite upd4_same, subGeneric_shape, S4. cbn [fst snd].
    apply (masked_add _ _ _ _ Ld (sub4_borrow_bit _ _ _ _ S4) A).
  - intros l Hl. apply upd4_other. exact Hl.
Qed.

(* ------------------------------------------------------------------ *)
(** * neg: zero test with ORQ/TESTQ/JEQ *)

Lemma lor4_zero : forall x0 x1 x2 x3,
  (Z.land (Z.lor (Z.lor (Z.lor x0 x1) x2) x3) (Z.lor (Z.lor (Z.lor x0 x1) x2) x3) =? 0)
  = isZero (x0, x1, x2, x3).
Proof.
  intros. rewrite Z.land_diag. unfold isZero, or64.
  apply Bool.eq_iff_eq_true. rewrite !Z.eqb_eq, !Z.lor_eq_0_iff. tauto.
Qed.

Lemma asm_neg_ok : forall adx (lres lx : loc) (st : state) (x : el),
  args st = [VP lres; VP lx] -> mem st lx = x ->
  ok (fun st' => mem st' lres = negGeneric x /\
                 (forall l, l <> lres -> mem st' l = mem st l))
     (run adx FfAsm.asm_neg st).
Proof.
  intros adx lres lx st [[[x0 x1] x2] x3] Ha Hx.
  open_state st. asm_start FfAsm.asm_neg.
  do 11 step0.
  (* JEQ l1 *)
  rewrite exec_cons; sem_cbv. rewrite lor4_zero.
  destruct (isZero (x0, x1, x2, x3)) eqn:Hz; cbv beta iota.
  - (* x = 0: jump to l1, store AX = x0|x1|x2|x3 = 0 four times *)
    take_jump FfAsm.asm_neg.
    do 4 step0. asm_finish.
    split.
    + rewrite upd4_same, negGeneric_shape, Hz.
      unfold isZero, or64 in Hz. apply Z.eqb_eq in Hz.
      rewrite !Z.lor_eq_0_iff in Hz. destruct Hz as [[[H3 H2] H1] H0]. subst.
      reflexivity.
    + intros l Hl. apply upd4_other. exact Hl.
  - (* x <> 0: q - x with interleaved stores *)
    step0. step2 d0 b0 F0. step0.
    step0. step2 d1 b1 F1. step0.
    step0. step2 d2 b2 F2. step0.
    step0. step2 d3 b3 F3. step0.
    asm_finish.
    destruct (sub4_chain _ _ _ _ _ _ _ _ _ _ _ _ _ _ _ _ F0 F1 F2 F3) as [S4 _].
    split.
    + rewrite upd4_same, negGeneric_shape, Hz. unfold qEl. rewrite S4. reflexivity.
    + intros l Hl. apply upd4_other. exact Hl.
Qed.

(* ------------------------------------------------------------------ *)
(** * MulBy3, MulBy5 (in place): same double/add chains as mulByConstant *)

Lemma asm_MulBy3_ok : forall adx (lx : loc) (st : state) (x : el),
  args st = [VP lx] -> mem st lx = x ->
  ok (fun st' => mem st' lx = mulBy3 x /\
                 (forall l, l <> lx -> mem st' l = mem st l))
     (run adx FfAsm.asm_MulBy3 st).
Proof.
  intros adx lx st [[[x0 x1] x2] x3] Ha Hx.
  open_state st. asm_start FfAsm.asm_MulBy3.
  do 5 step0.
  do_add4 s0 s1 s2 s3 k A1 L1.
  do_reduce L1 r0 r1 r2 r3 ER1.
  do_add4 t0 t1 t2 t3 k' A2 L2.
  do_reduce L2 u0 u1 u2 u3 ER2.
  do 4 step0. asm_finish.
  split.
  - rewrite upd4_same. unfold mulBy3. cbv zeta.
    rewrite addGeneric_shape, doubleGeneric_shape, A1. cbn [fst].
    rewrite ER1, A2. cbn [fst]. symmetry. exact ER2.
  - intros l Hl. apply upd4_other. exact Hl.
Qed.

Lemma asm_MulBy5_ok : forall adx (lx : loc) (st : state) (x : el),
  args st = [VP lx] -> mem st lx = x ->
  ok (fun st' => mem st' lx = mulBy5 x /\
                 (forall l, l <> lx -> mem st' l = mem st l))
     (run adx FfAsm.asm_MulBy5 st).
Proof.
  intros adx lx st [[[x0 x1] x2] x3] Ha Hx.
  open_state st. asm_start FfAsm.asm_MulBy5.
  do 5 step0.
  do_add4 s0 s1 s2 s3 k A1 L1.
  do_reduce L1 r0 r1 r2 r3 ER1.
  do_add4 t0 t1 t2 t3 k' A2 L2.
  do_reduce L2 u0 u1 u2 u3 ER2.
  do_add4 w0 w1 w2 w3 k'' A3 L3.
  do_reduce L3 z0 z1 z2 z3 ER3.
  do 4 step0. asm_finish.
  split.
  - rewrite upd4_same. unfold mulBy5. cbv zeta.
    rewrite addGeneric_shape, !doubleGeneric_shape, A1. cbn [fst].
    rewrite ER1, A2. cbn [fst]. rewrite ER2, A3. cbn [fst]. symmetry. exact ER3.
  - intros l Hl. apply upd4_other. exact Hl.
Qed.

(* ------------------------------------------------------------------ *)
(** * MulBy13 (in place): 13x = 2(2(2x)) + 2(2x) + x in assembly, a Montgomery
      multiplication by 13 in Go: equal as the unique canonical representative *)

Definition mulBy13_chain (x : el) : el :=
  let x2 := doubleGeneric x in
  let x4 := doubleGeneric x2 in
  let x8 := doubleGeneric x4 in
  addGeneric (addGeneric x8 x4) x.

Lemma mulBy13_chain_eq : forall x, canon x -> mulBy13_chain x = mulBy13 x.
Proof.
  intros x Hx. unfold mulBy13_chain. cbv zeta.
  destruct (double_correct x Hx) as (C2 & M2).
  destruct (double_correct _ C2) as (C4 & M4).
  destruct (double_correct _ C4) as (C8 & M8).
  destruct (add_correct _ _ C8 C4) as (C12 & M12).
  destruct (add_correct _ _ C12 Hx) as (C13 & M13).
  destruct (mulBy13_correct x Hx) as (C & M).
  apply mval_inj; [ exact C13 | exact C | ].
  rewrite M13, M12, M8, M4, M2, M.
  match goal with |- ?a mod q = ?b mod q => change (eqq a b) end.
  rewrite !eqq_mod.
  replace (2 * (2 * (2 * mval x)) + 2 * (2 * mval x) + mval x) with (13 * mval x) by ring.
  reflexivity.
Qed.

Lemma asm_MulBy13_ok : forall adx (lx : loc) (st : state) (x : el),
  canon x ->
  args st = [VP lx] -> mem st lx = x ->
  ok (fun st' => mem st' lx = mulBy13 x /\
                 (forall l, l <> lx -> mem st' l = mem st l))
     (run adx FfAsm.asm_MulBy13 st).
Proof.
  intros adx lx st [[[x0 x1] x2] x3] Cx Ha Hx.
  open_state st. asm_start FfAsm.asm_MulBy13.
  do 5 step0.
  do_add4 s0 s1 s2 s3 k1 A1 L1.
  do_reduce L1 a0 a1 a2 a3 ER1.           (* 2x *)
  do_add4 t0 t1 t2 t3 k2 A2 L2.
  do_reduce L2 f0 f1 f2 f3 ER2.           (* 4x *)
  do 4 step0.                             (* save 4x *)
  do_add4 u0 u1 u2 u3 k3 A3 L3.
  do_reduce L3 g0 g1 g2 g3 ER3.           (* 8x *)
  do_add4 w0 w1 w2 w3 k4 A4 L4.
  do_reduce L4 h0 h1 h2 h3 ER4.           (* 12x *)
  do_add4 y0 y1 y2 y3 k5 A5 L5.
  do_reduce L5 z0 z1 z2 z3 ER5.           (* 13x *)
  do 4 step0. asm_finish.
  split.
  - rewrite upd4_same. rewrite <- (mulBy13_chain_eq _ Cx).
    unfold mulBy13_chain. cbv zeta.
    rewrite !addGeneric_shape, !doubleGeneric_shape, A1. cbn [fst].
    rewrite ER1, A2. cbn [fst]. rewrite ER2, A3. cbn [fst].
    rewrite ER3, A4. cbn [fst]. rewrite ER4, A5. cbn [fst]. symmetry. exact ER5.
  - intros l Hl. apply upd4_other. exact Hl.
Qed.

(* ------------------------------------------------------------------ *)
(** * Butterfly (a, b) := (a + b, a - b), two destinations.

   The two objects must be DISTINCT: with a == b the assembly stores the
   difference and then the sum into the same object (result 2a), whereas the
   portable _butterflyGeneric computes a := a + a and then b := t - b with the
   ALREADY UPDATED b (result a - 2a = -a).  See [asm_Butterfly_aliased] and
   [butterfly_aliased_differs] below. *)

Lemma asm_Butterfly_ok : forall adx (la lb : loc) (st : state) (a b : el),
  la <> lb ->
  args st = [VP la; VP lb] -> mem st la = a -> mem st lb = b ->
  ok (fun st' => mem st' la = fst (butterflyGeneric a b) /\
                 mem st' lb = snd (butterflyGeneric a b) /\
                 (forall l, l <> la -> l <> lb -> mem st' l = mem st l))
     (run adx FfAsm.asm_Butterfly st).
Proof.
  intros adx la lb st [[[x0 x1] x2] x3] [[[y0 y1] y2] y3] Hab Ha Hx Hy.
  open_state st. asm_start FfAsm.asm_Butterfly.
  do 11 step0.
  do_add4 s0 s1 s2 s3 k A L.
  do_sub4 d0 d1 d2 d3 bw S4 Ld.
  do 8 step0.
  do_add4 t0 t1 t2 t3 k' A' L'.
  do 4 step0.
  do_reduce L r0 r1 r2 r3 ER.
  do 5 step0. asm_finish.
  unfold butterflyGeneric. cbv zeta. cbn [fst snd].
  split; [ | split ].
  - rewrite upd4_same, addGeneric_shape, A. cbn [fst]. symmetry. exact ER.
  - rewrite upd4_other by (intro E; apply Hab; symmetry; exact E).
    rewrite upd4_same, subGeneric_shape, S4. cbn [fst snd].
    apply (masked_add _ _ _ _ Ld (sub4_borrow_bit _ _ _ _ S4) A').
  - intros l Hl1 Hl2. rewrite upd4_other by exact Hl1. apply upd4_other. exact Hl2.
Qed.

(* a == b: the assembly leaves a + a *)
Lemma asm_Butterfly_aliased : forall adx (la : loc) (st : state) (a : el),
  args st = [VP la; VP la] -> mem st la = a ->
  ok (fun st' => mem st' la = addGeneric a a) (run adx FfAsm.asm_Butterfly st).
Proof.
  intros adx la st [[[x0 x1] x2] x3] Ha Hx.
  open_state st. asm_start FfAsm.asm_Butterfly.
  do 11 step0.
  do_add4 s0 s1 s2 s3 k A L.
  do_sub4 d0 d1 d2 d3 bw S4 Ld.
  do 8 step0.
  do_add4 t0 t1 t2 t3 k' A' L'.
  do 4 step0.
  do_reduce L r0 r1 r2 r3 ER.
  do 5 step0. asm_finish.
  rewrite upd4_same, addGeneric_shape, A. cbn [fst]. symmetry. exact ER.
Qed.

(* ... whereas the Go statements of _butterflyGeneric with a == b,
   t := *a; a.Add(a, a); a.Sub(&t, a), leave t - (t + t) *)
Lemma butterfly_aliased_differs :
  addGeneric one one <> subGeneric one (addGeneric one one).
Proof. vm_compute. discriminate. Qed.

(* C05, part 4: Inverse (binary extended GCD in Montgomery form), Div and
   BatchInvert of /repo/ff/element.go: total correctness -- the fuel of the
   model is never exhausted on canonical operands. *)
From Coq Require Import ZArith Znumtheory List Lia Zdiv Morphisms Setoid Bool.
From Verif Require Import Lib.Params Lib.Words Lib.NumberTheory Lib.Primes Model.FfLimbs
  Proofs.FfWords Proofs.FfEl Proofs.FfArith.
Import ListNotations.
Local Open Scope Z_scope.

Local Ltac Zify.zify_post_hook ::= Z.div_mod_to_equations.
Local Opaque q.
Local Opaque mulGeneric.

(* ------------------------------------------------------------------ *)
(** * The loops in terms of the shared 4-limb building blocks *)

Lemma inv_uloop_eq : inv_uloop = inv_vloop.
Proof. reflexivity. Qed.

Lemma inv_vloop_S : forall f v0 v1 v2 v3 s,
  inv_vloop (S f) (v0, v1, v2, v3) s =
  if and64 v0 1 =? 0 then inv_vloop f (shr1 (v0, v1, v2, v3)) (half_mod_q s)
  else Some ((v0, v1, v2, v3), s).
Proof.
  intros f v0 v1 v2 v3 [[[s0 s1] s2] s3]. cbn [inv_vloop].
  destruct (and64 v0 1 =? 0); [ | reflexivity ].
  unfold half_mod_q. destruct (and64 s0 1 =? 1); reflexivity.
Qed.

(* a - b modulo q on canonical operands: subtract, add q back on borrow *)
Definition sub_mod_q (a b : el) : el :=
  if snd (sub4 a b) =? 1 then fst (add4 (fst (sub4 a b)) qEl) else fst (sub4 a b).

Definition isOne (z : el) : bool :=
  let '(z0, z1, z2, z3) := z in ((z0 =? 1) && (or64 (or64 z3 z2) z1 =? 0))%bool.

Definition inv_step (u v r s : el) : el * el * el * el :=
  let '(u0, u1, u2, u3) := u in
  let '(v0, v1, v2, v3) := v in
  if negb (lt_limbs v0 v1 v2 v3 u0 u1 u2 u3)
  then (u, fst (sub4 v u), r, sub_mod_q s r)
  else (fst (sub4 u v), v, sub_mod_q r s, s).

Definition inv_exit (st : el * el * el * el) : el + (el * el * el * el) :=
  let '(u, v, r, s) := st in
  if isOne u then inl r else if isOne v then inl s else inr (u, v, r, s).

Local Ltac step64 :=
  cbv beta iota;
  match goal with
  | |- context [sub64 ?a ?b ?c] =>
      let d := fresh "d" in let bo := fresh "bo" in destruct (sub64 a b c) as [d bo]
  | |- context [add64 ?a ?b ?c] =>
      let d := fresh "d" in let co := fresh "co" in destruct (add64 a b c) as [d co]
  end.

Lemma inv_body_shape : forall u v r s, inv_body u v r s = inv_exit (inv_step u v r s).
Proof.
  intros [[[u0 u1] u2] u3] [[[v0 v1] v2] v3] [[[r0 r1] r2] r3] [[[s0 s1] s2] s3].
  unfold inv_body, inv_step, inv_exit, sub_mod_q, isOne, sub4, add4, qEl. cbv zeta.
  destruct (negb (lt_limbs v0 v1 v2 v3 u0 u1 u2 u3)).
  - do 8 step64. cbv beta iota. cbn [fst snd].
    match goal with |- context [if ?b =? 1 then _ else _] => destruct (b =? 1) end.
    + do 4 step64. reflexivity.
    + reflexivity.
  - do 8 step64. cbv beta iota. cbn [fst snd].
    match goal with |- context [if ?b =? 1 then _ else _] => destruct (b =? 1) end.
    + do 4 step64. reflexivity.
    + reflexivity.
Qed.

Lemma inverse_loop_S : forall f u v r s,
  inverse_loop (S f) u v r s =
  match inv_vloop inner_fuel v s with
  | None => None
  | Some (v, s) =>
      match inv_vloop inner_fuel u r with
      | None => None
      | Some (u, r) =>
          match inv_exit (inv_step u v r s) with
          | inl z => Some z
          | inr (u, v, r, s) => inverse_loop f u v r s
          end
      end
  end.
Proof.
  intros. cbn [inverse_loop]. rewrite inv_uloop_eq.
  destruct (inv_vloop inner_fuel v s) as [[v' s'] | ]; [ | reflexivity ].
  destruct (inv_vloop inner_fuel u r) as [[u' r'] | ]; [ | reflexivity ].
  rewrite inv_body_shape. reflexivity.
Qed.

Local Opaque inv_vloop inv_uloop inv_body inverse_loop.


(* ------------------------------------------------------------------ *)
(** * Number-theoretic helpers *)

Lemma eqq_cancel_2 : forall a b, 2 * a ==q 2 * b -> a ==q b.
Proof.
  intros a b H.
  assert (Hh : 2 * ((q + 1) / 2) = q + 1).
  { pose proof q_odd'. lia. }
  assert (H1 : forall c, c ==q (q + 1) / 2 * (2 * c)).
  { intros c. replace ((q + 1) / 2 * (2 * c)) with (2 * ((q + 1) / 2) * c) by ring.
    rewrite Hh. apply (eqq_intro _ _ (- c)). ring. }
  rewrite (H1 a), (H1 b), H. reflexivity.
Qed.

Lemma rel_prime_sub : forall a b, rel_prime a b -> rel_prime a (b - a).
Proof.
  intros a b H. destruct H as [H1 H2 H3]. constructor.
  - apply Z.divide_1_l.
  - apply Z.divide_1_l.
  - intros x Ha Hb. apply H3; [ exact Ha | ].
    replace b with (b - a + a) by ring. apply Z.divide_add_r; assumption.
Qed.

Lemma rel_prime_same : forall a, 0 < a -> rel_prime a a -> a = 1.
Proof.
  intros a Ha H. destruct H as [_ _ H3].
  specialize (H3 a (Z.divide_refl a) (Z.divide_refl a)).
  apply Z.divide_1_r in H3. lia.
Qed.

Lemma rel_prime_div_r : forall a b b', rel_prime a b -> (b' | b) -> rel_prime a b'.
Proof.
  intros a b b' H Hd. apply rel_prime_sym. apply (rel_prime_div b a b').
  - apply rel_prime_sym. exact H.
  - exact Hd.
Qed.

Lemma mul_half_le : forall u u1 v v1, 0 < u1 <= u -> 0 < v1 -> 2 * v1 <= v ->
  2 * (u1 * v1) <= u * v.
Proof.
  intros u u1 v v1 Hu Hv Hv2.
  replace (2 * (u1 * v1)) with (u1 * (2 * v1)) by ring.
  apply Z.mul_le_mono_nonneg; lia.
Qed.

(* ------------------------------------------------------------------ *)
(** * The inner loop: strip the factors two of v, halving s modulo q *)

Lemma pow2_S : forall f, 2 ^ Z.of_nat (S f) = 2 * 2 ^ Z.of_nat f.
Proof. intros f. rewrite Nat2Z.inj_succ, Z.pow_succ_r by lia. reflexivity. Qed.

Lemma vloop_spec : forall f v s, limbs_ok v -> canon s ->
  0 < val v < 2 ^ Z.of_nat f ->
  exists v' s', inv_vloop f v s = Some (v', s') /\
    limbs_ok v' /\ canon s' /\
    val v' mod 2 = 1 /\ 0 < val v' <= val v /\ (val v' | val v) /\
    (val v mod 2 = 0 -> 2 * val v' <= val v) /\
    (val v mod 2 = 1 -> val v' = val v) /\
    (forall A K, A * val s ==q val v * K -> A * val s' ==q val v' * K).
Proof.
  induction f as [ | f IH]; intros v s Lv Cs Hv.
  - change (2 ^ Z.of_nat 0) with 1 in Hv. lia.
  - destruct v as [[[v0 v1] v2] v3]. rewrite inv_vloop_S.
    rewrite (parity_spec v0 v1 v2 v3).
    remember (v0, v1, v2, v3) as v eqn:Ev. clear Ev v0 v1 v2 v3.
    rewrite pow2_S in Hv.
    destruct (Z.eqb_spec (val v mod 2) 0) as [E | E].
    + destruct (shr1_spec v Lv) as (L1 & V1).
      destruct (half_mod_q_spec s Cs) as (C1 & S1).
      assert (Hv2 : val v = 2 * (val v / 2)) by lia.
      destruct (IH (shr1 v) (half_mod_q s) L1 C1)
        as (v' & s' & E' & L' & C' & O' & B' & D' & _ & _ & I').
      { rewrite V1. lia. }
      exists v', s'. rewrite V1 in B', D', I'.
      split; [ exact E' | ]. split; [ exact L' | ]. split; [ exact C' | ].
      split; [ exact O' | ]. split; [ lia | ].
      split; [ | split; [ intros _; lia | split; [ intros; lia | ] ] ].
      * rewrite Hv2. apply Z.divide_mul_r. exact D'.
      * intros A K HA. apply I'. apply eqq_cancel_2.
        replace (2 * (A * val (half_mod_q s))) with (A * (2 * val (half_mod_q s))) by ring.
        rewrite S1, HA. rewrite Hv2 at 1. apply (eqq_intro _ _ 0). ring.
    + exists v, s. split; [ reflexivity | ].
      split; [ exact Lv | ]. split; [ exact Cs | ].
      split; [ lia | ]. split; [ lia | ]. split; [ apply Z.divide_refl | ].
      split; [ intros; lia | ]. split; [ reflexivity | ]. intros A K HA. exact HA.
Qed.

(* ------------------------------------------------------------------ *)
(** * Subtraction modulo q, the exit tests *)

Lemma sub_mod_q_spec : forall a b, canon a -> canon b ->
  canon (sub_mod_q a b) /\ val (sub_mod_q a b) ==q val a - val b.
Proof.
  intros x y Hx Hy. unfold sub_mod_q.
  pose proof (canon_val _ Hx) as Vx. pose proof (canon_val _ Hy) as Vy.
  pose proof (canon_limbs _ Hx) as Lx. pose proof (canon_limbs _ Hy) as Ly.
  destruct (Z_lt_le_dec (val x) (val y)) as [Hlt | Hge].
  - destruct (sub4_borrow x y Lx Ly Hlt) as (Hl & Hv & Hb). rewrite Hb.
    change (1 =? 1) with true. cbv iota.
    destruct (add4_wrap (fst (sub4 x y)) qEl Hl limbs_qEl) as (Hl' & Hv').
    { rewrite val_qEl'. lia. }
    rewrite val_qEl', Hv in Hv'.
    split; [ apply canon_intro; [ exact Hl' | lia ] | ].
    apply (eqq_intro _ _ 1). lia.
  - destruct (sub4_exact x y Lx Ly Hge) as (Hl & Hv & Hb). rewrite Hb.
    change (0 =? 1) with false. cbv iota.
    split; [ apply canon_intro; [ exact Hl | lia ] | ].
    rewrite Hv. reflexivity.
Qed.

Lemma isOne_val : forall z, limbs_ok z -> isOne z = (val z =? 1).
Proof. intros [[[z0 z1] z2] z3] Hz. unfold isOne. apply isOne_spec. exact Hz. Qed.

(* ------------------------------------------------------------------ *)
(** * The outer loop *)

Section Loop.
  (* X: the (Montgomery) operand; K: the constant carried by the invariant
     X*r = u*K, X*s = v*K (mod q); here K = R^2 *)
  Variables X K : Z.

  Definition Inv (u v r s : el) : Prop :=
    limbs_ok u /\ limbs_ok v /\ canon r /\ canon s /\
    0 < val u /\ 0 < val v /\ rel_prime (val u) (val v) /\
    X * val r ==q val u * K /\ X * val s ==q val v * K.

  Lemma Inv_intro : forall u v r s,
    limbs_ok u -> limbs_ok v -> canon r -> canon s ->
    0 < val u -> 0 < val v -> rel_prime (val u) (val v) ->
    X * val r ==q val u * K -> X * val s ==q val v * K -> Inv u v r s.
  Proof. intros. unfold Inv. tauto. Qed.

  Lemma inv_step_spec : forall u v r s, Inv u v r s ->
    let '(u', v', r', s') := inv_step u v r s in
    limbs_ok u' /\ limbs_ok v' /\ canon r' /\ canon s' /\
    X * val r' ==q val u' * K /\ X * val s' ==q val v' * K /\
    ((val u <= val v /\ val u' = val u /\ val v' = val v - val u) \/
     (val v < val u /\ val u' = val u - val v /\ val v' = val v)).
  Proof.
    intros u v r s (Lu & Lv & Cr & Cs & Pu & Pv & G & Ir & Is).
    destruct u as [[[u0 u1] u2] u3]. destruct v as [[[v0 v1] v2] v3].
    unfold inv_step. rewrite (lt_limbs_spec _ _ _ _ _ _ _ _ Lv Lu).
    remember (u0, u1, u2, u3) as u eqn:Eu. remember (v0, v1, v2, v3) as v eqn:Ev.
    clear Eu Ev u0 u1 u2 u3 v0 v1 v2 v3.
    destruct (Z.ltb_spec (val v) (val u)) as [Hlt | Hge]; cbn [negb].
    - destruct (sub4_exact u v Lu Lv ltac:(lia)) as (L' & V' & _).
      destruct (sub_mod_q_spec r s Cr Cs) as (C' & S').
      split; [ exact L' | ]. split; [ exact Lv | ]. split; [ exact C' | ].
      split; [ exact Cs | ]. split; [ | split; [ exact Is | right; lia ] ].
      rewrite S', V'.
      replace (X * (val r - val s)) with (X * val r - X * val s) by ring.
      rewrite Ir, Is. apply (eqq_intro _ _ 0). ring.
    - destruct (sub4_exact v u Lv Lu Hge) as (L' & V' & _).
      destruct (sub_mod_q_spec s r Cs Cr) as (C' & S').
      split; [ exact Lu | ]. split; [ exact L' | ]. split; [ exact Cr | ].
      split; [ exact C' | ]. split; [ exact Ir | split; [ | left; lia ] ].
      rewrite S', V'.
      replace (X * (val s - val r)) with (X * val s - X * val r) by ring.
      rewrite Ir, Is. apply (eqq_intro _ _ 0). ring.
  Qed.

  Lemma inner_fuel_enough : WW <= 2 ^ Z.of_nat inner_fuel.
  Proof. vm_compute. discriminate. Qed.

  Lemma inverse_loop_spec : forall f u v r s, Inv u v r s ->
    val u * val v < 2 ^ Z.of_nat f ->
    (val u mod 2 = 1 -> val v mod 2 = 1 -> 2 * (val u * val v) < 2 ^ Z.of_nat f) ->
    exists z, inverse_loop f u v r s = Some z /\ canon z /\ X * val z ==q K.
  Proof.
    induction f as [ | f IH]; intros u v r s HI HM HM2.
    - destruct HI as (_ & _ & _ & _ & Pu & Pv & _).
      change (2 ^ Z.of_nat 0) with 1 in HM.
      assert (0 < val u * val v) by (apply Z.mul_pos_pos; assumption). lia.
    - destruct HI as (Lu & Lv & Cr & Cs & Pu & Pv & G & Ir & Is).
      rewrite inverse_loop_S. rewrite pow2_S in HM, HM2.
      pose proof inner_fuel_enough as HF.
      pose proof (limbs_val _ Lu) as Bu. pose proof (limbs_val _ Lv) as Bv.
      destruct (vloop_spec inner_fuel v s Lv Cs ltac:(lia))
        as (v1 & s1 & E1 & Lv1 & Cs1 & Ov1 & Bv1 & Dv1 & Ev1 & Ov1' & Is1).
      rewrite E1.
      destruct (vloop_spec inner_fuel u r Lu Cr ltac:(lia))
        as (u1 & r1 & E2 & Lu1 & Cr1 & Ou1 & Bu1 & Du1 & Eu1 & Ou1' & Ir1).
      rewrite E2.
      specialize (Is1 X K Is). specialize (Ir1 X K Ir).
      assert (G1 : rel_prime (val u1) (val v1)).
      { apply rel_prime_div_r with (b := val v); [ | exact Dv1 ].
        apply rel_prime_sym. apply rel_prime_div_r with (b := val u); [ | exact Du1 ].
        apply rel_prime_sym. exact G. }
      (* the product at least halves *)
      assert (HP : val u1 * val v1 < 2 ^ Z.of_nat f).
      { assert (HP2 : 2 * (val u1 * val v1) < 2 * 2 ^ Z.of_nat f); [ | lia ].
        assert (Hpar : forall a, a mod 2 = 0 \/ a mod 2 = 1) by (intros; lia).
        destruct (Hpar (val v)) as [Pv0 | Pv1].
        - pose proof (mul_half_le (val u) (val u1) (val v) (val v1) Bu1 (proj1 Bv1) (Ev1 Pv0)).
          lia.
        - destruct (Hpar (val u)) as [Pu0 | Pu1].
          + pose proof (mul_half_le (val v) (val v1) (val u) (val u1) Bv1 (proj1 Bu1) (Eu1 Pu0))
              as H.
            rewrite (Z.mul_comm (val v1)), (Z.mul_comm (val v)) in H. lia.
          + rewrite (Ov1' Pv1), (Ou1' Pu1). apply HM2; assumption. }
      assert (HI1 : Inv u1 v1 r1 s1).
      { apply Inv_intro; try assumption; lia. }
      pose proof (inv_step_spec u1 v1 r1 s1 HI1) as HS.
      destruct (inv_step u1 v1 r1 s1) as [[[u2 v2] r2] s2].
      destruct HS as (Lu2 & Lv2 & Cr2 & Cs2 & Ir2 & Is2 & HC).
      unfold inv_exit.
      rewrite (isOne_val u2 Lu2), (isOne_val v2 Lv2).
      destruct (Z.eqb_spec (val u2) 1) as [U1 | U1].
      { exists r2. split; [ reflexivity | ]. split; [ exact Cr2 | ].
        rewrite Ir2, U1. apply (eqq_intro _ _ 0). ring. }
      destruct (Z.eqb_spec (val v2) 1) as [V1 | V1].
      { exists s2. split; [ reflexivity | ]. split; [ exact Cs2 | ].
        rewrite Is2, V1. apply (eqq_intro _ _ 0). ring. }
      apply IH.
      + (* invariant *)
        destruct HC as [(Hle & EU & EV) | (Hlt & EU & EV)].
        * assert (val u1 <> val v1).
          { intros Heq. rewrite <- Heq in G1.
            apply rel_prime_same in G1; [ | lia ]. lia. }
          apply Inv_intro; try assumption; try lia.
          rewrite EU, EV. apply rel_prime_sub. exact G1.
        * apply Inv_intro; try assumption; try lia.
          rewrite EU, EV. apply rel_prime_sym. apply rel_prime_sub.
          apply rel_prime_sym. exact G1.
      + (* the product decreases *)
        destruct HC as [(Hle & EU & EV) | (Hlt & EU & EV)]; rewrite EU, EV.
        * assert (val u1 * (val v1 - val u1) <= val u1 * val v1)
            by (apply Z.mul_le_mono_nonneg_l; lia). lia.
        * assert ((val u1 - val v1) * val v1 <= val u1 * val v1)
            by (apply Z.mul_le_mono_nonneg_r; lia). lia.
      + (* one of the two is even: nothing to prove *)
        destruct HC as [(Hle & EU & EV) | (Hlt & EU & EV)]; rewrite EU, EV; intros; lia.
  Qed.
End Loop.

(* ------------------------------------------------------------------ *)
(** * Inverse *)

Lemma outer_fuel_enough : forall x, 0 < x < q -> 2 * (q * x) < 2 ^ Z.of_nat outer_fuel.
Proof.
  intros x Hx.
  assert (Hq : q < 2 ^ 254).
  { pose proof q_four_lt_R as H. rewrite WW_val in H.
    change (2 ^ 254)
      with 28948022309329048855892746252171976963317496166410141009864396001978282409984.
    lia. }
  assert (H1 : q * x < 2 ^ 254 * 2 ^ 254).
  { apply Z.mul_lt_mono_nonneg; lia. }
  rewrite <- Z.pow_add_r in H1 by lia.
  assert (H2 : 2 * 2 ^ (254 + 254) <= 2 ^ Z.of_nat outer_fuel).
  { rewrite <- Z.pow_succ_r by lia. apply Z.pow_le_mono_r; [ lia | ].
    unfold outer_fuel. lia. }
  lia.
Qed.

Lemma mval_nonzero : forall x, canon x -> val x <> 0 -> mval x mod q <> 0.
Proof.
  intros x Hx Hnz. rewrite Z.mod_small by apply mval_range.
  intros H. apply Hnz. apply (mval_zero_iff x Hx). exact H.
Qed.

Theorem inverse_correct : forall x, canon x ->
  exists z, inverse x = Some z /\ canon z /\ mval z = inv_mod (mval x) q.
Proof.
  intros x Hx. unfold inverse, inverse_fuel.
  pose proof (canon_limbs _ Hx) as Lx. pose proof (canon_val _ Hx) as Vx.
  rewrite (isZero_spec x Lx).
  destruct (Z.eqb_spec (val x) 0) as [E | E].
  - exists zero. split; [ reflexivity | ]. split; [ exact canon_zero | ].
    rewrite mval_zero. symmetry. apply inv_mod_zero; [ exact q_prime | exact q_gt_2' | ].
    rewrite Z.mod_small by apply mval_range. apply (mval_zero_iff x Hx). exact E.
  - cbv zeta.
    destruct (inverse_loop_spec (val x) (WW * WW) outer_fuel qEl x (0, 0, 0, 0) rSquare_el)
      as (z & Ez & Cz & Hz).
    + unfold Inv. rewrite val_qEl'.
      split; [ exact limbs_qEl | ]. split; [ exact Lx | ].
      split; [ exact canon_zero | ]. split; [ exact canon_rSquare | ].
      split; [ exact q_pos' | ]. split; [ lia | ].
      split; [ | split ].
      * apply rel_prime_sym. destruct q_prime as [_ Hp]. apply Hp. lia.
      * change (val (0, 0, 0, 0)) with 0. apply (eqq_intro _ _ (- (WW * WW))). ring.
      * rewrite val_rSquare, R_WW. rewrite eqq_mod. reflexivity.
    + rewrite val_qEl'. pose proof (outer_fuel_enough (val x) ltac:(lia)). lia.
    + intros _ _. rewrite val_qEl'. apply outer_fuel_enough. lia.
    + exists z. split; [ exact Ez | ]. split; [ exact Cz | ].
      rewrite <- (Z.mod_small (mval z) q) by apply mval_range.
      apply inv_mod_unique; [ exact q_prime | apply mval_nonzero; assumption | ].
      change (eqq (mval x * mval z) 1).
      rewrite (mval_eqq x), (mval_eqq z).
      replace (val x * Rinv * (val z * Rinv)) with (val x * val z * (Rinv * Rinv)) by ring.
      rewrite Hz.
      replace (WW * WW * (Rinv * Rinv)) with ((WW * Rinv) * (WW * Rinv)) by ring.
      rewrite eqq_RRinv. reflexivity.
Qed.
Print Assumptions inverse_correct.

Corollary inverse_partial : forall x z, canon x -> inverse x = Some z ->
  canon z /\ mval z = inv_mod (mval x) q.
Proof.
  intros x z Hx Hz. destruct (inverse_correct x Hx) as (z' & E & C & M).
  rewrite E in Hz. injection Hz as <-. split; assumption.
Qed.

Corollary inverse_zero : forall x, canon x -> mval x = 0 -> inverse x = Some zero.
Proof.
  intros x Hx H0. unfold inverse, inverse_fuel.
  rewrite (isZero_spec x (canon_limbs _ Hx)).
  apply (mval_zero_iff x Hx) in H0. rewrite H0. reflexivity.
Qed.

(* ------------------------------------------------------------------ *)
(** * Div *)

Theorem div_correct : forall x y, canon x -> canon y ->
  exists z, div x y = Some z /\ canon z /\
            mval z = (mval x * inv_mod (mval y) q) mod q.
Proof.
  intros x y Hx Hy. unfold div.
  destruct (inverse_correct y Hy) as (yi & E & C & M). rewrite E.
  destruct (mul_correct x yi Hx C) as (C' & M').
  exists (mulGeneric x yi). split; [ reflexivity | ]. split; [ exact C' | ].
  rewrite M', M. reflexivity.
Qed.
Print Assumptions div_correct.

(* ------------------------------------------------------------------ *)
(** * BatchInvert *)

Definition invs (a : list el) : list Z := map (fun ai => inv_mod (mval ai) q) a.

Lemma eqq_one_iff : forall a, a mod q = 1 <-> a ==q 1.
Proof.
  intros a. unfold eqq. rewrite (Z.mod_small 1 q) by (pose proof q_gt_2'; lia). tauto.
Qed.

Lemma mval_mul_nonzero : forall x y, canon x -> canon y ->
  mval x <> 0 -> mval y <> 0 -> mval (mulGeneric x y) <> 0.
Proof.
  intros x y Hx Hy Nx Ny. destruct (mul_correct x y Hx Hy) as [_ M]. rewrite M.
  intros H0. destruct (prime_mul_zero q _ _ q_prime H0) as [H | H];
    rewrite Z.mod_small in H by apply mval_range; contradiction.
Qed.

Lemma eqq_mval_mul : forall x y, canon x -> canon y ->
  mval (mulGeneric x y) ==q mval x * mval y.
Proof.
  intros x y Hx Hy. destruct (mul_correct x y Hx Hy) as [_ H]. rewrite H. apply eqq_mod.
Qed.

Lemma batch_spec : forall a acc, Forall canon a -> canon acc -> mval acc <> 0 ->
  forall res zs acc', batch_fwd a acc = (res, zs, acc') ->
  canon acc' /\ mval acc' <> 0 /\
  forall I, canon I -> mval I * mval acc' ==q 1 ->
    forall out I', batch_bwd a res zs I = (out, I') ->
    canon I' /\ mval I' * mval acc ==q 1 /\ Forall canon out /\ map mval out = invs a.
Proof.
  induction a as [ | ai a IH]; intros acc Ha Hacc Nacc res zs acc' Ef.
  - cbn [batch_fwd] in Ef. injection Ef as <- <- <-.
    split; [ exact Hacc | ]. split; [ exact Nacc | ].
    intros I CI HI out I' Eb. cbn [batch_bwd] in Eb. injection Eb as <- <-.
    split; [ exact CI | ]. split; [ exact HI | ]. split; [ constructor | reflexivity ].
  - inversion Ha as [ | ? ? Hai Ha' ]; subst.
    cbn [batch_fwd] in Ef.
    rewrite (isZero_spec ai (canon_limbs _ Hai)) in Ef.
    destruct (Z.eqb_spec (val ai) 0) as [E0 | E0].
    + (* a zero entry is skipped *)
      destruct (batch_fwd a acc) as [[res1 zs1] acc1] eqn:E1.
      injection Ef as <- <- <-.
      destruct (IH acc Ha' Hacc Nacc res1 zs1 acc1 E1) as (C1 & N1 & IHb).
      split; [ exact C1 | ]. split; [ exact N1 | ].
      intros I CI HI out I' Eb. cbn [batch_bwd] in Eb.
      destruct (batch_bwd a res1 zs1 I) as [out1 I1] eqn:E2.
      injection Eb as <- <-.
      destruct (IHb I CI HI out1 I1 E2) as (CI1 & HI1 & Fo & Mo).
      split; [ exact CI1 | ]. split; [ exact HI1 | ].
      split; [ constructor; [ exact canon_zero | exact Fo ] | ].
      cbn [map invs]. fold (invs a). rewrite Mo. f_equal.
      change (mval (0, 0, 0, 0)) with (mval zero). rewrite mval_zero. symmetry.
      apply inv_mod_zero; [ exact q_prime | exact q_gt_2' | ].
      rewrite Z.mod_small by apply mval_range. apply (mval_zero_iff ai Hai). exact E0.
    + (* a non-zero entry *)
      assert (Nai : mval ai <> 0).
      { intros H. apply E0. apply (mval_zero_iff ai Hai). exact H. }
      destruct (mul_correct acc ai Hacc Hai) as (C2 & _).
      pose proof (mval_mul_nonzero acc ai Hacc Hai Nacc Nai) as N2.
      destruct (batch_fwd a (mulGeneric acc ai)) as [[res1 zs1] acc1] eqn:E1.
      injection Ef as <- <- <-.
      destruct (IH (mulGeneric acc ai) Ha' C2 N2 res1 zs1 acc1 E1) as (C1 & N1 & IHb).
      split; [ exact C1 | ]. split; [ exact N1 | ].
      intros I CI HI out I' Eb. cbn [batch_bwd] in Eb.
      destruct (batch_bwd a res1 zs1 I) as [out1 I1] eqn:E2.
      injection Eb as <- <-.
      destruct (IHb I CI HI out1 I1 E2) as (CI1 & HI1 & Fo & Mo).
      rewrite (eqq_mval_mul acc ai Hacc Hai) in HI1.
      destruct (mul_correct acc I1 Hacc CI1) as (C3 & _).
      destruct (mul_correct I1 ai CI1 Hai) as (C4 & _).
      split; [ exact C4 | ]. split.
      { rewrite (eqq_mval_mul I1 ai CI1 Hai). rewrite <- HI1.
        apply (eqq_intro _ _ 0). ring. }
      split; [ constructor; [ exact C3 | exact Fo ] | ].
      cbn [map invs]. fold (invs a). rewrite Mo. f_equal.
      rewrite <- (Z.mod_small (mval (mulGeneric acc I1)) q) by apply mval_range.
      apply inv_mod_unique; [ exact q_prime | | ].
      { rewrite Z.mod_small by apply mval_range. exact Nai. }
      apply eqq_one_iff. rewrite (eqq_mval_mul acc I1 Hacc CI1). rewrite <- HI1.
      apply (eqq_intro _ _ 0). ring.
Qed.

Theorem batchInvert_correct : forall a, Forall canon a ->
  exists res, batchInvert a = Some res /\ Forall canon res /\
              map mval res = map (fun ai => inv_mod (mval ai) q) a.
Proof.
  intros a Ha. unfold batchInvert. destruct a as [ | a0 a'].
  - exists []. split; [ reflexivity | ]. split; [ constructor | reflexivity ].
  - remember (a0 :: a') as a eqn:Ea. clear Ea a0 a'.
    destruct (batch_fwd a one) as [[res zs] acc] eqn:Ef.
    assert (N1 : mval one <> 0) by (rewrite mval_one; lia).
    destruct (batch_spec a one Ha canon_one N1 res zs acc Ef) as (Cacc & Nacc & Hb).
    destruct (inverse_correct acc Cacc) as (I & EI & CI & MI). rewrite EI.
    destruct (batch_bwd a res zs I) as [out I'] eqn:Eb.
    assert (HI : mval I * mval acc ==q 1).
    { apply eqq_one_iff. rewrite MI, Z.mul_comm. apply inv_mod_q.
      rewrite Z.mod_small by apply mval_range. exact Nacc. }
    destruct (Hb I CI HI out I' Eb) as (_ & _ & Fo & Mo).
    exists out. cbn [fst]. split; [ reflexivity | ]. split; [ exact Fo | exact Mo ].
Qed.
Print Assumptions batchInvert_correct.

(* zero entries are mapped to the zero element *)
Corollary batchInvert_zero : forall a res i, Forall canon a -> batchInvert a = Some res ->
  mval (nth i a zero) = 0 -> nth i res zero = zero.
Proof.
  intros a res i Ha E H0.
  destruct (batchInvert_correct a Ha) as (res' & E' & Fo & Mo).
  rewrite E in E'. injection E' as <-.
  assert (Cn : canon (nth i res zero)).
  { destruct (nth_in_or_default i res zero) as [Hin | ->]; [ | exact canon_zero ].
    rewrite Forall_forall in Fo. apply Fo. exact Hin. }
  apply mval_inj; [ exact Cn | exact canon_zero | ].
  assert (Hd : inv_mod (mval zero) q = mval zero).
  { rewrite mval_zero. apply inv_mod_zero; [ exact q_prime | exact q_gt_2' | ].
    apply Z.mod_0_l. pose proof q_gt_2'. lia. }
  rewrite <- (map_nth mval res zero i). rewrite Mo.
  rewrite <- Hd. rewrite (map_nth (fun ai => inv_mod (mval ai) q) a zero i).
  rewrite H0. rewrite mval_zero.
  apply inv_mod_zero; [ exact q_prime | exact q_gt_2' | ].
  apply Z.mod_0_l. pose proof q_gt_2'. lia.
Qed.

(* C16 / C17 for DETERMINISTIC implementations, on the effect IR GENERATED from
   the Go sources (Gen/EffectsIR.v): instantiation of
   Proofs/EffectsDetProofs.v with the verdict [all_exported_pure].

   What this adds to Properties/C16.v, C17.v: there, a thread / a call is a
   TRACE whose written values are fixed in advance (the IR semantics havocs
   written values), so "same RESULT when repeated / under any schedule" was
   not a theorem.  Here a call is a deterministic PROGRAM (Model/EffectsDet.v)
   that computes its actions and its result from what it reads, and that
   CONFORMS to the IR of an exported function (every one of its runs is a run
   the IR allows).  For such programs the result is a function of the inputs
   (arguments and globals), is the same after any history of exported calls,
   when repeated, and under every schedule.

   What remains assumed (as in C16.v / C17.v): that the Go code of an
   exported function IS such a conforming deterministic program, i.e. the
   faithfulness of the translation tools/effgen and of the effect signatures
   of the library methods (observed by the purity / -race harnesses). *)
From Coq Require Import String List Bool Arith ZArith Lia.
Import ListNotations.
From Verif Require Import Model.Effects Model.EffectsDet Gen.EffectsIR
     Proofs.EffectsProofs Proofs.EffectsDocumented Proofs.EffectsVerdictPure
     Proofs.EffectsVerdictConc Proofs.EffectsDetProofs.
Open Scope string_scope.

Lemma all_pure_exported : forall hist,
    Forall (fun fp : call => In (fst fp) exported_names) hist ->
    all_pure funcs documented hist.
Proof.
  intros hist Hall. unfold all_pure. rewrite Forall_forall in *.
  intros fp Hfp. apply exported_pure, Hall, Hfp.
Qed.

Section Repo.
  (* any layout of the package-level variables in the heap *)
  Variable gl : string -> region.

  (* C16, "the result depends only on the arguments": the cells that a
     deterministic implementation of an exported function reads before
     having written them itself are cells of its arguments or of
     package-level variables (never of its arena, never anything else), and
     by [prog_det_agree] its trace and result are a function of the contents
     of exactly these cells. *)
  Theorem c16_inputs : forall f, In f exported_names ->
      forall p ps lo hi h tr res,
        conforms funcs gl p f ps lo hi -> alone p h tr res ->
        (forall c, In c (ext_reads tr []) -> acc gl ps c) /\
        (forall h2, (forall c, In c (ext_reads tr []) -> h c = h2 c) -> alone p h2 tr res).
  Proof.
    intros f Hf p ps lo hi h tr res Hc Hal. split.
    - eapply conforms_inputs; [apply exported_pure, Hf|exact Hc|exact Hal].
    - intros h2 Hag. eapply alone_agree; eassumption.
  Qed.

  (* C16, histories: a deterministic implementation of an exported function,
     run after ANY finite history of exported calls (failing calls included),
     has the same trace and returns the same RESULT as on the initial heap,
     provided its arguments and the globals pre-exist the history and no
     documented destination of the history overlaps the cells it can access;
     and that run is again a run of the IR. *)
  Theorem c16_repeat : forall f, In f exported_names ->
      forall p ps lo hi, conforms funcs gl p f ps lo hi ->
      forall hist, Forall (fun fp : call => In (fst fp) exported_names) hist ->
      forall h nx h1 nx1, run_hist funcs gl hist h nx h1 nx1 ->
      (forall c, acc gl ps c -> c < nx) ->
      (forall c, acc gl ps c -> ~ hist_dest documented hist c) ->
      forall tr res, alone p h tr res ->
        alone p h1 tr res /\
        exists n h2 hi' ret, run funcs gl n f ps h1 lo h2 hi' tr ret.
  Proof.
    intros f Hf p ps lo hi Hc hist Hall h nx h1 nx1 Hh Hold Hnd tr res Hal.
    assert (Hal1 : alone p h1 tr res).
    { eapply conforms_history; try eassumption.
      - apply exported_pure, Hf.
      - apply all_pure_exported, Hall. }
    split; [exact Hal1|].
    destruct (conforms_run _ _ _ _ _ _ _ _ _ _ Hc Hal1) as (n & h2 & hi' & ret & _ & Hr & _).
    exists n, h2, hi', ret. exact Hr.
  Qed.

  (* the same with the sharper hypothesis: only the INPUTS of the call (the
     cells it reads before overwriting them) must not be documented
     destinations of the history; the history may then contain earlier
     executions of the same call, e.g. z.Set(x) ... z.Set(x) *)
  Theorem c16_repeat_inputs : forall f, In f exported_names ->
      forall p ps lo hi, conforms funcs gl p f ps lo hi ->
      forall hist, Forall (fun fp : call => In (fst fp) exported_names) hist ->
      forall h nx h1 nx1, run_hist funcs gl hist h nx h1 nx1 ->
      (forall c, acc gl ps c -> c < nx) ->
      forall tr res, alone p h tr res ->
      (forall c, In c (ext_reads tr []) -> ~ hist_dest documented hist c) ->
      alone p h1 tr res.
  Proof.
    intros f Hf p ps lo hi Hc hist Hall h nx h1 nx1 Hh Hold tr res Hal Hnd.
    eapply conforms_history_inputs; try eassumption.
    - apply exported_pure, Hf.
    - apply all_pure_exported, Hall.
  Qed.

  (* C16, repeating a call: running the same deterministic implementation of
     an exported function again, k times, each time on the heap the previous
     run left behind, gives the same trace and the same RESULT, provided its
     documented destination is not an input of the call (not read, or
     overwritten before being read).  STATEMENT NOTE: without that proviso
     the claim is false for the in-place operations (z.Add(z, x), MulBy3(x),
     Butterfly): see [ex_repeat_differs]. *)
  Theorem c16_repeat_call : forall f, In f exported_names ->
      forall p ps lo hi, conforms funcs gl p f ps lo hi ->
      (forall c, acc gl ps c -> c < lo) ->
      forall h tr res, alone p h tr res ->
      (forall c, In c (ext_reads tr []) -> ~ dest_cells ps (dest_of documented f) c) ->
      forall k, alone p (Nat.iter k (apply_tr tr) h) tr res.
  Proof.
    intros f Hf p ps lo hi Hc Hold h tr res Hal Hnd k.
    eapply conforms_repeat; try eassumption. apply exported_pure, Hf.
  Qed.

  (* a function without documented destination can always be repeated *)
  Corollary c16_repeat_nodest : forall f, In f exported_names ->
      dest_of documented f = [] ->
      forall p ps lo hi, conforms funcs gl p f ps lo hi ->
      (forall c, acc gl ps c -> c < lo) ->
      forall h tr res, alone p h tr res ->
      forall k, alone p (Nat.iter k (apply_tr tr) h) tr res.
  Proof.
    intros f Hf Hd p ps lo hi Hc Hold h tr res Hal k.
    eapply c16_repeat_call; try eassumption.
    intros c _ [i [Hi _]]. rewrite Hd in Hi. contradiction.
  Qed.

  (* C17: any number of goroutines, each running a deterministic
     implementation of an exported function, on shared arguments / globals
     that are only read (a documented destination is private to its thread:
     the hypotheses of [c17_concurrent]) and with private allocation arenas.
     Then no data race occurs (no cell is written by one thread's run and
     accessed by another's), and under EVERY schedule each thread walks along
     its alone trace; every thread that has returned has returned the RESULT
     of its alone run; when all have returned, every thread has the trace,
     the observations and the RESULT of its run alone from h0, and its
     destination / fresh cells end as after its alone run. *)
  Theorem c17_same_result : forall h0 nx0 (ths : nat -> option pthread) sch h' pss',
      (forall i t, ths i = Some t ->
         In (pt_f t) exported_names /\ nx0 <= pt_lo t /\
         (forall c, acc gl (pt_ps t) c -> c < nx0) /\
         conforms funcs gl (pt_prog t) (pt_f t) (pt_ps t) (pt_lo t) (pt_hi t) /\
         snd (prog_trace (pt_prog t) h0 (pt_fuel t)) <> None) ->
      (forall i j ti tj, i <> j -> ths i = Some ti -> ths j = Some tj ->
                         pt_hi ti <= pt_lo tj \/ pt_hi tj <= pt_lo ti) ->
      (forall i j ti tj, i <> j -> ths i = Some ti -> ths j = Some tj ->
                         forall c, pt_dest documented ti c -> ~ acc gl (pt_ps tj) c) ->
      prun_sched (progs_of ths) sch h0 pinit_all = (h', pss') ->
      race_free_tr (ptrs_of h0 ths) /\
      (forall i t, ths i = Some t ->
         alone (pt_prog t) h0 (pt_tr h0 t) (pt_result h0 t) /\
         exists rem,
           pt_tr h0 t = (ps_emit (pss' i) ++ rem)%list /\
           ps_obs (pss' i) = rev (obs (ps_emit (pss' i)) h0) /\
           (forall r, ps_res (pss' i) = Some r -> rem = [] /\ r = pt_result h0 t)) /\
      (forall c, (forall i t, ths i = Some t -> ~ In c (writes_of (pt_tr h0 t))) -> h' c = h0 c) /\
      (pcomplete (progs_of ths) pss' ->
       forall i t, ths i = Some t ->
         ps_res (pss' i) = Some (pt_result h0 t) /\
         ps_emit (pss' i) = pt_tr h0 t /\
         rev (ps_obs (pss' i)) = obs (pt_tr h0 t) h0 /\
         (forall c, In c (foot (pt_tr h0 t)) -> h' c = apply_tr (pt_tr h0 t) h0 c)).
  Proof.
    intros h0 nx0 ths sch h' pss' Hok Har Hpriv Hrun.
    apply (conc_same_result funcs gl documented h0 nx0 ths sch h' pss');
      [|exact Har|exact Hpriv|exact Hrun].
    intros i t Hi. destruct (Hok i t Hi) as (He & Hlo & Hold & Hc & Hne).
    repeat split; auto. apply exported_pure, He.
  Qed.

  (* Link with the trace-level theorem [c17_concurrent]: the alone run of
     each such thread is a [thread] in the sense of Proofs/EffectsProofs.v
     (with [th_tr] the trace COMPUTED by the program). *)
  Theorem c17_thread_of_pthread : forall h0 nx0 t,
      In (pt_f t) exported_names -> nx0 <= pt_lo t ->
      (forall c, acc gl (pt_ps t) c -> c < nx0) ->
      conforms funcs gl (pt_prog t) (pt_f t) (pt_ps t) (pt_lo t) (pt_hi t) ->
      snd (prog_trace (pt_prog t) h0 (pt_fuel t)) <> None ->
      exists hi', hi' <= pt_hi t /\
        thread_ok funcs gl documented h0 nx0
                  (mkthread (pt_f t) (pt_ps t) (pt_lo t) hi' (pt_tr h0 t)).
  Proof.
    intros h0 nx0 t He Hlo Hold Hc Hne.
    destruct (conforms_run _ _ _ _ _ _ _ _ _ _ Hc (pt_alone _ _ Hne))
      as (n & h1 & hi' & ret & Hhi & Hr & _).
    exists hi'. split; [exact Hhi|].
    unfold thread_ok; simpl. repeat split; auto.
    - apply exported_pure, He.
    - exists n, h1, ret. exact Hr.
  Qed.
End Repo.

(* ------------------------------------------------------------------ *)
(** * Non-vacuity on the GENERATED table *)

Lemma in_names : forall f l, existsb (String.eqb f) l = true -> In f l.
Proof.
  intros f l H. apply existsb_exists in H. destruct H as [x [Hx He]].
  apply String.eqb_eq in He. subst x. exact Hx.
Qed.

(* four consecutive cells starting at [b]: an ff.Element *)
Definition elem (b : cell) : region := fun c => b <= c < b + 4.

(* ff.Element.IsZero(x): reads the four limbs, returns [1] iff all are 0 *)
Definition iszero_prog (x : cell) : prog := fun pc o =>
  match pc with
  | 0 => ARead x
  | 1 => ARead (x + 1)
  | 2 => ARead (x + 2)
  | 3 => ARead (x + 3)
  | _ => ADone [if forallb (Z.eqb 0) o then 1%Z else 0%Z]
  end.

Example iszero_conforms : forall gl x lo,
    conforms funcs gl (iszero_prog x) "ff.Element.IsZero" [elem x] lo lo.
Proof.
  intros gl x lo h.
  exists 5. eexists. eexists. exists 0, h, lo. eexists.
  split; [reflexivity|]. split; [lia|].
  exists fn_ff_Element_IsZero, lempty. split; [vm_compute; reflexivity|].
  unfold fn_ff_Element_IsZero.
  assert (Hd : forall k, k < 4 -> Forall (dens gl [elem x] lempty [RParam 0]) [x + k]).
  { intros k Hk. repeat constructor. exists (RParam 0); split; [left; reflexivity|].
    simpl. unfold denP, elem. simpl. lia. }
  apply (ex_read _ _ _ _ _ _ _ [x]).
  { specialize (Hd 0). rewrite Nat.add_0_r in Hd. apply Hd. lia. }
  apply (ex_read _ _ _ _ _ _ _ [x + 1]); [apply Hd; lia|].
  apply (ex_read _ _ _ _ _ _ _ [x + 2]); [apply Hd; lia|].
  apply (ex_read _ _ _ _ _ _ _ [x + 3]); [apply Hd; lia|].
  apply ex_return.
Qed.

(* z.Set(x): copies the four limbs of x to z (all action kinds occur) *)
Definition set_prog (z x : cell) : prog := fun pc o =>
  match pc with
  | 0 => ARead x      | 1 => AField "*" [RParam 0] | 2 => AWrite z (hd 0%Z o)
  | 3 => ARead (x + 1) | 4 => AField "*" [RParam 0] | 5 => AWrite (z + 1) (hd 0%Z o)
  | 6 => ARead (x + 2) | 7 => AField "*" [RParam 0] | 8 => AWrite (z + 2) (hd 0%Z o)
  | 9 => ARead (x + 3) | 10 => AField "*" [RParam 0] | 11 => AWrite (z + 3) (hd 0%Z o)
  | _ => ADone []
  end.

Example set_conforms : forall gl z x lo,
    conforms funcs gl (set_prog z x) "ff.Element.Set" [elem z; elem x] lo lo.
Proof.
  intros gl z x lo h.
  exists 13. eexists. eexists. exists 0. eexists. exists lo. eexists.
  split; [reflexivity|]. split; [lia|].
  exists fn_ff_Element_Set, lempty. split; [vm_compute; reflexivity|].
  unfold fn_ff_Element_Set.
  assert (Hx : forall le k, k < 4 -> Forall (dens gl [elem z; elem x] le [RParam 1]) [x + k]).
  { intros le k Hk. repeat constructor. exists (RParam 1); split; [left; reflexivity|].
    simpl. unfold denP, elem. simpl. lia. }
  assert (Hz : forall le k v, k < 4 ->
             Forall (fun cv : cell * Z => dens gl [elem z; elem x] le [RParam 0] (fst cv)) [(z + k, v)]).
  { intros le k v Hk. repeat constructor. exists (RParam 0); split; [left; reflexivity|].
    simpl. unfold denP, elem. simpl. lia. }
  assert (Hx0 := Hx lempty 0). assert (Hz0 := fun v => Hz lempty 0 v).
  rewrite Nat.add_0_r in Hx0. setoid_rewrite Nat.add_0_r in Hz0.
  apply (ex_read _ _ _ _ _ _ _ [x]); [apply Hx0; lia|].
  eapply (ex_write _ _ _ _ _ _ _ _ [(z, _)]); [apply Hz0; lia|]. simpl.
  apply (ex_read _ _ _ _ _ _ _ [x + 1]); [apply Hx; lia|].
  eapply (ex_write _ _ _ _ _ _ _ _ [(z + 1, _)]); [apply Hz; lia|]. simpl.
  apply (ex_read _ _ _ _ _ _ _ [x + 2]); [apply Hx; lia|].
  eapply (ex_write _ _ _ _ _ _ _ _ [(z + 2, _)]); [apply Hz; lia|]. simpl.
  apply (ex_read _ _ _ _ _ _ _ [x + 3]); [apply Hx; lia|].
  eapply (ex_write _ _ _ _ _ _ _ _ [(z + 3, _)]); [apply Hz; lia|]. simpl.
  apply ex_return.
Qed.

Lemma dest_set_eq : dest_of documented "ff.Element.Set" = [0].
Proof. vm_compute. reflexivity. Qed.
Lemma dest_inverse_eq : dest_of documented "ff.Element.Inverse" = [0].
Proof. vm_compute. reflexivity. Qed.
Lemma dest_iszero_eq : dest_of documented "ff.Element.IsZero" = [].
Proof. vm_compute. reflexivity. Qed.
Lemma set_exported : In "ff.Element.Set" exported_names.
Proof. apply in_names. vm_compute. reflexivity. Qed.
Lemma iszero_exported : In "ff.Element.IsZero" exported_names.
Proof. apply in_names. vm_compute. reflexivity. Qed.
Lemma inverse_exported : In "ff.Element.Inverse" exported_names.
Proof. apply in_names. vm_compute. reflexivity. Qed.

Section Examples.
  (* the package-level variables live somewhere in cells 12..19 *)
  Variable gl : string -> region.
  Hypothesis Hgl : forall g c, gl g c -> 12 <= c < 20.

  Lemma acc2 : forall a b c, acc gl [elem a; elem b] c -> elem a c \/ elem b c \/ 12 <= c < 20.
  Proof.
    intros a b c [[i Hi]|[g Hg]]; [|right; right; eapply Hgl, Hg].
    unfold denP in Hi. destruct i as [|[|i]]; simpl in Hi; [left; exact Hi|right; left; exact Hi|].
    destruct i; contradiction.
  Qed.

  Lemma acc1 : forall a c, acc gl [elem a] c -> elem a c \/ 12 <= c < 20.
  Proof.
    intros a c [[i Hi]|[g Hg]]; [|right; eapply Hgl, Hg].
    unfold denP in Hi. destruct i as [|i]; simpl in Hi; [left; exact Hi|].
    destruct i; contradiction.
  Qed.

  Lemma dest_set : forall a b c,
      dest_cells [elem a; elem b] (dest_of documented "ff.Element.Set") c -> elem a c.
  Proof.
    intros a b c [i [Hi Hd]]. rewrite dest_set_eq in Hi.
    destruct Hi as [<-|[]]. exact Hd.
  Qed.

  (* C16 on the generated table: x.IsZero(), implemented by [iszero_prog],
     returns the same result after the history  z.Set(x); w.Inverse(z)
     - whatever these calls do, on whatever return path - as before it. *)
  Definition ex_hist : list call :=
    [("ff.Element.Set", [elem 0; elem 8]); ("ff.Element.Inverse", [elem 4; elem 0])].

  Example ex_c16_history : forall h h1 nx1 tr res,
      run_hist funcs gl ex_hist h 20 h1 nx1 ->
      alone (iszero_prog 8) h tr res -> alone (iszero_prog 8) h1 tr res.
  Proof.
    intros h h1 nx1 tr res Hh Hal.
    refine (proj1 (c16_repeat gl _ iszero_exported _ _ 20 20 (iszero_conforms gl 8 20)
                              ex_hist _ _ _ _ _ Hh _ _ _ _ Hal)).
    - constructor; [exact set_exported|]. constructor; [exact inverse_exported|]. constructor.
    - intros c Hc. apply acc1 in Hc. unfold elem in Hc. lia.
    - intros c Hc [f [ps [Hin [i [Hi Hd]]]]]. apply acc1 in Hc. unfold elem in Hc.
      simpl in Hin. destruct Hin as [E|[E|[]]]; injection E as <- <-.
      + rewrite dest_set_eq in Hi. destruct Hi as [<-|[]].
        unfold denP, elem in Hd; simpl in Hd. lia.
      + rewrite dest_inverse_eq in Hi. destruct Hi as [<-|[]].
        unfold denP, elem in Hd; simpl in Hd. lia.
  Qed.

  (* the history exists (every exported function has a run from every heap) *)
  Example ex_c16_history_runs : forall h, exists h1 nx1, run_hist funcs gl ex_hist h 20 h1 nx1.
  Proof.
    intros h.
    destruct (run_inhabited _ set_exported gl [elem 0; elem 8] h 20) as (n1 & h1 & nx1 & tr1 & r1 & R1).
    destruct (run_inhabited _ inverse_exported gl [elem 4; elem 0] h1 nx1) as (n2 & h2 & nx2 & tr2 & r2 & R2).
    exists h2, nx2. eapply rh_cons; [exact R1|]. eapply rh_cons; [exact R2|]. apply rh_nil.
  Qed.

  (* C16 on the generated table: z.Set(x) can be repeated any number of
     times (its destination z is overwritten, never read) *)
  Example ex_c16_set_repeat : forall h tr res,
      alone (set_prog 0 8) h tr res ->
      forall k, alone (set_prog 0 8) (Nat.iter k (apply_tr tr) h) tr res.
  Proof.
    intros h tr res Hal.
    assert (Hal' : alone (set_prog 0 8) h (fst (prog_trace (set_prog 0 8) h 13)) []).
    { exists 13. reflexivity. }
    destruct (alone_det _ _ _ _ _ _ Hal Hal') as [Htr _].
    apply (c16_repeat_call gl _ set_exported _ _ 20 20 (set_conforms gl 0 8 20)); [|exact Hal|].
    - intros c Hc. apply acc2 in Hc. unfold elem in Hc. lia.
    - intros c Hc Hd. apply dest_set in Hd. unfold elem in Hd.
      rewrite Htr in Hc. simpl in Hc. lia.
  Qed.
  (* C17 on the generated table: three goroutines
       0: z0.Set(x)    1: z1.Set(x)    2: x.IsZero()
     sharing x (cells 8..11, only read); z0 = cells 0..3 and z1 = cells 4..7
     are private destinations. *)
  Definition ex_ths : nat -> option pthread := fun i =>
    match i with
    | 0 => Some (mkpthread "ff.Element.Set" [elem 0; elem 8] 20 20 (set_prog 0 8) 13)
    | 1 => Some (mkpthread "ff.Element.Set" [elem 4; elem 8] 20 20 (set_prog 4 8) 13)
    | 2 => Some (mkpthread "ff.Element.IsZero" [elem 8] 20 20 (iszero_prog 8) 5)
    | _ => None
    end.

  Lemma ex_ths_ok : forall h0 i t, ex_ths i = Some t ->
      In (pt_f t) exported_names /\ 20 <= pt_lo t /\
      (forall c, acc gl (pt_ps t) c -> c < 20) /\
      conforms funcs gl (pt_prog t) (pt_f t) (pt_ps t) (pt_lo t) (pt_hi t) /\
      snd (prog_trace (pt_prog t) h0 (pt_fuel t)) <> None.
  Proof.
    intros h0 i t Hi.
    destruct i as [|[|[|i]]]; simpl in Hi; [| | |discriminate]; injection Hi as <-; simpl.
    - split; [exact set_exported|]. split; [lia|]. split; [|split].
      + intros c Hc. apply acc2 in Hc. unfold elem in Hc. lia.
      + apply set_conforms.
      + discriminate.
    - split; [exact set_exported|]. split; [lia|]. split; [|split].
      + intros c Hc. apply acc2 in Hc. unfold elem in Hc. lia.
      + apply set_conforms.
      + discriminate.
    - split; [exact iszero_exported|]. split; [lia|]. split; [|split].
      + intros c Hc. apply acc1 in Hc. unfold elem in Hc. lia.
      + apply iszero_conforms.
      + discriminate.
  Qed.

  Lemma ex_ths_private : forall i j ti tj, i <> j -> ex_ths i = Some ti -> ex_ths j = Some tj ->
      forall c, pt_dest documented ti c -> ~ acc gl (pt_ps tj) c.
  Proof.
    intros i j ti tj Hij Hi Hj c Hd Ha.
    destruct i as [|[|[|i]]]; simpl in Hi; [| | |discriminate]; injection Hi as <-;
      unfold pt_dest in Hd; simpl in Hd.
    - apply dest_set in Hd. unfold elem in Hd.
      destruct j as [|[|[|j]]]; simpl in Hj; [| | |discriminate]; injection Hj as <-; simpl in Ha.
      + contradiction.
      + apply acc2 in Ha. unfold elem in Ha. lia.
      + apply acc1 in Ha. unfold elem in Ha. lia.
    - apply dest_set in Hd. unfold elem in Hd.
      destruct j as [|[|[|j]]]; simpl in Hj; [| | |discriminate]; injection Hj as <-; simpl in Ha.
      + apply acc2 in Ha. unfold elem in Ha. lia.
      + contradiction.
      + apply acc1 in Ha. unfold elem in Ha. lia.
    - destruct Hd as [k [Hk _]].
      change (In k (dest_of documented "ff.Element.IsZero")) in Hk.
      rewrite dest_iszero_eq in Hk. contradiction.
  Qed.

  (* Under EVERY complete schedule, from every initial heap: IsZero returns
     what it returns alone (1 iff the four limbs of x are 0 in h0), z0 and z1
     end as copies of x, x is unchanged; and the three alone runs are race
     free. *)
  Example ex_c17 : forall h0 sch h' pss',
      prun_sched (progs_of ex_ths) sch h0 pinit_all = (h', pss') ->
      pcomplete (progs_of ex_ths) pss' ->
      race_free_tr (ptrs_of h0 ex_ths) /\
      ps_res (pss' 2) =
        Some [if forallb (Z.eqb 0) [h0 11; h0 10; h0 9; h0 8] then 1%Z else 0%Z] /\
      h' 0 = h0 8 /\ h' 3 = h0 11 /\ h' 5 = h0 9 /\ h' 8 = h0 8.
  Proof.
    intros h0 sch h' pss' Hrun Hc.
    destruct (c17_same_result gl h0 20 ex_ths sch h' pss' (ex_ths_ok h0)) as (Hrf & _ & Hunw & Hcomp);
      [|exact ex_ths_private|exact Hrun|].
    { intros i j ti tj Hij Hi Hj. left.
      destruct i as [|[|[|i]]]; simpl in Hi; [| | |discriminate]; injection Hi as <-;
        destruct j as [|[|[|j]]]; simpl in Hj; try discriminate; injection Hj as <-; simpl; lia. }
    split; [exact Hrf|].
    destruct (Hcomp Hc 0 _ eq_refl) as (_ & _ & _ & Hf0).
    destruct (Hcomp Hc 1 _ eq_refl) as (_ & _ & _ & Hf1).
    destruct (Hcomp Hc 2 _ eq_refl) as (Hr2 & _ & _ & _).
    split; [exact Hr2|].
    split; [|split; [|split]].
    - rewrite (Hf0 0); [reflexivity|]. unfold foot. simpl. auto 20.
    - rewrite (Hf0 3); [reflexivity|]. unfold foot. simpl. auto 20.
    - rewrite (Hf1 5); [reflexivity|]. unfold foot. simpl. auto 20.
    - apply Hunw. intros i t Hi.
      destruct i as [|[|[|i]]]; simpl in Hi; [| | |discriminate]; injection Hi as <-;
        simpl; intuition lia.
  Qed.

  (* a complete schedule of the three goroutines, run *)
  Example ex_c17_schedule :
    let h0 := fun c : cell => Z.of_nat c in
    let '(h', pss') := prun_sched (progs_of ex_ths)
                         (concat (repeat [0; 1; 2] 13)) h0 pinit_all in
    pcomplete (progs_of ex_ths) pss' /\ ps_res (pss' 2) = Some [0%Z] /\
    h' 0 = 8%Z /\ h' 7 = 11%Z.
  Proof.
    vm_compute. repeat split.
    intros [|[|[|i]]] p Hp Hn; discriminate.
  Qed.
End Examples.

Print Assumptions c16_inputs.
Print Assumptions c16_repeat.
Print Assumptions c16_repeat_inputs.
Print Assumptions c16_repeat_call.
Print Assumptions c16_repeat_nodest.
Print Assumptions c17_same_result.
Print Assumptions c17_thread_of_pthread.
Print Assumptions iszero_conforms.
Print Assumptions set_conforms.
Print Assumptions ex_c16_history.
Print Assumptions ex_c16_history_runs.
Print Assumptions ex_c16_set_repeat.
Print Assumptions ex_c17.
Print Assumptions ex_c17_schedule.

(* C15 extras: the acceptance conditions of the text / Scan decoders of
   babyjub/eddsa.go and utils.HexDecode as IFFs on the model functions, the
   never-panics statements of the remaining entry points, and the truncation
   behaviour of utils.BigIntLEBytes. *)
From Coq Require Import ZArith List Bool Lia Arith.
From Verif Require Import Lib.Params Lib.Octets Spec.Edwards
  Model.Outcome Model.Utils Model.BabyJubCore Model.BabyJub Model.Eddsa
  Proofs.OctetsProofs Proofs.UtilsProofs Proofs.CompressProofs Proofs.EddsaCodecProofs.
Import ListNotations.
Local Open Scope Z_scope.

Local Opaque q.

(* ------------------------------------------------------------------ *)
(** * utils.HexDecode *)

(* HexDecode accepts exactly: an even number of hex digits after an optional
   "0x" prefix *)
Theorem HexDecode_accepts_iff h :
  (exists b, HexDecode h = Ok b) <->
  Nat.even (length (strip_0x h)) = true /\ Forall is_hex_char (strip_0x h).
Proof.
  rewrite <- hex_decode_ok_iff. split.
  - intros (b & H). exists b. apply HexDecode_ok_iff. exact H.
  - intros (b & H). exists b. apply HexDecode_ok_iff. exact H.
Qed.

Theorem HexDecode_err_iff h :
  HexDecode h = Err <->
  ~ (Nat.even (length (strip_0x h)) = true /\ Forall is_hex_char (strip_0x h)).
Proof.
  rewrite <- HexDecode_accepts_iff. split.
  - intros H (b & Hb). congruence.
  - intros H. destruct (HexDecode h) as [b| |] eqn:E.
    + exfalso. apply H. exists b. reflexivity.
    + reflexivity.
    + exfalso. exact (HexDecode_never_panics h E).
Qed.

(* the result: half as many bytes, all in 0..255 *)
Theorem HexDecode_result h b : HexDecode h = Ok b ->
  length (strip_0x h) = (2 * length b)%nat /\ Forall is_byte b.
Proof.
  intros H. apply HexDecode_ok_iff in H. exact (hex_decode_some _ _ H).
Qed.

Theorem HexDecode_never_panics h : HexDecode h <> Panic.
Proof. exact (UtilsProofs.HexDecode_never_panics h). Qed.

(* ------------------------------------------------------------------ *)
(** * PublicKeyComp / SignatureComp UnmarshalText (re-exported) *)

Theorem PkCompUnmarshalText_ok_iff h c :
  PkCompUnmarshalText h = Ok c <->
  length (strip_0x h) = 64%nat /\ Forall is_hex_char (strip_0x h) /\
  hex_decode (strip_0x h) = Some c.
Proof. exact (EddsaCodecProofs.PkCompUnmarshalText_ok_iff h c). Qed.

Theorem SigCompUnmarshalText_ok_iff h c :
  SigCompUnmarshalText h = Ok c <->
  length (strip_0x h) = 128%nat /\ Forall is_hex_char (strip_0x h) /\
  hex_decode (strip_0x h) = Some c.
Proof. exact (EddsaCodecProofs.SigCompUnmarshalText_ok_iff h c). Qed.

Theorem PkCompUnmarshalText_accepts_iff h :
  (exists c, PkCompUnmarshalText h = Ok c) <->
  length (strip_0x h) = 64%nat /\ Forall is_hex_char (strip_0x h).
Proof. exact (HexDecodeInto_accepts_iff 32 h). Qed.

Theorem SigCompUnmarshalText_accepts_iff h :
  (exists c, SigCompUnmarshalText h = Ok c) <->
  length (strip_0x h) = 128%nat /\ Forall is_hex_char (strip_0x h).
Proof. exact (HexDecodeInto_accepts_iff 64 h). Qed.

Theorem PkCompUnmarshalText_err_iff h :
  PkCompUnmarshalText h = Err <->
  ~ (length (strip_0x h) = 64%nat /\ Forall is_hex_char (strip_0x h)).
Proof. exact (HexDecodeInto_err_iff 32 h). Qed.

Theorem SigCompUnmarshalText_err_iff h :
  SigCompUnmarshalText h = Err <->
  ~ (length (strip_0x h) = 128%nat /\ Forall is_hex_char (strip_0x h)).
Proof. exact (HexDecodeInto_err_iff 64 h). Qed.

(* ------------------------------------------------------------------ *)
(** * PublicKey.UnmarshalText *)

(* 64 hex digits after an optional 0x AND the decoded bytes decompress *)
Theorem PkUnmarshalText_ok_iff h pk :
  PkUnmarshalText h = Ok pk <->
  length (strip_0x h) = 64%nat /\ Forall is_hex_char (strip_0x h) /\
  exists c, hex_decode (strip_0x h) = Some c /\ PkDecompress c = Ok pk.
Proof.
  unfold PkUnmarshalText. split.
  - intros H. destruct (HexDecodeInto 32 h) as [c| |] eqn:E; try discriminate.
    apply HexDecodeInto_ok_iff in E. destruct E as (Hl & Hf & Hd).
    split; [exact Hl|]. split; [exact Hf|]. exists c. split; [exact Hd|exact H].
  - intros (Hl & Hf & c & Hd & H).
    rewrite (proj2 (HexDecodeInto_ok_iff 32 h c) (conj Hl (conj Hf Hd))). exact H.
Qed.

(* with the decompression condition made explicit: the text is a hex spelling
   (either case, optional 0x) of the compressed form of a canonical curve point *)
Theorem PkUnmarshalText_ok_iff' h pk :
  PkUnmarshalText h = Ok pk <->
  oc pk /\ can pk /\
  length (strip_0x h) = 64%nat /\ Forall is_hex_char (strip_0x h) /\
  hex_decode (strip_0x h) = Some (PkCompress pk).
Proof.
  rewrite PkUnmarshalText_ok_iff. split.
  - intros (Hl & Hf & c & Hd & H).
    destruct (hex_decode_some _ _ Hd) as [Hlc Hbc].
    assert (Hc32 : length c = 32%nat) by lia.
    destruct (PkDecompress_sound c pk Hc32 Hbc H) as (Hoc & Hcan & Hc).
    rewrite Hc. tauto.
  - intros (Hoc & Hcan & Hl & Hf & Hd).
    split; [exact Hl|]. split; [exact Hf|]. exists (PkCompress pk).
    split; [exact Hd|]. apply PkDecompress_PkCompress; assumption.
Qed.

Theorem PkUnmarshalText_err_iff h :
  PkUnmarshalText h = Err <-> ~ exists pk, PkUnmarshalText h = Ok pk.
Proof.
  split.
  - intros H (pk & Hp). congruence.
  - intros H. destruct (PkUnmarshalText h) as [pk| |] eqn:E.
    + exfalso. apply H. exists pk. reflexivity.
    + reflexivity.
    + exfalso. exact (PkUnmarshalText_never_panics h E).
Qed.

(* ------------------------------------------------------------------ *)
(** * DecompressSig *)

Theorem DecompressSig_ok_iff h s :
  DecompressSig h = Ok s <->
  length (strip_0x h) = 128%nat /\ Forall is_hex_char (strip_0x h) /\
  exists c, hex_decode (strip_0x h) = Some c /\ SigDecompress c = Ok s.
Proof.
  unfold DecompressSig, SigCompUnmarshalText. split.
  - intros H. destruct (HexDecodeInto 64 h) as [c| |] eqn:E; try discriminate.
    apply HexDecodeInto_ok_iff in E. destruct E as (Hl & Hf & Hd).
    split; [exact Hl|]. split; [exact Hf|]. exists c. split; [exact Hd|exact H].
  - intros (Hl & Hf & c & Hd & H).
    rewrite (proj2 (HexDecodeInto_ok_iff 64 h c) (conj Hl (conj Hf Hd))). exact H.
Qed.

Theorem DecompressSig_ok_iff' h R8 Sv :
  DecompressSig h = Ok (R8, Sv) <->
  oc R8 /\ can R8 /\ 0 <= Sv < 2 ^ 256 /\
  length (strip_0x h) = 128%nat /\ Forall is_hex_char (strip_0x h) /\
  hex_decode (strip_0x h) = Some (SigCompress (R8, Sv)).
Proof.
  rewrite DecompressSig_ok_iff. split.
  - intros (Hl & Hf & c & Hd & H).
    destruct (hex_decode_some _ _ Hd) as [Hlc Hbc].
    assert (Hc64 : length c = 64%nat) by lia.
    destruct (SigDecompress_sound c R8 Sv Hc64 Hbc H) as (Hoc & Hcan & HS & Hc).
    rewrite Hc. tauto.
  - intros (Hoc & Hcan & HS & Hl & Hf & Hd).
    split; [exact Hl|]. split; [exact Hf|]. exists (SigCompress (R8, Sv)).
    split; [exact Hd|]. apply SigDecompress_SigCompress; assumption.
Qed.

Theorem DecompressSig_err_iff h :
  DecompressSig h = Err <-> ~ exists s, DecompressSig h = Ok s.
Proof.
  split.
  - intros H (s & Hs). congruence.
  - intros H. destruct (DecompressSig h) as [s| |] eqn:E.
    + exfalso. apply H. exists s. reflexivity.
    + reflexivity.
    + exfalso. exact (DecompressSig_never_panics h E).
Qed.

(* ------------------------------------------------------------------ *)
(** * PublicKeyComp.Decompress / Signature.Decompress on arrays *)

Theorem PkDecompress_ok_iff c pk : length c = 32%nat -> Forall is_byte c ->
  (PkDecompress c = Ok pk <-> oc pk /\ can pk /\ PkCompress pk = c).
Proof. exact (decompress_ok_iff c pk). Qed.

Theorem PkDecompress_err_iff c : length c = 32%nat -> Forall is_byte c ->
  (PkDecompress c = Err <-> ~ exists pk, oc pk /\ can pk /\ PkCompress pk = c).
Proof. exact (decompress_err_iff c). Qed.

(* ------------------------------------------------------------------ *)
(** * never panics: the comp Scans, the comp UnmarshalTexts, Decompress *)

Theorem PkCompScan_never_panics src : PkCompScan src <> Panic.
Proof. exact (EddsaCodecProofs.PkCompScan_never_panics src). Qed.
Theorem SigCompScan_never_panics src : SigCompScan src <> Panic.
Proof. exact (EddsaCodecProofs.SigCompScan_never_panics src). Qed.
Theorem PkCompUnmarshalText_never_panics h : PkCompUnmarshalText h <> Panic.
Proof. exact (EddsaCodecProofs.PkCompUnmarshalText_never_panics h). Qed.
Theorem SigCompUnmarshalText_never_panics h : SigCompUnmarshalText h <> Panic.
Proof. exact (EddsaCodecProofs.SigCompUnmarshalText_never_panics h). Qed.
Theorem PkDecompress_never_panics c : PkDecompress c <> Panic.
Proof. exact (EddsaCodecProofs.PkDecompress_never_panics c). Qed.
Theorem SigDecompress_never_panics c : SigDecompress c <> Panic.
Proof. exact (EddsaCodecProofs.SigDecompress_never_panics c). Qed.
Theorem PkUnmarshalText_never_panics h : PkUnmarshalText h <> Panic.
Proof. exact (EddsaCodecProofs.PkUnmarshalText_never_panics h). Qed.
Theorem DecompressSig_never_panics h : DecompressSig h <> Panic.
Proof. exact (EddsaCodecProofs.DecompressSig_never_panics h). Qed.
Theorem PkScan_never_panics src : PkScan src <> Panic.
Proof. exact (EddsaCodecProofs.PkScan_never_panics src). Qed.
Theorem SigScan_never_panics src : SigScan src <> Panic.
Proof. exact (EddsaCodecProofs.SigScan_never_panics src). Qed.

(* all the decoders of the file at once *)
Theorem codec_never_panics :
  (forall src, PkCompScan src <> Panic) /\ (forall src, SigCompScan src <> Panic) /\
  (forall src, PkScan src <> Panic) /\ (forall src, SigScan src <> Panic) /\
  (forall h, PkCompUnmarshalText h <> Panic) /\ (forall h, SigCompUnmarshalText h <> Panic) /\
  (forall h, PkUnmarshalText h <> Panic) /\ (forall h, DecompressSig h <> Panic) /\
  (forall c, PkDecompress c <> Panic) /\ (forall c, SigDecompress c <> Panic) /\
  (forall h, HexDecode h <> Panic) /\ (forall n h, HexDecodeInto n h <> Panic).
Proof.
  repeat split; intros.
  - apply PkCompScan_never_panics.
  - apply SigCompScan_never_panics.
  - apply PkScan_never_panics.
  - apply SigScan_never_panics.
  - apply PkCompUnmarshalText_never_panics.
  - apply SigCompUnmarshalText_never_panics.
  - apply PkUnmarshalText_never_panics.
  - apply DecompressSig_never_panics.
  - apply PkDecompress_never_panics.
  - apply SigDecompress_never_panics.
  - apply HexDecode_never_panics.
  - apply HexDecodeInto_never_panics.
Qed.

(* ------------------------------------------------------------------ *)
(** * utils.BigIntLEBytes truncates silently and drops the sign *)

(* copy(res[:], le) keeps the 32 low-order bytes: values >= 2^256 wrap *)
Theorem BigIntLEBytes_truncates v : 0 <= v ->
  BigIntLEBytes v = BigIntLEBytes (v mod 2 ^ 256).
Proof.
  intros Hv.
  assert (Hm : 0 <= v mod 2 ^ 256) by (apply Z.mod_pos_bound; reflexivity).
  rewrite !BigIntLEBytes_nonneg by assumption.
  rewrite <- pow256_32. symmetry. apply le_bytes_mod.
Qed.

(* big.Int.Bytes() is the absolute value: the sign is lost *)
Theorem BigIntLEBytes_drops_sign v : BigIntLEBytes (- v) = BigIntLEBytes v.
Proof. rewrite !BigIntLEBytes_spec, Z.abs_opp. reflexivity. Qed.

(* in general: the encoding of |v| mod 2^256 *)
Theorem BigIntLEBytes_general v :
  BigIntLEBytes v = le_bytes 32 (Z.abs v mod 2 ^ 256) /\
  SetBigIntFromLEBytes (BigIntLEBytes v) = Z.abs v mod 2 ^ 256.
Proof.
  rewrite BigIntLEBytes_spec, SetBigIntFromLEBytes_spec, le_val_le_bytes, <- pow256_32.
  split; [symmetry; apply le_bytes_mod|reflexivity].
Qed.

(* hence distinct integers can have the same 32-byte form *)
Corollary BigIntLEBytes_collision v : 0 <= v -> BigIntLEBytes (v + 2 ^ 256) = BigIntLEBytes v.
Proof.
  intros Hv. rewrite (BigIntLEBytes_truncates (v + 2 ^ 256)) by lia.
  rewrite (BigIntLEBytes_truncates v Hv). f_equal.
  replace (v + 2 ^ 256) with (v + 1 * 2 ^ 256) by ring.
  apply Z.mod_add. discriminate.
Qed.

Print Assumptions HexDecode_accepts_iff.
Print Assumptions HexDecode_err_iff.
Print Assumptions PkCompUnmarshalText_ok_iff.
Print Assumptions SigCompUnmarshalText_ok_iff.
Print Assumptions PkUnmarshalText_ok_iff.
Print Assumptions PkUnmarshalText_ok_iff'.
Print Assumptions DecompressSig_ok_iff.
Print Assumptions DecompressSig_ok_iff'.
Print Assumptions PkDecompress_ok_iff.
Print Assumptions codec_never_panics.
Print Assumptions BigIntLEBytes_truncates.
Print Assumptions BigIntLEBytes_drops_sign.
Print Assumptions BigIntLEBytes_general.
Print Assumptions BigIntLEBytes_collision.

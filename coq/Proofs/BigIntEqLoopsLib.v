(* Generic facts about the shapes tools/bigintgen (loops mode) emits for Go
   loops: folds over [seq], functional updates [set_nth] of lists that stand
   for slices of pointers.  Used by Proofs/BigIntEqLoops*.v. *)
From Coq Require Import ZArith List Bool Lia.
From Verif Require Import Lib.Octets Model.BabyJub.
Import ListNotations.
Local Open Scope Z_scope.

(* ---- set_nth ---------------------------------------------------------------- *)

Lemma set_nth_app_mid : forall (pre suf : list Z) x y,
  set_nth (length pre) y (pre ++ x :: suf) = pre ++ y :: suf.
Proof.
  intros. unfold set_nth.
  rewrite firstn_app, firstn_all, Nat.sub_diag, firstn_O, app_nil_r.
  replace (S (length pre)) with (length (pre ++ [x]))%nat by (rewrite app_length; simpl; lia).
  replace (pre ++ x :: suf) with ((pre ++ [x]) ++ suf) by (rewrite <- app_assoc; reflexivity).
  rewrite skipn_app, skipn_all, Nat.sub_diag, skipn_O. reflexivity.
Qed.

Lemma nth_app_mid : forall (pre suf : list Z) x d, nth (length pre) (pre ++ x :: suf) d = x.
Proof. intros. rewrite app_nth2, Nat.sub_diag by lia. reflexivity. Qed.

Lemma length_set_nth : forall i v (l : list Z), (i < length l)%nat -> length (set_nth i v l) = length l.
Proof.
  intros i v l H. unfold set_nth. rewrite app_length, firstn_length. cbn [length].
  rewrite skipn_length. lia.
Qed.

(* ---- folds over seq --------------------------------------------------------- *)

(* for i := 0; i < len(l); i++ { a = f(a, l[i]) } *)
Lemma fold_left_seq_nth_gen : forall (A B : Type) (f : A -> B -> A) (d : B) (suf pre : list B) (a0 : A),
  fold_left (fun a i => f a (nth i (pre ++ suf) d)) (seq (length pre) (length suf)) a0 = fold_left f suf a0.
Proof.
  intros A B f d suf. induction suf as [|x suf IH]; intros pre a0; [reflexivity|].
  cbn [length seq fold_left].
  rewrite app_nth2, Nat.sub_diag by lia. cbn [nth].
  specialize (IH (pre ++ [x]) (f a0 x)).
  rewrite <- app_assoc, app_length in IH. cbn [length app] in IH.
  rewrite Nat.add_1_r in IH. exact IH.
Qed.

Lemma fold_left_seq_nth : forall (A B : Type) (f : A -> B -> A) (d : B) (l : list B) (a0 : A),
  fold_left (fun a i => f a (nth i l d)) (seq 0 (length l)) a0 = fold_left f l a0.
Proof. intros. exact (fold_left_seq_nth_gen A B f d l [] a0). Qed.

Lemma fold_left_ext : forall (A B : Type) (f g : A -> B -> A) (l : list B) (a0 : A),
  (forall a b, In b l -> f a b = g a b) -> fold_left f l a0 = fold_left g l a0.
Proof.
  intros A B f g l. induction l as [|x l IH]; intros a0 H; [reflexivity|].
  cbn [fold_left]. rewrite H by (left; reflexivity). apply IH. intros. apply H. right. assumption.
Qed.

(* for i := 0; i < n; i++ { l[i] = f(i, l[i]) }  with n <= len(l) *)
Lemma fold_set_nth_gen : forall (f : nat -> Z -> Z) n (pre suf : list Z),
  (n <= length suf)%nat ->
  fold_left (fun s i => set_nth i (f i (nth i s 0)) s) (seq (length pre) n) (pre ++ suf) =
  pre ++ map (fun ix => f (fst ix) (snd ix)) (combine (seq (length pre) n) (firstn n suf)) ++ skipn n suf.
Proof.
  intros f n. induction n as [|n IH]; intros pre suf Hn.
  - cbn. reflexivity.
  - destruct suf as [|x suf]; [cbn in Hn; lia|].
    cbn [seq fold_left firstn combine map skipn fst snd].
    rewrite nth_app_mid, set_nth_app_mid.
    specialize (IH (pre ++ [f (length pre) x]) suf).
    rewrite app_length in IH. cbn [length] in IH. rewrite Nat.add_1_r in IH.
    rewrite <- !app_assoc in IH. cbn [app] in IH.
    rewrite IH by (cbn in Hn; lia). reflexivity.
Qed.

Lemma fold_set_nth_prefix : forall (f : nat -> Z -> Z) n (l : list Z),
  (n <= length l)%nat ->
  fold_left (fun s i => set_nth i (f i (nth i s 0)) s) (seq 0 n) l =
  map (fun ix => f (fst ix) (snd ix)) (combine (seq 0 n) (firstn n l)) ++ skipn n l.
Proof. intros. exact (fold_set_nth_gen f n [] l H). Qed.

(* the whole slice: the hand models' map over (combine (seq 0 (length l)) l) *)
Lemma fold_set_nth_map : forall (f : nat -> Z -> Z) (l : list Z),
  fold_left (fun s i => set_nth i (f i (nth i s 0)) s) (seq 0 (length l)) l =
  map (fun ix => f (fst ix) (snd ix)) (combine (seq 0 (length l)) l).
Proof.
  intros. rewrite fold_set_nth_prefix by lia.
  rewrite firstn_all, skipn_all, app_nil_r. reflexivity.
Qed.

(* l[i] = g(i) for i < n: the first n slots are rebuilt *)
Lemma fold_set_nth_build : forall (g : nat -> Z) n (l : list Z),
  (n <= length l)%nat ->
  fold_left (fun s i => set_nth i (g i) s) (seq 0 n) l = map g (seq 0 n) ++ skipn n l.
Proof.
  intros g n l H.
  etransitivity; [exact (fold_set_nth_prefix (fun i _ => g i) n l H)|]. cbv beta. f_equal.
  assert (Hl : length (firstn n l) = n) by (rewrite firstn_length; lia).
  generalize dependent (firstn n l). generalize 0%nat. clear H.
  induction n as [|n IH]; intros k fl Hl.
  - reflexivity.
  - destruct fl as [|x fl]; [discriminate|]. cbn [seq combine map fst].
    f_equal. apply IH. cbn in Hl. lia.
Qed.

Lemma map_combine_seq_snd : forall (g : Z -> Z) (l : list Z) k,
  map (fun ix : nat * Z => g (snd ix)) (combine (seq k (length l)) l) = map g l.
Proof.
  intros g l. induction l as [|x l IH]; intros k; [reflexivity|].
  cbn [length seq combine map snd]. f_equal. apply IH.
Qed.

Lemma map_nth_seq : forall (l : list Z) n, (n <= length l)%nat ->
  map (fun i => nth i l 0) (seq 0 n) = firstn n l.
Proof.
  intros l n H.
  assert (G : forall pre suf m, (m <= length suf)%nat ->
            map (fun i => nth i (pre ++ suf) 0) (seq (length pre) m) = firstn m suf).
  { intros pre suf m. revert pre suf. induction m as [|m IH]; intros pre suf Hm; [reflexivity|].
    destruct suf as [|x suf]; [cbn in Hm; lia|].
    cbn [seq map firstn]. rewrite nth_app_mid. f_equal.
    specialize (IH (pre ++ [x]) suf). rewrite app_length, <- app_assoc in IH.
    cbn [length app] in IH. rewrite Nat.add_1_r in IH. apply IH. cbn in Hm. lia. }
  exact (G [] l n H).
Qed.

(* a component of a pair accumulator that evolves on its own *)
Lemma fold_left_snd_indep : forall (A B I : Type) (f : A * B -> I -> A * B) (h : B -> I -> B) l a0 b0,
  (forall a b i, snd (f (a, b) i) = h b i) ->
  snd (fold_left f l (a0, b0)) = fold_left h l b0.
Proof.
  intros A B I f h l. induction l as [|x l IH]; intros a0 b0 H; [reflexivity|].
  cbn [fold_left]. destruct (f (a0, b0) x) as [a1 b1] eqn:E.
  rewrite IH by assumption. f_equal. rewrite <- (H a0 b0 x), E. reflexivity.
Qed.

Lemma fold_left_fst_indep : forall (A B I : Type) (f : A * B -> I -> A * B) (h : A -> I -> A) l a0 b0,
  (forall a b i, fst (f (a, b) i) = h a i) ->
  fst (fold_left f l (a0, b0)) = fold_left h l a0.
Proof.
  intros A B I f h l. induction l as [|x l IH]; intros a0 b0 H; [reflexivity|].
  cbn [fold_left]. destruct (f (a0, b0) x) as [a1 b1] eqn:E.
  rewrite IH by assumption. f_equal. rewrite <- (H a0 b0 x), E. reflexivity.
Qed.

(* loop invariant for a counted loop *)
Lemma fold_left_seq_inv : forall (A : Type) (P : nat -> A -> Prop) (f : A -> nat -> A) n k a0,
  P k a0 ->
  (forall i a, (k <= i < k + n)%nat -> P i a -> P (S i) (f a i)) ->
  P (k + n)%nat (fold_left f (seq k n) a0).
Proof.
  intros A P f n. induction n as [|n IH]; intros k a0 H0 Hs.
  - rewrite Nat.add_0_r. exact H0.
  - cbn [seq fold_left]. replace (k + S n)%nat with (S k + n)%nat by lia.
    apply IH.
    + apply Hs; [lia|exact H0].
    + intros i a Hi. apply Hs. lia.
Qed.

Lemma firstn_S_nth : forall (l : list Z) i, (i < length l)%nat ->
  firstn (S i) l = firstn i l ++ [nth i l 0].
Proof.
  intros l. induction l as [|x l IH]; intros i H; [cbn in H; lia|].
  destruct i as [|i]; [reflexivity|].
  rewrite !firstn_cons. cbn [nth]. rewrite (IH i) by (cbn in H; lia). reflexivity.
Qed.

Lemma map_nth_seq_fun : forall (h : Z -> Z) (l : list Z),
  map (fun i => h (nth i l 0)) (seq 0 (length l)) = map h l.
Proof.
  intros. rewrite <- (map_map (fun i => nth i l 0) h), map_nth_seq, firstn_all by lia. reflexivity.
Qed.

(* l = append(l, g(i)) for every i *)
Lemma fold_left_app_map : forall (A I : Type) (g : I -> A) (l : list I) (init : list A),
  fold_left (fun acc i => acc ++ [g i]) l init = init ++ map g l.
Proof.
  intros A I g l. induction l as [|x l IH]; intros init.
  - cbn. rewrite app_nil_r. reflexivity.
  - cbn [fold_left map]. rewrite IH, <- app_assoc. reflexivity.
Qed.

Lemma let_pair_snd : forall (A B : Type) (p : A * B), (let '(_, b) := p in b) = snd p.
Proof. intros A B [a b]. reflexivity. Qed.
Lemma let_pair_fst : forall (A B : Type) (p : A * B), (let '(a, _) := p in a) = fst p.
Proof. intros A B [a b]. reflexivity. Qed.

Lemma skipn_skipn_add : forall (A : Type) (x y : nat) (l : list A), skipn x (skipn y l) = skipn (y + x) l.
Proof.
  intros A x y. induction y as [|y IH]; intros l; [reflexivity|].
  destruct l as [|a l]; [rewrite !skipn_nil; reflexivity|]. cbn [skipn Nat.add]. apply IH.
Qed.

(* ---- more about set_nth / nth ------------------------------------------------ *)

Lemma nth_set_nth_eq : forall i v (l : list Z), (i < length l)%nat -> nth i (set_nth i v l) 0 = v.
Proof.
  intros i v l H. unfold set_nth.
  rewrite app_nth2 by (rewrite firstn_length; lia).
  rewrite firstn_length, Nat.min_l, Nat.sub_diag by lia. reflexivity.
Qed.

Lemma nth_set_nth_neq : forall i j v (l : list Z), (i < length l)%nat -> i <> j ->
  nth j (set_nth i v l) 0 = nth j l 0.
Proof.
  intros i j v l Hi H. unfold set_nth.
  rewrite <- (firstn_skipn i l) at 3.
  destruct (Nat.lt_ge_cases j i) as [Hj|Hj].
  - rewrite !app_nth1 by (rewrite firstn_length; lia). reflexivity.
  - rewrite !app_nth2 by (rewrite firstn_length; lia).
    rewrite firstn_length, Nat.min_l by lia.
    destruct (j - i)%nat as [|d] eqn:Ed; [lia|]. cbn [nth].
    replace (skipn i l) with (nth i l 0 :: skipn (S i) l).
    + reflexivity.
    + clear -Hi. revert i Hi. induction l as [|x l IH]; intros i Hi; [cbn in Hi; lia|].
      destruct i as [|i]; [reflexivity|]. cbn [nth skipn]. apply IH. cbn in Hi. lia.
Qed.

Lemma set_nth_set_nth : forall i v w (l : list Z), (i < length l)%nat ->
  set_nth i v (set_nth i w l) = set_nth i v l.
Proof.
  intros i v w l H. unfold set_nth.
  rewrite firstn_app, firstn_firstn, Nat.min_id, firstn_length, Nat.min_l, Nat.sub_diag by lia.
  cbn [firstn]. rewrite app_nil_r. f_equal. f_equal.
  replace (S i) with (length (firstn i l ++ [w])) at 1
    by (rewrite app_length, firstn_length; cbn; lia).
  replace (firstn i l ++ w :: skipn (S i) l) with ((firstn i l ++ [w]) ++ skipn (S i) l)
    by (rewrite <- app_assoc; reflexivity).
  rewrite skipn_app, skipn_all, Nat.sub_diag. reflexivity.
Qed.

(* an inner loop that accumulates into one slot *)
Lemma fold_set_nth_same_slot : forall (I : Type) (g : Z -> I -> Z) i (l : list I) (ns : list Z),
  (i < length ns)%nat ->
  fold_left (fun s j => set_nth i (g (nth i s 0) j) s) l ns =
  set_nth i (fold_left g l (nth i ns 0)) ns.
Proof.
  intros I g i l. induction l as [|j l IH]; intros ns H.
  - cbn [fold_left]. unfold set_nth.
    rewrite <- (firstn_skipn i ns) at 1. f_equal.
    clear -H. revert i H. induction ns as [|x ns IH]; intros i H; [cbn in H; lia|].
    destruct i as [|i]; [reflexivity|]. cbn [nth skipn]. apply IH. cbn in H. lia.
  - cbn [fold_left]. rewrite IH by (rewrite length_set_nth; lia).
    rewrite nth_set_nth_eq, set_nth_set_nth by lia. reflexivity.
Qed.

Lemma map_const_repeat : forall (I : Type) (l : list I) (c : Z), map (fun _ => c) l = repeat c (length l).
Proof. intros I l c. induction l as [|x l IH]; [reflexivity|]. cbn. rewrite IH. reflexivity. Qed.

(* the hand models iterate over (index, element) pairs *)
Lemma fold_left_combine_seq_gen : forall (A : Type) (f : A -> nat -> Z -> A) (suf pre : list Z) (a0 : A),
  fold_left (fun a jx => f a (fst jx) (snd jx)) (combine (seq (length pre) (length suf)) suf) a0 =
  fold_left (fun a j => f a j (nth j (pre ++ suf) 0)) (seq (length pre) (length suf)) a0.
Proof.
  intros A f suf. induction suf as [|x suf IH]; intros pre a0; [reflexivity|].
  cbn [length seq combine fold_left fst snd]. rewrite nth_app_mid.
  specialize (IH (pre ++ [x]) (f a0 (length pre) x)).
  rewrite app_length, <- app_assoc in IH. cbn [length app] in IH. rewrite Nat.add_1_r in IH.
  exact IH.
Qed.

Lemma fold_left_combine_seq : forall (A : Type) (f : A -> nat -> Z -> A) (l : list Z) (a0 : A),
  fold_left (fun a jx => f a (fst jx) (snd jx)) (combine (seq 0 (length l)) l) a0 =
  fold_left (fun a j => f a j (nth j l 0)) (seq 0 (length l)) a0.
Proof. intros. exact (fold_left_combine_seq_gen A f l [] a0). Qed.

(* replacing a loop body under an invariant of the accumulator *)
Lemma fold_left_ext_inv : forall (A B : Type) (P : A -> Prop) (f g : A -> B -> A) (l : list B) (a0 : A),
  P a0 -> (forall a b, P a -> In b l -> f a b = g a b /\ P (g a b)) ->
  fold_left f l a0 = fold_left g l a0 /\ P (fold_left g l a0).
Proof.
  intros A B P f g l. induction l as [|x l IH]; intros a0 H0 H; [split; [reflexivity|exact H0]|].
  cbn [fold_left]. destruct (H a0 x H0 (or_introl eq_refl)) as [E HP]. rewrite E.
  apply IH; [exact HP|]. intros a b Ha Hb. apply H; [exact Ha|right; exact Hb].
Qed.

Lemma fold_left_cons : forall (A B : Type) (f : A -> B -> A) x l a,
  fold_left f (x :: l) a = fold_left f l (f a x).
Proof. reflexivity. Qed.
Lemma fold_left_nil : forall (A B : Type) (f : A -> B -> A) a, fold_left f [] a = a.
Proof. reflexivity. Qed.

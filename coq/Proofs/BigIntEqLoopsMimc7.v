(* Equality lemmas between the Gallina regenerated from the Go sources by
   tools/bigintgen in LOOPS mode (Gen/BigIntLoops.v) and the hand-written model
   Model/Mimc7.v: getConstants (the keccak chain), the package-level table
   `constants`, the round loops of MIMC7HashGeneric and MIMC7Hash, the
   absorbing loops of HashGeneric and Hash, the chunking loop of HashBytes.

   Where Go would panic (nRounds <= 0: make of a negative length, cts[0] out
   of range, nil dereference) the hand model says Panic and the generated
   value-level code is not meaningful: those lemmas carry 1 <= nRounds. *)
From Coq Require Import ZArith List Bool Lia Arith.
From Verif Require Import Lib.Params Lib.Octets Spec.Keccak Model.Outcome Model.Utils Model.BabyJub.
From Verif Require Gen.CurveConsts Model.KeccakStream Model.Mimc7.
From Verif Require Import Gen.BigIntLoops Proofs.BigIntEqLoopsLib Proofs.BigIntEqLoopsMisc
  Proofs.KeccakStreamProofs.
Import ListNotations.
Local Open Scope Z_scope.
Local Opaque Z.mul Z.add Z.sub Z.modulo Z.ltb Gen.CurveConsts.Q keccak256 be_val be_bytes
  KeccakStream.Hash Z.to_nat Z.of_nat.

Lemma keccak_one : forall x, keccak256_Hash [x] = keccak256 x.
Proof.
  intros. rewrite gen_keccak256_Hash_eq, keccak_stream_correct. cbn [concat].
  rewrite app_nil_r. reflexivity.
Qed.

Lemma SEED_lit : [109; 105; 109; 99] = Mimc7.SEED.
Proof. reflexivity. Qed.

(* ---- getConstants ------------------------------------------------------------ *)

Lemma chain_length : forall n c, length (Mimc7.chain n c) = n.
Proof. induction n as [|n IH]; intros c; [reflexivity|]. cbn [Mimc7.chain length]. rewrite IH. reflexivity. Qed.

Lemma getConstants_length : forall n, (1 <= n)%nat -> length (Mimc7.getConstants n) = n.
Proof. intros. unfold Mimc7.getConstants. cbn [length]. rewrite chain_length. lia. Qed.

(* the body of the loop of getConstants, as generated *)
Definition getc_body (acc : Z * list Z) (i : nat) : Z * list Z :=
  let '(c, cts) := acc in
  let c := be_val (keccak256_Hash [be_bytes 32 c]) in
  let n := c mod Gen.CurveConsts.Q in
  let cts := set_nth i (n mod Gen.CurveConsts.Q) cts in
  (c, cts).

(* the loop of getConstants from slot (length pre) on, m slots *)
Lemma chain_fold : forall m pre suf c, (m <= length suf)%nat ->
  snd (fold_left getc_body (seq (length pre) m) (c, pre ++ suf)) =
  pre ++ Mimc7.chain m c ++ skipn m suf.
Proof.
  induction m as [|m IH]; intros pre suf c Hm; [reflexivity|].
  destruct suf as [|x suf]; [cbn in Hm; lia|].
  cbn [seq fold_left Mimc7.chain skipn].
  assert (E : getc_body (c, pre ++ x :: suf) (length pre) =
              (Mimc7.chain_step c, pre ++ (Mimc7.chain_step c mod Gen.CurveConsts.Q) :: suf)).
  { unfold getc_body. cbv zeta.
    rewrite keccak_one, set_nth_app_mid.
    change (be_val (keccak256 (be_bytes 32 c))) with (Mimc7.chain_step c).
    rewrite Z.mod_mod by (intro E; discriminate E). reflexivity. }
  rewrite E.
  specialize (IH (pre ++ [Mimc7.chain_step c mod Gen.CurveConsts.Q]) suf (Mimc7.chain_step c)).
  rewrite app_length in IH. cbn [length] in IH. rewrite Nat.add_1_r, <- !app_assoc in IH.
  cbn [app] in IH. rewrite IH by (cbn in Hm; lia). reflexivity.
Qed.

Lemma gen_mimc7_getConstants_eq : forall nRounds, 1 <= nRounds ->
  mimc7_getConstants Mimc7.SEED nRounds = Mimc7.getConstants (Z.to_nat nRounds).
Proof.
  intros nRounds H. unfold mimc7_getConstants, Mimc7.getConstants. cbv zeta.
  change (fun acc : Z * list Z => _) with getc_body.
  rewrite keccak_one.
  assert (Hn : exists n, Z.to_nat nRounds = S n) by (exists (Z.to_nat nRounds - 1)%nat; lia).
  destruct Hn as [n Hn]. rewrite Hn. cbn [repeat]. unfold set_nth at 1. cbn [firstn skipn app].
  replace (S n - 1)%nat with n by lia.
  assert (Hc := chain_fold n [0] (repeat 0 n) (be_val (keccak256 Mimc7.SEED))
                  ltac:(rewrite repeat_length; lia)).
  cbn [length app] in Hc.
  unfold Octets.bytes in *. rewrite let_pair_snd, Hc.
  rewrite skipn_all2 by (rewrite repeat_length; lia). rewrite app_nil_r. reflexivity.
Qed.

(* ---- var constants = generateConstantsData() --------------------------------- *)

Lemma fixedRounds_lit : Mimc7.fixedRounds = 91.
Proof. reflexivity. Qed.

Lemma gen_mimc7_constants_cts_eq : snd mimc7_generateConstantsData = Mimc7.constants_cts.
Proof.
  unfold mimc7_generateConstantsData, Mimc7.constants_cts. cbv zeta. cbn [snd].
  rewrite SEED_lit, fixedRounds_lit. apply gen_mimc7_getConstants_eq. lia.
Qed.

Lemma gen_mimc7_constants_nRounds_eq : snd (fst mimc7_generateConstantsData) = Mimc7.fixedRounds.
Proof. unfold mimc7_generateConstantsData. cbv zeta. cbn [fst snd]. symmetry. apply fixedRounds_lit. Qed.

(* ---- the round loop ------------------------------------------------------------ *)

(* the generated loop body (the same text in MIMC7HashGeneric and MIMC7Hash) *)
Definition round_body (xIn k : Z) (cts : list Z) (r : Z) (i : nat) : Z :=
  let t := if Nat.eqb i 0 then (xIn + k) mod Gen.CurveConsts.Q
           else (((r + k) mod Gen.CurveConsts.Q) + (nth i cts 0)) mod Gen.CurveConsts.Q in
  let t2 := (t * t) mod Gen.CurveConsts.Q in
  let t4 := (t2 * t2) mod Gen.CurveConsts.Q in
  let r := (((t4 * t2) mod Gen.CurveConsts.Q) * t) mod Gen.CurveConsts.Q in
  r.

Lemma rounds_tail : forall xIn k suf pre r, pre <> [] ->
  fold_left (round_body xIn k (pre ++ suf)) (seq (length pre) (length suf)) r =
  Mimc7.rounds suf false xIn k r.
Proof.
  intros xIn k suf. induction suf as [|c suf IH]; intros pre r Hp; [reflexivity|].
  cbn [length seq fold_left Mimc7.rounds].
  assert (E : round_body xIn k (pre ++ c :: suf) r (length pre) =
              Mimc7.pow7 ((((r + k) mod Mimc7.Q) + c) mod Mimc7.Q)).
  { unfold round_body. destruct pre as [|p pre]; [congruence|].
    rewrite nth_app_mid. cbn [length Nat.eqb]. reflexivity. }
  rewrite E.
  specialize (IH (pre ++ [c]) (Mimc7.pow7 ((((r + k) mod Mimc7.Q) + c) mod Mimc7.Q))).
  rewrite app_length, <- app_assoc in IH. cbn [length app] in IH. rewrite Nat.add_1_r in IH.
  apply IH. destruct pre; discriminate.
Qed.

Lemma rounds_all : forall xIn k cts,
  fold_left (round_body xIn k cts) (seq 0 (length cts)) 0 = Mimc7.rounds cts true xIn k 0.
Proof.
  intros xIn k [|c cts]; [reflexivity|].
  cbn [length seq fold_left Mimc7.rounds].
  exact (rounds_tail xIn k cts [c] _ ltac:(discriminate)).
Qed.

(* ---- MIMC7HashGeneric, MIMC7Hash ------------------------------------------------- *)

Lemma gen_mimc7_MIMC7HashGeneric_eq : forall xInBI kBI nRounds, 1 <= nRounds ->
  Ok (mimc7_MIMC7HashGeneric xInBI kBI nRounds) = Mimc7.MIMC7HashGeneric xInBI kBI nRounds.
Proof.
  intros x k n H. unfold mimc7_MIMC7HashGeneric, Mimc7.MIMC7HashGeneric. cbv zeta.
  destruct (n <=? 0) eqn:E; [apply Z.leb_le in E; lia|].
  rewrite SEED_lit, gen_mimc7_getConstants_eq by exact H.
  change (fun (r : Z) (i : nat) => _) with
    (round_body (x mod Gen.CurveConsts.Q) (k mod Gen.CurveConsts.Q) (Mimc7.getConstants (Z.to_nat n))).
  rewrite <- (getConstants_length (Z.to_nat n)) at 2 by lia.
  rewrite rounds_all. reflexivity.
Qed.

Lemma gen_mimc7_MIMC7Hash_eq : forall xInBI kBI,
  mimc7_MIMC7Hash xInBI kBI = Mimc7.MIMC7Hash xInBI kBI.
Proof.
  intros x k. unfold mimc7_MIMC7Hash, Mimc7.MIMC7Hash. cbv zeta.
  rewrite gen_mimc7_constants_cts_eq, gen_mimc7_constants_nRounds_eq.
  change (fun (r : Z) (i : nat) => _) with
    (round_body (x mod Gen.CurveConsts.Q) (k mod Gen.CurveConsts.Q) Mimc7.constants_cts).
  replace (Z.to_nat Mimc7.fixedRounds) with (length Mimc7.constants_cts)
    by (unfold Mimc7.constants_cts; apply getConstants_length; rewrite fixedRounds_lit; lia).
  rewrite rounds_all. reflexivity.
Qed.

(* ---- HashGeneric, Hash ------------------------------------------------------------- *)

Lemma gen_mimc7_HashGeneric_eq : forall iv arr nRounds, 1 <= nRounds ->
  mimc7_HashGeneric iv arr nRounds = Mimc7.HashGeneric iv arr nRounds.
Proof.
  intros iv arr n H. unfold mimc7_HashGeneric, Mimc7.HashGeneric. cbv zeta.
  rewrite gen_utils_CheckBigIntArrayInField_eq.
  destruct (negb _); [reflexivity|].
  rewrite (fold_left_seq_nth Z Z (fun r m => mimc7_MIMC7HashGeneric r m n) 0 arr iv).
  revert iv. induction arr as [|m arr IH]; intros iv; [reflexivity|].
  cbn [fold_left]. unfold bind at 2. rewrite <- gen_mimc7_MIMC7HashGeneric_eq by exact H.
  apply IH.
Qed.

Lemma gen_mimc7_Hash_eq : forall arr key,
  mimc7_Hash arr key = Mimc7.Hash arr key.
Proof.
  intros arr key. unfold mimc7_Hash, Mimc7.Hash. cbv zeta.
  rewrite gen_utils_CheckBigIntArrayInField_eq.
  destruct (negb _); [reflexivity|]. f_equal.
  rewrite (fold_left_seq_nth Z Z (fun r m => ((r + m) + mimc7_MIMC7Hash m r) mod Gen.CurveConsts.Q) 0 arr).
  destruct key as [k|]; apply fold_left_ext; intros; rewrite gen_mimc7_MIMC7Hash_eq; reflexivity.
Qed.

(* ---- HashBytes: the chunking loop ---------------------------------------------------- *)

Lemma chunkLen_lit : Mimc7.chunkLen = 31%nat.
Proof. vm_compute. reflexivity. Qed.

Lemma chunks_fuel_nil : forall f n, Mimc7.chunks_fuel f n [] = [].
Proof. intros [|f] n; reflexivity. Qed.

(* the model's recursion, as the Go code's two steps: len(b)/n full chunks by
   index, then the remainder if there is one *)
Lemma chunks_fuel_spec : forall n, (0 < n)%nat -> forall f (b : bytes), (length b <= f)%nat ->
  Mimc7.chunks_fuel f n b =
  map (fun i => SetBigIntFromLEBytes (firstn n (skipn (n * i) b))) (seq 0 (length b / n)) ++
  (if Nat.eqb (length b mod n) 0 then [] else [SetBigIntFromLEBytes (skipn ((length b / n) * n) b)]).
Proof.
  intros n Hn f. induction f as [|f IH]; intros b Hb.
  - destruct b; [|cbn in Hb; lia]. cbn [Mimc7.chunks_fuel length].
    rewrite Nat.div_0_l, Nat.mod_0_l by lia. reflexivity.
  - destruct b as [|x b0] eqn:Eb.
    { cbn [Mimc7.chunks_fuel length]. rewrite Nat.div_0_l, Nat.mod_0_l by lia. reflexivity. }
    rewrite <- Eb in *. assert (Hne : (0 < length b)%nat) by (subst b; cbn; lia).
    replace (Mimc7.chunks_fuel (S f) n b) with
      (SetBigIntFromLEBytes (firstn n b) :: Mimc7.chunks_fuel f n (skipn n b))
      by (subst b; reflexivity).
    clear Eb x b0.
    destruct (Nat.lt_ge_cases (length b) n) as [Hlt|Hge].
    + rewrite (skipn_all2 (n:=n)), chunks_fuel_nil, firstn_all2 by lia.
      rewrite Nat.div_small, Nat.mod_small by lia.
      destruct (Nat.eqb_spec (length b) 0); [lia|]. reflexivity.
    + rewrite IH by (rewrite skipn_length; lia).
      rewrite skipn_length.
      assert (Hd : (length b / n = S ((length b - n) / n))%nat).
      { replace (length b) with (1 * n + (length b - n))%nat at 1 by lia.
        rewrite Nat.div_add_l by lia. lia. }
      assert (Hm : (length b mod n = (length b - n) mod n)%nat).
      { replace (length b) with ((length b - n) + 1 * n)%nat at 1 by lia.
        apply Nat.mod_add. lia. }
      rewrite Hd, Hm. cbn [seq map]. rewrite Nat.mul_0_r, skipn_O.
      rewrite <- seq_shift, map_map, <- app_comm_cons. f_equal. f_equal.
      * apply map_ext. intros i. rewrite skipn_skipn_add. replace (n + n * i)%nat with (n * S i)%nat by lia. reflexivity.
      * destruct (Nat.eqb _ 0); [reflexivity|]. rewrite skipn_skipn_add.
        replace (n + (length b - n) / n * n)%nat with (S ((length b - n) / n) * n)%nat by lia. reflexivity.
Qed.

Lemma gen_mimc7_HashBytes_eq : forall b,
  mimc7_HashBytes b = Mimc7.HashBytes b.
Proof.
  intros b. unfold mimc7_HashBytes, Mimc7.HashBytes, Mimc7.chunks. cbv zeta.
  rewrite gen_mimc7_Hash_eq, chunkLen_lit. f_equal.
  rewrite (chunks_fuel_spec 31 ltac:(lia) (length b) b (le_n _)).
  rewrite (fold_left_ext _ _ _
             (fun acc i => acc ++ [SetBigIntFromLEBytes (firstn 31 (skipn (31 * i) b))])).
  2:{ intros a i _. rewrite gen_utils_SetBigIntFromLEBytes_eq.
      replace (31 * (i + 1) - 31 * i)%nat with 31%nat by lia. reflexivity. }
  rewrite fold_left_app_map. cbn [app].
  destruct (Nat.eqb (length b mod 31) 0); cbn [negb].
  - rewrite app_nil_r. reflexivity.
  - rewrite gen_utils_SetBigIntFromLEBytes_eq. reflexivity.
Qed.

Print Assumptions gen_mimc7_getConstants_eq.
Print Assumptions gen_mimc7_constants_cts_eq.
Print Assumptions gen_mimc7_MIMC7HashGeneric_eq.
Print Assumptions gen_mimc7_MIMC7Hash_eq.
Print Assumptions gen_mimc7_HashGeneric_eq.
Print Assumptions gen_mimc7_Hash_eq.
Print Assumptions gen_mimc7_HashBytes_eq.

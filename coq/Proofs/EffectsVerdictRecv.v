(* C19 verdict on the regenerated effect IR: the four receiver-storing methods. *)
From Coq Require Import String List Bool Arith ZArith Lia.
Import ListNotations.
From Verif Require Import Model.Effects Gen.EffectsIR Proofs.EffectsProofs Proofs.EffectsDocumented.
Open Scope string_scope.

Lemma c19_receiver_stored :
  forallb (receiver_stored funcs recv_fields) c19_methods = true.
Proof. vm_compute. reflexivity. Qed.

Section Repo.
  (* any layout of the package-level variables in the heap *)
  Variable gl : string -> region.

(* C19: whenever one of the four methods returns a reference, it is the
     receiver itself, and a store into every reference field of the receiver
     (X, Y / R8, S) has been executed on the receiver before the return,
     for all arguments, including arguments that alias the receiver. *)
  Theorem c19_receiver : forall f, In f c19_methods ->
      forall n ps h nx h' nx' tr D R,
        run funcs gl n f ps h nx h' nx' tr (Some (D, R)) ->
        (forall c, ~ D c) \/
        ((forall c, D c <-> denP ps 0 c) /\
         forall fld, In fld (fields_of recv_fields f) ->
           exists x, In (EvF x [RParam 0]) tr /\ (x = fld \/ x = "*")).
  Proof.
    intros f Hf. apply receiver_stored_sound.
    pose proof c19_receiver_stored as H. rewrite forallb_forall in H. apply H, Hf.
  Qed.
End Repo.

(* the fields concerned, computed from the generated table *)
Lemma c19_fields :
  map (fields_of recv_fields) c19_methods =
  [["X"; "Y"]; ["X"; "Y"]; ["R8"; "S"]; ["X"; "Y"]].
Proof. vm_compute. reflexivity. Qed.


Print Assumptions c19_receiver_stored.
Print Assumptions c19_receiver.

(* C05, helper: congruence modulo q, mval, and the multi-limb building blocks
   (4-limb add / sub / shift-right-by-one / comparisons) shared by the
   straight-line routines and by Inverse. *)
From Coq Require Import ZArith List Lia Zdiv Zpow_facts Morphisms Setoid Bool.
From Verif Require Import Lib.Params Lib.Words Model.FfLimbs Proofs.FfWords.
Import ListNotations.
Local Open Scope Z_scope.

Local Ltac Zify.zify_post_hook ::= Z.div_mod_to_equations.
Local Opaque q.

Ltac zl := unfold u64, W in *; lia.
Ltac zw := rewrite ?WW_val in *; unfold u64, W in *; lia.

(* ------------------------------------------------------------------ *)
(** * Congruence modulo q as a setoid *)

Definition eqq (a b : Z) : Prop := a mod q = b mod q.
Infix "==q" := eqq (at level 70).

#[global] Instance eqq_equiv : Equivalence eqq := eqm_setoid q.
#[global] Instance eqq_add : Proper (eqq ==> eqq ==> eqq) Z.add := Zplus_eqm q.
#[global] Instance eqq_sub : Proper (eqq ==> eqq ==> eqq) Z.sub := Zminus_eqm q.
#[global] Instance eqq_mul : Proper (eqq ==> eqq ==> eqq) Z.mul := Zmult_eqm q.
#[global] Instance eqq_opp : Proper (eqq ==> eqq) Z.opp := Zopp_eqm q.

Lemma eqq_mod : forall a, a mod q ==q a.
Proof. intros a. exact (Zmod_eqm q a). Qed.

Lemma eqq_q : q ==q 0.
Proof. unfold eqq. rewrite Z.mod_same by (pose proof q_pos'; lia). reflexivity. Qed.

Lemma eqq_RRinv : WW * Rinv ==q 1.
Proof.
  unfold eqq. rewrite WW_Rinv_spec. symmetry. apply Z.mod_small.
  pose proof q_gt_2'. lia.
Qed.

Lemma eqq_pow : forall a b e, a ==q b -> a ^ e ==q b ^ e.
Proof.
  intros a b e H. unfold eqq in *.
  rewrite (Zpower_mod a e q q_pos'), (Zpower_mod b e q q_pos'), H. reflexivity.
Qed.

Lemma eqq_intro : forall a b k, a = b + k * q -> a ==q b.
Proof. intros a b k ->. unfold eqq. apply Z.mod_add. pose proof q_pos'. lia. Qed.

Lemma eqq_small_eq : forall a b, 0 <= a < q -> 0 <= b < q -> a ==q b -> a = b.
Proof.
  unfold eqq. intros a b Ha Hb H.
  rewrite (Z.mod_small a q Ha), (Z.mod_small b q Hb) in H. exact H.
Qed.

Lemma eqq_mod_eq : forall a b, 0 <= a < q -> a ==q b -> a = b mod q.
Proof.
  intros a b Ha H. apply eqq_small_eq; [ exact Ha | apply Z.mod_pos_bound; exact q_pos' | ].
  rewrite eqq_mod. exact H.
Qed.

(* ------------------------------------------------------------------ *)
(** * Limbs, val *)

Definition limbs_ok (z : el) : Prop :=
  let '(z0, z1, z2, z3) := z in u64 z0 /\ u64 z1 /\ u64 z2 /\ u64 z3.

Lemma val_eq : forall z0 z1 z2 z3,
  val (z0, z1, z2, z3) = z0 + W * (z1 + W * (z2 + W * z3)).
Proof. intros. unfold val. ring. Qed.

Lemma WW_eq : WW = W * (W * (W * W)).
Proof. unfold WW. ring. Qed.

Lemma qEl_eq : q = q0 + W * (q1 + W * (q2 + W * q3)).
Proof. rewrite <- val_qEl. ring. Qed.

Lemma canon_limbs : forall z, canon z -> limbs_ok z.
Proof. intros [[[z0 z1] z2] z3] [H _]. exact H. Qed.

Lemma canon_val : forall z, canon z -> 0 <= val z < q.
Proof.
  intros [[[z0 z1] z2] z3] [(H0 & H1 & H2 & H3) H]. split; [ | exact H ].
  rewrite val_eq. zl.
Qed.

Lemma limbs_val : forall z, limbs_ok z -> 0 <= val z < WW.
Proof.
  intros [[[z0 z1] z2] z3] (H0 & H1 & H2 & H3). rewrite val_eq, WW_eq. zl.
Qed.

Lemma canon_intro : forall z, limbs_ok z -> val z < q -> canon z.
Proof. intros [[[z0 z1] z2] z3] H1 H2. split; assumption. Qed.

Lemma limbs_qEl : limbs_ok qEl.
Proof. exact q_limbs_u64. Qed.

Lemma val_qEl' : val qEl = q.
Proof. unfold qEl. rewrite val_eq. symmetry. exact qEl_eq. Qed.

Lemma val_inj : forall x y, limbs_ok x -> limbs_ok y -> val x = val y -> x = y.
Proof.
  intros [[[x0 x1] x2] x3] [[[y0 y1] y2] y3] (A0 & A1 & A2 & A3) (B0 & B1 & B2 & B3) H.
  rewrite !val_eq in H.
  assert (x0 = y0) by zl. subst y0.
  assert (x1 = y1) by zl. subst y1.
  assert (x2 = y2) by zl. subst y2.
  assert (x3 = y3) by zl. subst y3. reflexivity.
Qed.

(* ------------------------------------------------------------------ *)
(** * mval: the field value of a Montgomery-form element *)

Lemma mval_eqq : forall z, mval z ==q val z * Rinv.
Proof. intros z. unfold mval. apply eqq_mod. Qed.

Lemma mval_range : forall z, 0 <= mval z < q.
Proof. intros z. unfold mval. apply Z.mod_pos_bound. exact q_pos'. Qed.

Lemma mval_R : forall z, mval z * WW ==q val z.
Proof.
  intros z. rewrite mval_eqq.
  replace (val z * Rinv * WW) with (val z * (WW * Rinv)) by ring.
  rewrite eqq_RRinv. rewrite Z.mul_1_r. reflexivity.
Qed.

(* r*R = a (mod q)  ->  r = a*Rinv (mod q) *)
Lemma eqq_R_cancel : forall r a, r * WW ==q a -> r ==q a * Rinv.
Proof.
  intros r a H. rewrite <- H.
  replace (r * WW * Rinv) with (r * (WW * Rinv)) by ring.
  rewrite eqq_RRinv. rewrite Z.mul_1_r. reflexivity.
Qed.

Lemma mval_of_val : forall z a, val z ==q a -> mval z = (a * Rinv) mod q.
Proof.
  intros z a H. apply eqq_mod_eq; [ apply mval_range | ].
  rewrite mval_eqq, H. reflexivity.
Qed.

Lemma mval_inj : forall a b, canon a -> canon b -> mval a = mval b -> a = b.
Proof.
  intros a b Ha Hb H.
  apply val_inj; [ apply canon_limbs; exact Ha | apply canon_limbs; exact Hb | ].
  apply eqq_small_eq; [ apply canon_val; exact Ha | apply canon_val; exact Hb | ].
  rewrite <- (mval_R a), <- (mval_R b), H. reflexivity.
Qed.

Lemma mval_zero_iff : forall z, canon z -> (mval z = 0 <-> val z = 0).
Proof.
  intros z Hz. split.
  - intros H. apply eqq_small_eq; [ apply canon_val; exact Hz | pose proof q_pos'; lia | ].
    rewrite <- mval_R, H. reflexivity.
  - intros H. unfold mval. rewrite H. rewrite Z.mul_0_l. apply Z.mod_0_l.
    pose proof q_pos'. lia.
Qed.

(* ------------------------------------------------------------------ *)
(** * 4-limb addition and subtraction *)

Definition add4 (x y : el) : el * Z :=
  let '(x0, x1, x2, x3) := x in
  let '(y0, y1, y2, y3) := y in
  let '(z0, c) := add64 x0 y0 0 in
  let '(z1, c) := add64 x1 y1 c in
  let '(z2, c) := add64 x2 y2 c in
  let '(z3, c) := add64 x3 y3 c in
  ((z0, z1, z2, z3), c).

Definition sub4 (x y : el) : el * Z :=
  let '(x0, x1, x2, x3) := x in
  let '(y0, y1, y2, y3) := y in
  let '(z0, b) := sub64 x0 y0 0 in
  let '(z1, b) := sub64 x1 y1 b in
  let '(z2, b) := sub64 x2 y2 b in
  let '(z3, b) := sub64 x3 y3 b in
  ((z0, z1, z2, z3), b).

Lemma add4_spec : forall x y, limbs_ok x -> limbs_ok y ->
  limbs_ok (fst (add4 x y)) /\
  val (fst (add4 x y)) + snd (add4 x y) * WW = val x + val y /\
  0 <= snd (add4 x y) <= 1.
Proof.
  intros [[[x0 x1] x2] x3] [[[y0 y1] y2] y3] (A0 & A1 & A2 & A3) (B0 & B1 & B2 & B3).
  unfold add4.
  destruct (add64 x0 y0 0) as [z0 c0] eqn:E0.
  apply add64_spec in E0; [ | assumption | assumption | lia ].
  destruct E0 as (E0 & Z0 & C0).
  destruct (add64 x1 y1 c0) as [z1 c1] eqn:E1.
  apply add64_spec in E1; [ | assumption | assumption | lia ].
  destruct E1 as (E1 & Z1 & C1).
  destruct (add64 x2 y2 c1) as [z2 c2] eqn:E2.
  apply add64_spec in E2; [ | assumption | assumption | lia ].
  destruct E2 as (E2 & Z2 & C2).
  destruct (add64 x3 y3 c2) as [z3 c3] eqn:E3.
  apply add64_spec in E3; [ | assumption | assumption | lia ].
  destruct E3 as (E3 & Z3 & C3).
  cbn [fst snd limbs_ok]. rewrite !val_eq, WW_eq.
  split; [ tauto | ]. split; [ | exact C3 ]. zl.
Qed.

Lemma sub4_spec : forall x y, limbs_ok x -> limbs_ok y ->
  limbs_ok (fst (sub4 x y)) /\
  val (fst (sub4 x y)) = val x - val y + snd (sub4 x y) * WW /\
  0 <= snd (sub4 x y) <= 1.
Proof.
  intros [[[x0 x1] x2] x3] [[[y0 y1] y2] y3] (A0 & A1 & A2 & A3) (B0 & B1 & B2 & B3).
  unfold sub4.
  destruct (sub64 x0 y0 0) as [z0 c0] eqn:E0.
  apply sub64_spec in E0; [ | assumption | assumption | lia ].
  destruct E0 as (E0 & Z0 & C0).
  destruct (sub64 x1 y1 c0) as [z1 c1] eqn:E1.
  apply sub64_spec in E1; [ | assumption | assumption | lia ].
  destruct E1 as (E1 & Z1 & C1).
  destruct (sub64 x2 y2 c1) as [z2 c2] eqn:E2.
  apply sub64_spec in E2; [ | assumption | assumption | lia ].
  destruct E2 as (E2 & Z2 & C2).
  destruct (sub64 x3 y3 c2) as [z3 c3] eqn:E3.
  apply sub64_spec in E3; [ | assumption | assumption | lia ].
  destruct E3 as (E3 & Z3 & C3).
  cbn [fst snd limbs_ok]. rewrite !val_eq, WW_eq.
  split; [ tauto | ]. split; [ | exact C3 ]. zl.
Qed.

(* no carry out / no borrow out *)
Lemma add4_exact : forall x y, limbs_ok x -> limbs_ok y -> val x + val y < WW ->
  limbs_ok (fst (add4 x y)) /\ val (fst (add4 x y)) = val x + val y /\ snd (add4 x y) = 0.
Proof.
  intros x y Hx Hy Hlt. destruct (add4_spec x y Hx Hy) as (Hl & Hv & Hc).
  pose proof (limbs_val _ Hl). split; [ exact Hl | ]. zw.
Qed.

Lemma sub4_exact : forall x y, limbs_ok x -> limbs_ok y -> val y <= val x ->
  limbs_ok (fst (sub4 x y)) /\ val (fst (sub4 x y)) = val x - val y /\ snd (sub4 x y) = 0.
Proof.
  intros x y Hx Hy Hle. destruct (sub4_spec x y Hx Hy) as (Hl & Hv & Hc).
  pose proof (limbs_val _ Hl). pose proof (limbs_val _ Hx). pose proof (limbs_val _ Hy).
  split; [ exact Hl | ]. zw.
Qed.

Lemma sub4_borrow : forall x y, limbs_ok x -> limbs_ok y -> val x < val y ->
  limbs_ok (fst (sub4 x y)) /\ val (fst (sub4 x y)) = val x - val y + WW /\ snd (sub4 x y) = 1.
Proof.
  intros x y Hx Hy Hlt. destruct (sub4_spec x y Hx Hy) as (Hl & Hv & Hc).
  pose proof (limbs_val _ Hl). pose proof (limbs_val _ Hx). pose proof (limbs_val _ Hy).
  split; [ exact Hl | ]. zw.
Qed.

(* wrapping add after a borrow: (a - b + WW) + c - WW *)
Lemma add4_wrap : forall x y, limbs_ok x -> limbs_ok y -> WW <= val x + val y ->
  limbs_ok (fst (add4 x y)) /\ val (fst (add4 x y)) = val x + val y - WW.
Proof.
  intros x y Hx Hy Hle. destruct (add4_spec x y Hx Hy) as (Hl & Hv & Hc).
  pose proof (limbs_val _ Hl). pose proof (limbs_val _ Hx). pose proof (limbs_val _ Hy).
  split; [ exact Hl | ]. zw.
Qed.

(* ------------------------------------------------------------------ *)
(** * Comparisons *)

Lemma lt_limbs_spec : forall v0 v1 v2 v3 u0 u1 u2 u3,
  limbs_ok (v0, v1, v2, v3) -> limbs_ok (u0, u1, u2, u3) ->
  lt_limbs v0 v1 v2 v3 u0 u1 u2 u3 = (val (v0, v1, v2, v3) <? val (u0, u1, u2, u3)).
Proof.
  intros v0 v1 v2 v3 u0 u1 u2 u3 (A0 & A1 & A2 & A3) (B0 & B1 & B2 & B3).
  rewrite !val_eq. unfold lt_limbs.
  apply Bool.eq_iff_eq_true.
  rewrite !Bool.orb_true_iff, !Bool.andb_true_iff, !Bool.orb_true_iff,
    !Bool.andb_true_iff, !Bool.orb_true_iff, !Bool.andb_true_iff.
  rewrite !Z.ltb_lt, !Z.eqb_eq. zl.
Qed.

Lemma lt_q_lt_limbs : forall z0 z1 z2 z3,
  lt_q z0 z1 z2 z3 = lt_limbs z0 z1 z2 z3 q0 q1 q2 q3.
Proof. reflexivity. Qed.

Lemma lt_q_spec : forall z0 z1 z2 z3, limbs_ok (z0, z1, z2, z3) ->
  lt_q z0 z1 z2 z3 = (val (z0, z1, z2, z3) <? q).
Proof.
  intros z0 z1 z2 z3 Hz. rewrite lt_q_lt_limbs.
  rewrite lt_limbs_spec; [ | exact Hz | exact limbs_qEl ].
  fold qEl. rewrite val_qEl'. reflexivity.
Qed.

(* "if z > q --> z -= q" *)
Definition cond_sub_q (z : el) : el :=
  let '(z0, z1, z2, z3) := z in
  if negb (lt_q z0 z1 z2 z3) then fst (sub4 (z0, z1, z2, z3) qEl) else (z0, z1, z2, z3).

Lemma cond_sub_q_spec : forall z, limbs_ok z -> val z < 2 * q ->
  canon (cond_sub_q z) /\ val (cond_sub_q z) = val z mod q /\ val (cond_sub_q z) ==q val z.
Proof.
  intros [[[z0 z1] z2] z3] Hz Hlt. unfold cond_sub_q.
  rewrite lt_q_spec by exact Hz.
  pose proof (limbs_val _ Hz) as Hr. pose proof q_pos' as Hq.
  destruct (Z.ltb_spec (val (z0, z1, z2, z3)) q) as [E | E]; cbn [negb].
  - split; [ apply canon_intro; assumption | ]. split.
    + symmetry. apply Z.mod_small. lia.
    + reflexivity.
  - destruct (sub4_exact (z0, z1, z2, z3) qEl Hz limbs_qEl) as (Hl & Hv & _).
    { rewrite val_qEl'. exact E. }
    rewrite val_qEl' in Hv.
    split; [ apply canon_intro; [ exact Hl | lia ] | ]. split.
    + rewrite Hv. symmetry.
      replace (val (z0, z1, z2, z3)) with (val (z0, z1, z2, z3) - q + 1 * q) at 1 by ring.
      rewrite Z.mod_add by lia. apply Z.mod_small. lia.
    + rewrite Hv. apply (eqq_intro _ _ (-1)). ring.
Qed.

Lemma cond_sub_q_canon : forall z, canon z -> cond_sub_q z = z.
Proof.
  intros [[[z0 z1] z2] z3] Hz. unfold cond_sub_q.
  rewrite lt_q_spec by (apply canon_limbs; exact Hz).
  pose proof (canon_val _ Hz) as Hv.
  destruct (Z.ltb_spec (val (z0, z1, z2, z3)) q); [ reflexivity | lia ].
Qed.

(* ------------------------------------------------------------------ *)
(** * Bit operations: parity, zero tests, shift right by one *)

Lemma and1_spec : forall a, and64 a 1 = a mod 2.
Proof. intros a. unfold and64. change 1 with (Z.ones 1). apply Z.land_ones. lia. Qed.

Lemma or64_zero : forall a b, or64 a b = 0 <-> a = 0 /\ b = 0.
Proof. intros a b. unfold or64. apply Z.lor_eq_0_iff. Qed.

Lemma val_zero_limbs : forall z0 z1 z2 z3, limbs_ok (z0, z1, z2, z3) ->
  (val (z0, z1, z2, z3) = 0 <-> z0 = 0 /\ z1 = 0 /\ z2 = 0 /\ z3 = 0).
Proof.
  intros z0 z1 z2 z3 (H0 & H1 & H2 & H3). rewrite val_eq. zl.
Qed.

Lemma isZero_spec : forall z, limbs_ok z -> isZero z = (val z =? 0).
Proof.
  intros [[[z0 z1] z2] z3] Hz. unfold isZero.
  apply Bool.eq_iff_eq_true. rewrite !Z.eqb_eq.
  rewrite (val_zero_limbs _ _ _ _ Hz). rewrite !or64_zero. tauto.
Qed.

(* the exit tests of Inverse: (u[0] == 1) && (u[3]|u[2]|u[1]) == 0 *)
Lemma isOne_spec : forall z0 z1 z2 z3, limbs_ok (z0, z1, z2, z3) ->
  ((z0 =? 1) && (or64 (or64 z3 z2) z1 =? 0))%bool = (val (z0, z1, z2, z3) =? 1).
Proof.
  intros z0 z1 z2 z3 (H0 & H1 & H2 & H3).
  apply Bool.eq_iff_eq_true. rewrite Bool.andb_true_iff, !Z.eqb_eq.
  rewrite !or64_zero. rewrite val_eq. zl.
Qed.

Lemma equal_spec : forall z x, limbs_ok z -> limbs_ok x -> equal z x = (val z =? val x).
Proof.
  intros [[[z0 z1] z2] z3] [[[x0 x1] x2] x3] (A0 & A1 & A2 & A3) (B0 & B1 & B2 & B3).
  unfold equal. apply Bool.eq_iff_eq_true.
  rewrite !Bool.andb_true_iff, !Z.eqb_eq. rewrite !val_eq. zl.
Qed.

Lemma land_pow2_small : forall a n, 0 <= n -> 0 <= a < 2 ^ n -> Z.land a (2 ^ n) = 0.
Proof.
  intros a n Hn Ha. apply Z.bits_inj'. intros i Hi.
  rewrite Z.land_spec, Z.bits_0, Z.pow2_bits_eqb by lia.
  destruct (Z.eqb_spec n i) as [-> | Hne].
  - destruct (Z.eq_dec a 0) as [-> | Hnz].
    + rewrite Z.bits_0. reflexivity.
    + rewrite Z.bits_above_log2; [ reflexivity | lia | ].
      apply Z.log2_lt_pow2; lia.
  - apply Bool.andb_false_r.
Qed.

Lemma shr_or_spec : forall a b, u64 a -> u64 b ->
  or64 (shr64 a 1) (shl64 b 63) = a / 2 + (b mod 2) * 2 ^ 63.
Proof.
  intros a b Ha Hb. unfold or64, shr64, shl64.
  rewrite Z.shiftr_div_pow2, Z.shiftl_mul_pow2 by lia.
  change (2 ^ 1) with 2.
  assert (HW : W = 2 * 2 ^ 63) by reflexivity.
  rewrite HW. rewrite Z.mul_mod_distr_r by lia.
  assert (Hb2 : b mod 2 = 0 \/ b mod 2 = 1) by lia.
  destruct Hb2 as [-> | ->].
  - rewrite Z.mul_0_l, Z.lor_0_r. ring.
  - rewrite Z.mul_1_l.
    assert (Hl : Z.land (a / 2) (2 ^ 63) = 0).
    { apply land_pow2_small; [ lia | ]. unfold u64 in Ha. rewrite HW in Ha.
      remember (2 ^ 63) as P. assert (0 < P) by (subst P; reflexivity). lia. }
    rewrite <- Z.lxor_lor by exact Hl. rewrite <- Z.add_nocarry_lxor by exact Hl.
    reflexivity.
Qed.

Definition shr1 (z : el) : el :=
  let '(z0, z1, z2, z3) := z in
  let z0 := or64 (shr64 z0 1) (shl64 z1 63) in
  let z1 := or64 (shr64 z1 1) (shl64 z2 63) in
  let z2 := or64 (shr64 z2 1) (shl64 z3 63) in
  let z3 := shr64 z3 1 in
  (z0, z1, z2, z3).

Lemma shr1_spec : forall z, limbs_ok z ->
  limbs_ok (shr1 z) /\ val (shr1 z) = val z / 2.
Proof.
  intros [[[z0 z1] z2] z3] (H0 & H1 & H2 & H3). unfold shr1. cbv zeta.
  rewrite !shr_or_spec by assumption.
  unfold shr64. rewrite Z.shiftr_div_pow2 by lia. change (2 ^ 1) with 2.
  cbn [limbs_ok]. rewrite !val_eq.
  change (2 ^ 63) with 9223372036854775808.
  split; [ unfold u64, W in *; repeat split; lia | ]. zl.
Qed.

Lemma parity_spec : forall z0 z1 z2 z3, and64 z0 1 = val (z0, z1, z2, z3) mod 2.
Proof.
  intros. rewrite and1_spec, val_eq. unfold W.
  replace (z0 + 18446744073709551616 * (z1 + 18446744073709551616 * (z2 + 18446744073709551616 * z3)))
    with (z0 + (9223372036854775808 * (z1 + 18446744073709551616 * (z2 + 18446744073709551616 * z3))) * 2) by ring.
  rewrite Z.mod_add by lia. reflexivity.
Qed.

(* "if z[0]&1 == 1 { z += q }; z >>= 1": halving modulo q *)
Definition half_mod_q (z : el) : el :=
  let '(z0, z1, z2, z3) := z in
  shr1 (if and64 z0 1 =? 1 then fst (add4 (z0, z1, z2, z3) qEl) else (z0, z1, z2, z3)).

Lemma half_mod_q_spec : forall z, canon z ->
  canon (half_mod_q z) /\ 2 * val (half_mod_q z) ==q val z.
Proof.
  intros [[[z0 z1] z2] z3] Hz. unfold half_mod_q.
  pose proof (canon_val _ Hz) as Hv. pose proof (canon_limbs _ Hz) as Hl.
  pose proof q_two_lt_R as HqR. pose proof q_odd' as Hqo.
  rewrite (parity_spec z0 z1 z2 z3).
  remember (z0, z1, z2, z3) as z eqn:Ez.
  destruct (Z.eqb_spec (val z mod 2) 1) as [E | E].
  - destruct (add4_exact z qEl Hl limbs_qEl) as (Hl' & Hv' & _).
    { rewrite val_qEl'. lia. }
    rewrite val_qEl' in Hv'.
    destruct (shr1_spec _ Hl') as (Hl2 & Hv2). rewrite Hv' in Hv2.
    split; [ apply canon_intro; [ exact Hl2 | lia ] | ].
    rewrite Hv2. apply (eqq_intro _ _ 1). lia.
  - destruct (shr1_spec _ Hl) as (Hl2 & Hv2).
    split; [ apply canon_intro; [ exact Hl2 | lia ] | ].
    rewrite Hv2. apply (eqq_intro _ _ 0). lia.
Qed.

(* if moreover val z is even (Inverse halves u/v and r/s together) *)
Lemma half_mod_q_val : forall z, canon z ->
  val (half_mod_q z) = (if val z mod 2 =? 1 then (val z + q) / 2 else val z / 2).
Proof.
  intros [[[z0 z1] z2] z3] Hz. unfold half_mod_q.
  pose proof (canon_val _ Hz) as Hv. pose proof (canon_limbs _ Hz) as Hl.
  pose proof q_two_lt_R as HqR.
  rewrite (parity_spec z0 z1 z2 z3).
  remember (z0, z1, z2, z3) as z eqn:Ez.
  destruct (Z.eqb_spec (val z mod 2) 1) as [E | E].
  - destruct (add4_exact z qEl Hl limbs_qEl) as (Hl' & Hv' & _).
    { rewrite val_qEl'. lia. }
    rewrite val_qEl' in Hv'.
    destruct (shr1_spec _ Hl') as (Hl2 & Hv2). rewrite Hv' in Hv2. exact Hv2.
  - destruct (shr1_spec _ Hl) as (Hl2 & Hv2). exact Hv2.
Qed.

(* C11 (ffg part): conversions between ffg.Element and math/big integers.

   SetBigInt accepts EVERY integer (negative, >= pg, arbitrarily large) and
   yields the canonical Montgomery representative of its residue mod pg;
   ToBigIntRegular returns the field value in [0,pg); the two are mutually
   inverse on canonical elements / residues, and the representation is
   injective. *)
From Coq Require Import ZArith List Lia Zdiv Znumtheory Morphisms Setoid.
From Verif Require Import Lib.Params Lib.Words Lib.Powmod Lib.NumberTheory
  Lib.Primes Model.FfgLimbs Proofs.FfgArith Proofs.FfgMont.
Import ListNotations.
Local Open Scope Z_scope.

(* ------------------------------------------------------------------ *)
(** * SetBigInt: all integers *)

Theorem setBigInt_correct : forall v : Z,
  canon (setBigInt v) /\ mval (setBigInt v) = v mod pg.
Proof. exact setBigInt_ok. Qed.

(* ------------------------------------------------------------------ *)
(** * ToBigIntRegular *)

Theorem toBigIntRegular_correct : forall z, canon z -> toBigIntRegular z = mval z.
Proof. intros z Hz. apply toBigIntRegular_ok. exact Hz. Qed.

Theorem toBigIntRegular_range : forall z, canon z -> 0 <= toBigIntRegular z < pg.
Proof. intros z Hz. apply (toBigIntRegular_ok z Hz). Qed.

(* ------------------------------------------------------------------ *)
(** * Round trips *)

Theorem setBigInt_toBigIntRegular : forall z, canon z ->
  setBigInt (toBigIntRegular z) = z.
Proof.
  intros z Hz. rewrite (toBigIntRegular_correct z Hz).
  destruct (setBigInt_ok (mval z)) as [Hc Hm].
  apply mval_inj; [ exact Hc | exact Hz | ].
  rewrite Hm. apply Z.mod_small. apply mval_canon.
Qed.

Theorem toBigIntRegular_setBigInt : forall v : Z,
  toBigIntRegular (setBigInt v) = v mod pg.
Proof.
  intros v. destruct (setBigInt_ok v) as [Hc Hm].
  rewrite (toBigIntRegular_correct _ Hc). exact Hm.
Qed.

(* ------------------------------------------------------------------ *)
(** * Injectivity of the representation *)

Theorem mval_injective : forall a b, canon a -> canon b -> mval a = mval b -> a = b.
Proof. exact mval_inj. Qed.

Corollary toBigIntRegular_inj : forall a b, canon a -> canon b ->
  toBigIntRegular a = toBigIntRegular b -> a = b.
Proof.
  intros a b Ha Hb H.
  rewrite (toBigIntRegular_correct a Ha), (toBigIntRegular_correct b Hb) in H.
  apply mval_inj; assumption.
Qed.

(* two integers give the same element iff they are congruent mod pg *)
Corollary setBigInt_eq_iff : forall v w : Z,
  setBigInt v = setBigInt w <-> v mod pg = w mod pg.
Proof.
  intros v w. destruct (setBigInt_ok v) as [Hcv Hmv].
  destruct (setBigInt_ok w) as [Hcw Hmw]. split.
  - intros H. rewrite <- Hmv, <- Hmw, H. reflexivity.
  - intros H. apply mval_inj; [ exact Hcv | exact Hcw | ].
    rewrite Hmv, Hmw. exact H.
Qed.

(* SetUint64 and SetBigInt agree on every 64-bit word (also >= pg) *)
Corollary setUint64_setBigInt : forall v, u64 v -> setUint64 v = setBigInt v.
Proof.
  intros v Hv. destruct (setBigInt_ok v) as [Hc Hm].
  destruct (toMont_ok_u64 v Hv) as [Hc2 Hm2].
  unfold setUint64. cbv zeta. fold (toMont v).
  apply mval_inj; [ exact Hc2 | exact Hc | ].
  rewrite Hm, Hm2. reflexivity.
Qed.

Print Assumptions setBigInt_correct.
Print Assumptions toBigIntRegular_correct.
Print Assumptions toBigIntRegular_range.
Print Assumptions setBigInt_toBigIntRegular.
Print Assumptions toBigIntRegular_setBigInt.
Print Assumptions mval_injective.
Print Assumptions toBigIntRegular_inj.
Print Assumptions setBigInt_eq_iff.
Print Assumptions setUint64_setBigInt.

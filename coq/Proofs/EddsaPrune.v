(* Helper for Proofs/EddsaProofs.v (property C12): the byte-level clamping of
   babyjub.pruneBuffer is the integer clamping of Spec/EdDSASpec.v on the
   little-endian value of the 32-byte buffer, and the range of the clamped
   value. *)
From Coq Require Import ZArith List Bool Lia Arith.
From Verif Require Import Lib.Params Lib.Octets Spec.Edwards Spec.EdDSASpec
  Model.Outcome Model.Utils Model.BabyJubCore Model.BabyJub Model.Eddsa
  Proofs.OctetsProofs Proofs.UtilsProofs.
Import ListNotations.
Local Open Scope Z_scope.

(* ------------------------------------------------------------------ *)
(** * The three masks (regenerated literals of pruneBuffer) *)

Lemma prune_consts_ok : prune_m0 = 248 /\ prune_m31a = 127 /\ prune_m31b = 64.
Proof. repeat split; reflexivity. Qed.

(* ------------------------------------------------------------------ *)
(** * set_nth *)

Lemma set_nth_length n v (b : bytes) : (n < length b)%nat ->
  length (set_nth n v b) = length b.
Proof.
  intros Hn. unfold set_nth.
  rewrite app_length, firstn_length. cbn [length]. rewrite skipn_length. lia.
Qed.

Lemma set_nth_cons n v x (b : bytes) : set_nth (S n) v (x :: b) = x :: set_nth n v b.
Proof. reflexivity. Qed.

Lemma nth_set_nth : forall n (b : bytes) v j, (n < length b)%nat ->
  nth j (set_nth n v b) 0 = if Nat.eqb j n then v else nth j b 0.
Proof.
  induction n as [|n IH]; intros b v j Hn.
  - destruct b as [|x b]; [cbn [length] in Hn; lia|].
    destruct j; reflexivity.
  - destruct b as [|x b]; [cbn [length] in Hn; lia|].
    rewrite set_nth_cons. destruct j as [|j]; [reflexivity|].
    cbn [nth Nat.eqb]. apply IH. cbn [length] in Hn. lia.
Qed.

Lemma set_nth_bytes n v (b : bytes) : Forall is_byte b -> is_byte v ->
  Forall is_byte (set_nth n v b).
Proof.
  intros Hb Hv. unfold set_nth. apply Forall_app. split.
  - apply Forall_is_byte_firstn. exact Hb.
  - constructor; [exact Hv|]. apply Forall_is_byte_skipn. exact Hb.
Qed.

Lemma nth_is_byte (b : bytes) j : Forall is_byte b -> is_byte (nth j b 0).
Proof.
  intros Hb. revert j. induction Hb as [|x b Hx Hb IH]; intros j.
  - destruct j; unfold is_byte; cbn; lia.
  - destruct j; [exact Hx|apply IH].
Qed.

(* ------------------------------------------------------------------ *)
(** * Bits of one byte, by exhaustive check *)

Lemma byte_forall (P : Z -> bool) :
  forallb P (map Z.of_nat (seq 0 256)) = true -> forall b, 0 <= b < 256 -> P b = true.
Proof.
  intros H b Hb. rewrite forallb_forall in H. apply H.
  apply in_map_iff. exists (Z.to_nat b). split; [lia|]. apply in_seq. lia.
Qed.

Lemma land248_byte b : is_byte b -> is_byte (Z.land b 248).
Proof.
  intros Hb. apply is_byteb_spec.
  apply (byte_forall (fun b => is_byteb (Z.land b 248))); [vm_compute; reflexivity|exact Hb].
Qed.

Lemma land127_byte b : is_byte b -> is_byte (Z.land b 127).
Proof.
  intros Hb. apply is_byteb_spec.
  apply (byte_forall (fun b => is_byteb (Z.land b 127))); [vm_compute; reflexivity|exact Hb].
Qed.

Lemma lor64_byte b : is_byte b -> is_byte (Z.lor b 64).
Proof.
  intros Hb. apply is_byteb_spec.
  apply (byte_forall (fun b => is_byteb (Z.lor b 64))); [vm_compute; reflexivity|exact Hb].
Qed.

(* ------------------------------------------------------------------ *)
(** * pruneBuffer byte by byte *)

Lemma pruneBuffer_length b : length b = 32%nat -> length (pruneBuffer b) = 32%nat.
Proof.
  intros Hl. unfold pruneBuffer. cbv zeta.
  assert (L1 : forall v, length (set_nth 0 v b) = 32%nat)
    by (intros v; rewrite set_nth_length; lia).
  assert (L2 : forall v w, length (set_nth 31 w (set_nth 0 v b)) = 32%nat)
    by (intros v w; rewrite set_nth_length; rewrite L1; lia).
  rewrite set_nth_length; rewrite L2; lia.
Qed.

Lemma nth_pruneBuffer b j : length b = 32%nat ->
  nth j (pruneBuffer b) 0 =
  if Nat.eqb j 0 then Z.land (nth 0 b 0) 248
  else if Nat.eqb j 31 then Z.lor (Z.land (nth 31 b 0) 127) 64
  else nth j b 0.
Proof.
  intros Hl. unfold pruneBuffer. cbv zeta.
  destruct prune_consts_ok as (-> & -> & ->).
  assert (H0 : (0 < length b)%nat) by lia.
  assert (H1 : forall v, (31 < length (set_nth 0 v b))%nat)
    by (intros v; rewrite set_nth_length; lia).
  rewrite nth_set_nth by (rewrite set_nth_length; apply H1).
  rewrite (nth_set_nth 31 _ _ 31) by apply H1.
  rewrite (nth_set_nth 31 _ _ j) by apply H1.
  rewrite (nth_set_nth 0 _ _ 31) by exact H0.
  rewrite (nth_set_nth 0 _ _ j) by exact H0.
  cbn [Nat.eqb].
  destruct (Nat.eqb j 31) eqn:E31.
  - apply Nat.eqb_eq in E31. subst j. reflexivity.
  - reflexivity.
Qed.

Lemma pruneBuffer_bytes b : Forall is_byte b -> Forall is_byte (pruneBuffer b).
Proof.
  intros Hb. unfold pruneBuffer. cbv zeta.
  destruct prune_consts_ok as (-> & -> & ->).
  assert (B1 : Forall is_byte (set_nth 0 (Z.land (nth 0 b 0) 248) b)).
  { apply set_nth_bytes; [exact Hb|]. apply land248_byte. apply nth_is_byte. exact Hb. }
  assert (B2 : Forall is_byte
                 (set_nth 31 (Z.land (nth 31 (set_nth 0 (Z.land (nth 0 b 0) 248) b) 0) 127)
                    (set_nth 0 (Z.land (nth 0 b 0) 248) b))).
  { apply set_nth_bytes; [exact B1|]. apply land127_byte. apply nth_is_byte. exact B1. }
  apply set_nth_bytes; [exact B2|]. apply lor64_byte. apply nth_is_byte. exact B2.
Qed.

(* ------------------------------------------------------------------ *)
(** * Bits of a little-endian value *)

Lemma testbit_le_val : forall b, Forall is_byte b -> forall i, 0 <= i ->
  Z.testbit (le_val b) i = Z.testbit (nth (Z.to_nat (i / 8)) b 0) (i mod 8).
Proof.
  intros b Hb. induction Hb as [|x b Hx Hb IH]; intros i Hi.
  - cbn [le_val]. destruct (Z.to_nat (i / 8)); cbn [nth]; rewrite !Z.testbit_0_l; reflexivity.
  - cbn [le_val]. unfold is_byte in Hx.
    destruct (Z_lt_le_dec i 8) as [Hlt|Hge].
    + rewrite (Z.div_small i 8) by lia. rewrite (Z.mod_small i 8) by lia.
      cbn [Z.to_nat nth].
      rewrite <- (Z.mod_pow2_bits_low (x + 256 * le_val b) 8 i) by lia.
      f_equal. change (2 ^ 8) with 256.
      replace (x + 256 * le_val b) with (x + le_val b * 256) by ring.
      rewrite Z.mod_add by lia. apply Z.mod_small. exact Hx.
    + assert (E1 : i / 8 = (i - 8) / 8 + 1).
      { replace i with ((i - 8) + 1 * 8) at 1 by ring. rewrite Z.div_add by lia. reflexivity. }
      assert (E2 : i mod 8 = (i - 8) mod 8).
      { replace i with ((i - 8) + 1 * 8) at 1 by ring. rewrite Z.mod_add by lia. reflexivity. }
      assert (Hd : 0 <= (i - 8) / 8) by (apply Z.div_pos; lia).
      rewrite E1, E2.
      replace (Z.to_nat ((i - 8) / 8 + 1)) with (S (Z.to_nat ((i - 8) / 8))) by lia.
      cbn [nth]. rewrite <- (IH (i - 8)) by lia.
      replace i with ((i - 8) + 8) at 1 by ring.
      rewrite <- (Z.div_pow2_bits (x + 256 * le_val b) 8 (i - 8)) by lia.
      f_equal. change (2 ^ 8) with 256.
      replace (x + 256 * le_val b) with (x + le_val b * 256) by ring.
      rewrite Z.div_add by lia.
      rewrite (Z.div_small x 256) by exact Hx. ring.
Qed.

Lemma testbit_clamp n i : 0 <= i ->
  Z.testbit (clamp n) i =
  (254 =? i) || (Z.testbit n i && negb (0 =? i) && negb (1 =? i) && negb (2 =? i)
                 && negb (255 =? i)).
Proof.
  intros Hi. unfold clamp.
  rewrite Z.setbit_eqb by lia. rewrite !Z.clearbit_eqb. reflexivity.
Qed.

(* ------------------------------------------------------------------ *)
(** * C12: pruneBuffer is the integer clamping *)

Theorem prune_spec : forall b, length b = 32%nat -> Forall is_byte b ->
  le_val (pruneBuffer b) = clamp (le_val b).
Proof.
  intros b Hl Hb. apply Z.bits_inj'. intros i Hi.
  rewrite testbit_clamp by exact Hi.
  rewrite (testbit_le_val (pruneBuffer b) (pruneBuffer_bytes b Hb) i Hi).
  rewrite (testbit_le_val b Hb i Hi).
  rewrite (nth_pruneBuffer b _ Hl).
  assert (Hd : 0 <= i / 8) by (apply Z.div_pos; lia).
  pose proof (Z.mod_pos_bound i 8 ltac:(lia)) as Hm.
  pose proof (Z.div_mod i 8 ltac:(lia)) as Hdm.
  destruct (Z.eq_dec (i / 8) 0) as [E0|N0].
  - rewrite E0. cbn [Z.to_nat Nat.eqb]. rewrite E0 in Hdm.
    assert (Hr : i = i mod 8) by lia. rewrite <- Hr.
    rewrite Z.land_spec.
    assert (C : i = 0 \/ i = 1 \/ i = 2 \/ i = 3 \/ i = 4 \/ i = 5 \/ i = 6 \/ i = 7) by lia.
    destruct C as [->|[->|[->|[->|[->|[->|[->| ->]]]]]]];
      cbn; rewrite ?andb_true_r, ?andb_false_r; reflexivity.
  - destruct (Z.eq_dec (i / 8) 31) as [E31|N31].
    + rewrite E31. change (Z.to_nat 31) with 31%nat. cbn [Nat.eqb]. rewrite E31 in Hdm.
      rewrite Z.lor_spec, Z.land_spec.
      assert (C : i = 248 \/ i = 249 \/ i = 250 \/ i = 251 \/ i = 252 \/ i = 253
                  \/ i = 254 \/ i = 255) by lia.
      destruct C as [->|[->|[->|[->|[->|[->|[->| ->]]]]]]];
        cbn; rewrite ?andb_true_r, ?andb_false_r, ?orb_false_r, ?orb_true_r; reflexivity.
    + assert (En0 : Nat.eqb (Z.to_nat (i / 8)) 0 = false) by (apply Nat.eqb_neq; lia).
      assert (En31 : Nat.eqb (Z.to_nat (i / 8)) 31 = false) by (apply Nat.eqb_neq; lia).
      rewrite En0, En31.
      assert (F254 : (254 =? i) = false) by (apply Z.eqb_neq; lia).
      assert (F0 : (0 =? i) = false) by (apply Z.eqb_neq; lia).
      assert (F1 : (1 =? i) = false) by (apply Z.eqb_neq; lia).
      assert (F2 : (2 =? i) = false) by (apply Z.eqb_neq; lia).
      assert (F255 : (255 =? i) = false) by (apply Z.eqb_neq; lia).
      rewrite F254, F0, F1, F2, F255. cbn [negb orb]. rewrite !andb_true_r. reflexivity.
Qed.

(* ------------------------------------------------------------------ *)
(** * Range of the clamped value *)

Lemma clamp_range n : 0 <= n < 2 ^ 256 -> 2 ^ 254 <= clamp n < 2 ^ 255.
Proof.
  intros Hn.
  assert (Hhigh : forall i, 255 <= i -> Z.testbit (clamp n) i = false).
  { intros i Hi. rewrite testbit_clamp by lia.
    replace (254 =? i) with false by (symmetry; apply Z.eqb_neq; lia). cbn [orb].
    destruct (Z.eq_dec i 255) as [->|Hne].
    - cbn. rewrite andb_false_r. reflexivity.
    - assert (Hb : Z.testbit n i = false).
      { destruct (Z.eq_dec n 0) as [->|Hn0]; [apply Z.testbit_0_l|].
        assert (Hp : 2 ^ 256 <= 2 ^ i) by (apply Z.pow_le_mono_r; lia).
        apply Z.bits_above_log2; [lia|]. apply Z.log2_lt_pow2; lia. }
      rewrite Hb. reflexivity. }
  assert (Hnn : 0 <= clamp n).
  { apply Z.bits_iff_nonneg_ex. exists 255. intros m Hm. apply Hhigh. lia. }
  assert (Hlt : clamp n < 2 ^ 255).
  { destruct (Z.eq_dec (clamp n) 0) as [E|NE]; [rewrite E; reflexivity|].
    apply Z.log2_lt_pow2; [lia|].
    destruct (Z_lt_le_dec (Z.log2 (clamp n)) 255) as [Hl|Hl]; [exact Hl|exfalso].
    pose proof (Z.bit_log2 (clamp n) ltac:(lia)) as Hbit.
    rewrite Hhigh in Hbit by exact Hl. discriminate Hbit. }
  split; [|exact Hlt].
  assert (H254 : Z.testbit (clamp n) 254 = true).
  { rewrite testbit_clamp by lia. reflexivity. }
  destruct (Z_lt_le_dec (clamp n) (2 ^ 254)) as [Hs|Hs]; [exfalso|exact Hs].
  assert (Hb : Z.testbit (clamp n) 254 = false).
  { destruct (Z.eq_dec (clamp n) 0) as [E|NE]; [rewrite E; apply Z.testbit_0_l|].
    apply Z.bits_above_log2; [lia|]. apply Z.log2_lt_pow2; lia. }
  rewrite Hb in H254. discriminate H254.
Qed.

Lemma clamp_shift_range n : 0 <= n < 2 ^ 256 ->
  2 ^ 251 <= Z.shiftr (clamp n) 3 < 2 ^ 252.
Proof.
  intros Hn. pose proof (clamp_range n Hn) as Hc.
  rewrite Z.shiftr_div_pow2 by lia. change (2 ^ 3) with 8.
  change (2 ^ 254) with (8 * 2 ^ 251) in Hc. change (2 ^ 255) with (8 * 2 ^ 252) in Hc.
  generalize dependent (2 ^ 251). generalize dependent (2 ^ 252). intros a b Hc.
  split.
  - apply Z.div_le_lower_bound; lia.
  - apply Z.div_lt_upper_bound; lia.
Qed.

(* the low three bits are cleared: shifting back loses nothing *)
Lemma clamp_low_bits n : 8 * Z.shiftr (clamp n) 3 = clamp n.
Proof.
  rewrite Z.shiftr_div_pow2 by lia. change (2 ^ 3) with 8.
  assert (E : clamp n mod 8 = 0).
  { change 8 with (2 ^ 3). apply Z.bits_inj'. intros i Hi.
    rewrite Z.testbit_0_l.
    destruct (Z_lt_le_dec i 3) as [Hl|Hl].
    - rewrite Z.mod_pow2_bits_low by lia. rewrite testbit_clamp by lia.
      assert (C : i = 0 \/ i = 1 \/ i = 2) by lia.
      destruct C as [->|[->| ->]]; cbn; rewrite ?andb_false_r; reflexivity.
    - apply Z.mod_pow2_bits_high. lia. }
  pose proof (Z.div_mod (clamp n) 8 ltac:(lia)). lia.
Qed.

Print Assumptions prune_spec.
Print Assumptions clamp_range.

(* Part of the equality lemmas between the Gallina regenerated from the Go
   sources by tools/bigintgen (Gen/BigIntRoutines.v) and the hand-written models:
   babyjub VerifyPoseidon and VerifyMimc7.
   The lemmas are split over Proofs/BigIntEq*.v so that an edit of one Go
   function breaks only the file of that function (and the files that use its
   lemma); Proofs/BigIntEqAll.v exports all of them. *)
From Coq Require Import ZArith List Bool Lia.
From Verif Require Import Lib.Params Lib.Octets Spec.Edwards Model.Outcome Model.Utils
  Model.BabyJubCore Model.BabyJub Model.Eddsa.
From Verif Require Gen.CurveConsts Model.Mimc7 Model.Poseidon.
From Verif Require Import Gen.BigIntRoutines.
From Verif Require Import Proofs.BigIntEqAdd.
Import ListNotations.
Local Open Scope Z_scope.

(* The external functions are never unfolded by the proofs below; keeping them
   opaque for the tactics makes a FAILING comparison (after an edit of the Go
   code) fail fast instead of normalising Fermat inversions or Tonelli-Shanks
   on symbolic arguments. *)
Local Opaque BabyJub.modinv BabyJub.modsqrt BabyJub.Mul BabyJub.Affine BabyJub.Projective
  Mimc7.MIMC7Hash HadesOpt.perm_opt Z.mul Z.add Z.sub Z.modulo Z.shiftr Z.shiftl Z.land Z.lor
  Z.ltb Z.gtb Z.geb Z.eqb.

(* [same] (as in BigIntEqUtils.v, repeated here so that this file does not
   depend on the utils lemmas): the two sides are SYNTACTICALLY equal after removing lets.  Used
   where it applies instead of a bare [reflexivity], because a syntactic check
   fails at once on a mismatch whereas conversion may first try to normalise. *)
Local Ltac same :=
  cbv zeta;
  first [ lazymatch goal with |- ?a = ?b => constr_eq a b end; reflexivity
        | (* the same code up to boolean spelling: `if !c {A} else {B}` for `if c {B} else {A}`,
             an early `return false` for a conjunction, ... (the heavy functions are Opaque here,
             so the conversion below stays cheap) *)
          rewrite ?Bool.if_negb; cbv beta iota zeta delta [andb orb];
          rewrite ?Bool.if_negb; timeout 20 reflexivity
        | (* ... up to De Morgan in the final comparison and 8*hm written as a shift: decide the
             atomic comparisons of the conditions case by case *)
          rewrite ?Z.shiftl_mul_pow2 by lia; rewrite ?(Z.mul_comm _ (2 ^ 3));
          change (2 ^ 3) with 8;
          timeout 30 (repeat match goal with
                 | |- context [if ?c then _ else _] =>
                     match c with
                     | context [Z.eqb ?a ?b] => destruct (Z.eqb a b)
                     | context [Z.ltb ?a ?b] => destruct (Z.ltb a b)
                     end; cbv beta iota zeta delta [andb orb negb]
                 end);
          timeout 20 reflexivity
        | fail 1 "generated code and hand model differ" ].

(* the translator emits every spelling of "a >= b" (Cmp >= 0, Cmp != -1, !(Cmp < 0)) as
   negb (a <? b); the hand model writes >=? *)
Lemma geb_negb_ltb : forall a b : Z, (a >=? b) = negb (a <? b).
Proof. intros a b. rewrite Z.geb_leb, Z.leb_antisym. reflexivity. Qed.

Section Hashes.
  Variable blake512 : bytes -> bytes.
  Variable poseidon5 : list Z -> res Z.
  Variable mimc7h : list Z -> res Z.

  Lemma gen_babyjub_PublicKey_VerifyPoseidon_eq : forall pk msg sig,
    babyjub_PublicKey_VerifyPoseidon poseidon5 pk msg sig =
    Eddsa.VerifyPoseidon poseidon5 pk msg sig.
  Proof.
    intros pk msg [R8 Sv].
    unfold babyjub_PublicKey_VerifyPoseidon, Eddsa.VerifyPoseidon, Eddsa.verify_with.
    cbn [fst snd].
    rewrite (geb_negb_ltb Sv BabyJub.SubOrder).
    destruct ((Sv <? 0) || negb (Sv <? BabyJub.SubOrder)); [reflexivity|].
    destruct (poseidon5 [fst R8; snd R8; fst pk; snd pk; msg]) as [hm| |]; try reflexivity.
    cbv zeta. rewrite gen_babyjub_PointProjective_Add_eq. same.
  Qed.

  Lemma gen_babyjub_PublicKey_VerifyMimc7_eq : forall pk msg sig,
    babyjub_PublicKey_VerifyMimc7 mimc7h pk msg sig =
    Eddsa.VerifyMimc7 mimc7h pk msg sig.
  Proof.
    intros pk msg [R8 Sv].
    unfold babyjub_PublicKey_VerifyMimc7, Eddsa.VerifyMimc7, Eddsa.verify_with.
    cbn [fst snd].
    rewrite (geb_negb_ltb Sv BabyJub.SubOrder).
    destruct ((Sv <? 0) || negb (Sv <? BabyJub.SubOrder)); [reflexivity|].
    destruct (mimc7h [fst R8; snd R8; fst pk; snd pk; msg]) as [hm| |]; try reflexivity.
    cbv zeta. rewrite gen_babyjub_PointProjective_Add_eq. same.
  Qed.
End Hashes.

(* ---- every lemma above is closed under the global context ---------------- *)
Print Assumptions gen_babyjub_PublicKey_VerifyPoseidon_eq.
Print Assumptions gen_babyjub_PublicKey_VerifyMimc7_eq.

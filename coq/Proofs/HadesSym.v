(* Reflective checker "optimized Hades loop = reference Hades permutation".

   Method: symbolic execution of BOTH programs (Spec/Hades.v [perm_ref] and
   Model/HadesOpt.v [perm_opt]) on affine forms, with one fresh variable per
   S-box application.  A lane is represented by a flag (is the concrete lane
   of the shape [_ mod p] ?) and a coefficient list (index 0 = constant term,
   index k = variable k).  Every S-box application records the (reduced) form
   of its argument in a trace and replaces the lane by a fresh variable.  The
   checker compares the two traces and the two final states.

   Soundness: for a valuation rho that is consistent with the trace (rho n =
   sbox (value of the recorded form)), each concrete program equals the
   evaluation of its symbolic run; such a valuation is constructed from the
   trace of the reference run.  The S-box is an arbitrary function.

   The coefficient arithmetic is abstract (section [Sym]) and instantiated
   with Bignums' BigZ at the end of the file. *)
From Coq Require Import ZArith List Lia Bool.
From Verif Require Import Spec.Hades Model.HadesOpt.
Import ListNotations.
Local Open Scope Z_scope.

(* ------------------------------------------------------------------ *)
(* Generic list helpers                                                 *)

Lemma map_combine_map {I B C D : Type} (h : B -> C) (g : I * C -> D)
      (L : list B) (l : list I) :
  map g (combine l (map h L)) = map (fun ix => g (fst ix, h (snd ix))) (combine l L).
Proof.
  revert l. induction L as [|b L IH]; intros [|i l]; cbn; try reflexivity.
  now rewrite IH.
Qed.

Lemma fold_combine_sim {I A B X Y : Type} (h : B -> A) (R : X -> Y -> Prop)
      (cs : X -> I * A -> X) (ss : Y -> I * B -> Y) :
  (forall x y i b, R x y -> R (cs x (i, h b)) (ss y (i, b))) ->
  forall (L : list B) (l : list I) x y, R x y ->
    R (fold_left cs (combine l (map h L)) x) (fold_left ss (combine l L) y).
Proof.
  intros Hstep. induction L as [|b L IH]; intros [|i l] x y HR; cbn; try assumption.
  apply IH. now apply Hstep.
Qed.

Lemma map_nth_seq {A : Type} (d : A) (l : list A) :
  map (fun k => nth k l d) (seq 0 (length l)) = l.
Proof.
  induction l as [|a l IH]; cbn; [reflexivity|].
  f_equal. rewrite <- seq_shift, map_map. exact IH.
Qed.

(* ------------------------------------------------------------------ *)
Section Sym.
  Variable p : Z.
  Variable sbox : Z -> Z.

  (* abstract coefficient arithmetic *)
  Variable K : Type.
  Variable toZ : K -> Z.
  Variable kadd kmul : K -> K -> K.
  Variable kmod : K -> K.
  Variable kofZ : Z -> K.
  Variable keqb : K -> K -> bool.
  Hypothesis kadd_spec : forall a b, toZ (kadd a b) = toZ a + toZ b.
  Hypothesis kmul_spec : forall a b, toZ (kmul a b) = toZ a * toZ b.
  Hypothesis kmod_spec : forall a, toZ (kmod a) mod p = toZ a mod p.
  Hypothesis kofZ_spec : forall z, toZ (kofZ z) = z.
  Hypothesis keqb_spec : forall a b, keqb a b = true -> toZ a = toZ b.

  Definition form := list K.
  Definition sform := (bool * form)%type.

  (* ---------------- evaluation ---------------- *)
  Fixpoint evalZ (rho : nat -> Z) (i : nat) (f : form) : Z :=
    match f with
    | [] => 0
    | a :: f' => toZ a * rho i + evalZ rho (S i) f'
    end.

  Definition evalm (rho : nat -> Z) (bf : sform) : Z :=
    if fst bf then evalZ rho 0 (snd bf) mod p else evalZ rho 0 (snd bf).

  Lemma evalm_mod rho bf : evalm rho bf mod p = evalZ rho 0 (snd bf) mod p.
  Proof. unfold evalm. destruct (fst bf); [apply Zmod_mod|reflexivity]. Qed.

  (* ---------------- operations on forms ---------------- *)
  (* g + a * f, missing coefficients are zero *)
  Fixpoint faxpy (a : K) (g f : form) : form :=
    match f with
    | [] => g
    | y :: f' =>
        match g with
        | [] => kmul a y :: faxpy a [] f'
        | x :: g' => kadd x (kmul a y) :: faxpy a g' f'
        end
    end.

  Lemma evalZ_faxpy rho a f : forall g i,
    evalZ rho i (faxpy a g f) = evalZ rho i g + toZ a * evalZ rho i f.
  Proof.
    induction f as [|y f IH]; intros g i; cbn [faxpy evalZ]; [ring|].
    destruct g as [|x g]; cbn [evalZ]; rewrite IH.
    - rewrite kmul_spec. cbn [evalZ]. ring.
    - rewrite kadd_spec, kmul_spec. ring.
  Qed.

  Definition faddc (c : K) (f : form) : form :=
    match f with [] => [c] | a :: f' => kadd a c :: f' end.

  Lemma evalZ_faddc rho c f :
    evalZ rho 0 (faddc c f) = evalZ rho 0 f + toZ c * rho 0%nat.
  Proof.
    destruct f as [|a f]; cbn [faddc evalZ]; [ring|]. rewrite kadd_spec. ring.
  Qed.

  Definition fmod (f : form) : form := map kmod f.

  Lemma evalZ_fmod rho f : forall i, evalZ rho i (fmod f) mod p = evalZ rho i f mod p.
  Proof.
    induction f as [|a f IH]; intros i; cbn [fmod map evalZ]; [reflexivity|].
    rewrite Zplus_mod, Zmult_mod. fold (fmod f). rewrite IH, kmod_spec.
    rewrite <- Zmult_mod, <- Zplus_mod. reflexivity.
  Qed.

  Definition fvar (n : nat) : form := repeat (kofZ 0) n ++ [kofZ 1].

  Lemma evalZ_fvar rho n : forall i, evalZ rho i (fvar n) = rho (i + n)%nat.
  Proof.
    unfold fvar. induction n as [|n IH]; intros i; cbn [repeat app evalZ].
    - rewrite kofZ_spec, Nat.add_0_r. ring.
    - rewrite kofZ_spec, IH. replace (S i + n)%nat with (i + S n)%nat by lia. ring.
  Qed.

  (* semantic equality test, missing coefficients are zero *)
  Fixpoint fzerob (f : form) : bool :=
    match f with [] => true | a :: f' => keqb a (kofZ 0) && fzerob f' end.

  Fixpoint feqb (f g : form) : bool :=
    match f, g with
    | [], _ => fzerob g
    | _, [] => fzerob f
    | a :: f', b :: g' => keqb a b && feqb f' g'
    end.

  Lemma fzerob_sound rho f : fzerob f = true -> forall i, evalZ rho i f = 0.
  Proof.
    induction f as [|a f IH]; cbn [fzerob evalZ]; intros H i; [reflexivity|].
    apply andb_true_iff in H as [Ha Hf].
    apply keqb_spec in Ha. rewrite kofZ_spec in Ha. rewrite Ha, IH by assumption. ring.
  Qed.

  Lemma feqb_sound rho f : forall g, feqb f g = true ->
    forall i, evalZ rho i f = evalZ rho i g.
  Proof.
    induction f as [|a f IH]; intros g H i.
    - cbn in H. cbn [evalZ]. symmetry. now apply fzerob_sound.
    - destruct g as [|b g].
      + cbn [feqb] in H. rewrite (fzerob_sound rho _ H). reflexivity.
      + cbn [feqb] in H. apply andb_true_iff in H as [Ha Hf].
        cbn [evalZ]. rewrite (keqb_spec _ _ Ha), (IH _ Hf). reflexivity.
  Qed.

  (* evalZ only depends on the valuation below the length of the form *)
  Lemma evalZ_ext rho rho' f : forall i,
    (forall k, (i <= k < i + length f)%nat -> rho k = rho' k) ->
    evalZ rho i f = evalZ rho' i f.
  Proof.
    induction f as [|a f IH]; intros i H; cbn [evalZ]; [reflexivity|].
    rewrite (H i) by (cbn [length]; lia).
    rewrite IH; [reflexivity|]. intros k Hk. apply H. cbn [length]. lia.
  Qed.


  (* ================================================================ *)
  (* Symbolic versions of the linear steps                              *)
  Section Run.
  Variable t : nat.
  Variables RF RP : nat.
  Variable RC : list Z.
  Variable MDS : list (list Z).
  Variables C SS : list Z.
  Variables M P : list (list Z).

  (* accumulate  sum_j coef_j * lane_j  without intermediate reduction *)
  Definition sacc {I : Type} (coef : I -> Z) (l : list I) (L : list sform) : form :=
    fold_left (fun acc jx => faxpy (kofZ (coef (fst jx))) acc (snd (snd jx)))
              (combine l L) [].

  Definition sark (L : list sform) (it : nat) : list sform :=
    map (fun ix => (true, faddc (kofZ (nthz C (it + fst ix))) (snd (snd ix))))
        (combine (seq 0 (length L)) L).

  Definition smix (m : list (list Z)) (L : list sform) : list sform :=
    map (fun i => (true, fmod (sacc (fun j => nthm m j i) (seq 0 (length L)) L)))
        (seq 0 t).

  Definition sadd_rc (r : nat) (L : list sform) : list sform :=
    map (fun ix => (true, faddc (kofZ (nth (r * t + fst ix) RC 0)) (snd (snd ix))))
        (combine (seq 0 (length L)) L).

  Definition sdot (u : list Z) (L : list sform) : sform :=
    (true, fmod (sacc (fun a : Z => a) u L)).

  Definition smds (L : list sform) : list sform := map (fun row => sdot row L) MDS.


  (* ================================================================ *)
  (* S-box steps, traces                                                *)

  (* trace entry: (variable index, flag of the argument, reduced form) *)
  Definition entry := (nat * bool * form)%type.
  Definition sstate := (nat * list entry)%type.       (* next variable, trace (newest first) *)
  Definition sst := (sstate * list sform)%type.

  Definition ssbox (sg : sstate) (bf : sform) : sstate * sform :=
    ((S (fst sg), (fst sg, fst bf, fmod (snd bf)) :: snd sg), (false, fvar (fst sg))).

  Fixpoint ssbox_all (sg : sstate) (L : list sform) : sst :=
    match L with
    | [] => (sg, [])
    | f :: L' =>
        let r := ssbox sg f in
        let r2 := ssbox_all (fst r) L' in
        (fst r2, snd r :: snd r2)
    end.

  Definition ssbox_partial (sg : sstate) (L : list sform) : sst :=
    match L with
    | [] => (sg, [])
    | f :: L' => let r := ssbox sg f in (fst r, snd r :: L')
    end.

  (* ---------------- symbolic reference permutation ---------------- *)
  Definition sround (r : nat) (s : sst) : sst :=
    let L := sadd_rc r (snd s) in
    let r' := if is_full RF RP r then ssbox_all (fst s) L else ssbox_partial (fst s) L in
    (fst r', smds (snd r')).

  Definition sperm_ref (s : sst) : sst :=
    fold_left (fun s r => sround r s) (seq 0 (RF + RP)) s.

  (* ---------------- symbolic optimized permutation ---------------- *)
  Definition sfull_step (m : list (list Z)) (it : nat) (s : sst) : sst :=
    let r := ssbox_all (fst s) (snd s) in
    (fst r, smix m (sark (snd r) it)).

  Definition sfirst_full (s : sst) : sst :=
    fold_left (fun s i => sfull_step M ((i + 1) * t) s) (seq 0 (RF / 2 - 1)) s.

  Definition ssparse (i : nat) (s : sst) : sst :=
    match snd s with
    | [] => (fst s, [])
    | f0 :: rest =>
        let r := ssbox (fst s) f0 in
        let s0 : sform :=
          (true, faddc (kofZ (nthz C ((RF / 2 + 1) * t + i))) (snd (snd r))) in
        let L1 := s0 :: rest in
        let new0 : sform :=
          (true, fmod (sacc (fun j => nthz SS ((t * 2 - 1) * i + j)) (seq 0 (length L1)) L1)) in
        let rest' :=
          map (fun kx => (true, fmod (faxpy (kofZ (nthz SS ((t * 2 - 1) * i + t + fst kx - 1)))
                                            (snd (snd kx)) (snd s0))))
              (combine (seq 1 (length rest)) rest) in
        (fst r, new0 :: rest')
    end.

  Definition slast_full (s : sst) : sst :=
    fold_left (fun s i => sfull_step M ((RF / 2 + 1) * t + RP + i * t) s)
              (seq 0 (RF / 2 - 1)) s.

  Definition sperm_opt (s : sst) : sst :=
    let s := (fst s, sark (snd s) 0) in
    let s := sfirst_full s in
    let s := sfull_step P ((RF / 2) * t) s in
    let s := fold_left (fun s i => ssparse i s) (seq 0 RP) s in
    let s := slast_full s in
    let r := ssbox_all (fst s) (snd s) in
    (fst r, smix M (snd r)).

  (* ---------------- soundness of the linear steps ---------------- *)
  Variable rho : nat -> Z.
  Hypothesis Hrho0 : rho 0%nat = 1.

  Notation ev := (evalm rho).

  Lemma evalm_true_fmod g : ev (true, fmod g) = evalZ rho 0 g mod p.
  Proof. unfold evalm. cbn [fst snd]. apply evalZ_fmod. Qed.

  Lemma addc_sound bf c :
    (ev bf + c) mod p = ev (true, faddc (kofZ c) (snd bf)).
  Proof.
    unfold evalm at 2. cbn [fst snd].
    rewrite evalZ_faddc, kofZ_spec, Hrho0, Z.mul_1_r.
    rewrite <- (Zplus_mod_idemp_l (ev bf)), evalm_mod, Zplus_mod_idemp_l. reflexivity.
  Qed.

  Lemma dot_step_sound acc g a bf :
    acc = evalZ rho 0 g mod p ->
    (acc + a * ev bf) mod p = evalZ rho 0 (faxpy (kofZ a) g (snd bf)) mod p.
  Proof.
    intros ->. rewrite evalZ_faxpy, kofZ_spec, Zplus_mod_idemp_l.
    rewrite (Zplus_mod (evalZ rho 0 g)), (Zmult_mod a (ev bf)), evalm_mod.
    rewrite <- Zmult_mod, <- Zplus_mod. reflexivity.
  Qed.

  Lemma mix_step_sound acc g a bf :
    acc = evalZ rho 0 g mod p ->
    (acc + (a * ev bf) mod p) mod p = evalZ rho 0 (faxpy (kofZ a) g (snd bf)) mod p.
  Proof. intros H. rewrite Zplus_mod_idemp_r. now apply dot_step_sound. Qed.

  Lemma axpy_sound bx bs c :
    (ev bx + (ev bs * c) mod p) mod p
    = ev (true, fmod (faxpy (kofZ c) (snd bx) (snd bs))).
  Proof.
    rewrite evalm_true_fmod, evalZ_faxpy, kofZ_spec, Zplus_mod_idemp_r.
    rewrite (Zplus_mod (ev bx)), (Zmult_mod (ev bs)), !evalm_mod.
    rewrite <- Zmult_mod, <- Zplus_mod. f_equal. ring.
  Qed.

  Lemma sark_sound L it : ark p C (map ev L) it = map ev (sark L it).
  Proof.
    unfold ark, sark. rewrite map_length, map_combine_map, map_map.
    apply map_ext. intros [i bf]. cbn [fst snd]. apply addc_sound.
  Qed.

  Lemma sadd_rc_sound L r : add_rc p t RC r (map ev L) = map ev (sadd_rc r L).
  Proof.
    unfold add_rc, sadd_rc. rewrite map_length, map_combine_map, map_map.
    apply map_ext. intros [i bf]. cbn [fst snd]. apply addc_sound.
  Qed.

  Lemma smix_sound m L : mix p t m (map ev L) = map ev (smix m L).
  Proof.
    unfold mix, smix. rewrite map_length, map_map.
    apply map_ext. intros i. rewrite evalm_true_fmod. unfold sacc.
    apply (fold_combine_sim ev (fun acc g => acc = evalZ rho 0 g mod p)).
    - intros x y j b Hxy. cbn [fst snd]. now apply mix_step_sound.
    - reflexivity.
  Qed.

  Lemma sdot_sound u L : dot p u (map ev L) = ev (sdot u L).
  Proof.
    unfold dot, sdot. rewrite evalm_true_fmod. unfold sacc.
    apply (fold_combine_sim ev (fun acc g => acc = evalZ rho 0 g mod p)).
    - intros x y j b Hxy. cbn [fst snd]. now apply dot_step_sound.
    - reflexivity.
  Qed.

  Lemma smds_sound L : mds_mul p MDS (map ev L) = map ev (smds L).
  Proof.
    unfold mds_mul, smds. rewrite map_map. apply map_ext. intros row. apply sdot_sound.
  Qed.


  (* ---------------- soundness of the S-box steps ---------------- *)
  Definition okent (e : entry) : Prop :=
    snd (fst e) = true /\ rho (fst (fst e)) = sbox (evalZ rho 0 (snd e) mod p).
  Definition cons (T : list entry) : Prop := Forall okent T.

  (* [sf] simulates [cf] for every valuation consistent with the final trace;
     consistency is inherited by the initial trace (traces only grow). *)
  Definition simT (cf : list Z -> list Z) (sf : sst -> sst) : Prop :=
    forall s, cons (snd (fst (sf s))) ->
      cf (map ev (snd s)) = map ev (snd (sf s)) /\ cons (snd (fst s)).

  Lemma ssbox_sim sg bf :
    cons (snd (fst (ssbox sg bf))) ->
    sbox (ev bf) = ev (snd (ssbox sg bf)) /\ cons (snd sg).
  Proof.
    unfold ssbox. cbn [fst snd]. intros Hc.
    inversion Hc as [|e T [Hb Hv] HT]; subst e T. cbn [fst snd] in Hb, Hv.
    split; [|exact HT].
    unfold evalm. rewrite Hb. cbn [fst snd].
    rewrite evalZ_fvar, Nat.add_0_l, Hv, evalZ_fmod. reflexivity.
  Qed.

  Lemma ssbox_all_sim : forall L sg,
    cons (snd (fst (ssbox_all sg L))) ->
    map sbox (map ev L) = map ev (snd (ssbox_all sg L)) /\ cons (snd sg).
  Proof.
    induction L as [|f L IH]; intros sg Hc; cbn [ssbox_all map fst snd] in *.
    - split; [reflexivity|exact Hc].
    - destruct (IH _ Hc) as [E Hc1].
      destruct (ssbox_sim _ _ Hc1) as [E0 Hc0].
      split; [|exact Hc0]. rewrite E, E0. reflexivity.
  Qed.

  Lemma sim_sbox_all : simT (sbox_all sbox) (fun s => ssbox_all (fst s) (snd s)).
  Proof. intros s Hc. unfold sbox_all. now apply ssbox_all_sim. Qed.

  Lemma sim_fold {I : Type} (c : list Z -> I -> list Z) (sf : sst -> I -> sst) :
    (forall i, simT (fun st => c st i) (fun s => sf s i)) ->
    forall l, simT (fun st => fold_left c l st) (fun s => fold_left sf l s).
  Proof.
    intros Hstep. induction l as [|i l IH]; intros s Hc; cbn [fold_left] in *.
    - split; [reflexivity|exact Hc].
    - destruct (IH _ Hc) as [E Hc1]. destruct (Hstep i _ Hc1) as [E0 Hc0].
      split; [|exact Hc0]. rewrite E0. exact E.
  Qed.

  (* ---- reference ---- *)
  Lemma sim_round r : simT (round p sbox t RF RP RC MDS r) (sround r).
  Proof.
    intros s Hc. unfold round, sround in *. cbn [fst snd] in *.
    rewrite sadd_rc_sound.
    destruct (is_full RF RP r).
    - destruct (ssbox_all_sim _ _ Hc) as [E Hc0]. split; [|exact Hc0].
      unfold sbox_full. rewrite E. apply smds_sound.
    - destruct (sadd_rc r (snd s)) as [|f L]; cbn [ssbox_partial fst snd map] in *.
      + split; [apply (smds_sound [])|exact Hc].
      + destruct (ssbox_sim _ _ Hc) as [E Hc0]. split; [|exact Hc0].
        cbn [sbox_partial]. rewrite E. apply (smds_sound (_ :: L)).
  Qed.

  Lemma sim_perm_ref : simT (perm_ref p sbox t RF RP RC MDS) sperm_ref.
  Proof. unfold perm_ref, sperm_ref. apply sim_fold. intros r. apply sim_round. Qed.

  (* ---- optimized ---- *)
  Lemma sim_full_step m it :
    simT (fun st => mix p t m (ark p C (sbox_all sbox st) it)) (sfull_step m it).
  Proof.
    intros s Hc. unfold sfull_step in *. cbn [fst snd] in *.
    destruct (sim_sbox_all s Hc) as [E Hc0]. split; [|exact Hc0].
    rewrite E, sark_sound, smix_sound. reflexivity.
  Qed.

  Lemma sim_sparse i : simT (sparse_round p sbox t RF C SS i) (ssparse i).
  Proof.
    intros [sg L] Hc. unfold ssparse in *. cbn [fst snd] in *.
    destruct L as [|f0 rest]; cbn [fst snd map] in *.
    - split; [reflexivity|exact Hc].
    - destruct (ssbox_sim _ _ Hc) as [E Hc0]. split; [|exact Hc0].
      cbn [sparse_round]. rewrite E, addc_sound.
      set (s0 := (true, faddc (kofZ (nthz C ((RF / 2 + 1) * t + i))) (snd (snd (ssbox sg f0)))) : sform).
      f_equal.
      + rewrite evalm_true_fmod. unfold sacc.
        change (ev s0 :: map ev rest) with (map ev (s0 :: rest)).
        rewrite map_length.
        apply (fold_combine_sim ev (fun acc g => acc = evalZ rho 0 g mod p)).
        * intros x y j b Hxy. cbn [fst snd]. now apply mix_step_sound.
        * reflexivity.
      + rewrite map_length, map_combine_map, map_map. apply map_ext.
        intros [k bf]. cbn [fst snd]. apply axpy_sound.
  Qed.

  Lemma sim_first_full : simT (first_full p sbox t RF C M) sfirst_full.
  Proof.
    unfold first_full, sfirst_full.
    apply (sim_fold (fun st i => mix p t M (ark p C (sbox_all sbox st) ((i + 1) * t)))
                    (fun s i => sfull_step M ((i + 1) * t) s)).
    intros i. apply sim_full_step.
  Qed.

  Lemma sim_last_full : simT (last_full p sbox t RF RP C M) slast_full.
  Proof.
    unfold last_full, slast_full.
    apply (sim_fold (fun st i => mix p t M (ark p C (sbox_all sbox st)
                                               ((RF / 2 + 1) * t + RP + i * t)))
                    (fun s i => sfull_step M ((RF / 2 + 1) * t + RP + i * t) s)).
    intros i. apply sim_full_step.
  Qed.

  Lemma sim_sparse_loop :
    simT (fun st => fold_left (fun s i => sparse_round p sbox t RF C SS i s) (seq 0 RP) st)
         (fun s => fold_left (fun s i => ssparse i s) (seq 0 RP) s).
  Proof.
    apply (sim_fold (fun st i => sparse_round p sbox t RF C SS i st)
                    (fun s i => ssparse i s)).
    intros i. apply sim_sparse.
  Qed.

  Lemma sim_perm_opt : simT (perm_opt p sbox t RF RP C SS M P) sperm_opt.
  Proof.
    intros s Hc. unfold perm_opt, sperm_opt in *. cbv zeta in *.
    set (s1 := (fst s, sark (snd s) 0)) in *.
    set (s2 := sfirst_full s1) in *.
    set (s3 := sfull_step P (RF / 2 * t) s2) in *.
    set (s4 := fold_left (fun s i => ssparse i s) (seq 0 RP) s3) in *.
    set (s5 := slast_full s4) in *.
    cbn [fst snd] in Hc.
    destruct (sim_sbox_all s5 Hc) as [E6 Hc6].
    destruct (sim_last_full s4 Hc6) as [E5 Hc5].
    destruct (sim_sparse_loop s3 Hc5) as [E4 Hc4].
    destruct (sim_full_step P (RF / 2 * t) s2 Hc4) as [E3 Hc3].
    destruct (sim_first_full s1 Hc3) as [E2 Hc2].
    split; [|exact Hc2].
    rewrite sark_sound.
    change (sark (snd s) 0) with (snd s1).
    rewrite E2. fold s2. rewrite E3. fold s3. rewrite E4. fold s4. rewrite E5. fold s5.
    rewrite E6. cbn [snd]. apply smix_sound.
  Qed.

  End Run.

  (* ================================================================ *)
  (* Construction of a valuation consistent with a well-formed trace    *)

  Fixpoint build (vals : list Z) (T : list entry) : list Z :=
    match T with
    | [] => vals
    | e :: T' =>
        build (vals ++ [sbox (evalZ (fun i => nth i vals 0) 0 (snd e) mod p)]) T'
    end.

  (* chronological trace: variables numbered consecutively from n, arguments
     flagged as reduced and mentioning only earlier variables *)
  Fixpoint wfb (n : nat) (T : list entry) : bool :=
    match T with
    | [] => true
    | e :: T' =>
        Nat.eqb (fst (fst e)) n && snd (fst e) && Nat.leb (length (snd e)) n
        && wfb (S n) T'
    end.

  Lemma build_prefix : forall T vals i, (i < length vals)%nat ->
    nth i (build vals T) 0 = nth i vals 0.
  Proof.
    induction T as [|e T IH]; intros vals i Hi; cbn [build]; [reflexivity|].
    rewrite IH by (rewrite app_length; cbn [length]; lia).
    now apply app_nth1.
  Qed.

  Lemma build_cons : forall T vals, wfb (length vals) T = true ->
    cons (fun i => nth i (build vals T) 0) T.
  Proof.
    induction T as [|e T IH]; intros vals Hwf; [constructor|].
    cbn [wfb] in Hwf.
    apply andb_true_iff in Hwf as [Hwf HT]. apply andb_true_iff in Hwf as [Hwf Hlen].
    apply andb_true_iff in Hwf as [Hn Hb].
    apply Nat.eqb_eq in Hn. apply Nat.leb_le in Hlen.
    cbn [build].
    set (v := sbox (evalZ (fun i => nth i vals 0) 0 (snd e) mod p)).
    assert (HT' : wfb (length (vals ++ [v])) T = true).
    { rewrite app_length. cbn [length]. rewrite Nat.add_1_r. exact HT. }
    constructor; [|exact (IH _ HT')].
    split; [exact Hb|]. rewrite Hn.
    rewrite build_prefix by (rewrite app_length; cbn [length]; lia).
    rewrite app_nth2 by lia. rewrite Nat.sub_diag. cbn [nth].
    unfold v. f_equal. f_equal. apply evalZ_ext. intros k Hk.
    rewrite build_prefix by (rewrite app_length; cbn [length]; lia).
    symmetry. apply app_nth1. lia.
  Qed.

  (* ---------------- comparison of traces and of final states ---------------- *)
  Fixpoint treqb (T1 T2 : list entry) : bool :=
    match T1, T2 with
    | [], [] => true
    | e1 :: T1', e2 :: T2' =>
        Nat.eqb (fst (fst e1)) (fst (fst e2)) && Bool.eqb (snd (fst e1)) (snd (fst e2))
        && feqb (snd e1) (snd e2) && treqb T1' T2'
    | _, _ => false
    end.

  Lemma treqb_sound rho : forall T1 T2, treqb T1 T2 = true -> cons rho T1 -> cons rho T2.
  Proof.
    induction T1 as [|e1 T1 IH]; intros [|e2 T2] H Hc; cbn [treqb] in H;
      try discriminate; [constructor|].
    apply andb_true_iff in H as [H HT]. apply andb_true_iff in H as [H Hf].
    apply andb_true_iff in H as [Hn Hb].
    apply Nat.eqb_eq in Hn. apply Bool.eqb_prop in Hb.
    inversion Hc as [|e T [Hb1 Hv1] HT1]; subst e T.
    constructor; [|now apply IH].
    split; [now rewrite <- Hb|].
    rewrite <- Hn, Hv1, (feqb_sound rho _ _ Hf). reflexivity.
  Qed.

  Fixpoint fineqb (F1 F2 : list sform) : bool :=
    match F1, F2 with
    | [], [] => true
    | f1 :: F1', f2 :: F2' =>
        fst f1 && fst f2 && feqb (snd f1) (snd f2) && fineqb F1' F2'
    | _, _ => false
    end.

  Lemma fineqb_sound rho : forall F1 F2, fineqb F1 F2 = true ->
    map (evalm rho) F1 = map (evalm rho) F2.
  Proof.
    induction F1 as [|f1 F1 IH]; intros [|f2 F2] H; cbn [fineqb] in H;
      try discriminate; [reflexivity|].
    apply andb_true_iff in H as [H HT]. apply andb_true_iff in H as [H Hf].
    apply andb_true_iff in H as [Hb1 Hb2].
    cbn [map]. rewrite (IH _ HT). f_equal.
    unfold evalm. rewrite Hb1, Hb2, (feqb_sound rho _ _ Hf). reflexivity.
  Qed.

  (* ================================================================ *)
  (* The generic checker                                                *)
  Section Check.
  Variable t : nat.
  Variables RF RP : nat.
  Variable RC : list Z.
  Variable MDS : list (list Z).
  Variables C SS : list Z.
  Variables M P : list (list Z).

  Definition init_lanes : list sform := map (fun k => (false, fvar (S k))) (seq 0 t).
  Definition init_sst : sst := ((S t, []), init_lanes).

  Definition gcheck : bool :=
    let r1 := sperm_ref t RF RP RC MDS init_sst in
    let r2 := sperm_opt t RF RP C SS M P init_sst in
    Nat.eqb (length MDS) t
    && wfb (S t) (rev (snd (fst r1)))
    && treqb (snd (fst r1)) (snd (fst r2))
    && fineqb (snd r1) (snd r2).

  Lemma gcheck_lenMDS : gcheck = true -> length MDS = t.
  Proof.
    unfold gcheck. cbv zeta. intros H.
    apply andb_true_iff in H as [H _]. apply andb_true_iff in H as [H _].
    apply andb_true_iff in H as [H _]. now apply Nat.eqb_eq.
  Qed.

  Theorem gcheck_sound :
    gcheck = true ->
    forall st, length st = t ->
      perm_opt p sbox t RF RP C SS M P st = perm_ref p sbox t RF RP RC MDS st.
  Proof.
    unfold gcheck. cbv zeta.
    set (r1 := sperm_ref t RF RP RC MDS init_sst).
    set (r2 := sperm_opt t RF RP C SS M P init_sst).
    intros H st Hlen.
    apply andb_true_iff in H as [H Hfin]. apply andb_true_iff in H as [H Htr].
    apply andb_true_iff in H as [_ Hwf].
    set (vals0 := 1 :: st).
    assert (Hl0 : length vals0 = S t) by (unfold vals0; cbn [length]; now rewrite Hlen).
    set (rho := fun i => nth i (build vals0 (rev (snd (fst r1)))) 0).
    assert (Hrho0 : rho 0%nat = 1).
    { unfold rho. rewrite build_prefix by (rewrite Hl0; lia). reflexivity. }
    assert (Hc1 : cons rho (snd (fst r1))).
    { rewrite <- Hl0 in Hwf. apply build_cons in Hwf. fold rho in Hwf.
      unfold cons in *. apply Forall_rev in Hwf. now rewrite rev_involutive in Hwf. }
    assert (Hc2 : cons rho (snd (fst r2))) by (exact (treqb_sound rho _ _ Htr Hc1)).
    assert (Hinit : map (evalm rho) (snd init_sst) = st).
    { unfold init_sst, init_lanes. cbn [snd]. rewrite map_map.
      transitivity (map (fun k => nth k st 0) (seq 0 t));
        [|rewrite <- Hlen; apply map_nth_seq].
      apply map_ext_in. intros k Hk. apply in_seq in Hk.
      unfold evalm. cbn [fst snd]. rewrite evalZ_fvar, Nat.add_0_l.
      unfold rho. rewrite build_prefix by (rewrite Hl0; lia). reflexivity. }
    destruct (sim_perm_ref t RF RP RC MDS rho Hrho0 init_sst Hc1) as [E1 _].
    destruct (sim_perm_opt t RF RP C SS M P rho Hrho0 init_sst Hc2) as [E2 _].
    rewrite Hinit in E1, E2. rewrite E1, E2. fold r1 r2.
    symmetry. now apply fineqb_sound.
  Qed.
  End Check.

End Sym.

(* ------------------------------------------------------------------ *)
(* Range of the reference permutation                                   *)

Lemma dot_range p u v : 0 < p -> 0 <= dot p u v < p.
Proof.
  intros Hp. unfold dot.
  assert (H : forall l acc, 0 <= acc < p ->
            0 <= fold_left (fun acc xy => (acc + fst xy * snd xy) mod p) l acc < p).
  { induction l as [|xy l IH]; intros acc Hacc; cbn [fold_left]; [exact Hacc|].
    apply IH. apply Z.mod_pos_bound. exact Hp. }
  apply H. lia.
Qed.

Lemma mds_mul_range p MDS st :
  0 < p ->
  length (mds_mul p MDS st) = length MDS /\
  Forall (fun x => 0 <= x < p) (mds_mul p MDS st).
Proof.
  intros Hp. unfold mds_mul. split; [apply map_length|].
  apply Forall_forall. intros x Hx. apply in_map_iff in Hx as [row [<- _]].
  now apply dot_range.
Qed.

Theorem perm_ref_range :
  forall (p : Z) (sbox : Z -> Z) (t RF RP : nat) (RC : list Z) (MDS : list (list Z))
         (st : list Z),
    0 < p -> (0 < RF + RP)%nat -> length MDS = t ->
    length (perm_ref p sbox t RF RP RC MDS st) = t /\
    Forall (fun x => 0 <= x < p) (perm_ref p sbox t RF RP RC MDS st).
Proof.
  intros p sbox t RF RP RC MDS st Hp Hn Hlen. unfold perm_ref.
  destruct (RF + RP)%nat as [|n]; [lia|].
  rewrite seq_S, fold_left_app. cbn [fold_left Nat.add]. unfold round at 1.
  cbv zeta. rewrite <- Hlen. now apply mds_mul_range.
Qed.

(* ------------------------------------------------------------------ *)
(* Instantiation of the coefficient arithmetic with Bignums' BigZ       *)
From Bignums Require Import BigZ.

Definition hades_check (p : Z) (t RF RP : nat) (RC : list Z) (MDS : list (list Z))
                       (C S : list Z) (M P : list (list Z)) : bool :=
  let pB := BigZ.of_Z p in
  gcheck BigZ.t BigZ.add BigZ.mul (fun a => BigZ.modulo a pB) BigZ.of_Z BigZ.eqb
         t RF RP RC MDS C S M P.

Section BigZInst.
  Variable p : Z.
  Let kmodB (a : BigZ.t) : BigZ.t := BigZ.modulo a (BigZ.of_Z p).

  Lemma kmodB_spec a : BigZ.to_Z (kmodB a) mod p = BigZ.to_Z a mod p.
  Proof. unfold kmodB. rewrite BigZ.spec_modulo, BigZ.spec_of_Z. apply Zmod_mod. Qed.

  Lemma keqbB_spec a b : BigZ.eqb a b = true -> BigZ.to_Z a = BigZ.to_Z b.
  Proof. rewrite BigZ.spec_eqb. apply Z.eqb_eq. Qed.
End BigZInst.

Theorem hades_check_sound :
  forall (p : Z) (sbox : Z -> Z) (t RF RP : nat) (RC : list Z) (MDS : list (list Z))
         (C S : list Z) (M P : list (list Z)),
    1 < p -> (1 <= t)%nat -> (4 <= RF)%nat -> Nat.even RF = true ->
    hades_check p t RF RP RC MDS C S M P = true ->
    forall st, length st = t ->
      perm_opt p sbox t RF RP C S M P st = perm_ref p sbox t RF RP RC MDS st.
Proof.
  intros p sbox t RF RP RC MDS C S M P _ _ _ _ Hchk.
  unfold hades_check in Hchk. cbv zeta in Hchk.
  exact (gcheck_sound p sbox BigZ.t BigZ.to_Z BigZ.add BigZ.mul
           (fun a => BigZ.modulo a (BigZ.of_Z p)) BigZ.of_Z BigZ.eqb
           BigZ.spec_add BigZ.spec_mul (kmodB_spec p) BigZ.spec_of_Z keqbB_spec
           t RF RP RC MDS C S M P Hchk).
Qed.

Print Assumptions hades_check_sound.

Lemma hades_check_lenMDS :
  forall (p : Z) (t RF RP : nat) (RC : list Z) (MDS : list (list Z))
         (C S : list Z) (M P : list (list Z)),
    hades_check p t RF RP RC MDS C S M P = true -> length MDS = t.
Proof.
  intros p t RF RP RC MDS C S M P Hchk.
  unfold hades_check in Hchk. cbv zeta in Hchk.
  exact (gcheck_lenMDS _ _ _ _ _ _ _ _ _ _ _ _ _ _ _ Hchk).
Qed.

(* Range of both permutations when the check succeeds *)
Theorem hades_check_range :
  forall (p : Z) (sbox : Z -> Z) (t RF RP : nat) (RC : list Z) (MDS : list (list Z))
         (C S : list Z) (M P : list (list Z)),
    1 < p -> (1 <= t)%nat -> (4 <= RF)%nat -> Nat.even RF = true ->
    hades_check p t RF RP RC MDS C S M P = true ->
    forall st,
      (length (perm_ref p sbox t RF RP RC MDS st) = t /\
       Forall (fun x => 0 <= x < p) (perm_ref p sbox t RF RP RC MDS st)) /\
      (length st = t ->
       length (perm_opt p sbox t RF RP C S M P st) = t /\
       Forall (fun x => 0 <= x < p) (perm_opt p sbox t RF RP C S M P st)).
Proof.
  intros p sbox t RF RP RC MDS C S M P Hp Ht HRF Hev Hchk st.
  assert (Href : length (perm_ref p sbox t RF RP RC MDS st) = t /\
                 Forall (fun x => 0 <= x < p) (perm_ref p sbox t RF RP RC MDS st)).
  { apply perm_ref_range; [lia|lia|]. exact (hades_check_lenMDS _ _ _ _ _ _ _ _ _ _ Hchk). }
  split; [exact Href|]. intros Hlen.
  rewrite (hades_check_sound p sbox t RF RP RC MDS C S M P Hp Ht HRF Hev Hchk st Hlen).
  exact Href.
Qed.

Print Assumptions perm_ref_range.
Print Assumptions hades_check_range.

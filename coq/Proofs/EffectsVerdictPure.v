(* C16 verdict on the regenerated effect IR: every exported function is pure
   except for its documented destination. *)
From Coq Require Import String List Bool Arith ZArith Lia.
Import ListNotations.
From Verif Require Import Model.Effects Gen.EffectsIR Proofs.EffectsProofs Proofs.EffectsDocumented.
Open Scope string_scope.

Lemma all_exported_pure :
  forallb (pure_fn funcs documented) exported_names = true.
Proof. vm_compute. reflexivity. Qed.

Lemma exported_pure : forall f, In f exported_names ->
    pure_fn funcs documented f = true.
Proof.
  intros f Hf. pose proof all_exported_pure as H.
  rewrite forallb_forall in H. apply H, Hf.
Qed.

(* NON-VACUITY of the corollaries below (and of c17_concurrent, c19_receiver):
   every exported function of the generated table has an execution from
   every heap, for all argument regions and every layout of the globals
   (the canonical one: may-instructions skipped, no cell read or written by
   the must-instructions, callees run canonically). *)
Theorem run_inhabited : forall f, In f exported_names ->
    forall (gl : string -> region) ps h nx,
    exists n h' nx' tr ret, run funcs gl n f ps h nx h' nx' tr ret.
Proof.
  intros f Hf gl ps h nx.
  eapply pure_run_inhabited. apply exported_pure, Hf.
Qed.

Section Repo.
  (* any layout of the package-level variables in the heap *)
  Variable gl : string -> region.

(* C16, one call: an exported operation changes no pre-existing cell other
     than its documented destination (none for most), in particular none of
     its other arguments and no package-level variable; it touches only
     fresh cells, its arguments and globals. *)
  Theorem c16_frame : forall f, In f exported_names ->
      forall n ps h nx h' nx' tr ret,
        run funcs gl n f ps h nx h' nx' tr ret ->
        nx <= nx' /\
        (forall c, c < nx -> ~ dest_cells ps (dest_of documented f) c -> h' c = h c) /\
        (forall c, In c (writes_of tr) ->
                   nx <= c < nx' \/ dest_cells ps (dest_of documented f) c) /\
        (forall c, In c (reads_of tr ++ writes_of tr) -> nx <= c < nx' \/ acc gl ps c).
  Proof. intros f Hf. apply pure_fn_sound, exported_pure, Hf. Qed.

  (* C16, histories: after any finite history of exported operations
     (failing calls included) every pre-existing cell that is not a
     documented destination of one of the calls is unchanged. *)
  Theorem c16_history : forall hist,
      Forall (fun fp : call => In (fst fp) exported_names) hist ->
      forall h nx h' nx', run_hist funcs gl hist h nx h' nx' ->
      nx <= nx' /\
      forall c, c < nx -> ~ hist_dest documented hist c -> h' c = h c.
  Proof.
    intros hist Hall h nx h' nx' Hrun.
    apply (history_pure funcs gl documented hist); [|exact Hrun].
    unfold all_pure. rewrite Forall_forall in *. intros fp Hfp.
    apply exported_pure, Hall, Hfp.
  Qed.

  End Repo.

Print Assumptions all_exported_pure.
Print Assumptions run_inhabited.
Print Assumptions c16_frame.
Print Assumptions c16_history.

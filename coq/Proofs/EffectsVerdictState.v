(* C16/C17 verdict on the regenerated effect IR: no function outside the
   initialisers writes package-level state. *)
From Coq Require Import String List Bool Arith ZArith Lia.
Import ListNotations.
From Verif Require Import Model.Effects Gen.EffectsIR Proofs.EffectsProofs Proofs.EffectsDocumented.
Open Scope string_scope.

Lemma no_package_state :
  no_global_state funcs all_names init_names = true.
Proof. vm_compute. reflexivity. Qed.

Section Repo.
  (* any layout of the package-level variables in the heap *)
  Variable gl : string -> region.

(* C16/C17: outside the initialisers, no function at all (exported or not)
     writes a cell of a package-level variable, unless the caller passed that
     very cell as an argument: there is no scratch state, cache or lazy
     initialisation in package-level variables. *)
  Theorem c17_no_package_state : forall f, In f all_names -> ~ In f init_names ->
      forall n ps h nx h' nx' tr ret,
        run funcs gl n f ps h nx h' nx' tr ret ->
        forall c, c < nx -> (forall i, ~ denP ps i c) -> h' c = h c.
  Proof.
    intros f Hf Hni. apply no_global_write_sound.
    eapply no_global_state_elim; [exact no_package_state|exact Hf|exact Hni].
  Qed.

  End Repo.

Print Assumptions no_package_state.
Print Assumptions c17_no_package_state.

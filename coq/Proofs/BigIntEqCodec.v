(* Part of the equality lemmas between the Gallina regenerated from the Go
   sources by tools/bigintgen (Gen/BigIntRoutines.v) and the hand-written models:
   compression of keys and signatures, Scan / Value, text encodings, DecompressSig.
   The lemmas are split over Proofs/BigIntEq*.v so that an edit of one Go
   function breaks only the file of that function (and the files that use its
   lemma); Proofs/BigIntEqAll.v exports all of them. *)
From Coq Require Import ZArith List Bool Lia.
From Verif Require Import Lib.Params Lib.Octets Spec.Edwards Model.Outcome Model.Utils
  Model.BabyJubCore Model.BabyJub Model.Eddsa.
From Verif Require Gen.CurveConsts Model.Mimc7 Model.Poseidon.
From Verif Require Import Gen.BigIntRoutines.
From Verif Require Import Proofs.BigIntEqUtils Proofs.BigIntEqCompress.
Import ListNotations.
Local Open Scope Z_scope.

(* The external functions are never unfolded by the proofs below; keeping them
   opaque for the tactics makes a FAILING comparison (after an edit of the Go
   code) fail fast instead of normalising Fermat inversions or Tonelli-Shanks
   on symbolic arguments. *)
Local Opaque BabyJub.modinv BabyJub.modsqrt BabyJub.Mul BabyJub.Affine BabyJub.Projective
  Mimc7.MIMC7Hash HadesOpt.perm_opt Z.mul Z.add Z.sub Z.modulo Z.shiftr Z.shiftl Z.land Z.lor
  Z.ltb Z.gtb Z.geb Z.eqb.

(* ---- list facts about the byte-array operations --------------------------- *)

Lemma copy_into_length : forall n src, length (copy_into n src) = n.
Proof.
  intros n src. unfold copy_into. rewrite app_length, repeat_length.
  pose proof (firstn_le_length n src). lia.
Qed.

Lemma copy_into_id : forall n src, length src = n -> copy_into n src = src.
Proof.
  intros n src H. unfold copy_into. rewrite firstn_all2 by lia.
  rewrite H, Nat.sub_diag. cbn [repeat]. apply app_nil_r.
Qed.

Lemma set_nth_length : forall n v l, (n < length l)%nat -> length (set_nth n v l) = length l.
Proof.
  intros n v l H. unfold set_nth. rewrite app_length. cbn [length].
  rewrite firstn_length, skipn_length. lia.
Qed.

Lemma BigIntLEBytes_length : forall v, length (Utils.BigIntLEBytes v) = 32%nat.
Proof. intros v. apply copy_into_length. Qed.

Lemma PackSignY_length : forall sign y, length (BabyJub.PackSignY sign y) = 32%nat.
Proof.
  intros sign y. unfold BabyJub.PackSignY. cbv zeta. destruct sign.
  - rewrite set_nth_length; rewrite BigIntLEBytes_length; lia.
  - apply BigIntLEBytes_length.
Qed.

Lemma Compress_length : forall p, length (BabyJub.Compress p) = 32%nat.
Proof. intros [x y]. apply PackSignY_length. Qed.

(* copy(dst[:], src) with len(src) = len(dst): dst becomes src *)
Lemma copy_at_whole : forall n dst src,
  length dst = n -> length src = n -> copy_at 0 n dst src = src.
Proof.
  intros n dst src Hd Hs. unfold copy_at. cbn [firstn app].
  rewrite Nat.sub_0_r, Nat.add_0_l. rewrite firstn_all2 by lia.
  rewrite skipn_all2 by lia. apply app_nil_r.
Qed.

(* buf := [64]byte{}; copy(buf[:32], a); copy(buf[32:], b) with 32-byte a, b *)
Lemma copy_at_halves : forall a b,
  length a = 32%nat -> length b = 32%nat ->
  copy_at 32 64 (copy_at 0 32 (repeat 0 64) a) b = a ++ b.
Proof.
  intros a b Ha Hb.
  assert (H1 : copy_at 0 32 (repeat 0 64) a = a ++ repeat 0 32).
  { unfold copy_at. cbn [firstn app]. rewrite Nat.sub_0_r, Nat.add_0_l.
    rewrite firstn_all2 by lia. rewrite Ha. reflexivity. }
  rewrite H1. unfold copy_at.
  rewrite firstn_app, Ha, Nat.sub_diag, firstn_O, app_nil_r.
  rewrite (firstn_all2 a) by lia.
  replace (64 - 32)%nat with 32%nat by reflexivity.
  rewrite (firstn_all2 b) by lia. rewrite Hb.
  rewrite skipn_all2 by (rewrite app_length, repeat_length; lia).
  rewrite app_nil_r. reflexivity.
Qed.

(* ---- compression, Scan, text encodings ------------------------------------ *)

Lemma gen_babyjub_PublicKey_Compress_eq : forall pk,
  babyjub_PublicKey_Compress pk = Eddsa.PkCompress pk.
Proof.
  intros. unfold babyjub_PublicKey_Compress, Eddsa.PkCompress.
  apply gen_babyjub_Point_Compress_eq.
Qed.

Lemma gen_babyjub_PublicKeyComp_Decompress_eq : forall pkComp,
  babyjub_PublicKeyComp_Decompress pkComp = Eddsa.PkDecompress pkComp.
Proof.
  intros. unfold babyjub_PublicKeyComp_Decompress, Eddsa.PkDecompress.
  apply gen_babyjub_Point_Decompress_eq.
Qed.

Lemma gen_babyjub_Signature_Compress_eq : forall s,
  babyjub_Signature_Compress s = Eddsa.SigCompress s.
Proof.
  intros [R8 Sv]. unfold babyjub_Signature_Compress, Eddsa.SigCompress.
  cbv zeta. cbn [fst snd].
  rewrite gen_babyjub_Point_Compress_eq, gen_utils_BigIntLEBytes_eq.
  apply copy_at_halves; [apply Compress_length | apply BigIntLEBytes_length].
Qed.

(* buf is a [64]byte *)
Lemma gen_babyjub_Signature_Decompress_eq : forall buf, length buf = 64%nat ->
  babyjub_Signature_Decompress buf = Eddsa.SigDecompress buf.
Proof.
  intros buf Hlen. unfold babyjub_Signature_Decompress, Eddsa.SigDecompress.
  cbv zeta. rewrite copy_into_id by (rewrite firstn_length; lia).
  rewrite gen_babyjub_Point_Decompress_eq, gen_utils_SetBigIntFromLEBytes_fn.
  destruct (BabyJub.Decompress (firstn 32 buf)); reflexivity.
Qed.

Lemma gen_babyjub_SignatureComp_Decompress_eq : forall sComp, length sComp = 64%nat ->
  babyjub_SignatureComp_Decompress sComp = Eddsa.SigDecompress sComp.
Proof.
  intros. unfold babyjub_SignatureComp_Decompress.
  apply gen_babyjub_Signature_Decompress_eq; assumption.
Qed.

(* sComp (the receiver's previous contents) is a [64]byte *)
Lemma gen_babyjub_SignatureComp_Scan_eq : forall sComp src, length sComp = 64%nat ->
  babyjub_SignatureComp_Scan sComp src = Eddsa.SigCompScan src.
Proof.
  intros sComp src Hlen. unfold babyjub_SignatureComp_Scan, Eddsa.SigCompScan.
  destruct src as [b| | | |]; try reflexivity.
  destruct (Nat.eqb (length b) 64) eqn:E; cbn [negb]; [|reflexivity].
  apply Nat.eqb_eq in E. cbv zeta. rewrite copy_at_whole by assumption. reflexivity.
Qed.

Lemma gen_babyjub_PublicKeyComp_Scan_eq : forall pkComp src, length pkComp = 32%nat ->
  babyjub_PublicKeyComp_Scan pkComp src = Eddsa.PkCompScan src.
Proof.
  intros pkComp src Hlen. unfold babyjub_PublicKeyComp_Scan, Eddsa.PkCompScan.
  destruct src as [b| | | |]; try reflexivity.
  destruct (Nat.eqb (length b) 32) eqn:E; cbn [negb]; [|reflexivity].
  apply Nat.eqb_eq in E. cbv zeta. rewrite copy_at_whole by assumption. reflexivity.
Qed.

Lemma gen_babyjub_Signature_Scan_eq : forall src,
  babyjub_Signature_Scan src = Eddsa.SigScan src.
Proof.
  intros src. unfold babyjub_Signature_Scan, Eddsa.SigScan.
  destruct src as [b| | | |]; try reflexivity.
  destruct (Nat.eqb (length b) 64) eqn:E; cbn [negb]; [|reflexivity].
  apply Nat.eqb_eq in E. cbv zeta. rewrite copy_into_id by assumption.
  apply gen_babyjub_Signature_Decompress_eq; assumption.
Qed.

Lemma gen_babyjub_PublicKey_Scan_eq : forall src,
  babyjub_PublicKey_Scan src = Eddsa.PkScan src.
Proof.
  intros src. unfold babyjub_PublicKey_Scan, Eddsa.PkScan.
  destruct src as [b| | | |]; try reflexivity.
  destruct (Nat.eqb (length b) 32) eqn:E; cbn [negb]; [|reflexivity].
  apply Nat.eqb_eq in E. cbv zeta. rewrite copy_into_id by assumption.
  apply gen_babyjub_PublicKeyComp_Decompress_eq.
Qed.

(* MarshalText returns (text, nil) *)
Lemma gen_babyjub_PublicKey_MarshalText_eq : forall pk,
  babyjub_PublicKey_MarshalText pk = Ok (Eddsa.PkMarshalText pk).
Proof.
  intros. unfold babyjub_PublicKey_MarshalText, Eddsa.PkMarshalText. cbv zeta.
  rewrite gen_babyjub_PublicKey_Compress_eq. reflexivity.
Qed.
Lemma gen_babyjub_PublicKey_String_eq : forall pk,
  babyjub_PublicKey_String pk = Eddsa.PkMarshalText pk.
Proof.
  intros. unfold babyjub_PublicKey_String, Eddsa.PkMarshalText. cbv zeta.
  rewrite gen_babyjub_PublicKey_Compress_eq. reflexivity.
Qed.
Lemma gen_babyjub_PublicKeyComp_MarshalText_eq : forall c,
  babyjub_PublicKeyComp_MarshalText c = Ok (Eddsa.PkCompMarshalText c).
Proof. reflexivity. Qed.
Lemma gen_babyjub_PublicKeyComp_String_eq : forall c,
  babyjub_PublicKeyComp_String c = Eddsa.PkCompMarshalText c.
Proof. reflexivity. Qed.
Lemma gen_babyjub_SignatureComp_MarshalText_eq : forall c,
  babyjub_SignatureComp_MarshalText c = Ok (Eddsa.SigCompMarshalText c).
Proof. reflexivity. Qed.
Lemma gen_babyjub_SignatureComp_String_eq : forall c,
  babyjub_SignatureComp_String c = Eddsa.SigCompMarshalText c.
Proof. reflexivity. Qed.

Lemma gen_babyjub_PublicKeyComp_UnmarshalText_eq : forall h,
  babyjub_PublicKeyComp_UnmarshalText h = Eddsa.PkCompUnmarshalText h.
Proof. reflexivity. Qed.
Lemma gen_babyjub_SignatureComp_UnmarshalText_eq : forall h,
  babyjub_SignatureComp_UnmarshalText h = Eddsa.SigCompUnmarshalText h.
Proof. reflexivity. Qed.

Lemma gen_babyjub_PublicKey_UnmarshalText_eq : forall h,
  babyjub_PublicKey_UnmarshalText h = Eddsa.PkUnmarshalText h.
Proof.
  intros h. unfold babyjub_PublicKey_UnmarshalText, Eddsa.PkUnmarshalText.
  destruct (Utils.HexDecodeInto 32 h) as [c| |]; try reflexivity.
  apply gen_babyjub_PublicKeyComp_Decompress_eq.
Qed.

Lemma HexDecodeInto_length : forall n h c, Utils.HexDecodeInto n h = Ok c -> length c = n.
Proof.
  intros n h c. unfold Utils.HexDecodeInto. cbv zeta.
  destruct (negb (Nat.eqb (length (Utils.strip_0x h) / 2) n)); [discriminate|].
  destruct (hex_decode (Utils.strip_0x h)) as [b|]; [|discriminate].
  destruct (Nat.eqb (length b) n) eqn:E; [|discriminate].
  intros H; inversion H; subst. apply Nat.eqb_eq; exact E.
Qed.

Lemma gen_babyjub_DecompressSig_eq : forall h,
  babyjub_DecompressSig h = Eddsa.DecompressSig h.
Proof.
  intros h. unfold babyjub_DecompressSig, Eddsa.DecompressSig.
  rewrite gen_babyjub_SignatureComp_UnmarshalText_eq.
  unfold Eddsa.SigCompUnmarshalText.
  destruct (Utils.HexDecodeInto 64 h) as [c| |] eqn:E; try reflexivity.
  apply gen_babyjub_SignatureComp_Decompress_eq.
  eapply HexDecodeInto_length; exact E.
Qed.

(* database/sql/driver Value(): (compressed bytes, nil) *)
Lemma gen_babyjub_SignatureComp_Value_eq : forall c, babyjub_SignatureComp_Value c = Ok c.
Proof. reflexivity. Qed.
Lemma gen_babyjub_PublicKeyComp_Value_eq : forall c, babyjub_PublicKeyComp_Value c = Ok c.
Proof. reflexivity. Qed.
Lemma gen_babyjub_Signature_Value_eq : forall s,
  babyjub_Signature_Value s = Ok (Eddsa.SigValue s).
Proof.
  intros. unfold babyjub_Signature_Value, Eddsa.SigValue. cbv zeta.
  rewrite gen_babyjub_Signature_Compress_eq. reflexivity.
Qed.
Lemma gen_babyjub_PublicKey_Value_eq : forall pk,
  babyjub_PublicKey_Value pk = Ok (Eddsa.PkValue pk).
Proof.
  intros. unfold babyjub_PublicKey_Value, Eddsa.PkValue. cbv zeta.
  rewrite gen_babyjub_PublicKey_Compress_eq. reflexivity.
Qed.

(* ---- every lemma above is closed under the global context ---------------- *)
Print Assumptions gen_babyjub_PublicKey_Compress_eq.
Print Assumptions gen_babyjub_PublicKeyComp_Decompress_eq.
Print Assumptions gen_babyjub_Signature_Compress_eq.
Print Assumptions gen_babyjub_Signature_Decompress_eq.
Print Assumptions gen_babyjub_SignatureComp_Decompress_eq.
Print Assumptions gen_babyjub_SignatureComp_Scan_eq.
Print Assumptions gen_babyjub_PublicKeyComp_Scan_eq.
Print Assumptions gen_babyjub_Signature_Scan_eq.
Print Assumptions gen_babyjub_PublicKey_Scan_eq.
Print Assumptions gen_babyjub_PublicKey_MarshalText_eq.
Print Assumptions gen_babyjub_PublicKey_String_eq.
Print Assumptions gen_babyjub_PublicKeyComp_MarshalText_eq.
Print Assumptions gen_babyjub_PublicKeyComp_String_eq.
Print Assumptions gen_babyjub_SignatureComp_MarshalText_eq.
Print Assumptions gen_babyjub_SignatureComp_String_eq.
Print Assumptions gen_babyjub_PublicKeyComp_UnmarshalText_eq.
Print Assumptions gen_babyjub_SignatureComp_UnmarshalText_eq.
Print Assumptions gen_babyjub_PublicKey_UnmarshalText_eq.
Print Assumptions gen_babyjub_DecompressSig_eq.
Print Assumptions gen_babyjub_SignatureComp_Value_eq.
Print Assumptions gen_babyjub_PublicKeyComp_Value_eq.
Print Assumptions gen_babyjub_Signature_Value_eq.
Print Assumptions gen_babyjub_PublicKey_Value_eq.

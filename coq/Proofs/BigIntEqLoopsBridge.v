(* The two generated files agree.  Gen/BigIntRoutines.v abstracts the loops of
   Point.Mul, mimc7.Hash and poseidon.HashWithStateEx as section variables,
   which Proofs/BigIntEqRecv.v / BigIntEqHash.v instantiate with the hand
   models' code (babyjub_mulLoop, mimc7_absorb, poseidon_hades);
   Gen/BigIntLoops.v contains the same functions WITH their loops translated
   from the Go source.  Here: the instantiated definitions of the first file
   equal the definitions of the second, i.e. the stand-ins ARE the
   translated loops. *)
From Coq Require Import ZArith List.
From Verif Require Import Lib.Params Model.Outcome Model.BabyJubCore.
From Verif Require Gen.CurveConsts Model.Poseidon Gen.BigIntRoutines Gen.BigIntLoops.
From Verif Require Proofs.BigIntEqHash Proofs.BigIntEqRecv Proofs.BigIntEqLoopsMul
  Proofs.BigIntEqLoopsMimc7 Proofs.BigIntEqLoopsPoseidon Proofs.PoseidonConforms.
Local Open Scope Z_scope.

Lemma bridge_babyjub_Point_Mul : forall s q,
  BigIntRoutines.babyjub_Point_Mul BigIntEqRecv.babyjub_mulLoop s q = BigIntLoops.babyjub_Point_Mul s q.
Proof.
  intros. rewrite BigIntEqRecv.gen_babyjub_Point_Mul_eq, BigIntEqLoopsMul.gen_babyjub_Point_Mul_eq.
  reflexivity.
Qed.

Lemma bridge_babyjub_Point_Mul__recv : forall p0 s q,
  BigIntRoutines.babyjub_Point_Mul__recv BigIntEqRecv.babyjub_mulLoop p0 s q =
  BigIntLoops.babyjub_Point_Mul__recv p0 s q.
Proof.
  intros. rewrite BigIntEqRecv.gen_babyjub_Point_Mul__recv_eq, BigIntEqLoopsMul.gen_babyjub_Point_Mul__recv_eq.
  reflexivity.
Qed.

Lemma bridge_babyjub_Point_Mul__recv_aliased : forall p0 s,
  BigIntRoutines.babyjub_Point_Mul__recv_aliased BigIntEqRecv.babyjub_mulLoop p0 s =
  BigIntLoops.babyjub_Point_Mul__recv_aliased p0 s.
Proof.
  intros. rewrite BigIntEqRecv.gen_babyjub_Point_Mul__recv_aliased_eq,
    BigIntEqLoopsMul.gen_babyjub_Point_Mul__recv_aliased_eq.
  reflexivity.
Qed.

Lemma bridge_mimc7_Hash : forall arr key,
  BigIntRoutines.mimc7_Hash BigIntEqHash.mimc7_absorb arr key = BigIntLoops.mimc7_Hash arr key.
Proof.
  intros. rewrite BigIntEqHash.gen_mimc7_Hash_eq, BigIntEqLoopsMimc7.gen_mimc7_Hash_eq. reflexivity.
Qed.

Lemma bridge_poseidon_HashWithStateEx :
  forall (tables : list Poseidon.ptable),
  length tables = 16%nat ->
  map BigIntEqLoopsPoseidon.tRP tables = BigIntLoops.poseidon_NROUNDSP ->
  forall inpBI initState nOuts,
  BigIntRoutines.poseidon_HashWithStateEx (BigIntEqHash.poseidon_hades 8 tables) inpBI initState nOuts =
  BigIntLoops.poseidon_HashWithStateEx
    (map BigIntEqLoopsPoseidon.tC tables) (map BigIntEqLoopsPoseidon.tS tables)
    (map BigIntEqLoopsPoseidon.tM tables) (map BigIntEqLoopsPoseidon.tP tables) inpBI initState nOuts.
Proof.
  intros tables Hl HR inpBI initState nOuts.
  rewrite (BigIntEqHash.gen_poseidon_HashWithStateEx_eq 8 tables Hl).
  rewrite (BigIntEqLoopsPoseidon.gen_poseidon_HashWithStateEx_eq tables Hl HR). reflexivity.
Qed.

(* with the tables regenerated from poseidon/constants.go (Gen/PoseidonT<t>.v,
   collected in Proofs/PoseidonConforms.v): NROUNDSP of the Go source is the RP
   column of those tables, so the translated HashWithStateEx IS the model that
   C01 is about *)
Lemma gen_tables_RP :
  map BigIntEqLoopsPoseidon.tRP PoseidonConforms.gen_tables = BigIntLoops.poseidon_NROUNDSP.
Proof. reflexivity. Qed.

Theorem gen_poseidon_HashWithStateEx_gen_tables_eq : forall inpBI initState nOuts,
  BigIntLoops.poseidon_HashWithStateEx
    (map BigIntEqLoopsPoseidon.tC PoseidonConforms.gen_tables)
    (map BigIntEqLoopsPoseidon.tS PoseidonConforms.gen_tables)
    (map BigIntEqLoopsPoseidon.tM PoseidonConforms.gen_tables)
    (map BigIntEqLoopsPoseidon.tP PoseidonConforms.gen_tables) inpBI initState nOuts =
  Poseidon.HashWithStateEx Gen.CurveConsts.Q 8 PoseidonConforms.gen_tables inpBI initState nOuts.
Proof.
  exact (BigIntEqLoopsPoseidon.gen_poseidon_HashWithStateEx_eq PoseidonConforms.gen_tables
           PoseidonConforms.gen_tables_length gen_tables_RP).
Qed.

Print Assumptions bridge_babyjub_Point_Mul.
Print Assumptions gen_poseidon_HashWithStateEx_gen_tables_eq.
Print Assumptions bridge_mimc7_Hash.
Print Assumptions bridge_poseidon_HashWithStateEx.

(* Assembly proofs, part 3: the Montgomery routines of ff/element_mul_amd64.s
   and ff/element_mul_adx_amd64.s (MULX / ADCX / ADOX double carry chains).

   Each round of the assembly is first written as a Gallina function that
   follows the instructions one by one ([adx_fm_round], [adx_mul_round0],
   [adx_mul_roundN]); its arithmetic is proved by a linear invariant (products
   generalised, as in Proofs/FfArith.v); the symbolic execution of the program
   then only has to recognise these functions. *)
From Coq Require Import ZArith List Lia Bool Morphisms Setoid.
From Verif Require Import Lib.Params Lib.Words Model.FfLimbs Model.AsmSem
  Proofs.FfWords Proofs.FfEl Proofs.FfArith Proofs.FfOps Proofs.AsmLemmas.
From Verif Require Gen.FfAsm.
Import ListNotations.
Local Open Scope Z_scope.

Local Ltac Zify.zify_post_hook ::= Z.div_mod_to_equations.
Local Opaque q.
Local Opaque mulGeneric.

Local Ltac u64s :=
  match goal with
  | |- u64 _ => assumption
  | |- u64 q0 => exact (proj1 q_limbs_u64)
  | |- u64 q1 => exact (proj1 (proj2 q_limbs_u64))
  | |- u64 q2 => exact (proj1 (proj2 (proj2 q_limbs_u64)))
  | |- u64 q3 => exact (proj2 (proj2 (proj2 q_limbs_u64)))
  | |- u64 0 => unfold u64, W; lia
  | |- 0 <= _ <= 1 => assumption
  | |- 0 <= 0 <= 1 => lia
  end.

(* m = qInvNeg * t0 (operand order of IMULQ) *)
Lemma mont_m_comm : forall t0, wmul qInvNeg t0 = wmul t0 qInvNeg.
Proof. intros. unfold wmul. rewrite Z.mul_comm. reflexivity. Qed.

(* ------------------------------------------------------------------ *)
(** * fromMont, one round (19 instructions) *)

Definition adx_fm_round (t : el) : el :=
  let '(t0, t1, t2, t3) := t in
  let m := wmul qInvNeg t0 in               (* MOVQ qInv0, DX; IMULQ R14, DX *)
  let '(h0, l0) := mul64 m q0 in            (* MULXQ q0, AX, BP *)
  let '(_, c0) := add64 l0 t0 0 in          (* ADCXQ R14, AX *)
  let '(u0, c1) := add64 h0 t1 c0 in        (* MOVQ BP, R14; ADCXQ R15, R14 *)
  let '(h1, l1) := mul64 m q1 in            (* MULXQ q1, AX, R15 *)
  let '(t0', o0) := add64 u0 l1 0 in        (* ADOXQ AX, R14 *)
  let '(u1, c2) := add64 h1 t2 c1 in        (* ADCXQ CX, R15 *)
  let '(h2, l2) := mul64 m q2 in            (* MULXQ q2, AX, CX *)
  let '(t1', o1) := add64 u1 l2 o0 in       (* ADOXQ AX, R15 *)
  let '(u2, c3) := add64 h2 t3 c2 in        (* ADCXQ BX, CX *)
  let '(h3, l3) := mul64 m q3 in            (* MULXQ q3, AX, BX *)
  let '(t2', o2) := add64 u2 l3 o1 in       (* ADOXQ AX, CX *)
  let '(u3, c4) := add64 h3 0 c3 in         (* MOVQ $0, AX; ADCXQ AX, BX *)
  let '(t3', o3) := add64 u3 0 o2 in        (* ADOXQ AX, BX *)
  (t0', t1', t2', t3').

Lemma adx_fm_round_chain : forall t0 t1 t2 t3 h0 l0 r c0 u0 c1 h1 l1 t0' o0 u1 c2
    h2 l2 t1' o1 u2 c3 h3 l3 t2' o2 u3 c4 t3' o3,
  mul64 (wmul qInvNeg t0) q0 = (h0, l0) -> add64 l0 t0 0 = (r, c0) ->
  add64 h0 t1 c0 = (u0, c1) ->
  mul64 (wmul qInvNeg t0) q1 = (h1, l1) -> add64 u0 l1 0 = (t0', o0) ->
  add64 h1 t2 c1 = (u1, c2) ->
  mul64 (wmul qInvNeg t0) q2 = (h2, l2) -> add64 u1 l2 o0 = (t1', o1) ->
  add64 h2 t3 c2 = (u2, c3) ->
  mul64 (wmul qInvNeg t0) q3 = (h3, l3) -> add64 u2 l3 o1 = (t2', o2) ->
  add64 h3 0 c3 = (u3, c4) -> add64 u3 0 o2 = (t3', o3) ->
  adx_fm_round (t0, t1, t2, t3) = (t0', t1', t2', t3') /\ limbs_ok (t0', t1', t2', t3').
Proof.
  intros * M0 E0 E1 M1 E2 E3 M2 E4 E5 M3 E6 E7 E8. split.
  - unfold adx_fm_round. cbv zeta.
    rewrite M0, E0, E1, M1, E2, E3, M2, E4, E5, M3, E6, E7, E8. reflexivity.
  - cbn [limbs_ok]. repeat split; eapply add64_u64; eassumption.
Qed.

(* n_i = m * q_i = h_i * W + l_i; two interleaved carry chains *)
Lemma fm_adx_arith : forall q0 q1 q2 q3 t0 t1 t2 t3 n0 n1 n2 n3
    h0 l0 h1 l1 h2 l2 h3 l3 Cq r c0 u0 c1 t0' o0 u1 c2 t1' o1 u2 c3 t2' o2 u3 c4 t3' o3,
  0 <= n0 <= (W - 1) * q0 -> 0 <= n1 <= (W - 1) * q1 ->
  0 <= n2 <= (W - 1) * q2 -> 0 <= n3 <= (W - 1) * q3 ->
  h0 * W + l0 = n0 -> h1 * W + l1 = n1 -> h2 * W + l2 = n2 -> h3 * W + l3 = n3 ->
  0 <= l0 < W -> 0 <= l1 < W -> 0 <= l2 < W -> 0 <= l3 < W ->
  0 <= t0 < W -> 0 <= t1 < W -> 0 <= t2 < W -> 0 <= t3 < W ->
  Cq * W = n0 + t0 ->
  c0 * W + r = l0 + t0 + 0 -> 0 <= r < W ->
  c1 * W + u0 = h0 + t1 + c0 -> 0 <= u0 < W ->
  o0 * W + t0' = u0 + l1 + 0 -> 0 <= t0' < W ->
  c2 * W + u1 = h1 + t2 + c1 -> 0 <= u1 < W ->
  o1 * W + t1' = u1 + l2 + o0 -> 0 <= t1' < W ->
  c3 * W + u2 = h2 + t3 + c2 -> 0 <= u2 < W ->
  o2 * W + t2' = u2 + l3 + o1 -> 0 <= t2' < W ->
  c4 * W + u3 = h3 + 0 + c3 -> 0 <= u3 < W ->
  o3 * W + t3' = u3 + 0 + o2 -> 0 <= t3' < W ->
  0 <= c4 -> 0 <= o3 ->
  0 <= q0 < W -> 0 <= q1 < W -> 0 <= q2 < W -> 0 <= q3 < W ->
  t0 + W * (t1 + W * (t2 + W * t3)) < q0 + W * (q1 + W * (q2 + W * q3)) ->
  (t0' + W * (t1' + W * (t2' + W * t3'))) * W
    = t0 + W * (t1 + W * (t2 + W * t3)) + (n0 + W * (n1 + W * (n2 + W * n3)))
  /\ t0' + W * (t1' + W * (t2' + W * t3')) < q0 + W * (q1 + W * (q2 + W * q3)).
Proof. intros. unfold W in *. lia. Qed.

Ltac spec_add E U K := apply add64_spec in E; [ destruct E as (E & U & K) | u64s .. ].
Ltac spec_mul E Uh Ul := apply mul64_spec in E; [ destruct E as (E & Uh & Ul) | u64s .. ].

Lemma adx_fm_round_spec : forall z, canon z ->
  exists m, canon (adx_fm_round z) /\ val (adx_fm_round z) * W = val z + m * q.
Proof.
  intros [[[z0 z1] z2] z3] Hz.
  pose proof (canon_limbs _ Hz) as (Z0 & Z1 & Z2 & Z3). pose proof (canon_val _ Hz) as Vz.
  unfold adx_fm_round. cbv zeta. rewrite mont_m_comm.
  destruct (mont_C_spec z0 Z0) as (Hm & UCa & Ea).
  remember (wmul z0 qInvNeg) as m eqn:Em. clear Em.
  remember (madd0 m q0 z0) as Cq eqn:ECq. clear ECq.
  destruct (mul64 m q0) as [h0 l0] eqn:M0. spec_mul M0 Uh0 Ul0.
  destruct (add64 l0 z0 0) as [r c0] eqn:E0. spec_add E0 Ur K0.
  destruct (add64 h0 z1 c0) as [u0 c1] eqn:E1. spec_add E1 Uu0 K1.
  destruct (mul64 m q1) as [h1 l1] eqn:M1. spec_mul M1 Uh1 Ul1.
  destruct (add64 u0 l1 0) as [t0' o0] eqn:E2. spec_add E2 Ut0 O0.
  destruct (add64 h1 z2 c1) as [u1 c2] eqn:E3. spec_add E3 Uu1 K2.
  destruct (mul64 m q2) as [h2 l2] eqn:M2. spec_mul M2 Uh2 Ul2.
  destruct (add64 u1 l2 o0) as [t1' o1] eqn:E4. spec_add E4 Ut1 O1.
  destruct (add64 h2 z3 c2) as [u2 c3] eqn:E5. spec_add E5 Uu2 K3.
  destruct (mul64 m q3) as [h3 l3] eqn:M3. spec_mul M3 Uh3 Ul3.
  destruct (add64 u2 l3 o1) as [t2' o2] eqn:E6. spec_add E6 Ut2 O2.
  destruct (add64 h3 0 c3) as [u3 c4] eqn:E7. spec_add E7 Uu3 K4.
  destruct (add64 u3 0 o2) as [t3' o3] eqn:E8. spec_add E8 Ut3 O3.
  exists m.
  destruct q_limbs_u64 as (Q0 & Q1 & Q2 & Q3).
  rewrite !val_eq in *. rewrite qEl_eq in Vz |- *.
  destruct (fm_adx_arith q0 q1 q2 q3 z0 z1 z2 z3 (m * q0) (m * q1) (m * q2) (m * q3)
              h0 l0 h1 l1 h2 l2 h3 l3 Cq r c0 u0 c1 t0' o0 u1 c2 t1' o1 u2 c3 t2' o2
              u3 c4 t3' o3) as [HA HB];
    try (apply u64_prod_le; assumption); try assumption; try (unfold u64 in *; lia).
  split.
  - apply canon_intro; [ cbn [limbs_ok]; tauto | ].
    rewrite val_eq. exact HB.
  - rewrite HA. ring.
Qed.

(* four rounds, then REDUCE: the canonical representative of z / R *)
Lemma adx_fm_rounds_spec : forall z, canon z ->
  cond_sub_q (adx_fm_round (adx_fm_round (adx_fm_round (adx_fm_round z))))
  = fromMontGeneric z.
Proof.
  intros z Hz.
  destruct (adx_fm_round_spec z Hz) as (m0 & C1 & E1).
  remember (adx_fm_round z) as z1 eqn:Ez1. clear Ez1.
  destruct (adx_fm_round_spec z1 C1) as (m1 & C2 & E2).
  remember (adx_fm_round z1) as z2 eqn:Ez2. clear Ez2.
  destruct (adx_fm_round_spec z2 C2) as (m2 & C3 & E3).
  remember (adx_fm_round z2) as z3 eqn:Ez3. clear Ez3.
  destruct (adx_fm_round_spec z3 C3) as (m3 & C4 & E4).
  remember (adx_fm_round z3) as z4 eqn:Ez4. clear Ez4.
  rewrite (cond_sub_q_canon z4 C4).
  destruct (fromMont_correct z Hz) as (Cf & Vf).
  apply val_inj; [ apply canon_limbs; exact C4 | apply canon_limbs; exact Cf | ].
  rewrite Vf. unfold mval. apply eqq_mod_eq; [ apply canon_val; exact C4 | ].
  apply eqq_R_cancel.
  apply (eqq_intro _ _ (m0 + W * (m1 + W * (m2 + W * m3)))).
  remember (val z4) as V4. remember (val z3) as V3. remember (val z2) as V2.
  remember (val z1) as V1. remember (val z) as V0.
  rewrite WW_eq. unfold W in *. lia.
Qed.

(* ------------------------------------------------------------------ *)
(** * fromMont: symbolic execution *)

(* one round, from "MOVQ qInv0<>(SB), DX" to "ADOXQ AX, BX" *)
Ltac do_fm_round R L :=
  let h0 := fresh "h" in let l0 := fresh "l" in let h1 := fresh "h" in let l1 := fresh "l" in
  let h2 := fresh "h" in let l2 := fresh "l" in let h3 := fresh "h" in let l3 := fresh "l" in
  let r := fresh "r" in let u0 := fresh "u" in let u1 := fresh "u" in let u2 := fresh "u" in
  let u3 := fresh "u" in
  let c0 := fresh "c" in let c1 := fresh "c" in let c2 := fresh "c" in let c3 := fresh "c" in
  let c4 := fresh "c" in
  let o0 := fresh "o" in let o1 := fresh "o" in let o2 := fresh "o" in let o3 := fresh "o" in
  let t0 := fresh "t" in let t1 := fresh "t" in let t2 := fresh "t" in let t3 := fresh "t" in
  let M0 := fresh "M" in let M1 := fresh "M" in let M2 := fresh "M" in let M3 := fresh "M" in
  let E0 := fresh "E" in let E1 := fresh "E" in let E2 := fresh "E" in let E3 := fresh "E" in
  let E4 := fresh "E" in let E5 := fresh "E" in let E6 := fresh "E" in let E7 := fresh "E" in
  let E8 := fresh "E" in
  step0; step0; step0;
  step2 h0 l0 M0; step2 r c0 E0; step0; step2 u0 c1 E1;
  step2 h1 l1 M1; step2 t0 o0 E2; step2 u1 c2 E3;
  step2 h2 l2 M2; step2 t1 o1 E4; step2 u2 c3 E5;
  step2 h3 l3 M3; step2 t2 o2 E6;
  step0; step2 u3 c4 E7; step2 t3 o3 E8;
  destruct (adx_fm_round_chain _ _ _ _ _ _ _ _ _ _ _ _ _ _ _ _ _ _ _ _ _ _ _ _ _ _ _ _ _ _
              M0 E0 E1 M1 E2 E3 M2 E4 E5 M3 E6 E7 E8) as [R L];
  clear M0 E0 E1 M1 E2 E3 M2 E4 E5 M3 E6 E7 E8.

(* the ADX body, from "MOVQ res+0(FP), DX" to RET *)
Ltac fm_adx_body Cx :=
  let R1 := fresh "R" in let R2 := fresh "R" in let R3 := fresh "R" in let R4 := fresh "R" in
  let L1 := fresh "L" in let L2 := fresh "L" in let L3 := fresh "L" in let L4 := fresh "L" in
  let r0 := fresh "z" in let r1 := fresh "z" in let r2 := fresh "z" in let r3 := fresh "z" in
  let ER := fresh "ER" in
  do 6 step0;
  do_fm_round R1 L1; step0;
  do_fm_round R2 L2; step0;
  do_fm_round R3 L3; step0;
  do_fm_round R4 L4;
  do_reduce L4 r0 r1 r2 r3 ER;
  do 5 step0; asm_finish;
  split;
  [ rewrite upd4_same, <- (adx_fm_rounds_spec _ Cx), R1, R2, R3, R4; symmetry; exact ER
  | let lq := fresh "lq" in let Hlq := fresh "Hlq" in intros lq Hlq; apply upd4_other; exact Hlq ].

Lemma asm_fromMont_ok : forall adx (lres : loc) (st : state) (x : el),
  canon x ->
  args st = [VP lres] -> mem st lres = x ->
  ok (fun st' => mem st' lres = fromMontGeneric x /\
                 (forall l, l <> lres -> mem st' l = mem st l))
     (run adx FfAsm.asm_fromMont st).
Proof.
  intros adx lres st [[[x0 x1] x2] x3] Cx Ha Hx.
  open_state st. destruct adx; asm_start FfAsm.asm_fromMont.
  - (* supportAdx = true *)
    do 2 step0. fm_adx_body Cx.
  - (* supportAdx = false: CALL ·_fromMontGeneric *)
    do 2 step0. take_jump FfAsm.asm_fromMont.
    do 3 step0. asm_finish. rewrite Hx.
    split.
    + apply put_same.
    + intros l Hl. apply put_other. exact Hl.
Qed.

(* build tag amd64_adx *)
Lemma asm_adx_fromMont_ok : forall adx (lres : loc) (st : state) (x : el),
  canon x ->
  args st = [VP lres] -> mem st lres = x ->
  ok (fun st' => mem st' lres = fromMontGeneric x /\
                 (forall l, l <> lres -> mem st' l = mem st l))
     (run adx FfAsm.asm_adx_fromMont st).
Proof.
  intros adx lres st [[[x0 x1] x2] x3] Cx Ha Hx.
  open_state st. asm_start FfAsm.asm_adx_fromMont.
  fm_adx_body Cx.
Qed.

(* Equality lemmas between the Gallina regenerated from the Go sources by
   tools/bigintgen in LOOPS mode (Gen/BigIntLoops.v) and the hand-written
   models: goldenposeidon exp7state / ark / mix and the whole of Hash against
   Model/HadesOpt.v's perm_opt with the Goldilocks modulus (the shape of
   Model/GoldPoseidon.v).  The Go loops of this package differ in shape from
   the model (the P-round is the last iteration of the first loop, the last
   full round the last iteration of the third, the sparse round computes lane
   0 and the other lanes in one loop): the fixed counts 12 / 8 / 4 are
   unrolled. *)
From Coq Require Import ZArith List Bool Lia Arith.
From Verif Require Import Lib.Params Lib.Octets Spec.Hades Model.Outcome Model.Utils Model.BabyJub
  Model.HadesOpt.
From Verif Require Model.GoldPoseidon.
From Verif Require Import Gen.BigIntLoops Proofs.BigIntEqLoopsLib.
Import ListNotations.
Local Open Scope Z_scope.
Local Opaque Z.mul Z.add Z.sub Z.modulo Z.pow Z.to_nat Z.of_nat pg.

Lemma sbox7_pow : forall p x, sbox7 p x = (x ^ 7) mod p.
Proof.
  intros p x. unfold sbox7. cbv zeta.
  rewrite <- (Zmult_mod (x * x) (x * x) p).
  rewrite <- (Zmult_mod (x * x * (x * x)) (x * x) p).
  rewrite Zmult_mod_idemp_l.
  f_equal. Local Transparent Z.mul Z.pow. ring.
Qed.
Local Opaque Z.mul Z.pow.

Section Tables.
  Variables gC gS : list Z.
  Variables gM gP : list (list Z).

  Lemma gen_goldenposeidon_exp7_eq : forall a, goldenposeidon_exp7 a = sbox7 pg a.
  Proof. intros. unfold goldenposeidon_exp7. cbv zeta. symmetry. apply sbox7_pow. Qed.

  Lemma gen_goldenposeidon_exp7state_eq : forall st,
    goldenposeidon_exp7state st = sbox_all (sbox7 pg) st.
  Proof.
    intros st. unfold goldenposeidon_exp7state, sbox_all. cbv zeta.
    rewrite (fold_set_nth_map (fun _ x => goldenposeidon_exp7 x) st).
    cbn [snd]. rewrite (map_combine_seq_snd goldenposeidon_exp7).
    apply map_ext. apply gen_goldenposeidon_exp7_eq.
  Qed.

  Lemma gen_goldenposeidon_ark_eq : forall st it, 0 <= it ->
    goldenposeidon_ark gC st it = ark pg gC st (Z.to_nat it).
  Proof.
    intros st it H. unfold goldenposeidon_ark, ark, nthz. cbv zeta.
    rewrite (fold_set_nth_map (fun i x => (x + nth (Z.to_nat (it + Z.of_nat i)) gC 0) mod pg) st).
    apply map_ext. intros [i x]. cbn [fst snd].
    replace (Z.to_nat (it + Z.of_nat i)) with (Z.to_nat it + i)%nat by lia. reflexivity.
  Qed.

  (* the double loop of mix for a FIXED matrix m (what remains of the generated function once
     [opt] is known, wherever the source selects the matrix: inside the inner loop, as it does
     now, or hoisted in front of the loops) *)
  Lemma mix_body_eq : forall (m : list (list Z)) st, length st = 12%nat ->
    fold_left (fun (newState : list Z) (i : nat) =>
        fold_left (fun (newState0 : list Z) (j : nat) =>
            set_nth i ((nth i newState0 0 + (nth i (nth j m []) 0 * nth j st 0) mod pg) mod pg) newState0)
          (seq 0 12) (set_nth i 0 newState))
      (seq 0 12)
      (fold_left (fun (newState : list Z) (i : nat) => set_nth i 0 newState) (seq 0 12) (repeat 0 12))
    = mix pg 12 m st.
  Proof.
    intros m st Hl. unfold mix.
    rewrite (fold_set_nth_build (fun _ => 0)) by (rewrite repeat_length; lia).
    rewrite skipn_all2 by (rewrite repeat_length; lia).
    rewrite app_nil_r, map_const_repeat, seq_length.
    pose (lane := fun i => fold_left (fun acc j => (acc + ((nth i (nth j m []) 0) * (nth j st 0)) mod pg) mod pg)
                                     (seq 0 12) 0).
    assert (E : forall ns, length ns = 12%nat ->
              fold_left (fun (newState : list Z) (i : nat) =>
                fold_left (fun (newState0 : list Z) (j : nat) =>
                  set_nth i ((nth i newState0 0 + (nth i (nth j m []) 0 * nth j st 0) mod pg) mod pg) newState0)
                  (seq 0 12) (set_nth i 0 newState)) (seq 0 12) ns =
              fold_left (fun ns i => set_nth i (lane i) ns) (seq 0 12) ns).
    { intros ns0 Hns0.
      apply (fold_left_ext_inv (list Z) nat (fun ns => length ns = 12%nat)); [exact Hns0|].
      intros ns i Hns Hi. apply in_seq in Hi. split; [|rewrite length_set_nth; lia].
      subst lane. cbv beta.
      match goal with |- fold_left _ _ _ = set_nth i (fold_left ?g _ _) _ =>
        rewrite (fold_set_nth_same_slot nat g) by (rewrite length_set_nth; lia)
      end; rewrite nth_set_nth_eq, set_nth_set_nth by lia; reflexivity. }
    rewrite E by apply repeat_length.
    rewrite fold_set_nth_build by (rewrite repeat_length; lia).
    rewrite skipn_all2 by (rewrite repeat_length; lia). rewrite app_nil_r.
    apply map_ext. intros i. subst lane. cbv beta. unfold nthm.
    rewrite (fold_left_combine_seq Z (fun acc j x => (acc + (nth i (nth j m []) 0 * x) mod pg) mod pg)), Hl.
    reflexivity.
  Qed.

  Lemma gen_goldenposeidon_mix_eq : forall st opt, length st = 12%nat ->
    goldenposeidon_mix gM gP st opt = mix pg 12 (if opt then gP else gM) st.
  Proof.
    intros st opt Hl. unfold goldenposeidon_mix, goldenposeidon_zero.
    destruct opt; cbv beta iota zeta; apply mix_body_eq; exact Hl.
  Qed.

  Lemma gold_ark_length : forall st it, length (ark pg gC st it) = length st.
  Proof. intros. unfold ark. rewrite map_length, combine_length, seq_length. lia. Qed.
  Lemma gold_mix_length : forall m st, length (mix pg 12 m st) = 12%nat.
  Proof. intros. unfold mix. rewrite map_length, seq_length. reflexivity. Qed.

  (* one full round: exp7state; ark(.., k); mix(.., opt) *)
  Lemma gold_full_step : forall k opt s, length s = 12%nat ->
    goldenposeidon_mix gM gP (goldenposeidon_ark gC (goldenposeidon_exp7state s) (Z.of_nat k)) opt =
    mix pg 12 (if opt then gP else gM) (ark pg gC (sbox_all (sbox7 pg) s) k).
  Proof.
    intros k opt s H.
    rewrite gen_goldenposeidon_exp7state_eq, gen_goldenposeidon_ark_eq, Nat2Z.id by lia.
    apply gen_goldenposeidon_mix_eq. rewrite gold_ark_length. unfold sbox_all. rewrite map_length. exact H.
  Qed.

  (* the first state[i] += C[i] loop *)
  Lemma gold_ark0 : forall st, length st = 12%nat ->
    fold_left (fun (state : list Z) (i : nat) => set_nth i ((nth i state 0 + nth i gC 0) mod pg) state)
              (seq 0 12) st = ark pg gC st 0.
  Proof.
    intros st H. rewrite <- H.
    rewrite (fold_set_nth_map (fun i x => (x + nth i gC 0) mod pg) st). reflexivity.
  Qed.

  Lemma firstn4 : forall (st : list Z), (4 <= length st)%nat ->
    [nth 0 st 0; nth 1 st 0; nth 2 st 0; nth 3 st 0] = firstn 4 st.
  Proof.
    intros st H. do 4 (destruct st as [|? st]; [cbn in H; lia|]). reflexivity.
  Qed.

  (* the body of the partial-round loop, as generated *)
  Definition gold_sparse_body (state : list Z) (r : nat) : list Z :=
    let state := set_nth 0 (goldenposeidon_exp7 (nth 0 state 0)) state in
    let state := set_nth 0 (((nth 0 state 0) + (nth ((((((((8 / 2)%nat) + 1)%nat) * 12)%nat) + r)%nat) gC 0)) mod pg) state in
    let mul := ((nth ((((((12 * 2)%nat) - 1)%nat) * r)%nat) gS 0) * (nth 0 state 0)) mod pg in
    let s0 := (goldenposeidon_zero + mul) mod pg in
    let '(s0, state) :=
      fold_left (fun (acc : Z * (list Z)) (i : nat) =>
          let '(s0, state) := acc in
          let mul := ((nth ((((((((12 * 2)%nat) - 1)%nat) * r)%nat) + i)%nat) gS 0) * (nth i state 0)) mod pg in
          let s0 := (s0 + mul) mod pg in
          let mul := ((nth ((((((((((((12 * 2)%nat) - 1)%nat) * r)%nat) + 12)%nat) + i)%nat) - 1)%nat) gS 0) * (nth 0 state 0)) mod pg in
          let state := set_nth i (((nth i state 0) + mul) mod pg) state in
          (s0, state))
        (seq 1 ((12 - 1)%nat)) (s0, state) in
    let state := set_nth 0 s0 state in
    state.

  Lemma gold_sparse_step : forall s r, length s = 12%nat ->
    gold_sparse_body s r = sparse_round pg (sbox7 pg) 12 8 gC gS r s.
  Proof.
    intros s r Hl.
    do 12 (destruct s as [|? s]; [discriminate Hl|]). destruct s; [|discriminate Hl]. clear Hl.
    unfold gold_sparse_body, sparse_round, goldenposeidon_zero, nthz. cbv zeta.
    rewrite gen_goldenposeidon_exp7_eq.
    remember ((12 * 2 - 1) * r)%nat as K eqn:EK. clear EK.
    change (12 - 1)%nat with 11%nat.
    cbn [nth set_nth firstn skipn app].
    remember ((sbox7 pg z + nth ((8 / 2 + 1) * 12 + r) gC 0) mod pg) as s1 eqn:Es1. clear Es1.
    cbn [seq length].
    cbn [combine map fst snd].
    repeat (rewrite fold_left_cons; cbv beta iota zeta; cbn [nth set_nth firstn skipn app fst snd]).
    rewrite !fold_left_nil, Nat.add_0_r, !(Z.mul_comm s1). reflexivity.
  Qed.

  (* ---- Hash -------------------------------------------------------------------------- *)
  Lemma gen_goldenposeidon_Hash_eq : forall inp cap, length inp = 8%nat -> length cap = 4%nat ->
    goldenposeidon_Hash gC gS gM gP inp cap =
    Ok (firstn 4 (perm_opt pg (sbox7 pg) 12 8 22 gC gS gM gP (map (fun v => v mod pg) (inp ++ cap)))).
  Proof.
    intros inp cap Hi Hc.
    unfold goldenposeidon_Hash. cbv zeta.
    (* the two loops that build the state *)
    match goal with |- context [fold_left ?f (seq 0 4) (fold_left ?g (seq 0 8) (repeat 0 12))] =>
      replace (fold_left f (seq 0 4) (fold_left g (seq 0 8) (repeat 0 12)))
        with (map (fun v => v mod pg) (inp ++ cap))
    end.
    2:{ do 8 (destruct inp as [|? inp]; [discriminate Hi|]). destruct inp; [|discriminate Hi].
        do 4 (destruct cap as [|? cap]; [discriminate Hc|]). destruct cap; [|discriminate Hc].
        reflexivity. }
    assert (Hl0 : length (map (fun v => v mod pg) (inp ++ cap)) = 12%nat)
      by (rewrite map_length, app_length; lia).
    set (s0 := map (fun v => v mod pg) (inp ++ cap)) in *. clearbody s0. clear inp cap Hi Hc.
    unfold perm_opt, first_full, last_full. cbv zeta.
    rewrite (gold_ark0 s0 Hl0).
    assert (Hl1 : length (ark pg gC s0 0) = 12%nat) by (rewrite gold_ark_length; exact Hl0).
    set (s1 := ark pg gC s0 0) in *. clearbody s1. clear s0 Hl0.
    (* the first loop: three full rounds with M, one with P (unrolled) *)
    match goal with |- context [fold_left ?f (seq 0 (8 / 2)) s1] =>
      replace (fold_left f (seq 0 (8 / 2)) s1) with (fold_left f [0; 1; 2; 3]%nat s1)
        by (replace (seq 0 (8 / 2)) with [0; 1; 2; 3]%nat by reflexivity; reflexivity);
      rewrite (fold_left_cons _ _ f 0%nat), (fold_left_cons _ _ f 1%nat), (fold_left_cons _ _ f 2%nat),
        (fold_left_cons _ _ f 3%nat), (fold_left_nil _ _ f)
    end.
    match goal with |- context [fold_left ?f (seq 0 (8 / 2 - 1)) s1] =>
      replace (fold_left f (seq 0 (8 / 2 - 1)) s1) with (fold_left f [0; 1; 2]%nat s1)
        by (replace (seq 0 (8 / 2 - 1)) with [0; 1; 2]%nat by reflexivity; reflexivity);
      rewrite (fold_left_cons _ _ f 0%nat), (fold_left_cons _ _ f 1%nat), (fold_left_cons _ _ f 2%nat),
        (fold_left_nil _ _ f)
    end.
    cbv beta.
    replace (Nat.eqb 0 (8 / 2 - 1)) with false by reflexivity.
    replace (Nat.eqb 1 (8 / 2 - 1)) with false by reflexivity.
    replace (Nat.eqb 2 (8 / 2 - 1)) with false by reflexivity.
    replace (Nat.eqb 3 (8 / 2 - 1)) with true by reflexivity.
    rewrite (gold_full_step ((0 + 1) * 12) false s1 Hl1). cbv iota.
    assert (Hl2 : length (mix pg 12 gM (ark pg gC (sbox_all (sbox7 pg) s1) ((0 + 1) * 12))) = 12%nat) by apply gold_mix_length.
    set (s2 := mix pg 12 gM (ark pg gC (sbox_all (sbox7 pg) s1) ((0 + 1) * 12))) in *. clearbody s2. clear s1 Hl1.
    rewrite (gold_full_step ((1 + 1) * 12) false s2 Hl2). cbv iota.
    assert (Hl3 : length (mix pg 12 gM (ark pg gC (sbox_all (sbox7 pg) s2) ((1 + 1) * 12))) = 12%nat) by apply gold_mix_length.
    set (s3 := mix pg 12 gM (ark pg gC (sbox_all (sbox7 pg) s2) ((1 + 1) * 12))) in *. clearbody s3. clear s2 Hl2.
    rewrite (gold_full_step ((2 + 1) * 12) false s3 Hl3). cbv iota.
    assert (Hl4 : length (mix pg 12 gM (ark pg gC (sbox_all (sbox7 pg) s3) ((2 + 1) * 12))) = 12%nat) by apply gold_mix_length.
    set (s4 := mix pg 12 gM (ark pg gC (sbox_all (sbox7 pg) s3) ((2 + 1) * 12))) in *. clearbody s4. clear s3 Hl3.
    rewrite (gold_full_step ((3 + 1) * 12) true s4 Hl4). cbv iota.
    assert (Hl5 : length (mix pg 12 gP (ark pg gC (sbox_all (sbox7 pg) s4) ((3 + 1) * 12))) = 12%nat) by apply gold_mix_length.
    set (s5 := mix pg 12 gP (ark pg gC (sbox_all (sbox7 pg) s4) ((3 + 1) * 12))) in *.
    (* the partial rounds *)
    match goal with |- context [fold_left ?f (seq 0 22) s5] =>
      destruct (fold_left_ext_inv (list Z) nat (fun st => length st = 12%nat) f
                  (fun s i => sparse_round pg (sbox7 pg) 12 8 gC gS i s) (seq 0 22) s5 Hl5) as [E Hl6];
        [intros st i Hs _; split;
         [transitivity (gold_sparse_body st i); [reflexivity|apply gold_sparse_step; exact Hs]|]
        |rewrite E; clear E]
    end.
    { do 12 (destruct st as [|? st]; [discriminate Hs|]). destruct st; [|discriminate Hs]. reflexivity. }
    replace (8 / 2 * 12)%nat with ((3 + 1) * 12)%nat by reflexivity. fold s5.
    set (s6 := fold_left (fun s i => sparse_round pg (sbox7 pg) 12 8 gC gS i s) (seq 0 22) s5) in *.
    clearbody s6. clear s5 Hl5 s4 Hl4.
    (* the last loop: three full rounds with constants, one without (unrolled) *)
    match goal with |- context [fold_left ?f (seq 0 (8 / 2)) s6] =>
      replace (fold_left f (seq 0 (8 / 2)) s6) with (fold_left f [0; 1; 2; 3]%nat s6)
        by (replace (seq 0 (8 / 2)) with [0; 1; 2; 3]%nat by reflexivity; reflexivity);
      rewrite !(fold_left_cons _ _ f 0%nat), !(fold_left_cons _ _ f 1%nat), !(fold_left_cons _ _ f 2%nat),
        !(fold_left_cons _ _ f 3%nat), !(fold_left_nil _ _ f)
    end.
    match goal with |- context [fold_left ?f (seq 0 (8 / 2 - 1)) s6] =>
      replace (fold_left f (seq 0 (8 / 2 - 1)) s6) with (fold_left f [0; 1; 2]%nat s6)
        by (replace (seq 0 (8 / 2 - 1)) with [0; 1; 2]%nat by reflexivity; reflexivity);
      rewrite (fold_left_cons _ _ f 0%nat), (fold_left_cons _ _ f 1%nat), (fold_left_cons _ _ f 2%nat),
        (fold_left_nil _ _ f)
    end.
    cbv beta.
    replace (Nat.ltb 0 (8 / 2 - 1)) with true by reflexivity.
    replace (Nat.ltb 1 (8 / 2 - 1)) with true by reflexivity.
    replace (Nat.ltb 2 (8 / 2 - 1)) with true by reflexivity.
    replace (Nat.ltb 3 (8 / 2 - 1)) with false by reflexivity.
    cbv iota.
    rewrite !(gold_full_step ((8 / 2 + 1 + 0) * 12 + 22) false s6 Hl6). cbv iota.
    replace ((8 / 2 + 1 + 0) * 12 + 22)%nat with ((8 / 2 + 1) * 12 + 22 + 0 * 12)%nat by reflexivity.
    assert (Hl7 : length (mix pg 12 gM (ark pg gC (sbox_all (sbox7 pg) s6) ((8 / 2 + 1) * 12 + 22 + 0 * 12))) = 12%nat) by apply gold_mix_length.
    set (s7 := mix pg 12 gM (ark pg gC (sbox_all (sbox7 pg) s6) ((8 / 2 + 1) * 12 + 22 + 0 * 12))) in *. clearbody s7. clear s6 Hl6.
    rewrite !(gold_full_step ((8 / 2 + 1 + 1) * 12 + 22) false s7 Hl7). cbv iota.
    replace ((8 / 2 + 1 + 1) * 12 + 22)%nat with ((8 / 2 + 1) * 12 + 22 + 1 * 12)%nat by reflexivity.
    assert (Hl8 : length (mix pg 12 gM (ark pg gC (sbox_all (sbox7 pg) s7) ((8 / 2 + 1) * 12 + 22 + 1 * 12))) = 12%nat) by apply gold_mix_length.
    set (s8 := mix pg 12 gM (ark pg gC (sbox_all (sbox7 pg) s7) ((8 / 2 + 1) * 12 + 22 + 1 * 12))) in *. clearbody s8. clear s7 Hl7.
    rewrite !(gold_full_step ((8 / 2 + 1 + 2) * 12 + 22) false s8 Hl8). cbv iota.
    replace ((8 / 2 + 1 + 2) * 12 + 22)%nat with ((8 / 2 + 1) * 12 + 22 + 2 * 12)%nat by reflexivity.
    assert (Hl9 : length (mix pg 12 gM (ark pg gC (sbox_all (sbox7 pg) s8) ((8 / 2 + 1) * 12 + 22 + 2 * 12))) = 12%nat) by apply gold_mix_length.
    set (s9 := mix pg 12 gM (ark pg gC (sbox_all (sbox7 pg) s8) ((8 / 2 + 1) * 12 + 22 + 2 * 12))) in *. clearbody s9. clear s8 Hl8.
    rewrite !gen_goldenposeidon_exp7state_eq.
    rewrite !(gen_goldenposeidon_mix_eq (sbox_all (sbox7 pg) s9) false)
      by (unfold sbox_all; rewrite map_length; exact Hl9).
    cbv iota. apply f_equal. apply firstn4. rewrite gold_mix_length. lia.
  Qed.

  (* with the tables of Model/GoldPoseidon.v: the model's Hash *)
  Lemma gen_goldenposeidon_Hash_model_eq :
    forall (c s : list Z) (p : list (list Z)) (mcirc mdiag : list Z) inp cap,
    gC = GoldPoseidon.C c -> gS = GoldPoseidon.S s -> gM = GoldPoseidon.M mcirc mdiag 12 ->
    gP = GoldPoseidon.P p -> length inp = 8%nat -> length cap = 4%nat ->
    goldenposeidon_Hash gC gS gM gP inp cap = Ok (GoldPoseidon.Hash c s p mcirc mdiag 8 22 12 inp cap).
  Proof.
    intros c s p mcirc mdiag inp cap EC ES EM EP Hi Hc.
    rewrite (gen_goldenposeidon_Hash_eq inp cap Hi Hc). subst. reflexivity.
  Qed.


End Tables.

Print Assumptions gen_goldenposeidon_exp7state_eq.
Print Assumptions gen_goldenposeidon_ark_eq.
Print Assumptions gen_goldenposeidon_mix_eq.
Print Assumptions gen_goldenposeidon_Hash_eq.
Print Assumptions gen_goldenposeidon_Hash_model_eq.

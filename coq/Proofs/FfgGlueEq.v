(* The hand-written models of the element-level functions of ffg/element.go
   (Model/FfgLimbs.v: exp, setBigInt, toBigIntRegular, inverse, div, halve,
   batchInvert; Model/FfgConv.v: legendre, sqrt, setBytes, bytesOf, cmp,
   lexLargest) EQUAL the Gallina that tools/limbgen (glue translator)
   regenerates from the Go source on every run (Gen/FfgGlue.v), which calls the
   limb-level definitions of Gen/FfgRoutines.v (Proofs/FfgRoutinesEq.v).
   Same structure as Proofs/FfGlueEq.v.  No axioms. *)
From Coq Require Import ZArith Lia List Bool.
From Verif Require Import Lib.Params Lib.Words Lib.Octets Lib.Powmod Lib.GoGlue.
From Verif Require Gen.FfgConsts Gen.FfgRoutines Gen.FfgGlue.
From Verif Require Import Model.FfgLimbs Model.FfgConv.
From Verif Require Import Proofs.FfgRoutinesEq Proofs.SqrtRefine Proofs.GlueLoops.
From Verif Require Proofs.FfgSqrt Proofs.FfgMont Proofs.FfgArith Proofs.OctetsProofs.
Import ListNotations.
Local Open Scope Z_scope.

Set Default Timeout 600.
Local Opaque mulGeneric square fromMontGeneric doubleGeneric FfgRoutines.Element_Square
  FfgRoutines.Element_Mul FfgRoutines.Element_FromMont FfgRoutines.Element_Double
  FfgRoutines.mulGeneric FfgRoutines.fromMontGeneric.

Ltac to_hand :=
  repeat match goal with
  | |- context [FfgRoutines.Element_Mul ?a ?b] => rewrite (gen_Mul_eq a b)
  | |- context [FfgRoutines.Element_Square ?a] => rewrite (gen_square_eq a)
  | |- context [FfgRoutines.Element_Set ?a] => rewrite (gen_set_eq a)
  | |- context [FfgRoutines.Element_IsZero ?a] => rewrite (gen_isZero_eq a)
  | |- context [FfgRoutines.Element_FromMont ?a] => rewrite (gen_FromMont_eq a)
  | |- context [FfgRoutines.Element_ToMont ?a] => rewrite (gen_toMont_eq a)
  | |- context [FfgRoutines.Element_Double ?a] => rewrite (gen_Double_eq a)
  | |- context [FfgRoutines.Element_SetZero] => rewrite gen_setZero_eq
  | |- context [FfgRoutines.Element_SetOne] => rewrite gen_setOne_eq
  end.

(* ------------------------------------------------------------------ *)
(** * One, Exp, Legendre *)

Lemma gen_One_eq : FfgGlue.One = one.
Proof. unfold FfgGlue.One. cbv zeta. apply gen_setOne_eq. Qed.

Lemma gen_Exp_loop_eq : forall n x e z,
  FfgGlue.Element_Exp_loop1 n x e z = exp_loop x e n z.
Proof.
  induction n as [ | n IH]; intros x e z; cbn [FfgGlue.Element_Exp_loop1 exp_loop]; [ reflexivity | ].
  to_hand. change (big_bit e (Z.of_nat n)) with (bigBit e (Z.of_nat n)).
  destruct (Z.eqb (bigBit e (Z.of_nat n)) 1); apply IH.
Qed.

(* the hand model is for exponents >= 0 (bigBitLen is the bit length of e, not of |e|) *)
Theorem gen_Exp_eq : forall x e, 0 <= e -> FfgGlue.Element_Exp x e = exp x e.
Proof.
  intros x e He. unfold FfgGlue.Element_Exp, exp. cbv zeta.
  rewrite big_cmp_eq0.
  destruct (Z.eqb_spec e 0) as [E0 | E0].
  - apply gen_setOne_eq.
  - to_hand. rewrite gen_Exp_loop_eq. f_equal.
    rewrite big_bitlen_nonneg by exact He. unfold bigBitLen. f_equal. lia.
Qed.

Lemma legendreExp_nonneg : 0 <= FfgConsts.legendreExp.
Proof. exact FfgSqrt.legendreExp_nonneg. Qed.
Lemma sqrtExp_nonneg : 0 <= FfgConsts.sqrtExp.
Proof. exact FfgSqrt.sqrtExp_nonneg. Qed.

Theorem gen_Legendre_eq : forall z, FfgGlue.Element_Legendre z = legendre z.
Proof.
  intros z. unfold FfgGlue.Element_Legendre, legendre, isZero. cbv zeta.
  rewrite gen_Exp_eq by exact legendreExp_nonneg. to_hand. reflexivity.
Qed.

(* ------------------------------------------------------------------ *)
(** * Sqrt *)

Local Notation isOneM := FfgSqrt.isOneM.

Lemma gen_Sqrt_loop1_eq : forall n i t,
  FfgGlue.Element_Sqrt_loop1 n i t = s_loop1 Z square n i t.
Proof.
  induction n as [ | n IH]; intros i t; cbn [FfgGlue.Element_Sqrt_loop1 s_loop1]; [ reflexivity | ].
  to_hand. apply IH.
Qed.

Lemma gen_Sqrt_loop3_eq : forall f t m,
  FfgGlue.Element_Sqrt_loop3 f t m = s_loop3 Z square isOneM f t m.
Proof.
  induction f as [ | f IH]; intros t m; cbn [FfgGlue.Element_Sqrt_loop3 s_loop3]; [ reflexivity | ].
  to_hand. change (Z.eqb t 4294967295) with (isOneM t).
  destruct (negb (isOneM t)); [ apply IH | reflexivity ].
Qed.

Lemma gen_Sqrt_loop4_eq : forall f t ge,
  FfgGlue.Element_Sqrt_loop4 f t ge = s_loop4 Z square f t ge.
Proof.
  induction f as [ | f IH]; intros t ge; cbn [FfgGlue.Element_Sqrt_loop4 s_loop4]; [ reflexivity | ].
  to_hand. destruct (Z.gtb ge 0); [ apply IH | reflexivity ].
Qed.

Lemma gen_Sqrt_loop2_eq : forall f2 f3 f4 y b g r,
  FfgGlue.Element_Sqrt_loop2 f2 f3 f4 y b g r = s_loop2 Z mulGeneric square isOneM f2 f3 f4 y b g r.
Proof.
  induction f2 as [ | f2 IH]; intros f3 f4 y b g r;
    cbn [FfgGlue.Element_Sqrt_loop2 s_loop2]; [ reflexivity | ].
  rewrite gen_Sqrt_loop3_eq.
  destruct (s_loop3 Z square isOneM f3 b 0) as [[t m] | ]; [ | reflexivity ].
  destruct (Z.eqb m 0); [ to_hand; reflexivity | ].
  rewrite gen_Sqrt_loop4_eq.
  destruct (s_loop4 Z square f4 g _) as [[t' ge] | ]; [ | reflexivity ].
  to_hand. apply IH.
Qed.

Definition sqrt_val (o : sqrt_out) : option Z :=
  match o with SqSome z => Some z | _ => None end.

Lemma sqrt_r_val : FfgConsts.sqrt_r = 32.
Proof. reflexivity. Qed.

Theorem gen_Sqrt_eq : forall f2 f3 f4 x,
  (Z.to_nat FfgConsts.sqrt_r + 1 <= f2)%nat -> (Z.to_nat FfgConsts.sqrt_r + 1 <= f3)%nat ->
  (Z.to_nat FfgConsts.sqrt_r <= f4)%nat ->
  sqrt x <> SqOutOfFuel ->
  FfgGlue.Element_Sqrt f2 f3 f4 x = Done (sqrt_val (sqrt x)).
Proof.
  intros f2 f3 f4 x H2 H3 H4 Hfuel.
  rewrite FfgSqrt.sqrt_eq in Hfuel |- *.
  unfold FfgGlue.Element_Sqrt, gsqrt in *. cbv zeta in *.
  rewrite gen_Exp_eq by exact sqrtExp_nonneg. to_hand. rewrite gen_Sqrt_loop1_eq, s_loop1_eq. to_hand.
  set (w := exp x FfgConsts.sqrtExp) in *.
  set (y := mulGeneric x w) in *. set (b := mulGeneric w y) in *.
  change (Z.to_nat (wsub 32 1 - 0)) with (Z.to_nat (FfgConsts.sqrt_r - 1)).
  set (t := gsqn Z square (Z.to_nat (FfgConsts.sqrt_r - 1)) b) in *.
  change (Z.eqb t 0) with (isZero t).
  destruct (isZero t); [ reflexivity | ].
  change (Z.eqb t 4294967295) with (FfgSqrt.isOneS t).
  destruct (negb (FfgSqrt.isOneS t)); [ reflexivity | ].
  rewrite gen_Sqrt_loop2_eq.
  change 15733474329512464024 with FfgSqrt.gE. change 32 with FfgConsts.sqrt_r.
  destruct (gts_loop Z mulGeneric square isOneM (Z.to_nat FfgConsts.sqrt_r + 1) y b FfgSqrt.gE FfgConsts.sqrt_r)
    as [z | ] eqn:TS; [ | exfalso; apply Hfuel; reflexivity ].
  cbn [FfgSqrt.of_g sqrt_val].
  apply (s_loop2_of_ts_loop Z mulGeneric square isOneM _ f2 f3 f4 _ _ _ _ z TS).
  - rewrite sqrt_r_val. split; [ lia | reflexivity ].
  - exact H2.
  - exact H3.
  - exact H4.
Qed.

Corollary gen_Sqrt_canon_eq : forall x, canon x ->
  FfgGlue.Element_Sqrt 33 33 32 x = Done (sqrt_val (sqrt x)).
Proof.
  intros x Hx. apply gen_Sqrt_eq; try (rewrite sqrt_r_val; cbn; lia).
  apply FfgSqrt.sqrt_total. exact Hx.
Qed.

(* ------------------------------------------------------------------ *)
(** * big.Int conversions, Inverse (math/big), Div, Halve *)

Lemma modulus_val : FfgConsts.modulus = pg.
Proof. reflexivity. Qed.

Lemma pg_bounds : 0 < pg < W.
Proof. split; reflexivity. Qed.

(* the word-copy loop of setBigInt: v has at most one word *)
Lemma setBigInt_loop_eq : forall v, 0 <= v < W ->
  FfgGlue.Element_setBigInt_loop1 (Z.to_nat (llen (big_bits v) - 0)) 0 (big_bits v) 0 = v.
Proof.
  intros v Hv. unfold llen. rewrite Z.sub_0_r, Nat2Z.id.
  rewrite big_bits_nonneg by lia. rewrite map_length, seq_length.
  assert (K1 : (big_nwords v <= 1)%nat).
  { apply big_nwords_bound. change (Z.of_nat 1) with 1. rewrite Z.pow_1_r. exact Hv. }
  destruct (big_nwords v) as [ | [ | k]] eqn:K; [ | | lia ].
  - (* no word: v = 0 *)
    pose proof (big_nwords_lt v ltac:(lia)) as L. rewrite K in L.
    change (W ^ Z.of_nat 0) with 1 in L. cbn [seq map FfgGlue.Element_setBigInt_loop1]. lia.
  - cbn [seq map]. change (Z.of_nat 0) with 0. rewrite Z.pow_0_r, Z.div_1_r.
    rewrite (Z.mod_small v W Hv). reflexivity.
Qed.

Lemma gen_setBigInt_eq : forall v, 0 <= v < W ->
  FfgGlue.Element_setBigInt 0 v = setBigInt_inner v.
Proof.
  intros v Hv. unfold FfgGlue.Element_setBigInt, setBigInt_inner. cbv zeta.
  rewrite (setBigInt_loop_eq v Hv). to_hand. reflexivity.
Qed.

Theorem gen_SetBigInt_eq : forall v, FfgGlue.Element_SetBigInt v = setBigInt v.
Proof.
  intros v. unfold FfgGlue.Element_SetBigInt, setBigInt. cbv zeta. to_hand.
  rewrite modulus_val, FfgArith.modulus_eq. pose proof pg_bounds as Mp.
  rewrite big_cmp_eqb, big_cmp_is1, big_cmp_ism1.
  unfold Z.gtb. destruct (Z.compare_spec v pg) as [E | L | G].
  - subst v. rewrite Z.eqb_refl. reflexivity.
  - destruct (Z.eqb_spec v pg) as [E | _]; [ lia | ]. cbn [negb andb].
    destruct (Z.ltb_spec v 0) as [N | N]; cbn [negb].
    + unfold big_mod. rewrite Z.abs_eq by lia. apply gen_setBigInt_eq.
      pose proof (Z.mod_pos_bound v pg ltac:(lia)). lia.
    + apply gen_setBigInt_eq. lia.
  - destruct (Z.eqb_spec v pg) as [E | _]; [ lia | ]. cbn [negb andb].
    unfold big_mod. rewrite Z.abs_eq by lia. apply gen_setBigInt_eq.
    pose proof (Z.mod_pos_bound v pg ltac:(lia)). lia.
Qed.

Theorem gen_SetBytes_eq : forall e, FfgGlue.Element_SetBytes e = setBytes e.
Proof. intros e. unfold FfgGlue.Element_SetBytes, setBytes. cbv zeta. apply gen_SetBigInt_eq. Qed.

Lemma put_be64_1 : forall z, put_be64 (lmake 0 8) 0 z = be_bytes 8 z.
Proof. intros z. reflexivity. Qed.

(* ToBigInt writes the limb big-endian and reads it back *)
Theorem gen_ToBigInt_eq : forall z, u64 z -> FfgGlue.Element_ToBigInt z = z.
Proof.
  intros z Hz. unfold FfgGlue.Element_ToBigInt. cbv zeta.
  rewrite put_be64_1, OctetsProofs.be_val_be_bytes.
  change (256 ^ Z.of_nat 8) with W. apply Z.mod_small. exact Hz.
Qed.

Theorem gen_ToRegular_eq : forall z, FfgGlue.Element_ToRegular z = fromMontGeneric z.
Proof. intros z. unfold FfgGlue.Element_ToRegular. cbv zeta. to_hand. reflexivity. Qed.

Lemma fromMont_u64 : forall z, u64 z -> u64 (fromMontGeneric z).
Proof.
  intros z Hz. destruct (FfgMont.fromMont_correct_u64 z Hz) as [Hc _].
  unfold canon in Hc. unfold u64. pose proof pg_bounds. lia.
Qed.

Theorem gen_ToBigIntRegular_eq : forall z, u64 z ->
  FfgGlue.Element_ToBigIntRegular z = toBigIntRegular z.
Proof.
  intros z Hz. unfold FfgGlue.Element_ToBigIntRegular, toBigIntRegular. cbv zeta. to_hand.
  apply gen_ToBigInt_eq. apply fromMont_u64. exact Hz.
Qed.

Theorem gen_ToUint64Regular_eq : forall z, FfgGlue.Element_ToUint64Regular z = toUint64Regular z.
Proof. intros z. unfold FfgGlue.Element_ToUint64Regular, toUint64Regular. cbv zeta. to_hand. reflexivity. Qed.

Lemma gen_Modulus_eq : FfgGlue.Modulus = pg.
Proof. reflexivity. Qed.

(* Inverse goes through math/big: ModInverse for the prime modulus *)
Theorem gen_Inverse_eq : forall x, u64 x -> FfgGlue.Element_Inverse x = inverse x.
Proof.
  intros x Hx. unfold FfgGlue.Element_Inverse, inverse. cbv zeta.
  rewrite (gen_ToBigIntRegular_eq x Hx), gen_SetBigInt_eq, gen_Modulus_eq.
  unfold big_modinverse_prime, modinv. reflexivity.
Qed.

Theorem gen_Div_eq : forall x y, u64 y -> FfgGlue.Element_Div x y = div x y.
Proof.
  intros x y Hy. unfold FfgGlue.Element_Div, div. cbv zeta.
  rewrite (gen_Inverse_eq y Hy). to_hand. reflexivity.
Qed.

Lemma double_one_u64 : u64 (doubleGeneric one).
Proof. unfold u64. split; vm_compute; [ discriminate | reflexivity ]. Qed.

Theorem gen_Halve_eq : forall z, FfgGlue.Element_Halve z = halve z.
Proof.
  intros z. unfold FfgGlue.Element_Halve, halve. cbv zeta. to_hand.
  rewrite (gen_Inverse_eq _ double_one_u64). reflexivity.
Qed.

(* ------------------------------------------------------------------ *)
(** * BatchInvert *)

Local Notation isZ := (fun ai : Z => Z.eqb ai 0).

Lemma batch_fwd_shape : forall a acc, batch_fwd a acc = h_fwd Z 0 isZ mulGeneric a acc.
Proof.
  induction a as [ | ai a IH]; intros acc; cbn [batch_fwd h_fwd]; [ reflexivity | ].
  destruct (Z.eqb ai 0); rewrite IH; reflexivity.
Qed.

Lemma batch_bwd_shape : forall a res zs acc,
  batch_bwd a res zs acc = h_bwd Z mulGeneric a res zs acc.
Proof.
  induction a as [ | ai a IH]; intros res zs acc; cbn [batch_bwd h_bwd]; [ reflexivity | ].
  destruct res as [ | ri res]; [ reflexivity | ]. destruct zs as [ | zi zs]; [ reflexivity | ].
  rewrite IH. reflexivity.
Qed.

Lemma gen_BatchInvert_loop1_eq : forall n i a res zeroes acc,
  FfgGlue.BatchInvert_loop1 n i a res zeroes acc = g_fwd Z 0 isZ mulGeneric n i a res zeroes acc.
Proof.
  induction n as [ | n IH]; intros i a res zeroes acc; cbn [FfgGlue.BatchInvert_loop1 g_fwd]; [ reflexivity | ].
  to_hand. change FfgGlue.el_zero with 0. change FfgRoutines.el with Z in *.
  destruct (Z.eqb (lnth 0 a i) 0); apply IH.
Qed.

Lemma gen_BatchInvert_loop2_eq : forall n a zeroes res acc,
  FfgGlue.BatchInvert_loop2 n a zeroes res acc = g_bwd Z 0 mulGeneric n a zeroes res acc.
Proof.
  induction n as [ | n IH]; intros a zeroes res acc; cbn [FfgGlue.BatchInvert_loop2 g_bwd]; [ reflexivity | ].
  to_hand. change FfgGlue.el_zero with 0. change FfgRoutines.el with Z in *.
  destruct (lnth false zeroes (Z.of_nat n)); apply IH.
Qed.

Lemma llen_iters_up : forall (A : Type) (l : list A), Z.to_nat (llen l - 0) = length l.
Proof. intros A l. unfold llen. lia. Qed.
Lemma llen_iters_down : forall (A : Type) (l : list A), Z.to_nat (llen l - 1 + 1) = length l.
Proof. intros A l. unfold llen. lia. Qed.

(* every product is a 64-bit word, so the accumulator handed to Inverse is one *)
Local Transparent mulGeneric.
Lemma mul_u64 : forall x y, u64 (mulGeneric x y).
Proof.
  intros x y. unfold mulGeneric. cbv zeta.
  assert (M : forall a, u64 (a mod W)).
  { intros a. unfold u64. apply Z.mod_pos_bound. reflexivity. }
  repeat match goal with
  | |- context [let '(_, _) := ?e in _] => destruct e eqn:?
  end.
  repeat match goal with
  | H : add64 _ _ _ = (_, _) |- _ => unfold add64 in H; injection H as <- <-
  | H : sub64 _ _ _ = (_, _) |- _ => unfold sub64 in H; injection H as <- <-
  | H : mul64 _ _ = (_, _) |- _ => unfold mul64 in H; injection H as <- <-
  end.
  destruct (negb _); [ apply M | ]. destruct (negb _); apply M.
Qed.
Local Opaque mulGeneric.

Lemma one_u64 : u64 one.
Proof. unfold u64. split; vm_compute; [ discriminate | reflexivity ]. Qed.

Lemma h_fwd_u64 : forall a acc res zs acc', u64 acc ->
  h_fwd Z 0 isZ mulGeneric a acc = (res, zs, acc') -> u64 acc'.
Proof.
  induction a as [ | ai a IH]; intros acc res zs acc' Hacc H; cbn [h_fwd] in H.
  - injection H as _ _ <-. exact Hacc.
  - destruct (Z.eqb ai 0).
    + destruct (h_fwd Z 0 isZ mulGeneric a acc) as [[r z] c] eqn:R. injection H as _ _ <-.
      apply (IH _ _ _ _ Hacc R).
    + destruct (h_fwd Z 0 isZ mulGeneric a (mulGeneric acc ai)) as [[r z] c] eqn:R. injection H as _ _ <-.
      apply (IH _ _ _ _ (mul_u64 acc ai) R).
Qed.

Theorem gen_BatchInvert_eq : forall a, FfgGlue.BatchInvert a = batchInvert a.
Proof.
  intros a. unfold FfgGlue.BatchInvert, batchInvert. cbv zeta. change FfgRoutines.el with Z in *.
  rewrite llen_0. destruct a as [ | a0 a']; [ reflexivity | ].
  set (a := a0 :: a').
  rewrite !lmake_llen, llen_iters_up, llen_iters_down, gen_One_eq.
  rewrite gen_BatchInvert_loop1_eq. change FfgGlue.el_zero with 0.
  rewrite (batch_fwd_shape a one).
  rewrite (g_fwd_whole Z 0 isZ mulGeneric a one).
  destruct (h_fwd Z 0 isZ mulGeneric a one) as [[res zs] acc] eqn:F.
  destruct (h_fwd_length _ _ _ _ _ _ _ _ _ F) as [Lr Lz].
  rewrite (gen_Inverse_eq acc (h_fwd_u64 _ _ _ _ _ one_u64 F)).
  rewrite (batch_bwd_shape a res zs (inverse acc)).
  rewrite gen_BatchInvert_loop2_eq, (g_bwd_whole Z 0 mulGeneric a res zs (inverse acc) Lr Lz).
  destruct (h_bwd Z mulGeneric a res zs (inverse acc)) as [out acc2]. reflexivity.
Qed.

(* ------------------------------------------------------------------ *)
(** * Bytes, predicates and comparisons *)

Theorem gen_Bytes_eq : forall z, FfgGlue.Element_Bytes z = bytesOf z.
Proof.
  intros z. unfold FfgGlue.Element_Bytes, bytesOf. cbv zeta. rewrite gen_ToRegular_eq.
  apply put_be64_1.
Qed.

Theorem gen_Marshal_eq : forall z, FfgGlue.Element_Marshal z = bytesOf z.
Proof. intros z. unfold FfgGlue.Element_Marshal. cbv zeta. apply gen_Bytes_eq. Qed.

Theorem gen_Cmp_eq : forall z x, FfgGlue.Element_Cmp z x = cmp z x.
Proof. intros z x. unfold FfgGlue.Element_Cmp, cmp. cbv zeta. to_hand. reflexivity. Qed.

Theorem gen_LexicographicallyLargest_eq : forall z,
  FfgGlue.Element_LexicographicallyLargest z = lexLargest z.
Proof.
  intros z. unfold FfgGlue.Element_LexicographicallyLargest, lexLargest. cbv zeta. to_hand. reflexivity.
Qed.

Theorem gen_IsUint64_eq : FfgGlue.Element_IsUint64 = true.
Proof. reflexivity. Qed.

Theorem gen_BitLen_eq : forall z, FfgGlue.Element_BitLen z = len64 z.
Proof. reflexivity. Qed.

Print Assumptions gen_Exp_eq.
Print Assumptions gen_Legendre_eq.
Print Assumptions gen_Sqrt_eq.
Print Assumptions gen_Sqrt_canon_eq.
Print Assumptions gen_SetBigInt_eq.
Print Assumptions gen_Inverse_eq.
Print Assumptions gen_Div_eq.
Print Assumptions gen_Halve_eq.
Print Assumptions gen_BatchInvert_eq.
Print Assumptions gen_Bytes_eq.
Print Assumptions gen_Cmp_eq.
Print Assumptions gen_LexicographicallyLargest_eq.

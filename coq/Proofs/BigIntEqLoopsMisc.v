(* Equality lemmas between the Gallina regenerated from the Go sources by
   tools/bigintgen in LOOPS mode (Gen/BigIntLoops.v) and the hand-written
   models: keccak256.Hash (the loop over the data slices, Write/Sum being
   Model/KeccakStream.v's kwrite/ksum) and the functions of package utils with
   loops: SwapEndianness, CheckBigIntArrayInField, BigIntArrayToElementArray,
   ElementArrayToBigIntArray, and their loop-free callers. *)
From Coq Require Import ZArith List Bool Lia.
From Verif Require Import Lib.Params Lib.Octets Model.Outcome Model.Utils Model.BabyJub.
From Verif Require Gen.CurveConsts Model.KeccakStream.
From Verif Require Import Gen.BigIntLoops Proofs.BigIntEqLoopsLib.
Import ListNotations.
Local Open Scope Z_scope.
Local Opaque Z.mul Z.add Z.sub Z.modulo Z.ltb Gen.CurveConsts.Q.

(* ---- keccak256 -------------------------------------------------------------- *)

(* by conversion for the source as it is (a range loop, Sum(nil)); the second branch also
   accepts the same function written with an index loop and/or Sum(b) with b the nil slice *)
Lemma gen_keccak256_Hash_eq : forall data,
  keccak256_Hash data = KeccakStream.Hash data.
Proof.
  intros data.
  first [ reflexivity
        | unfold keccak256_Hash, KeccakStream.Hash; cbv zeta; cbn [app];
          first [ reflexivity
                | rewrite (fold_left_seq_nth _ _ KeccakStream.kwrite []); reflexivity ] ].
Qed.

(* ---- utils ------------------------------------------------------------------ *)

Lemma gen_utils_SwapEndianness_eq : forall xs,
  utils_SwapEndianness xs = Utils.SwapEndianness xs.
Proof.
  intros xs. unfold utils_SwapEndianness, Utils.SwapEndianness. cbv zeta.
  set (n := length xs).
  pose (P := fun (i : nat) (ys : bytes) => ys = repeat 0 (n - i) ++ rev (firstn i xs)).
  assert (H : P (0 + n)%nat (fold_left (fun (ys : bytes) (i : nat) =>
              set_nth (n - 1 - i) (nth i xs 0) ys) (seq 0 n) (repeat 0 n))).
  { apply fold_left_seq_inv.
    - unfold P. rewrite Nat.sub_0_r. cbn. rewrite app_nil_r. reflexivity.
    - intros i ys Hi HP. unfold P in *. subst ys.
      replace (n - i)%nat with (S (n - 1 - i)) by lia.
      replace (repeat 0 (S (n - 1 - i))) with (repeat 0 (n - 1 - i) ++ [0])
        by (rewrite <- repeat_cons; reflexivity).
      rewrite <- app_assoc. cbn [app].
      rewrite <- (repeat_length 0 (n - 1 - i)) at 1.
      rewrite set_nth_app_mid.
      rewrite firstn_S_nth by (fold n; lia). rewrite rev_app_distr. cbn [rev app].
      replace (n - S i)%nat with (n - 1 - i)%nat by lia. reflexivity. }
  unfold P in H. cbn [Nat.add] in H. rewrite H, Nat.sub_diag. cbn [repeat app].
  subst n. rewrite firstn_all. reflexivity.
Qed.

Lemma gen_utils_CheckBigIntInField_eq : forall a,
  utils_CheckBigIntInField a = Utils.CheckBigIntInField Gen.CurveConsts.Q a.
Proof. reflexivity. Qed.

Lemma gen_utils_CheckBigIntArrayInField_eq : forall arr,
  utils_CheckBigIntArrayInField arr = Utils.CheckBigIntArrayInField Gen.CurveConsts.Q arr.
Proof.
  intros arr. unfold utils_CheckBigIntArrayInField, Utils.CheckBigIntArrayInField. cbv zeta.
  match goal with |- context [fold_left ?f _ _] => set (F := f) end.
  assert (Hs : forall l r, fold_left F l (Some r) = Some r).
  { intros l. induction l as [|x l IH]; intros r; [reflexivity|]. cbn [fold_left]. apply IH. }
  assert (Hn : forall l, fold_left F l None =
            if forallb (Utils.CheckBigIntInField Gen.CurveConsts.Q) l then None else Some false).
  { intros l. induction l as [|x l IH]; [reflexivity|].
    cbn [fold_left forallb]. unfold F at 2. cbv beta iota.
    rewrite gen_utils_CheckBigIntInField_eq.
    destruct (Utils.CheckBigIntInField Gen.CurveConsts.Q x); cbn [negb andb].
    - apply IH.
    - apply Hs. }
  rewrite Hn. destruct (forallb _ arr); reflexivity.
Qed.

Lemma gen_utils_BigIntArrayToElementArray_eq : forall bi,
  utils_BigIntArrayToElementArray bi = map (fun b => b mod Gen.CurveConsts.Q) bi.
Proof.
  intros bi. unfold utils_BigIntArrayToElementArray. cbv zeta.
  rewrite (fold_set_nth_build (fun i => nth i bi 0 mod Gen.CurveConsts.Q))
    by (rewrite repeat_length; lia).
  rewrite skipn_all2 by (rewrite repeat_length; lia). rewrite app_nil_r.
  apply (map_nth_seq_fun (fun b => b mod Gen.CurveConsts.Q)).
Qed.

Lemma gen_utils_ElementArrayToBigIntArray_eq : forall e,
  utils_ElementArrayToBigIntArray e = e.
Proof.
  intros e. unfold utils_ElementArrayToBigIntArray. cbv zeta.
  rewrite (fold_set_nth_build (fun i => nth i e 0)) by (rewrite repeat_length; lia).
  rewrite skipn_all2 by (rewrite repeat_length; lia). rewrite app_nil_r.
  rewrite map_nth_seq, firstn_all by lia. reflexivity.
Qed.

Lemma gen_utils_BigIntLEBytes_eq : forall v,
  utils_BigIntLEBytes v = Utils.BigIntLEBytes v.
Proof.
  intros. unfold utils_BigIntLEBytes, Utils.BigIntLEBytes. rewrite gen_utils_SwapEndianness_eq. reflexivity.
Qed.

Lemma gen_utils_SetBigIntFromLEBytes_eq : forall leBuf,
  utils_SetBigIntFromLEBytes leBuf = Utils.SetBigIntFromLEBytes leBuf.
Proof.
  intros. unfold utils_SetBigIntFromLEBytes, Utils.SetBigIntFromLEBytes.
  rewrite gen_utils_SwapEndianness_eq. reflexivity.
Qed.

Print Assumptions gen_keccak256_Hash_eq.
Print Assumptions gen_utils_SwapEndianness_eq.
Print Assumptions gen_utils_CheckBigIntArrayInField_eq.
Print Assumptions gen_utils_BigIntArrayToElementArray_eq.
Print Assumptions gen_utils_ElementArrayToBigIntArray_eq.
Print Assumptions gen_utils_BigIntLEBytes_eq.
Print Assumptions gen_utils_SetBigIntFromLEBytes_eq.

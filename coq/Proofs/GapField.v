(* Zero-divisor facts for the two fields (ff: BN254 scalar field, 4 Montgomery
   limbs; ffg: Goldilocks, one word), and a justification of the model of
   big.Int.ModInverse used by ffg.Inverse and babyjub: ModInverse is modelled
   here by the EXTENDED EUCLIDEAN ALGORITHM on Z ("the inverse if gcd = 1,
   otherwise the receiver is left unchanged"), and shown to agree with the
   Fermat inversion [x^(p-2) mod p] that the models execute. *)
From Coq Require Import ZArith List Lia Znumtheory Bool.
From Verif Require Import Lib.Params Lib.Powmod Lib.NumberTheory Lib.Primes.
From Verif Require Model.FfLimbs Model.FfgLimbs Model.BabyJub Spec.Edwards.
From Verif Require Proofs.FfWords Proofs.FfEl Proofs.FfOps Proofs.FfInverse
  Proofs.FfgArith Proofs.FfgOps Proofs.CompressProofs.
Import ListNotations.
Local Open Scope Z_scope.

Local Opaque q.

(* ------------------------------------------------------------------ *)
(** * 0 has "inverse" 0 in both models *)

Theorem inv_mod_0_q : inv_mod 0 q = 0.
Proof.
  apply inv_mod_zero; [exact q_prime|exact q_gt_2|].
  apply Z.mod_0_l. pose proof q_gt_2. lia.
Qed.

Theorem inv_mod_0_pg : inv_mod 0 pg = 0.
Proof. apply inv_mod_zero; [exact pg_prime|exact pg_gt_2|reflexivity]. Qed.

(* ---- ff ---------------------------------------------------------- *)

(* division by zero returns zero (no error, no panic) *)
Theorem ff_div_by_zero : forall x y, FfLimbs.canon x -> FfLimbs.canon y ->
  FfLimbs.mval y = 0 ->
  exists z, FfLimbs.div x y = Some z /\ FfLimbs.mval z = 0.
Proof.
  intros x y Hx Hy H0.
  destruct (FfInverse.div_correct x y Hx Hy) as (z & E & _ & M).
  exists z. split; [exact E|]. rewrite M, H0, inv_mod_0_q, Z.mul_0_r.
  apply Z.mod_0_l. pose proof q_gt_2. lia.
Qed.

Theorem ff_inverse_of_zero : forall x, FfLimbs.canon x -> FfLimbs.mval x = 0 ->
  exists z, FfLimbs.inverse x = Some z /\ FfLimbs.mval z = 0.
Proof.
  intros x Hx H0. destruct (FfInverse.inverse_correct x Hx) as (z & E & _ & M).
  exists z. split; [exact E|]. rewrite M, H0. exact inv_mod_0_q.
Qed.

(* x^0 = 1, also for x = 0 *)
Theorem ff_exp_zero : forall x, FfLimbs.exp x 0 = FfLimbs.one /\
  FfLimbs.mval (FfLimbs.exp x 0) = 1.
Proof. intros x. split; [reflexivity|exact FfWords.mval_one]. Qed.

(* ---- ffg --------------------------------------------------------- *)

Theorem ffg_div_by_zero : forall x y, FfgLimbs.canon x -> FfgLimbs.canon y ->
  FfgLimbs.mval y = 0 ->
  FfgLimbs.canon (FfgLimbs.div x y) /\ FfgLimbs.mval (FfgLimbs.div x y) = 0.
Proof.
  intros x y Hx Hy H0. destruct (FfgOps.div_correct x y Hx Hy) as [C M].
  split; [exact C|]. rewrite M, H0, inv_mod_0_pg, Z.mul_0_r. reflexivity.
Qed.

(* the same in the shape of the ff statement *)
Corollary ffg_div_by_zero_ex : forall x y, FfgLimbs.canon x -> FfgLimbs.canon y ->
  FfgLimbs.mval y = 0 -> exists z, FfgLimbs.div x y = z /\ FfgLimbs.mval z = 0.
Proof.
  intros x y Hx Hy H0. exists (FfgLimbs.div x y). split; [reflexivity|].
  exact (proj2 (ffg_div_by_zero x y Hx Hy H0)).
Qed.

Theorem ffg_inverse_of_zero : forall x, FfgLimbs.canon x -> FfgLimbs.mval x = 0 ->
  FfgLimbs.mval (FfgLimbs.inverse x) = 0.
Proof.
  intros x Hx H0. destruct (FfgOps.inverse_correct x Hx) as [_ M].
  rewrite M, H0. exact inv_mod_0_pg.
Qed.

Theorem ffg_exp_zero : forall x, FfgLimbs.exp x 0 = FfgLimbs.one /\
  FfgLimbs.mval (FfgLimbs.exp x 0) = 1.
Proof. intros x. split; [reflexivity|exact FfgArith.mval_one]. Qed.

(* ------------------------------------------------------------------ *)
(** * Extended Euclid on Z *)

(* egcd f a b = (d, x, y) with a x + b y = d = gcd(a, b), for 0 <= b < a and
   enough fuel *)
Fixpoint egcd (fuel : nat) (a b : Z) : Z * Z * Z :=
  match fuel with
  | O => (a, 1, 0)
  | S f =>
      if b =? 0 then (a, 1, 0)
      else let '(d, x, y) := egcd f b (a mod b) in (d, y, x - (a / b) * y)
  end.

Lemma egcd_S f a b : egcd (S f) a b =
  if b =? 0 then (a, 1, 0)
  else let '(d, x, y) := egcd f b (a mod b) in (d, y, x - (a / b) * y).
Proof. reflexivity. Qed.

(* the product of the arguments at least halves at every step *)
Lemma euclid_step_halves a b : 0 < b < a -> 2 * (b * (a mod b)) < a * b.
Proof.
  intros H. pose proof (Z.mod_pos_bound a b ltac:(lia)) as Hr.
  pose proof (Z.div_mod a b ltac:(lia)) as Hd.
  assert (Hk : 1 <= a / b) by (apply Z.div_le_lower_bound; lia).
  set (r := a mod b) in *. set (k := a / b) in *.
  assert (H1 : b * 1 <= b * k) by (apply Z.mul_le_mono_nonneg_l; lia).
  assert (H2 : (b + r) * b <= a * b) by (apply Z.mul_le_mono_nonneg_r; lia).
  assert (H3 : (r + 1) * b <= b * b) by (apply Z.mul_le_mono_nonneg_r; lia).
  lia.
Qed.

Lemma egcd_spec : forall f a b, 0 <= b < a -> a * b < 2 ^ Z.of_nat f ->
  exists d x y, egcd (S f) a b = (d, x, y) /\ d = Z.gcd a b /\ a * x + b * y = d.
Proof.
  induction f as [|f IH]; intros a b Hab Hf.
  - (* a b < 1: b = 0 *)
    assert (b = 0).
    { destruct (Z.eq_dec b 0) as [E|E]; [exact E|exfalso].
      assert (0 < a * b) by (apply Z.mul_pos_pos; lia).
      change (2 ^ Z.of_nat 0) with 1 in Hf. lia. }
    subst b. rewrite egcd_S. change (0 =? 0) with true. cbv iota.
    exists a, 1, 0. split; [reflexivity|]. split; [|ring].
    rewrite Z.gcd_0_r. symmetry. apply Z.abs_eq. lia.
  - rewrite egcd_S. destruct (Z.eqb_spec b 0) as [E|E].
    + subst b. exists a, 1, 0. split; [reflexivity|]. split; [|ring].
      rewrite Z.gcd_0_r. symmetry. apply Z.abs_eq. lia.
    + assert (Hb : 0 < b < a) by lia.
      pose proof (Z.mod_pos_bound a b ltac:(lia)) as Hr.
      pose proof (euclid_step_halves a b Hb) as Hh.
      rewrite Nat2Z.inj_succ, Z.pow_succ_r in Hf by lia.
      destruct (IH b (a mod b) ltac:(lia) ltac:(lia)) as (d & x & y & E1 & Hd & Hbz).
      rewrite E1. exists d, y, (x - a / b * y). split; [reflexivity|]. split.
      * rewrite Hd. rewrite (Z.gcd_comm b (a mod b)), (Z.gcd_comm a b). apply Z.gcd_mod. exact E.
      * rewrite <- Hbz. rewrite (Z.mod_eq a b E). ring.
Qed.

(* fuel: the bit length of the product, plus one *)
Definition egcd_fuel (a b : Z) : nat := S (Z.to_nat (Z.log2 (a * b) + 1)).

Lemma egcd_fuel_enough a b : 0 <= b < a ->
  a * b < 2 ^ Z.of_nat (Z.to_nat (Z.log2 (a * b) + 1)).
Proof.
  intros Hab. pose proof (Z.log2_nonneg (a * b)) as Hl.
  rewrite Z2Nat.id by lia.
  destruct (Z.eq_dec (a * b) 0) as [E|E].
  - rewrite E. reflexivity.
  - assert (0 <= a * b) by (apply Z.mul_nonneg_nonneg; lia).
    replace (Z.log2 (a * b) + 1) with (Z.succ (Z.log2 (a * b))) by lia.
    apply Z.log2_spec. lia.
Qed.

(* big.Int.ModInverse(g, n) for 0 <= g < n: GCD(&x, nil, g, n); nil unless the
   gcd is 1; otherwise x brought into [0, n) *)
Definition egcd_inv (g n : Z) : option Z :=
  let '(d, _, y) := egcd (egcd_fuel n g) n g in
  if d =? 1 then Some (y mod n) else None.

Theorem egcd_inv_spec g n : 0 <= g < n ->
  (Z.gcd n g = 1 ->
   exists i, egcd_inv g n = Some i /\ 0 <= i < n /\ (g * i) mod n = 1 mod n) /\
  (Z.gcd n g <> 1 -> egcd_inv g n = None).
Proof.
  intros Hg. unfold egcd_inv, egcd_fuel.
  destruct (egcd_spec _ n g Hg (egcd_fuel_enough n g Hg)) as (d & x & y & E & Hd & Hbz).
  rewrite E. split; intros Hgcd.
  - rewrite Hd, Hgcd. change (1 =? 1) with true. cbv iota.
    exists (y mod n). split; [reflexivity|]. split; [apply Z.mod_pos_bound; lia|].
    rewrite Z.mul_mod_idemp_r by lia.
    rewrite <- Hgcd, <- Hd, <- Hbz.
    rewrite Z.add_comm, Z.mul_comm with (n := n), Z.mod_add by lia. reflexivity.
  - rewrite Hd. destruct (Z.eqb_spec (Z.gcd n g) 1) as [E1|_]; [contradiction|reflexivity].
Qed.

(* the definition runs (fuel 130 for 64-bit operands) *)
Example egcd_inv_3_7 : egcd_inv 3 7 = Some 5.
Proof. vm_compute. reflexivity. Qed.
Example egcd_inv_2_4 : egcd_inv 2 4 = None.
Proof. vm_compute. reflexivity. Qed.
Example egcd_inv_7_pg : egcd_inv 7 pg = Some (inv_mod 7 pg).
Proof. vm_compute. reflexivity. Qed.

(* for a prime modulus: the inverse of every non-zero residue, none for 0 *)
Theorem egcd_inv_prime p v : prime p -> 0 < v < p ->
  egcd_inv v p = Some (inv_mod v p).
Proof.
  intros Hp Hv. pose proof (prime_ge_2 p Hp) as Hp2.
  destruct (egcd_inv_spec v p ltac:(lia)) as [Hok _].
  assert (Hgcd : Z.gcd p v = 1).
  { apply Zgcd_1_rel_prime. apply rel_prime_sym.
    destruct Hp as [_ Hrp]. apply Hrp. lia. }
  destruct (Hok Hgcd) as (i & E & Hi & Hm). rewrite E. f_equal.
  rewrite <- (Z.mod_small i p Hi).
  apply inv_mod_unique; [exact Hp|rewrite Z.mod_small by lia; lia|].
  rewrite Hm. apply Z.mod_small. lia.
Qed.

Theorem egcd_inv_zero p : 1 < p -> egcd_inv 0 p = None.
Proof.
  intros Hp. destruct (egcd_inv_spec 0 p ltac:(lia)) as [_ Hno]. apply Hno.
  rewrite Z.gcd_0_r. rewrite Z.abs_eq by lia. lia.
Qed.

Theorem egcd_inv_pg v : 0 < v < pg -> egcd_inv v pg = Some (inv_mod v pg).
Proof. apply egcd_inv_prime. exact pg_prime. Qed.

Theorem egcd_inv_pg_zero : egcd_inv 0 pg = None.
Proof. apply egcd_inv_zero. reflexivity. Qed.

Theorem egcd_inv_q v : 0 < v < q -> egcd_inv v q = Some (inv_mod v q).
Proof. apply egcd_inv_prime. exact q_prime. Qed.

Theorem egcd_inv_q_zero : egcd_inv 0 q = None.
Proof. apply egcd_inv_zero. pose proof q_gt_2. lia. Qed.

(* ------------------------------------------------------------------ *)
(** * big.Int.ModInverse and the models of it *)

(* z.ModInverse(g, n), n > 0: g is first reduced into [0, n); the new value of
   the receiver z (whose previous value is [recv]) *)
Definition big_ModInverse (recv g n : Z) : Z :=
  match egcd_inv (g mod n) n with
  | Some i => i
  | None => recv
  end.

Theorem big_ModInverse_prime p recv g : prime p -> 2 < p ->
  big_ModInverse recv g p = if g mod p =? 0 then recv else inv_mod g p.
Proof.
  intros Hp H2. unfold big_ModInverse.
  pose proof (Z.mod_pos_bound g p ltac:(lia)) as Hr.
  destruct (Z.eqb_spec (g mod p) 0) as [E|E].
  - rewrite E, egcd_inv_zero by lia. reflexivity.
  - rewrite (egcd_inv_prime p (g mod p) Hp) by lia. apply inv_mod_mod. lia.
Qed.

(* ffg.Inverse calls _xNonMont.ModInverse(&_xNonMont, Modulus()): the receiver
   IS the argument, so "unchanged" means 0 for the only residue without
   inverse; this is what FfgLimbs.modinv (Fermat) returns *)
Theorem ffg_modinv_models_ModInverse : forall v, 0 <= v < pg ->
  big_ModInverse v v pg = FfgLimbs.modinv v.
Proof.
  intros v Hv. rewrite (big_ModInverse_prime pg v v pg_prime pg_gt_2).
  rewrite FfgOps.modinv_inv_mod. rewrite Z.mod_small by exact Hv.
  destruct (Z.eqb_spec v 0) as [->|_]; [symmetry; exact inv_mod_0_pg|reflexivity].
Qed.

(* without the aliasing the two differ only on 0, where the receiver is kept *)
Theorem ffg_modinv_models_ModInverse_nonzero : forall recv v, v mod pg <> 0 ->
  big_ModInverse recv v pg = FfgLimbs.modinv v.
Proof.
  intros recv v Hv. rewrite (big_ModInverse_prime pg recv v pg_prime pg_gt_2).
  rewrite FfgOps.modinv_inv_mod.
  destruct (Z.eqb_spec (v mod pg) 0) as [E|_]; [contradiction|reflexivity].
Qed.

Lemma finv_is_inv_mod p x : Edwards.finv p x = inv_mod x p.
Proof. reflexivity. Qed.

(* babyjub.PointFromSignAndY calls xb.ModInverse(xb, Q) on a value that is
   never 0 mod Q (GapC06.xb_never_zero): BabyJub.modinv is that inverse, also
   for the negative arguments that occur there *)
Theorem babyjub_modinv_models_ModInverse : forall recv g, g mod q <> 0 ->
  big_ModInverse recv g q = BabyJub.modinv g.
Proof.
  intros recv g Hg. rewrite (big_ModInverse_prime q recv g q_prime q_gt_2).
  destruct (Z.eqb_spec (g mod q) 0) as [E|_]; [contradiction|].
  unfold BabyJub.modinv. rewrite CompressProofs.Q_eq, finv_is_inv_mod.
  symmetry. apply inv_mod_mod. pose proof q_gt_2. lia.
Qed.

Print Assumptions inv_mod_0_q.
Print Assumptions inv_mod_0_pg.
Print Assumptions ff_div_by_zero.
Print Assumptions ff_inverse_of_zero.
Print Assumptions ff_exp_zero.
Print Assumptions ffg_div_by_zero.
Print Assumptions ffg_inverse_of_zero.
Print Assumptions ffg_exp_zero.
Print Assumptions egcd_inv_spec.
Print Assumptions egcd_inv_prime.
Print Assumptions egcd_inv_pg.
Print Assumptions egcd_inv_pg_zero.
Print Assumptions egcd_inv_q.
Print Assumptions ffg_modinv_models_ModInverse.
Print Assumptions ffg_modinv_models_ModInverse_nonzero.
Print Assumptions babyjub_modinv_models_ModInverse.

(* Part of the equality lemmas between the Gallina regenerated from the Go
   sources by tools/bigintgen (Gen/BigIntRoutines.v) and the hand-written models:
   babyjub PointProjective.Add.
   The lemmas are split over Proofs/BigIntEq*.v so that an edit of one Go
   function breaks only the file of that function (and the files that use its
   lemma); Proofs/BigIntEqAll.v exports all of them. *)
From Coq Require Import ZArith List Bool Lia.
From Verif Require Import Lib.Params Lib.Octets Spec.Edwards Model.Outcome Model.Utils
  Model.BabyJubCore Model.BabyJub Model.Eddsa.
From Verif Require Gen.CurveConsts Model.Mimc7 Model.Poseidon.
From Verif Require Import Gen.BigIntRoutines.
Import ListNotations.
Local Open Scope Z_scope.

(* The external functions are never unfolded by the proofs below; keeping them
   opaque for the tactics makes a FAILING comparison (after an edit of the Go
   code) fail fast instead of normalising Fermat inversions or Tonelli-Shanks
   on symbolic arguments. *)
Local Opaque BabyJub.modinv BabyJub.modsqrt BabyJub.Mul BabyJub.Affine BabyJub.Projective
  Mimc7.MIMC7Hash HadesOpt.perm_opt Z.mul Z.add Z.sub Z.modulo Z.shiftr Z.shiftl Z.land Z.lor
  Z.ltb Z.gtb Z.geb Z.eqb.

(* [same] (as in BigIntEqUtils.v, repeated here so that this file does not
   depend on the utils lemmas): the two sides are SYNTACTICALLY equal after removing lets.  Used
   where it applies instead of a bare [reflexivity], because a syntactic check
   fails at once on a mismatch whereas conversion may first try to normalise. *)
Local Ltac same :=
  cbv zeta;
  first [ lazymatch goal with |- ?a = ?b => constr_eq a b end; reflexivity
        | (* the same code up to boolean spelling: `if !c {A} else {B}` for `if c {B} else {A}`,
             an early `return false` for a conjunction, ... (the heavy functions are Opaque here,
             so the conversion below stays cheap) *)
          rewrite ?Bool.if_negb; cbv beta iota zeta delta [andb orb];
          rewrite ?Bool.if_negb; timeout 20 reflexivity
        | fail 1 "generated code and hand model differ" ].

Lemma gen_babyjub_PointProjective_Add_eq : forall q o,
  babyjub_PointProjective_Add q o = BabyJub.Add q o.
Proof.
  intros [[x1 y1] z1] [[x2 y2] z2].
  unfold babyjub_PointProjective_Add, BabyJub.Add, padd, fmul, fadd, fsub, BabyJub.Q.
  cbn [fst snd]. same.
Qed.

(* ---- every lemma above is closed under the global context ---------------- *)
Print Assumptions gen_babyjub_PointProjective_Add_eq.

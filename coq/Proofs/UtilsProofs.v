(* Properties of the value-level model of utils/utils.go (Model/Utils.v):
   little-endian 32-byte codec of big integers and the hex helpers
   (property C15 helpers). *)
From Coq Require Import ZArith List Bool Lia Arith.
From Verif Require Import Lib.Octets Model.Outcome Model.Utils Proofs.OctetsProofs.
Import ListNotations.
Local Open Scope Z_scope.

(* ------------------------------------------------------------------ *)
(** * SwapEndianness *)

Theorem SwapEndianness_involutive xs : SwapEndianness (SwapEndianness xs) = xs.
Proof. unfold SwapEndianness. apply rev_involutive. Qed.

Lemma SwapEndianness_length xs : length (SwapEndianness xs) = length xs.
Proof. unfold SwapEndianness. apply rev_length. Qed.

Lemma SwapEndianness_bytes xs : Forall is_byte xs -> Forall is_byte (SwapEndianness xs).
Proof. unfold SwapEndianness. apply Forall_rev. Qed.

(* position i of the output is position len-1-i of the input *)
Lemma SwapEndianness_nth xs i : (i < length xs)%nat ->
  nth i (SwapEndianness xs) 0 = nth (length xs - 1 - i) xs 0.
Proof.
  intros Hi. unfold SwapEndianness. rewrite rev_nth by exact Hi.
  f_equal. lia.
Qed.

(* ------------------------------------------------------------------ *)
(** * copy into a zeroed array *)

Lemma copy_into_length n src : length (copy_into n src) = n.
Proof.
  unfold copy_into. rewrite app_length, repeat_length.
  pose proof (firstn_le_length n src). lia.
Qed.

Lemma copy_into_bytes n src : Forall is_byte src -> Forall is_byte (copy_into n src).
Proof.
  intros Hs. unfold copy_into. apply Forall_is_byte_app.
  - apply Forall_is_byte_firstn. exact Hs.
  - apply Forall_is_byte_repeat0.
Qed.

Lemma copy_into_exact n src : length src = n -> copy_into n src = src.
Proof.
  intros Hl. unfold copy_into. rewrite firstn_all2 by lia.
  rewrite Hl, Nat.sub_diag. cbn [repeat]. apply app_nil_r.
Qed.

Lemma copy_into_le_bytes n k a :
  0 <= a < 256 ^ Z.of_nat k -> copy_into n (le_bytes k a) = le_bytes n a.
Proof.
  intros Ha. unfold copy_into. destruct (le_lt_dec k n) as [Hkn|Hkn].
  - rewrite firstn_all2 by (rewrite le_bytes_length; lia).
    rewrite le_bytes_length.
    rewrite <- le_bytes_app_zeros by exact Ha.
    f_equal. lia.
  - replace k with (n + (k - n))%nat by lia.
    rewrite firstn_le_bytes, le_bytes_length, Nat.sub_diag.
    cbn [repeat]. apply app_nil_r.
Qed.

(* ------------------------------------------------------------------ *)
(** * BigIntLEBytes / SetBigIntFromLEBytes *)

(* complete description, for every integer (negative values lose their sign,
   values >= 2^256 are truncated to their low 32 bytes) *)
Theorem BigIntLEBytes_spec v : BigIntLEBytes v = le_bytes 32 (Z.abs v).
Proof.
  unfold BigIntLEBytes, SwapEndianness, min_be_bytes, be_bytes.
  rewrite rev_involutive. apply copy_into_le_bytes.
  pose proof (byte_len_bound v). lia.
Qed.

Corollary BigIntLEBytes_nonneg v : 0 <= v -> BigIntLEBytes v = le_bytes 32 v.
Proof. intros Hv. rewrite BigIntLEBytes_spec. f_equal. lia. Qed.

Theorem BigIntLEBytes_length v : length (BigIntLEBytes v) = 32%nat.
Proof. rewrite BigIntLEBytes_spec. apply le_bytes_length. Qed.

Theorem BigIntLEBytes_bytes v : Forall is_byte (BigIntLEBytes v).
Proof. rewrite BigIntLEBytes_spec. apply le_bytes_bytes. Qed.

Theorem SetBigIntFromLEBytes_spec b : SetBigIntFromLEBytes b = le_val b.
Proof. unfold SetBigIntFromLEBytes, SwapEndianness. apply be_val_rev. Qed.

Lemma SetBigIntFromLEBytes_bound b : Forall is_byte b ->
  0 <= SetBigIntFromLEBytes b < 256 ^ Z.of_nat (length b).
Proof. intros Hb. rewrite SetBigIntFromLEBytes_spec. apply le_val_bound. exact Hb. Qed.

(* general form: decoding the encoding gives |v| mod 2^256 *)
Theorem SetBigIntFromLEBytes_BigIntLEBytes_gen v :
  SetBigIntFromLEBytes (BigIntLEBytes v) = Z.abs v mod 2 ^ 256.
Proof.
  rewrite SetBigIntFromLEBytes_spec, BigIntLEBytes_spec, le_val_le_bytes.
  rewrite pow256_32. reflexivity.
Qed.

Theorem SetBigIntFromLEBytes_BigIntLEBytes v :
  0 <= v < 2 ^ 256 -> SetBigIntFromLEBytes (BigIntLEBytes v) = v.
Proof.
  intros Hv. rewrite SetBigIntFromLEBytes_BigIntLEBytes_gen.
  rewrite Z.abs_eq by lia. apply Z.mod_small. exact Hv.
Qed.

Theorem BigIntLEBytes_SetBigIntFromLEBytes b :
  length b = 32%nat -> Forall is_byte b -> BigIntLEBytes (SetBigIntFromLEBytes b) = b.
Proof.
  intros Hl Hb. rewrite SetBigIntFromLEBytes_spec.
  pose proof (le_val_bound b Hb) as Hr.
  rewrite BigIntLEBytes_nonneg by lia.
  rewrite <- Hl. apply le_bytes_le_val. exact Hb.
Qed.

(* injectivity of the encoding on [0, 2^256) *)
Corollary BigIntLEBytes_inj v w :
  0 <= v < 2 ^ 256 -> 0 <= w < 2 ^ 256 -> BigIntLEBytes v = BigIntLEBytes w -> v = w.
Proof.
  intros Hv Hw E.
  rewrite <- (SetBigIntFromLEBytes_BigIntLEBytes v Hv).
  rewrite <- (SetBigIntFromLEBytes_BigIntLEBytes w Hw). rewrite E. reflexivity.
Qed.

(* ------------------------------------------------------------------ *)
(** * Hex helpers *)

Lemma has_0x_cons l : has_0x (48 :: 120 :: l) = true.
Proof. reflexivity. Qed.

Lemma strip_0x_prefixed l : strip_0x (48 :: 120 :: l) = l.
Proof. reflexivity. Qed.

Lemma has_0x_hex_encode bs : Forall is_byte bs -> has_0x (hex_encode bs) = false.
Proof.
  intros Hb. destruct Hb as [|b r Hb Hr]; [reflexivity|].
  rewrite hex_encode_cons. unfold has_0x.
  destruct (byte_nibbles b Hb) as [_ Hl].
  pose proof (hex_digit_is_hex _ Hl) as Hd.
  rewrite (proj2 (Z.eqb_neq (hex_digit (b mod 16)) 120)) by lia.
  apply andb_false_r.
Qed.

Lemma strip_0x_hex_encode bs : Forall is_byte bs -> strip_0x (hex_encode bs) = hex_encode bs.
Proof. intros Hb. unfold strip_0x. rewrite has_0x_hex_encode by exact Hb. reflexivity. Qed.

(* stripping never lengthens, and removes exactly the two characters "0x" *)
Lemma strip_0x_cases h :
  (has_0x h = true /\ h = 48 :: 120 :: strip_0x h) \/ (has_0x h = false /\ strip_0x h = h).
Proof.
  unfold strip_0x. destruct (has_0x h) eqn:E; [left|right; split; reflexivity].
  split; [reflexivity|].
  destruct h as [|a [|b r]]; try discriminate.
  unfold has_0x in E. apply andb_true_iff in E. destruct E as [Ea Eb].
  apply Z.eqb_eq in Ea. apply Z.eqb_eq in Eb. subst. reflexivity.
Qed.

Theorem HexDecode_HexEncode bs : Forall is_byte bs -> HexDecode (HexEncode bs) = Ok bs.
Proof.
  intros Hb. unfold HexDecode, HexEncode. rewrite strip_0x_prefixed.
  rewrite hex_decode_encode by exact Hb. reflexivity.
Qed.

Theorem HexDecode_HexString bs : Forall is_byte bs -> HexDecode (HexString bs) = Ok bs.
Proof.
  intros Hb. unfold HexDecode, HexString. rewrite strip_0x_hex_encode by exact Hb.
  rewrite hex_decode_encode by exact Hb. reflexivity.
Qed.

Theorem HexDecode_ok_iff h b :
  HexDecode h = Ok b <-> hex_decode (strip_0x h) = Some b.
Proof.
  unfold HexDecode. destruct (hex_decode (strip_0x h)) as [t|]; split; intros H;
    congruence.
Qed.

Theorem HexDecode_never_panics h : HexDecode h <> Panic.
Proof. unfold HexDecode. destruct (hex_decode (strip_0x h)); discriminate. Qed.

(* HexDecodeInto succeeds exactly when, after removing an optional "0x", the
   input consists of exactly 2n hex digits; the result is their decoding. *)
Theorem HexDecodeInto_ok_iff n h b :
  HexDecodeInto n h = Ok b <->
  length (strip_0x h) = (2 * n)%nat /\
  Forall is_hex_char (strip_0x h) /\
  hex_decode (strip_0x h) = Some b.
Proof.
  unfold HexDecodeInto. cbv zeta. set (h' := strip_0x h). split.
  - intros H.
    destruct (Nat.eqb (length h' / 2) n) eqn:E1; cbn [negb] in H; [|discriminate].
    destruct (hex_decode h') as [t|] eqn:Ed; [|discriminate].
    destruct (Nat.eqb (length t) n) eqn:E2; [|discriminate].
    assert (t = b) by congruence. subst t. clear H.
    apply Nat.eqb_eq in E2.
    destruct (hex_decode_some h' b Ed) as [Hl _].
    split; [lia|]. split; [|reflexivity].
    apply (proj1 (hex_decode_ok_iff h')). exists b. exact Ed.
  - intros (Hl & _ & Hd).
    assert (E1 : Nat.eqb (length h' / 2) n = true).
    { apply Nat.eqb_eq. rewrite Hl, Nat.mul_comm. apply Nat.div_mul. lia. }
    rewrite E1. cbn [negb]. rewrite Hd.
    destruct (hex_decode_some h' b Hd) as [Hl' _].
    assert (E2 : Nat.eqb (length b) n = true) by (apply Nat.eqb_eq; lia).
    rewrite E2. reflexivity.
Qed.

(* the same, with the decoding existentially hidden: acceptance criterion *)
Corollary HexDecodeInto_accepts_iff n h :
  (exists b, HexDecodeInto n h = Ok b) <->
  length (strip_0x h) = (2 * n)%nat /\ Forall is_hex_char (strip_0x h).
Proof.
  split.
  - intros (b & H). apply HexDecodeInto_ok_iff in H. tauto.
  - intros (Hl & Hf).
    destruct (proj2 (hex_decode_ok_iff (strip_0x h))) as (b & Hb).
    { split; [|exact Hf]. rewrite Hl. clear. induction n as [|n IH]; [reflexivity|].
      replace (2 * S n)%nat with (S (S (2 * n))) by lia. exact IH. }
    exists b. apply HexDecodeInto_ok_iff. tauto.
Qed.

Theorem HexDecodeInto_never_panics n h : HexDecodeInto n h <> Panic.
Proof.
  unfold HexDecodeInto. cbv zeta.
  destruct (negb _); [discriminate|].
  destruct (hex_decode _) as [t|]; [|discriminate].
  destruct (Nat.eqb _ _); discriminate.
Qed.

Corollary HexDecodeInto_err_iff n h :
  HexDecodeInto n h = Err <->
  ~ (length (strip_0x h) = (2 * n)%nat /\ Forall is_hex_char (strip_0x h)).
Proof.
  rewrite <- HexDecodeInto_accepts_iff. split.
  - intros H (b & Hb). congruence.
  - intros H. destruct (HexDecodeInto n h) as [b| |] eqn:E.
    + exfalso. apply H. exists b. reflexivity.
    + reflexivity.
    + exfalso. exact (HexDecodeInto_never_panics n h E).
Qed.

Theorem HexDecodeInto_result n h b : HexDecodeInto n h = Ok b ->
  length b = n /\ Forall is_byte b.
Proof.
  intros H. apply HexDecodeInto_ok_iff in H. destruct H as (Hl & _ & Hd).
  destruct (hex_decode_some _ _ Hd) as [Hl' Hf]. split; [lia|exact Hf].
Qed.

Theorem HexDecodeInto_HexString n b :
  length b = n -> Forall is_byte b -> HexDecodeInto n (HexString b) = Ok b.
Proof.
  intros Hl Hb. apply HexDecodeInto_ok_iff. unfold HexString.
  rewrite strip_0x_hex_encode by exact Hb.
  split; [rewrite hex_encode_length; lia|].
  split; [|apply hex_decode_encode; exact Hb].
  apply (proj1 (hex_decode_ok_iff _)). exists b. apply hex_decode_encode. exact Hb.
Qed.

Theorem HexDecodeInto_HexEncode n b :
  length b = n -> Forall is_byte b -> HexDecodeInto n (HexEncode b) = Ok b.
Proof.
  intros Hl Hb. apply HexDecodeInto_ok_iff. unfold HexEncode.
  rewrite strip_0x_prefixed.
  split; [rewrite hex_encode_length; lia|].
  split; [|apply hex_decode_encode; exact Hb].
  apply (proj1 (hex_decode_ok_iff _)). exists b. apply hex_decode_encode. exact Hb.
Qed.

(* ------------------------------------------------------------------ *)
(** * CheckBigIntInField *)

Theorem CheckBigIntInField_spec Q a : CheckBigIntInField Q a = true <-> 0 <= a < Q.
Proof.
  unfold CheckBigIntInField. rewrite andb_true_iff, negb_true_iff, Z.ltb_lt, Z.ltb_ge. lia.
Qed.

Theorem CheckBigIntArrayInField_spec Q arr :
  CheckBigIntArrayInField Q arr = true <-> Forall (fun a => 0 <= a < Q) arr.
Proof.
  unfold CheckBigIntArrayInField. rewrite forallb_forall, Forall_forall.
  split; intros H x Hx; apply CheckBigIntInField_spec; apply H; exact Hx.
Qed.

Print Assumptions SwapEndianness_involutive.
Print Assumptions BigIntLEBytes_spec.
Print Assumptions BigIntLEBytes_length.
Print Assumptions BigIntLEBytes_bytes.
Print Assumptions SetBigIntFromLEBytes_BigIntLEBytes.
Print Assumptions BigIntLEBytes_SetBigIntFromLEBytes.
Print Assumptions HexDecode_HexEncode.
Print Assumptions HexDecodeInto_ok_iff.
Print Assumptions HexDecodeInto_err_iff.
Print Assumptions HexDecodeInto_never_panics.
Print Assumptions HexDecodeInto_HexString.
Print Assumptions CheckBigIntInField_spec.

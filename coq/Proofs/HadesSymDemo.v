(* Demo of the reflective Hades checker (Proofs/HadesSym.v) on the real
   Poseidon tables for t = 2 and t = 3: the optimized loop with the tables of
   poseidon/constants.go equals the reference permutation with the constants
   produced by the Grain generator. *)
From Coq Require Import ZArith List Lia.
From Verif Require Import Lib.Params Spec.Hades Spec.Grain Model.HadesOpt Proofs.HadesSym.
From Verif Require Gen.PoseidonT2 Gen.PoseidonT3.
Import ListNotations.
Local Open Scope Z_scope.

Lemma q_gt_1 : 1 < q.
Proof. unfold Z.lt. vm_compute. reflexivity. Qed.

(* ---------------- t = 2 ---------------- *)
Time Definition gp2 : option (list Z * list (list Z)) :=
  Eval vm_compute in grain_params 2 PoseidonT2.RP.
Definition RC2 : list Z := Eval cbv in match gp2 with Some x => fst x | None => [] end.
Definition MDS2 : list (list Z) := Eval cbv in match gp2 with Some x => snd x | None => [] end.

Lemma gp2_eq : grain_params 2 PoseidonT2.RP = Some (RC2, MDS2).
Proof. vm_cast_no_check (eq_refl (Some (RC2, MDS2))). Time Qed.

Lemma check2 :
  hades_check q 2 8 PoseidonT2.RP RC2 MDS2
              PoseidonT2.C PoseidonT2.S PoseidonT2.M PoseidonT2.P = true.
Proof. Time vm_compute. reflexivity. Time Qed.

Theorem poseidon_t2_opt_eq_ref :
  forall RC MDS, grain_params 2 PoseidonT2.RP = Some (RC, MDS) ->
  forall st, length st = 2%nat ->
    perm_opt q (sbox5 q) 2 8 PoseidonT2.RP PoseidonT2.C PoseidonT2.S PoseidonT2.M PoseidonT2.P st
    = perm_ref q (sbox5 q) 2 8 PoseidonT2.RP RC MDS st.
Proof.
  intros RC MDS Hgp st Hlen. rewrite gp2_eq in Hgp.
  injection Hgp as <- <-.
  apply hades_check_sound; [exact q_gt_1|lia|lia|reflexivity|exact check2|exact Hlen].
Qed.

Print Assumptions poseidon_t2_opt_eq_ref.

(* ---------------- t = 3 ---------------- *)
Time Definition gp3 : option (list Z * list (list Z)) :=
  Eval vm_compute in grain_params 3 PoseidonT3.RP.
Definition RC3 : list Z := Eval cbv in match gp3 with Some x => fst x | None => [] end.
Definition MDS3 : list (list Z) := Eval cbv in match gp3 with Some x => snd x | None => [] end.

Lemma gp3_eq : grain_params 3 PoseidonT3.RP = Some (RC3, MDS3).
Proof. vm_cast_no_check (eq_refl (Some (RC3, MDS3))). Time Qed.

Lemma check3 :
  hades_check q 3 8 PoseidonT3.RP RC3 MDS3
              PoseidonT3.C PoseidonT3.S PoseidonT3.M PoseidonT3.P = true.
Proof. Time vm_compute. reflexivity. Time Qed.

Theorem poseidon_t3_opt_eq_ref :
  forall RC MDS, grain_params 3 PoseidonT3.RP = Some (RC, MDS) ->
  forall st, length st = 3%nat ->
    perm_opt q (sbox5 q) 3 8 PoseidonT3.RP PoseidonT3.C PoseidonT3.S PoseidonT3.M PoseidonT3.P st
    = perm_ref q (sbox5 q) 3 8 PoseidonT3.RP RC MDS st.
Proof.
  intros RC MDS Hgp st Hlen. rewrite gp3_eq in Hgp.
  injection Hgp as <- <-.
  apply hades_check_sound; [exact q_gt_1|lia|lia|reflexivity|exact check3|exact Hlen].
Qed.

Print Assumptions poseidon_t3_opt_eq_ref.

(* Assembly proofs, part 1: symbolic-execution machinery for Model/AsmSem.v
   and the bridge lemmas between carry/borrow chains of single instructions
   and the 4-limb building blocks of Proofs/FfEl.v. *)
From Coq Require Import ZArith List Lia Bool.
From Verif Require Import Lib.Params Lib.Words Model.FfLimbs Model.AsmSem
  Proofs.FfWords Proofs.FfEl.
From Verif Require Gen.FfAsm.
Import ListNotations.
Local Open Scope Z_scope.

Local Ltac Zify.zify_post_hook ::= Z.div_mod_to_equations.
Local Opaque q.

(* ------------------------------------------------------------------ *)
(** * The generated constants and immediates are the limbs of q, qInvNeg *)

Lemma q0_lit : 4891460686036598785 = q0. Proof. vm_compute. reflexivity. Qed.
Lemma q1_lit : 2896914383306846353 = q1. Proof. vm_compute. reflexivity. Qed.
Lemma q2_lit : 13281191951274694749 = q2. Proof. vm_compute. reflexivity. Qed.
Lemma q3_lit : 3486998266802970665 = q3. Proof. vm_compute. reflexivity. Qed.
Lemma qInvNeg_lit : 14042775128853446655 = qInvNeg. Proof. vm_compute. reflexivity. Qed.

Lemma asm_consts_ok :
  FfAsm.asm_const_ops_q = [q0; q1; q2; q3] /\ FfAsm.asm_const_ops_qInv0 = [qInvNeg] /\
  FfAsm.asm_const_mul_q = [q0; q1; q2; q3] /\ FfAsm.asm_const_mul_qInv0 = [qInvNeg] /\
  FfAsm.asm_const_adx_q = [q0; q1; q2; q3] /\ FfAsm.asm_const_adx_qInv0 = [qInvNeg].
Proof. vm_compute. repeat split. Qed.

(* every immediate / resolved constant of every routine is a 64-bit word *)
Lemma asm_wf : forallb (forallb instr_ok) FfAsm.asm_all = true.
Proof. vm_compute. reflexivity. Qed.

(* the ADX-only build (tag amd64_adx) is the ADX path of the dispatching build:
   same instructions once the dispatch and the fallback are removed *)
Lemma asm_adx_mul_eq :
  exists tail, FfAsm.asm_mul = CMPB_ADX :: JNE 1 :: removelast FfAsm.asm_adx_mul ++ RET :: LABEL 1 :: tail.
Proof. eexists. vm_compute. reflexivity. Qed.
Lemma asm_adx_fromMont_eq :
  exists tail, FfAsm.asm_fromMont =
    CMPB_ADX :: JNE 1 :: removelast FfAsm.asm_adx_fromMont ++ RET :: LABEL 1 :: tail.
Proof. eexists. vm_compute. reflexivity. Qed.

(* ------------------------------------------------------------------ *)
(** * Weakest-precondition style goals *)

Definition ok (P : state -> Prop) (o : option state) : Prop :=
  match o with Some s => P s | None => False end.

Lemma ok_elim : forall P o, ok P o -> exists s, o = Some s /\ P s.
Proof. intros P [s | ] H; [ exists s; split; [ reflexivity | exact H ] | destruct H ]. Qed.

Lemma exec_cons : forall adx full fuel i rest st,
  exec adx full fuel (i :: rest) st =
  match step adx i st with
  | Next st' => exec adx full fuel rest st'
  | Jump l st' =>
      match fuel with
      | O => None
      | S f => match find_label l full with
               | Some tgt => exec adx full f tgt st'
               | None => None
               end
      end
  | Done st' => Some st'
  | Stuck => None
  end.
Proof. intros. destruct fuel; reflexivity. Qed.

(* ------------------------------------------------------------------ *)
(** * Memory *)

Lemma upd4_same : forall m l a b c d,
  upd_mem (upd_mem (upd_mem (upd_mem m l 0 a) l 1 b) l 2 c) l 3 d l = (a, b, c, d).
Proof.
  intros. unfold upd_mem. rewrite Nat.eqb_refl.
  destruct (m l) as [[[m0 m1] m2] m3]. reflexivity.
Qed.

Lemma upd4_other : forall m l a b c d l', l' <> l ->
  upd_mem (upd_mem (upd_mem (upd_mem m l 0 a) l 1 b) l 2 c) l 3 d l' = m l'.
Proof.
  intros m l a b c d l' H. unfold upd_mem.
  destruct (Nat.eqb_spec l' l) as [E | E]; [ contradiction | reflexivity ].
Qed.

Lemma put_same : forall m l e, put_mem m l e l = e.
Proof. intros. unfold put_mem. rewrite Nat.eqb_refl. reflexivity. Qed.

Lemma put_other : forall m l e l', l' <> l -> put_mem m l e l' = m l'.
Proof.
  intros m l e l' H. unfold put_mem.
  destruct (Nat.eqb_spec l' l) as [E | E]; [ contradiction | reflexivity ].
Qed.

(* ------------------------------------------------------------------ *)
(** * Single instructions: results are 64-bit words, carries are bits *)

Lemma add64_u64 : forall a b c s k, add64 a b c = (s, k) -> u64 s.
Proof.
  unfold add64, u64. intros a b c s k H. inversion H; subst.
  apply Z.mod_pos_bound. exact W_pos.
Qed.

Lemma sub64_u64 : forall a b c d k, sub64 a b c = (d, k) -> u64 d /\ 0 <= k <= 1.
Proof.
  unfold sub64, u64. intros a b c d k H. inversion H; subst. split.
  - apply Z.mod_pos_bound. exact W_pos.
  - destruct (a - b - c <? 0); lia.
Qed.

Lemma mul64_u64 : forall a b h l, u64 a -> u64 b -> mul64 a b = (h, l) ->
  h * W + l = a * b /\ u64 h /\ u64 l.
Proof. intros a b h l Ha Hb H. exact (mul64_spec a b h l Ha Hb H). Qed.

(* ------------------------------------------------------------------ *)
(** * Chains of four instructions are add4 / sub4 *)

Lemma add4_chain : forall x0 x1 x2 x3 y0 y1 y2 y3 s0 k0 s1 k1 s2 k2 s3 k3,
  add64 x0 y0 0 = (s0, k0) -> add64 x1 y1 k0 = (s1, k1) ->
  add64 x2 y2 k1 = (s2, k2) -> add64 x3 y3 k2 = (s3, k3) ->
  add4 (x0, x1, x2, x3) (y0, y1, y2, y3) = ((s0, s1, s2, s3), k3) /\
  limbs_ok (s0, s1, s2, s3).
Proof.
  intros * E0 E1 E2 E3. split.
  - unfold add4. rewrite E0, E1, E2, E3. reflexivity.
  - cbn [limbs_ok]. repeat split; eapply add64_u64; eassumption.
Qed.

Lemma sub4_chain : forall x0 x1 x2 x3 y0 y1 y2 y3 d0 k0 d1 k1 d2 k2 d3 k3,
  sub64 x0 y0 0 = (d0, k0) -> sub64 x1 y1 k0 = (d1, k1) ->
  sub64 x2 y2 k1 = (d2, k2) -> sub64 x3 y3 k2 = (d3, k3) ->
  sub4 (x0, x1, x2, x3) (y0, y1, y2, y3) = ((d0, d1, d2, d3), k3) /\
  limbs_ok (d0, d1, d2, d3).
Proof.
  intros * E0 E1 E2 E3. split.
  - unfold sub4. rewrite E0, E1, E2, E3. reflexivity.
  - cbn [limbs_ok]. repeat split; eapply (fun a b c d k H => proj1 (sub64_u64 a b c d k H)); eassumption.
Qed.

(* ------------------------------------------------------------------ *)
(** * REDUCE: subtract q, keep the original on borrow  =  cond_sub_q *)

Lemma reduce_sel : forall z d b, limbs_ok z -> sub4 z qEl = (d, b) ->
  (if b =? 1 then z else d) = cond_sub_q z.
Proof.
  intros [[[z0 z1] z2] z3] d b Hz E.
  destruct (sub4_spec (z0, z1, z2, z3) qEl Hz limbs_qEl) as (Hl & Hv & Hb).
  rewrite E in Hl, Hv, Hb. cbn [fst snd] in Hl, Hv, Hb. rewrite val_qEl' in Hv.
  unfold cond_sub_q. rewrite (lt_q_spec _ _ _ _ Hz). rewrite E. cbn [fst].
  pose proof (limbs_val _ Hl) as Rd. pose proof (limbs_val _ Hz) as Rz.
  destruct (Z.ltb_spec (val (z0, z1, z2, z3)) q) as [L | L]; cbn [negb].
  - assert (Eb : b = 1) by zw. subst b. reflexivity.
  - assert (Eb : b = 0) by zw. subst b. reflexivity.
Qed.

Lemma reduce_regs : forall z0 z1 z2 z3 d0 b0 d1 b1 d2 b2 d3 b3 r0 r1 r2 r3,
  limbs_ok (z0, z1, z2, z3) ->
  sub64 z0 q0 0 = (d0, b0) -> sub64 z1 q1 b0 = (d1, b1) ->
  sub64 z2 q2 b1 = (d2, b2) -> sub64 z3 q3 b2 = (d3, b3) ->
  cond_sub_q (z0, z1, z2, z3) = (r0, r1, r2, r3) ->
  (if b3 =? 1 then z0 else d0) = r0 /\ (if b3 =? 1 then z1 else d1) = r1 /\
  (if b3 =? 1 then z2 else d2) = r2 /\ (if b3 =? 1 then z3 else d3) = r3.
Proof.
  intros * Hz F0 F1 F2 F3 ER.
  destruct (sub4_chain _ _ _ _ _ _ _ _ _ _ _ _ _ _ _ _ F0 F1 F2 F3) as [S4 _].
  pose proof (reduce_sel (z0, z1, z2, z3) _ _ Hz S4) as H.
  rewrite ER in H. destruct (b3 =? 1); inversion H; auto.
Qed.

Lemma cond_sub_q_limbs : forall z, limbs_ok z -> limbs_ok (cond_sub_q z).
Proof.
  intros [[[z0 z1] z2] z3] Hz. unfold cond_sub_q.
  destruct (negb (lt_q z0 z1 z2 z3)); [ | exact Hz ].
  apply (sub4_spec (z0, z1, z2, z3) qEl Hz limbs_qEl).
Qed.

(* ------------------------------------------------------------------ *)
(** * Adding the zero mask *)

Lemma add64_zero : forall a, u64 a -> add64 a 0 0 = (a, 0).
Proof.
  unfold add64, u64. intros a Ha. rewrite !Z.add_0_r.
  rewrite Z.mod_small, Z.div_small by exact Ha. reflexivity.
Qed.

Lemma add4_zero : forall d, limbs_ok d -> add4 d (0, 0, 0, 0) = (d, 0).
Proof.
  intros [[[d0 d1] d2] d3] (H0 & H1 & H2 & H3). unfold add4.
  rewrite !add64_zero by assumption. reflexivity.
Qed.

(* the borrow of a 4-limb subtraction is a bit *)
Lemma sub4_borrow_bit : forall x y d b, sub4 x y = (d, b) -> b = 0 \/ b = 1.
Proof.
  intros [[[x0 x1] x2] x3] [[[y0 y1] y2] y3] d b. unfold sub4.
  destruct (sub64 x0 y0 0) as [z0 b0]. destruct (sub64 x1 y1 b0) as [z1 b1].
  destruct (sub64 x2 y2 b1) as [z2 b2]. destruct (sub64 x3 y3 b2) as [z3 b3] eqn:E.
  intros H. inversion H; subst. apply sub64_u64 in E. lia.
Qed.

(* ------------------------------------------------------------------ *)
(** * Symbolic execution *)

(* unfold the semantics of one instruction on an explicit state; the word
   primitives add64/sub64/mul64/wmul, [limb] and [upd_mem] stay folded *)
Ltac sem_cbv :=
  cbv beta iota zeta delta [step read readw write next same_reg reg_eqb get_reg set_reg
    with_regs with_flags with_cf with_of with_mem with_stk
    regs cf ofl zf mem args stk
    rAX rBX rCX rDX rSI rDI rBP rR8 rR9 rR10 rR11 rR12 rR13 rR14 rR15
    sk0 sk8 sk16 limb_ix arg_ix nth_error undef_regs].

(* memory operands: use the hypotheses [m l = (x0, x1, x2, x3)] *)
Ltac sem_mem :=
  repeat match goal with
  | H : ?m ?l = (_, _, _, _) |- context [limb _ (?m ?l)] => rewrite H
  end;
  cbv beta iota delta [limb].

(* one instruction without a word primitive (moves, logic, CMOV, labels) *)
Ltac step0 := rewrite exec_cons; sem_cbv; sem_mem.

(* one instruction with add64 / sub64 / mul64: name the two results *)
Ltac step2 r k E :=
  rewrite exec_cons; sem_cbv; sem_mem;
  match goal with
  | |- context [add64 ?a ?b ?c] => destruct (add64 a b c) as [r k] eqn:E
  | |- context [sub64 ?a ?b ?c] => destruct (sub64 a b c) as [r k] eqn:E
  | |- context [mul64 ?a ?b] => destruct (mul64 a b) as [r k] eqn:E
  end;
  cbv beta iota.

(* RET *)
Ltac step_ret := rewrite exec_cons; sem_cbv; cbv beta iota delta [ok].

(* ADDQ/ADCQ/ADCQ/ADCQ: the registers hold (s0,s1,s2,s3), CF = k, and
   A : add4 X Y = ((s0,s1,s2,s3), k), L : limbs_ok (s0,s1,s2,s3) *)
Ltac do_add4 s0 s1 s2 s3 k A L :=
  let k0 := fresh "c" in let k1 := fresh "c" in let k2 := fresh "c" in
  let E0 := fresh "E" in let E1 := fresh "E" in let E2 := fresh "E" in let E3 := fresh "E" in
  step2 s0 k0 E0; step2 s1 k1 E1; step2 s2 k2 E2; step2 s3 k E3;
  destruct (add4_chain _ _ _ _ _ _ _ _ _ _ _ _ _ _ _ _ E0 E1 E2 E3) as [A L];
  clear E0 E1 E2 E3.

(* SUBQ/SBBQ/SBBQ/SBBQ *)
Ltac do_sub4 d0 d1 d2 d3 k A L :=
  let k0 := fresh "c" in let k1 := fresh "c" in let k2 := fresh "c" in
  let E0 := fresh "E" in let E1 := fresh "E" in let E2 := fresh "E" in let E3 := fresh "E" in
  step2 d0 k0 E0; step2 d1 k1 E1; step2 d2 k2 E2; step2 d3 k E3;
  destruct (sub4_chain _ _ _ _ _ _ _ _ _ _ _ _ _ _ _ _ E0 E1 E2 E3) as [A L];
  clear E0 E1 E2 E3.

(* the twelve instructions of the macro REDUCE on registers holding z, with
   L : limbs_ok z.  Afterwards the registers hold (r0,r1,r2,r3) and
   ER : cond_sub_q z = (r0,r1,r2,r3). *)
Ltac do_reduce L r0 r1 r2 r3 ER :=
  let d0 := fresh "d" in let d1 := fresh "d" in let d2 := fresh "d" in let d3 := fresh "d" in
  let b0 := fresh "b" in let b1 := fresh "b" in let b2 := fresh "b" in let b3 := fresh "b" in
  let F0 := fresh "F" in let F1 := fresh "F" in let F2 := fresh "F" in let F3 := fresh "F" in
  step0; step2 d0 b0 F0; step0; step2 d1 b1 F1; step0; step2 d2 b2 F2; step0; step2 d3 b3 F3;
  do 4 step0;
  match type of L with
  | limbs_ok ?z =>
      destruct (cond_sub_q z) as [[[r0 r1] r2] r3] eqn:ER;
      let H0 := fresh "H" in let H1 := fresh "H" in let H2 := fresh "H" in let H3 := fresh "H" in
      destruct (reduce_regs _ _ _ _ _ _ _ _ _ _ _ _ _ _ _ _ L F0 F1 F2 F3 ER) as (H0 & H1 & H2 & H3);
      rewrite H0, H1, H2, H3; clear H0 H1 H2 H3 F0 F1 F2 F3
  end.

(* destructure an arbitrary initial state: every register, flag and stack
   slot becomes a variable *)
Ltac open_state st :=
  destruct st as [rf c_ o_ z_ m ar sk];
  destruct rf as [vAX vBX vCX vDX vSI vDI vBP v8 v9 v10 v11 v12 v13 v14 v15];
  destruct sk as [k0_ k8_ k16_];
  cbn [args mem] in *; subst ar.

(* start: name the postcondition, keep the whole routine folded as [full] for
   jump targets, unfold the code to run, fold the literals into q0..q3 *)
Ltac asm_start prog :=
  match goal with |- ok ?P _ => set (Post := P) end;
  unfold run; set (full := prog) at 1 2; unfold prog;
  rewrite ?q0_lit, ?q1_lit, ?q2_lit, ?q3_lit, ?qInvNeg_lit.

(* end: RET, open the postcondition *)
Ltac asm_finish :=
  step_ret;
  match goal with |- ?P _ => subst P end; cbv beta iota delta [mem].

(* a taken jump: look the label up in the routine *)
Ltac take_jump prog :=
  match goal with f := _ : list instr |- _ => subst f end;
  cbv beta iota delta [prog length find_label Pos.eqb];
  rewrite ?q0_lit, ?q1_lit, ?q2_lit, ?q3_lit, ?qInvNeg_lit.

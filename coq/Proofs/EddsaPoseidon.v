(* Poseidon instance of Proofs/EddsaProofs.v: the digest of SignPoseidon /
   VerifyPoseidon is poseidon.Hash on the regenerated tables; C01
   (Proofs/PoseidonConforms.v) and C07 (Proofs/HashDomainProofs.v) provide
   exactly the hypotheses H_ok / H_err of the signing theorems, and the digest
   is the reference Poseidon hash. *)
From Coq Require Import ZArith List Bool Lia.
From Verif Require Import Lib.Params Lib.Octets Spec.Edwards Spec.EdDSASpec Spec.Blake512 Spec.PoseidonRef
  Model.Outcome Model.Eddsa Model.Poseidon
  Proofs.KeccakStreamProofs Proofs.EddsaProofs Proofs.PoseidonConforms Proofs.HashDomainProofs.
Import ListNotations.
Local Open Scope Z_scope.

Definition poseidon5 (v : list Z) : res Z := Poseidon.Hash q 8 gen_tables v.

Lemma gen_tables_length : length gen_tables = 16%nat.
Proof. reflexivity. Qed.

Local Opaque q.

Lemma poseidon5_ok : forall v, Forall EddsaProofs.in_field v -> length v = 5%nat ->
  exists hm, poseidon5 v = Ok hm /\ 0 <= hm.
Proof.
  intros v Hv Hl.
  destruct (poseidon_hash_conforms v) as [E R]; [rewrite Hl; lia | exact Hv |].
  exists (poseidon_hash_ref v 0). split; [exact E | lia].
Qed.

Lemma poseidon5_ref : forall v, Forall EddsaProofs.in_field v -> length v = 5%nat ->
  poseidon5 v = Ok (poseidon_hash_ref v 0).
Proof.
  intros v Hv Hl. apply (poseidon_hash_conforms v); [rewrite Hl; lia | exact Hv].
Qed.

Lemma poseidon5_err : forall v, length v = 5%nat -> ~ Forall EddsaProofs.in_field v -> poseidon5 v = Err.
Proof.
  intros v Hl Hv.
  apply (poseidon_Hash_err_iff 8%nat gen_tables gen_tables_length v).
  intros [_ H]. apply Hv. exact H.
Qed.

Theorem SignPoseidon_conforms : forall k msg, 0 <= msg < q ->
  SignPoseidon blake512 poseidon5 k msg = Ok (spec_signature blake512 (Hval poseidon5) k msg).
Proof. exact (sign_conforms blake512 blake512_length blake512_bytes poseidon5 poseidon5_ok). Qed.

Theorem SignPoseidon_verifies : forall k msg sig, 0 <= msg < q ->
  SignPoseidon blake512 poseidon5 k msg = Ok sig ->
  VerifyPoseidon poseidon5 (Public blake512 k) msg sig = Ok tt.
Proof. exact (sign_verifies blake512 blake512_length blake512_bytes poseidon5 poseidon5_ok). Qed.

Theorem SignPoseidon_err_iff : forall k msg,
  SignPoseidon blake512 poseidon5 k msg = Err <-> ~ (0 <= msg < q).
Proof. exact (sign_err_iff blake512 blake512_length blake512_bytes poseidon5 poseidon5_ok poseidon5_err). Qed.

Print Assumptions SignPoseidon_verifies.

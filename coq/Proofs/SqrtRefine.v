(* C18, generic part.  Element.Legendre / Element.Sqrt as written in
   ff/element.go and ffg/element.go (Model/FfConv.v, Model/FfgConv.v) are the
   same program over two different limb representations.  Here the program is
   written once over an abstract element type E with abstract Mul / Square /
   Exp / IsZero / "== Montgomery one" tests, and it is shown to compute the
   Montgomery image of the value-level model Model/SqrtCore.v, whose
   correctness (Tonelli-Shanks) is Proofs/TonelliShanks.v.  The two instance
   files (FfgSqrt.v, FfSqrt.v) identify the concrete limb-level fixpoints with
   the generic ones and discharge the hypotheses. *)
From Coq Require Import ZArith Lia Bool.
From Verif Require Import Lib.Powmod Lib.NumberTheory Model.SqrtCore Proofs.TonelliShanks.
Local Open Scope Z_scope.

Inductive gsqrt_out (E : Type) : Type :=
| GSome (z : E) | GNil | GOutOfFuel.
Arguments GSome {E} z.
Arguments GNil {E}.
Arguments GOutOfFuel {E}.

(* ------------------------------------------------------------------ *)
(** * The program, over an abstract element type *)

Section Program.
  Variable E : Type.
  Variables (mul : E -> E -> E) (sq : E -> E) (expf : E -> Z -> E).
  (* IsZero, and the three inline "== one" tests (Legendre, Sqrt's residue
     test, Sqrt's inner loop) *)
  Variables (isZ isOneL isOneS isOneM : E -> bool).
  Variables (zeroE gE : E).
  Variables (legendreExp sqrtExp r0 : Z).

  Definition glegendre (z : E) : Z :=
    let l := expf z legendreExp in
    if isZ l then 0 else if isOneL l then 1 else -1.

  Fixpoint gsqn (n : nat) (t : E) : E :=
    match n with O => t | S n' => gsqn n' (sq t) end.

  Fixpoint gfind_m (fuel : nat) (t : E) (m : Z) : option Z :=
    match fuel with
    | O => None
    | S f => if isOneM t then Some m else gfind_m f (sq t) (m + 1)
    end.

  Fixpoint gts_loop (fuel : nat) (y b g : E) (r : Z) : option E :=
    match fuel with
    | O => None
    | S f =>
        match gfind_m (Z.to_nat r + 1) b 0 with
        | None => None
        | Some m =>
            if m =? 0 then Some y
            else
              let t := gsqn (Z.to_nat (r - m - 1)) g in
              let g' := sq t in
              gts_loop f (mul y t) (mul b g') g' m
        end
    end.

  Definition gsqrt (x : E) : gsqrt_out E :=
    let w := expf x sqrtExp in
    let y := mul x w in
    let b := mul w y in
    let t := gsqn (Z.to_nat (r0 - 1)) b in
    if isZ t then GSome zeroE
    else if negb (isOneS t) then GNil
    else match gts_loop (Z.to_nat r0 + 1) y b gE r0 with
         | Some z => GSome z
         | None => GOutOfFuel
         end.

  Lemma glegendre_values : forall x,
    glegendre x = 0 \/ glegendre x = 1 \/ glegendre x = -1.
  Proof.
    intros x. unfold glegendre. cbv zeta.
    destruct (isZ _); [ left; reflexivity | ].
    destruct (isOneL _); [ right; left; reflexivity | right; right; reflexivity ].
  Qed.
End Program.

(* ------------------------------------------------------------------ *)
(** * Refinement of Model/SqrtCore.v *)

(* what the instance files have to provide about the limb arithmetic *)
Record sqrt_ops_ok (E : Type)
  (mul : E -> E -> E) (sq : E -> E) (expf : E -> Z -> E)
  (isZ isOneL isOneS isOneM : E -> bool) (zeroE gE : E)
  (legendreExp sqrtExp r0 : Z)
  (p : Z) (canon : E -> Prop) (mval : E -> Z) (g0 : Z) : Prop := {
  so_p_gt_1 : 1 < p;
  so_mval_range : forall x, canon x -> 0 <= mval x < p;
  so_mval_inj : forall a b, canon a -> canon b -> mval a = mval b -> a = b;
  so_mul_ok : forall x y, canon x -> canon y ->
    canon (mul x y) /\ mval (mul x y) = (mval x * mval y) mod p;
  so_sq_ok : forall x, canon x ->
    canon (sq x) /\ mval (sq x) = (mval x * mval x) mod p;
  so_exp_ok : forall x e, canon x -> 0 <= e ->
    canon (expf x e) /\ mval (expf x e) = (mval x ^ e) mod p;
  so_isZ_ok : forall t, canon t -> (isZ t = true <-> mval t = 0);
  so_isOneL_ok : forall t, canon t -> (isOneL t = true <-> mval t = 1);
  so_isOneS_ok : forall t, canon t -> (isOneS t = true <-> mval t = 1);
  so_isOneM_ok : forall t, canon t -> (isOneM t = true <-> mval t = 1);
  so_zero_canon : canon zeroE;
  so_zero_mval : mval zeroE = 0;
  so_g_canon : canon gE;
  so_g_mval : mval gE = g0;
  so_legendreExp_nonneg : 0 <= legendreExp;
  so_sqrtExp_nonneg : 0 <= sqrtExp
}.

Section Refine.
  Context {E : Type}.
  Context {mul : E -> E -> E} {sq : E -> E} {expf : E -> Z -> E}.
  Context {isZ isOneL isOneS isOneM : E -> bool}.
  Context {zeroE gE : E}.
  Context {legendreExp sqrtExp r0 : Z}.
  Context {p : Z} {canon : E -> Prop} {mval : E -> Z} {g0 : Z}.

  Hypothesis OK : sqrt_ops_ok E mul sq expf isZ isOneL isOneS isOneM zeroE gE
                    legendreExp sqrtExp r0 p canon mval g0.

  Let p_gt_1 : 1 < p.
  Proof. destruct OK; assumption. Qed.
  Let mval_range : forall x, canon x -> 0 <= mval x < p.
  Proof. destruct OK; assumption. Qed.
  Let mval_inj : forall a b, canon a -> canon b -> mval a = mval b -> a = b.
  Proof. destruct OK; assumption. Qed.
  Let mul_ok : forall x y, canon x -> canon y ->
    canon (mul x y) /\ mval (mul x y) = (mval x * mval y) mod p.
  Proof. destruct OK; assumption. Qed.
  Let sq_ok : forall x, canon x ->
    canon (sq x) /\ mval (sq x) = (mval x * mval x) mod p.
  Proof. destruct OK; assumption. Qed.
  Let exp_ok : forall x e, canon x -> 0 <= e ->
    canon (expf x e) /\ mval (expf x e) = (mval x ^ e) mod p.
  Proof. destruct OK; assumption. Qed.
  Let isZ_ok : forall t, canon t -> (isZ t = true <-> mval t = 0).
  Proof. destruct OK; assumption. Qed.
  Let isOneL_ok : forall t, canon t -> (isOneL t = true <-> mval t = 1).
  Proof. destruct OK; assumption. Qed.
  Let isOneS_ok : forall t, canon t -> (isOneS t = true <-> mval t = 1).
  Proof. destruct OK; assumption. Qed.
  Let isOneM_ok : forall t, canon t -> (isOneM t = true <-> mval t = 1).
  Proof. destruct OK; assumption. Qed.
  Let zero_canon : canon zeroE.
  Proof. destruct OK; assumption. Qed.
  Let zero_mval : mval zeroE = 0.
  Proof. destruct OK; assumption. Qed.
  Let g_canon : canon gE.
  Proof. destruct OK; assumption. Qed.
  Let g_mval : mval gE = g0.
  Proof. destruct OK; assumption. Qed.
  Let legendreExp_nonneg : 0 <= legendreExp.
  Proof. destruct OK; assumption. Qed.
  Let sqrtExp_nonneg : 0 <= sqrtExp.
  Proof. destruct OK; assumption. Qed.

  Local Notation LEG := (glegendre E expf isZ isOneL legendreExp).
  Local Notation SQN := (gsqn E sq).
  Local Notation FINDM := (gfind_m E sq isOneM).
  Local Notation TSLOOP := (gts_loop E mul sq isOneM).
  Local Notation SQRT := (gsqrt E mul sq expf isZ isOneS isOneM zeroE gE sqrtExp r0).

  Lemma bool_eqb_iff : forall (b : bool) (a c : Z), (b = true <-> a = c) -> b = (a =? c).
  Proof.
    intros b a c H. apply Bool.eq_iff_eq_true. rewrite Z.eqb_eq. exact H.
  Qed.

  Lemma p_pos : 0 < p.
  Proof. lia. Qed.

  Lemma exp_powmod : forall x e, canon x -> 0 <= e ->
    canon (expf x e) /\ mval (expf x e) = powmod (mval x) e p.
  Proof.
    intros x e Hx He. destruct (exp_ok x e Hx He) as [C M]. split; [ exact C | ].
    rewrite M. symmetry. apply powmod_spec; [ exact He | exact p_pos ].
  Qed.

  Theorem glegendre_refine : forall x, canon x ->
    LEG x = legendre_model p legendreExp (mval x).
  Proof.
    intros x Hx. unfold glegendre, legendre_model. cbv zeta.
    destruct (exp_powmod x legendreExp Hx legendreExp_nonneg) as [C M].
    rewrite (bool_eqb_iff _ _ _ (isZ_ok _ C)).
    rewrite (bool_eqb_iff _ _ _ (isOneL_ok _ C)).
    rewrite M. reflexivity.
  Qed.

  Lemma gsqn_refine : forall n t, canon t ->
    canon (SQN n t) /\ mval (SQN n t) = sqn p n (mval t).
  Proof.
    induction n as [ | n IH]; intros t Ht; cbn [gsqn sqn].
    - split; [ exact Ht | reflexivity ].
    - destruct (sq_ok t Ht) as [C M].
      destruct (IH (sq t) C) as [C' M'].
      split; [ exact C' | ]. rewrite M', M. reflexivity.
  Qed.

  Lemma gfind_m_refine : forall fuel t m, canon t ->
    FINDM fuel t m = find_m p fuel (mval t) m.
  Proof.
    induction fuel as [ | f IH]; intros t m Ht; cbn [gfind_m find_m]; [ reflexivity | ].
    rewrite (bool_eqb_iff _ _ _ (isOneM_ok _ Ht)).
    destruct (mval t =? 1); [ reflexivity | ].
    destruct (sq_ok t Ht) as [C M].
    rewrite (IH (sq t) (m + 1) C), M. reflexivity.
  Qed.

  Lemma gts_loop_refine : forall fuel y b g r, canon y -> canon b -> canon g ->
    match TSLOOP fuel y b g r with
    | Some z => canon z /\ ts_loop p fuel (mval y) (mval b) (mval g) r = Some (mval z)
    | None => ts_loop p fuel (mval y) (mval b) (mval g) r = None
    end.
  Proof.
    induction fuel as [ | f IH]; intros y b g r Hy Hb Hg; cbn [gts_loop ts_loop];
      [ reflexivity | ].
    rewrite (gfind_m_refine _ b 0 Hb).
    destruct (find_m p (Z.to_nat r + 1) (mval b) 0) as [ m | ]; [ | reflexivity ].
    destruct (m =? 0); [ split; [ exact Hy | reflexivity ] | ].
    cbv zeta.
    destruct (gsqn_refine (Z.to_nat (r - m - 1)) g Hg) as [Ct Mt].
    destruct (sq_ok _ Ct) as [Cg' Mg'].
    destruct (mul_ok y _ Hy Ct) as [C1 M1].
    destruct (mul_ok b _ Hb Cg') as [C2 M2].
    pose proof (IH _ _ _ m C1 C2 Cg') as H.
    rewrite M1, M2, Mg', Mt in H. exact H.
  Qed.

  Theorem gsqrt_refine : forall x, canon x ->
    match SQRT x with
    | GSome z => canon z /\ sqrt_model p sqrtExp g0 r0 (mval x) = SqrtOk (mval z)
    | GNil => sqrt_model p sqrtExp g0 r0 (mval x) = SqrtNone
    | GOutOfFuel => sqrt_model p sqrtExp g0 r0 (mval x) = SqrtOutOfFuel
    end.
  Proof.
    intros x Hx. unfold gsqrt, sqrt_model. cbv zeta.
    destruct (exp_powmod x sqrtExp Hx sqrtExp_nonneg) as [Cw Mw].
    destruct (mul_ok x _ Hx Cw) as [Cy My].
    destruct (mul_ok _ _ Cw Cy) as [Cb Mb].
    destruct (gsqn_refine (Z.to_nat (r0 - 1)) _ Cb) as [Ct Mt].
    fold (fm p (mval x) (mval (expf x sqrtExp))) in My.
    fold (fm p (mval (expf x sqrtExp)) (mval (mul x (expf x sqrtExp)))) in Mb.
    rewrite <- Mw, <- My, <- Mb, <- Mt.
    rewrite (bool_eqb_iff _ _ _ (isZ_ok _ Ct)).
    rewrite (bool_eqb_iff _ _ _ (isOneS_ok _ Ct)).
    destruct (mval _ =? 0); [ split; [ exact zero_canon | rewrite zero_mval; reflexivity ] | ].
    destruct (mval _ =? 1); cbn [negb]; [ | reflexivity ].
    pose proof (gts_loop_refine (Z.to_nat r0 + 1) _ _ gE r0 Cy Cb g_canon) as H.
    rewrite g_mval in H.
    destruct (TSLOOP _ _ _ _ _) as [ z | ].
    - destruct H as [Cz H]. split; [ exact Cz | ]. rewrite H. reflexivity.
    - rewrite H. reflexivity.
  Qed.

  (* the three shapes asked for *)
  Corollary gsqrt_refine_some : forall x z, canon x -> SQRT x = GSome z ->
    canon z /\ sqrt_model p sqrtExp g0 r0 (mval x) = SqrtOk (mval z).
  Proof.
    intros x z Hx H. pose proof (gsqrt_refine x Hx) as R. rewrite H in R. exact R.
  Qed.

  Corollary gsqrt_refine_nil : forall x, canon x ->
    (SQRT x = GNil <-> sqrt_model p sqrtExp g0 r0 (mval x) = SqrtNone).
  Proof.
    intros x Hx. pose proof (gsqrt_refine x Hx) as R. split.
    - intros H. rewrite H in R. exact R.
    - intros H. destruct (SQRT x) as [ z | | ].
      + destruct R as [_ R]. rewrite R in H. discriminate H.
      + reflexivity.
      + rewrite R in H. discriminate H.
  Qed.

  Corollary gsqrt_refine_fuel : forall x, canon x ->
    (SQRT x = GOutOfFuel <-> sqrt_model p sqrtExp g0 r0 (mval x) = SqrtOutOfFuel).
  Proof.
    intros x Hx. pose proof (gsqrt_refine x Hx) as R. split.
    - intros H. rewrite H in R. exact R.
    - intros H. destruct (SQRT x) as [ z | | ].
      + destruct R as [_ R]. rewrite R in H. discriminate H.
      + rewrite R in H. discriminate H.
      + reflexivity.
  Qed.

  (* ---------------------------------------------------------------- *)
  (** * Correctness, given the Tonelli-Shanks results for the constants *)

  Hypothesis TS : ts_results p r0 legendreExp sqrtExp g0.

  Theorem glegendre_correct : forall x, canon x ->
    (LEG x = 0 <-> mval x = 0) /\
    (LEG x = 1 <-> (mval x <> 0 /\ exists r, (r * r) mod p = mval x)) /\
    (LEG x = -1 <-> (forall r, (r * r) mod p <> mval x)).
  Proof.
    intros x Hx. rewrite (glegendre_refine x Hx).
    destruct TS as (HL & _). exact (HL (mval x) (mval_range x Hx)).
  Qed.

  Theorem gsqrt_total : forall x, canon x -> SQRT x <> GOutOfFuel.
  Proof.
    intros x Hx H. apply (gsqrt_refine_fuel x Hx) in H.
    destruct TS as (_ & _ & _ & _ & HT & _).
    exact (HT (mval x) (mval_range x Hx) H).
  Qed.

  Theorem gsqrt_square_correct : forall x, canon x ->
    (exists r, (r * r) mod p = mval x) ->
    exists z, SQRT x = GSome z /\ canon z /\ (mval z * mval z) mod p = mval x.
  Proof.
    intros x Hx Hsq.
    destruct TS as (_ & _ & HS & _).
    destruct (HS (mval x) (mval_range x Hx) Hsq) as (v & Hv & _ & Hvv).
    pose proof (gsqrt_refine x Hx) as R.
    destruct (SQRT x) as [ z | | ].
    - destruct R as [Cz R]. exists z. split; [ reflexivity | ]. split; [ exact Cz | ].
      rewrite R in Hv. injection Hv as Hv. rewrite Hv. exact Hvv.
    - rewrite R in Hv. discriminate Hv.
    - rewrite R in Hv. discriminate Hv.
  Qed.

  Theorem gsqrt_zero_correct : forall x, canon x -> mval x = 0 -> SQRT x = GSome zeroE.
  Proof.
    intros x Hx H0.
    destruct TS as (_ & HZ & _).
    pose proof (gsqrt_refine x Hx) as R. rewrite H0 in R.
    destruct (SQRT x) as [ z | | ].
    - destruct R as [Cz R]. rewrite HZ in R. injection R as R.
      f_equal. apply mval_inj; [ exact Cz | exact zero_canon | ].
      rewrite zero_mval. symmetry. exact R.
    - rewrite HZ in R. discriminate R.
    - rewrite HZ in R. discriminate R.
  Qed.

  Theorem gsqrt_nonsquare_correct : forall x, canon x ->
    (forall r, (r * r) mod p <> mval x) -> SQRT x = GNil.
  Proof.
    intros x Hx Hns. apply (gsqrt_refine_nil x Hx).
    destruct TS as (_ & _ & _ & HN & _).
    exact (HN (mval x) (mval_range x Hx) Hns).
  Qed.

  (* the converse directions, for completeness: the outcome of Sqrt decides
     squareness *)
  Theorem gsqrt_some_square : forall x z, canon x -> SQRT x = GSome z ->
    canon z /\ (mval z * mval z) mod p = mval x.
  Proof.
    intros x z Hx H.
    destruct (gsqrt_refine_some x z Hx H) as [Cz R]. split; [ exact Cz | ].
    destruct (Z.eq_dec ((mval z * mval z) mod p) (mval x)) as [ Heq | Hne ]; [ exact Heq | ].
    exfalso.
    (* either x is a square, and the model returns a root which must be mval z,
       or it is not and the model returns SqrtNone *)
    destruct TS as (HL & _ & HS & HN & _).
    destruct (HL (mval x) (mval_range x Hx)) as (_ & H1 & Hm1).
    destruct (glegendre_values E expf isZ isOneL legendreExp x) as [ L0 | [ L1 | Lm1 ] ].
    - rewrite (glegendre_refine x Hx) in L0.
      destruct (HL (mval x) (mval_range x Hx)) as (H0 & _ & _).
      apply (proj1 H0) in L0.
      destruct (HS (mval x) (mval_range x Hx)) as (v & Hv & _ & Hvv).
      { exists 0. rewrite L0. apply Z.mod_0_l. lia. }
      rewrite R in Hv. injection Hv as Hv. apply Hne. rewrite Hv. exact Hvv.
    - rewrite (glegendre_refine x Hx) in L1. destruct (proj1 H1 L1) as [_ Hex].
      destruct (HS (mval x) (mval_range x Hx) Hex) as (v & Hv & _ & Hvv).
      rewrite R in Hv. injection Hv as Hv. apply Hne. rewrite Hv. exact Hvv.
    - rewrite (glegendre_refine x Hx) in Lm1.
      rewrite (HN (mval x) (mval_range x Hx) (proj1 Hm1 Lm1)) in R. discriminate R.
  Qed.

  Theorem gsqrt_nil_nonsquare : forall x, canon x -> SQRT x = GNil ->
    forall r, (r * r) mod p <> mval x.
  Proof.
    intros x Hx H r Hr.
    destruct (gsqrt_square_correct x Hx (ex_intro _ r Hr)) as (z & Hz & _).
    rewrite H in Hz. discriminate Hz.
  Qed.
End Refine.

Print Assumptions glegendre_refine.
Print Assumptions gsqrt_refine.
Print Assumptions glegendre_correct.
Print Assumptions gsqrt_square_correct.
Print Assumptions gsqrt_zero_correct.
Print Assumptions gsqrt_nonsquare_correct.
Print Assumptions gsqrt_total.
Print Assumptions gsqrt_some_square.
Print Assumptions gsqrt_nil_nonsquare.

(* C11, text part: decimal printing (big.Int.String / strconv.FormatUint) and
   parsing (big.Int.SetString(s, 10)) as modelled in Lib/Decimal.v.

   - [parse_dec (dec_of_Z v) = Some v] for every integer v;
   - [dec_of_nonneg v] consists of decimal digits only, is never empty and has
     no leading zero unless v = 0 (where it is "0");
   - [parse_dec s = Some v] iff s is an optional sign ('+' or '-') followed by
     at least one decimal digit (and nothing else), v being the signed value;
   - [parse_dec] rejects the empty string, a lone sign, and any string that
     contains a non-digit (other than a leading sign). *)
From Coq Require Import ZArith List Bool Lia.
From Verif Require Import Lib.Octets Lib.Decimal.
Import ListNotations.
Local Open Scope Z_scope.

Local Ltac Zify.zify_post_hook ::= Z.div_mod_to_equations.

(* ------------------------------------------------------------------ *)
(** * Digits *)

Definition digitP (c : Z) : Prop := 48 <= c <= 57.

Lemma is_digit_spec c : is_digit c = true <-> digitP c.
Proof.
  unfold is_digit, digitP. rewrite andb_true_iff, !Z.leb_le. reflexivity.
Qed.

Lemma is_digit_false c : is_digit c = false <-> ~ digitP c.
Proof.
  rewrite <- is_digit_spec. destruct (is_digit c).
  - split; [ discriminate | intros H; exfalso; apply H; reflexivity ].
  - split; [ intros _ H; discriminate | reflexivity ].
Qed.

(* value of a digit string read most significant first, starting from [acc] *)
Definition digits_from (acc : Z) (cs : bytes) : Z :=
  fold_left (fun a c => 10 * a + (c - 48)) cs acc.
Definition digits_val (cs : bytes) : Z := digits_from 0 cs.

Lemma digits_from_cons acc c r :
  digits_from acc (c :: r) = digits_from (10 * acc + (c - 48)) r.
Proof. reflexivity. Qed.

Lemma digits_from_app acc a b :
  digits_from acc (a ++ b) = digits_from (digits_from acc a) b.
Proof. unfold digits_from. apply fold_left_app. Qed.

Lemma digits_from_nonneg : forall cs acc, Forall digitP cs -> 0 <= acc ->
  0 <= digits_from acc cs.
Proof.
  induction cs as [|c r IH]; intros acc H Hacc; [ exact Hacc | ].
  rewrite digits_from_cons. inversion H as [|? ? Hc Hr]; subst.
  apply IH; [ exact Hr | ]. unfold digitP in Hc. lia.
Qed.

Lemma digits_val_nonneg cs : Forall digitP cs -> 0 <= digits_val cs.
Proof. intros H. apply digits_from_nonneg; [ exact H | lia ]. Qed.

(* ------------------------------------------------------------------ *)
(** * parse_digits *)

Lemma parse_digits_cons acc c r :
  parse_digits acc (c :: r) =
  if is_digit c then parse_digits (10 * acc + (c - 48)) r else None.
Proof. reflexivity. Qed.

Lemma parse_digits_some_iff : forall cs acc v,
  parse_digits acc cs = Some v <-> Forall digitP cs /\ v = digits_from acc cs.
Proof.
  induction cs as [|c r IH]; intros acc v.
  - cbn [parse_digits]. unfold digits_from. cbn [fold_left]. split.
    + intros H. inversion H. split; [ constructor | reflexivity ].
    + intros [_ H]. rewrite H. reflexivity.
  - rewrite parse_digits_cons, digits_from_cons.
    destruct (is_digit c) eqn:Ec.
    + rewrite IH. apply is_digit_spec in Ec. split.
      * intros [H1 H2]. split; [ constructor; assumption | exact H2 ].
      * intros [H1 H2]. inversion H1; subst. split; [ assumption | reflexivity ].
    + apply is_digit_false in Ec. split; [ discriminate | ].
      intros [H _]. inversion H; subst. contradiction.
Qed.

Lemma parse_digits_digits acc cs : Forall digitP cs ->
  parse_digits acc cs = Some (digits_from acc cs).
Proof. intros H. apply parse_digits_some_iff. split; [ exact H | reflexivity ]. Qed.

Lemma parse_digits_none_iff : forall cs acc,
  parse_digits acc cs = None <-> exists c, In c cs /\ is_digit c = false.
Proof.
  induction cs as [|c r IH]; intros acc.
  - cbn [parse_digits]. split; [ discriminate | ]. intros (c & [] & _).
  - rewrite parse_digits_cons. destruct (is_digit c) eqn:Ec.
    + rewrite IH. split.
      * intros (x & Hx & Ex). exists x. split; [ right; exact Hx | exact Ex ].
      * intros (x & [Hx | Hx] & Ex).
        -- subst x. rewrite Ec in Ex. discriminate.
        -- exists x. split; assumption.
    + split; [ | reflexivity ]. intros _. exists c. split; [ left; reflexivity | exact Ec ].
Qed.

Lemma parse_digits_app acc a b :
  parse_digits acc (a ++ b) =
  match parse_digits acc a with Some v => parse_digits v b | None => None end.
Proof.
  revert acc. induction a as [|c r IH]; intros acc; [ reflexivity | ].
  cbn [app]. rewrite !parse_digits_cons. destruct (is_digit c); [ apply IH | reflexivity ].
Qed.

(* ------------------------------------------------------------------ *)
(** * parse_dec: the sign dispatch, in readable form *)

Lemma parse_dec_cons c r :
  parse_dec (c :: r) =
  if c =? 45 then
    match r with
    | [] => None
    | _ :: _ => match parse_digits 0 r with Some v => Some (- v) | None => None end
    end
  else if c =? 43 then
    match r with [] => None | _ :: _ => parse_digits 0 r end
  else parse_digits 0 (c :: r).
Proof.
  destruct c as [|p|p]; try reflexivity.
  do 7 (try destruct p as [p|p|]); try reflexivity; destruct r; reflexivity.
Qed.

Lemma parse_dec_nil : parse_dec [] = None.
Proof. reflexivity. Qed.

Lemma parse_dec_unsigned c r : c <> 45 -> c <> 43 ->
  parse_dec (c :: r) = parse_digits 0 (c :: r).
Proof.
  intros H1 H2. rewrite parse_dec_cons.
  destruct (Z.eqb_spec c 45); [ contradiction | ].
  destruct (Z.eqb_spec c 43); [ contradiction | ]. reflexivity.
Qed.

Lemma parse_dec_minus r : r <> [] ->
  parse_dec (45 :: r) = match parse_digits 0 r with Some v => Some (- v) | None => None end.
Proof.
  intros H. rewrite parse_dec_cons. cbn [Z.eqb Pos.eqb].
  destruct r; [ contradiction | reflexivity ].
Qed.

Lemma parse_dec_plus r : r <> [] -> parse_dec (43 :: r) = parse_digits 0 r.
Proof.
  intros H. rewrite parse_dec_cons. cbn [Z.eqb Pos.eqb].
  destruct r; [ contradiction | reflexivity ].
Qed.

(* a digit string (non-empty) parses to its value *)
Lemma parse_dec_digits ds : ds <> [] -> Forall digitP ds ->
  parse_dec ds = Some (digits_val ds).
Proof.
  intros Hne Hd. destruct ds as [|c r]; [ contradiction | ].
  assert (Hc : digitP c) by (inversion Hd; assumption).
  rewrite parse_dec_unsigned by (unfold digitP in Hc; lia).
  apply parse_digits_digits. exact Hd.
Qed.

Lemma parse_dec_minus_digits ds : ds <> [] -> Forall digitP ds ->
  parse_dec (45 :: ds) = Some (- digits_val ds).
Proof.
  intros Hne Hd. rewrite parse_dec_minus by exact Hne.
  rewrite parse_digits_digits by exact Hd. reflexivity.
Qed.

Lemma parse_dec_plus_digits ds : ds <> [] -> Forall digitP ds ->
  parse_dec (43 :: ds) = Some (digits_val ds).
Proof.
  intros Hne Hd. rewrite parse_dec_plus by exact Hne.
  apply parse_digits_digits. exact Hd.
Qed.

(* ------------------------------------------------------------------ *)
(** * Characterisation of the accepted strings *)

(* s is an optional sign followed by >= 1 digits, v its signed value *)
Definition dec_syntax (s : bytes) (v : Z) : Prop :=
  exists ds, ds <> [] /\ Forall digitP ds /\
    ((s = ds /\ v = digits_val ds) \/
     (s = 43 :: ds /\ v = digits_val ds) \/
     (s = 45 :: ds /\ v = - digits_val ds)).

Theorem parse_dec_some_iff : forall s v, parse_dec s = Some v <-> dec_syntax s v.
Proof.
  intros s v. split.
  - destruct s as [|c r]; [ discriminate | ].
    rewrite parse_dec_cons.
    destruct (Z.eqb_spec c 45) as [E45 | N45]; [ | destruct (Z.eqb_spec c 43) as [E43 | N43] ].
    + subst c. destruct r as [|d r']; [ discriminate | ].
      destruct (parse_digits 0 (d :: r')) as [w|] eqn:Ep; [ | discriminate ].
      intros H. inversion H; subst v. apply parse_digits_some_iff in Ep.
      destruct Ep as [Hd Hw]. exists (d :: r'). split; [ discriminate | ].
      split; [ exact Hd | ]. right. right. split; [ reflexivity | ].
      rewrite Hw. reflexivity.
    + subst c. destruct r as [|d r']; [ discriminate | ].
      intros Ep. apply parse_digits_some_iff in Ep.
      destruct Ep as [Hd Hw]. exists (d :: r'). split; [ discriminate | ].
      split; [ exact Hd | ]. right. left. split; [ reflexivity | exact Hw ].
    + intros Ep. apply parse_digits_some_iff in Ep.
      destruct Ep as [Hd Hw]. exists (c :: r). split; [ discriminate | ].
      split; [ exact Hd | ]. left. split; [ reflexivity | exact Hw ].
  - intros (ds & Hne & Hd & [[Hs Hv] | [[Hs Hv] | [Hs Hv]]]); subst s v.
    + apply parse_dec_digits; assumption.
    + apply parse_dec_plus_digits; assumption.
    + apply parse_dec_minus_digits; assumption.
Qed.

(* the shape alone: an accepted string is [sign] ++ digits *)
Corollary parse_dec_shape : forall s v, parse_dec s = Some v ->
  exists sign ds, s = sign ++ ds /\ (sign = [] \/ sign = [43] \/ sign = [45]) /\
                  ds <> [] /\ Forall digitP ds /\
                  v = (if list_eq_dec Z.eq_dec sign [45] then - digits_val ds else digits_val ds).
Proof.
  intros s v H. apply parse_dec_some_iff in H.
  destruct H as (ds & Hne & Hd & [[Hs Hv] | [[Hs Hv] | [Hs Hv]]]); subst s v.
  - exists [], ds. repeat split; try assumption. left. reflexivity.
  - exists [43], ds. repeat split; try assumption. right. left. reflexivity.
  - exists [45], ds. repeat split; try assumption. right. right. reflexivity.
Qed.

(* ------------------------------------------------------------------ *)
(** * Rejections *)

Theorem parse_dec_rejects_empty : parse_dec [] = None.
Proof. reflexivity. Qed.

Theorem parse_dec_rejects_lone_minus : parse_dec [45] = None.
Proof. reflexivity. Qed.

Theorem parse_dec_rejects_lone_plus : parse_dec [43] = None.
Proof. reflexivity. Qed.

(* a non-digit anywhere after the first character *)
Theorem parse_dec_rejects_nondigit_tail : forall c r x,
  In x r -> is_digit x = false -> parse_dec (c :: r) = None.
Proof.
  intros c r x Hin Hx.
  assert (Hr : forall acc, parse_digits acc r = None).
  { intros acc. apply parse_digits_none_iff. exists x. split; assumption. }
  rewrite parse_dec_cons.
  destruct (c =? 45); [ | destruct (c =? 43) ].
  - destruct r; [ reflexivity | ]. rewrite Hr. reflexivity.
  - destruct r; [ reflexivity | ]. apply Hr.
  - rewrite parse_digits_cons. destruct (is_digit c); [ apply Hr | reflexivity ].
Qed.

(* a first character that is neither a digit nor a sign *)
Theorem parse_dec_rejects_nondigit_head : forall c r,
  is_digit c = false -> c <> 45 -> c <> 43 -> parse_dec (c :: r) = None.
Proof.
  intros c r Hc H1 H2. rewrite parse_dec_unsigned by assumption.
  rewrite parse_digits_cons, Hc. reflexivity.
Qed.

(* summary: every character of an accepted string is a digit, except possibly
   a sign in first position *)
Corollary parse_dec_chars : forall s v, parse_dec s = Some v ->
  match s with
  | [] => False
  | c :: r => (digitP c \/ ((c = 43 \/ c = 45) /\ r <> [])) /\ Forall digitP r
  end.
Proof.
  intros s v H. apply parse_dec_some_iff in H.
  destruct H as (ds & Hne & Hd & [[Hs Hv] | [[Hs Hv] | [Hs Hv]]]); subst s v.
  - destruct ds as [|c r]; [ contradiction | ]. inversion Hd; subst.
    split; [ left; assumption | assumption ].
  - split; [ right; split; [ left; reflexivity | exact Hne ] | exact Hd ].
  - split; [ right; split; [ right; reflexivity | exact Hne ] | exact Hd ].
Qed.

Corollary parse_dec_none_iff : forall s, parse_dec s = None <-> forall v, ~ dec_syntax s v.
Proof.
  intros s. split.
  - intros H v Hs. apply parse_dec_some_iff in Hs. rewrite H in Hs. discriminate.
  - intros H. destruct (parse_dec s) as [v|] eqn:E; [ | reflexivity ].
    exfalso. apply (H v). apply parse_dec_some_iff. exact E.
Qed.

(* ------------------------------------------------------------------ *)
(** * Printing: dec_digits_rev *)

Lemma dec_digits_rev_S f v :
  dec_digits_rev (S f) v =
  if v <=? 0 then [] else (48 + v mod 10) :: dec_digits_rev f (v / 10).
Proof. reflexivity. Qed.

Lemma pow2_S f : 2 ^ Z.of_nat (S f) = 2 * 2 ^ Z.of_nat f.
Proof. rewrite Nat2Z.inj_succ, Z.pow_succ_r by lia. reflexivity. Qed.

Lemma dec_digits_rev_digits : forall f v, Forall digitP (dec_digits_rev f v).
Proof.
  induction f as [|f IH]; intros v; [ constructor | ].
  rewrite dec_digits_rev_S. destruct (v <=? 0); constructor; [ | apply IH ].
  unfold digitP. lia.
Qed.

(* with enough fuel, reading the printed digits (after any prefix value 0)
   gives back v *)
Lemma parse_rev_digits : forall f v, 0 <= v < 2 ^ Z.of_nat f ->
  forall tail, parse_digits 0 (rev (dec_digits_rev f v) ++ tail) = parse_digits v tail.
Proof.
  induction f as [|f IH]; intros v Hv tail.
  - change (2 ^ Z.of_nat 0) with 1 in Hv. assert (v = 0) by lia. subst v. reflexivity.
  - rewrite dec_digits_rev_S. rewrite pow2_S in Hv.
    destruct (Z.leb_spec v 0) as [Hle | Hgt].
    + assert (v = 0) by lia. subst v. reflexivity.
    + cbn [rev]. rewrite <- app_assoc. rewrite IH by lia.
      cbn [app]. rewrite parse_digits_cons.
      assert (Hd : is_digit (48 + v mod 10) = true).
      { apply is_digit_spec. unfold digitP. lia. }
      rewrite Hd. f_equal. lia.
Qed.

(* with enough fuel the most significant digit is not '0' *)
Lemma dec_digits_rev_last : forall f v, 0 < v < 2 ^ Z.of_nat f ->
  exists l d, dec_digits_rev f v = l ++ [d] /\ 49 <= d <= 57.
Proof.
  induction f as [|f IH]; intros v Hv.
  - change (2 ^ Z.of_nat 0) with 1 in Hv. lia.
  - rewrite dec_digits_rev_S. rewrite pow2_S in Hv.
    destruct (Z.leb_spec v 0) as [Hle | Hgt]; [ lia | ].
    destruct (Z_lt_le_dec v 10) as [Hs | Hb].
    + exists [], (48 + v mod 10). split; [ | lia ].
      replace (v / 10) with 0 by lia.
      destruct f; reflexivity.
    + destruct (IH (v / 10)) as (l & d & El & Hd); [ lia | ].
      exists ((48 + v mod 10) :: l), d. split; [ | exact Hd ].
      rewrite El. reflexivity.
Qed.

Lemma log2_fuel v : 0 < v -> 0 <= v < 2 ^ Z.of_nat (S (Z.to_nat (Z.log2 v))).
Proof.
  intros Hv. split; [ lia | ].
  rewrite Nat2Z.inj_succ, Z2Nat.id by apply Z.log2_nonneg.
  apply Z.log2_spec. exact Hv.
Qed.

(* ------------------------------------------------------------------ *)
(** * dec_of_nonneg *)

Lemma dec_of_nonneg_zero : forall v, v <= 0 -> dec_of_nonneg v = [48].
Proof.
  intros v Hv. unfold dec_of_nonneg.
  destruct (Z.leb_spec v 0); [ reflexivity | lia ].
Qed.

Lemma dec_of_nonneg_pos : forall v, 0 < v ->
  dec_of_nonneg v = rev (dec_digits_rev (S (Z.to_nat (Z.log2 v))) v).
Proof.
  intros v Hv. unfold dec_of_nonneg.
  destruct (Z.leb_spec v 0); [ lia | reflexivity ].
Qed.

Theorem dec_of_nonneg_digits : forall v, Forall digitP (dec_of_nonneg v).
Proof.
  intros v. destruct (Z_le_gt_dec v 0) as [H | H].
  - rewrite dec_of_nonneg_zero by exact H. constructor; [ unfold digitP; lia | constructor ].
  - rewrite dec_of_nonneg_pos by lia. apply Forall_rev. apply dec_digits_rev_digits.
Qed.

Theorem dec_of_nonneg_nonempty : forall v, dec_of_nonneg v <> [].
Proof.
  intros v. destruct (Z_le_gt_dec v 0) as [H | H].
  - rewrite dec_of_nonneg_zero by exact H. discriminate.
  - rewrite dec_of_nonneg_pos by lia.
    destruct (dec_digits_rev_last (S (Z.to_nat (Z.log2 v))) v) as (l & d & El & _).
    { pose proof (log2_fuel v). lia. }
    rewrite El, rev_app_distr. discriminate.
Qed.

(* no leading zero unless the number is zero *)
Theorem dec_of_nonneg_no_leading_zero : forall v, 0 < v ->
  exists d r, dec_of_nonneg v = d :: r /\ 49 <= d <= 57.
Proof.
  intros v Hv. rewrite dec_of_nonneg_pos by exact Hv.
  destruct (dec_digits_rev_last (S (Z.to_nat (Z.log2 v))) v) as (l & d & El & Hd).
  { pose proof (log2_fuel v). lia. }
  exists d, (rev l). split; [ | exact Hd ].
  rewrite El, rev_app_distr. reflexivity.
Qed.

Corollary dec_of_nonneg_hd : forall v, 0 < v -> hd 0 (dec_of_nonneg v) <> 48.
Proof.
  intros v Hv. destruct (dec_of_nonneg_no_leading_zero v Hv) as (d & r & E & Hd).
  rewrite E. cbn [hd]. lia.
Qed.

Corollary dec_of_nonneg_leading_zero_iff : forall v,
  hd 0 (dec_of_nonneg v) = 48 <-> v <= 0.
Proof.
  intros v. split.
  - intros H. destruct (Z_le_gt_dec v 0) as [Hle | Hgt]; [ exact Hle | ].
    exfalso. apply (dec_of_nonneg_hd v); [ lia | exact H ].
  - intros H. rewrite dec_of_nonneg_zero by exact H. reflexivity.
Qed.

Theorem digits_val_dec_of_nonneg : forall v, 0 <= v -> digits_val (dec_of_nonneg v) = v.
Proof.
  intros v Hv.
  assert (H : parse_digits 0 (dec_of_nonneg v) = Some v).
  { destruct (Z.eq_dec v 0) as [E | E].
    - subst v. reflexivity.
    - rewrite dec_of_nonneg_pos by lia.
      rewrite <- (app_nil_r (rev _)).
      rewrite parse_rev_digits by (apply log2_fuel; lia). reflexivity. }
  apply parse_digits_some_iff in H. destruct H as [_ H]. symmetry. exact H.
Qed.

(* ------------------------------------------------------------------ *)
(** * Round trip: print then parse *)

Theorem parse_dec_dec_of_nonneg : forall v, 0 <= v -> parse_dec (dec_of_nonneg v) = Some v.
Proof.
  intros v Hv.
  rewrite parse_dec_digits by (apply dec_of_nonneg_nonempty || apply dec_of_nonneg_digits).
  rewrite digits_val_dec_of_nonneg by exact Hv. reflexivity.
Qed.

(* "-" followed by the digits of m >= 0 reads as -m (also "-0" = 0) *)
Theorem parse_dec_minus_dec_of_nonneg : forall m, 0 <= m ->
  parse_dec (45 :: dec_of_nonneg m) = Some (- m).
Proof.
  intros m Hm.
  rewrite parse_dec_minus_digits by (apply dec_of_nonneg_nonempty || apply dec_of_nonneg_digits).
  rewrite digits_val_dec_of_nonneg by exact Hm. reflexivity.
Qed.

Theorem parse_dec_dec_of_Z : forall v, parse_dec (dec_of_Z v) = Some v.
Proof.
  intros v. unfold dec_of_Z. destruct (Z.ltb_spec v 0) as [H | H].
  - rewrite parse_dec_minus_dec_of_nonneg by lia. f_equal. lia.
  - apply parse_dec_dec_of_nonneg. exact H.
Qed.

(* printing is injective on integers *)
Corollary dec_of_Z_inj : forall v w, dec_of_Z v = dec_of_Z w -> v = w.
Proof.
  intros v w H. pose proof (parse_dec_dec_of_Z v) as Hv.
  rewrite H, parse_dec_dec_of_Z in Hv. inversion Hv. reflexivity.
Qed.

(* the printed form is accepted syntax: optional '-' then digits, no leading
   zero unless the value is 0, never "-0" *)
Theorem dec_of_Z_shape : forall v,
  (0 <= v -> dec_of_Z v = dec_of_nonneg v) /\
  (v < 0 -> dec_of_Z v = 45 :: dec_of_nonneg (- v)).
Proof.
  intros v. unfold dec_of_Z. destruct (Z.ltb_spec v 0); split; intros; try lia; reflexivity.
Qed.

Print Assumptions parse_dec_dec_of_Z.
Print Assumptions parse_dec_some_iff.
Print Assumptions parse_dec_shape.
Print Assumptions parse_dec_chars.
Print Assumptions parse_dec_none_iff.
Print Assumptions parse_dec_rejects_nondigit_tail.
Print Assumptions parse_dec_rejects_nondigit_head.
Print Assumptions dec_of_nonneg_digits.
Print Assumptions dec_of_nonneg_nonempty.
Print Assumptions dec_of_nonneg_no_leading_zero.
Print Assumptions dec_of_nonneg_leading_zero_iff.
Print Assumptions digits_val_dec_of_nonneg.
Print Assumptions parse_dec_minus_dec_of_nonneg.
Print Assumptions dec_of_Z_inj.

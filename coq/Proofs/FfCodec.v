(* C11 (BN254 part): integer / byte / text codecs and comparisons of ff.Element,
   on the four-limb model Model/FfLimbs.v + Model/FfConv.v.

   SetBigInt (any integer), SetBytes (any length), SetString (any decimal
   text) yield the canonical Montgomery representative of the residue mod q;
   ToBigIntRegular, Bytes (32 bytes, big endian) and String return the
   canonical value in [0,q) -- String prints values in (q - 2^64, q) that are
   not themselves below 2^64 with a leading minus; every there-and-back
   conversion is the identity on field values; Equal / IsZero / Cmp /
   LexicographicallyLargest agree with the canonical integers.

   Rests on the finished limb-arithmetic files Proofs/FfWords.v, FfEl.v,
   FfArith.v only (toMont_correct_gen, fromMont_correct, sub4 lemmas); the
   fact about Neg needed by String is re-derived here from FfEl.v, so the
   file has no Section hypotheses. *)
From Coq Require Import ZArith List Bool Lia Morphisms Setoid.
From Verif Require Import Lib.Params Lib.Words Lib.Octets Lib.Decimal Model.Outcome
  Model.FfLimbs Model.FfConv.
From Verif Require Import Proofs.OctetsProofs Proofs.DecimalProofs
  Proofs.FfWords Proofs.FfEl Proofs.FfArith.
From Verif Require Gen.FfConsts.
Import ListNotations.
Local Open Scope Z_scope.

Local Ltac Zify.zify_post_hook ::= Z.div_mod_to_equations.

(* ------------------------------------------------------------------ *)
(** * Constants (checked by computation before q is made opaque) *)

Lemma modulus_eq : modulus = q.
Proof. reflexivity. Qed.

(* the literal words of LexicographicallyLargest, as an element *)
Definition lexEl : el :=
  let h := FfConsts.biglits_Element_LexicographicallyLargest in
  (nth 0 h 0, nth 1 h 0, nth 2 h 0, nth 3 h 0).

Lemma lex_lit_ok : limbs_ok lexEl /\ val lexEl = (q - 1) / 2 + 1.
Proof.
  split.
  - unfold limbs_ok, lexEl, u64. vm_compute. repeat split; discriminate.
  - vm_compute. reflexivity.
Qed.

Lemma lex_len : length FfConsts.biglits_Element_LexicographicallyLargest = 4%nat.
Proof. reflexivity. Qed.

Lemma q_lt_WW : q < WW.
Proof. reflexivity. Qed.

Lemma W_lt_q : W < q.
Proof. reflexivity. Qed.

Lemma pow256_8 : 256 ^ Z.of_nat 8 = W.
Proof. reflexivity. Qed.

Lemma pow256_32_WW : 256 ^ Z.of_nat 32 = WW.
Proof. reflexivity. Qed.

Local Opaque q.
Local Opaque fromMontGeneric negGeneric mulGeneric.

(* ------------------------------------------------------------------ *)
(** * big.Int words <-> limbs *)

Lemma limbs_of_ok : forall v, limbs_ok (limbs_of v).
Proof.
  intros v. unfold limbs_of, limbs_ok, u64.
  pose proof W_pos. repeat split; apply Z.mod_pos_bound; assumption.
Qed.

Lemma val_limbs_of : forall v, 0 <= v < WW -> val (limbs_of v) = v.
Proof.
  intros v Hv. unfold limbs_of. rewrite val_eq.
  pose proof W_pos as HW.
  assert (E2 : v / W ^ 2 = v / W / W).
  { rewrite Z.div_div by lia. f_equal; ring. }
  assert (E3 : v / W ^ 3 = v / W / W / W).
  { rewrite !Z.div_div by lia. f_equal; ring. }
  rewrite E2, E3.
  set (a1 := v / W). set (a2 := a1 / W). set (a3 := a2 / W).
  pose proof (Z.div_mod v W ltac:(lia)) as D0. fold a1 in D0.
  pose proof (Z.div_mod a1 W ltac:(lia)) as D1. fold a2 in D1.
  pose proof (Z.div_mod a2 W ltac:(lia)) as D2. fold a3 in D2.
  pose proof (Z.mod_pos_bound v W HW) as B0.
  pose proof (Z.mod_pos_bound a1 W HW) as B1.
  pose proof (Z.mod_pos_bound a2 W HW) as B2.
  assert (B3 : 0 <= a3 < W).
  { rewrite WW_eq in Hv. clearbody a1 a2 a3.
    remember (v mod W) as r0. remember (a1 mod W) as r1. remember (a2 mod W) as r2.
    unfold W in *. lia. }
  rewrite (Z.mod_small a3 W B3).
  clearbody a1 a2 a3.
  remember (v mod W) as r0. remember (a1 mod W) as r1. remember (a2 mod W) as r2.
  unfold W in *. lia.
Qed.

(* ------------------------------------------------------------------ *)
(** * SetBigInt: all integers *)

Lemma setBigInt_inner_correct : forall v, 0 <= v < q ->
  canon (setBigInt_inner v) /\ mval (setBigInt_inner v) = v.
Proof.
  intros v Hv. unfold setBigInt_inner.
  destruct (toMont_correct_gen (limbs_of v) (limbs_of_ok v)) as [Hc Hm].
  split; [ exact Hc | ]. rewrite Hm.
  rewrite val_limbs_of by (pose proof q_lt_WW; lia).
  apply Z.mod_small. exact Hv.
Qed.

Theorem setBigInt_correct : forall v : Z,
  canon (setBigInt v) /\ mval (setBigInt v) = v mod q.
Proof.
  intros v. unfold setBigInt. cbv zeta. rewrite modulus_eq.
  pose proof q_pos' as Hq.
  destruct (Z.compare_spec v q) as [E | E | E].
  - subst v. split; [ exact canon_zero | ].
    rewrite mval_zero, Z.mod_same by lia. reflexivity.
  - cbn [negb andb]. destruct (Z.ltb_spec v 0) as [Hn | Hn]; cbn [negb].
    + destruct (setBigInt_inner_correct (v mod q)) as [Hc Hm].
      { apply Z.mod_pos_bound. exact Hq. }
      split; assumption.
    + destruct (setBigInt_inner_correct v) as [Hc Hm]; [ lia | ].
      split; [ exact Hc | ]. rewrite Hm. symmetry. apply Z.mod_small. lia.
  - cbn [negb andb].
    destruct (setBigInt_inner_correct (v mod q)) as [Hc Hm].
    { apply Z.mod_pos_bound. exact Hq. }
    split; assumption.
Qed.

(* an integer already in [0,q) is mapped to the element having that value *)
Lemma setBigInt_mval : forall z, canon z -> setBigInt (mval z) = z.
Proof.
  intros z Hz. destruct (setBigInt_correct (mval z)) as [Hc Hm].
  apply mval_inj; [ exact Hc | exact Hz | ].
  rewrite Hm. apply Z.mod_small. apply mval_range.
Qed.

(* two integers give the same element iff they are congruent mod q *)
Corollary setBigInt_eq_iff : forall v w : Z,
  setBigInt v = setBigInt w <-> v mod q = w mod q.
Proof.
  intros v w. destruct (setBigInt_correct v) as [Hcv Hmv].
  destruct (setBigInt_correct w) as [Hcw Hmw]. split.
  - intros H. rewrite <- Hmv, <- Hmw, H. reflexivity.
  - intros H. apply mval_inj; [ exact Hcv | exact Hcw | ].
    rewrite Hmv, Hmw. exact H.
Qed.

(* ------------------------------------------------------------------ *)
(** * ToBigIntRegular *)

Theorem toBigIntRegular_correct : forall z, canon z ->
  toBigIntRegular z = mval z /\ 0 <= toBigIntRegular z < q.
Proof.
  intros z Hz. unfold toBigIntRegular, toBigInt.
  destruct (fromMont_correct z Hz) as [_ Hv]. rewrite Hv.
  split; [ reflexivity | apply mval_range ].
Qed.

Theorem setBigInt_toBigIntRegular : forall z, canon z ->
  setBigInt (toBigIntRegular z) = z.
Proof.
  intros z Hz. destruct (toBigIntRegular_correct z Hz) as [E _]. rewrite E.
  apply setBigInt_mval. exact Hz.
Qed.

Theorem toBigIntRegular_setBigInt : forall v : Z,
  toBigIntRegular (setBigInt v) = v mod q.
Proof.
  intros v. destruct (setBigInt_correct v) as [Hc Hm].
  destruct (toBigIntRegular_correct _ Hc) as [E _]. rewrite E. exact Hm.
Qed.

(* ------------------------------------------------------------------ *)
(** * SetBytes: a big-endian byte string of ANY length *)

Theorem setBytes_correct : forall e, Forall is_byte e ->
  canon (setBytes e) /\ mval (setBytes e) = be_val e mod q.
Proof. intros e _. unfold setBytes. apply setBigInt_correct. Qed.

(* ------------------------------------------------------------------ *)
(** * SetString *)

Theorem setString_correct : forall s v, parse_dec s = Some v ->
  exists z, setString s = Ok z /\ canon z /\ mval z = v mod q.
Proof.
  intros s v H. unfold setString. rewrite H. exists (setBigInt v).
  split; [ reflexivity | apply setBigInt_correct ].
Qed.

(* the Go code panics on text that is not a base-10 integer *)
Theorem setString_panic : forall s, parse_dec s = None -> setString s = Panic.
Proof. intros s H. unfold setString. rewrite H. reflexivity. Qed.

Corollary setString_ok_iff : forall s,
  (exists z, setString s = Ok z) <-> (exists v, dec_syntax s v).
Proof.
  intros s. split.
  - intros [z H]. unfold setString in H. destruct (parse_dec s) as [v|] eqn:E; [ | discriminate ].
    exists v. apply parse_dec_some_iff. exact E.
  - intros [v H]. apply parse_dec_some_iff in H.
    destruct (setString_correct s v H) as (z & Hz & _). exists z. exact Hz.
Qed.

(* ------------------------------------------------------------------ *)
(** * Bytes: 32 bytes, big endian, of the canonical value *)

Lemma le_bytes_limb : forall a b m, u64 a ->
  le_bytes (8 + m) (a + W * b) = le_bytes 8 a ++ le_bytes m b.
Proof.
  intros a b m Ha. rewrite le_bytes_app. rewrite pow256_8.
  pose proof W_pos as HW. f_equal.
  - apply le_bytes_congr. rewrite pow256_8.
    rewrite (Z.mul_comm W b). apply Z_mod_plus_full.
  - f_equal. rewrite Z.add_comm, (Z.mul_comm W b).
    rewrite Z.div_add_l by lia. rewrite (Z.div_small a W Ha). ring.
Qed.

Lemma be_bytes_limbs : forall z0 z1 z2 z3, limbs_ok (z0, z1, z2, z3) ->
  be_bytes 8 z3 ++ be_bytes 8 z2 ++ be_bytes 8 z1 ++ be_bytes 8 z0 =
  be_bytes 32 (val (z0, z1, z2, z3)).
Proof.
  intros z0 z1 z2 z3 (H0 & H1 & H2 & H3). unfold be_bytes.
  rewrite <- !rev_app_distr. f_equal. rewrite val_eq.
  change 32%nat with (8 + (8 + (8 + 8)))%nat.
  rewrite !le_bytes_limb by assumption.
  rewrite !app_assoc. reflexivity.
Qed.

Theorem bytesOf_correct : forall z, canon z -> bytesOf z = be_bytes 32 (mval z).
Proof.
  intros z Hz. unfold bytesOf.
  destruct (fromMont_correct z Hz) as [Hc Hv].
  destruct (fromMontGeneric z) as [[[z0 z1] z2] z3].
  rewrite <- Hv. apply be_bytes_limbs. apply canon_limbs. exact Hc.
Qed.

Corollary bytesOf_length : forall z, canon z -> length (bytesOf z) = 32%nat.
Proof. intros z Hz. rewrite (bytesOf_correct z Hz). apply be_bytes_length. Qed.

Corollary bytesOf_bytes : forall z, canon z -> Forall is_byte (bytesOf z).
Proof. intros z Hz. rewrite (bytesOf_correct z Hz). apply be_bytes_bytes. Qed.

Corollary be_val_bytesOf : forall z, canon z -> be_val (bytesOf z) = mval z.
Proof.
  intros z Hz. rewrite (bytesOf_correct z Hz), be_val_be_bytes, pow256_32_WW.
  apply Z.mod_small. pose proof (mval_range z). pose proof q_lt_WW. lia.
Qed.

Theorem setBytes_bytesOf : forall z, canon z -> setBytes (bytesOf z) = z.
Proof.
  intros z Hz. unfold setBytes. rewrite (be_val_bytesOf z Hz).
  apply setBigInt_mval. exact Hz.
Qed.

Theorem bytesOf_setBytes : forall e, Forall is_byte e ->
  bytesOf (setBytes e) = be_bytes 32 (be_val e mod q).
Proof.
  intros e He. destruct (setBytes_correct e He) as [Hc Hm].
  rewrite (bytesOf_correct _ Hc), Hm. reflexivity.
Qed.

(* on 32-byte strings that encode a value below q, Bytes . SetBytes = id *)
Corollary bytesOf_setBytes_canonical : forall e, Forall is_byte e -> length e = 32%nat ->
  be_val e < q -> bytesOf (setBytes e) = e.
Proof.
  intros e He Hl Hv. rewrite (bytesOf_setBytes e He).
  pose proof (be_val_bound e He) as Hb.
  rewrite Z.mod_small by lia. rewrite <- Hl. apply be_bytes_be_val. exact He.
Qed.

(* ------------------------------------------------------------------ *)
(** * Neg at value level (what String needs) *)

Lemma negGeneric_shape : forall x,
  negGeneric x = if isZero x then zero else fst (sub4 qEl x).
Proof.
  intros [[[x0 x1] x2] x3].
  Local Transparent negGeneric. reflexivity. Local Opaque negGeneric.
Qed.

Lemma neg_mval : forall x, canon x ->
  canon (negGeneric x) /\ mval (negGeneric x) = (- mval x) mod q.
Proof.
  intros x Hx. rewrite negGeneric_shape.
  pose proof (canon_val _ Hx) as Vx. pose proof (canon_limbs _ Hx) as Lx.
  pose proof q_pos' as Hq.
  assert (K : forall z, val z ==q - val x -> mval z = (- mval x) mod q).
  { intros z H. apply eqq_mod_eq; [ apply mval_range | ].
    rewrite (mval_eqq z), (mval_eqq x), H.
    replace (- val x * Rinv) with (- (val x * Rinv)) by ring. reflexivity. }
  rewrite (isZero_spec x Lx).
  destruct (Z.eqb_spec (val x) 0) as [E | E].
  - split; [ exact canon_zero | ]. apply K. rewrite E. reflexivity.
  - destruct (sub4_exact qEl x limbs_qEl Lx) as (Hl & Hv & _).
    { rewrite val_qEl'. lia. }
    rewrite val_qEl' in Hv.
    split; [ apply canon_intro; [ exact Hl | lia ] | ].
    apply K. apply (eqq_intro _ _ 1). lia.
Qed.

(* ------------------------------------------------------------------ *)
(** * String *)

Definition limb0 (z : el) : Z := let '(z0, _, _, _) := z in z0.

Lemma stringOf_unfold : forall z,
  stringOf z =
  if isUint64 (fromMontGeneric z) then dec_of_nonneg (limb0 (fromMontGeneric z))
  else if isUint64 (fromMontGeneric (negGeneric z))
       then 45 :: dec_of_nonneg (limb0 (fromMontGeneric (negGeneric z)))
       else dec_of_Z (val (fromMontGeneric z)).
Proof. reflexivity. Qed.

Lemma isUint64_spec : forall z, limbs_ok z -> isUint64 z = (val z <? W).
Proof.
  intros [[[z0 z1] z2] z3] (H0 & H1 & H2 & H3). unfold isUint64.
  apply Bool.eq_iff_eq_true. rewrite Z.eqb_eq, Z.ltb_lt, !or64_zero, val_eq. zl.
Qed.

Lemma limb0_val : forall z, limbs_ok z -> val z < W -> limb0 z = val z.
Proof.
  intros [[[z0 z1] z2] z3] (H0 & H1 & H2 & H3). rewrite val_eq. cbn [limb0]. zl.
Qed.

(* String(): exact behaviour, with its two thresholds.
   - values below 2^64 are printed as they are;
   - otherwise, if q - value is below 2^64 (the value is "-k" for a 64-bit
     k >= 1), the text is "-" followed by k;
   - otherwise the full decimal expansion of the canonical value. *)
Theorem stringOf_correct : forall z, canon z ->
  (mval z < 2 ^ 64 -> stringOf z = dec_of_nonneg (mval z)) /\
  (2 ^ 64 <= mval z -> q - mval z < 2 ^ 64 ->
     stringOf z = 45 :: dec_of_nonneg (q - mval z)) /\
  (2 ^ 64 <= mval z -> 2 ^ 64 <= q - mval z -> stringOf z = dec_of_nonneg (mval z)).
Proof.
  intros z Hz. change (2 ^ 64) with W. rewrite stringOf_unfold.
  destruct (fromMont_correct z Hz) as [Hc Hv].
  pose proof (canon_limbs _ Hc) as Hl.
  destruct (neg_mval z Hz) as [Hnc Hnm].
  destruct (fromMont_correct _ Hnc) as [Hc' Hv'].
  pose proof (canon_limbs _ Hc') as Hl'.
  pose proof (mval_range z) as Hr. pose proof q_pos' as Hq.
  rewrite (isUint64_spec _ Hl), (isUint64_spec _ Hl'), Hv, Hv', Hnm.
  destruct (Z.ltb_spec (mval z) W) as [Hs | Hb].
  - rewrite (limb0_val _ Hl) by (rewrite Hv; exact Hs). rewrite Hv.
    split; [ reflexivity | ]. split; intros; lia.
  - assert (En : (- mval z) mod q = q - mval z).
    { pose proof W_pos.
      replace (- mval z) with (q - mval z + (-1) * q) by ring.
      rewrite Z.mod_add by lia. apply Z.mod_small. lia. }
    rewrite En. split; [ intros; lia | ].
    destruct (Z.ltb_spec (q - mval z) W) as [Hs' | Hb'].
    + rewrite (limb0_val _ Hl') by (rewrite Hv', Hnm, En; exact Hs').
      rewrite Hv', Hnm, En. split; [ reflexivity | intros; lia ].
    + split; [ intros; lia | ]. intros _ _.
      apply dec_of_Z_shape. lia.
Qed.

(* which values get a minus sign *)
Corollary stringOf_minus_iff : forall z, canon z ->
  (hd 0 (stringOf z) = 45 <-> 2 ^ 64 <= mval z /\ q - mval z < 2 ^ 64).
Proof.
  intros z Hz. destruct (stringOf_correct z Hz) as (H1 & H2 & H3).
  assert (Hd : forall v, hd 0 (dec_of_nonneg v) <> 45).
  { intros v E. pose proof (dec_of_nonneg_digits v) as Hdg.
    pose proof (dec_of_nonneg_nonempty v) as Hne.
    destruct (dec_of_nonneg v) as [|c r]; [ contradiction | ].
    cbn [hd] in E. inversion Hdg; subst. unfold digitP in *. lia. }
  split.
  - intros E.
    destruct (Z_lt_le_dec (mval z) (2 ^ 64)) as [A | A].
    { rewrite (H1 A) in E. exfalso. exact (Hd _ E). }
    destruct (Z_lt_le_dec (q - mval z) (2 ^ 64)) as [B | B]; [ split; assumption | ].
    rewrite (H3 A B) in E. exfalso. exact (Hd _ E).
  - intros [A B]. rewrite (H2 A B). reflexivity.
Qed.

(* the text always denotes the field value, as an integer congruent to it *)
Theorem setString_stringOf : forall z, canon z -> setString (stringOf z) = Ok z.
Proof.
  intros z Hz. destruct (stringOf_correct z Hz) as (H1 & H2 & H3).
  pose proof (mval_range z) as Hr. pose proof q_pos' as Hq.
  unfold setString.
  destruct (Z_lt_le_dec (mval z) (2 ^ 64)) as [A | A];
    [ | destruct (Z_lt_le_dec (q - mval z) (2 ^ 64)) as [B | B] ].
  - rewrite (H1 A), parse_dec_dec_of_nonneg by lia.
    rewrite (setBigInt_mval z Hz). reflexivity.
  - rewrite (H2 A B), parse_dec_minus_dec_of_nonneg by lia.
    f_equal. destruct (setBigInt_correct (- (q - mval z))) as [Hc Hm].
    apply mval_inj; [ exact Hc | exact Hz | ]. rewrite Hm.
    replace (- (q - mval z)) with (mval z + (-1) * q) by ring.
    rewrite Z.mod_add by lia. apply Z.mod_small. exact Hr.
  - rewrite (H3 A B), parse_dec_dec_of_nonneg by lia.
    rewrite (setBigInt_mval z Hz). reflexivity.
Qed.

(* ------------------------------------------------------------------ *)
(** * Equal, IsZero, Cmp, LexicographicallyLargest *)

Theorem equal_correct : forall a b, canon a -> canon b ->
  (equal a b = true <-> mval a = mval b).
Proof.
  intros a b Ha Hb.
  rewrite (equal_spec a b (canon_limbs _ Ha) (canon_limbs _ Hb)), Z.eqb_eq. split.
  - intros H. unfold mval. rewrite H. reflexivity.
  - intros H. rewrite (mval_inj a b Ha Hb H). reflexivity.
Qed.

Theorem isZero_correct : forall z, canon z -> (isZero z = true <-> mval z = 0).
Proof.
  intros z Hz. rewrite (isZero_spec z (canon_limbs _ Hz)), Z.eqb_eq.
  symmetry. apply mval_zero_iff. exact Hz.
Qed.

Definition cmp_limbs (a b : el) : Z :=
  let '(z0, z1, z2, z3) := a in
  let '(x0, x1, x2, x3) := b in
  if z3 >? x3 then 1 else if z3 <? x3 then -1
  else if z2 >? x2 then 1 else if z2 <? x2 then -1
  else if z1 >? x1 then 1 else if z1 <? x1 then -1
  else if z0 >? x0 then 1 else if z0 <? x0 then -1
  else 0.

Lemma cmp_unfold : forall z x,
  cmp z x = cmp_limbs (fromMontGeneric z) (fromMontGeneric x).
Proof. reflexivity. Qed.

Lemma cmp_limbs_spec : forall a b, limbs_ok a -> limbs_ok b ->
  cmp_limbs a b = match val a ?= val b with Eq => 0 | Lt => -1 | Gt => 1 end.
Proof.
  intros [[[z0 z1] z2] z3] [[[x0 x1] x2] x3] (A0 & A1 & A2 & A3) (B0 & B1 & B2 & B3).
  unfold cmp_limbs. rewrite !val_eq, !Z.gtb_ltb.
  repeat match goal with
         | |- context [?a <? ?b] => destruct (Z.ltb_spec a b)
         end;
    match goal with
    | |- _ = match ?u ?= ?v with _ => _ end =>
        destruct (Z.compare_spec u v); try reflexivity; exfalso; zl
    end.
Qed.

(* three-way comparison of the canonical integers: 1 / 0 / -1 *)
Theorem cmp_correct : forall a b, canon a -> canon b ->
  cmp a b = match mval a ?= mval b with Eq => 0 | Lt => -1 | Gt => 1 end.
Proof.
  intros a b Ha Hb. rewrite cmp_unfold.
  destruct (fromMont_correct a Ha) as [Hca Hva].
  destruct (fromMont_correct b Hb) as [Hcb Hvb].
  rewrite <- Hva, <- Hvb. apply cmp_limbs_spec; apply canon_limbs; assumption.
Qed.

Corollary cmp_spec : forall a b, canon a -> canon b ->
  (cmp a b = 1 <-> mval a > mval b) /\
  (cmp a b = 0 <-> mval a = mval b) /\
  (cmp a b = -1 <-> mval a < mval b).
Proof.
  intros a b Ha Hb. rewrite (cmp_correct a b Ha Hb).
  destruct (Z.compare_spec (mval a) (mval b)); repeat split; intros; try lia; try discriminate.
Qed.

Lemma lexLargest_unfold : forall z,
  lexLargest z = (snd (sub4 (fromMontGeneric z) lexEl) =? 0).
Proof.
  intros z. unfold lexLargest. destruct (fromMontGeneric z) as [[[z0 z1] z2] z3].
  reflexivity.
Qed.

Theorem lexLargest_correct : forall z, canon z ->
  (lexLargest z = true <-> mval z > (q - 1) / 2).
Proof.
  intros z Hz. rewrite lexLargest_unfold.
  destruct (fromMont_correct z Hz) as [Hc Hv].
  pose proof (canon_limbs _ Hc) as Hl.
  destruct lex_lit_ok as [Lh Vh]. rewrite Z.eqb_eq.
  destruct (Z_lt_le_dec (val (fromMontGeneric z)) (val lexEl)) as [H | H].
  - destruct (sub4_borrow _ _ Hl Lh H) as (_ & _ & Hb). rewrite Hb.
    rewrite Hv, Vh in H. split; [ discriminate | ].
    intros G. exfalso. clear - H G. remember ((q - 1) / 2) as h. lia.
  - destruct (sub4_exact _ _ Hl Lh H) as (_ & _ & Hb). rewrite Hb.
    rewrite Hv, Vh in H. split; [ | reflexivity ].
    intros _. clear - H. remember ((q - 1) / 2) as h. lia.
Qed.

(* ------------------------------------------------------------------ *)
(** * utils.BigIntArrayToElementArray / ElementArrayToBigIntArray *)

Theorem BigIntArrayToElementArray_correct : forall bi,
  Forall canon (BigIntArrayToElementArray bi) /\
  map mval (BigIntArrayToElementArray bi) = map (fun v => v mod q) bi.
Proof.
  intros bi. unfold BigIntArrayToElementArray. split.
  - apply Forall_forall. intros x Hx. apply in_map_iff in Hx.
    destruct Hx as (v & <- & _). apply setBigInt_correct.
  - rewrite map_map. apply map_ext. intros v. apply setBigInt_correct.
Qed.

Theorem ElementArrayToBigIntArray_correct : forall e, Forall canon e ->
  ElementArrayToBigIntArray e = map mval e.
Proof.
  intros e He. unfold ElementArrayToBigIntArray. apply map_ext_in.
  intros z Hz. apply toBigIntRegular_correct.
  rewrite Forall_forall in He. apply He. exact Hz.
Qed.

Theorem ElementArray_BigIntArray_roundtrip : forall bi,
  ElementArrayToBigIntArray (BigIntArrayToElementArray bi) = map (fun v => v mod q) bi.
Proof.
  intros bi. unfold ElementArrayToBigIntArray, BigIntArrayToElementArray.
  rewrite map_map. apply map_ext. intros v. apply toBigIntRegular_setBigInt.
Qed.

Theorem BigIntArray_ElementArray_roundtrip : forall e, Forall canon e ->
  BigIntArrayToElementArray (ElementArrayToBigIntArray e) = e.
Proof.
  intros e He. unfold ElementArrayToBigIntArray, BigIntArrayToElementArray.
  rewrite map_map. rewrite <- (map_id e) at 2. apply map_ext_in.
  intros z Hz. apply setBigInt_toBigIntRegular.
  rewrite Forall_forall in He. apply He. exact Hz.
Qed.

Print Assumptions setBigInt_correct.
Print Assumptions toBigIntRegular_correct.
Print Assumptions setBigInt_toBigIntRegular.
Print Assumptions toBigIntRegular_setBigInt.
Print Assumptions setBytes_correct.
Print Assumptions setString_correct.
Print Assumptions setString_panic.
Print Assumptions bytesOf_correct.
Print Assumptions setBytes_bytesOf.
Print Assumptions bytesOf_setBytes_canonical.
Print Assumptions stringOf_correct.
Print Assumptions stringOf_minus_iff.
Print Assumptions setString_stringOf.
Print Assumptions equal_correct.
Print Assumptions isZero_correct.
Print Assumptions cmp_correct.
Print Assumptions lexLargest_correct.
Print Assumptions BigIntArrayToElementArray_correct.
Print Assumptions ElementArrayToBigIntArray_correct.
Print Assumptions ElementArray_BigIntArray_roundtrip.
Print Assumptions BigIntArray_ElementArray_roundtrip.

(* C18 for the Goldilocks field (ffg): Element.Legendre and Element.Sqrt of
   /repo/ffg/element.go, as modelled at limb level (Montgomery form) in
   Model/FfgConv.v, compute the Legendre symbol and a square root.

   Structure: the literals of the Go text are pinned (sqrt_consts_ok /
   sqrt_lits_ok), the limb-level fixpoints are identified with the generic
   program of Proofs/SqrtRefine.v, whose hypotheses are discharged with the
   arithmetic theorems of Proofs/FfgOps.v (C09); the Tonelli-Shanks argument
   itself is Proofs/TonelliShanks.v. *)
From Coq Require Import ZArith List Lia Bool.
From Verif Require Import Lib.Params Lib.Words Lib.Powmod Model.FfgLimbs Model.FfgConv
  Proofs.FfgArith Proofs.FfgOps Proofs.SqrtRefine.
From Verif Require Gen.FfgConsts Model.SqrtCore Proofs.TonelliShanks.
Import ListNotations.
Local Open Scope Z_scope.

(* ------------------------------------------------------------------ *)
(** * The literals of Legendre / Sqrt in the Go source *)

(* exponents, 2-adicity, the Montgomery "one" compared inline, and g *)
Lemma sqrt_consts_ok :
  FfgConsts.legendreExp = TonelliShanks.gold_legendreExp
  /\ FfgConsts.sqrtExp = TonelliShanks.gold_sqrtExp
  /\ FfgConsts.sqrt_r = TonelliShanks.gold_e
  /\ FfgConsts.sqrt_g = [TonelliShanks.gold_g_mont]
  /\ FfgConsts.biglits_Element_Legendre = [one]
  /\ FfgConsts.biglits_Element_Sqrt = [TonelliShanks.gold_g_mont; one; one]
  /\ (TonelliShanks.gold_g0 * W) mod pg = TonelliShanks.gold_g_mont.
Proof. vm_compute. repeat split. Qed.
Print Assumptions sqrt_consts_ok.


Definition gE : Z := nth 0 FfgConsts.biglits_Element_Sqrt 0.

Lemma lit_Legendre_one : nth 0 FfgConsts.biglits_Element_Legendre 0 = one.
Proof. vm_compute. reflexivity. Qed.
Lemma lit_Sqrt_one1 : nth 1 FfgConsts.biglits_Element_Sqrt 0 = one.
Proof. vm_compute. reflexivity. Qed.
Lemma lit_Sqrt_one2 : nth 2 FfgConsts.biglits_Element_Sqrt 0 = one.
Proof. vm_compute. reflexivity. Qed.
Lemma gE_val : gE = TonelliShanks.gold_g_mont.
Proof. vm_compute. reflexivity. Qed.
Lemma gE_canon : canon gE.
Proof. unfold canon. vm_compute. split; [ discriminate | reflexivity ]. Qed.
Lemma gE_mval : mval gE = TonelliShanks.gold_g0.
Proof. vm_compute. reflexivity. Qed.
Lemma legendreExp_nonneg : 0 <= FfgConsts.legendreExp.
Proof. vm_compute. discriminate. Qed.
Lemma sqrtExp_nonneg : 0 <= FfgConsts.sqrtExp.
Proof. vm_compute. discriminate. Qed.
Lemma pg_gt_1 : 1 < pg.
Proof. reflexivity. Qed.

Lemma gold_TS :
  TonelliShanks.ts_results pg FfgConsts.sqrt_r FfgConsts.legendreExp FfgConsts.sqrtExp
    TonelliShanks.gold_g0.
Proof.
  destruct sqrt_consts_ok as (E1 & E2 & E3 & _).
  rewrite E1, E2, E3. exact TonelliShanks.gold_tonelli_shanks.
Qed.

(* ------------------------------------------------------------------ *)
(** * The comparisons on limbs are comparisons on values *)

Lemma isZero_ok : forall t, canon t -> (isZero t = true <-> mval t = 0).
Proof.
  intros t Ht. unfold isZero. rewrite Z.eqb_eq. symmetry. apply mval_zero_iff. exact Ht.
Qed.

Lemma eqb_one_ok : forall t, canon t -> ((t =? one) = true <-> mval t = 1).
Proof.
  intros t Ht. rewrite Z.eqb_eq. split.
  - intros ->. exact mval_one.
  - intros H. apply mval_inj; [ exact Ht | exact canon_one | ]. rewrite mval_one. exact H.
Qed.

Definition isOneL (t : Z) : bool := t =? nth 0 FfgConsts.biglits_Element_Legendre 0.
Definition isOneS (t : Z) : bool := t =? nth 1 FfgConsts.biglits_Element_Sqrt 0.
Definition isOneM (t : Z) : bool := t =? nth 2 FfgConsts.biglits_Element_Sqrt 0.

Lemma isOneL_ok : forall t, canon t -> (isOneL t = true <-> mval t = 1).
Proof. intros t Ht. unfold isOneL. rewrite lit_Legendre_one. apply eqb_one_ok. exact Ht. Qed.
Lemma isOneS_ok : forall t, canon t -> (isOneS t = true <-> mval t = 1).
Proof. intros t Ht. unfold isOneS. rewrite lit_Sqrt_one1. apply eqb_one_ok. exact Ht. Qed.
Lemma isOneM_ok : forall t, canon t -> (isOneM t = true <-> mval t = 1).
Proof. intros t Ht. unfold isOneM. rewrite lit_Sqrt_one2. apply eqb_one_ok. exact Ht. Qed.

Lemma mval_range : forall x, canon x -> 0 <= mval x < pg.
Proof. intros x _. exact (mval_canon x). Qed.

(* everything Proofs/SqrtRefine.v needs about the limb arithmetic (C09) *)
Lemma gold_ops_ok :
  sqrt_ops_ok Z mulGeneric square exp isZero isOneL isOneS isOneM 0 gE
    FfgConsts.legendreExp FfgConsts.sqrtExp FfgConsts.sqrt_r pg canon mval
    TonelliShanks.gold_g0.
Proof.
  constructor.
  - exact pg_gt_1.
  - exact mval_range.
  - exact mval_inj.
  - exact mul_correct.
  - exact square_correct.
  - exact exp_correct.
  - exact isZero_ok.
  - exact isOneL_ok.
  - exact isOneS_ok.
  - exact isOneM_ok.
  - exact canon_0.
  - exact mval_0.
  - exact gE_canon.
  - exact gE_mval.
  - exact legendreExp_nonneg.
  - exact sqrtExp_nonneg.
Qed.

(* ------------------------------------------------------------------ *)
(** * Model/FfgConv.v is the generic program *)

Definition of_g (o : gsqrt_out Z) : sqrt_out :=
  match o with GSome z => SqSome z | GNil => SqNil | GOutOfFuel => SqOutOfFuel end.

Local Notation GLEG := (glegendre Z exp isZero isOneL FfgConsts.legendreExp).
Local Notation GSQRT :=
  (gsqrt Z mulGeneric square exp isZero isOneS isOneM 0 gE FfgConsts.sqrtExp FfgConsts.sqrt_r).

Lemma legendre_eq : forall x, legendre x = GLEG x.
Proof. intros x. unfold legendre, glegendre, isOneL. reflexivity. Qed.

Lemma sqn_eq : forall n t, sqn n t = gsqn Z square n t.
Proof. induction n as [ | n IH]; intros t; cbn [sqn gsqn]; [ reflexivity | apply IH ]. Qed.

Lemma find_m_eq : forall fuel t m, find_m fuel t m = gfind_m Z square isOneM fuel t m.
Proof.
  induction fuel as [ | f IH]; intros t m; cbn [find_m gfind_m]; [ reflexivity | ].
  fold (isOneM t). destruct (isOneM t); [ reflexivity | apply IH ].
Qed.

Lemma ts_loop_eq : forall fuel y b g r,
  ts_loop fuel y b g r = gts_loop Z mulGeneric square isOneM fuel y b g r.
Proof.
  induction fuel as [ | f IH]; intros y b g r; cbn [ts_loop gts_loop]; [ reflexivity | ].
  rewrite find_m_eq.
  destruct (gfind_m Z square isOneM (Z.to_nat r + 1) b 0) as [ m | ]; [ | reflexivity ].
  destruct (m =? 0); [ reflexivity | ].
  cbv zeta. rewrite sqn_eq. apply IH.
Qed.

Lemma sqrt_eq : forall x, sqrt x = of_g (GSQRT x).
Proof.
  intros x. unfold sqrt, gsqrt, isOneS, gE. cbv zeta.
  rewrite sqn_eq, ts_loop_eq.
  destruct (isZero _); [ reflexivity | ].
  destruct (negb _); [ reflexivity | ].
  destruct (gts_loop _ _ _ _ _ _ _ _ _); reflexivity.
Qed.

Lemma of_g_some : forall o z, of_g o = SqSome z -> o = GSome z.
Proof. intros [ z' | | ] z H; cbn in H; try discriminate H. injection H as ->. reflexivity. Qed.
Lemma of_g_nil : forall o, of_g o = SqNil <-> o = GNil.
Proof. intros [ z' | | ]; cbn; split; intros H; try discriminate H; reflexivity. Qed.
Lemma of_g_fuel : forall o, of_g o = SqOutOfFuel <-> o = GOutOfFuel.
Proof. intros [ z' | | ]; cbn; split; intros H; try discriminate H; reflexivity. Qed.

(* ------------------------------------------------------------------ *)
(** * Refinement: the limb code computes the Montgomery image of the
      value-level model *)

Local Notation MODEL_SQRT :=
  (SqrtCore.sqrt_model pg TonelliShanks.gold_sqrtExp TonelliShanks.gold_g0 TonelliShanks.gold_e).

Lemma model_consts :
  SqrtCore.sqrt_model pg FfgConsts.sqrtExp TonelliShanks.gold_g0 FfgConsts.sqrt_r = MODEL_SQRT
  /\ SqrtCore.legendre_model pg FfgConsts.legendreExp
     = SqrtCore.legendre_model pg TonelliShanks.gold_legendreExp.
Proof.
  destruct sqrt_consts_ok as (E1 & E2 & E3 & _). rewrite E1, E2, E3. split; reflexivity.
Qed.

Theorem legendre_refine : forall x, canon x ->
  legendre x = SqrtCore.legendre_model pg TonelliShanks.gold_legendreExp (mval x).
Proof.
  intros x Hx. rewrite legendre_eq. rewrite <- (proj2 model_consts).
  exact (glegendre_refine gold_ops_ok x Hx).
Qed.

Lemma gsqrt_refine_inst : forall x, canon x ->
  match GSQRT x with
  | GSome z => canon z /\ MODEL_SQRT (mval x) = SqrtCore.SqrtOk (mval z)
  | GNil => MODEL_SQRT (mval x) = SqrtCore.SqrtNone
  | GOutOfFuel => MODEL_SQRT (mval x) = SqrtCore.SqrtOutOfFuel
  end.
Proof.
  intros x Hx. rewrite <- (proj1 model_consts).
  exact (gsqrt_refine gold_ops_ok x Hx).
Qed.

Theorem sqrt_refine_some : forall x z, canon x -> sqrt x = SqSome z ->
  canon z /\ MODEL_SQRT (mval x) = SqrtCore.SqrtOk (mval z).
Proof.
  intros x z Hx H. rewrite sqrt_eq in H. apply of_g_some in H.
  pose proof (gsqrt_refine_inst x Hx) as R. rewrite H in R. exact R.
Qed.

Theorem sqrt_refine_nil : forall x, canon x ->
  (sqrt x = SqNil <-> MODEL_SQRT (mval x) = SqrtCore.SqrtNone).
Proof.
  intros x Hx. rewrite sqrt_eq, of_g_nil.
  pose proof (gsqrt_refine_inst x Hx) as R. split.
  - intros H. rewrite H in R. exact R.
  - intros H. destruct (GSQRT x) as [ z | | ].
    + destruct R as [_ R]. rewrite R in H. discriminate H.
    + reflexivity.
    + rewrite R in H. discriminate H.
Qed.

(* ------------------------------------------------------------------ *)
(** * C18 for ffg *)

Theorem legendre_values : forall x, legendre x = 0 \/ legendre x = 1 \/ legendre x = -1.
Proof. intros x. rewrite legendre_eq. apply glegendre_values. Qed.

Theorem legendre_correct : forall x, canon x ->
  (legendre x = 0 <-> mval x = 0) /\
  (legendre x = 1 <-> (mval x <> 0 /\ exists r, (r * r) mod pg = mval x)) /\
  (legendre x = -1 <-> (forall r, (r * r) mod pg <> mval x)).
Proof.
  intros x Hx. rewrite legendre_eq.
  exact (glegendre_correct gold_ops_ok gold_TS x Hx).
Qed.

Theorem sqrt_square_correct : forall x, canon x ->
  (exists r, (r * r) mod pg = mval x) ->
  exists z, sqrt x = SqSome z /\ canon z /\ (mval z * mval z) mod pg = mval x.
Proof.
  intros x Hx Hsq.
  destruct (gsqrt_square_correct gold_ops_ok gold_TS x Hx Hsq) as (z & Hz & Cz & Hzz).
  exists z. split; [ rewrite sqrt_eq, Hz; reflexivity | ]. split; [ exact Cz | exact Hzz ].
Qed.

(* zero for zero: SetZero *)
Theorem sqrt_zero_correct : forall x, canon x -> mval x = 0 -> sqrt x = SqSome 0.
Proof.
  intros x Hx H0. rewrite sqrt_eq.
  rewrite (gsqrt_zero_correct gold_ops_ok gold_TS x Hx H0).
  reflexivity.
Qed.

(* SqNil: the Go function returns nil and never writes through z *)
Theorem sqrt_nonsquare_correct : forall x, canon x ->
  (forall r, (r * r) mod pg <> mval x) -> sqrt x = SqNil.
Proof.
  intros x Hx Hns. rewrite sqrt_eq.
  rewrite (gsqrt_nonsquare_correct gold_ops_ok gold_TS x Hx Hns).
  reflexivity.
Qed.

Theorem sqrt_total : forall x, canon x -> sqrt x <> SqOutOfFuel.
Proof.
  intros x Hx H. rewrite sqrt_eq in H. apply of_g_fuel in H.
  exact (gsqrt_total gold_ops_ok gold_TS x Hx H).
Qed.

(* converses: what the outcome of Sqrt says about x *)
Theorem sqrt_some_square : forall x z, canon x -> sqrt x = SqSome z ->
  canon z /\ (mval z * mval z) mod pg = mval x.
Proof.
  intros x z Hx H. rewrite sqrt_eq in H. apply of_g_some in H.
  exact (gsqrt_some_square gold_ops_ok gold_TS x z Hx H).
Qed.

Theorem sqrt_nil_nonsquare : forall x, canon x -> sqrt x = SqNil ->
  forall r, (r * r) mod pg <> mval x.
Proof.
  intros x Hx H r Hr.
  destruct (sqrt_square_correct x Hx (ex_intro _ r Hr)) as (z & Hz & _).
  rewrite H in Hz. discriminate Hz.
Qed.

Print Assumptions legendre_refine.
Print Assumptions sqrt_refine_some.
Print Assumptions sqrt_refine_nil.
Print Assumptions legendre_values.
Print Assumptions legendre_correct.
Print Assumptions sqrt_square_correct.
Print Assumptions sqrt_zero_correct.
Print Assumptions sqrt_nonsquare_correct.
Print Assumptions sqrt_total.
Print Assumptions sqrt_some_square.
Print Assumptions sqrt_nil_nonsquare.

(* C09, part 2: every operation of the Goldilocks package /repo/ffg returns the
   canonical representative in [0,pg) of the mathematically correct result,
   for ALL canonical operands; an element built from ANY 64-bit word (also
   >= pg) is the residue of that word.

   Elements are Montgomery-form words; [mval z] is the field value of z.
   The model is functional (operand values -> stored value), so destination
   aliasing is vacuous (see Model/FfgLimbs.v). *)
From Coq Require Import ZArith List Lia Zdiv Znumtheory Morphisms Setoid.
From Verif Require Import Lib.Params Lib.Words Lib.Powmod Lib.NumberTheory
  Lib.Primes Model.FfgLimbs Proofs.FfgArith Proofs.FfgMont.
Import ListNotations.
Local Open Scope Z_scope.

Local Ltac Zify.zify_post_hook ::= Z.div_mod_to_equations.
Local Ltac zl := unfold canon, u64, pg, W in *; lia.

Lemma pg_ne0 : pg <> 0.
Proof. unfold pg. lia. Qed.

Lemma eqp_one_iff : forall a, a mod pg = 1 <-> a ==p 1.
Proof.
  intros a. unfold eqp. rewrite (Z.mod_small 1 pg) by (unfold pg; lia). reflexivity.
Qed.

Lemma eqp_one_elim : forall a, a mod pg = 1 -> a ==p 1.
Proof. intros a. apply (proj1 (eqp_one_iff a)). Qed.
Lemma eqp_one_intro : forall a, a ==p 1 -> a mod pg = 1.
Proof. intros a. apply (proj2 (eqp_one_iff a)). Qed.

(* a/b*b = a, with i the inverse of b; all three are plain integers here *)
Lemma mul_inv_cancel : forall a b i, (b * i) mod pg = 1 ->
  ((a * i) mod pg * b) mod pg = a mod pg.
Proof.
  intros a b i H. apply eqp_one_elim in H.
  rewrite Z.mul_mod_idemp_l by (unfold pg; lia).
  fold (eqp (a * i * b) a).
  replace (a * i * b) with (a * (b * i)) by ring.
  rewrite H. rewrite Z.mul_1_r. reflexivity.
Qed.

Lemma mval_mod_self : forall z, mval z mod pg = mval z.
Proof. intros z. apply Z.mod_small. apply mval_canon. Qed.

(* ------------------------------------------------------------------ *)
(** * Add / Double *)

(* the common tail of _addGeneric / _doubleGeneric on the exact sum s *)
Definition addtail (s : Z) : Z :=
  if negb (Z.eqb (s / W) 0) then (s mod W - pg - 0) mod W
  else if negb (Z.ltb (s mod W) pg) then (s mod W - pg - 0) mod W
  else s mod W.

Lemma addtail_spec : forall s, 0 <= s < 2 * pg -> addtail s = s mod pg.
Proof.
  intros s Hs. unfold addtail.
  destruct (Z_lt_le_dec s W) as [HW | HW].
  - rewrite (Z.div_small s W), (Z.mod_small s W) by lia.
    change (0 =? 0) with true. cbn [negb].
    destruct (Z.ltb_spec s pg) as [E | E]; cbn [negb].
    + symmetry. apply Z.mod_small. lia.
    + rewrite (Z.mod_small (s - pg - 0) W) by zl.
      apply (Z.mod_unique s pg 1); lia.
  - assert (Hd : s / W = 1 /\ s mod W = s - W) by zl.
    destruct Hd as [-> ->]. change (1 =? 0) with false. cbn [negb].
    replace ((s - W - pg - 0) mod W) with (s - pg) by zl.
    apply (Z.mod_unique s pg 1); zl.
Qed.

Lemma addGeneric_addtail : forall x y, addGeneric x y = addtail (x + y).
Proof.
  intros x y. unfold addGeneric, addtail.
  cbv beta iota zeta delta [add64 sub64]. rewrite qg_eq, Z.add_0_r. reflexivity.
Qed.

Lemma doubleGeneric_addtail : forall x, doubleGeneric x = addtail (x + x).
Proof.
  intros x. unfold doubleGeneric, addtail.
  cbv beta iota zeta delta [add64 sub64]. rewrite qg_eq, Z.add_0_r. reflexivity.
Qed.

Lemma add_repr : forall x y, canon x -> canon y -> addGeneric x y = (x + y) mod pg.
Proof.
  intros x y Hx Hy. rewrite addGeneric_addtail. apply addtail_spec. zl.
Qed.

Theorem add_correct : forall x y, canon x -> canon y ->
  canon (addGeneric x y) /\ mval (addGeneric x y) = (mval x + mval y) mod pg.
Proof.
  intros x y Hx Hy. rewrite (add_repr x y Hx Hy).
  split; [ apply canon_mod | apply mval_add_mod ].
Qed.

Lemma double_repr : forall x, canon x -> doubleGeneric x = (x + x) mod pg.
Proof.
  intros x Hx. rewrite doubleGeneric_addtail. apply addtail_spec. zl.
Qed.

Theorem double_correct : forall x, canon x ->
  canon (doubleGeneric x) /\ mval (doubleGeneric x) = (2 * mval x) mod pg.
Proof.
  intros x Hx. rewrite (double_repr x Hx).
  split; [ apply canon_mod | ]. rewrite mval_add_mod. f_equal. ring.
Qed.

(* ------------------------------------------------------------------ *)
(** * Sub / Neg / Reduce *)

Lemma sub_repr : forall x y, canon x -> canon y -> subGeneric x y = (x - y) mod pg.
Proof.
  intros x y Hx Hy. unfold subGeneric.
  cbv beta iota zeta delta [add64 sub64]. rewrite qg_eq, Z.sub_0_r.
  destruct (Z.ltb_spec (x - y) 0) as [E | E].
  - change (1 =? 0) with false. cbn [negb].
    assert (H1 : (x - y) mod W = x - y + W) by zl. rewrite H1.
    replace ((x - y + W + pg + 0) mod W) with (x - y + pg) by zl.
    apply (Z.mod_unique (x - y) pg (-1)); zl.
  - change (0 =? 0) with true. cbn [negb].
    rewrite (Z.mod_small (x - y) W) by zl.
    symmetry. apply Z.mod_small. zl.
Qed.

Theorem sub_correct : forall x y, canon x -> canon y ->
  canon (subGeneric x y) /\ mval (subGeneric x y) = (mval x - mval y) mod pg.
Proof.
  intros x y Hx Hy. rewrite (sub_repr x y Hx Hy).
  split; [ apply canon_mod | apply mval_sub_mod ].
Qed.

Lemma neg_repr : forall x, canon x -> negGeneric x = (- x) mod pg.
Proof.
  intros x Hx. unfold negGeneric.
  destruct (Z.eqb_spec x 0) as [E | E].
  - subst x. symmetry. apply Z.mod_0_l. exact pg_ne0.
  - cbv beta iota zeta delta [sub64]. rewrite qg_eq.
    rewrite (Z.mod_small (pg - x - 0) W) by zl.
    apply (Z.mod_unique (- x) pg (-1)); zl.
Qed.

Theorem neg_correct : forall x, canon x ->
  canon (negGeneric x) /\ mval (negGeneric x) = (- mval x) mod pg.
Proof.
  intros x Hx. rewrite (neg_repr x Hx).
  split; [ apply canon_mod | apply mval_opp_mod ].
Qed.

(* _reduceGeneric: true domain = every 64-bit word (W < 2*pg, so one
   conditional subtraction always suffices) *)
Lemma reduce_repr : forall z, u64 z -> reduceGeneric z = z mod pg.
Proof.
  intros z Hz. unfold reduceGeneric. cbv beta iota zeta delta [sub64]. rewrite qg_eq.
  destruct (Z.ltb_spec z pg) as [E | E]; cbn [negb].
  - symmetry. apply Z.mod_small. zl.
  - rewrite (Z.mod_small (z - pg - 0) W) by zl.
    apply (Z.mod_unique z pg 1); zl.
Qed.

Theorem reduce_correct : forall z, u64 z ->
  canon (reduceGeneric z) /\ reduceGeneric z = z mod pg /\ mval (reduceGeneric z) = mval z.
Proof.
  intros z Hz. rewrite (reduce_repr z Hz).
  split; [ apply canon_mod | ]. split; [ reflexivity | apply mval_mod ].
Qed.

(* on a canonical element reduce is the identity *)
Corollary reduce_canon : forall z, canon z -> reduceGeneric z = z.
Proof.
  intros z Hz. rewrite (reduce_repr z (canon_u64 z Hz)). apply Z.mod_small. exact Hz.
Qed.

(* ------------------------------------------------------------------ *)
(** * Mul (field-value form) / Square *)

Theorem mul_correct : forall x y, canon x -> canon y ->
  canon (mulGeneric x y) /\ mval (mulGeneric x y) = (mval x * mval y) mod pg.
Proof. exact FfgMont.mul_correct. Qed.

Theorem square_correct : forall x, canon x ->
  canon (square x) /\ mval (square x) = (mval x * mval x) mod pg.
Proof. intros x Hx. unfold square. apply mul_correct; exact Hx. Qed.

(* ------------------------------------------------------------------ *)
(** * FromMont / ToMont / SetUint64 / ToUint64Regular *)

Theorem fromMontGeneric_correct : forall z, canon z ->
  canon (fromMontGeneric z) /\ fromMontGeneric z = mval z.
Proof. exact fromMont_ok. Qed.

(* also on non-canonical words *)
Theorem fromMontGeneric_correct_u64 : forall z, u64 z ->
  canon (fromMontGeneric z) /\ fromMontGeneric z = mval z.
Proof. exact fromMont_correct_u64. Qed.

Theorem toMont_correct : forall z, canon z ->
  canon (toMont z) /\ mval (toMont z) = z.
Proof. exact toMont_ok. Qed.

Theorem toMont_correct_u64 : forall z, u64 z ->
  canon (toMont z) /\ mval (toMont z) = z mod pg.
Proof. exact toMont_ok_u64. Qed.

(* v is ANY 64-bit word, including pg <= v < 2^64 *)
Theorem setUint64_correct : forall v, u64 v ->
  canon (setUint64 v) /\ mval (setUint64 v) = v mod pg.
Proof. intros v Hv. unfold setUint64. cbv zeta. exact (toMont_ok_u64 v Hv). Qed.

Theorem toUint64Regular_correct : forall z, canon z ->
  canon (toUint64Regular z) /\ toUint64Regular z = mval z.
Proof. intros z Hz. unfold toUint64Regular. cbv zeta. apply fromMont_ok. exact Hz. Qed.

Corollary toUint64Regular_setUint64 : forall v, u64 v ->
  toUint64Regular (setUint64 v) = v mod pg.
Proof.
  intros v Hv. destruct (setUint64_correct v Hv) as [Hc Hm].
  destruct (toUint64Regular_correct _ Hc) as [_ ->]. exact Hm.
Qed.

Corollary fromMont_toMont : forall z, canon z -> fromMontGeneric (toMont z) = z.
Proof.
  intros z Hz. destruct (toMont_ok z Hz) as [Hc Hm].
  destruct (fromMont_ok _ Hc) as [_ ->]. exact Hm.
Qed.

Corollary toMont_fromMont : forall z, canon z -> toMont (fromMontGeneric z) = z.
Proof.
  intros z Hz. destruct (fromMont_ok z Hz) as [Hc He].
  destruct (toMont_ok _ Hc) as [Hc2 Hm].
  apply mval_inj; [ exact Hc2 | exact Hz | ]. rewrite Hm. exact He.
Qed.

(* ------------------------------------------------------------------ *)
(** * mulByConstant, MulBy3 / MulBy5 / MulBy13, Butterfly *)

Theorem mulBy3_correct : forall x, canon x ->
  canon (mulBy3 x) /\ mval (mulBy3 x) = (3 * mval x) mod pg.
Proof.
  intros x Hx. change (mulBy3 x) with (addGeneric (doubleGeneric x) x).
  destruct (double_correct x Hx) as [Hc1 Hm1].
  destruct (add_correct _ x Hc1 Hx) as [Hc2 Hm2].
  split; [ exact Hc2 | ]. rewrite Hm2, Hm1.
  rewrite Z.add_mod_idemp_l by exact pg_ne0. f_equal. ring.
Qed.

Theorem mulBy5_correct : forall x, canon x ->
  canon (mulBy5 x) /\ mval (mulBy5 x) = (5 * mval x) mod pg.
Proof.
  intros x Hx.
  change (mulBy5 x) with (addGeneric (doubleGeneric (doubleGeneric x)) x).
  destruct (double_correct x Hx) as [Hc1 Hm1].
  destruct (double_correct _ Hc1) as [Hc2 Hm2].
  destruct (add_correct _ x Hc2 Hx) as [Hc3 Hm3].
  split; [ exact Hc3 | ]. rewrite Hm3, Hm2, Hm1.
  rewrite Z.mul_mod_idemp_r by exact pg_ne0.
  rewrite Z.add_mod_idemp_l by exact pg_ne0. f_equal. ring.
Qed.

(* the default branch: y.SetUint64(c); z.Mul(z, &y) *)
Lemma mulByConstant_default : forall x c, canon x -> u64 c ->
  canon (mulGeneric x (setUint64 c)) /\
  mval (mulGeneric x (setUint64 c)) = (c * mval x) mod pg.
Proof.
  intros x c Hx Hc. destruct (setUint64_correct c Hc) as [Hc1 Hm1].
  destruct (mul_correct x _ Hx Hc1) as [Hc2 Hm2].
  split; [ exact Hc2 | ]. rewrite Hm2, Hm1.
  rewrite Z.mul_mod_idemp_r by exact pg_ne0. f_equal. ring.
Qed.

Theorem mulBy13_correct : forall x, canon x ->
  canon (mulBy13 x) /\ mval (mulBy13 x) = (13 * mval x) mod pg.
Proof.
  intros x Hx. change (mulBy13 x) with (mulGeneric x (setUint64 13)).
  apply mulByConstant_default; [ exact Hx | unfold u64, W; lia ].
Qed.

(* every uint8 constant *)
Theorem mulByConstant_correct : forall x c, canon x -> 0 <= c < 256 ->
  canon (mulByConstant x c) /\ mval (mulByConstant x c) = (c * mval x) mod pg.
Proof.
  intros x c Hx Hc. unfold mulByConstant.
  destruct (Z.eqb_spec c 0) as [E0 | E0].
  { subst c. split; [ exact canon_0 | ]. rewrite mval_0, Z.mul_0_l.
    symmetry. apply Z.mod_0_l. exact pg_ne0. }
  destruct (Z.eqb_spec c 1) as [E1 | E1].
  { subst c. split; [ exact Hx | ]. rewrite Z.mul_1_l. symmetry. apply mval_mod_self. }
  destruct (Z.eqb_spec c 2) as [E2 | E2].
  { subst c. apply double_correct. exact Hx. }
  destruct (Z.eqb_spec c 3) as [E3 | E3].
  { subst c. exact (mulBy3_correct x Hx). }
  destruct (Z.eqb_spec c 5) as [E5 | E5].
  { subst c. exact (mulBy5_correct x Hx). }
  cbv zeta. apply mulByConstant_default; [ exact Hx | unfold u64, W; lia ].
Qed.

Theorem butterfly_correct : forall a b, canon a -> canon b ->
  canon (fst (butterflyGeneric a b)) /\ canon (snd (butterflyGeneric a b)) /\
  mval (fst (butterflyGeneric a b)) = (mval a + mval b) mod pg /\
  mval (snd (butterflyGeneric a b)) = (mval a - mval b) mod pg.
Proof.
  intros a b Ha Hb. unfold butterflyGeneric. cbv zeta. cbn [fst snd].
  destruct (add_correct a b Ha Hb) as [Hc1 Hm1].
  destruct (sub_correct a b Ha Hb) as [Hc2 Hm2].
  split; [ exact Hc1 | ]. split; [ exact Hc2 | ]. split; [ exact Hm1 | exact Hm2 ].
Qed.

(* ------------------------------------------------------------------ *)
(** * Exp *)

Lemma bit_step : forall e i, 0 <= e -> 0 <= i ->
  exists k, 0 <= k /\ e / 2 ^ (i + 1) = k /\
            e / 2 ^ i = 2 * k + Z.b2z (Z.testbit e i).
Proof.
  intros e i He Hi.
  assert (Hp : 0 < 2 ^ i) by (apply Z.pow_pos_nonneg; lia).
  assert (Hd : 0 <= e / 2 ^ i) by (apply Z.div_pos; lia).
  exists (e / 2 ^ i / 2). split; [ apply Z.div_pos; lia | ]. split.
  - rewrite Z.pow_add_r by lia. change (2 ^ 1) with 2.
    rewrite Z.div_div by lia. reflexivity.
  - rewrite (Z.testbit_spec' e i Hi).
    apply Z.div_mod. lia.
Qed.

Lemma exp_loop_correct : forall x e, canon x -> 0 <= e ->
  forall n z, canon z ->
  mval z = (mval x ^ (e / 2 ^ Z.of_nat n)) mod pg ->
  canon (exp_loop x e n z) /\ mval (exp_loop x e n z) = (mval x ^ e) mod pg.
Proof.
  intros x e Hx He. induction n as [ | i IH]; intros z Hz Hm.
  - cbn [exp_loop]. split; [ exact Hz | ]. rewrite Hm.
    change (2 ^ Z.of_nat 0) with 1. rewrite Z.div_1_r. reflexivity.
  - cbn [exp_loop]. cbv zeta. unfold square.
    destruct (bit_step e (Z.of_nat i) He ltac:(lia)) as (k & Hk & Hk1 & Hk2).
    replace (Z.of_nat i + 1) with (Z.of_nat (S i)) in Hk1 by lia.
    rewrite Hk1 in Hm.
    destruct (FfgMont.mul_correct z z Hz Hz) as [Hc1 Hm1].
    assert (Hsq : mval (mulGeneric z z) = (mval x ^ (2 * k)) mod pg).
    { rewrite Hm1, Hm. rewrite <- Z.mul_mod by exact pg_ne0.
      rewrite <- Z.pow_add_r by (clear - Hk; lia). f_equal. f_equal. clear. lia. }
    unfold bigBit.
    destruct (Z.testbit e (Z.of_nat i)); cbn [Z.b2z] in Hk2.
    + change (1 =? 1) with true. cbv iota.
      destruct (FfgMont.mul_correct _ x Hc1 Hx) as [Hc2 Hm2].
      apply IH; [ exact Hc2 | ]. rewrite Hm2, Hsq, Hk2.
      rewrite Z.mul_mod_idemp_l by exact pg_ne0.
      rewrite Z.pow_add_r by (clear - Hk; lia). rewrite Z.pow_1_r. reflexivity.
    + change (0 =? 1) with false. cbv iota.
      apply IH; [ exact Hc1 | ]. rewrite Hsq, Hk2. rewrite Z.add_0_r. reflexivity.
Qed.

Theorem exp_correct : forall x e, canon x -> 0 <= e ->
  canon (exp x e) /\ mval (exp x e) = (mval x ^ e) mod pg.
Proof.
  intros x e Hx He. unfold exp.
  destruct (Z.eqb_spec e 0) as [E | E].
  - subst e. split; [ exact canon_one | ]. rewrite mval_one, Z.pow_0_r.
    symmetry. apply Z.mod_small. unfold pg. lia.
  - cbv zeta. apply exp_loop_correct; [ exact Hx | exact He | exact Hx | ].
    unfold bigBitLen. destruct (Z.eqb_spec e 0) as [E0 | _]; [ contradiction | ].
    replace (Z.log2 e + 1 - 1) with (Z.log2 e) by lia.
    pose proof (Z.log2_nonneg e) as Hl.
    rewrite Z2Nat.id by exact Hl.
    destruct (Z.log2_spec e ltac:(lia)) as [Hlo Hhi].
    rewrite Z.pow_succ_r in Hhi by exact Hl.
    assert (Hq : e / 2 ^ Z.log2 e = 1).
    { symmetry. apply (Z.div_unique e (2 ^ Z.log2 e) 1 (e - 2 ^ Z.log2 e)); lia. }
    rewrite Hq, Z.pow_1_r. symmetry. apply mval_mod_self.
Qed.

(* ------------------------------------------------------------------ *)
(** * Inverse / Div / Halve *)

Lemma modinv_inv_mod : forall v, modinv v = inv_mod v pg.
Proof. intros v. unfold modinv, inv_mod. reflexivity. Qed.

Theorem inverse_correct : forall x, canon x ->
  canon (inverse x) /\ mval (inverse x) = inv_mod (mval x) pg.
Proof.
  intros x Hx. unfold inverse. cbv zeta.
  destruct (toBigIntRegular_ok x Hx) as [_ ->].
  rewrite modinv_inv_mod.
  destruct (setBigInt_ok (inv_mod (mval x) pg)) as [Hc Hm].
  split; [ exact Hc | ]. rewrite Hm. apply Z.mod_small.
  apply inv_mod_range. exact pg_pos.
Qed.

Corollary inverse_zero : inverse 0 = 0.
Proof.
  destruct (inverse_correct 0 canon_0) as [Hc Hm].
  apply mval_inj; [ exact Hc | exact canon_0 | ].
  rewrite Hm, mval_0. apply inv_mod_zero; [ exact pg_prime | exact pg_gt_2 | ].
  apply Z.mod_0_l. exact pg_ne0.
Qed.

(* x * x^-1 = 1 for every non-zero canonical x *)
Corollary inverse_mul : forall x, canon x -> x <> 0 ->
  (mval x * mval (inverse x)) mod pg = 1.
Proof.
  intros x Hx Hnz. destruct (inverse_correct x Hx) as [_ ->].
  apply inv_mod_pg. rewrite mval_mod_self.
  intros H0. apply Hnz. apply (mval_zero_iff x Hx). exact H0.
Qed.

Theorem div_correct : forall x y, canon x -> canon y ->
  canon (div x y) /\ mval (div x y) = (mval x * inv_mod (mval y) pg) mod pg.
Proof.
  intros x y Hx Hy. unfold div. cbv zeta.
  destruct (inverse_correct y Hy) as [Hc Hm].
  destruct (FfgMont.mul_correct x _ Hx Hc) as [Hc2 Hm2].
  split; [ exact Hc2 | ]. rewrite Hm2, Hm. reflexivity.
Qed.

(* (x / y) * y = x for y <> 0 *)
Corollary div_mul : forall x y, canon x -> canon y -> y <> 0 ->
  (mval (div x y) * mval y) mod pg = mval x.
Proof.
  intros x y Hx Hy Hnz. destruct (div_correct x y Hx Hy) as [_ Hd]. rewrite Hd.
  rewrite (mul_inv_cancel (mval x) (mval y) (inv_mod (mval y) pg)).
  - apply mval_mod_self.
  - apply inv_mod_pg. rewrite mval_mod_self.
    intros H0. apply Hnz. apply (mval_zero_iff y Hy). exact H0.
Qed.

Lemma two_mod_pg : 2 mod pg <> 0.
Proof. rewrite Z.mod_small by (unfold pg; lia). lia. Qed.

Lemma mval_two : mval (doubleGeneric one) = 2.
Proof.
  destruct (double_correct one canon_one) as [_ ->]. rewrite mval_one.
  apply Z.mod_small. unfold pg. lia.
Qed.

Theorem halve_correct : forall z, canon z ->
  canon (halve z) /\ (2 * mval (halve z)) mod pg = mval z.
Proof.
  intros z Hz. unfold halve. cbv zeta.
  destruct (double_correct one canon_one) as [Hc2 _].
  destruct (inverse_correct _ Hc2) as [Hci Hmi]. rewrite mval_two in Hmi.
  destruct (FfgMont.mul_correct z _ Hz Hci) as [Hc Hm].
  split; [ exact Hc | ]. rewrite Hm, Hmi. rewrite Z.mul_comm.
  rewrite (mul_inv_cancel (mval z) 2 (inv_mod 2 pg)).
  - apply mval_mod_self.
  - apply inv_mod_pg. exact two_mod_pg.
Qed.

(* ------------------------------------------------------------------ *)
(** * BatchInvert *)

Lemma mval_nonzero : forall z, canon z -> z <> 0 -> mval z mod pg <> 0.
Proof.
  intros z Hz Hnz. rewrite mval_mod_self. intros H0. apply Hnz.
  apply (mval_zero_iff z Hz). exact H0.
Qed.

Lemma batch_core : forall a acc res zs acc',
  Forall canon a -> canon acc ->
  batch_fwd a acc = (res, zs, acc') ->
  canon acc' /\ (mval acc <> 0 -> mval acc' <> 0) /\
  forall accI out accO, canon accI -> (mval accI * mval acc') mod pg = 1 ->
    batch_bwd a res zs accI = (out, accO) ->
    canon accO /\ (mval accO * mval acc) mod pg = 1 /\
    Forall canon out /\ map mval out = map (fun ai => inv_mod (mval ai) pg) a.
Proof.
  induction a as [ | ai a' IH]; intros acc res zs acc' Ha Hacc Hf.
  - cbn [batch_fwd] in Hf. inversion Hf; subst; clear Hf.
    split; [ exact Hacc | ]. split; [ tauto | ].
    intros accI out accO HcI HI Hb. cbn [batch_bwd] in Hb. inversion Hb; subst; clear Hb.
    split; [ exact HcI | ]. split; [ exact HI | ]. split; [ constructor | reflexivity ].
  - inversion Ha as [ | ? ? Hai Ha' ]; subst.
    cbn [batch_fwd] in Hf. destruct (Z.eqb_spec ai 0) as [E | E].
    + (* zero entry: skipped by both loops *)
      destruct (batch_fwd a' acc) as [[res' zs'] acc1] eqn:Ef.
      inversion Hf; subst; clear Hf.
      destruct (IH _ _ _ _ Ha' Hacc Ef) as (Hc & Hnz & Hbw).
      split; [ exact Hc | ]. split; [ exact Hnz | ].
      intros accI out accO HcI HI Hb. cbn [batch_bwd] in Hb.
      destruct (batch_bwd a' res' zs' accI) as [out' accO'] eqn:Eb.
      inversion Hb; subst; clear Hb.
      destruct (Hbw _ _ _ HcI HI Eb) as (HcO & HO & Hout & Hmap).
      split; [ exact HcO | ]. split; [ exact HO | ].
      split; [ constructor; [ exact canon_0 | exact Hout ] | ].
      cbn [map]. apply f_equal2; [ | exact Hmap ].
      rewrite mval_0. symmetry.
      apply inv_mod_zero; [ exact pg_prime | exact pg_gt_2 | ].
      apply Z.mod_0_l. exact pg_ne0.
    + (* non-zero entry *)
      destruct (FfgMont.mul_correct acc ai Hacc Hai) as [Hc1 Hm1].
      destruct (batch_fwd a' (mulGeneric acc ai)) as [[res' zs'] acc1] eqn:Ef.
      inversion Hf; subst; clear Hf.
      destruct (IH _ _ _ _ Ha' Hc1 Ef) as (Hc & Hnz & Hbw).
      pose proof (mval_nonzero ai Hai E) as Hainz.
      split; [ exact Hc | ]. split.
      { intros Haccnz. apply Hnz. rewrite Hm1. intros H0.
        destruct (prime_mul_zero pg _ _ pg_prime H0) as [H1 | H1].
        - rewrite mval_mod_self in H1. contradiction.
        - contradiction. }
      intros accI out accO HcI HI Hb. cbn [batch_bwd] in Hb.
      destruct (batch_bwd a' res' zs' accI) as [out' accM] eqn:Eb.
      inversion Hb; subst; clear Hb.
      destruct (Hbw _ _ _ HcI HI Eb) as (HcM & HM & Hout & Hmap).
      destruct (FfgMont.mul_correct acc accM Hacc HcM) as [Hcr Hmr].
      destruct (FfgMont.mul_correct accM ai HcM Hai) as [HcO HmO].
      apply eqp_one_elim in HM. rewrite Hm1 in HM. rewrite eqp_mod in HM.
      split; [ exact HcO | ]. split.
      { apply eqp_one_intro. rewrite HmO, eqp_mod. rewrite <- HM.
        replace (mval accM * mval ai * mval acc) with (mval accM * (mval acc * mval ai)) by ring.
        reflexivity. }
      split; [ constructor; [ exact Hcr | exact Hout ] | ].
      cbn [map]. apply f_equal2; [ | exact Hmap ].
      rewrite Hmr. apply inv_mod_unique; [ exact pg_prime | exact Hainz | ].
      apply eqp_one_intro. rewrite <- HM.
      replace (mval ai * (mval acc * mval accM)) with (mval accM * (mval acc * mval ai)) by ring.
      reflexivity.
Qed.

(* every entry (zero entries included: inv_mod 0 pg = 0) *)
Theorem batchInvert_correct : forall a, Forall canon a ->
  Forall canon (batchInvert a) /\
  map mval (batchInvert a) = map (fun ai => inv_mod (mval ai) pg) a.
Proof.
  intros a Ha. destruct a as [ | a0 a'].
  - cbn. split; [ constructor | reflexivity ].
  - unfold batchInvert. cbv zeta.
    destruct (batch_fwd (a0 :: a') one) as [[res zs] acc'] eqn:Ef.
    destruct (batch_core _ _ _ _ _ Ha canon_one Ef) as (Hc & Hnz & Hbw).
    destruct (inverse_correct acc' Hc) as [HcI HmI].
    destruct (batch_bwd (a0 :: a') res zs (inverse acc')) as [out accO] eqn:Eb.
    assert (HI : (mval (inverse acc') * mval acc') mod pg = 1).
    { rewrite HmI, Z.mul_comm. apply inv_mod_pg. rewrite mval_mod_self.
      apply Hnz. rewrite mval_one. lia. }
    destruct (Hbw _ _ _ HcI HI Eb) as (_ & _ & Hout & Hmap).
    split; [ exact Hout | exact Hmap ].
Qed.

Lemma canon_list_inj : forall l1 l2, Forall canon l1 -> Forall canon l2 ->
  map mval l1 = map mval l2 -> l1 = l2.
Proof.
  induction l1 as [ | x l1 IH]; intros l2 H1 H2 Hm; destruct l2 as [ | y l2];
    cbn [map] in Hm; try discriminate; [ reflexivity | ].
  inversion H1; subst. inversion H2; subst. inversion Hm.
  f_equal; [ apply mval_inj; assumption | apply IH; assumption ].
Qed.

(* BatchInvert is entry-wise Inverse *)
Corollary batchInvert_map_inverse : forall a, Forall canon a ->
  batchInvert a = map inverse a.
Proof.
  intros a Ha. destruct (batchInvert_correct a Ha) as [Hc Hm].
  apply canon_list_inj; [ exact Hc | | ].
  - apply Forall_map. eapply Forall_impl; [ | exact Ha ].
    intros x Hx. apply inverse_correct. exact Hx.
  - rewrite Hm, map_map. apply map_ext_in. intros x Hx.
    rewrite Forall_forall in Ha. destruct (inverse_correct x (Ha x Hx)) as [_ ->]. reflexivity.
Qed.

(* index form: zero entries stay zero, the others are inverted *)
Corollary batchInvert_nth : forall a i, Forall canon a ->
  length (batchInvert a) = length a /\
  (nth i a 0 = 0 -> nth i (batchInvert a) 0 = 0) /\
  (nth i a 0 <> 0 ->
     (mval (nth i a 0) * mval (nth i (batchInvert a) 0)) mod pg = 1).
Proof.
  intros a i Ha. rewrite (batchInvert_map_inverse a Ha).
  split; [ apply map_length | ].
  assert (Hn : nth i (map inverse a) 0 = inverse (nth i a 0)).
  { rewrite <- inverse_zero at 1. apply map_nth. }
  rewrite Hn. split.
  - intros ->. exact inverse_zero.
  - intros Hnz. apply inverse_mul; [ | exact Hnz ].
    destruct (Nat.lt_ge_cases i (length a)) as [Hi | Hi].
    + rewrite Forall_forall in Ha. apply Ha. apply nth_In. exact Hi.
    + rewrite nth_overflow by exact Hi. exact canon_0.
Qed.

Print Assumptions add_correct.
Print Assumptions sub_correct.
Print Assumptions neg_correct.
Print Assumptions double_correct.
Print Assumptions reduce_correct.
Print Assumptions mul_correct.
Print Assumptions square_correct.
Print Assumptions mulBy3_correct.
Print Assumptions mulBy5_correct.
Print Assumptions mulBy13_correct.
Print Assumptions mulByConstant_correct.
Print Assumptions butterfly_correct.
Print Assumptions halve_correct.
Print Assumptions fromMontGeneric_correct.
Print Assumptions fromMontGeneric_correct_u64.
Print Assumptions toMont_correct.
Print Assumptions setUint64_correct.
Print Assumptions toUint64Regular_correct.
Print Assumptions exp_correct.
Print Assumptions inverse_correct.
Print Assumptions div_correct.
Print Assumptions batchInvert_correct.
Print Assumptions batchInvert_map_inverse.
Print Assumptions batchInvert_nth.

(* Correctness of the projective arithmetic of Model/BabyJubCore.v
   (PointProjective.Add, Affine, Point.Projective, the loop of Point.Mul)
   against the affine twisted Edwards law of Spec/Edwards.v; parametric in
   (p, a, d) under the hypotheses of Proofs/EdwardsGroup.v. *)
From Coq Require Import ZArith Znumtheory Lia Morphisms Setoid.
From Verif Require Import Lib.Powmod Lib.NumberTheory Spec.Edwards Model.BabyJubCore.
From Verif Require Import Proofs.EdwardsField Proofs.EdwardsComplete Proofs.EdwardsAssoc
  Proofs.EdwardsGroup Proofs.BabyJubSmul.
Local Open Scope Z_scope.

Section CoreProofs.
  Variables p a d : Z.
  Hypothesis Hp : prime p.
  Hypothesis Hp2 : 2 < p.
  Hypothesis Ha : exists ra, (ra * ra) mod p = a mod p /\ a mod p <> 0.
  Hypothesis Hd : forall r, (r * r) mod p <> d mod p.

  Local Notation "x == y" := (eqm p x y) (at level 70, no associativity).
  Local Notation oc := (on_curve p a d).
  Local Notation can := (canonical p).
  Local Notation add := (ed_add p a d).
  Local Notation O := ed_zero.
  Local Notation smul := (Edwards.smul p a d).

  Let Hp1 : 1 < p := p_gt_1 p Hp.

  (* all three projective coordinates are reduced *)
  Definition pcanon (P : ppoint) : Prop :=
    let '(X, Y, Z) := P in 0 <= X < p /\ 0 <= Y < p /\ 0 <= Z < p.

  (* (X : Y : Z) with Z <> 0 stands for the affine point (X/Z, Y/Z) *)
  Definition represents (P' : ppoint) (P : point) : Prop :=
    let '(X, Y, Z) := P' in
    let '(x, y) := P in
    pcanon (X, Y, Z) /\ Z mod p <> 0 /\ X == x * Z /\ Y == y * Z.

  Lemma represents_canon : forall P' P, represents P' P -> pcanon P'.
  Proof. intros [[X Y] Z] [x y] H. exact (proj1 H). Qed.

  (* ---- PointProjective.Add ---- *)

  Lemma padd_canon : forall P Q, pcanon (padd p a d P Q).
  Proof.
    intros [[X1 Y1] Z1] [[X2 Y2] Z2]. cbv [padd pcanon fmul fadd fsub].
    repeat split; apply Z.mod_pos_bound; lia.
  Qed.

  (* the field operations of the model respect congruence and are congruent
     to the integer operations *)
  Local Instance fmul_proper : Proper (eqm p ==> eqm p ==> eqm p) (fmul p).
  Proof.
    intros x x' Hx y y' Hy. unfold fmul.
    transitivity (x * y); [ apply eqm_mod | ].
    transitivity (x' * y'); [ rewrite Hx, Hy; reflexivity | symmetry; apply eqm_mod ].
  Qed.

  Local Instance fadd_proper : Proper (eqm p ==> eqm p ==> eqm p) (fadd p).
  Proof.
    intros x x' Hx y y' Hy. unfold fadd.
    transitivity (x + y); [ apply eqm_mod | ].
    transitivity (x' + y'); [ rewrite Hx, Hy; reflexivity | symmetry; apply eqm_mod ].
  Qed.

  Local Instance fsub_proper : Proper (eqm p ==> eqm p ==> eqm p) (fsub p).
  Proof.
    intros x x' Hx y y' Hy. unfold fsub.
    transitivity (x - y); [ apply eqm_mod | ].
    transitivity (x' - y'); [ rewrite Hx, Hy; reflexivity | symmetry; apply eqm_mod ].
  Qed.

  Lemma fmul_eqm : forall x y, fmul p x y == x * y.
  Proof. intros x y. unfold fmul. apply eqm_mod. Qed.
  Lemma fadd_eqm : forall x y, fadd p x y == x + y.
  Proof. intros x y. unfold fadd. apply eqm_mod. Qed.
  Lemma fsub_eqm : forall x y, fsub p x y == x - y.
  Proof. intros x y. unfold fsub. apply eqm_mod. Qed.

  (* the temporaries of the code, as polynomials modulo p *)
  Lemma padd_coords : forall X1 Y1 Z1 X2 Y2 Z2 X3 Y3 Z3,
    padd p a d (X1, Y1, Z1) (X2, Y2, Z2) = (X3, Y3, Z3) ->
    X3 == ((X1 + Y1) * (X2 + Y2) - X1 * X2 - Y1 * Y2) * (Z1 * Z2)
          * (Z1 * Z2 * (Z1 * Z2) - d * (X1 * X2) * (Y1 * Y2)) /\
    Y3 == (Y1 * Y2 - a * (X1 * X2)) * (Z1 * Z2)
          * (Z1 * Z2 * (Z1 * Z2) + d * (X1 * X2) * (Y1 * Y2)) /\
    Z3 == (Z1 * Z2 * (Z1 * Z2) - d * (X1 * X2) * (Y1 * Y2))
          * (Z1 * Z2 * (Z1 * Z2) + d * (X1 * X2) * (Y1 * Y2)).
  Proof.
    intros X1 Y1 Z1 X2 Y2 Z2 X3 Y3 Z3 E.
    cbv beta iota zeta delta [padd] in E.
    injection E as E1 E2 E3. subst X3 Y3 Z3.
    repeat split;
      repeat (rewrite fmul_eqm || rewrite fadd_eqm || rewrite fsub_eqm); reflexivity.
  Qed.

  (* the algebra: cross-multiplied addition formulas *)
  Lemma padd_alg : forall X1 Y1 Z1 X2 Y2 Z2 x1 y1 x2 y2 x3 y3,
    X1 == x1 * Z1 -> Y1 == y1 * Z1 -> X2 == x2 * Z2 -> Y2 == y2 * Z2 ->
    x3 * ADx a d x1 y1 x2 y2 == AX a d x1 y1 x2 y2 ->
    y3 * ADy a d x1 y1 x2 y2 == AY a d x1 y1 x2 y2 ->
    let A := Z1 * Z2 in
    let F := A * A - d * (X1 * X2) * (Y1 * Y2) in
    let G := A * A + d * (X1 * X2) * (Y1 * Y2) in
    F * G == (A * A) * (A * A) * (ADx a d x1 y1 x2 y2 * ADy a d x1 y1 x2 y2) /\
    ((X1 + Y1) * (X2 + Y2) - X1 * X2 - Y1 * Y2) * A * F == x3 * (F * G) /\
    (Y1 * Y2 - a * (X1 * X2)) * A * G == y3 * (F * G).
  Proof.
    intros X1 Y1 Z1 X2 Y2 Z2 x1 y1 x2 y2 x3 y3 H1 H2 H3 H4 Hx Hy A F G.
    set (Dx := ADx a d x1 y1 x2 y2) in *. set (Dy := ADy a d x1 y1 x2 y2) in *.
    assert (EF : F == A * A * Dy).
    { unfold F, A, Dy, ADy. rewrite H1, H2, H3, H4. ering. }
    assert (EG : G == A * A * Dx).
    { unfold G, A, Dx, ADx. rewrite H1, H2, H3, H4. ering. }
    assert (EX : (X1 + Y1) * (X2 + Y2) - X1 * X2 - Y1 * Y2 == A * AX a d x1 y1 x2 y2).
    { unfold A, AX. rewrite H1, H2, H3, H4. ering. }
    assert (EY : Y1 * Y2 - a * (X1 * X2) == A * AY a d x1 y1 x2 y2).
    { unfold A, AY. rewrite H1, H2, H3, H4. ering. }
    split; [ | split ].
    - rewrite EF, EG. ering.
    - rewrite EX, EF, EG, <- Hx. ering.
    - rewrite EY, EF, EG, <- Hy. ering.
  Qed.

  Theorem padd_correct : forall P1' P2' P1 P2, oc P1 -> oc P2 ->
    represents P1' P1 -> represents P2' P2 ->
    represents (padd p a d P1' P2') (add P1 P2).
  Proof.
    intros [[X1 Y1] Z1] [[X2 Y2] Z2] [x1 y1] [x2 y2] Hoc1 Hoc2
           (Hc1 & Hz1 & Hx1 & Hy1) (Hc2 & Hz2 & Hx2 & Hy2).
    pose proof (padd_canon (X1, Y1, Z1) (X2, Y2, Z2)) as Hc3.
    pose proof (add_x_eq p a d Hp Hp2 Ha Hd x1 y1 x2 y2 Hoc1 Hoc2) as Hx.
    pose proof (add_y_eq p a d Hp Hp2 Ha Hd x1 y1 x2 y2 Hoc1 Hoc2) as Hy.
    pose proof (ADx_nz p a d Hp Hp2 Ha Hd x1 y1 x2 y2 Hoc1 Hoc2) as HDx.
    pose proof (ADy_nz p a d Hp Hp2 Ha Hd x1 y1 x2 y2 Hoc1 Hoc2) as HDy.
    destruct (add (x1, y1) (x2, y2)) as [x3 y3]. cbn [fst snd] in Hx, Hy.
    destruct (padd p a d (X1, Y1, Z1) (X2, Y2, Z2)) as [[X3 Y3] Z3] eqn:E.
    destruct (padd_coords _ _ _ _ _ _ _ _ _ E) as (EX & EY & EZ).
    destruct (padd_alg X1 Y1 Z1 X2 Y2 Z2 x1 y1 x2 y2 x3 y3 Hx1 Hy1 Hx2 Hy2 Hx Hy)
      as (AZ & AX' & AY').
    cbv zeta in AZ, AX', AY'.
    cbn [represents]. split; [ exact Hc3 | ]. split; [ | split ].
    - intros E0. apply eqm_zero_iff in E0. rewrite EZ, AZ in E0. revert E0.
      assert (Hz1' : ~ Z1 == 0) by (intros E0; apply Hz1; apply eqm_zero_iff; exact E0).
      assert (Hz2' : ~ Z2 == 0) by (intros E0; apply Hz2; apply eqm_zero_iff; exact E0).
      assert (HA : ~ Z1 * Z2 == 0) by (apply (eqm_mul_nz p Hp); assumption).
      repeat apply (eqm_mul_nz p Hp); assumption.
    - rewrite EX, EZ. exact AX'.
    - rewrite EY, EZ. exact AY'.
  Qed.

  (* ---- PointProjective.Affine ---- *)

  Theorem paffine_correct : forall P' P, represents P' P -> can P -> paffine p P' = P.
  Proof.
    intros [[X Y] Z] [x y] (Hc & Hz & Hx & Hy) [Hcx Hcy]. cbn [paffine].
    destruct (Z.eqb_spec Z 0) as [E0 | E0].
    - exfalso. apply Hz. rewrite E0. apply Zmod_0_l.
    - assert (Hz' : ~ Z == 0) by (intros E1; apply Hz; apply eqm_zero_iff; exact E1).
      unfold fmul. f_equal; apply (fdiv_unique p Hp); try assumption; symmetry; assumption.
  Qed.

  (* ---- Point.Projective ---- *)

  Theorem pproj_correct_mod : forall x y, represents (pproj p (x, y)) (x mod p, y mod p).
  Proof.
    intros x y. cbn [pproj represents pcanon].
    pose proof (Z.mod_pos_bound x p) as Bx. pose proof (Z.mod_pos_bound y p) as By.
    split; [ lia | ]. split; [ rewrite Z.mod_small by lia; lia | ].
    split; ering.
  Qed.

  Theorem pproj_correct : forall P, can P -> represents (pproj p P) P.
  Proof.
    intros [x y] [Hx Hy]. pose proof (pproj_correct_mod x y) as H.
    rewrite !Z.mod_small in H by assumption. exact H.
  Qed.

  (* pproj only sees the residues *)
  Lemma pproj_mod : forall x y, pproj p (x mod p, y mod p) = pproj p (x, y).
  Proof. intros x y. cbn [pproj]. rewrite !Zmod_mod. reflexivity. Qed.

  (* affine of the sum of two projective points = sum of the affine points *)
  Corollary paffine_padd : forall P1' P2' P1 P2, oc P1 -> oc P2 ->
    represents P1' P1 -> represents P2' P2 ->
    paffine p (padd p a d P1' P2') = add P1 P2.
  Proof.
    intros P1' P2' P1 P2 H1 H2 R1 R2. apply paffine_correct.
    - apply padd_correct; assumption.
    - apply can_add; assumption.
  Qed.

  Corollary paffine_padd_pproj : forall P1 P2, oc P1 -> oc P2 ->
    paffine p (padd p a d (pproj p P1) (pproj p P2)) = add P1 P2.
  Proof.
    intros [x1 y1] [x2 y2] H1 H2.
    rewrite <- (ed_add_mod p a d Hp x1 y1 x2 y2).
    apply paffine_padd; try apply pproj_correct_mod; apply oc_mod; assumption.
  Qed.

  Corollary paffine_pproj : forall P, can P -> paffine p (pproj p P) = P.
  Proof. intros P H. apply paffine_correct; [ apply pproj_correct; exact H | exact H ]. Qed.

  (* ---- the loop of Point.Mul ---- *)

  Lemma bitlen_nonneg : forall s, 0 <= bitlen s.
  Proof.
    intros s. unfold bitlen. destruct (Z.eqb s 0); [ lia | ].
    pose proof (Z.log2_nonneg (Z.abs s)). lia.
  Qed.

  Lemma bitlen_bound : forall s, 0 <= s -> s < 2 ^ bitlen s.
  Proof.
    intros s Hs. unfold bitlen. destruct (Z.eqb_spec s 0) as [E | E].
    - subst s. reflexivity.
    - rewrite Z.abs_eq by exact Hs.
      assert (H0 : 0 < s) by lia.
      pose proof (Z.log2_spec s H0) as [_ H]. unfold Z.succ in H. exact H.
  Qed.

  Lemma mod_pow2_succ : forall s i, 0 <= i ->
    s mod 2 ^ (i + 1) = s mod 2 ^ i + 2 ^ i * Z.b2z (Z.testbit s i).
  Proof.
    intros s i Hi. rewrite Z.pow_add_r by lia. rewrite Z.pow_1_r.
    assert (H2 : 0 < 2 ^ i) by (apply Z.pow_pos_nonneg; lia).
    rewrite Z.rem_mul_r by lia. rewrite <- Z.testbit_spec' by exact Hi. reflexivity.
  Qed.

  Lemma mul_loop_correct : forall n i s res ex P, 0 <= i -> oc P ->
    represents res (smul (s mod 2 ^ i) P) ->
    represents ex (smul (2 ^ i) P) ->
    represents (mul_loop p a d n i s res ex) (smul (s mod 2 ^ (i + Z.of_nat n)) P).
  Proof.
    induction n as [ | n IH ]; intros i s res ex P Hi HP Hres Hex.
    - cbn [mul_loop]. change (Z.of_nat 0) with 0. rewrite Z.add_0_r. exact Hres.
    - cbn [mul_loop].
      replace (i + Z.of_nat (S n)) with ((i + 1) + Z.of_nat n) by lia.
      assert (H2 : 0 < 2 ^ i) by (apply Z.pow_pos_nonneg; lia).
      pose proof (Z.mod_pos_bound s (2 ^ i) H2) as Hm.
      pose proof (smul_oc p a d Hp Hp2 Ha Hd) as Hsoc.
      apply IH; [ lia | exact HP | | ].
      + rewrite (mod_pow2_succ s i Hi).
        destruct (Z.testbit s i); cbn [Z.b2z].
        * rewrite Z.mul_1_r.
          rewrite (smul_add p a d Hp Hp2 Ha Hd) by (lia || exact HP).
          apply padd_correct; try assumption; apply Hsoc; exact HP.
        * rewrite Z.mul_0_r, Z.add_0_r. exact Hres.
      + rewrite Z.pow_add_r by lia. rewrite Z.pow_1_r.
        replace (2 ^ i * 2) with (2 ^ i + 2 ^ i) by ring.
        rewrite (smul_add p a d Hp Hp2 Ha Hd) by (lia || exact HP).
        apply padd_correct; try assumption; apply Hsoc; exact HP.
  Qed.

  (* what the loop computes for every integer scalar: the BitLen(|s|) low bits
     of the two's complement representation of s *)
  Theorem pmul_general : forall s P, oc P ->
    pmul p a d s P = smul (s mod 2 ^ bitlen s) P.
  Proof.
    intros s [x y] HP. unfold pmul.
    pose proof (bitlen_nonneg s) as Hb.
    assert (HPm : oc (x mod p, y mod p)) by (apply oc_mod; exact HP).
    assert (HPc : can (x mod p, y mod p)).
    { cbn [canonical]. split; apply Z.mod_pos_bound; lia. }
    apply paffine_correct; [ | apply (smul_can p a d Hp Hp2 Ha Hd); exact HP ].
    replace (bitlen s) with (0 + Z.of_nat (Z.to_nat (bitlen s))) at 2 by lia.
    apply mul_loop_correct; [ lia | exact HP | | ].
    - rewrite Z.pow_0_r, Z.mod_1_r. change (smul 0 (x, y)) with O.
      cbn [represents pcanon ed_zero]. split; [ lia | ].
      split; [ rewrite Z.mod_small by lia; lia | ]. split; ering.
    - rewrite Z.pow_0_r. rewrite <- (smul_mod p a d Hp 1 x y).
      rewrite (smul_1 p a d Hp) by assumption.
      apply pproj_correct_mod.
  Qed.

  (* Point.Mul for non-negative scalars of any bit length, any integer
     coordinates satisfying the curve equation *)
  Theorem pmul_correct_gen : forall s P, 0 <= s -> oc P ->
    pmul p a d s P = smul s P.
  Proof.
    intros s P Hs HP. rewrite (pmul_general s P HP).
    rewrite Z.mod_small; [ reflexivity | ].
    split; [ exact Hs | apply bitlen_bound; exact Hs ].
  Qed.

  Theorem pmul_correct : forall s P, 0 <= s -> oc P -> can P ->
    pmul p a d s P = smul s P.
  Proof. intros s P Hs HP _. apply pmul_correct_gen; assumption. Qed.

  Corollary pmul_closed : forall s P, oc P ->
    oc (pmul p a d s P) /\ can (pmul p a d s P).
  Proof.
    intros s P HP. rewrite (pmul_general s P HP).
    apply (smul_closed p a d Hp Hp2 Ha Hd). exact HP.
  Qed.

  (* the input coordinates are only used modulo p *)
  Lemma pmul_mod : forall s x y, pmul p a d s (x mod p, y mod p) = pmul p a d s (x, y).
  Proof. intros s x y. unfold pmul. rewrite pproj_mod. reflexivity. Qed.
End CoreProofs.

Print Assumptions padd_correct.
Print Assumptions paffine_correct.
Print Assumptions pproj_correct.
Print Assumptions pmul_general.
Print Assumptions pmul_correct.
Print Assumptions pmul_closed.

(* The hand-written limb model Model/FfLimbs.v (what every theorem of
   Proofs/Ff*.v is about) EQUALS the Gallina that tools/limbgen regenerates
   from /repo/ff/element.go, arith.go, element_ops_noasm.go on every run
   (Gen/FfRoutines.v).

   Every lemma [gen_<name>_eq] is proved by conversion: both sides are put in
   the same normal form by one [cbv] with an explicit delta list (the
   definitions of the two files, the constants q0..q3/qInvNeg/... of the hand
   model, which are [nth i <generated list> 0], and [nth]); the word
   primitives add64, sub64, mul64, madd0..3, wmul, ... and Z.ltb/Z.eqb/andb/
   orb/negb are NOT unfolded.  The two normal forms must then be syntactically
   identical ([constr_eq]), so that a single changed carry-in, operand, literal
   or comparison in the Go source makes the lemma fail at once.

   (Plain [reflexivity] on the unnormalised statement is correct too but can
   take minutes: the unifier unfolds add64/madd.. eagerly and loses sharing.)

   No axioms. *)
From Coq Require Import ZArith List Bool.
From Verif Require Import Lib.Params Lib.Words.
From Verif Require Gen.FfConsts Model.FfLimbs Gen.FfRoutines.
Local Open Scope Z_scope.

(* normal form: the definitions of the hand model *)
Ltac norm_hand :=
  cbv beta iota zeta delta
    [FfLimbs.el FfLimbs.q0 FfLimbs.q1 FfLimbs.q2 FfLimbs.q3 FfLimbs.qEl
     FfLimbs.qInvNeg FfLimbs.rSquare_el FfLimbs.one FfLimbs.zero
     FfLimbs.lt_q FfLimbs.equal FfLimbs.isZero
     FfLimbs.mulGeneric FfLimbs.fromMontGeneric FfLimbs.addGeneric
     FfLimbs.doubleGeneric FfLimbs.subGeneric FfLimbs.negGeneric
     FfLimbs.reduceGeneric FfLimbs.halve
     nth FfConsts.qElement FfConsts.rSquare FfConsts.biglits_mulGeneric
     FfConsts.biglits_Element_SetOne].

(* normal form: the generated definitions of the primitive routines *)
Ltac norm_gen :=
  cbv beta iota zeta delta
    [FfRoutines.el FfRoutines.madd0 FfRoutines.madd1 FfRoutines.madd2
     FfRoutines.madd3 FfRoutines.Element_IsZero FfRoutines.Element_Equal
     FfRoutines.Element_SetZero FfRoutines.Element_SetOne
     FfRoutines.Element_Set
     FfRoutines.mulGeneric FfRoutines.fromMontGeneric FfRoutines.addGeneric
     FfRoutines.doubleGeneric FfRoutines.subGeneric FfRoutines.negGeneric
     FfRoutines.reduceGeneric FfRoutines.Element_Halve].

(* the two sides are the same term *)
Ltac same :=
  lazymatch goal with
  | |- ?a = ?b => first [ constr_eq a b | fail 1 "generated and hand-written routine differ" ]
  end;
  reflexivity.

(* fallback when the two sides are not syntactically the same after normalisation (see
   Proofs/FfgRoutinesEq.v): carries / borrows and comparisons made explicit and decided case by
   case, under a time limit (the four-limb routines have many conditionals) *)
Ltac norm_consts :=
  cbv beta iota zeta;
  rewrite ?Z.eqb_refl;
  change (1 =? 0) with false; change (0 =? 1) with false;
  cbv beta iota zeta delta [negb].
Ltac step_if :=
  match goal with
  | |- context [if ?c then _ else _] =>
      lazymatch c with
      | context [if _ then _ else _] => fail
      | true => fail
      | false => fail
      | _ => let E := fresh "E" in destruct c eqn:E
      end
  end.
Ltac semantic :=
  cbv beta iota zeta delta [add64 sub64 fst snd];
  rewrite ?Z.geb_leb, ?Z.leb_antisym, ?Z.gtb_ltb;
  timeout 90 (repeat (norm_consts; step_if));
  norm_consts; reflexivity.

Ltac by_norm := norm_hand; norm_gen; first [ same | timeout 120 semantic | fail 1 "generated and hand-written routine differ" ].

Ltac destruct_el x := destruct x as [[[? ?] ?] ?].

(* ------------------------------------------------------------------ *)
(** * arith.go *)

Lemma gen_madd0_eq : forall a b c, FfRoutines.madd0 a b c = Words.madd0 a b c.
Proof. intros; cbv beta zeta delta [FfRoutines.madd0 Words.madd0]; same. Qed.

Lemma gen_madd1_eq : forall a b c, FfRoutines.madd1 a b c = Words.madd1 a b c.
Proof. intros; cbv beta zeta delta [FfRoutines.madd1 Words.madd1]; same. Qed.

Lemma gen_madd2_eq : forall a b c d, FfRoutines.madd2 a b c d = Words.madd2 a b c d.
Proof. intros; cbv beta zeta delta [FfRoutines.madd2 Words.madd2]; same. Qed.

Lemma gen_madd3_eq : forall a b c d e,
  FfRoutines.madd3 a b c d e = Words.madd3 a b c d e.
Proof. intros; cbv beta zeta delta [FfRoutines.madd3 Words.madd3]; same. Qed.

(* ------------------------------------------------------------------ *)
(** * element.go: predicates and constants *)

Lemma gen_isZero_eq : forall z, FfRoutines.Element_IsZero z = FfLimbs.isZero z.
Proof. intros z; destruct_el z; by_norm. Qed.

Lemma gen_equal_eq : forall z x, FfRoutines.Element_Equal z x = FfLimbs.equal z x.
Proof. intros z x; destruct_el z; destruct_el x; by_norm. Qed.

Lemma gen_setZero_eq : FfRoutines.Element_SetZero = FfLimbs.zero.
Proof. by_norm. Qed.

Lemma gen_setOne_eq : FfRoutines.Element_SetOne = FfLimbs.one.
Proof. by_norm. Qed.

Lemma gen_set_eq : forall x, FfRoutines.Element_Set x = x.
Proof. intros x; destruct_el x; by_norm. Qed.

(* ------------------------------------------------------------------ *)
(** * element.go: the _xxxGeneric routines and Halve *)

Lemma gen_mulGeneric_eq : forall x y,
  FfRoutines.mulGeneric x y = FfLimbs.mulGeneric x y.
Proof. intros x y; destruct_el x; destruct_el y; by_norm. Qed.

Lemma gen_fromMontGeneric_eq : forall z,
  FfRoutines.fromMontGeneric z = FfLimbs.fromMontGeneric z.
Proof. intros z; destruct_el z; by_norm. Qed.

Lemma gen_addGeneric_eq : forall x y,
  FfRoutines.addGeneric x y = FfLimbs.addGeneric x y.
Proof. intros x y; destruct_el x; destruct_el y; by_norm. Qed.

Lemma gen_doubleGeneric_eq : forall x,
  FfRoutines.doubleGeneric x = FfLimbs.doubleGeneric x.
Proof. intros x; destruct_el x; by_norm. Qed.

Lemma gen_subGeneric_eq : forall x y,
  FfRoutines.subGeneric x y = FfLimbs.subGeneric x y.
Proof. intros x y; destruct_el x; destruct_el y; by_norm. Qed.

Lemma gen_negGeneric_eq : forall x,
  FfRoutines.negGeneric x = FfLimbs.negGeneric x.
Proof. intros x; destruct_el x; by_norm. Qed.

Lemma gen_reduceGeneric_eq : forall z,
  FfRoutines.reduceGeneric z = FfLimbs.reduceGeneric z.
Proof. intros z; destruct_el z; by_norm. Qed.

Lemma gen_halve_eq : forall z, FfRoutines.Element_Halve z = FfLimbs.halve z.
Proof. intros z; destruct_el z; by_norm. Qed.

(* ------------------------------------------------------------------ *)
(** * Wrappers: mul/add/sub/double (element_ops_noasm.go), the methods
      Mul/Square/Add/Double/Sub/SetUint64/ToMont, mulByConstant, Butterfly.
      They are unfolded down to the _xxxGeneric routines, which are then
      rewritten with the lemmas above. *)

Ltac unwrap :=
  cbv beta iota zeta delta
    [FfRoutines.el FfLimbs.el
     FfRoutines.mul FfRoutines.add FfRoutines.sub FfRoutines.double
     FfRoutines.Element_Mul FfRoutines.Element_Square FfRoutines.Element_Add
     FfRoutines.Element_Double FfRoutines.Element_Sub
     FfRoutines.neg FfRoutines.Element_Neg FfRoutines.fromMont
     FfRoutines.Element_FromMont FfRoutines.reduce
     FfRoutines.Element_SetUint64 FfRoutines.Element_ToMont
     FfRoutines.Element_SetZero
     FfRoutines.mulByConstant FfRoutines.MulBy3 FfRoutines.MulBy5
     FfRoutines.MulBy13 FfRoutines.butterflyGeneric FfRoutines.Butterfly
     FfLimbs.square FfLimbs.setUint64 FfLimbs.toMont FfLimbs.mulBy3
     FfLimbs.mulBy5 FfLimbs.mulBy13 FfLimbs.butterflyGeneric
     FfLimbs.rSquare_el FfLimbs.zero nth FfConsts.rSquare];
  repeat match goal with
    | |- context [FfRoutines.mulGeneric ?a ?b] => rewrite (gen_mulGeneric_eq a b)
    | |- context [FfRoutines.addGeneric ?a ?b] => rewrite (gen_addGeneric_eq a b)
    | |- context [FfRoutines.subGeneric ?a ?b] => rewrite (gen_subGeneric_eq a b)
    | |- context [FfRoutines.doubleGeneric ?a] => rewrite (gen_doubleGeneric_eq a)
    | |- context [FfRoutines.negGeneric ?a] => rewrite (gen_negGeneric_eq a)
    | |- context [FfRoutines.fromMontGeneric ?a] => rewrite (gen_fromMontGeneric_eq a)
    | |- context [FfRoutines.reduceGeneric ?a] => rewrite (gen_reduceGeneric_eq a)
    end.

Lemma gen_mul_eq : forall x y, FfRoutines.mul x y = FfLimbs.mulGeneric x y.
Proof. intros; unwrap; same. Qed.
Lemma gen_add_eq : forall x y, FfRoutines.add x y = FfLimbs.addGeneric x y.
Proof. intros; unwrap; same. Qed.
Lemma gen_sub_eq : forall x y, FfRoutines.sub x y = FfLimbs.subGeneric x y.
Proof. intros; unwrap; same. Qed.
Lemma gen_double_eq : forall x, FfRoutines.double x = FfLimbs.doubleGeneric x.
Proof. intros; unwrap; same. Qed.

Lemma gen_Mul_eq : forall x y, FfRoutines.Element_Mul x y = FfLimbs.mulGeneric x y.
Proof. intros; unwrap; same. Qed.
Lemma gen_Add_eq : forall x y, FfRoutines.Element_Add x y = FfLimbs.addGeneric x y.
Proof. intros; unwrap; same. Qed.
Lemma gen_Sub_eq : forall x y, FfRoutines.Element_Sub x y = FfLimbs.subGeneric x y.
Proof. intros; unwrap; same. Qed.
Lemma gen_Double_eq : forall x, FfRoutines.Element_Double x = FfLimbs.doubleGeneric x.
Proof. intros; unwrap; same. Qed.

Lemma gen_Neg_eq : forall x, FfRoutines.Element_Neg x = FfLimbs.negGeneric x.
Proof. intros; unwrap; same. Qed.
Lemma gen_FromMont_eq : forall z, FfRoutines.Element_FromMont z = FfLimbs.fromMontGeneric z.
Proof. intros; unwrap; same. Qed.
Lemma gen_reduce_eq : forall z, FfRoutines.reduce z = FfLimbs.reduceGeneric z.
Proof. intros; unwrap; same. Qed.

Lemma gen_square_eq : forall x, FfRoutines.Element_Square x = FfLimbs.square x.
Proof. intros; unwrap; same. Qed.
Lemma gen_setUint64_eq : forall v, FfRoutines.Element_SetUint64 v = FfLimbs.setUint64 v.
Proof. intros; unwrap; same. Qed.
Lemma gen_toMont_eq : forall z, FfRoutines.Element_ToMont z = FfLimbs.toMont z.
Proof. intros; unwrap; same. Qed.

(* mulByConstant: the cases of the Go switch.  With a literal c the tests
   [Z.eqb c k] are computed first (no other Z.eqb is exposed at that point). *)
Ltac unwrap_case :=
  cbv beta iota zeta delta
    [FfRoutines.MulBy3 FfRoutines.MulBy5 FfRoutines.MulBy13
     FfRoutines.mulByConstant Z.eqb Pos.eqb];
  unwrap.

Lemma gen_mulByConstant_0 : forall z, FfRoutines.mulByConstant z 0 = FfLimbs.zero.
Proof. intros; unwrap_case; same. Qed.
Lemma gen_mulByConstant_1 : forall z, FfRoutines.mulByConstant z 1 = z.
Proof. intros; unwrap_case; same. Qed.
Lemma gen_mulByConstant_2 : forall z,
  FfRoutines.mulByConstant z 2 = FfLimbs.doubleGeneric z.
Proof. intros; unwrap_case; same. Qed.
Lemma gen_mulByConstant_3 : forall z, FfRoutines.mulByConstant z 3 = FfLimbs.mulBy3 z.
Proof. intros; unwrap_case; same. Qed.
Lemma gen_mulByConstant_5 : forall z, FfRoutines.mulByConstant z 5 = FfLimbs.mulBy5 z.
Proof. intros; unwrap_case; same. Qed.
Lemma gen_mulByConstant_default : forall z c,
  c <> 0 -> c <> 1 -> c <> 2 -> c <> 3 -> c <> 5 ->
  FfRoutines.mulByConstant z c = FfLimbs.mulGeneric z (FfLimbs.setUint64 c).
Proof.
  intros z c H0 H1 H2 H3 H5.
  cbv beta delta [FfRoutines.mulByConstant].
  destruct (Z.eqb_spec c 0) as [E|_]; [contradiction|].
  destruct (Z.eqb_spec c 1) as [E|_]; [contradiction|].
  destruct (Z.eqb_spec c 2) as [E|_]; [contradiction|].
  destruct (Z.eqb_spec c 3) as [E|_]; [contradiction|].
  destruct (Z.eqb_spec c 5) as [E|_]; [contradiction|].
  unwrap; same.
Qed.

(* element_ops_noasm.go: MulBy3 / MulBy5 / MulBy13 *)
Lemma gen_mulBy3_eq : forall x, FfRoutines.MulBy3 x = FfLimbs.mulBy3 x.
Proof. intros; unwrap_case; same. Qed.
Lemma gen_mulBy5_eq : forall x, FfRoutines.MulBy5 x = FfLimbs.mulBy5 x.
Proof. intros; unwrap_case; same. Qed.
Lemma gen_mulBy13_eq : forall x, FfRoutines.MulBy13 x = FfLimbs.mulBy13 x.
Proof. intros; unwrap_case; same. Qed.

(* Butterfly (translated under the assumption that a and b are distinct
   pointers, see Gen/FfRoutines.v) *)
Lemma gen_butterflyGeneric_eq : forall a b,
  FfRoutines.butterflyGeneric a b = FfLimbs.butterflyGeneric a b.
Proof. intros; unwrap; same. Qed.
Lemma gen_Butterfly_eq : forall a b,
  FfRoutines.Butterfly a b = FfLimbs.butterflyGeneric a b.
Proof. intros; unwrap; same. Qed.

Print Assumptions gen_mulGeneric_eq.
Print Assumptions gen_fromMontGeneric_eq.
Print Assumptions gen_addGeneric_eq.
Print Assumptions gen_halve_eq.
Print Assumptions gen_mulByConstant_default.
Print Assumptions gen_Butterfly_eq.

(* ------------------------------------------------------------------ *)
(** * Inverse.  The Go function has loops; limbgen translates it to
      straight-line FRAGMENTS (Gen/FfRoutines.v, tools/limbgen/loops.go):
      - [Element_Inverse_pre x]: the code before the outer [for { }]:
        [inl z] if it returned, [inr (u, s, r, v)] = the state at the loop head;
      - [Element_Inverse_loop1_cond/_body]: the loop [for v[0]&1 == 0 { }];
      - [Element_Inverse_loop2_cond/_body]: the loop [for u[0]&1 == 0 { }];
      - [Element_Inverse_tail]: the rest of the outer body: [inl z] if it
        returned, [inr state] for the next iteration.
      The state (u, s, r, v) is in Go declaration order; carry, borrow, bigger
      are not live at the loop head (checked by limbgen).
      The hand model glues the same pieces with fuel-bounded fixpoints
      ([inv_vloop], [inv_uloop], [inverse_loop], [inverse_fuel]); the lemmas
      below identify each hand-written piece with a generated fragment.  The
      glue itself (run loop 1, then loop 2, then the tail, repeat) is the only
      part of the Inverse model that is not regenerated. *)

Ltac norm_inv :=
  cbv beta iota zeta delta
    [FfRoutines.Element_Inverse_pre FfRoutines.Element_Inverse_loop1_cond
     FfRoutines.Element_Inverse_loop1_body FfRoutines.Element_Inverse_loop2_cond
     FfRoutines.Element_Inverse_loop2_body FfRoutines.Element_Inverse_tail
     FfLimbs.inverse_fuel FfLimbs.inv_body FfLimbs.lt_limbs];
  norm_hand; norm_gen.

(* case analysis on a stuck [if]/[let '(a, b) := e] whose scrutinee is closed *)
Ltac split_stuck :=
  match goal with
  | |- context [match ?e with _ => _ end] =>
      lazymatch e with
      | add64 _ _ _ => destruct e
      | sub64 _ _ _ => destruct e
      | Z.eqb _ _ => destruct e
      | negb _ => destruct e
      | andb _ _ => destruct e
      | orb _ _ => destruct e
      end
  end.

Ltac by_cases := norm_inv; repeat (split_stuck; norm_inv); same.

Lemma gen_inverse_pre_eq : forall fuel x,
  FfLimbs.inverse_fuel fuel x =
  match FfRoutines.Element_Inverse_pre x with
  | inl z => Some z
  | inr (u, s, r, v) => FfLimbs.inverse_loop fuel u v r s
  end.
Proof. intros fuel x; destruct_el x; by_cases. Qed.

Lemma gen_inv_vloop_eq : forall fuel u s r v,
  FfLimbs.inv_vloop (S fuel) v s =
  if FfRoutines.Element_Inverse_loop1_cond u s r v
  then (let '(_, s', _, v') := FfRoutines.Element_Inverse_loop1_body u s r v in
        FfLimbs.inv_vloop fuel v' s')
  else Some (v, s).
Proof.
  intros fuel u s r v; destruct_el u; destruct_el s; destruct_el r; destruct_el v.
  cbn [FfLimbs.inv_vloop]. by_cases.
Qed.

(* loop 1 leaves u and r alone *)
Lemma gen_inv_vloop_frame : forall u s r v,
  let '(u', _, r', _) := FfRoutines.Element_Inverse_loop1_body u s r v in
  u' = u /\ r' = r.
Proof.
  intros u s r v; destruct_el u; destruct_el s; destruct_el r; destruct_el v.
  norm_inv; repeat (split_stuck; norm_inv); split; reflexivity.
Qed.

Lemma gen_inv_uloop_eq : forall fuel u s r v,
  FfLimbs.inv_uloop (S fuel) u r =
  if FfRoutines.Element_Inverse_loop2_cond u s r v
  then (let '(u', _, r', _) := FfRoutines.Element_Inverse_loop2_body u s r v in
        FfLimbs.inv_uloop fuel u' r')
  else Some (u, r).
Proof.
  intros fuel u s r v; destruct_el u; destruct_el s; destruct_el r; destruct_el v.
  cbn [FfLimbs.inv_uloop]. by_cases.
Qed.

(* loop 2 leaves s and v alone *)
Lemma gen_inv_uloop_frame : forall u s r v,
  let '(_, s', _, v') := FfRoutines.Element_Inverse_loop2_body u s r v in
  s' = s /\ v' = v.
Proof.
  intros u s r v; destruct_el u; destruct_el s; destruct_el r; destruct_el v.
  norm_inv; repeat (split_stuck; norm_inv); split; reflexivity.
Qed.

Lemma gen_inv_body_eq : forall u s r v,
  FfRoutines.Element_Inverse_tail u s r v =
  match FfLimbs.inv_body u v r s with
  | inl z => inl z
  | inr (u', v', r', s') => inr (u', s', r', v')
  end.
Proof.
  intros u s r v; destruct_el u; destruct_el s; destruct_el r; destruct_el v.
  by_cases.
Qed.

Print Assumptions gen_inverse_pre_eq.
Print Assumptions gen_inv_vloop_eq.
Print Assumptions gen_inv_uloop_eq.
Print Assumptions gen_inv_body_eq.

(* Instances of Proofs/EddsaProofs.v with the concrete hashes that are
   available at value level: BLAKE-512 of Spec/Blake512.v and mimc7.Hash(arr,
   nil) of Model/Mimc7.v (the Poseidon instance needs, besides the guards, that
   the first lane of the permutation is non-negative: it belongs to the Hades
   proofs).  This shows that the hypotheses H_ok / H_err of the signing
   theorems are exactly what the library's hash provides. *)
From Coq Require Import ZArith List Bool Lia.
From Verif Require Import Lib.Params Lib.Octets Lib.Primes Spec.Edwards Spec.EdDSASpec
  Spec.Blake512 Model.Outcome Model.Utils Model.BabyJub Model.Eddsa
  Proofs.UtilsProofs Proofs.KeccakStreamProofs Proofs.EddsaProofs.
From Verif Require Model.Mimc7.
Import ListNotations.
Local Open Scope Z_scope.

Definition mimc7h (arr : list Z) : res Z := Mimc7.Hash arr None.

Lemma mimc7_Q_eq : Mimc7.Q = q.
Proof. reflexivity. Qed.

Local Opaque q l.

Lemma mimc7_check v : CheckBigIntArrayInField Mimc7.Q v = true <-> Forall in_field v.
Proof. rewrite CheckBigIntArrayInField_spec, mimc7_Q_eq. reflexivity. Qed.

Lemma mimc7h_ok : forall v, Forall in_field v -> length v = 5%nat ->
  exists hm, mimc7h v = Ok hm /\ 0 <= hm.
Proof.
  intros v Hv Hl. unfold mimc7h, Mimc7.Hash.
  rewrite (proj2 (mimc7_check v) Hv). cbn [negb].
  eexists. split; [reflexivity|].
  destruct v as [|a [|b [|c [|d [|e [|f v]]]]]]; try discriminate Hl.
  cbn [fold_left]. rewrite mimc7_Q_eq. apply Z.mod_pos_bound. exact q_pos.
Qed.

Lemma mimc7h_err : forall v, length v = 5%nat -> ~ Forall in_field v -> mimc7h v = Err.
Proof.
  intros v _ Hv. unfold mimc7h, Mimc7.Hash.
  destruct (CheckBigIntArrayInField Mimc7.Q v) eqn:E; [|reflexivity].
  exfalso. apply Hv. apply mimc7_check. exact E.
Qed.

(* the hash argument [poseidon5] of the model's Section is irrelevant for the
   MiMC7 entry points *)
Theorem SignMimc7_conforms : forall k msg, 0 <= msg < q ->
  SignMimc7 blake512 mimc7h k msg = Ok (spec_signature blake512 (Hval mimc7h) k msg).
Proof.
  exact (sign_conforms blake512 blake512_length blake512_bytes mimc7h mimc7h_ok).
Qed.

Theorem SignMimc7_verifies : forall k msg sig, 0 <= msg < q ->
  SignMimc7 blake512 mimc7h k msg = Ok sig ->
  VerifyMimc7 mimc7h (Public blake512 k) msg sig = Ok tt.
Proof.
  exact (sign_verifies blake512 blake512_length blake512_bytes mimc7h mimc7h_ok).
Qed.

Theorem SignMimc7_err_iff : forall k msg,
  SignMimc7 blake512 mimc7h k msg = Err <-> ~ (0 <= msg < q).
Proof.
  exact (sign_err_iff blake512 blake512_length blake512_bytes mimc7h mimc7h_ok mimc7h_err).
Qed.

Theorem SignMimc7_never_panics : forall k msg, SignMimc7 blake512 mimc7h k msg <> Panic.
Proof.
  exact (sign_never_panics blake512 blake512_length blake512_bytes mimc7h mimc7h_ok mimc7h_err).
Qed.

Theorem VerifyMimc7_never_panics : forall (A : point) msg (R8 : point) Sv,
  VerifyMimc7 mimc7h A msg (R8, Sv) <> Panic.
Proof.
  intros A msg R8 Sv. apply verify_never_panics.
  unfold mimc7h, Mimc7.Hash. destruct (negb _); discriminate.
Qed.

Print Assumptions SignMimc7_conforms.
Print Assumptions SignMimc7_verifies.
Print Assumptions SignMimc7_err_iff.
Print Assumptions VerifyMimc7_never_panics.

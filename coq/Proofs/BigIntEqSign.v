(* Part of the equality lemmas between the Gallina regenerated from the Go
   sources by tools/bigintgen (Gen/BigIntRoutines.v) and the hand-written models:
   babyjub SignPoseidon and SignMimc7.
   The lemmas are split over Proofs/BigIntEq*.v so that an edit of one Go
   function breaks only the file of that function (and the files that use its
   lemma); Proofs/BigIntEqAll.v exports all of them. *)
From Coq Require Import ZArith List Bool Lia.
From Verif Require Import Lib.Params Lib.Octets Spec.Edwards Model.Outcome Model.Utils
  Model.BabyJubCore Model.BabyJub Model.Eddsa.
From Verif Require Gen.CurveConsts Model.Mimc7 Model.Poseidon.
From Verif Require Import Gen.BigIntRoutines.
From Verif Require Import Proofs.BigIntEqUtils Proofs.BigIntEqKeys.
Import ListNotations.
Local Open Scope Z_scope.

(* The external functions are never unfolded by the proofs below; keeping them
   opaque for the tactics makes a FAILING comparison (after an edit of the Go
   code) fail fast instead of normalising Fermat inversions or Tonelli-Shanks
   on symbolic arguments. *)
Local Opaque BabyJub.modinv BabyJub.modsqrt BabyJub.Mul BabyJub.Affine BabyJub.Projective
  Mimc7.MIMC7Hash HadesOpt.perm_opt Z.mul Z.add Z.sub Z.modulo Z.shiftr Z.shiftl Z.land Z.lor
  Z.ltb Z.gtb Z.geb Z.eqb.

(* copying a [32]byte value into another [32]byte is the identity: a redundant defensive
   copy of the message buffer may be present or absent in the source *)
Lemma copy_into_LE : forall v, copy_into 32 (Utils.BigIntLEBytes v) = Utils.BigIntLEBytes v.
Proof.
  intros v.
  assert (Hl : length (Utils.BigIntLEBytes v) = 32%nat).
  { unfold Utils.BigIntLEBytes, copy_into. rewrite app_length, repeat_length.
    pose proof (firstn_le_length 32 (Utils.SwapEndianness (min_be_bytes v))) as Hf.
    rewrite firstn_length in *. lia. }
  generalize dependent (Utils.BigIntLEBytes v). intros w Hl.
  unfold copy_into. rewrite firstn_all2 by lia. rewrite Hl. cbn [Nat.sub repeat]. apply app_nil_r.
Qed.

Section Hashes.
  Variable blake512 : bytes -> bytes.
  Variable poseidon5 : list Z -> res Z.
  Variable mimc7h : list Z -> res Z.

  Lemma gen_babyjub_PrivateKey_SignPoseidon_eq : forall k msg,
    babyjub_PrivateKey_SignPoseidon blake512 poseidon5 k msg =
    Eddsa.SignPoseidon blake512 poseidon5 k msg.
  Proof.
    intros. unfold babyjub_PrivateKey_SignPoseidon, Eddsa.SignPoseidon, Eddsa.sign_with.
    rewrite gen_utils_BigIntLEBytes_fn, gen_utils_SetBigIntFromLEBytes_fn,
      gen_babyjub_PrivateKey_Public_fn, gen_babyjub_PrivateKey_Scalar_fn.
    cbv zeta. rewrite ?copy_into_LE. same.
  Qed.

  Lemma gen_babyjub_PrivateKey_SignMimc7_eq : forall k msg,
    babyjub_PrivateKey_SignMimc7 blake512 mimc7h k msg =
    Eddsa.SignMimc7 blake512 mimc7h k msg.
  Proof.
    intros. unfold babyjub_PrivateKey_SignMimc7, Eddsa.SignMimc7, Eddsa.sign_with.
    rewrite gen_utils_BigIntLEBytes_fn, gen_utils_SetBigIntFromLEBytes_fn,
      gen_babyjub_PrivateKey_Public_fn, gen_babyjub_PrivateKey_Scalar_fn.
    cbv zeta. rewrite ?copy_into_LE. same.
  Qed.
End Hashes.

(* ---- every lemma above is closed under the global context ---------------- *)
Print Assumptions gen_babyjub_PrivateKey_SignPoseidon_eq.
Print Assumptions gen_babyjub_PrivateKey_SignMimc7_eq.

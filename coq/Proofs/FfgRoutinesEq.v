(* The hand-written one-limb model Model/FfgLimbs.v (Goldilocks field, what
   the theorems of Proofs/Ffg*.v are about) EQUALS the Gallina that
   tools/limbgen regenerates from /repo/ffg/element.go, arith.go,
   element_ops_noasm.go on every run (Gen/FfgRoutines.v).

   Same method as Proofs/FfRoutinesEq.v: one [cbv] with an explicit delta list
   puts both sides in the same normal form (definitions of the two files, the
   constants qg/qInvNeg/rSquare/one of the hand model = [nth 0 <generated
   list> 0]); add64, sub64, mul64, madd0, wmul, Z.ltb, Z.eqb, negb are not
   unfolded; the two normal forms must be syntactically identical.

   No axioms. *)
From Coq Require Import ZArith List Bool.
From Verif Require Import Lib.Params Lib.Words.
From Verif Require Gen.FfgConsts Model.FfgLimbs Gen.FfgRoutines.
Local Open Scope Z_scope.

Ltac norm_hand :=
  cbv beta iota zeta delta
    [FfgLimbs.qg FfgLimbs.qInvNeg FfgLimbs.rSquare FfgLimbs.one
     FfgLimbs.mulGeneric FfgLimbs.fromMontGeneric FfgLimbs.addGeneric
     FfgLimbs.doubleGeneric FfgLimbs.subGeneric FfgLimbs.negGeneric
     FfgLimbs.reduceGeneric
     nth FfgConsts.qElement FfgConsts.rSquare FfgConsts.biglits_mulGeneric
     FfgConsts.biglits_Element_SetOne].

Ltac norm_gen :=
  cbv beta iota zeta delta
    [FfgRoutines.el FfgRoutines.madd0 FfgRoutines.Element_IsZero
     FfgRoutines.Element_Equal FfgRoutines.Element_SetZero
     FfgRoutines.Element_SetOne FfgRoutines.Element_Set
     FfgRoutines.mulGeneric FfgRoutines.fromMontGeneric FfgRoutines.addGeneric
     FfgRoutines.doubleGeneric FfgRoutines.subGeneric FfgRoutines.negGeneric
     FfgRoutines.reduceGeneric].

Ltac same :=
  lazymatch goal with
  | |- ?a = ?b => first [ constr_eq a b | fail 1 "generated and hand-written routine differ" ]
  end;
  reflexivity.

(* fallback when the two sides are not syntactically the same after normalisation: expose the
   carries / borrows of add64 / sub64 and the comparisons as explicit conditionals and decide
   them case by case (a borrow compared with 1 instead of with 0, z >= q for not (z < q), the
   low word of bits.Add64 written with + ...).  Only small routines reach this branch. *)
Ltac norm_consts :=
  cbv beta iota zeta;
  rewrite ?Z.eqb_refl;
  change (1 =? 0) with false; change (0 =? 1) with false;
  cbv beta iota zeta delta [negb].
Ltac step_if :=
  match goal with
  | |- context [if ?c then _ else _] =>
      lazymatch c with
      | context [if _ then _ else _] => fail
      | true => fail
      | false => fail
      | _ => let E := fresh "E" in destruct c eqn:E
      end
  end.
Ltac semantic :=
  cbv beta iota zeta delta [add64 sub64 fst snd];
  rewrite ?Z.geb_leb, ?Z.leb_antisym, ?Z.gtb_ltb;
  timeout 60 (repeat (norm_consts; step_if));
  norm_consts; reflexivity.

Ltac by_norm := norm_hand; norm_gen; first [ same | semantic | fail 1 "generated and hand-written routine differ" ].

(* ------------------------------------------------------------------ *)
(** * arith.go *)

Lemma gen_madd0_eq : forall a b c, FfgRoutines.madd0 a b c = Words.madd0 a b c.
Proof. intros; cbv beta zeta delta [FfgRoutines.madd0 Words.madd0]; same. Qed.

(* ------------------------------------------------------------------ *)
(** * element.go: predicates and constants.  The hand model has no names for
      IsZero / Equal / SetZero / Set on one limb: it writes [Z.eqb x 0],
      [0], ... directly. *)

Lemma gen_isZero_eq : forall z, FfgRoutines.Element_IsZero z = Z.eqb z 0.
Proof. intros; by_norm. Qed.

Lemma gen_equal_eq : forall z x, FfgRoutines.Element_Equal z x = Z.eqb z x.
Proof. intros; by_norm. Qed.

Lemma gen_setZero_eq : FfgRoutines.Element_SetZero = 0.
Proof. by_norm. Qed.

Lemma gen_setOne_eq : FfgRoutines.Element_SetOne = FfgLimbs.one.
Proof. by_norm. Qed.

Lemma gen_set_eq : forall x, FfgRoutines.Element_Set x = x.
Proof. intros; by_norm. Qed.

(* ------------------------------------------------------------------ *)
(** * element.go: the _xxxGeneric routines *)

Lemma gen_mulGeneric_eq : forall x y,
  FfgRoutines.mulGeneric x y = FfgLimbs.mulGeneric x y.
Proof. intros; by_norm. Qed.

Lemma gen_fromMontGeneric_eq : forall z,
  FfgRoutines.fromMontGeneric z = FfgLimbs.fromMontGeneric z.
Proof. intros; by_norm. Qed.

Lemma gen_addGeneric_eq : forall x y,
  FfgRoutines.addGeneric x y = FfgLimbs.addGeneric x y.
Proof. intros; by_norm. Qed.

Lemma gen_doubleGeneric_eq : forall x,
  FfgRoutines.doubleGeneric x = FfgLimbs.doubleGeneric x.
Proof. intros; by_norm. Qed.

Lemma gen_subGeneric_eq : forall x y,
  FfgRoutines.subGeneric x y = FfgLimbs.subGeneric x y.
Proof. intros; by_norm. Qed.

Lemma gen_negGeneric_eq : forall x,
  FfgRoutines.negGeneric x = FfgLimbs.negGeneric x.
Proof. intros; by_norm. Qed.

Lemma gen_reduceGeneric_eq : forall z,
  FfgRoutines.reduceGeneric z = FfgLimbs.reduceGeneric z.
Proof. intros; by_norm. Qed.

(* ------------------------------------------------------------------ *)
(** * Wrappers (element_ops_noasm.go, methods), mulByConstant, Butterfly *)

Ltac unwrap :=
  cbv beta iota zeta delta
    [FfgRoutines.el
     FfgRoutines.mul FfgRoutines.add FfgRoutines.sub FfgRoutines.double
     FfgRoutines.neg FfgRoutines.fromMont FfgRoutines.reduce
     FfgRoutines.Element_Mul FfgRoutines.Element_Square
     FfgRoutines.Element_Add FfgRoutines.Element_Double
     FfgRoutines.Element_Sub FfgRoutines.Element_Neg
     FfgRoutines.Element_FromMont
     FfgRoutines.Element_SetUint64 FfgRoutines.Element_ToMont
     FfgRoutines.Element_SetZero
     FfgRoutines.mulByConstant FfgRoutines.MulBy3 FfgRoutines.MulBy5
     FfgRoutines.MulBy13 FfgRoutines.butterflyGeneric FfgRoutines.Butterfly
     FfgLimbs.square FfgLimbs.setUint64 FfgLimbs.toMont
     FfgLimbs.mulByConstant FfgLimbs.mulBy3 FfgLimbs.mulBy5 FfgLimbs.mulBy13
     FfgLimbs.butterflyGeneric FfgLimbs.rSquare nth FfgConsts.rSquare];
  repeat match goal with
    | |- context [FfgRoutines.mulGeneric ?a ?b] => rewrite (gen_mulGeneric_eq a b)
    | |- context [FfgRoutines.addGeneric ?a ?b] => rewrite (gen_addGeneric_eq a b)
    | |- context [FfgRoutines.subGeneric ?a ?b] => rewrite (gen_subGeneric_eq a b)
    | |- context [FfgRoutines.doubleGeneric ?a] => rewrite (gen_doubleGeneric_eq a)
    | |- context [FfgRoutines.negGeneric ?a] => rewrite (gen_negGeneric_eq a)
    | |- context [FfgRoutines.fromMontGeneric ?a] => rewrite (gen_fromMontGeneric_eq a)
    | |- context [FfgRoutines.reduceGeneric ?a] => rewrite (gen_reduceGeneric_eq a)
    end.

Lemma gen_mul_eq : forall x y, FfgRoutines.mul x y = FfgLimbs.mulGeneric x y.
Proof. intros; unwrap; same. Qed.
Lemma gen_add_eq : forall x y, FfgRoutines.add x y = FfgLimbs.addGeneric x y.
Proof. intros; unwrap; same. Qed.
Lemma gen_sub_eq : forall x y, FfgRoutines.sub x y = FfgLimbs.subGeneric x y.
Proof. intros; unwrap; same. Qed.
Lemma gen_double_eq : forall x, FfgRoutines.double x = FfgLimbs.doubleGeneric x.
Proof. intros; unwrap; same. Qed.
Lemma gen_reduce_eq : forall z, FfgRoutines.reduce z = FfgLimbs.reduceGeneric z.
Proof. intros; unwrap; same. Qed.

Lemma gen_Mul_eq : forall x y, FfgRoutines.Element_Mul x y = FfgLimbs.mulGeneric x y.
Proof. intros; unwrap; same. Qed.
Lemma gen_Add_eq : forall x y, FfgRoutines.Element_Add x y = FfgLimbs.addGeneric x y.
Proof. intros; unwrap; same. Qed.
Lemma gen_Sub_eq : forall x y, FfgRoutines.Element_Sub x y = FfgLimbs.subGeneric x y.
Proof. intros; unwrap; same. Qed.
Lemma gen_Double_eq : forall x, FfgRoutines.Element_Double x = FfgLimbs.doubleGeneric x.
Proof. intros; unwrap; same. Qed.
Lemma gen_Neg_eq : forall x, FfgRoutines.Element_Neg x = FfgLimbs.negGeneric x.
Proof. intros; unwrap; same. Qed.
Lemma gen_FromMont_eq : forall z,
  FfgRoutines.Element_FromMont z = FfgLimbs.fromMontGeneric z.
Proof. intros; unwrap; same. Qed.

Lemma gen_square_eq : forall x, FfgRoutines.Element_Square x = FfgLimbs.square x.
Proof. intros; unwrap; same. Qed.
Lemma gen_setUint64_eq : forall v, FfgRoutines.Element_SetUint64 v = FfgLimbs.setUint64 v.
Proof. intros; unwrap; same. Qed.
Lemma gen_toMont_eq : forall z, FfgRoutines.Element_ToMont z = FfgLimbs.toMont z.
Proof. intros; unwrap; same. Qed.

(* the whole switch, for every c *)
Lemma gen_mulByConstant_eq : forall z c,
  FfgRoutines.mulByConstant z c = FfgLimbs.mulByConstant z c.
Proof. intros; unwrap; same. Qed.

Lemma gen_mulBy3_eq : forall x, FfgRoutines.MulBy3 x = FfgLimbs.mulBy3 x.
Proof. intros; unwrap; same. Qed.
Lemma gen_mulBy5_eq : forall x, FfgRoutines.MulBy5 x = FfgLimbs.mulBy5 x.
Proof. intros; unwrap; same. Qed.
Lemma gen_mulBy13_eq : forall x, FfgRoutines.MulBy13 x = FfgLimbs.mulBy13 x.
Proof. intros; unwrap; same. Qed.

(* Butterfly (translated under the assumption that a and b are distinct
   pointers, see Gen/FfgRoutines.v) *)
Lemma gen_butterflyGeneric_eq : forall a b,
  FfgRoutines.butterflyGeneric a b = FfgLimbs.butterflyGeneric a b.
Proof. intros; unwrap; same. Qed.
Lemma gen_Butterfly_eq : forall a b,
  FfgRoutines.Butterfly a b = FfgLimbs.butterflyGeneric a b.
Proof. intros; unwrap; same. Qed.

Print Assumptions gen_mulGeneric_eq.
Print Assumptions gen_addGeneric_eq.
Print Assumptions gen_mulByConstant_eq.
Print Assumptions gen_Butterfly_eq.

(* Reasoning modulo a prime p on Z, as a setoid:  eqm p x y := x mod p = y mod p.
   Provides the morphisms for + - * opp, cancellation (integral domain), and
   the characterisation of "division" (multiplication by Spec.Edwards.finv)
   used by all Edwards*.v files. *)
From Coq Require Import ZArith Znumtheory Zpow_facts Lia Morphisms Setoid.
From Verif Require Import Lib.Powmod Lib.NumberTheory Spec.Edwards.
Local Open Scope Z_scope.

Definition eqm (p x y : Z) : Prop := x mod p = y mod p.

Global Instance eqm_equiv (p : Z) : Equivalence (eqm p).
Proof.
  constructor; unfold eqm.
  - intros x; reflexivity.
  - intros x y H; symmetry; exact H.
  - intros x y z H1 H2; rewrite H1; exact H2.
Qed.

Global Instance eqm_add (p : Z) : Proper (eqm p ==> eqm p ==> eqm p) Z.add.
Proof.
  unfold eqm; intros x x' Hx y y' Hy.
  rewrite Zplus_mod, Hx, Hy, <- Zplus_mod; reflexivity.
Qed.

Global Instance eqm_sub (p : Z) : Proper (eqm p ==> eqm p ==> eqm p) Z.sub.
Proof.
  unfold eqm; intros x x' Hx y y' Hy.
  rewrite Zminus_mod, Hx, Hy, <- Zminus_mod; reflexivity.
Qed.

Global Instance eqm_mul (p : Z) : Proper (eqm p ==> eqm p ==> eqm p) Z.mul.
Proof.
  unfold eqm; intros x x' Hx y y' Hy.
  rewrite Zmult_mod, Hx, Hy, <- Zmult_mod; reflexivity.
Qed.

Global Instance eqm_opp (p : Z) : Proper (eqm p ==> eqm p) Z.opp.
Proof.
  intros x y H. rewrite <- (Z.sub_0_l x), <- (Z.sub_0_l y).
  apply eqm_sub; [ reflexivity | exact H ].
Qed.

Lemma eqm_mod : forall p x, eqm p (x mod p) x.
Proof. intros p x. unfold eqm. apply Zmod_mod. Qed.

Lemma eqm_of_eq : forall p x y, x = y -> eqm p x y.
Proof. intros p x y ->. reflexivity. Qed.

(* [eqm p A B] when A = B is an identity of integer polynomials *)
Ltac ering := apply eqm_of_eq; ring.

(* strip every inner [_ mod p] of an eqm goal *)
Ltac strip_mod := rewrite ?eqm_mod.

Lemma eqm_zero_iff : forall p x, eqm p x 0 <-> x mod p = 0.
Proof. intros p x. unfold eqm. rewrite Zmod_0_l. tauto. Qed.

Lemma eqm_sub_zero : forall p x y, eqm p (x - y) 0 <-> eqm p x y.
Proof.
  intros p x y. split; intros H.
  - assert (E : eqm p x ((x - y) + y)) by ering. rewrite E, H. ering.
  - rewrite H. ering.
Qed.

Lemma eqm_small : forall p x y, 0 <= x < p -> 0 <= y < p -> eqm p x y -> x = y.
Proof.
  intros p x y Hx Hy H. unfold eqm in H.
  rewrite !Z.mod_small in H by assumption. exact H.
Qed.

Lemma eqm_mod_eq : forall p x y, eqm p x y -> x mod p = y mod p.
Proof. intros p x y H. exact H. Qed.

Section PrimeField.
  Variable p : Z.
  Hypothesis Hp : prime p.

  Local Notation "x == y" := (eqm p x y) (at level 70, no associativity).

  Lemma p_gt_1 : 1 < p.
  Proof. pose proof (prime_ge_2 p Hp). lia. Qed.

  Lemma one_nz : ~ 1 == 0.
  Proof.
    pose proof p_gt_1 as H1. unfold eqm. rewrite Zmod_0_l, Z.mod_small by lia. lia.
  Qed.

  Lemma two_nz : 2 < p -> ~ 2 == 0.
  Proof.
    intros H2. unfold eqm. rewrite Zmod_0_l, Z.mod_small by lia. lia.
  Qed.

  Lemma eqm_mul_zero : forall x y, x * y == 0 -> x == 0 \/ y == 0.
  Proof.
    intros x y H. apply eqm_zero_iff in H.
    destruct (prime_mul_zero p x y Hp H) as [H0 | H0]; [ left | right ];
      apply eqm_zero_iff; exact H0.
  Qed.

  Lemma eqm_mul_nz : forall x y, ~ x == 0 -> ~ y == 0 -> ~ x * y == 0.
  Proof.
    intros x y Hx Hy H. destruct (eqm_mul_zero x y H); contradiction.
  Qed.

  Lemma eqm_nz_mul_l : forall x y, ~ x * y == 0 -> ~ x == 0.
  Proof. intros x y H Hx. apply H. rewrite Hx. ering. Qed.

  Lemma eqm_nz_mul_r : forall x y, ~ x * y == 0 -> ~ y == 0.
  Proof. intros x y H Hy. apply H. rewrite Hy. ering. Qed.

  Lemma eqm_cancel_l : forall c x y, ~ c == 0 -> c * x == c * y -> x == y.
  Proof.
    intros c x y Hc H. apply eqm_sub_zero.
    assert (H0 : c * (x - y) == 0).
    { assert (E : c * (x - y) == c * x - c * y) by ering. rewrite E, H. ering. }
    destruct (eqm_mul_zero _ _ H0) as [H1 | H1]; [ contradiction | exact H1 ].
  Qed.

  Lemma eqm_cancel_r : forall c x y, ~ c == 0 -> x * c == y * c -> x == y.
  Proof.
    intros c x y Hc H. apply (eqm_cancel_l c); [ exact Hc | ].
    rewrite (Z.mul_comm c x), (Z.mul_comm c y). exact H.
  Qed.

  Lemma eqm_dec : forall x y, x == y \/ ~ x == y.
  Proof. intros x y. unfold eqm. destruct (Z.eq_dec (x mod p) (y mod p)); tauto. Qed.

  (* ---- finv ---- *)

  Lemma finv_range : forall x, 0 <= finv p x < p.
  Proof. intros x. unfold finv. apply powmod_range. pose proof p_gt_1. lia. Qed.

  Lemma finv_spec : forall x, ~ x == 0 -> x * finv p x == 1.
  Proof.
    intros x Hx. pose proof p_gt_1 as H1.
    assert (Hx' : x mod p <> 0) by (intros E; apply Hx; apply eqm_zero_iff; exact E).
    pose proof (inv_mod_spec p x Hp Hx') as Hs. unfold inv_mod in Hs.
    unfold eqm, finv. rewrite Hs. symmetry. apply Z.mod_small. lia.
  Qed.

  Lemma finv_eqm : forall x y, x == y -> finv p x = finv p y.
  Proof.
    intros x y H. pose proof p_gt_1 as H1. pose proof (prime_ge_2 p Hp) as H2.
    unfold finv. rewrite !powmod_spec by lia.
    rewrite (Zpower_mod x) by lia. rewrite (Zpower_mod y) by lia.
    unfold eqm in H. rewrite H. reflexivity.
  Qed.

  Lemma finv_mod : forall x, finv p (x mod p) = finv p x.
  Proof. intros x. apply finv_eqm. apply eqm_mod. Qed.

  Lemma finv_one : finv p 1 = 1.
  Proof.
    pose proof p_gt_1 as H1.
    apply (eqm_small p); [ apply finv_range | lia | ].
    rewrite <- (finv_spec 1 one_nz) at 2. ering.
  Qed.

  (* [v] is "num / den" *)
  Lemma fdiv_spec : forall num den, ~ den == 0 ->
    ((num * finv p den) mod p) * den == num.
  Proof.
    intros num den Hden. rewrite eqm_mod.
    assert (E : num * finv p den * den == num * (den * finv p den)) by ering.
    rewrite E, (finv_spec den Hden). ering.
  Qed.

  Lemma fdiv_unique_eqm : forall num den v, ~ den == 0 ->
    v * den == num -> num * finv p den == v.
  Proof.
    intros num den v Hden Hv.
    apply (eqm_cancel_r den); [ exact Hden | ].
    rewrite Hv.
    assert (E : num * finv p den * den == num * (den * finv p den)) by ering.
    rewrite E, (finv_spec den Hden). ering.
  Qed.

  Lemma fdiv_unique : forall num den v, ~ den == 0 ->
    v * den == num -> 0 <= v < p -> (num * finv p den) mod p = v.
  Proof.
    intros num den v Hden Hv Hr. pose proof p_gt_1 as H1.
    apply (eqm_small p); [ apply Z.mod_pos_bound; lia | exact Hr | ].
    rewrite eqm_mod. apply fdiv_unique_eqm; assumption.
  Qed.

  (* division is a morphism in numerator and denominator *)
  Lemma fdiv_eqm : forall num num' den den', num == num' -> den == den' ->
    (num * finv p den) mod p = (num' * finv p den') mod p.
  Proof.
    intros num num' den den' Hn Hd. rewrite (finv_eqm den den' Hd).
    apply eqm_mod_eq. rewrite Hn. reflexivity.
  Qed.
End PrimeField.

(* C07 extras, stated on the models (Model/Poseidon.v, Model/Mimc7.v) and on
   the regenerated tables (Gen/PoseidonT<t>.v through
   PoseidonConforms.gen_tables):
     - exact panic condition of mimc7.HashGeneric;
     - no aliasing tied to the hash entry points (accepted vectors, of equal
       length or not, are never elementwise congruent mod q);
     - length of the result of poseidon.HashWithStateEx;
     - shape (and range) of the sixteen regenerated tables: every index read
       by the optimized loop is inside its table;
     - observations on mimc7.Hash's key. *)
From Coq Require Import ZArith List Bool Lia Arith.
From Verif Require Import Lib.Params Lib.Octets Spec.Hades Spec.MiMC7Spec
  Model.Outcome Model.Utils Model.HadesOpt.
From Verif Require Model.Poseidon Model.Mimc7.
From Verif Require Import Proofs.HashDomainProofs Proofs.PoseidonConforms.
Import ListNotations.
Local Open Scope Z_scope.

(* ------------------------------------------------------------------ *)
(** * Shape of the regenerated tables (by computation, q transparent) *)

(* the optimized loop of width t with RF = 8 reads
     C[0 .. 8 t + RP),  S[0 .. (2 t - 1) RP),  M[j][i], P[j][i] for i, j < t *)
Definition table_shape_ok (t : nat) (tb : Poseidon.ptable) : bool :=
  let '(RP, C, S_, M, P) := tb in
  Nat.eqb (length C) (8 * t + RP) &&
  Nat.eqb (length S_) ((2 * t - 1) * RP) &&
  Nat.eqb (length M) t && forallb (fun r => Nat.eqb (length r) t) M &&
  Nat.eqb (length P) t && forallb (fun r => Nat.eqb (length r) t) P.

Definition zin_field (x : Z) : bool := (0 <=? x) && (x <? q).

Definition table_range_ok (tb : Poseidon.ptable) : bool :=
  let '(RP, C, S_, M, P) := tb in
  forallb zin_field C && forallb zin_field S_ &&
  forallb (forallb zin_field) M && forallb (forallb zin_field) P.

Lemma tables_shape_check :
  forallb (fun e => table_shape_ok (fst e) (snd e)) (combine (seq 2 16) gen_tables) = true.
Proof. vm_compute. reflexivity. Qed.

Lemma tables_range_check : forallb table_range_ok gen_tables = true.
Proof. vm_compute. reflexivity. Qed.

Local Opaque q.

Lemma forallb_len_spec (t : nat) (m : list (list Z)) :
  forallb (fun r => Nat.eqb (length r) t) m = true <-> Forall (fun r => length r = t) m.
Proof.
  rewrite forallb_forall, Forall_forall.
  split; intros H r Hr; [apply Nat.eqb_eq|apply Nat.eqb_eq]; apply H; exact Hr.
Qed.

Lemma nth_error_combine_seq {A} (l : list A) : forall a i (x : A),
  nth_error l i = Some x -> nth_error (combine (seq a (length l)) l) i = Some ((a + i)%nat, x).
Proof.
  induction l as [|y l IH]; intros a i x H; [destruct i; discriminate|].
  destruct i as [|i]; cbn [length seq combine nth_error] in *.
  - injection H as ->. rewrite Nat.add_0_r. reflexivity.
  - rewrite (IH (S a) i x H). f_equal. f_equal. lia.
Qed.

(* every table: the lengths the loop of that width relies on *)
Theorem tables_shape_ok : forall t RP C S_ M P, (2 <= t <= 17)%nat ->
  nth_error gen_tables (t - 2) = Some (RP, C, S_, M, P) ->
  length C = (8 * t + RP)%nat /\
  length S_ = ((2 * t - 1) * RP)%nat /\
  length M = t /\ Forall (fun r => length r = t) M /\
  length P = t /\ Forall (fun r => length r = t) P.
Proof.
  intros t RP C S_ M P Ht Hn.
  pose proof tables_shape_check as Hc. rewrite forallb_forall in Hc.
  pose proof (nth_error_combine_seq gen_tables 2 (t - 2) _ Hn) as Hcomb.
  change (length gen_tables) with 16%nat in Hcomb.
  replace (2 + (t - 2))%nat with t in Hcomb by lia.
  specialize (Hc _ (nth_error_In _ _ Hcomb)). cbn [fst snd table_shape_ok] in Hc.
  rewrite !andb_true_iff, !Nat.eqb_eq, !forallb_len_spec in Hc.
  tauto.
Qed.

(* there is a table for every width 2 .. 17 *)
Theorem tables_present : forall t, (2 <= t <= 17)%nat ->
  exists tb, nth_error gen_tables (t - 2) = Some tb.
Proof.
  intros t Ht. destruct (nth_error gen_tables (t - 2)) eqn:E; [eauto|].
  apply nth_error_None in E. change (length gen_tables) with 16%nat in E. lia.
Qed.

Lemma zin_field_spec x : zin_field x = true <-> 0 <= x < q.
Proof. unfold zin_field. rewrite andb_true_iff, Z.leb_le, Z.ltb_lt. tauto. Qed.

Lemma forallb_zin l : forallb zin_field l = true <-> Forall (fun x => 0 <= x < q) l.
Proof.
  rewrite forallb_forall, Forall_forall.
  split; intros H x Hx; apply zin_field_spec; apply H; exact Hx.
Qed.

Lemma forallb_zin2 m : forallb (forallb zin_field) m = true <->
  Forall (Forall (fun x => 0 <= x < q)) m.
Proof.
  rewrite forallb_forall, Forall_forall.
  split; intros H x Hx; apply forallb_zin; apply H; exact Hx.
Qed.

(* every entry of every table is a canonical field element *)
Theorem tables_in_field : forall i RP C S_ M P,
  nth_error gen_tables i = Some (RP, C, S_, M, P) ->
  Forall (fun x => 0 <= x < q) C /\ Forall (fun x => 0 <= x < q) S_ /\
  Forall (Forall (fun x => 0 <= x < q)) M /\ Forall (Forall (fun x => 0 <= x < q)) P.
Proof.
  intros i RP C S_ M P Hn.
  pose proof tables_range_check as Hc. rewrite forallb_forall in Hc.
  specialize (Hc _ (nth_error_In _ _ Hn)). cbn [table_range_ok] in Hc.
  rewrite !andb_true_iff, !forallb_zin, !forallb_zin2 in Hc. tauto.
Qed.

(* ------------------------------------------------------------------ *)
(** * Length of the result of HashWithStateEx (any modulus, any tables) *)

Lemma mix_length p t m st : length (mix p t m st) = t.
Proof. unfold mix. rewrite map_length, seq_length. reflexivity. Qed.

Lemma perm_opt_length p sbox t RF RP C S_ M P st :
  length (perm_opt p sbox t RF RP C S_ M P st) = t.
Proof. unfold perm_opt. cbv zeta. apply mix_length. Qed.

Theorem HashWithStateEx_ok_length_gen : forall Q NR tables inp cap nOuts r,
  Poseidon.HashWithStateEx Q NR tables inp cap nOuts = Ok r ->
  length r = Z.to_nat nOuts /\ (1 <= length r <= S (length inp))%nat.
Proof.
  intros Q NR tables inp cap nOuts r H. unfold Poseidon.HashWithStateEx in H. cbv zeta in H.
  destruct (Nat.eqb (length inp) 0 || Nat.ltb (length tables) (length inp)); [discriminate|].
  destruct (negb (CheckBigIntArrayInField Q inp)); [discriminate|].
  destruct ((nOuts <? 1) || (Z.of_nat (S (length inp)) <? nOuts)) eqn:E3; [discriminate|].
  apply orb_false_iff in E3. rewrite !Z.ltb_ge in E3.
  destruct (nth_error tables (S (length inp) - 2)) as [[[[[RP C] S_] M] P]|]; [|discriminate].
  destruct (negb (CheckBigIntInField Q cap)); [discriminate|].
  injection H as <-. rewrite firstn_length, perm_opt_length. lia.
Qed.

Theorem HashWithStateEx_ok_length : forall inp cap nOuts r,
  Poseidon.HashWithStateEx q 8 gen_tables inp cap nOuts = Ok r ->
  length r = Z.to_nat nOuts.
Proof.
  intros inp cap nOuts r H.
  exact (proj1 (HashWithStateEx_ok_length_gen q 8%nat gen_tables inp cap nOuts r H)).
Qed.

Corollary HashEx_ok_length : forall inp nOuts r,
  Poseidon.HashEx q 8 gen_tables inp nOuts = Ok r -> length r = Z.to_nat nOuts.
Proof. intros inp nOuts r H. exact (HashWithStateEx_ok_length inp 0 nOuts r H). Qed.

(* ------------------------------------------------------------------ *)
(** * No aliasing, tied to the hash entry points *)

Definition congruent_vectors (v v' : list Z) : Prop :=
  Forall2 (fun a b => a mod q = b mod q) v v'.

(* vectors of different lengths are never elementwise congruent *)
Lemma congruent_vectors_length v v' : congruent_vectors v v' -> length v = length v'.
Proof. intros H. induction H as [|a b l l' _ _ IH]; [reflexivity|cbn [length]; lia]. Qed.

Lemma congruent_vectors_nth v v' : length v = length v' ->
  (forall i, (i < length v)%nat -> nth i v 0 mod q = nth i v' 0 mod q) ->
  congruent_vectors v v'.
Proof.
  revert v'. induction v as [|a v IH]; intros [|b v'] Hl H; try discriminate Hl.
  - constructor.
  - constructor.
    + apply (H 0%nat). cbn [length]. lia.
    + apply IH; [cbn [length] in Hl; lia|].
      intros i Hi. apply (H (S i)). cbn [length]. lia.
Qed.

Theorem poseidon_Hash_no_alias : forall v v' h h',
  Poseidon.Hash q 8 gen_tables v = Ok h -> Poseidon.Hash q 8 gen_tables v' = Ok h' ->
  v <> v' -> ~ congruent_vectors v v'.
Proof.
  intros v v' h h' H H'.
  apply (poseidon_no_alias 8%nat gen_tables PoseidonConforms.gen_tables_length);
    [rewrite H|rewrite H']; reflexivity.
Qed.

(* explicit form: the lengths differ, or some position differs mod q *)
Theorem poseidon_Hash_no_alias_explicit : forall v v' h h',
  Poseidon.Hash q 8 gen_tables v = Ok h -> Poseidon.Hash q 8 gen_tables v' = Ok h' ->
  v <> v' ->
  length v <> length v' \/
  ~ (forall i, (i < length v)%nat -> nth i v 0 mod q = nth i v' 0 mod q).
Proof.
  intros v v' h h' H H' Hne.
  destruct (Nat.eq_dec (length v) (length v')) as [El|Nl]; [right|left; exact Nl].
  intros Hall. apply (poseidon_Hash_no_alias v v' h h' H H' Hne).
  apply congruent_vectors_nth; assumption.
Qed.

Theorem poseidon_HashWithStateEx_no_alias : forall v cap n r v' cap' n' r',
  Poseidon.HashWithStateEx q 8 gen_tables v cap n = Ok r ->
  Poseidon.HashWithStateEx q 8 gen_tables v' cap' n' = Ok r' ->
  cap :: v <> cap' :: v' -> ~ congruent_vectors (cap :: v) (cap' :: v').
Proof.
  intros v cap n r v' cap' n' r' H H'.
  apply (poseidon_no_alias_state 8%nat gen_tables PoseidonConforms.gen_tables_length v cap n v' cap' n');
    [rewrite H|rewrite H']; reflexivity.
Qed.

Theorem mimc7_Hash_no_alias : forall v v' key key' h h',
  Mimc7.Hash v key = Ok h -> Mimc7.Hash v' key' = Ok h' ->
  v <> v' -> ~ congruent_vectors v v'.
Proof.
  intros v v' key key' h h' H H'.
  apply (mimc7_no_alias v v' key key'); [rewrite H|rewrite H']; reflexivity.
Qed.

Theorem mimc7_Hash_no_alias_explicit : forall v v' key key' h h',
  Mimc7.Hash v key = Ok h -> Mimc7.Hash v' key' = Ok h' -> v <> v' ->
  length v <> length v' \/
  ~ (forall i, (i < length v)%nat -> nth i v 0 mod q = nth i v' 0 mod q).
Proof.
  intros v v' key key' h h' H H' Hne.
  destruct (Nat.eq_dec (length v) (length v')) as [El|Nl]; [right|left; exact Nl].
  intros Hall. apply (mimc7_Hash_no_alias v v' key key' h h' H H' Hne).
  apply congruent_vectors_nth; assumption.
Qed.

(* a vector with an entry >= q (e.g. v_i + q) is not accepted at all *)
Theorem poseidon_Hash_rejects_shifted : forall v i, (i < length v)%nat ->
  q <= nth i v 0 -> Poseidon.Hash q 8 gen_tables v = Err.
Proof.
  intros v i Hi Hq.
  apply (poseidon_Hash_err_iff 8%nat gen_tables PoseidonConforms.gen_tables_length).
  intros [_ HF]. rewrite Forall_forall in HF.
  specialize (HF _ (nth_In v 0 Hi)). lia.
Qed.

Theorem mimc7_Hash_rejects_shifted : forall v key i, (i < length v)%nat ->
  q <= nth i v 0 -> Mimc7.Hash v key = Err.
Proof.
  intros v key i Hi Hq. apply mimc7_Hash_err_iff.
  intros HF. rewrite Forall_forall in HF.
  specialize (HF _ (nth_In v 0 Hi)). lia.
Qed.

(* ------------------------------------------------------------------ *)
(** * mimc7.HashGeneric: exact panic condition (re-export) *)

Theorem mimc7_HashGeneric_panic_iff : forall iv arr n,
  Mimc7.HashGeneric iv arr n = Panic <->
  n <= 0 /\ arr <> [] /\ Forall (fun v => 0 <= v < q) arr.
Proof. exact HashDomainProofs.mimc7_HashGeneric_panic_iff. Qed.

(* ------------------------------------------------------------------ *)
(** * observations *)

(* the key of mimc7.Hash is not range-checked: with a non-empty array, keys
   congruent mod q (k and k + q, negative keys) give the same digest ... *)
Theorem mimc7_Hash_key_aliases : forall arr k k',
  arr <> [] -> k mod q = k' mod q ->
  Mimc7.Hash arr (Some k) = Mimc7.Hash arr (Some k').
Proof. exact HashDomainProofs.mimc7_Hash_key_aliases. Qed.

(* ... and with an empty array the key is returned unreduced *)
Theorem mimc7_Hash_empty_returns_key : forall k, Mimc7.Hash [] (Some k) = Ok k.
Proof. exact HashDomainProofs.mimc7_Hash_empty_returns_key. Qed.

Print Assumptions tables_shape_ok.
Print Assumptions tables_in_field.
Print Assumptions HashWithStateEx_ok_length_gen.
Print Assumptions HashWithStateEx_ok_length.
Print Assumptions poseidon_Hash_no_alias.
Print Assumptions poseidon_Hash_no_alias_explicit.
Print Assumptions poseidon_HashWithStateEx_no_alias.
Print Assumptions mimc7_Hash_no_alias.
Print Assumptions mimc7_Hash_no_alias_explicit.
Print Assumptions poseidon_Hash_rejects_shifted.
Print Assumptions mimc7_HashGeneric_panic_iff.
Print Assumptions mimc7_Hash_key_aliases.
Print Assumptions mimc7_Hash_empty_returns_key.

(* Support definitions for the files Gen/FfGlue.v and Gen/FfgGlue.v that
   tools/limbgen generates from the element-level functions WITH LOOPS AND
   CALLS of ff/element.go and ffg/element.go (Exp, Legendre, Sqrt, Inverse,
   BatchInvert, the big.Int / byte conversions, Cmp, ...).

   Definitions only.  Everything here is the value-level reading of a Go
   language construct or of a math/big / encoding/binary library call; the
   table in tools/limbgen/README.md says which Go form is emitted as which of
   these.  Proofs/GlueLoops.v has the (few) facts proved about them. *)
From Coq Require Import ZArith List Bool.
From Verif Require Import Lib.Params Lib.Words Lib.Octets Lib.Powmod.
Import ListNotations.
Local Open Scope Z_scope.

(* result of a function / loop that runs on fuel: every unbounded Go loop
   (`for { }`, `for cond { }`) is a fixpoint on an explicit [fuel : nat]
   argument; [OutOfFuel] is the marker value returned when it is exhausted *)
Inductive fuelled (A : Type) : Type := Done (a : A) | OutOfFuel.
Arguments Done {A} a.
Arguments OutOfFuel {A}.

(* ---- uint64 / int arithmetic ---- *)
(* x + y, x - y, x++ , x-- on uint64: wrap modulo 2^64 *)
Definition wadd (x y : Z) : Z := (x + y) mod W.
Definition wsub (x y : Z) : Z := (x - y) mod W.
(* int(x) for x uint64 (64-bit int: two's complement reading) *)
Definition int_of_u64 (x : Z) : Z := if x <? 9223372036854775808 then x else x - W.
(* uint64(x) for x int *)
Definition u64_of_int (x : Z) : Z := x mod W.
(* bits.UintSize on the platforms that are modelled *)
Definition UintSize : Z := 64.

(* ---- math/big ---- *)
(* x.Cmp(y) *)
Definition big_cmp (x y : Z) : Z :=
  match x ?= y with Lt => -1 | Eq => 0 | Gt => 1 end.
(* x.BitLen(): length of |x| in bits, 0 for 0 *)
Definition big_bitlen (x : Z) : Z :=
  if Z.abs x =? 0 then 0 else Z.log2 (Z.abs x) + 1.
(* x.Bit(i): bit i of the two's complement representation *)
Definition big_bit (x i : Z) : Z := if Z.testbit x i then 1 else 0.
(* x.Bits(): the little-endian 64-bit words of |x|, no leading zero word *)
Definition big_nwords (x : Z) : nat := Z.to_nat ((big_bitlen x + 63) / 64).
Definition big_bits (x : Z) : list Z :=
  map (fun i => (Z.abs x / W ^ Z.of_nat i) mod W) (seq 0 (big_nwords x)).
(* z.Mod(x, y): Euclidean modulus, result in [0, |y|) *)
Definition big_mod (x y : Z) : Z := x mod (Z.abs y).
(* z.ModInverse(g, n) FOR A PRIME n (the only use: ffg Inverse with the field
   modulus): g^(n-2) mod n; for g = 0 mod n Go leaves z unchanged, which in the
   only caller is g itself reduced, i.e. the same 0.  External library code,
   modelled at value level exactly like Model/FfgLimbs.modinv. *)
Definition big_modinverse_prime (g n : Z) : Z := powmod g (n - 2) n.

(* ---- encoding/binary, slices ---- *)
(* binary.BigEndian.PutUint64(b[lo:lo+8], v) *)
Definition put_be64 (b : bytes) (lo : Z) (v : Z) : bytes :=
  firstn (Z.to_nat lo) b ++ be_bytes 8 v ++ skipn (Z.to_nat lo + 8) b.
(* l[i], len(l), l[i] = v  (an index out of range panics in Go; here: default
   value / no effect, and the equality theorems only cover indices in range) *)
Definition lnth {A : Type} (d : A) (l : list A) (i : Z) : A :=
  if i <? 0 then d else nth (Z.to_nat i) l d.
Definition llen {A : Type} (l : list A) : Z := Z.of_nat (length l).
Fixpoint lupd_nat {A : Type} (l : list A) (n : nat) (v : A) : list A :=
  match l, n with
  | [], _ => []
  | _ :: l', O => v :: l'
  | a :: l', S n' => a :: lupd_nat l' n' v
  end.
Definition lupd {A : Type} (l : list A) (i : Z) (v : A) : list A :=
  if i <? 0 then l else lupd_nat l (Z.to_nat i) v.
(* make([]T, n) *)
Definition lmake {A : Type} (d : A) (n : Z) : list A := repeat d (Z.to_nat n).

(* Decimal text <-> integers: the contracts of strconv.FormatUint /
   big.Int.String (printing) and big.Int.SetString(s, 10) (parsing: an
   optional sign followed by one or more decimal digits, nothing else). *)
From Coq Require Import ZArith List Bool.
From Verif Require Import Lib.Octets.
Import ListNotations.
Local Open Scope Z_scope.

(* digits of v > 0, least significant first; fuel = upper bound on the count *)
Fixpoint dec_digits_rev (fuel : nat) (v : Z) : bytes :=
  match fuel with
  | O => []
  | S f => if v <=? 0 then [] else (48 + v mod 10) :: dec_digits_rev f (v / 10)
  end.
(* decimal text of v >= 0 *)
Definition dec_of_nonneg (v : Z) : bytes :=
  if v <=? 0 then [48] else rev (dec_digits_rev (S (Z.to_nat (Z.log2 v))) v).
(* big.Int.String *)
Definition dec_of_Z (v : Z) : bytes :=
  if v <? 0 then 45 :: dec_of_nonneg (- v) else dec_of_nonneg v.

Definition is_digit (c : Z) : bool := (48 <=? c) && (c <=? 57).
Fixpoint parse_digits (acc : Z) (cs : bytes) : option Z :=
  match cs with
  | [] => Some acc
  | c :: r => if is_digit c then parse_digits (10 * acc + (c - 48)) r else None
  end.
(* big.Int.SetString(s, 10) *)
Definition parse_dec (cs : bytes) : option Z :=
  match cs with
  | [] => None
  | 45 :: (_ :: _) as r => match parse_digits 0 (tl cs) with Some v => Some (- v) | None => None end
  | 43 :: (_ :: _) as r => parse_digits 0 (tl cs)
  | 45 :: [] => None
  | 43 :: [] => None
  | _ => parse_digits 0 cs
  end.

(* Specification-side parameters, written from the property texts / public
   standards, NOT from the repository.  The repository's own constants are
   regenerated into Gen/*.v on every run and compared with these by
   computation. *)
From Coq Require Import ZArith List.
Local Open Scope Z_scope.

(* BN254 scalar field modulus *)
Definition q : Z :=
  21888242871839275222246405745257275088548364400416034343698204186575808495617.
(* BabyJubJub: a x^2 + y^2 = 1 + d x^2 y^2 *)
Definition ca : Z := 168700.
Definition cd : Z := 168696.
(* prime subgroup order l and full group order 8l *)
Definition l : Z :=
  2736030358979909402780800718157159386076813972158567259200215660948447373041.
Definition order : Z := 8 * l.
(* subgroup base point *)
Definition B8x : Z :=
  5299619240641551281634865583518297030282874472190772894086521144482721001553.
Definition B8y : Z :=
  16950150798460657717958625567821834550301663161624707787222815936182638968203.
(* Goldilocks prime 2^64 - 2^32 + 1 *)
Definition pg : Z := 18446744069414584321.

Definition W : Z := 18446744073709551616. (* 2^64 *)

Lemma W_eq : W = 2 ^ 64. Proof. reflexivity. Qed.
Lemma pg_eq : pg = 2 ^ 64 - 2 ^ 32 + 1. Proof. reflexivity. Qed.
Lemma order_eq :
  order = 21888242871839275222246405745257275088614511777268538073601725287587578984328.
Proof. reflexivity. Qed.

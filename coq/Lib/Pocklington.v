(* Pocklington's criterion over Z with [Znumtheory.prime], and a boolean
   certificate checker whose exponentiations all go through [powmod]. *)
From Coq Require Import ZArith Znumtheory Zpow_facts Lia List Bool.
From Verif Require Import Lib.Powmod Lib.NumberTheory.
Import ListNotations.
Local Open Scope Z_scope.

(* ------------------------------------------------------------------ *)
(** * Prime divisors and composite numbers *)

Lemma exists_prime_divisor : forall n, 1 < n -> exists r, prime r /\ (r | n).
Proof.
  intros n Hn. assert (H0 : 0 <= n) by lia. revert Hn. pattern n.
  apply Z_lt_induction; [ | exact H0 ]. clear n H0.
  intros n IH Hn. destruct (prime_dec n) as [Hp | Hnp].
  - exists n. split; [ exact Hp | apply Z.divide_refl ].
  - destruct (not_prime_divide n Hn Hnp) as (d & Hd & Hdn).
    destruct (IH d ltac:(lia) ltac:(lia)) as (r & Hr & Hrd).
    exists r. split; [ exact Hr | eapply Z.divide_trans; eassumption ].
Qed.

Lemma composite_split : forall n, 1 < n -> ~ prime n ->
  exists d k, n = k * d /\ 1 < d /\ 1 < k.
Proof.
  intros n Hn Hnp. destruct (not_prime_divide n Hn Hnp) as (d & Hd & k & Hk).
  exists d, k. split; [ exact Hk | ]. split; [ lia | ].
  destruct (Z_lt_le_dec 1 k) as [H | H]; [ exact H | ]. exfalso.
  assert (k * d <= 1 * d) by (apply Z.mul_le_mono_nonneg_r; lia). lia.
Qed.

Lemma mod_mod_divide : forall a r N, 0 < r -> 0 < N -> (r | N) -> (a mod N) mod r = a mod r.
Proof. intros a r N Hr HN Hd. symmetry. apply Zmod_div_mod; assumption. Qed.

(* ------------------------------------------------------------------ *)
(** * Pocklington's criterion *)

(* One witness: if r is a prime factor of N and a^(N-1) ≡ 1 (mod N) and
   gcd(a^((N-1)/p) - 1, N) = 1, then p does not divide the cofactor of
   gcd(N-1, r-1) in N-1. *)
Lemma pock_step : forall N r p a,
  1 < N -> prime r -> (r | N) -> 0 < p ->
  (a ^ (N - 1)) mod N = 1 ->
  Z.gcd ((a ^ ((N - 1) / p)) mod N - 1) N = 1 ->
  forall c, N - 1 = c * Z.gcd (N - 1) (r - 1) -> ~ (p | c).
Proof.
  intros N r p a HN Hr HrN Hp HaN Hgcd c Hc [c' Hc'].
  pose proof (prime_gt_1 r Hr) as Hr1.
  remember (Z.gcd (N - 1) (r - 1)) as g eqn:Eg.
  assert (Har : (a ^ (N - 1)) mod r = 1).
  { rewrite <- (mod_mod_divide _ r N) by (lia || exact HrN).
    rewrite HaN. apply mod_1_small; exact Hr1. }
  assert (Ha0 : a mod r <> 0).
  { intros H0. rewrite pow_mod_zero in Har by (lia || exact H0). lia. }
  assert (Hf : (a ^ (r - 1)) mod r = 1) by (apply fermat_little; assumption).
  assert (Hg : (a ^ g) mod r = 1).
  { rewrite Eg. apply pow_gcd_one; (lia || assumption). }
  assert (Hg0 : 0 <= g) by (rewrite Eg; apply Z.gcd_nonneg).
  assert (Hdiv : (N - 1) / p = c' * g).
  { rewrite Hc, Hc'. replace (c' * p * g) with (c' * g * p) by ring.
    apply Z.div_mul. lia. }
  assert (Hq0 : 0 <= (N - 1) / p) by (apply Z.div_pos; lia).
  assert (Hx : (a ^ ((N - 1) / p)) mod r = 1).
  { apply (pow_one_divide a g); try assumption. exists c'. exact Hdiv. }
  assert (Hr_div : (r | (a ^ ((N - 1) / p)) mod N - 1)).
  { apply mod_eq_divide; [ lia | ].
    rewrite mod_mod_divide by (lia || exact HrN). rewrite Hx.
    symmetry. apply mod_1_small. exact Hr1. }
  assert (Hr1' : (r | 1)).
  { rewrite <- Hgcd. apply Z.gcd_greatest; assumption. }
  apply Z.divide_1_r_nonneg in Hr1'; lia.
Qed.

(* (prime p, exponent e, witness a) *)
Definition wit : Type := (Z * Z * Z)%type.
Definition wit_p (w : wit) : Z := fst (fst w).
Definition wit_e (w : wit) : Z := snd (fst w).
Definition wit_a (w : wit) : Z := snd w.

Definition Fprod (ws : list wit) : Z :=
  fold_right (fun w acc => wit_p w ^ wit_e w * acc) 1 ws.

Definition witness_ok (N : Z) (w : wit) : Prop :=
  prime (wit_p w) /\ 0 <= wit_e w /\
  (wit_a w ^ (N - 1)) mod N = 1 /\
  Z.gcd ((wit_a w ^ ((N - 1) / wit_p w)) mod N - 1) N = 1.

Lemma Fprod_pos : forall N ws, Forall (witness_ok N) ws -> 0 < Fprod ws.
Proof.
  intros N ws H. induction H as [ | w ws Hw Hws IH ]; cbn [Fprod fold_right].
  - lia.
  - destruct Hw as (Hp & He & _). apply Z.mul_pos_pos; [ | exact IH ].
    apply Z.pow_pos_nonneg; [ | exact He ]. apply prime_gt_1 in Hp. lia.
Qed.

Lemma Fprod_rel_prime : forall N c ws,
  Forall (witness_ok N) ws ->
  (forall w, In w ws -> ~ (wit_p w | c)) ->
  rel_prime (Fprod ws) c.
Proof.
  intros N c ws H. induction H as [ | w ws Hw Hws IH ]; intros Hnd; cbn [Fprod fold_right].
  - apply rel_prime_1.
  - destruct Hw as (Hp & He & _).
    apply rel_prime_sym. apply rel_prime_mult.
    + apply rel_prime_Zpower_r; [ exact He | ]. apply rel_prime_sym.
      apply prime_rel_prime; [ exact Hp | ]. apply Hnd. left. reflexivity.
    + apply rel_prime_sym. apply IH. intros w' Hw'. apply Hnd. right. exact Hw'.
Qed.

(* every prime factor of N exceeds F *)
Lemma pock_factor_big : forall N F R ws,
  1 < N -> N - 1 = F * R -> F = Fprod ws -> Forall (witness_ok N) ws ->
  forall r, prime r -> (r | N) -> F < r.
Proof.
  intros N F R ws HN HFR HF Hws r Hr HrN.
  pose proof (prime_gt_1 r Hr) as Hr1.
  destruct (Z.gcd_divide_l (N - 1) (r - 1)) as [c Hc].
  assert (Hrp : rel_prime F c).
  { rewrite HF. apply (Fprod_rel_prime N); [ exact Hws | ].
    intros w Hw. rewrite Forall_forall in Hws.
    destruct (Hws w Hw) as (Hp & He & Ha1 & Ha2).
    apply (pock_step N r (wit_p w) (wit_a w)); try assumption.
    apply prime_gt_1 in Hp. lia. }
  assert (HFg : (F | Z.gcd (N - 1) (r - 1))).
  { apply (Gauss F c); [ | exact Hrp ]. exists R. rewrite <- Hc, HFR. ring. }
  assert (HFr : (F | r - 1)).
  { eapply Z.divide_trans; [ exact HFg | apply Z.gcd_divide_r ]. }
  apply Z.divide_pos_le in HFr; lia.
Qed.

Theorem pocklington : forall N F R ws,
  1 < N -> N - 1 = F * R -> F = Fprod ws -> Forall (witness_ok N) ws ->
  N < F * F -> prime N.
Proof.
  intros N F R ws HN HFR HF Hws Hbig.
  destruct (prime_dec N) as [Hp | Hnp]; [ exact Hp | exfalso ].
  assert (HF0 : 0 < F) by (rewrite HF; apply (Fprod_pos N); exact Hws).
  destruct (composite_split N HN Hnp) as (d & k & HNkd & Hd & Hk).
  assert (HFd : F < d).
  { destruct (exists_prime_divisor d Hd) as (r & Hr & Hrd).
    assert (HrN : (r | N)).
    { eapply Z.divide_trans; [ exact Hrd | ]. exists k. exact HNkd. }
    pose proof (pock_factor_big N F R ws HN HFR HF Hws r Hr HrN).
    apply Z.divide_pos_le in Hrd; lia. }
  assert (HFk : F < k).
  { destruct (exists_prime_divisor k Hk) as (r & Hr & Hrk).
    assert (HrN : (r | N)).
    { eapply Z.divide_trans; [ exact Hrk | ]. exists d. rewrite HNkd. ring. }
    pose proof (pock_factor_big N F R ws HN HFR HF Hws r Hr HrN).
    apply Z.divide_pos_le in Hrk; lia. }
  assert (F * F <= k * d) by (apply Z.mul_le_mono_nonneg; lia).
  lia.
Qed.

(* ------------------------------------------------------------------ *)
(** * Trial division *)

(* no divisor among 2 .. k+1 *)
Fixpoint no_div (n : Z) (k : nat) : bool :=
  match k with
  | O => true
  | S k' => negb (n mod (Z.of_nat k' + 2) =? 0) && no_div n k'
  end.

Lemma no_div_spec : forall n k, no_div n k = true ->
  forall d, 2 <= d < Z.of_nat k + 2 -> n mod d <> 0.
Proof.
  intros n k. induction k as [ | k IH ]; cbn [no_div]; intros H d Hd.
  - lia.
  - apply andb_true_iff in H. destruct H as [H1 H2].
    apply negb_true_iff in H1. apply Z.eqb_neq in H1.
    destruct (Z.eq_dec d (Z.of_nat k + 2)) as [-> | Hne]; [ exact H1 | ].
    apply IH; [ exact H2 | lia ].
Qed.

Definition is_small_prime (n : Z) : bool :=
  (1 <? n) && no_div n (Z.to_nat (Z.sqrt n - 1)).

Lemma is_small_prime_sound : forall n, is_small_prime n = true -> prime n.
Proof.
  intros n H. unfold is_small_prime in H.
  apply andb_true_iff in H. destruct H as [H1 H2]. apply Z.ltb_lt in H1.
  destruct (prime_dec n) as [Hp | Hnp]; [ exact Hp | exfalso ].
  destruct (composite_split n H1 Hnp) as (d & k & Hnkd & Hd & Hk).
  assert (Hsmall : forall s t, n = t * s -> 1 < s -> s <= t -> False).
  { intros s t Hn Hs Hst.
    assert (Hss : s * s <= n) by (rewrite Hn; apply Z.mul_le_mono_nonneg_r; lia).
    apply Z.sqrt_le_square in Hss; [ | lia | lia ].
    apply (no_div_spec n _ H2 s); [ lia | ].
    apply mod_zero_divide; [ lia | ]. exists t. exact Hn. }
  destruct (Z_le_gt_dec d k) as [Hdk | Hdk].
  - apply (Hsmall d k); assumption.
  - apply (Hsmall k d); [ rewrite Hnkd; ring | exact Hk | lia ].
Qed.

(* ------------------------------------------------------------------ *)
(** * Certificates and the checker *)

Inductive cert : Type :=
| Small (n : Z)                    (* checked by trial division; n < 2^20 *)
| Pock (n : Z) (ws : list wit).    (* (prime p_i, exponent e_i, witness a_i) *)

Definition cert_n (c : cert) : Z :=
  match c with Small n => n | Pock n _ => n end.

Definition certified (cs : list cert) : list Z := map cert_n cs.

Definition small_bound : Z := 1048576.

(* p was certified earlier, or is small enough for trial division *)
Definition known_prime (known : list Z) (p : Z) : bool :=
  if existsb (Z.eqb p) known then true
  else if p <? small_bound then is_small_prime p else false.

Definition check_witness (N : Z) (w : wit) : bool :=
  (0 <? wit_e w)
  && (powmod (wit_a w) (N - 1) N =? 1)
  && (Z.gcd (powmod (wit_a w) ((N - 1) / wit_p w) N - 1) N =? 1).

Definition check_one (known : list Z) (c : cert) : bool :=
  match c with
  | Small n => if n <? small_bound then is_small_prime n else false
  | Pock n ws =>
      (1 <? n)
      && forallb (fun w => known_prime known (wit_p w)) ws
      && forallb (check_witness n) ws
      && ((n - 1) mod (Fprod ws) =? 0)
      && (n <? Fprod ws * Fprod ws)
  end.

Fixpoint check_from (known : list Z) (cs : list cert) : bool :=
  match cs with
  | [] => true
  | c :: cs' => check_one known c && check_from (cert_n c :: known) cs'
  end.

Definition check (cs : list cert) : bool := check_from [] cs.

Lemma known_prime_sound : forall known p,
  (forall k, In k known -> prime k) -> known_prime known p = true -> prime p.
Proof.
  intros known p Hk H. unfold known_prime in H.
  destruct (existsb (Z.eqb p) known) eqn:E.
  - apply existsb_exists in E. destruct E as (k & Hin & Heq).
    apply Z.eqb_eq in Heq. subst k. apply Hk. exact Hin.
  - destruct (p <? small_bound); [ | discriminate ].
    apply is_small_prime_sound. exact H.
Qed.

Lemma check_witness_sound : forall N w,
  1 < N -> prime (wit_p w) -> check_witness N w = true -> witness_ok N w.
Proof.
  intros N w HN Hp H. unfold check_witness in H.
  apply andb_true_iff in H. destruct H as [H H3].
  apply andb_true_iff in H. destruct H as [H1 H2].
  apply Z.ltb_lt in H1. apply Z.eqb_eq in H2. apply Z.eqb_eq in H3.
  pose proof (prime_gt_1 _ Hp) as Hp1.
  assert (Hq0 : 0 <= (N - 1) / wit_p w) by (apply Z.div_pos; lia).
  rewrite powmod_spec in H2 by lia. rewrite powmod_spec in H3 by lia.
  unfold witness_ok. split; [ exact Hp | ]. split; [ lia | ]. split; assumption.
Qed.

Lemma check_one_sound : forall known c,
  (forall k, In k known -> prime k) -> check_one known c = true -> prime (cert_n c).
Proof.
  intros known c Hk H. destruct c as [ n | n ws ]; cbn [check_one cert_n] in *.
  - destruct (n <? small_bound); [ | discriminate ].
    apply is_small_prime_sound. exact H.
  - apply andb_true_iff in H. destruct H as [H H5].
    apply andb_true_iff in H. destruct H as [H H4].
    apply andb_true_iff in H. destruct H as [H H3].
    apply andb_true_iff in H. destruct H as [H1 H2].
    apply Z.ltb_lt in H1. apply Z.eqb_eq in H4. apply Z.ltb_lt in H5.
    rewrite forallb_forall in H2. rewrite forallb_forall in H3.
    remember (Fprod ws) as F eqn:EF.
    assert (HF0 : F <> 0).
    { intros ->. rewrite Z.mul_0_l in H5. lia. }
    apply (pocklington n F ((n - 1) / F) ws); try assumption.
    + apply Z_div_exact_full_2; assumption.
    + apply Forall_forall. intros w Hw.
      apply check_witness_sound; [ exact H1 | | apply H3; exact Hw ].
      apply (known_prime_sound known); [ exact Hk | apply H2; exact Hw ].
Qed.

Lemma check_from_sound : forall cs known,
  (forall k, In k known -> prime k) -> check_from known cs = true ->
  forall n, In n (certified cs) -> prime n.
Proof.
  intros cs. induction cs as [ | c cs IH ]; intros known Hk H n Hn; cbn [certified map] in Hn.
  - destruct Hn.
  - cbn [check_from] in H. apply andb_true_iff in H. destruct H as [H1 H2].
    pose proof (check_one_sound known c Hk H1) as Hc.
    destruct Hn as [Hn | Hn]; [ subst n; exact Hc | ].
    apply (IH (cert_n c :: known)); [ | exact H2 | exact Hn ].
    intros k [Hk' | Hk']; [ subst k; exact Hc | apply Hk; exact Hk' ].
Qed.

Theorem check_sound : forall certs, check certs = true ->
  forall n, In n (certified certs) -> prime n.
Proof.
  intros certs H n Hn. apply (check_from_sound certs []); try assumption.
  intros k [].
Qed.

(* convenient packaging: one boolean computation proves [prime n] *)
Corollary check_prime : forall certs n,
  check certs && existsb (Z.eqb n) (certified certs) = true -> prime n.
Proof.
  intros certs n H. apply andb_true_iff in H. destruct H as [H1 H2].
  apply existsb_exists in H2. destruct H2 as (k & Hin & Heq).
  apply Z.eqb_eq in Heq. subst k. apply (check_sound certs); assumption.
Qed.

Print Assumptions pocklington.
Print Assumptions check_sound.

(* Byte strings (list Z, each in [0,256)) and their integer readings, the
   contracts of big.Int.Bytes / SetBytes / FillBytes, encoding/hex. *)
From Coq Require Import ZArith List Bool.
Import ListNotations.
Local Open Scope Z_scope.

Definition bytes := list Z.
Definition is_byte (b : Z) : Prop := 0 <= b < 256.
Definition is_byteb (b : Z) : bool := (0 <=? b) && (b <? 256).

(* little-endian value of a byte string *)
Fixpoint le_val (bs : bytes) : Z :=
  match bs with [] => 0 | b :: r => b + 256 * le_val r end.
(* big-endian value: big.Int.SetBytes *)
Definition be_val (bs : bytes) : Z := le_val (rev bs).

(* n little-endian bytes of v (v >= 0), truncating *)
Fixpoint le_bytes (n : nat) (v : Z) : bytes :=
  match n with O => [] | S n' => (v mod 256) :: le_bytes n' (v / 256) end.
Definition be_bytes (n : nat) (v : Z) : bytes := rev (le_bytes n v).

(* number of bytes of the minimal representation: len(big.Int.Bytes()) *)
Definition byte_len (v : Z) : nat :=
  if Z.eqb v 0 then O else Z.to_nat (Z.log2 (Z.abs v) / 8 + 1).
(* big.Int.Bytes(): minimal big-endian bytes of |v| *)
Definition min_be_bytes (v : Z) : bytes := be_bytes (byte_len v) (Z.abs v).

(* hex digits; lower case as produced by hex.EncodeToString *)
Definition hex_digit (d : Z) : Z := if d <? 10 then 48 + d else 87 + d.
Definition hex_encode (bs : bytes) : bytes :=
  flat_map (fun b => [hex_digit (b / 16); hex_digit (b mod 16)]) bs.
(* value of one hex character (accepts both cases), None if invalid *)
Definition hex_val (c : Z) : option Z :=
  if (48 <=? c) && (c <=? 57) then Some (c - 48)
  else if (97 <=? c) && (c <=? 102) then Some (c - 87)
  else if (65 <=? c) && (c <=? 70) then Some (c - 55)
  else None.
(* hex.Decode on an even-length string; None on the first invalid char.
   (encoding/hex reports ErrLength for odd length after decoding the even
   prefix; callers below only need ok/err.) *)
Fixpoint hex_decode (cs : bytes) : option bytes :=
  match cs with
  | [] => Some []
  | [_] => None
  | a :: b :: r =>
      match hex_val a, hex_val b with
      | Some x, Some y =>
          match hex_decode r with Some t => Some (16 * x + y :: t) | None => None end
      | _, _ => None
      end
  end.

(* Modular exponentiation by square-and-multiply, structural on the binary
   representation of the exponent; computable with vm_compute on 254-bit
   numbers.  The characterisation [powmod_spec] lives in Lib/NumberTheory.v. *)
From Coq Require Import ZArith.
Local Open Scope Z_scope.

Fixpoint powmod_pos (a : Z) (e : positive) (n : Z) : Z :=
  match e with
  | xH => a mod n
  | xO e' => let r := powmod_pos a e' n in (r * r) mod n
  | xI e' => let r := powmod_pos a e' n in (((r * r) mod n) * a) mod n
  end.

(* a^e mod n; exponent <= 0 gives 1 mod n (only e >= 0 is ever used) *)
Definition powmod (a e n : Z) : Z :=
  match e with
  | Zpos e' => powmod_pos a e' n
  | _ => 1 mod n
  end.

(* 64-bit word primitives: the contracts of math/bits Add64/Sub64/Mul64/Len64
   and of Go's wrapping uint64 operators, over Z. *)
From Coq Require Import ZArith Lia.
From Verif Require Import Lib.Params.
Local Open Scope Z_scope.
Set Default Timeout 120.

Definition u64 (x : Z) : Prop := 0 <= x < W.

(* bits.Add64(x, y, carry) = (sum, carryOut) *)
Definition add64 (x y c : Z) : Z * Z := ((x + y + c) mod W, (x + y + c) / W).
(* bits.Sub64(x, y, borrow) = (diff, borrowOut) *)
Definition sub64 (x y b : Z) : Z * Z :=
  ((x - y - b) mod W, if Z.ltb (x - y - b) 0 then 1 else 0).
(* bits.Mul64(x, y) = (hi, lo) *)
Definition mul64 (x y : Z) : Z * Z := ((x * y) / W, (x * y) mod W).
(* wrapping x * y on uint64 *)
Definition wmul (x y : Z) : Z := (x * y) mod W.
(* x >> k, x << k on uint64 *)
Definition shr64 (x k : Z) : Z := Z.shiftr x k.
Definition shl64 (x k : Z) : Z := (Z.shiftl x k) mod W.
Definition or64 (x y : Z) : Z := Z.lor x y.
Definition and64 (x y : Z) : Z := Z.land x y.
(* bits.Len64 *)
Definition len64 (x : Z) : Z := if Z.eqb x 0 then 0 else Z.log2 x + 1.

(* ff/arith.go, ffg/arith.go: written exactly as the Go helpers *)
Definition madd0 (a b c : Z) : Z :=
  let '(hi, lo) := mul64 a b in
  let '(_, carry) := add64 lo c 0 in
  let '(hi, _) := add64 hi 0 carry in
  hi.
Definition madd1 (a b c : Z) : Z * Z :=
  let '(hi, lo) := mul64 a b in
  let '(lo, carry) := add64 lo c 0 in
  let '(hi, _) := add64 hi 0 carry in
  (hi, lo).
Definition madd2 (a b c d : Z) : Z * Z :=
  let '(hi, lo) := mul64 a b in
  let '(c, carry) := add64 c d 0 in
  let '(hi, _) := add64 hi 0 carry in
  let '(lo, carry) := add64 lo c 0 in
  let '(hi, _) := add64 hi 0 carry in
  (hi, lo).
Definition madd3 (a b c d e : Z) : Z * Z :=
  let '(hi, lo) := mul64 a b in
  let '(c, carry) := add64 c d 0 in
  let '(hi, _) := add64 hi 0 carry in
  let '(lo, carry) := add64 lo c 0 in
  let '(hi, _) := add64 hi e carry in
  (hi, lo).

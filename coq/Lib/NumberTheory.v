(* Elementary number theory over Z with [Znumtheory.prime]:
   powmod characterisation, Fermat, inverses, square roots of one,
   Euler's criterion (easy direction), power-of-two order facts. *)
From Coq Require Import ZArith Znumtheory Zpow_facts Lia List.
From Verif Require Import Lib.Powmod Lib.FermatBridge.
Local Open Scope Z_scope.

(* ------------------------------------------------------------------ *)
(** * Generic helpers about [mod], [Z.pow] and divisibility *)

Lemma prime_gt_1 : forall p, prime p -> 1 < p.
Proof. intros p Hp. apply prime_ge_2 in Hp. lia. Qed.

Lemma mod_1_small : forall n, 1 < n -> 1 mod n = 1.
Proof. intros n Hn. apply Z.mod_small. lia. Qed.

Lemma mod_neg1 : forall n, 1 < n -> (-1) mod n = n - 1.
Proof.
  intros n Hn. replace (-1) with (n - 1 + (-1) * n) by lia.
  rewrite Z.mod_add by lia. apply Z.mod_small. lia.
Qed.

Lemma mod_opp_1 : forall n, 1 < n -> (- (1)) mod n = n - 1.
Proof. intros n Hn. apply mod_neg1. exact Hn. Qed.

Lemma mod_eq_divide : forall n a b, 0 < n -> (a mod n = b mod n <-> (n | a - b)).
Proof.
  intros n a b Hn. split.
  - intros H. exists (a / n - b / n).
    pose proof (Z.div_mod a n ltac:(lia)) as Ha.
    pose proof (Z.div_mod b n ltac:(lia)) as Hb.
    rewrite H in Ha. lia.
  - intros [k Hk]. replace a with (b + k * n) by lia. apply Z.mod_add. lia.
Qed.

Lemma mod_zero_divide : forall n a, 0 < n -> (a mod n = 0 <-> (n | a)).
Proof. intros n a Hn. apply Z.mod_divide. lia. Qed.

Lemma mod_eq_sub : forall n a b, 0 < n -> (a mod n = b mod n <-> (a - b) mod n = 0).
Proof.
  intros n a b Hn. rewrite mod_eq_divide by exact Hn.
  rewrite mod_zero_divide by exact Hn. reflexivity.
Qed.

Lemma mul_mod_l : forall a b n, 0 < n -> ((a mod n) * b) mod n = (a * b) mod n.
Proof. intros a b n Hn. apply Z.mul_mod_idemp_l. lia. Qed.

Lemma mul_mod_r : forall a b n, 0 < n -> (a * (b mod n)) mod n = (a * b) mod n.
Proof. intros a b n Hn. apply Z.mul_mod_idemp_r. lia. Qed.

Lemma mul_mod_congr : forall n a a' b b', 0 < n ->
  a mod n = a' mod n -> b mod n = b' mod n -> (a * b) mod n = (a' * b') mod n.
Proof.
  intros n a a' b b' Hn Ha Hb.
  rewrite (Z.mul_mod a b) by lia. rewrite (Z.mul_mod a' b') by lia.
  rewrite Ha, Hb. reflexivity.
Qed.

Lemma pow_mod : forall a e n, 0 < n -> (a ^ e) mod n = ((a mod n) ^ e) mod n.
Proof. intros a e n Hn. apply Zpower_mod. exact Hn. Qed.

Lemma pow_mod_congr : forall n a b e, 0 < n ->
  a mod n = b mod n -> (a ^ e) mod n = (b ^ e) mod n.
Proof.
  intros n a b e Hn H. rewrite (pow_mod a) by exact Hn.
  rewrite (pow_mod b) by exact Hn. rewrite H. reflexivity.
Qed.

Lemma pow_mul : forall a b c, 0 <= b -> 0 <= c -> a ^ (b * c) = (a ^ b) ^ c.
Proof. intros a b c Hb Hc. apply Z.pow_mul_r; assumption. Qed.

Lemma pow_add : forall a b c, 0 <= b -> 0 <= c -> a ^ (b + c) = a ^ b * a ^ c.
Proof. intros a b c Hb Hc. apply Z.pow_add_r; assumption. Qed.

Lemma pow_succ : forall a b, 0 <= b -> a ^ (b + 1) = a * a ^ b.
Proof. intros a b Hb. rewrite Z.add_1_r. apply Z.pow_succ_r. exact Hb. Qed.

Lemma pow_square : forall a b, 0 <= b -> (a * a) ^ b = a ^ (2 * b).
Proof.
  intros a b Hb. rewrite pow_mul by lia. rewrite Z.pow_2_r. reflexivity.
Qed.

Lemma pow_double : forall a b, 0 <= b -> a ^ b * a ^ b = a ^ (2 * b).
Proof.
  intros a b Hb. rewrite <- pow_add by lia. f_equal. lia.
Qed.

Lemma pow_zero_mod : forall e n, 0 < e -> 0 < n -> (0 ^ e) mod n = 0.
Proof. intros e n He Hn. rewrite Z.pow_0_l by lia. apply Z.mod_0_l. lia. Qed.

(* if a ≡ 0 then a^e ≡ 0 for e > 0 *)
Lemma pow_mod_zero : forall a e n, 0 < e -> 0 < n -> a mod n = 0 -> (a ^ e) mod n = 0.
Proof.
  intros a e n He Hn Ha. rewrite pow_mod by exact Hn. rewrite Ha.
  apply pow_zero_mod; assumption.
Qed.

(* if a^k ≡ 1 then a^(k*m) ≡ 1 *)
Lemma pow_one_mul : forall a k m n, 1 < n -> 0 <= k -> 0 <= m ->
  (a ^ k) mod n = 1 -> (a ^ (k * m)) mod n = 1.
Proof.
  intros a k m n Hn Hk Hm H.
  rewrite pow_mul by assumption. rewrite pow_mod by lia. rewrite H.
  rewrite Z.pow_1_l by exact Hm. apply mod_1_small. exact Hn.
Qed.

(* if a^k ≡ 1 and k | m, m >= 0, then a^m ≡ 1 *)
Lemma pow_one_divide : forall a k m n, 1 < n -> 0 <= k -> 0 <= m -> (k | m) ->
  (a ^ k) mod n = 1 -> (a ^ m) mod n = 1.
Proof.
  intros a k m n Hn Hk Hm [c Hc] H.
  destruct (Z.eq_dec k 0) as [-> | Hk0].
  - replace m with 0 by lia. exact H.
  - assert (Hc0 : 0 <= c).
    { destruct (Z_lt_le_dec c 0) as [Hneg | Hpos]; [ | exact Hpos ].
      exfalso. assert (0 < k) by lia.
      assert (c * k <= (-1) * k) by (apply Z.mul_le_mono_nonneg_r; lia). lia. }
    subst m. rewrite Z.mul_comm. apply pow_one_mul; assumption.
Qed.

(* ------------------------------------------------------------------ *)
(** * (1) powmod *)

Lemma powmod_pos_spec : forall a e n, 0 < n -> powmod_pos a e n = (a ^ Zpos e) mod n.
Proof.
  intros a e n Hn. induction e as [e IH | e IH | ]; cbn [powmod_pos].
  - rewrite IH. rewrite Pos2Z.inj_xI.
    replace (2 * Z.pos e + 1) with (Z.pos e + Z.pos e + 1) by lia.
    rewrite !Z.pow_add_r by lia. rewrite Z.pow_1_r.
    rewrite <- Z.mul_mod by lia. rewrite Z.mul_mod_idemp_l by lia. reflexivity.
  - rewrite IH. rewrite Pos2Z.inj_xO.
    replace (2 * Z.pos e) with (Z.pos e + Z.pos e) by lia.
    rewrite Z.pow_add_r by lia. rewrite <- Z.mul_mod by lia. reflexivity.
  - rewrite Z.pow_1_r. reflexivity.
Qed.

Lemma powmod_spec : forall a e n, 0 <= e -> 0 < n -> powmod a e n = (a ^ e) mod n.
Proof.
  intros a e n He Hn. destruct e as [ | e | e ]; cbn [powmod].
  - rewrite Z.pow_0_r. reflexivity.
  - apply powmod_pos_spec. exact Hn.
  - lia.
Qed.

Lemma powmod_range : forall a e n, 0 < n -> 0 <= powmod a e n < n.
Proof.
  intros a e n Hn. destruct e as [ | e | e ]; cbn [powmod].
  - apply Z.mod_pos_bound. exact Hn.
  - rewrite powmod_pos_spec by exact Hn. apply Z.mod_pos_bound. exact Hn.
  - apply Z.mod_pos_bound. exact Hn.
Qed.

Lemma powmod_mod : forall a e n, 0 < n -> powmod (a mod n) e n = powmod a e n.
Proof.
  intros a e n Hn. destruct e as [ | e | e ]; cbn [powmod].
  - reflexivity.
  - rewrite !powmod_pos_spec by exact Hn. symmetry. apply pow_mod. exact Hn.
  - reflexivity.
Qed.

Lemma powmod_idem : forall a e n, 0 < n -> (powmod a e n) mod n = powmod a e n.
Proof. intros a e n Hn. apply Z.mod_small. apply powmod_range. exact Hn. Qed.

(* ------------------------------------------------------------------ *)
(** * (2) Fermat's little theorem *)

Theorem fermat_little : forall p a, prime p -> a mod p <> 0 -> (a ^ (p - 1)) mod p = 1.
Proof.
  intros p a Hp Ha. pose proof (prime_gt_1 p Hp) as Hp1.
  rewrite pow_mod by lia. apply fermat_Z; [ exact Hp | ].
  pose proof (Z.mod_pos_bound a p ltac:(lia)). lia.
Qed.

(* ------------------------------------------------------------------ *)
(** * (3) Z/p is an integral domain *)

Lemma prime_mul_zero : forall p a b, prime p -> (a * b) mod p = 0 -> a mod p = 0 \/ b mod p = 0.
Proof.
  intros p a b Hp H. pose proof (prime_gt_1 p Hp) as Hp1.
  apply mod_zero_divide in H; [ | lia ].
  destruct (prime_mult p Hp a b H) as [Hd | Hd]; [ left | right ];
    apply mod_zero_divide; (lia || exact Hd).
Qed.

Lemma prime_odd : forall p, prime p -> 2 < p -> p mod 2 = 1.
Proof.
  intros p Hp H2.
  destruct (Z.eq_dec (p mod 2) 0) as [H0 | H0].
  - apply mod_zero_divide in H0; [ | lia ].
    destruct (prime_divisors p Hp 2 H0) as [H | [H | [H | H]]]; lia.
  - pose proof (Z.mod_pos_bound p 2 ltac:(lia)). lia.
Qed.

Lemma prime_half : forall p, prime p -> 2 < p -> 2 * ((p - 1) / 2) = p - 1 /\ 0 < (p - 1) / 2.
Proof.
  intros p Hp H2. pose proof (prime_odd p Hp H2) as Hodd.
  pose proof (Z.div_mod p 2 ltac:(lia)) as Hdm. rewrite Hodd in Hdm.
  replace (p - 1) with ((p / 2) * 2) by lia.
  rewrite Z.div_mul by lia. lia.
Qed.

Lemma mul_mod_zero_l : forall a b n, 0 < n -> a mod n = 0 -> (a * b) mod n = 0.
Proof.
  intros a b n Hn Ha. rewrite <- mul_mod_l by exact Hn. rewrite Ha.
  rewrite Z.mul_0_l. apply Z.mod_0_l. lia.
Qed.

Lemma mul_mod_zero_r : forall a b n, 0 < n -> b mod n = 0 -> (a * b) mod n = 0.
Proof. intros a b n Hn Hb. rewrite Z.mul_comm. apply mul_mod_zero_l; assumption. Qed.

(* cancellation modulo a prime *)
Lemma prime_mul_cancel_l : forall p a b c, prime p -> a mod p <> 0 ->
  (a * b) mod p = (a * c) mod p -> b mod p = c mod p.
Proof.
  intros p a b c Hp Ha H. pose proof (prime_gt_1 p Hp) as Hp1.
  apply mod_eq_sub in H; [ | lia ]. apply mod_eq_sub; [ lia | ].
  replace (a * b - a * c) with (a * (b - c)) in H by ring.
  destruct (prime_mul_zero p a (b - c) Hp H) as [H0 | H0]; [ contradiction | exact H0 ].
Qed.

(* ------------------------------------------------------------------ *)
(** * (4) Inverse by Fermat *)

Definition inv_mod (a p : Z) : Z := powmod a (p - 2) p.

Lemma inv_mod_spec : forall p a, prime p -> a mod p <> 0 -> (a * inv_mod a p) mod p = 1.
Proof.
  intros p a Hp Ha. pose proof (prime_ge_2 p Hp) as Hp2.
  unfold inv_mod. rewrite powmod_spec by lia. rewrite mul_mod_r by lia.
  rewrite <- pow_succ by lia. replace (p - 2 + 1) with (p - 1) by lia.
  apply fermat_little; assumption.
Qed.

Lemma inv_mod_range : forall p a, 0 < p -> 0 <= inv_mod a p < p.
Proof. intros p a Hp. unfold inv_mod. apply powmod_range. exact Hp. Qed.

Lemma inv_mod_zero : forall p a, prime p -> 2 < p -> a mod p = 0 -> inv_mod a p = 0.
Proof.
  intros p a Hp H2 Ha. unfold inv_mod. rewrite powmod_spec by lia.
  apply pow_mod_zero; (lia || exact Ha).
Qed.

Lemma inv_mod_unique : forall p a b, prime p -> a mod p <> 0 -> (a * b) mod p = 1 -> b mod p = inv_mod a p.
Proof.
  intros p a b Hp Ha Hab. pose proof (prime_gt_1 p Hp) as Hp1.
  rewrite <- (Z.mod_small (inv_mod a p) p) by (apply inv_mod_range; lia).
  apply (prime_mul_cancel_l p a); [ exact Hp | exact Ha | ].
  rewrite Hab. symmetry. apply inv_mod_spec; assumption.
Qed.

Lemma inv_mod_mod : forall p a, 0 < p -> inv_mod (a mod p) p = inv_mod a p.
Proof. intros p a Hp. unfold inv_mod. apply powmod_mod. exact Hp. Qed.

Lemma inv_mod_nonzero : forall p a, prime p -> a mod p <> 0 -> inv_mod a p <> 0.
Proof.
  intros p a Hp Ha H0. pose proof (prime_gt_1 p Hp) as Hp1.
  pose proof (inv_mod_spec p a Hp Ha) as Hs. rewrite H0 in Hs.
  rewrite Z.mul_0_r in Hs. rewrite Z.mod_0_l in Hs by lia. lia.
Qed.

(* ------------------------------------------------------------------ *)
(** * (5) Square roots *)

Lemma square_roots_pm : forall p x y, prime p -> (x * x) mod p = (y * y) mod p -> x mod p = y mod p \/ x mod p = (- y) mod p.
Proof.
  intros p x y Hp H. pose proof (prime_gt_1 p Hp) as Hp1.
  apply mod_eq_sub in H; [ | lia ].
  replace (x * x - y * y) with ((x - y) * (x + y)) in H by ring.
  destruct (prime_mul_zero p _ _ Hp H) as [H0 | H0].
  - left. apply mod_eq_sub; [ lia | exact H0 ].
  - right. apply mod_eq_sub; [ lia | ]. replace (x - - y) with (x + y) by ring. exact H0.
Qed.

Lemma sqrt_one : forall p x, prime p -> (x * x) mod p = 1 -> x mod p = 1 \/ x mod p = p - 1.
Proof.
  intros p x Hp H. pose proof (prime_gt_1 p Hp) as Hp1.
  destruct (square_roots_pm p x 1 Hp) as [H1 | H1].
  - rewrite H. rewrite Z.mul_1_l. symmetry. apply mod_1_small. exact Hp1.
  - left. rewrite H1. apply mod_1_small. exact Hp1.
  - right. rewrite H1. apply mod_neg1. exact Hp1.
Qed.

(* ------------------------------------------------------------------ *)
(** * (6) Euler's criterion: easy direction and dichotomy *)

Lemma euler_square : forall p a r, prime p -> 2 < p -> a mod p <> 0 -> (r * r) mod p = a mod p -> (a ^ ((p - 1) / 2)) mod p = 1.
Proof.
  intros p a r Hp H2 Ha Hr.
  destruct (prime_half p Hp H2) as [Hh Hh0].
  rewrite (pow_mod_congr p a (r * r)) by (lia || (symmetry; exact Hr)).
  rewrite pow_square by lia. rewrite Hh.
  apply fermat_little; [ exact Hp | ].
  intros Hr0. apply Ha. rewrite <- Hr. apply mul_mod_zero_l; (lia || exact Hr0).
Qed.

Lemma euler_pm1 : forall p a, prime p -> 2 < p -> a mod p <> 0 -> (a ^ ((p - 1) / 2)) mod p = 1 \/ (a ^ ((p - 1) / 2)) mod p = p - 1.
Proof.
  intros p a Hp H2 Ha.
  destruct (prime_half p Hp H2) as [Hh Hh0].
  apply sqrt_one; [ exact Hp | ].
  rewrite pow_double by lia. rewrite Hh. apply fermat_little; assumption.
Qed.

Corollary euler_nonsquare : forall p a, prime p -> 2 < p -> (a ^ ((p - 1) / 2)) mod p = p - 1 -> forall r, (r * r) mod p <> a mod p.
Proof.
  intros p a Hp H2 Ha r Hr.
  destruct (prime_half p Hp H2) as [Hh Hh0].
  destruct (Z.eq_dec (a mod p) 0) as [H0 | H0].
  - rewrite pow_mod_zero in Ha by (lia || exact H0). lia.
  - rewrite (euler_square p a r Hp H2 H0 Hr) in Ha. lia.
Qed.

(* ------------------------------------------------------------------ *)
(** * (7) Order facts *)

Lemma pow2_nonneg : forall k, 0 <= 2 ^ k.
Proof. intros k. apply Z.pow_nonneg. lia. Qed.

Lemma pow2_pos : forall k, 0 <= k -> 0 < 2 ^ k.
Proof. intros k Hk. apply Z.pow_pos_nonneg; lia. Qed.

Lemma pow2_split : forall k e, 0 <= k <= e -> 2 ^ e = 2 ^ k * 2 ^ (e - k).
Proof. intros k e H. rewrite <- Z.pow_add_r by lia. f_equal. lia. Qed.

(* g^(2^k) ≡ 1 propagates upwards *)
Lemma pow2_one_up : forall n g k j, 1 < n -> 0 <= k <= j ->
  (g ^ (2 ^ k)) mod n = 1 -> (g ^ (2 ^ j)) mod n = 1.
Proof.
  intros n g k j Hn Hkj H. rewrite (pow2_split k j) by exact Hkj.
  apply pow_one_mul; try assumption; apply pow2_nonneg.
Qed.

Lemma pow2_order_exact : forall p g e, prime p -> 0 < e -> (g ^ (2 ^ (e - 1))) mod p = p - 1 -> 2 < p ->
  forall k, 0 <= k < e -> (g ^ (2 ^ k)) mod p <> 1.
Proof.
  intros p g e Hp He Hg H2 k Hk H1.
  rewrite (pow2_one_up p g k (e - 1)) in Hg by (lia || exact H1). lia.
Qed.

(* squaring step: (b^(2^k))^2 = b^(2^(k+1)) *)
Lemma pow2_step : forall b k, 0 <= k -> b ^ (2 ^ k) * b ^ (2 ^ k) = b ^ (2 ^ (k + 1)).
Proof.
  intros b k Hk. rewrite pow_double by apply pow2_nonneg.
  f_equal. rewrite pow_succ by exact Hk. reflexivity.
Qed.

(* if b^(2^(k+1)) ≡ 1 then b^(2^k) ≡ ±1 *)
Lemma pow2_half_pm1 : forall p b k, prime p -> 0 <= k ->
  (b ^ (2 ^ (k + 1))) mod p = 1 ->
  (b ^ (2 ^ k)) mod p = 1 \/ (b ^ (2 ^ k)) mod p = p - 1.
Proof.
  intros p b k Hp Hk H. apply sqrt_one; [ exact Hp | ].
  rewrite pow2_step by exact Hk. exact H.
Qed.

(* a nonzero residue stays nonzero under powers *)
Lemma pow_mod_nonzero : forall p a e, prime p -> 0 <= e -> a mod p <> 0 -> (a ^ e) mod p <> 0.
Proof.
  intros p a e Hp He Ha. pose proof (prime_gt_1 p Hp) as Hp1.
  pattern e. apply natlike_ind; [ | | exact He ].
  - rewrite Z.pow_0_r. rewrite mod_1_small by exact Hp1. lia.
  - intros x Hx IH H0. rewrite Z.pow_succ_r in H0 by exact Hx.
    destruct (prime_mul_zero p _ _ Hp H0); contradiction.
Qed.

(* Bezout with non-negative coefficients on the two sides *)
Lemma bezout_nonneg : forall m n, 0 < m -> 0 < n ->
  exists u v, 0 <= u /\ 0 <= v /\ u * m = Z.gcd m n + v * n.
Proof.
  intros m n Hm Hn.
  destruct (Z.gcd_bezout m n (Z.gcd m n) eq_refl) as (u0 & v0 & E).
  set (t := Z.abs u0 + Z.abs v0).
  assert (Ht : 0 <= t) by (unfold t; lia).
  assert (Htn : t * 1 <= t * n) by (apply Z.mul_le_mono_nonneg_l; lia).
  assert (Htm : t * 1 <= t * m) by (apply Z.mul_le_mono_nonneg_l; lia).
  exists (u0 + t * n), (t * m - v0).
  split; [ unfold t in *; lia | ]. split; [ unfold t in *; lia | ].
  rewrite <- E. ring.
Qed.

(* the exponents sending a to 1 are closed under gcd *)
Lemma pow_gcd_one : forall a m n N, 1 < N -> 0 < m -> 0 < n ->
  (a ^ m) mod N = 1 -> (a ^ n) mod N = 1 -> (a ^ (Z.gcd m n)) mod N = 1.
Proof.
  intros a m n N HN Hm Hn Ham Han.
  destruct (bezout_nonneg m n Hm Hn) as (u & v & Hu & Hv & E).
  assert (H1 : (a ^ (u * m)) mod N = 1).
  { rewrite Z.mul_comm. apply pow_one_mul; (lia || assumption). }
  assert (H2 : (a ^ (v * n)) mod N = 1).
  { rewrite Z.mul_comm. apply pow_one_mul; (lia || assumption). }
  rewrite E in H1.
  assert (Hvn : 0 <= v * n) by (apply Z.mul_nonneg_nonneg; lia).
  rewrite pow_add in H1 by (apply Z.gcd_nonneg || exact Hvn).
  rewrite <- mul_mod_r in H1 by lia. rewrite H2 in H1.
  rewrite Z.mul_1_r in H1. exact H1.
Qed.

(* least power-of-two exponent: if b^(2^e) ≡ 1 there is a least k <= e with
   b^(2^k) ≡ 1, and then b^(2^(k-1)) ≡ -1 unless k = 0 *)
Lemma pow2_least : forall p b e, prime p -> 0 <= e -> (b ^ (2 ^ e)) mod p = 1 ->
  exists k, 0 <= k <= e /\ (b ^ (2 ^ k)) mod p = 1 /\
            (k = 0 \/ (b ^ (2 ^ (k - 1))) mod p = p - 1).
Proof.
  intros p b e Hp He. pattern e. apply natlike_ind; [ | | exact He ].
  - intros H. exists 0. split; [ lia | ]. split; [ exact H | left; reflexivity ].
  - intros x Hx IH H. rewrite <- Z.add_1_r in H.
    destruct (pow2_half_pm1 p b x Hp Hx H) as [H1 | H1].
    + destruct (IH H1) as (k & Hk & Hk1 & Hk2).
      exists k. split; [ lia | ]. split; assumption.
    + exists (Z.succ x). split; [ lia | ]. split.
      * rewrite <- Z.add_1_r. exact H.
      * right. replace (Z.succ x - 1) with x by lia. exact H1.
Qed.

Print Assumptions fermat_little.
Print Assumptions inv_mod_unique.
Print Assumptions euler_nonsquare.
Print Assumptions pow2_order_exact.
Print Assumptions pow_gcd_one.

(* Fermat's little theorem on Z for [Znumtheory.prime], transferred from
   mathcomp's [Euler_exp_totient].  This is the only file of the development
   that imports mathcomp. *)
Set Warnings "-notation-overridden".
From mathcomp Require Import all_ssreflect fingroup cyclic zmodp.
From mathcomp Require Import zify.
From Coq Require Import ZArith Lia. From Coq Require Znumtheory.

Lemma prime_Z_nat (p : Z) : Znumtheory.prime p -> prime (Z.to_nat p).
Proof.
move=> Hp. have Hp1 : (1 < p)%Z by apply Znumtheory.prime_ge_2 in Hp; lia.
apply/primeP; split; first by lia.
move=> d /dvdnP [k Hk].
have Hd : (Z.of_nat d | p)%Z.
  exists (Z.of_nat k). lia.
case: (Znumtheory.prime_divisors p Hp _ Hd) => [|[|[|]]] H; apply/orP; [lia|left|right|lia]; apply/eqP; lia.
Qed.

Lemma fermat_Z (p a : Z) : Znumtheory.prime p -> (0 < a < p)%Z -> (a ^ (p - 1) mod p = 1)%Z.
Proof.
move=> Hp Ha. have Hp1 : (1 < p)%Z by apply Znumtheory.prime_ge_2 in Hp; lia.
have Hpn := prime_Z_nat p Hp.
have Hco : coprime (Z.to_nat a) (Z.to_nat p).
  rewrite coprime_sym prime_coprime //. apply/negP => Hdvd.
  have Hpos : is_true (leq 1 (Z.to_nat a)) by lia.
  have := dvdn_leq Hpos Hdvd. lia.
have := Euler_exp_totient Hco. rewrite totient_prime // => /eqP.
rewrite (modn_small (m:=1)); last by lia.
move=> /eqP H.
have Ea : a = Z.of_nat (Z.to_nat a) by lia.
have Ep : p = Z.of_nat (Z.to_nat p) by lia.
move: H Ea Ep Hpn. move: (Z.to_nat a) (Z.to_nat p) => a' p' H Ea Ep Hpn. subst a p.
have Hp' : (1 < p')%coq_nat by lia.
have -> : (Z.of_nat p' - 1)%Z = Z.of_nat p'.-1 by lia.
zify; match goal with H0 : (_ ^ _)%Z = _ |- _ => rewrite H0 end; subst r; rewrite Z.add_comm Z.mod_add; try lia; apply Z.mod_small; lia.
Qed.
Print Assumptions fermat_Z.

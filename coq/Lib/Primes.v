(* Kernel-checked primality of the three moduli of the development:
   q (BN254 scalar field), l (BabyJubJub prime subgroup order),
   pg (Goldilocks), by Pocklington certificates. *)
From Coq Require Import ZArith Znumtheory Lia List.
From Verif Require Import Lib.Params Lib.Powmod Lib.NumberTheory Lib.Pocklington.
Import ListNotations.
Local Open Scope Z_scope.

(* Chains found offline with sympy (factorint of N-1, smallest witnesses);
   every entry is re-checked here by [check] inside the kernel. *)
Definition q_certs : list cert :=
  [
    Pock 639533339
      [(1637, 1, 2); (853, 1, 2)];
    Pock 65865678001877903
      [(639533339, 1, 2)];
    Pock 13818364434197438864469338081
      [(65865678001877903, 1, 2)];
    Pock 12048837557
      [(93001, 1, 2); (661, 1, 2)];
    Pock 5156902474397
      [(12048837557, 1, 2)];
    Pock 1670836401704629
      [(5156902474397, 1, 2)];
    Pock 21888242871839275222246405745257275088548364400416034343698204186575808495617
      [(13818364434197438864469338081, 1, 2); (1670836401704629, 1, 2)]
  ].

Definition l_certs : list cert :=
  [
    Pock 10206821
      [(1061, 1, 2); (37, 1, 2)];
    Pock 81654569
      [(10206821, 1, 2)];
    Pock 27892051421815855583579
      [(81654569, 1, 2); (513749, 1, 2)];
    Pock 1863691091902891838383581623
      [(27892051421815855583579, 1, 2)];
    Pock 178259130663561045147472537592047227885001
      [(1863691091902891838383581623, 1, 2)];
    Pock 2736030358979909402780800718157159386076813972158567259200215660948447373041
      [(178259130663561045147472537592047227885001, 1, 2)]
  ].

(* pg - 1 = 2^32 * 3 * 5 * 17 * 257 * 65537; F = 2^32 already has F*F > pg *)
Definition pg_certs : list cert :=
  [ Pock 18446744069414584321 [(2, 32, 7)] ].

Theorem q_prime : prime q.
Proof.
  apply (check_prime q_certs q). vm_cast_no_check (eq_refl true).
Time Qed.

Theorem l_prime : prime l.
Proof.
  apply (check_prime l_certs l). vm_cast_no_check (eq_refl true).
Time Qed.

Theorem pg_prime : prime pg.
Proof.
  apply (check_prime pg_certs pg). vm_cast_no_check (eq_refl true).
Time Qed.

Print Assumptions q_prime.
Print Assumptions l_prime.
Print Assumptions pg_prime.

(* ------------------------------------------------------------------ *)
(** * Small facts about the three primes *)

Lemma q_gt_2 : 2 < q.   Proof. reflexivity. Qed.
Lemma l_gt_2 : 2 < l.   Proof. reflexivity. Qed.
Lemma pg_gt_2 : 2 < pg. Proof. reflexivity. Qed.

Lemma q_pos : 0 < q.    Proof. reflexivity. Qed.
Lemma l_pos : 0 < l.    Proof. reflexivity. Qed.
Lemma pg_pos : 0 < pg.  Proof. reflexivity. Qed.

Lemma q_gt_1 : 1 < q.   Proof. reflexivity. Qed.
Lemma l_gt_1 : 1 < l.   Proof. reflexivity. Qed.
Lemma pg_gt_1 : 1 < pg. Proof. reflexivity. Qed.

Lemma q_odd : q mod 2 = 1.   Proof. vm_compute. reflexivity. Qed.
Lemma l_odd : l mod 2 = 1.   Proof. vm_compute. reflexivity. Qed.
Lemma pg_odd : pg mod 2 = 1. Proof. vm_compute. reflexivity. Qed.

Lemma l_lt_q : l < q.   Proof. reflexivity. Qed.

(* 2-adic decompositions used by Tonelli-Shanks *)
Lemma q_two_adic : q - 1 = 2 ^ 28 * 81540058820840996586704275553141814055101440848469862132140264610111.
Proof. vm_compute. reflexivity. Qed.
Lemma pg_two_adic : pg - 1 = 2 ^ 32 * 4294967295.
Proof. vm_compute. reflexivity. Qed.

Lemma q_half : 2 * ((q - 1) / 2) = q - 1.
Proof. vm_compute. reflexivity. Qed.
Lemma pg_half : 2 * ((pg - 1) / 2) = pg - 1.
Proof. vm_compute. reflexivity. Qed.

(* Fermat and inverses, instantiated *)
Lemma fermat_q : forall a, a mod q <> 0 -> (a ^ (q - 1)) mod q = 1.
Proof. intros a Ha. apply fermat_little; [ exact q_prime | exact Ha ]. Qed.
Lemma fermat_l : forall a, a mod l <> 0 -> (a ^ (l - 1)) mod l = 1.
Proof. intros a Ha. apply fermat_little; [ exact l_prime | exact Ha ]. Qed.
Lemma fermat_pg : forall a, a mod pg <> 0 -> (a ^ (pg - 1)) mod pg = 1.
Proof. intros a Ha. apply fermat_little; [ exact pg_prime | exact Ha ]. Qed.

Lemma inv_mod_q : forall a, a mod q <> 0 -> (a * inv_mod a q) mod q = 1.
Proof. intros a Ha. apply inv_mod_spec; [ exact q_prime | exact Ha ]. Qed.
Lemma inv_mod_l : forall a, a mod l <> 0 -> (a * inv_mod a l) mod l = 1.
Proof. intros a Ha. apply inv_mod_spec; [ exact l_prime | exact Ha ]. Qed.
Lemma inv_mod_pg : forall a, a mod pg <> 0 -> (a * inv_mod a pg) mod pg = 1.
Proof. intros a Ha. apply inv_mod_spec; [ exact pg_prime | exact Ha ]. Qed.

#!/bin/bash
# One-off build after a fresh restore (offline): translators, Coq development
# (full .vo build), extraction + OCaml driver, Go harness.
set -e
cd /verif
export GOFLAGS=-mod=mod GOPROXY=off GOSUMDB=off GOTOOLCHAIN=local
mkdir -p _build/bin _build/tables _build/work evidence replays
for t in constgen limbgen asmgen bigintgen effgen; do
  if [ $t = effgen ] && ! grep -q Gen/EffectsIR.v coq/_CoqProject; then continue; fi
  if [ $t = limbgen ] && ! grep -q Gen/FfRoutines.v coq/_CoqProject; then continue; fi
  if [ $t = bigintgen ] && ! grep -q Gen/BigIntRoutines.v coq/_CoqProject; then continue; fi
  if [ $t = asmgen ] && ! grep -q Gen/FfAsm.v coq/_CoqProject; then continue; fi
  if [ -d tools/$t ]; then (cd tools/$t && go build -o /verif/_build/bin/$t .); /verif/_build/bin/$t /repo /verif || echo "setup: $t rc=$? (reported per property by check.py)"; fi
done
cd /verif/coq
coq_makefile -f _CoqProject -o Makefile
# -k: a proof that does not go through on this tree is reported by the check of
# the property that depends on it (check.py), not by the set-up
timeout 7000 make -k -j16 > /verif/_build/make.log 2>&1 || { grep -B2 -A6 '^Error' /verif/_build/make.log | head -60; echo "setup: some Coq files did not compile; the per-property checks report which properties are affected"; }
/verif/tools/build_driver.sh || echo "setup: driver not built (checks rebuild it)"
cp /repo/go.sum /verif/harness/go.sum
(cd /verif/harness && go build -tags verif -o /verif/_build/bin/harness . && go build -race -tags verif -o /verif/_build/bin/harness_race . && (GOARCH=386 CGO_ENABLED=0 go build -tags verif -o /verif/_build/bin/harness_386 . || true))
echo "setup: ok"

"""Plain-Python arithmetic used by the case generators and by the search for
failing inputs.  Nothing here is trusted by a theorem: it only produces inputs
(curve points, residues, boundary operands) and classifies them."""
import random

Q = 21888242871839275222246405745257275088548364400416034343698204186575808495617
L = 2736030358979909402780800718157159386076813972158567259200215660948447373041
ORDER = 8 * L
A, D = 168700, 168696
B8 = (5299619240641551281634865583518297030282874472190772894086521144482721001553,
      16950150798460657717958625567821834550301663161624707787222815936182638968203)
PG = 2**64 - 2**32 + 1
W = 2**64
R256 = 2**256


def inv(x, p=Q):
    return pow(x, p - 2, p)


def ed_add(P1, P2):
    x1, y1 = P1
    x2, y2 = P2
    k = D * x1 * x2 * y1 * y2 % Q
    return ((x1 * y2 + y1 * x2) * inv(1 + k) % Q, (y1 * y2 - A * x1 * x2) * inv(1 - k) % Q)


def _padd(P1, P2):
    # add-2008-bbjlp on projective coordinates (complete on this curve)
    X1, Y1, Z1 = P1
    X2, Y2, Z2 = P2
    Aa = Z1 * Z2 % Q
    Bb = Aa * Aa % Q
    C = X1 * X2 % Q
    Dd = Y1 * Y2 % Q
    E = D * C % Q * Dd % Q
    F = (Bb - E) % Q
    G = (Bb + E) % Q
    X3 = Aa * F % Q * ((X1 + Y1) * (X2 + Y2) - C - Dd) % Q
    Y3 = Aa * G % Q * (Dd - A * C) % Q
    return (X3, Y3, F * G % Q)


def ed_mul(k, P):
    R = (0, 1, 1)
    E = (P[0] % Q, P[1] % Q, 1)
    while k > 0:
        if k & 1:
            R = _padd(R, E)
        E = _padd(E, E)
        k >>= 1
    zi = inv(R[2])
    return (R[0] * zi % Q, R[1] * zi % Q)


def on_curve(P):
    x, y = P
    return (A * x * x + y * y - 1 - D * x * x * y * y) % Q == 0


def sqrt_mod(a, p=Q):
    """Tonelli-Shanks; None when a is a non-residue."""
    a %= p
    if a == 0:
        return 0
    if pow(a, (p - 1) // 2, p) != 1:
        return None
    s, e = p - 1, 0
    while s % 2 == 0:
        s //= 2
        e += 1
    n = 2
    while pow(n, (p - 1) // 2, p) != p - 1:
        n += 1
    x = pow(a, (s + 1) // 2, p)
    b = pow(a, s, p)
    g = pow(n, s, p)
    r = e
    while True:
        t, m = b, 0
        while t != 1:
            t = t * t % p
            m += 1
        if m == 0:
            return x
        gs = pow(g, 1 << (r - m - 1), p)
        g = gs * gs % p
        x = x * gs % p
        b = b * g % p
        r = m


def point_from_y(y, sign=None):
    """a curve point with this y (x chosen by sign: True -> x > (q-1)/2), or None."""
    y %= Q
    den = (A - D * y * y) % Q
    if den == 0:
        return None
    x2 = (1 - y * y) * inv(den) % Q
    x = sqrt_mod(x2)
    if x is None:
        return None
    if sign is not None and ((x > (Q - 1) // 2) != sign):
        x = (-x) % Q
    return (x, y)


def random_point(rng, subgroup=False):
    while True:
        P = point_from_y(rng.randrange(Q), rng.random() < 0.5)
        if P is not None:
            return ed_mul(8, P) if subgroup else P


def small_order_points():
    """the 8 points of order dividing 8"""
    rng = random.Random(12345)
    while True:
        T = ed_mul(L, random_point(rng))
        if ed_mul(4, T) != (0, 1):
            break
    return [ed_mul(i, T) for i in range(8)]


def compress(P):
    x, y = P
    v = y | ((1 << 255) if x > (Q - 1) // 2 else 0)
    return v.to_bytes(32, 'little')


def boundary_ints():
    return [0, 1, 2, Q - 2, Q - 1, (Q - 1) // 2, (Q + 1) // 2, 2**64 - 1, 2**64, 2**128 - 1, 2**192,
            2**253, 2**248 - 1, 2**248 + 1]


def hexb(b):
    return 'x' + bytes(b).hex()


def lst(l):
    return '[' + ','.join(str(int(v)) for v in l) + ']'


# ---- ff (BN254, R = 2^256) Montgomery helpers
def ff_mont(v):
    return v % Q * R256 % Q


def ff_unmont(raw):
    return raw * inv(R256 % Q) % Q


QL = [(Q >> (64 * i)) & (W - 1) for i in range(4)]


def ff_boundary_values(rng, n_random=8):
    """canonical REGULAR values whose Montgomery or regular limbs sit on
    boundaries; returned as raw Montgomery integers (< q)."""
    raws = set()
    limb_classes = lambda i: [0, 1, W - 1, QL[i] - 1, QL[i], (QL[i] + 1) % W]
    for _ in range(64):
        limbs = [rng.choice(limb_classes(i) + [rng.randrange(W)]) for i in range(4)]
        v = sum(l << (64 * i) for i, l in enumerate(limbs))
        if v < Q:
            raws.add(v)
    for v in [0, 1, 2, Q - 1, Q - 2, (Q - 1) // 2, (Q + 1) // 2, R256 % Q, R256 * R256 % Q,
              inv(R256 % Q), W - 1, W, W * W - 1, W**3, Q - W, Q - W * W]:
        raws.add(v % Q)
        raws.add(ff_mont(v))
    for _ in range(n_random):
        raws.add(rng.randrange(Q))
    return sorted(raws)

"""Independent Python evaluation of the SPECIFICATION side of most operation
lines (plain modular arithmetic, the textbook Hades permutation with
Grain-generated constants, the affine Edwards law, MiMC7 with a local Keccak).
Used (a) as a third voice next to implementation and extracted Coq model, so
that a constant that drifted in BOTH (the model's data is regenerated from the
source) is still noticed with a concrete input, and (b) as the search for a
failing input when a proof obligation breaks.  Not trusted by any theorem.

oracle(line) returns the expected canonical output string, or None when the
operation is not covered."""
import json
import os
from mathlib import *

CACHE = '/verif/_build/grain_cache.json'
RPS = [56, 57, 56, 60, 60, 63, 64, 63, 60, 66, 60, 65, 70, 60, 64, 68]
_grain = None


def grain(t, RF, RP, n=254):
    bits = []

    def put(v, k):
        for i in range(k - 1, -1, -1):
            bits.append((v >> i) & 1)
    put(1, 2); put(0, 4); put(n, 12); put(t, 12); put(RF, 10); put(RP, 10); bits.extend([1] * 30)
    b = bits

    def clock():
        nb = b[62] ^ b[51] ^ b[38] ^ b[23] ^ b[13] ^ b[0]
        b.pop(0); b.append(nb)
        return nb
    for _ in range(160):
        clock()

    def outbit():
        x = clock()
        while x == 0:
            clock(); x = clock()
        return clock()

    def rnd(k):
        v = 0
        for _ in range(k):
            v = (v << 1) | outbit()
        return v
    rc = []
    for _ in range((RF + RP) * t):
        v = rnd(n)
        while v >= Q:
            v = rnd(n)
        rc.append(v)
    xy = [rnd(n) % Q for _ in range(2 * t)]
    xs, ys = xy[:t], xy[t:]
    mds = [[pow(xs[i] + ys[j], -1, Q) for j in range(t)] for i in range(t)]
    return rc, mds


def grain_params(t):
    global _grain
    if _grain is None:
        if os.path.exists(CACHE):
            _grain = {int(k): v for k, v in json.load(open(CACHE)).items()}
        else:
            _grain = {}
    if t not in _grain:
        rc, mds = grain(t, 8, RPS[t - 2])
        _grain[t] = [rc, mds]
        try:
            os.makedirs(os.path.dirname(CACHE), exist_ok=True)
            json.dump(_grain, open(CACHE + '.tmp', 'w'))
            os.replace(CACHE + '.tmp', CACHE)
        except OSError:
            pass
    return _grain[t]


def poseidon_perm(state):
    t = len(state)
    rc, mds = grain_params(t)
    RP = RPS[t - 2]
    st = list(state)
    for r in range(8 + RP):
        st = [(x + rc[r * t + i]) % Q for i, x in enumerate(st)]
        if r < 4 or r >= 4 + RP:
            st = [pow(x, 5, Q) for x in st]
        else:
            st[0] = pow(st[0], 5, Q)
        st = [sum(mds[i][j] * st[j] for j in range(t)) % Q for i in range(t)]
    return st


def poseidon_ex(inp, cap, nouts):
    n = len(inp)
    if n == 0 or n > 16 or any(not (0 <= v < Q) for v in inp) or nouts < 1 or nouts > n + 1 or not (0 <= cap < Q):
        return None
    return poseidon_perm([cap] + inp)[:nouts]


# ---- Keccak-256 (legacy padding) and MiMC7
RC_K = [0x0000000000000001, 0x0000000000008082, 0x800000000000808A, 0x8000000080008000, 0x000000000000808B, 0x0000000080000001,
        0x8000000080008081, 0x8000000000008009, 0x000000000000008A, 0x0000000000000088, 0x0000000080008009, 0x000000008000000A,
        0x000000008000808B, 0x800000000000008B, 0x8000000000008089, 0x8000000000008003, 0x8000000000008002, 0x8000000000000080,
        0x000000000000800A, 0x800000008000000A, 0x8000000080008081, 0x8000000000008080, 0x0000000080000001, 0x8000000080008008]
M64 = (1 << 64) - 1


def rol(x, n):
    n %= 64
    return ((x << n) | (x >> (64 - n))) & M64 if n else x


def keccak_f(A):
    for rc in RC_K:
        C = [A[x] ^ A[x + 5] ^ A[x + 10] ^ A[x + 15] ^ A[x + 20] for x in range(5)]
        Dd = [C[(x - 1) % 5] ^ rol(C[(x + 1) % 5], 1) for x in range(5)]
        A = [A[i] ^ Dd[i % 5] for i in range(25)]
        B = [0] * 25
        x, y = 1, 0
        B[0] = A[0]
        for t in range(24):
            r = ((t + 1) * (t + 2) // 2) % 64
            X, Y = y, (2 * x + 3 * y) % 5
            B[X + 5 * Y] = rol(A[x + 5 * y], r)
            x, y = X, Y
        A = [B[i] ^ ((~B[(i % 5 + 1) % 5 + 5 * (i // 5)]) & B[(i % 5 + 2) % 5 + 5 * (i // 5)]) & M64 for i in range(25)]
        A = [a & M64 for a in A]
        A[0] ^= rc
    return A


def keccak256(msg):
    rate = 136
    m = bytearray(msg)
    pad = rate - len(m) % rate
    m += b'\x81' if pad == 1 else b'\x01' + bytes(pad - 2) + b'\x80'
    A = [0] * 25
    for off in range(0, len(m), rate):
        blk = m[off:off + rate]
        for i in range(rate // 8):
            A[i] ^= int.from_bytes(blk[8 * i:8 * i + 8], 'little')
        A = keccak_f(A)
    return b''.join(a.to_bytes(8, 'little') for a in A)[:32]


_mimc_c = [0]
_mimc_d = None


def mimc_consts(n):
    global _mimc_d
    if _mimc_d is None:
        _mimc_d = keccak256(b'mimc')
    while len(_mimc_c) < n:
        _mimc_d = keccak256(_mimc_d)
        _mimc_c.append(int.from_bytes(_mimc_d, 'big') % Q)
    return _mimc_c[:n]


def mimc7(x, k, n):
    c = mimc_consts(n)
    x %= Q
    k %= Q
    r = 0
    for i in range(n):
        t = (x + k) % Q if i == 0 else (r + k + c[i]) % Q
        r = pow(t, 7, Q)
    return (r + k) % Q


def mimc_hash(arr, key):
    if any(not (0 <= v < Q) for v in arr):
        return None
    r = 0 if key is None else key
    for m in arr:
        r = (r + m + mimc7(m, r, 91)) % Q
    return r


# ---- helpers
GLOB = {'gQ': Q, 'gZero': 0, 'gOne': 1, 'gMinusOne': -1, 'gA': A, 'gD': D, 'gOrder': ORDER, 'gSubOrder': L, 'gB8x': B8[0], 'gB8y': B8[1]}


def parse(tok):
    if tok.startswith('x'):
        return bytes.fromhex(tok[1:])
    if tok.startswith('['):
        s = tok[1:-1]
        return [int(v) for v in s.split(',')] if s else []
    if tok in GLOB:
        return GLOB[tok]
    if tok in ('true', 'false'):
        return tok == 'true'
    if tok == 'nil':
        return None
    try:
        return int(tok)
    except ValueError:
        return tok


def decompress(b):
    v = int.from_bytes(b, 'little')
    sign = bool(v >> 255)
    y = v & ((1 << 255) - 1)
    if y >= Q:
        return None
    P = point_from_y(y)
    if P is None:
        return None
    x = P[0]
    if sign and x == 0:
        return None
    if (x > (Q - 1) // 2) != sign:
        x = (-x) % Q
    return (x, y)


def ffo(op, a, p, Rm):
    """field ops on raw Montgomery integers; Rm = R mod p"""
    Ri = inv(Rm, p)
    un = lambda r: r * Ri % p
    mo = lambda v: v % p * Rm % p
    if op in ('add', 'sub', 'mul', 'div'):
        x = a[1]
        y = a[1] if a[0] in (3, 4) else a[2]
        xv, yv = un(x), un(y)
        r = {'add': xv + yv, 'sub': xv - yv, 'mul': xv * yv, 'div': xv * (inv(yv, p) if yv else 0)}[op]
        return str(mo(r))
    if op in ('neg', 'double', 'square', 'inverse'):
        xv = un(a[1])
        r = {'neg': -xv, 'double': 2 * xv, 'square': xv * xv, 'inverse': inv(xv, p) if xv else 0}[op]
        return str(mo(r))
    if op == 'halve':
        return str(mo(un(a[0]) * inv(2, p)))
    if op in ('mulby3', 'mulby5', 'mulby13'):
        return str(mo(un(a[0]) * int(op[5:])))
    if op == 'frommont':
        return str(un(a[0]))
    if op == 'tomont':
        return str(mo(a[0]))
    if op == 'butterfly':
        xv, yv = un(a[0]), un(a[1])
        return '%d %d' % (mo(xv + yv), mo(xv - yv))
    if op == 'exp':
        return str(mo(pow(un(a[0]), a[1], p))) if a[1] >= 0 else None
    if op == 'batchinv':
        return '[' + ','.join(str(mo(inv(un(v), p) if un(v) else 0)) for v in a[0]) + ']'
    if op == 'setuint64':
        return str(mo(a[0]))
    if op == 'touint64':
        return str(un(a[0]))
    if op == 'setbigint':
        return str(mo(a[1]))
    if op == 'setbytes':
        return str(mo(int.from_bytes(a[0], 'big')))
    if op == 'tobig':
        return str(un(a[0]))
    if op == 'bytes':
        return 'x' + un(a[0]).to_bytes(32 if p == Q else 8, 'big').hex()
    if op == 'equal':
        return 'true' if a[0] == a[1] else 'false'
    if op == 'cmp':
        xv, yv = un(a[0]), un(a[1])
        return str((xv > yv) - (xv < yv))
    if op == 'lexlargest':
        return 'true' if un(a[0]) > (p - 1) // 2 else 'false'
    if op == 'iszero':
        return 'true' if a[0] == 0 else 'false'
    if op == 'bit':      # the stored (Montgomery) limbs, as documented
        return str((a[0] >> a[1]) & 1)
    if op == 'bitlen':
        return str(a[0].bit_length())
    if op == 'modulus':
        return str(p)
    if op == 'one':
        return str(mo(1))
    if op == 'legendre':
        xv = un(a[0])
        return '0' if xv == 0 else ('1' if pow(xv, (p - 1) // 2, p) == 1 else '-1')
    return None


def oracle(line):
    t = line.split()
    op = t[0]
    a = [parse(x) for x in t[1:]]
    try:
        if op == 'padd':
            P1, P2 = (a[0], a[1]), (a[2], a[3])
            if not (on_curve(P1) and on_curve(P2)):
                return None
            return '%d %d' % ed_add((P1[0] % Q, P1[1] % Q), (P2[0] % Q, P2[1] % Q))
        if op == 'paffine':
            X, Y, Zc = a[0], a[1], a[2]
            if not all(0 <= v < Q for v in (X, Y, Zc)):
                return None
            if Zc == 0:
                return '0 0'       # documented: the degenerate triple maps to (0,0)
            zi = inv(Zc)
            return '%d %d' % (X * zi % Q, Y * zi % Q)
        if op == 'paddproj':
            if not all(0 <= v < Q for v in a[:6]) or a[2] == 0 or a[5] == 0:
                return None
            P1 = (a[0] * inv(a[2]) % Q, a[1] * inv(a[2]) % Q)
            P2 = (a[3] * inv(a[5]) % Q, a[4] * inv(a[5]) % Q)
            if not (on_curve(P1) and on_curve(P2)):
                return None
            return '%d %d' % ed_add(P1, P2)
        if op == 'mul':
            P = (a[1], a[2])
            if a[0] < 0 or not on_curve(P):
                return None
            return '%d %d' % ed_mul(a[0], (P[0] % Q, P[1] % Q))
        if op == 'incurve':
            return 'true' if on_curve((a[0], a[1])) else 'false'
        if op == 'insub':
            P = (a[0], a[1])
            if not (0 <= P[0] < Q and 0 <= P[1] < Q):
                return None
            return 'true' if on_curve(P) and ed_mul(L, P) == (0, 1) else 'false'
        if op == 'compress':
            P = (a[0], a[1])
            if not (0 <= P[0] < Q and 0 <= P[1] < Q):
                return None
            return 'x' + compress(P).hex()
        if op in ('decompress', 'pkdecomp'):
            if len(a[0]) != 32:
                return None
            P = decompress(a[0])
            return 'ERR' if P is None else '%d %d' % P
        if op == 'poseidon':
            r = poseidon_ex(a[2], a[0], a[1])
            return 'ERR' if r is None else '[' + ','.join(map(str, r)) + ']'
        if op == 'poseidonh':
            r = poseidon_ex(a[0], 0, 1)
            return 'ERR' if r is None else str(r[0])
        if op == 'poseidonhs':
            r = poseidon_ex(a[1], a[0], 1)
            return 'ERR' if r is None else str(r[0])
        if op == 'poseidonex':
            r = poseidon_ex(a[1], 0, a[0])
            return 'ERR' if r is None else '[' + ','.join(map(str, r)) + ']'
        if op in ('verifyp', 'verifym'):
            Apt, m, R8, S = (a[0], a[1]), a[2], (a[3], a[4]), a[5]
            if not (on_curve(Apt) and on_curve(R8)):
                return None
            if S < 0 or S >= L:
                return 'ERR'
            v = [R8[0], R8[1], Apt[0], Apt[1], m]
            if any(not (0 <= x < Q) for x in v):
                return 'ERR' if not (0 <= m < Q) else None
            hm = poseidon_ex(v, 0, 1)[0] if op == 'verifyp' else mimc_hash(v, None)
            lhs = ed_mul(S, B8)
            rhs = ed_add(R8, ed_mul(8 * hm, Apt))
            return 'ok' if lhs == rhs else 'ERR'
        if op == 'mimc7':
            return str(mimc7(a[0], a[1], 91))
        if op == 'mimc7g':
            return str(mimc7(a[0], a[1], a[2])) if a[2] >= 1 else None
        if op == 'mimchash':
            r = mimc_hash(a[1], a[0])
            return 'ERR' if r is None else str(r)
        if op == 'mimchashg':
            if any(not (0 <= v < Q) for v in a[1]):
                return 'ERR'
            if a[2] < 1:
                return None
            r = a[0]
            for m in a[1]:
                r = mimc7(r, m, a[2])
            return str(r)
        if op == 'mimcbytes':
            b = a[0]
            ch = [int.from_bytes(b[i:i + 31], 'little') for i in range(0, len(b), 31)]
            return str(mimc_hash(ch, None))
        if op == 'keccak':
            return 'x' + keccak256(b''.join(x or b'' for x in a)).hex()
        if op == 'keccakarena':
            ar, pl = a[0], a[1]
            parts = [ar[pl[i]:pl[i] + pl[i + 1]] for i in range(0, len(pl) - 1, 2)]
            return 'x' + keccak256(b''.join(parts)).hex() + ' x' + ar.hex()
        if op == 'infield':
            return 'true' if 0 <= a[0] < Q else 'false'
        if op == 'lebytes':
            return 'x' + (abs(a[0]) % 2**256).to_bytes(32, 'little').hex()
        if op in ('fromle', 'fromledirty'):
            return str(int.from_bytes(a[0], 'little'))
        if op == 'ff':
            if a[1] in ('setstring', 'setinterface', 'string', 'sqrt'):
                return None
            return ffo(a[1], a[2:], Q, R256 % Q)
        if op == 'ffg':
            if a[0] in ('setstring', 'setinterface', 'string', 'sqrt'):
                return None
            if a[0] == 'bytes':
                return 'x' + (a[1] * inv(2**64 % PG, PG) % PG).to_bytes(8, 'big').hex()
            return ffo(a[0], a[1:], PG, 2**64 % PG)
    except (ValueError, IndexError, TypeError, ZeroDivisionError):
        return None
    return None

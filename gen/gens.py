"""Case generators, one per property.  Every random choice comes from the
random.Random instance passed in (seeded from VERIF_SEED).  Each generator
returns a list of (line, cls) pairs: the operation line run by BOTH the Go
harness and the extracted Coq model, and a short class label used for the
distribution printed in the evidence file."""
import random
from mathlib import *

SMALL = None


def small_pts():
    global SMALL
    if SMALL is None:
        SMALL = small_order_points()
    return SMALL


def rnd_bytes(rng, n):
    return bytes(rng.randrange(256) for _ in range(n))


def msg_bytes(n, mult=7, add=3):
    return bytes((i * mult + add) % 256 for i in range(n))


# --------------------------------------------------------------------------- C20
def gen_C20(rng, tier):
    out = []
    lens = list(range(0, 300)) if tier == 'thorough' else \
        [0, 1, 2, 31, 32, 55, 56, 63, 64, 110, 111, 112, 113, 127, 128, 129, 134, 135, 136, 137, 138,
         200, 239, 240, 241, 255, 256, 257, 270, 271, 272, 273, 300, 407, 408, 409, 1000]
    if tier == 'thorough':
        lens += [407, 408, 409, 543, 544, 545, 1000, 1023, 1024, 1025]
    for n in lens:
        m = rnd_bytes(rng, n) if n % 3 else msg_bytes(n)
        out.append(('blake ' + hexb(m), 'blake/len%s' % ('=0' if n == 0 else '%128=' + str(n % 128) if n % 128 in (0, 1, 111, 112, 127) else '')))
        out.append(('keccak ' + hexb(m), 'keccak/1slice'))
        # splits into up to 4 slices, including empty and nil ones
        for _ in range(2 if tier == 'quick' else 6):
            k = rng.randrange(1, 5)
            cuts = sorted(rng.randrange(0, n + 1) for _ in range(k - 1))
            parts = [m[a:b] for a, b in zip([0] + cuts, cuts + [n])]
            toks = [hexb(p) if (p or rng.random() < 0.7) else 'nil' for p in parts]
            out.append(('keccak ' + ' '.join(toks), 'keccak/%dslices' % k))
    # slices of ONE backing array, in and out of storage order, overlapping, with spare capacity
    for _ in range(12 if tier == 'quick' else 120):
        n = rng.choice([3, 8, 40, 140, 300])
        arena = rnd_bytes(rng, n)
        k = rng.randrange(1, 5)
        pl = []
        for _ in range(k):
            o = rng.randrange(0, n)
            ln = rng.randrange(0, min(n - o, 150) + 1)
            pl += [o, ln]
        out.append(('keccakarena %s %s' % (hexb(arena), lst(pl)), 'keccak/arena-%dslices' % k))
        o = rng.randrange(0, n)
        out.append(('blakearena %s %d %d' % (hexb(arena), o, rng.randrange(0, n - o + 1)), 'blake/arena'))
    out.append(('keccakarena x616362 [0,1,2,1,1,1]', 'keccak/arena-out-of-order'))
    out.append(('keccakarena x612d2d7461696c [0,1,4,2]', 'keccak/arena-spare-capacity'))
    ar = rnd_bytes(rng, 64)
    out.append(('keccakarena %s %s' % (hexb(ar), lst([v for i in range(64) for v in (i, 1)])), 'keccak/64-one-byte-slices'))
    out.append(('keccakarena %s %s' % (hexb(ar), lst([0, 64, 0, 64, 0, 64])), 'keccak/same-slice-three-times'))
    big = rnd_bytes(rng, 300)
    out.append(('keccak %s %s' % (hexb(big[:4]), hexb(big[4:])), 'keccak/short-then-long'))
    out.append(('keccak %s %s %s' % (hexb(big[:135]), hexb(big[135:136]), hexb(big[136:])), 'keccak/rate-boundary-split'))
    out.append(('keccak', 'keccak/0slices'))
    out.append(('keccak nil', 'keccak/nil'))
    out.append(('keccak x x x x', 'keccak/empties'))
    return out


# --------------------------------------------------------------------------- C15
HEXCH = b'0123456789abcdefABCDEF'


def gen_C15(rng, tier):
    out = []
    N = 1 if tier == 'quick' else 8
    for n in list(range(0, 70)) + [100, 200]:
        b = rnd_bytes(rng, n)
        out.append(('swap ' + hexb(b), 'swap'))
        out.append(('fromle ' + hexb(b), 'fromle/len%d' % min(n, 33)))
        if n % 7 == 0:
            out.append(('fromledirty ' + hexb(b), 'fromle/dirty-destination'))
            out.append(('fromledirty ' + hexb(bytes(n)), 'fromle/dirty-destination/all-zero'))
            out.append(('fromledirty ' + hexb(b[:n // 2] + bytes(n - n // 2)), 'fromle/dirty-destination/trailing-zeros'))
        out.append(('hexenc ' + hexb(b), 'hexenc'))
        out.append(('hexstr ' + hexb(b), 'hexstr'))
    for v in boundary_ints() + [2**255, 2**256 - 1, 2**256, 2**256 + 1, 2**300, -1, -2**256, Q, L] + \
            [rng.randrange(2**k) for k in (8, 64, 200, 255, 256, 257, 400)]:
        out.append(('lebytes %d' % v, 'lebytes/' + ('neg' if v < 0 else 'big' if v >= 2**256 else 'ok')))
    # hex decoding: lengths around 64/128 digits, +-0x, odd, upper/lower, one bad char
    for dstlen in (0, 1, 31, 32, 33, 64):
        for nd in sorted(set([0, 1, 2, 2 * dstlen - 2, 2 * dstlen - 1, 2 * dstlen, 2 * dstlen + 1, 2 * dstlen + 2, 200])):
            if nd < 0:
                continue
            for _ in range(N):
                t = bytes(rng.choice(HEXCH) for _ in range(nd))
                variants = [(t, 'plain'), (b'0x' + t, '0x'), (b'0X' + t, '0X'), (t.lower(), 'lower')]
                if nd > 0:
                    pos = rng.randrange(nd)
                    bad = t[:pos] + bytes([rng.choice(b'g xG-_\x00\xff')]) + t[pos + 1:]
                    variants.append((bad, 'badchar'))
                    variants.append((b'0x' + bad, '0x+badchar'))
                for txt, c in variants:
                    out.append(('hexdecinto %d %s' % (dstlen, hexb(txt)), 'hexdecinto/' + c + ('/exact' if nd == 2 * dstlen else '/wrong')))
                    if dstlen == 32:
                        out.append(('hexdec ' + hexb(txt), 'hexdec/' + c))
    # every byte value as a digit: all 256 values in each position of a two-character text (the exact
    # digit set [0-9a-fA-F]; case folding or table tricks that admit other bytes), and inside a 64-digit text
    for b in range(256):
        out.append(('hexdecinto 1 ' + hexb(bytes([b]) + b'7'), 'hexdecinto/every-byte'))
        out.append(('hexdecinto 1 ' + hexb(b'c' + bytes([b])), 'hexdecinto/every-byte'))
    t64 = bytes(rng.choice(HEXCH) for _ in range(64))
    for b in list(range(0, 0x30)) + list(range(0x3a, 0x41)) + list(range(0x47, 0x61)) + list(range(0x67, 0x80)) + [0x80, 0xb0, 0xc1, 0xe1, 0xff]:
        pos = rng.randrange(64)
        out.append(('hexdecinto 32 ' + hexb(t64[:pos] + bytes([b]) + t64[pos + 1:]), 'hexdecinto/every-non-digit'))
    # near-prefixes: two characters that are almost "0x" in front of a payload of exactly 2*dstlen valid
    # digits (a prefix test that looks at one of the two characters only accepts some of them)
    NEARP = (b'1x', b'xx', b'Ox', b'zx', b'\x00x', b'fx', b'0y', b'0w', b'x0', b'00', b'0:', b'8x', b'/x')
    for dstlen in (0, 1, 32, 64):
        t = bytes(rng.choice(HEXCH) for _ in range(2 * dstlen))
        for pre in NEARP:
            out.append(('hexdecinto %d %s' % (dstlen, hexb(pre + t)), 'hexdecinto/near-prefix'))
            if dstlen == 32:
                out.append(('hexdec ' + hexb(pre + t), 'hexdec/near-prefix'))
    # signatures / public keys
    pts = small_pts() + [B8] + [random_point(rng, subgroup=(i % 2 == 0)) for i in range(4 * N)]
    for P in pts:
        S = rng.choice([0, 1, L - 1, L, 2**256 - 1, rng.randrange(2**256), rng.randrange(L)])
        comp = compress(P) + S.to_bytes(32, 'little')
        pkc = compress(P)
        out += [('sigcomp %d %d %d' % (P[0], P[1], S), 'sigcomp'),
                ('sigdecomp ' + hexb(comp), 'sigdecomp/valid'),
                ('sigdecompc ' + hexb(comp), 'sigdecompc/valid'),
                ('pkcomp %d %d' % P, 'pkcomp'), ('pkdecomp ' + hexb(pkc), 'pkdecomp/valid'),
                ('pkmarshal %d %d' % P, 'pkmarshal'), ('pkunmarshal ' + hexb(pkc.hex().encode()), 'pkunmarshal/valid'),
                ('pkunmarshal ' + hexb(b'0x' + pkc.hex().encode()), 'pkunmarshal/0x'),
                ('pkcmarshal ' + hexb(pkc), 'pkcmarshal'), ('pkcunmarshal ' + hexb(pkc.hex().encode()), 'pkcunmarshal'),
                ('sigcmarshal ' + hexb(comp), 'sigcmarshal'), ('sigcunmarshal ' + hexb(comp.hex().encode()), 'sigcunmarshal'),
                ('decompresssig ' + hexb(comp.hex().encode()), 'decompresssig/valid'),
                ('sigvalue %d %d %d' % (P[0], P[1], S), 'sigvalue'), ('pkvalue %d %d' % P, 'pkvalue'),
                ('sigcvalue ' + hexb(comp), 'sigcvalue'), ('pkcvalue ' + hexb(pkc), 'pkcvalue'),
                ('sigscan sb:' + comp.hex(), 'sigscan/bytes64'), ('sigcscan sb:' + comp.hex(), 'sigcscan/bytes64'),
                ('pkscan sb:' + pkc.hex(), 'pkscan/bytes32'), ('pkcscan sb:' + pkc.hex(), 'pkcscan/bytes32'),
                ('sigscan ss:' + comp.hex(), 'scan/string'), ('pkscan ss:' + pkc.hex(), 'scan/string')]
    # malformed encodings: undecodable points, wrong lengths, wrong dynamic types
    for _ in range(6 * N):
        junk = rnd_bytes(rng, 64)
        out += [('sigdecomp ' + hexb(junk), 'sigdecomp/random'), ('decompresssig ' + hexb(junk.hex().encode()), 'decompresssig/random'),
                ('pkdecomp ' + hexb(junk[:32]), 'pkdecomp/random'), ('pkunmarshal ' + hexb(junk[:32].hex().encode()), 'pkunmarshal/random'),
                ('sigscan sb:' + junk.hex(), 'sigscan/random'), ('pkscan sb:' + junk[:32].hex(), 'pkscan/random')]
    for n in (0, 1, 31, 32, 33, 63, 64, 65, 128):
        b = rnd_bytes(rng, n)
        for op in ('sigscan', 'sigcscan', 'pkscan', 'pkcscan'):
            out.append(('%s sb:%s' % (op, b.hex()), op + '/len%d' % n))
        out.append(('decompresssig ' + hexb(b.hex().encode()), 'decompresssig/len%d' % n))
        out.append(('pkunmarshal ' + hexb(b.hex().encode()), 'pkunmarshal/len%d' % n))
    # text unmarshallers of the COMPRESSED forms: digit counts around 64 / 128, prefixes, case, one
    # bad character first / last, double prefix
    good = pts[len(pts) // 2]
    gpk = compress(good).hex().encode()
    gsig = (compress(good) + (L - 1).to_bytes(32, 'little')).hex().encode()
    for base, nd, ops in ((gpk, 64, ('pkcunmarshal', 'pkunmarshal')), (gsig, 128, ('sigcunmarshal', 'decompresssig'))):
        texts = [base[:k] for k in (0, 1, nd - 2, nd - 1)] + [base + b'0', base + b'00', base + base, base.upper(), b'0x' + base, b'0X' + base,
                 b'0x0x' + base[4:], b'0x0x' + base, b'0x' + base[:-1], b'0x' + base + b'0',
                 b'g' + base[1:], base[:-1] + b'g', base[:nd // 2] + b' ' + base[nd // 2 + 1:], b'0x' + base[:-1] + b'_', b' ' + base, base + b'\n']
        texts += [pre + base for pre in (b'1x', b'xx', b'Ox', b'zx', b'0y', b'x0', b'fx')]
        for t in texts:
            for op in ops:
                out.append(('%s %s' % (op, hexb(t)), op + '/text-forms'))
    for n in (0, 1, 62, 63, 65, 66, 128):
        out.append(('pkcunmarshal ' + hexb(bytes(rng.choice(HEXCH) for _ in range(n))), 'pkcunmarshal/len%d' % n))
    for n in (0, 126, 127, 129, 130, 256):
        out.append(('sigcunmarshal ' + hexb(bytes(rng.choice(HEXCH) for _ in range(n))), 'sigcunmarshal/len%d' % n))
    for txt in (b'0x0x' + bytes(rng.choice(HEXCH) for _ in range(60)), b'0x0x', b'0x', b'0X', b'x0', b'0x0X12'):
        out.append(('hexdecinto 32 ' + hexb(txt), 'hexdecinto/double-prefix'))
        out.append(('hexdec ' + hexb(txt), 'hexdec/double-prefix'))
    # structured invalid point encodings through every wrapper (not only Point.Decompress)
    ysp, yres, ynon = y_classes(rng, 'quick')
    for y in [Q, Q + 1, 2**255 - 1, 1 | 2**255, (Q - 1) | 2**255, 0, Q - 1] + ynon[:3] + [v | 2**255 for v in yres[:2]]:
        b = (y % 2**256).to_bytes(32, 'little')
        out += [('pkdecomp ' + hexb(b), 'pkdecomp/y-class'), ('pkscan sb:' + b.hex(), 'pkscan/y-class'),
                ('pkunmarshal ' + hexb(b.hex().encode()), 'pkunmarshal/y-class'),
                ('sigscan sb:' + (b + bytes(32)).hex(), 'sigscan/y-class'), ('decompresssig ' + hexb((b + bytes(32)).hex().encode()), 'decompresssig/y-class'),
                ('sigdecompc ' + hexb(b + bytes(32)), 'sigdecompc/y-class')]
    # Compress / Value of signatures whose S does not fit 32 bytes or is negative (documented truncation)
    for S in (2**256, 2**256 + 5, 2**300 + 1, -1, -L):
        out.append(('sigcomp %d %d %d' % (B8[0], B8[1], S), 'sigcomp/S-out-of-range'))
        out.append(('sigvalue %d %d %d' % (B8[0], B8[1], S), 'sigvalue/S-out-of-range'))
    for s_ in (b'12', b'-1', b'', b'0x1', b'+5', b'1\xe3', b'007', b' 1', b'1 ', b'123456789012345678901234567890123456789012345678901234567890123456789012345678901234567890'):
        out.append(('newint ' + hexb(s_), 'NewIntFromString'))
    for op in ('sigscan', 'sigcscan', 'pkscan', 'pkcscan'):
        for src in ('sn', 'si:5', 'so:float', 'so:bool', 'so:time', 'so:arr64', 'so:arr32', 'so:ptr', 'so:uint', 'ss:'):
            out.append(('%s %s' % (op, src), op + '/' + src.split(':')[0] + ':' + src.split(':')[-1][:5]))
    return out


# --------------------------------------------------------------------------- C04 / C13 / C06 / C19
def scalars(rng, tier):
    s = [0, 1, 2, 3, 7, 8, L - 1, L, L + 1, ORDER - 1, ORDER, ORDER + 1, 2**253, 2**254, 2**256 - 1, 2**256, 2**256 + 1]
    s += [rng.randrange(2**k) for k in ((16, 64, 251, 254, 300, 512) if tier == 'quick' else (8, 16, 32, 64, 128, 200, 251, 252, 253, 254, 255, 256, 300, 400, 511, 512))]
    # bit-length and bit-pattern boundaries of the double-and-add loop
    s += [2**k for k in (31, 32, 63, 64, 65, 128, 192, 255, 511)] + [2**k - 1 for k in (64, 128, 251, 512)] + \
         [2**255 + 1, 2 * L, 4 * L, 7 * L, ORDER * 2**200, ORDER * 2**200 + 1]
    return s


def curve_pts(rng, tier):
    n = 3 if tier == 'quick' else 20
    negB8 = ((-B8[0]) % Q, B8[1])
    pts = small_pts() + [B8, negB8, ed_add(B8, small_pts()[1]), ed_add(B8, small_pts()[3])]
    pts += [random_point(rng, True) for _ in range(n)] + [random_point(rng, False) for _ in range(n)]
    return pts


def gen_C04(rng, tier):
    out = []
    pts = curve_pts(rng, tier)
    sm = small_pts()
    for P in sm:
        for T in sm:
            out.append(('padd %d %d %d %d' % (P + T), 'padd/small-order-table'))
    for P in pts:
        neg = ((-P[0]) % Q, P[1])
        out.append(('padd %d %d %d %d' % (P + neg), 'padd/inverse-pair'))
        out.append(('padd %d %d %d %d' % (P + P), 'padd/doubling'))
        out.append(('padd %d %d %d %d' % (P + (0, 1)), 'padd/identity'))
        for T in rng.sample(pts, 3 if tier == 'quick' else 10):
            out.append(('padd %d %d %d %d' % (P + T), 'padd/generic'))
    # arbitrary projective representatives (the struct fields are exported): Z on the
    # boundaries of the field and of the Montgomery representation, Z = 0 (degenerate)
    zs = [1, 2, Q - 1, (Q + 1) // 2] + [v % Q for v in mont_special()] + [rng.randrange(1, Q) for _ in range(3 if tier == 'quick' else 12)]
    for P in rng.sample(pts, min(len(pts), 4 if tier == 'quick' else 12)) + [(0, 1), (0, Q - 1)]:
        for z in zs:
            if z == 0:
                continue
            out.append(('paffine %d %d %d' % (P[0] * z % Q, P[1] * z % Q, z), 'paffine/scaled-point'))
            T = rng.choice(pts)
            z2 = rng.choice(zs) or 1
            out.append(('paddproj %d %d %d %d %d %d' % (P[0] * z % Q, P[1] * z % Q, z, T[0] * z2 % Q, T[1] * z2 % Q, z2), 'paddproj/scaled-points'))
        out.append(('paffine %d %d 0' % P, 'paffine/Z=0'))
    out.append(('paffine 0 0 0', 'paffine/Z=0'))
    out.append(('paffine %d %d 0' % (rng.randrange(Q), rng.randrange(Q)), 'paffine/Z=0'))
    for P in rng.sample(pts, min(len(pts), 6 if tier == 'quick' else 20)) + [(0, 1), (0, Q - 1)]:
        T = rng.choice(pts)
        for k in (1, 2, 3, 4):
            out.append(('paddalias %d %d %d %d %d' % ((k,) + P + T), 'padd/alias-pattern%d' % k))
        s0 = rng.choice([0, 1, 8, L, rng.randrange(ORDER)])
        out.append(('mulzero %d %d %d' % ((s0,) + P), 'mul/zero-value-receiver'))
        out.append(('mulshared %d %d %d' % ((s0,) + P), 'mul/receiver-shares-coordinates'))
    for P in pts:
        ss = scalars(rng, tier)
        for s in (rng.sample(ss, 6) if tier == 'quick' else ss):
            out.append(('mul %d %d %d' % ((s,) + P), 'mul/' + ('s>=2^256' if s >= 2**256 else 's~order' if abs(s - ORDER) <= 1 or abs(s - L) <= 1 else 'small' if s < 16 else 'generic')))
    return out


def gen_C13(rng, tier):
    out = []
    pts = curve_pts(rng, tier)
    sm = small_pts()
    for P in pts:
        out.append(('incurve %d %d' % P, 'incurve/on'))
        out.append(('insub %d %d' % P, 'insub/curve-point'))
        for d in (1, Q - 1):
            P2 = (P[0], (P[1] + d) % Q)
            out.append(('incurve %d %d' % P2, 'incurve/near-miss'))
            out.append(('insub %d %d' % P2, 'insub/near-miss'))
    for _ in range(5 if tier == 'quick' else 40):
        S = random_point(rng, True)
        out.append(('insub %d %d' % S, 'insub/subgroup'))
        for T in sm[1:]:
            out.append(('insub %d %d' % ed_add(S, T), 'insub/subgroup+small'))
        k = rng.randrange(ORDER)
        out.append(('insub %d %d' % ed_mul(k, B8), 'insub/multiple-of-B8'))
    for P in [(0, 0), (1, 1), (0, 1), (0, Q - 1), (Q - 1, Q - 1)] + [(rng.randrange(Q), rng.randrange(Q)) for _ in range(10)]:
        out.append(('incurve %d %d' % P, 'incurve/random-or-special'))
        out.append(('insub %d %d' % P, 'insub/random-or-special'))
    # off-curve points that agree with a point of small order in all but one 64-bit limb
    for (x0, y0) in small_pts():
        for k in (1, 2, 3):
            for (dx, dy) in ((0, 1 << (64 * k)), (1 << (64 * k), 0)):
                P2 = ((x0 + dx) % Q, (y0 + dy) % Q)
                out.append(('incurve %d %d' % P2, 'incurve/one-limb-off-small-order'))
                out.append(('insub %d %d' % P2, 'insub/one-limb-off-small-order'))
    # non-canonical coordinates (outside the property's domain, still compared with the model)
    for P in pts[:4]:
        out.append(('incurve %d %d' % (P[0] + Q, P[1]), 'incurve/noncanonical'))
        out.append(('insub %d %d' % (P[0] + Q, P[1]), 'insub/noncanonical'))
        out.append(('insub %d %d' % (P[0], P[1] - Q), 'insub/noncanonical'))
        out.append(('incurve %d %d' % (P[0] - Q, P[1] + Q), 'incurve/noncanonical'))
    return out


def y_classes(rng, tier):
    ys = [0, 1, 2, Q - 2, Q - 1, Q, Q + 1, 2**255 - 1, 2**254, (Q - 1) // 2]
    n = 8 if tier == 'quick' else 100
    res, non = [], []
    while len(res) < n or len(non) < n:
        y = rng.randrange(Q)
        (res if point_from_y(y) is not None else non).append(y)
    return ys, res[:n], non[:n]


def gen_C06(rng, tier):
    out = []
    for P in curve_pts(rng, tier) + [(0, 1), (0, Q - 1)]:
        out.append(('compress %d %d' % P, 'compress/' + ('x=0' if P[0] == 0 else 'x>half' if P[0] > (Q - 1) // 2 else 'x<=half')))
        out.append(('decompress ' + hexb(compress(P)), 'decompress/of-compress'))
        out.append(('csign %d' % P[0], 'csign'))
    ys, res, non = y_classes(rng, tier)
    for y, c in [(y, 'boundary-y') for y in ys] + [(y, 'residue-y') for y in res] + [(y, 'nonresidue-y') for y in non]:
        for sign in (0, 1):
            v = (y | (sign << 255)) if y < 2**255 else y
            b = (v % 2**256).to_bytes(32, 'little')
            out.append(('decompress ' + hexb(b), 'decompress/%s/sign%d' % (c, sign)))
            out.append(('unpacksigny ' + hexb(b), 'unpacksigny'))
            out.append(('fromsigny %s %d' % ('true' if sign else 'false', y), 'fromsigny/' + c))
            out.append(('packsigny %s %d' % ('true' if sign else 'false', y), 'packsigny'))
    for _ in range(10 if tier == 'quick' else 200):
        out.append(('decompress ' + hexb(rnd_bytes(rng, 32)), 'decompress/random'))
    for c in (0, 1, (Q - 1) // 2, (Q + 1) // 2, Q - 1, Q, -1):
        out.append(('csign %d' % c, 'csign/boundary'))
    for y in (2**255, 2**255 + 1, 2**256 - 1, 2**255 + Q - 1):
        for sg in ('true', 'false'):
            out.append(('packsigny %s %d' % (sg, y), 'packsigny/y-collides-with-sign-bit'))
        out.append(('compress %d %d' % (B8[0], y), 'compress/y-collides-with-sign-bit'))
    return out


def gen_C19(rng, tier):
    out = []
    pts = curve_pts(rng, tier)
    for P in pts:
        for s in rng.sample(scalars(rng, tier), 4) + [0, 1]:
            out.append(('mulrecv %d %d %d' % ((s,) + P), 'Point.Mul/fresh-receiver'))
            out.append(('mulalias %d %d %d' % ((s,) + P), 'Point.Mul/receiver=argument'))
        out.append(('pset %d %d' % P, 'Point.Set'))
        out.append(('psetalias %d %d' % P, 'Point.Set/argument-is-receiver'))
        out.append(('psetshared %d %d' % P, 'Point.Set/argument-shares-coordinates'))
        out.append(('decompressrecv ' + hexb(compress(P)), 'Point.Decompress/valid'))
        out.append(('decompresszero ' + hexb(compress(P)), 'Point.Decompress/zero-value-receiver'))
        out.append(('mulzerorecv %d %d %d' % ((rng.choice([0, 1, 2, rng.randrange(L)]),) + P), 'Point.Mul/zero-value-receiver'))
        S = rng.randrange(2**256)
        out.append(('sigdecomp ' + hexb(compress(P) + S.to_bytes(32, 'little')), 'Signature.Decompress/valid'))
    ys, res, non = y_classes(rng, tier)
    for y in ys + non[:4] + res[:4]:
        for sign in (0, 1):
            b = ((y | (sign << 255)) % 2**256).to_bytes(32, 'little')
            out.append(('decompressrecv ' + hexb(b), 'Point.Decompress/any-bytes'))
            out.append(('decompresszero ' + hexb(b), 'Point.Decompress/any-bytes/zero-value-receiver'))
            out.append(('sigdecomp ' + hexb(b + bytes(32)), 'Signature.Decompress/any-bytes'))
    return out



def _load_table(path):
    d = {}
    for line in open(path):
        name, rest = line.split(' ', 1)
        d[name] = eval(rest.strip().replace(' ', ','))
    return d


def _mat_inv_T_apply(m, vec, p):
    """solve (m^T) x = vec  (Go mix computes new = m^T * st)"""
    n = len(vec)
    A = [[m[j][i] % p for j in range(n)] + [vec[i] % p] for i in range(n)]
    for c in range(n):
        piv = next(r for r in range(c, n) if A[r][c] % p)
        A[c], A[piv] = A[piv], A[c]
        iv = pow(A[c][c], p - 2, p)
        A[c] = [x * iv % p for x in A[c]]
        for r in range(n):
            if r != c and A[r][c]:
                f = A[r][c]
                A[r] = [(x - f * y) % p for x, y in zip(A[r], A[c])]
    return [A[i][n] for i in range(n)]


def invert_first_half(p, alpha, t, C, M, P, target):
    """input state whose optimized-loop state right BEFORE the first partial round
    (after ark0, 3 x (sbox, ark, mix M), sbox, ark, mix P) equals target"""
    d = pow(alpha, -1, p - 1)
    st = _mat_inv_T_apply(P, target, p)
    st = [(x - C[4 * t + i]) % p for i, x in enumerate(st)]
    st = [pow(x, d, p) for x in st]
    for r in (2, 1, 0):
        st = _mat_inv_T_apply(M, st, p)
        st = [(x - C[(r + 1) * t + i]) % p for i, x in enumerate(st)]
        st = [pow(x, d, p) for x in st]
    return [(x - C[i]) % p for i, x in enumerate(st)]

# --------------------------------------------------------------------------- C01 / C07 / C10 / C08
def mont_special():
    """regular values whose MONTGOMERY limbs are boundary patterns (raw = 1, 2, 2^64-1, 2^64, ...)"""
    raws = [1, 2, 3, 2**64 - 1, 2**64, 2**64 + 1, 2**128, 2**192, 2**192 - 1, Q - 1, Q - 2, (Q - 1) // 2]
    return [ff_unmont(r) for r in raws]


def field_vals(rng):
    return mont_special()[:4] + [0, 1, 2, Q - 1, Q - 2, (Q - 1) // 2, 2**64 - 1, 2**64, 2**128 - 1, 2**192, 2**253, rng.randrange(Q), rng.randrange(Q), rng.randrange(2**64)]


def gen_C01(rng, tier):
    out = []
    reps = 2 if tier == 'quick' else 25
    for n in range(1, 17):
        vecs = [[0] * n, [Q - 1] * n, [1] * n]
        for pos in range(n):
            v = [0] * n
            v[pos] = rng.choice([1, Q - 1, rng.randrange(Q)])
            vecs.append(v)
        for _ in range(reps):
            vecs.append([rng.choice(field_vals(rng)) for _ in range(n)])
            vecs.append([rng.randrange(Q) for _ in range(n)])
        # inputs crafted so that the FIRST S-box sees special lane values (0, 1, -1 and
        # values whose Montgomery limbs are 1, 2, 2^64-1, ...): lane_j + RC[j] = special
        import oracle as _o
        rc0 = _o.grain_params(n + 1)[0][:n + 1]
        sp = [0, 1, Q - 1] + mont_special()
        for k in range(3 if tier == 'quick' else 12):
            tgt = [rng.choice(sp) for _ in range(n + 1)]
            st = [(tv - c) % Q for tv, c in zip(tgt, rc0)]
            out.append(('poseidon %d %d %s' % (st[0], rng.choice([1, n + 1]), lst(st[1:])), 'HashWithStateEx/first-sbox-special/t=%d' % (n + 1)))
        # states crafted (by inverting the first half) so that the state entering the FIRST
        # PARTIAL round has zero / one / Montgomery-special lanes
        try:
            tb = _load_table('/verif/_build/tables/poseidon_t%d.txt' % (n + 1))
            for k in range(2 if tier == 'quick' else 10):
                tgt = [rng.randrange(Q) for _ in range(n + 1)]
                for pos in rng.sample(range(n + 1), min(n + 1, rng.choice([1, 2]))):
                    tgt[pos] = rng.choice([0, 0, 1] + mont_special()[:3])
                st = invert_first_half(Q, 5, n + 1, tb['C'], tb['M'], tb['P'], tgt)
                out.append(('poseidon %d %d %s' % (st[0], rng.choice([1, n + 1]), lst(st[1:])), 'HashWithStateEx/partial-round-special/t=%d' % (n + 1)))
            # ... and so that lane 0 AFTER the S-box and the round constant of the first partial
            # round is 0 / 1 / Montgomery-special (the value that is spread by the sparse matrix)
            d5 = pow(5, -1, Q - 1)
            cp0 = tb['C'][5 * (n + 1)]
            for spv in ([0, 1] if tier == 'quick' else [0, 1, Q - 1] + mont_special()[:3]):
                tgt = [rng.randrange(Q) for _ in range(n + 1)]
                tgt[0] = pow((spv - cp0) % Q, d5, Q)
                st = invert_first_half(Q, 5, n + 1, tb['C'], tb['M'], tb['P'], tgt)
                out.append(('poseidon %d %d %s' % (st[0], rng.choice([1, n + 1]), lst(st[1:])), 'HashWithStateEx/sparse-step-special-lane0/t=%d' % (n + 1)))
        except (OSError, StopIteration, KeyError):
            pass
        for v in vecs:
            cap = rng.choice([0, 0, 1, Q - 1, rng.randrange(Q)])
            nouts = rng.choice([1, n + 1, rng.randrange(1, n + 2)])
            out.append(('poseidon %d %d %s' % (cap, nouts, lst(v)), 'HashWithStateEx/t=%d' % (n + 1)))
        out.append(('poseidonh ' + lst(vecs[-1]), 'Hash/t=%d' % (n + 1)))
        out.append(('poseidonex %d %s' % (n + 1, lst(vecs[-2])), 'HashEx/t=%d' % (n + 1)))
        out.append(('poseidonhs %d %s' % (rng.randrange(Q), lst(vecs[-1])), 'HashWithState/t=%d' % (n + 1)))
        # the thin wrappers on the boundary vectors; capacities that need more than one machine word
        for bv in ([0] * n, [Q - 1] * n):
            out.append(('poseidonh ' + lst(bv), 'Hash/boundary/t=%d' % (n + 1)))
            out.append(('poseidonex 1 ' + lst(bv), 'HashEx/nOuts=1/t=%d' % (n + 1)))
        cap = rng.choice([2**64, 2**64 + 5, 2**128 + 1, 2**192, 2**253, Q - 2**64])
        out.append(('poseidonhs %d %s' % (cap, lst(vecs[0])), 'HashWithState/wide-capacity/t=%d' % (n + 1)))
        out.append(('poseidon %d %d %s' % (cap, n + 1, lst(vecs[0])), 'HashWithStateEx/wide-capacity/t=%d' % (n + 1)))
    for no in (2**31 - 1, 2**31, 2**63 - 1, -2**63, -1, 0):
        out.append(('poseidon 0 %d [1,2]' % no, 'HashWithStateEx/extreme-nOuts'))
    return out


def gen_C07(rng, tier):
    out = []
    bad = [-2**256, -Q, -1, Q, Q + 1, 2**256, 2**1000, 2 * Q - 1]
    good = [0, 1, Q - 1]
    reps = 1 if tier == 'quick' else 8
    for n in range(0, 21):
        for _ in range(reps):
            base = [rng.choice(good + [rng.randrange(Q)]) for _ in range(n)]
            for nouts in range(-2, n + 4):
                out.append(('poseidon %d %d %s' % (rng.choice(good), nouts, lst(base)), 'poseidon/nouts=%s' % ('ok' if 1 <= nouts <= n + 1 else 'bad')))
            out.append(('poseidonh ' + lst(base), 'poseidon.Hash/len=%s' % ('ok' if 1 <= n <= 16 else 'bad')))
            out.append(('mimchash nil ' + lst(base), 'mimc7.Hash/ok'))
            out.append(('mimchash %d %s' % (rng.choice(good + bad), lst(base)), 'mimc7.Hash/key'))
            out.append(('mimchashg %d %s %d' % (rng.choice(good), lst(base[:3]), rng.choice([1, 2])), 'mimc7.HashGeneric/ok'))
            for pos in range(n):
                for bv in (rng.sample(bad, 2) if tier == 'quick' else bad):
                    v = list(base)
                    v[pos] = bv
                    out.append(('poseidon 0 1 ' + lst(v), 'poseidon/bad-element'))
                    out.append(('mimchash nil ' + lst(v), 'mimc7.Hash/bad-element'))
                    if pos % 4 == 0:
                        out.append(('mimchashg 0 %s 2' % lst(v), 'mimc7.HashGeneric/bad-element'))
            for bv in bad:
                out.append(('poseidon %d 1 %s' % (bv, lst(base)), 'poseidon/bad-initstate'))
                out.append(('poseidonhs %d %s' % (bv, lst(base)), 'poseidon.HashWithState/bad-initstate'))
    # error propagation through the signing entry points: messages outside [0, q), in
    # particular those whose 32-byte little-endian image is a field element again
    k0 = bytes(range(1, 33))
    for m in [-1, -5, -Q, -Q + 5, -2**256 + 3, Q, Q + 1, 2 * Q - 1, 2**254, 2**256 - 1, 2**256, 2**256 + 7, 2**256 + Q - 1, 2**256 + Q, 2**300 + 11, 2**1000] + good:
        out.append(('signp %s %d' % (hexb(k0), m), 'SignPoseidon/' + ('in-field' if 0 <= m < Q else 'msg-out-of-field')))
        out.append(('signm %s %d' % (hexb(k0), m), 'SignMimc7/' + ('in-field' if 0 <= m < Q else 'msg-out-of-field')))
    for v in bad + good:
        out.append(('infield %d' % v, 'CheckBigIntInField'))
    for arr in ([], [0], [Q - 1, 0, 1], [1, Q], [Q, 1], [1, -1, 1], [1, 2, 2**256], [Q - 1] * 20, [0, 1, 2, 3, Q]):
        out.append(('infieldarr ' + lst(arr), 'CheckBigIntArrayInField'))
    for n in (0, 1, 30, 31, 32, 62, 63, 100):
        out.append(('mimcbytes ' + hexb(b'\xff' * n), 'mimc7.HashBytes/all-ff'))
    for b in (b'\x00', b'\x00\x00', bytes(31), bytes(32), bytes(62), bytes(63), b'\x01\x00', rnd_bytes(rng, 31) + b'\x00',
              rnd_bytes(rng, 31) + bytes(31) + rnd_bytes(rng, 5), rnd_bytes(rng, 30) + b'\x00', bytes(31) + b'\x07', rnd_bytes(rng, 62) + bytes(3)):
        out.append(('mimcbytes ' + hexb(b), 'mimc7.HashBytes/zero-bytes'))
    return out


def gen_C10(rng, tier):
    out = []
    cls = [0, 1, PG - 1, PG, PG + 1, 2**64 - 1, 2**32, 2**32 - 1, 2**63]
    reps = 150 if tier == 'quick' else 5000
    out.append(('gold ' + lst([0] * 12), 'all-zero'))
    out.append(('gold ' + lst([PG - 1] * 12), 'all-p-1'))
    out.append(('gold ' + lst([2**64 - 1] * 12), 'all-max'))
    for i in range(12):
        for v in (1, PG - 1, PG, 2**64 - 1):
            w = [0] * 12
            w[i] = v
            out.append(('gold ' + lst(w), 'single-lane'))
    try:
        tb = _load_table('/verif/_build/tables/gold_tables.txt')
        n = 12
        Mg = [[(tb['mcirc'][(i - j) % n] + (tb['mdiag'][i] if i == j else 0)) % PG for j in range(n)] for i in range(n)]
        for k in range(40 if tier == 'quick' else 600):
            tgt = [rng.randrange(PG) for _ in range(12)]
            for pos in rng.sample(range(12), rng.choice([1, 1, 2, 3])):
                tgt[pos] = rng.choice([0, 0, 0, 1, PG - 1])
            st = invert_first_half(PG, 7, 12, [x % PG for x in tb['c']], Mg, [[x % PG for x in r] for r in tb['p']], tgt)
            if rng.random() < 0.3:
                st = [x + PG if x + PG < 2**64 and rng.random() < 0.5 else x for x in st]
            out.append(('gold ' + lst(st), 'partial-round-special-lane'))
        z = invert_first_half(PG, 7, 12, [x % PG for x in tb['c']], Mg, [[x % PG for x in r] for r in tb['p']], [0] * 12)
        out.append(('gold ' + lst(z), 'partial-round-all-zero'))
        d7 = pow(7, -1, PG - 1)
        cp0 = tb['c'][5 * 12] % PG
        for spv in (0, 1, PG - 1, 2**32 - 1, 2**32):
            tgt = [rng.randrange(PG) for _ in range(12)]
            tgt[0] = pow((spv - cp0) % PG, d7, PG)
            st = invert_first_half(PG, 7, 12, [x % PG for x in tb['c']], Mg, [[x % PG for x in r] for r in tb['p']], tgt)
            out.append(('gold ' + lst(st), 'sparse-step-special-lane0'))
    except (OSError, StopIteration, KeyError):
        pass
    for _ in range(reps):
        k = rng.random()
        if k < 0.4:
            w = [rng.choice(cls) for _ in range(12)]
            c = 'boundary-mix'
        elif k < 0.7:
            w = [rng.choice(cls + [rng.randrange(2**64)] * 3) for _ in range(12)]
            c = 'mixed'
        else:
            w = [rng.randrange(2**64) for _ in range(12)]
            c = 'random'
        if any(x >= PG for x in w):
            c += '/has-noncanonical'
        out.append(('gold ' + lst(w), c))
    return out


def gen_C08(rng, tier):
    out = []
    vals = [0, 1, Q - 1, Q - 2, 2**64, rng.randrange(Q), rng.randrange(Q)]
    rounds = [1, 2, 3, 91, 153, 154, 155] + ([512, 300, 17, 90, 92, 152, 200] if tier == 'thorough' else [])
    for n in rounds:
        for _ in range(1 if tier == 'quick' else 4):
            out.append(('mimc7g %d %d %d' % (rng.choice(vals), rng.choice(vals), n), 'MIMC7HashGeneric/n=%d' % n))
    for x in vals:
        for k in vals:
            out.append(('mimc7 %d %d' % (x, k), 'MIMC7Hash'))
    out.append(('mimc7 %d %d' % (Q + 5, -3), 'MIMC7Hash/unreduced-args'))
    for ln in list(range(0, 8)) + ([20, 40] if tier == 'thorough' else [12]):
        arr = [rng.choice(vals) for _ in range(ln)]
        out.append(('mimchash nil ' + lst(arr), 'Hash/nil-key/len%d' % ln))
        out.append(('mimchash %d %s' % (rng.choice(vals), lst(arr)), 'Hash/key/len%d' % ln))
        out.append(('mimchashg %d %s %d' % (rng.choice(vals), lst(arr), rng.choice([1, 5, 9] if ln > 2 or tier == 'quick' else [91, 154])), 'HashGeneric/len%d' % ln))
    blens = sorted(set([0, 1, 2, 29, 30, 31, 32, 33, 61, 62, 63, 64, 92, 93, 94, 100, 155, 200] + ([31 * k + d for k in range(1, 7) for d in (-1, 0, 1)] if tier == 'thorough' else [])))
    for n in blens:
        out.append(('mimcbytes ' + hexb(rnd_bytes(rng, n)), 'HashBytes/len%%31=%d' % (n % 31)))
        out.append(('mimcbytes ' + hexb(b'\xff' * n), 'HashBytes/all-ff'))
    for b in (b'\x00', b'\x00\x00', bytes(31), bytes(32), bytes(62), bytes(63), b'\x01\x00', rnd_bytes(rng, 31) + b'\x00',
              rnd_bytes(rng, 31) + bytes(31) + rnd_bytes(rng, 5), rnd_bytes(rng, 30) + b'\x00', bytes(31) + b'\x07', rnd_bytes(rng, 62) + bytes(3)):
        out.append(('mimcbytes ' + hexb(b), 'HashBytes/zero-bytes'))
    out.append(('mimc7g 1 2 0', 'MIMC7HashGeneric/n=0'))
    return out


# --------------------------------------------------------------------------- C05 / C09 / C11 / C18
def ff_pairs(rng, vals, n):
    prs = []
    for _ in range(n):
        x = rng.choice(vals)
        k = rng.random()
        if k < 0.25:
            y = rng.choice(vals)
        elif k < 0.45:
            xr = ff_unmont(x)
            d = rng.choice([0, 1, -1, 1 << rng.randrange(256), -(1 << rng.randrange(256))])
            y = ff_mont((-xr + d) % Q)         # x + y = d: sums near 0 / q
        elif k < 0.6:
            y = (x + rng.choice([0, 1, -1])) % Q
        elif k < 0.7:
            y = (Q - x + rng.choice([0, 1, -1])) % Q   # raw limbs complementary
        else:
            y = rng.randrange(Q)
        prs.append((x, y))
    return prs


def gen_C05(rng, tier):
    out = []
    vals = ff_boundary_values(rng, 8 if tier == 'quick' else 64)
    npairs = 60 if tier == 'quick' else 3000
    for be in ('asm', 'noadx', 'gen'):
        for (x, y) in ff_pairs(rng, vals, npairs):
            for op in ('add', 'sub', 'mul'):
                al = rng.choice([0, 1, 2])
                out.append(('ff %s %s %d %d %d' % (be, op, al, x, y), '%s/%s/alias%d' % (be, op, al)))
            out.append(('ff %s butterfly %d %d' % (be, x, y), '%s/butterfly' % be))
        for x in vals:
            for op in ('add', 'sub', 'mul'):
                al = rng.choice([3, 4])
                out.append(('ff %s %s %d %d %d' % (be, op, al, x, x), '%s/%s/alias%d(x=y)' % (be, op, al)))
            for op in ('neg', 'double', 'square'):
                al = rng.choice([0, 1])
                out.append(('ff %s %s %d %d' % (be, op, al, x), '%s/%s/alias%d' % (be, op, al)))
            for op in ('mulby3', 'mulby5', 'mulby13', 'frommont'):
                out.append(('ff %s %s %d' % (be, op, x), '%s/%s' % (be, op)))
    # Butterfly with both pointers equal (degenerate: two outputs, one object): the three
    # back-ends are compared with each other ('!': no functional model of this call)
    for x in rng.sample(vals, 3):
        for be in ('asm', 'noadx', 'gen'):
            out.append(('!ff %s butterflyalias %d' % (be, x), 'butterfly/a==b/' + be))
    for x in vals:
        out.append(('ff asm halve %d' % x, 'halve'))
        out.append(('ff asm tomont %d' % x, 'tomont'))
        out.append(('ff asm inverse %d %d' % (rng.choice([0, 1]), x), 'inverse' + ('/zero' if x == 0 else '')))
        y = rng.choice(vals)
        out.append(('ff asm div %d %d %d' % (rng.choice([0, 1, 2]), x, y), 'div' + ('/by-zero' if y == 0 else '')))
        e = rng.choice([0, 1, 2, 3, 5, Q - 1, Q - 2, Q, 2**256, rng.randrange(2**rng.randrange(1, 300)),
                        2 * (Q - 1), (Q - 1) << 64, (Q - 1) ** 2, 3 * (Q - 1) + 1, 5 * (Q - 1) - 1, Q * (Q - 1), 2**254, 2**255 - 1, 2**512 - 1])
        out.append(('ff asm exp %d %d' % (x, e), 'exp' + ('/e=0' if e == 0 else '/e>=2^256' if e >= 2**256 else '')))
    # a distinct destination that already holds a non-zero value (every op must overwrite it fully)
    for x in rng.sample(vals, min(len(vals), 10)) + [0, ff_mont(1)]:
        y = rng.choice(vals)
        for op in ('add', 'sub', 'mul', 'div'):
            out.append(('ff asm %s 5 %d %d' % (op, x, y), '%s/dirty-destination' % op))
        out.append(('ff asm div 5 %d 0' % x, 'div/by-zero/dirty-destination'))
        for op in ('neg', 'double', 'square', 'inverse'):
            out.append(('ff asm %s 2 %d' % (op, x), '%s/dirty-destination' % op))
        out.append(('ff gen add 5 %d %d' % (x, y), 'gen/add/dirty-destination'))
        out.append(('ff gen neg 2 %d' % x, 'gen/neg/dirty-destination'))
    # Inverse walks u, v through small and sparse values: operands whose stored limbs are all in
    # {0, 1} or a single power of two (exit tests and limb-wise comparisons of the binary GCD)
    sparse = [sum(b << (64 * i) for i, b in enumerate(bits)) for bits in
              [(1, 1, 0, 0), (1, 0, 1, 0), (1, 0, 0, 1), (0, 1, 1, 0), (1, 1, 1, 1), (0, 1, 0, 0), (0, 0, 1, 0), (0, 0, 0, 1), (2, 2, 0, 0), (1, 1, 1, 0)]]
    sparse += [1 << k for k in (1, 63, 64, 65, 127, 128, 191, 192, 250)] + [(1 << 64) + 1, (1 << 128) + 1, (1 << 192) + 1]
    for P in (2**64, 2**128, 2**192):
        for k in (1, 2, 5, 17):
            v = (2**k * P + Q) // (2**k + 1)
            if (2**k * P + Q) % (2**k + 1) == 0 and v < Q:
                sparse.append(v)
    for x in sparse:
        if 0 < x < Q:
            out.append(('ff asm inverse %d %d' % (rng.choice([0, 1, 2]), x), 'inverse/sparse-limbs'))
            out.append(('ff asm div 0 %d %d' % (rng.choice(vals), x), 'div/sparse-divisor'))
            out.append(('ff asm inverse 0 %d' % ff_mont(x), 'inverse/sparse-value'))
    # the statement's special cases, always present: zero divisor (also as destination, also 0/0,
    # also x and y one object), exponent 0 (also of 0), on both assembly configurations
    nz0 = [v for v in vals if v != 0]
    for be in ('asm', 'noadx'):
        for al in (0, 1, 2):
            out.append(('ff %s div %d %d 0' % (be, al, rng.choice(nz0)), 'div/by-zero/alias%d' % al))
            out.append(('ff %s div %d 0 0' % (be, al), 'div/zero-by-zero'))
        for al in (3, 4):
            out.append(('ff %s div %d %d %d' % ((be, al) + (rng.choice(nz0),) * 2), 'div/x=y/alias%d' % al))
            out.append(('ff %s div %d 0 0' % (be, al), 'div/zero-by-zero'))
        out.append(('ff %s inverse 0 0' % be, 'inverse/zero'))
        out.append(('ff %s inverse 1 0' % be, 'inverse/zero'))
        for (x, e) in ((0, 0), (0, 1), (0, Q - 1), (0, 2**300), (ff_mont(1), 0), (rng.choice(nz0), 0), (ff_mont(Q - 1), Q - 1), (rng.choice(nz0), Q - 1)):
            out.append(('ff %s exp %d %d' % (be, x, e), 'exp/special'))
        for e in (2 * (Q - 1), 3 * (Q - 1), (Q - 1) << 64, (Q - 1) ** 2, Q * (Q - 1), 2 * (Q - 1) + 1, ((Q - 1) << 256) + (Q - 1)):
            out.append(('ff %s exp 0 %d' % (be, e), 'exp/zero-base/multiple-of-q-1'))
    for x in rng.sample(vals, min(len(vals), 12)):
        out.append(('ff noadx halve %d' % x, 'noadx/halve'))
        out.append(('ff noadx tomont %d' % x, 'noadx/tomont'))
        out.append(('ff noadx inverse %d %d' % (rng.choice([0, 1]), x), 'noadx/inverse'))
        out.append(('ff noadx div %d %d %d' % (rng.choice([0, 1, 2]), x, rng.choice(vals)), 'noadx/div'))
        out.append(('ff noadx exp %d %d' % (x, rng.choice([2, 3, Q - 2, rng.randrange(2**256), 2**256 + 1])), 'noadx/exp'))
    for ln in (0, 1, 2, 3, 5, 9):
        l = [rng.choice(vals + [0]) for _ in range(ln)]
        out.append(('ff asm batchinv ' + lst(l), 'batchinv/len%d%s' % (ln, '/with-zero' if 0 in l else '')))
        out.append(('ff noadx batchinv ' + lst(l), 'noadx/batchinv'))
    xx = rng.choice(nz0)
    xi = ff_mont(inv(ff_unmont(xx)))
    out.append(('ff asm batchinv ' + lst([xx, xi]), 'batchinv/product-is-one'))
    out.append(('ff asm batchinv ' + lst([xx, xx, xx]), 'batchinv/duplicates'))
    out.append(('ff asm batchinv ' + lst([xx, 0, xx, xi, 0, xi]), 'batchinv/duplicates'))
    out.append(('ff asm batchinv ' + lst([rng.choice(vals) for _ in range(64 if tier == 'quick' else 1000)]), 'batchinv/long'))
    out.append(('ff asm batchinv ' + lst([0, 0, 0]), 'batchinv/all-zero'))
    # zeros at every position class: first, last, middle, runs, alone
    nz = [v for v in vals if v != 0]
    for pat in ('0', 'x', '0x', 'x0', '0xx', 'x0x', 'xx0', '00x', 'x00', '0x0', '0xxxx', 'xxxx0', 'x0x0x', '00xx0'):
        out.append(('ff asm batchinv ' + lst([0 if c == '0' else rng.choice(nz) for c in pat]), 'batchinv/zero-pattern'))
    return out


def gen_C09(rng, tier):
    out = []
    cls = [0, 1, 2, 2**32 - 1, 2**32, 2**32 + 1, 2**63, 2**63 - 1, PG - 2**32, PG - 2**32 - 1, PG - 2, PG - 1, (PG - 1) // 2, (PG + 1) // 2]
    n = 400 if tier == 'quick' else 20000
    for _ in range(n):
        x = rng.choice(cls + [rng.randrange(PG)] * 4)
        k = rng.random()
        if k < 0.3:
            y = rng.choice(cls)
        elif k < 0.6:
            y = (rng.choice([PG - 1, PG, PG + 1, 2**64 - 1, 2**64, 2**64 + 1]) - x) % PG
        else:
            y = rng.randrange(PG)
        for op in ('add', 'sub', 'mul'):
            al = rng.choice([0, 1, 2])
            out.append(('ffg %s %d %d %d' % (op, al, x, y), '%s/alias%d' % (op, al)))
        out.append(('ffg butterfly %d %d' % (x, y), 'butterfly'))
    for x in cls + [rng.randrange(PG) for _ in range(20)]:
        for op in ('add', 'sub', 'mul'):
            out.append(('ffg %s %d %d %d' % (op, rng.choice([3, 4]), x, x), '%s/x=y' % op))
        for op in ('neg', 'double', 'square', 'inverse'):
            out.append(('ffg %s %d %d' % (op, rng.choice([0, 1]), x), op + ('/zero' if x == 0 else '')))
        for op in ('halve', 'mulby3', 'mulby5', 'mulby13', 'frommont', 'tomont', 'touint64'):
            out.append(('ffg %s %d' % (op, x), op))
        y = rng.choice(cls)
        out.append(('ffg div %d %d %d' % (rng.choice([0, 1, 2]), x, y), 'div' + ('/by-zero' if y == 0 else '')))
        e = rng.choice([0, 1, 2, PG - 1, PG - 2, 2**64, rng.randrange(2**rng.randrange(1, 130)),
                        2 * (PG - 1), (PG - 1) << 64, (PG - 1) ** 2, 3 * (PG - 1) + 1, 2**64 - 1, 2**128 - 1])
        out.append(('ffg exp %d %d' % (x, e), 'exp' + ('/e=0' if e == 0 else '')))
    for v in [0, 1, PG - 1, PG, PG + 1, 2**64 - 1, 2**64 - 2**32, 2**63] + [rng.randrange(PG, 2**64) for _ in range(20)] + [rng.randrange(2**64) for _ in range(20)]:
        out.append(('ffg setuint64 %d' % v, 'setuint64/' + ('>=p' if v >= PG else '<p')))
    for x in cls[:6] + [rng.randrange(PG) for _ in range(3)]:
        out.append(('ffg butterflyalias %d' % x, 'butterfly/a==b'))
    for x in cls + [rng.randrange(PG) for _ in range(4)]:
        y = rng.choice(cls)
        for op in ('add', 'sub', 'mul', 'div'):
            out.append(('ffg %s 5 %d %d' % (op, x, y), '%s/dirty-destination' % op))
        out.append(('ffg div 5 %d 0' % x, 'div/by-zero/dirty-destination'))
        for op in ('neg', 'double', 'square', 'inverse'):
            out.append(('ffg %s 2 %d' % (op, x), '%s/dirty-destination' % op))
    nzc = [v for v in cls if v != 0]
    for al in (0, 1, 2):
        out.append(('ffg div %d %d 0' % (al, rng.choice(nzc)), 'div/by-zero/alias%d' % al))
        out.append(('ffg div %d 0 0' % al, 'div/zero-by-zero'))
    for al in (3, 4):
        out.append(('ffg div %d %d %d' % ((al,) + (rng.choice(nzc),) * 2), 'div/x=y/alias%d' % al))
        out.append(('ffg div %d 0 0' % al, 'div/zero-by-zero'))
    for (x, e) in ((0, 0), (0, 1), (0, PG - 1), (0, 2**100), (2**32 - 1, 0), (rng.choice(nzc), 0), (rng.choice(nzc), PG - 1)):
        out.append(('ffg exp %d %d' % (x, e), 'exp/special'))
    # base 0 with exponents that are non-zero multiples of p-1 (a Fermat reduction of the exponent is
    # valid for every base but 0: 0^(k(p-1)) = 0, not 0^0 = 1), also wider than one word, and their neighbours
    for e in (2 * (PG - 1), 3 * (PG - 1), (PG - 1) << 64, (PG - 1) ** 2, (PG - 1) * 2**64 + (PG - 1), PG * (PG - 1), 2 * (PG - 1) + 1, (PG - 1) * (2**64 + 1) - 1):
        out.append(('ffg exp 0 %d' % e, 'exp/zero-base/multiple-of-p-1'))
        out.append(('ffg exp %d %d' % (rng.choice(nzc), e), 'exp/multiple-of-p-1'))
    # Montgomery reduction at the exact carry boundary: products with x*y*R^-1 = 1 and x*y = R^2 - small
    R64 = 2**64 % PG
    for _ in range(4):
        xr = rng.randrange(1, PG)
        out.append(('ffg mul 0 %d %d' % (xr * R64 % PG, inv(xr, PG) * R64 % PG), 'mul/product-is-one'))
        out.append(('ffg mul 0 %d %d' % (xr, inv(xr, PG)), 'mul/raw-product-is-one'))
        out.append(('ffg mul 0 %d %d' % (xr, (2**32 - 2) * inv(xr, PG) % PG), 'mul/raw-product-2^32-2'))
        out.append(('ffg mul 0 %d %d' % (xr, (PG - 1) * inv(xr, PG) % PG), 'mul/raw-product-minus-one'))
    for ln in (0, 1, 2, 3, 7):
        l = [rng.choice(cls) for _ in range(ln)]
        out.append(('ffg batchinv ' + lst(l), 'batchinv/len%d%s' % (ln, '/with-zero' if 0 in l else '')))
    xg = rng.choice(nzc)
    out.append(('ffg batchinv ' + lst([xg, inv(xg * inv(R64, PG) % PG, PG) * R64 % PG]), 'batchinv/product-is-one'))
    out.append(('ffg batchinv ' + lst([xg, xg, 0, xg]), 'batchinv/duplicates'))
    out.append(('ffg batchinv ' + lst([rng.choice(cls + [rng.randrange(PG)]) for _ in range(64 if tier == 'quick' else 1000)]), 'batchinv/long'))
    nzg = [v for v in cls if v != 0]
    for pat in ('0', 'x', '0x', 'x0', '0xx', 'x0x', 'xx0', '00x', 'x00', '0x0', '000', '0xxxx', 'xxxx0', 'x0x0x', '00xx0'):
        out.append(('ffg batchinv ' + lst([0 if c == '0' else rng.choice(nzg) for c in pat]), 'batchinv/zero-pattern'))
    return out


def big_ints(rng, tier, p):
    v = [0, 1, -1, p - 1, p, p + 1, 2 * p, -p, -p - 1, -p + 1, 2**256, 2**256 - 1, 2**1100 - 1, -(2**1100 - 1), (p - 1) // 2, (p + 1) // 2]
    for k in ([8, 63, 64, 65, 128, 254, 255, 256, 257, 500, 1099] if tier == 'quick' else range(1, 1100, 7)):
        x = rng.randrange(2**k)
        v += [x, -x]
    return v


def gen_C11(rng, tier):
    out = []
    for (pre, p, mont) in (('ff asm', Q, ff_mont), ('ffg', PG, lambda v: v % PG * 2**64 % PG)):
        for v in big_ints(rng, tier, p):
            prev = mont(rng.randrange(p))
            out.append(('%s setbigint %d %d' % (pre, prev, v), 'SetBigInt/' + ('neg' if v < 0 else '>=q' if v >= p else 'in-range')))
            out.append(('%s setstring %s' % (pre, hexb(str(v).encode())), 'SetString/' + ('neg' if v < 0 else 'nonneg')))
            if v >= 0:
                nb = (v.bit_length() + 7) // 8
                for pad in (0, 1, 5):
                    out.append(('%s setbytes %s' % (pre, hexb(bytes(pad) + v.to_bytes(nb, 'big'))), 'SetBytes/pad%d' % pad))
        for n in (0, 1, 8, 31, 32, 33, 64, 200):
            out.append(('%s setbytes %s' % (pre, hexb(rnd_bytes(rng, n))), 'SetBytes/len%d' % n))
        for s in (b'', b'-', b'+', b'+5', b'-0', b'007', b'12a', b' 1', b'1_000', b'0x10', b'1e3'):
            out.append(('%s setstring %s' % (pre, hexb(s)), 'SetString/odd-text'))
        regs = [0, 1, 2, p - 1, p - 2, (p - 1) // 2, (p + 1) // 2, (p - 1) // 2 - 1, 2**64 - 1 if p > 2**64 else 2**32, 2**64 if p > 2**64 else 2**32 + 1, p - 2**64 if p > 2**64 else p - 2**32] + [rng.randrange(p) for _ in range(6 if tier == 'quick' else 200)]
        if p == Q:
            regs += [p - k for k in (1, 2, 2**63, 2**64 - 1, 2**64, 2**64 + 1)] + [2**64 * k for k in (1, 2**64, 2**128)]
        raws = [mont(v) for v in regs]
        for r in raws:
            for op in ('tobig', 'bytes', 'string', 'lexlargest', 'iszero'):
                out.append(('%s %s %d' % (pre, op, r), op))
            r2 = rng.choice(raws)
            out.append(('%s equal %d %d' % (pre, r, r2), 'equal'))
            out.append(('%s equal %d %d' % (pre, r, r), 'equal/same'))
            out.append(('%s cmp %d %d' % (pre, r, r2), 'cmp'))
            out.append(('%s cmp %d %d' % (pre, r, r), 'cmp/same'))
        # Equal / Cmp / IsZero must look at EVERY limb: pairs that differ in exactly one limb,
        # values with exactly one non-zero limb, regular values one apart at each limb weight
        nl = 4 if p == Q else 1
        for _ in range(3):
            r = rng.randrange(p)
            for k in range(nl):
                r2 = r ^ (1 << (64 * k + rng.randrange(64)))
                if r2 < p:
                    out.append(('%s equal %d %d' % (pre, r, r2), 'equal/one-limb-differs'))
                    out.append(('%s equal %d %d' % (pre, r2, r), 'equal/one-limb-differs'))
                v = rng.randrange(2**(64 * nl - 2)) % p
                for d in (1, -1):
                    w = (v + d * 2**(64 * k)) % p
                    out.append(('%s cmp %d %d' % (pre, mont(v), mont(w)), 'cmp/differ-at-limb%d' % k))
                    out.append(('%s cmp %d %d' % (pre, mont(w), mont(v)), 'cmp/differ-at-limb%d' % k))
        for k in range(nl):
            for raw in (1 << (64 * k), (2**64 - 1) << (64 * k) if k < 3 else 1 << 250):
                if raw < p:
                    out.append(('%s iszero %d' % (pre, raw), 'iszero/one-limb'))
                    out.append(('%s equal %d 0' % (pre, raw), 'equal/one-limb-vs-zero'))
        for v in [0, 1, 2**32, 2**63, 2**64 - 1] + [rng.randrange(2**64) for _ in range(5)]:
            out.append(('%s setuint64 %d' % (pre, v), 'SetUint64'))
        # the rest of the exported surface of the element types (reads of the stored limbs)
        for r in rng.sample(raws, 6) + [0, 1, p - 1]:
            for i in (0, 1, 63, 64, 65, 127, 128, 191, 192, 253, 255, 256, 2**63, 2**64 - 1, rng.randrange(256)):
                out.append(('%s bit %d %d' % (pre, r, i), 'Bit'))
            out.append(('%s bitlen %d' % (pre, r), 'BitLen'))
        for k in (0, 1, 63, 64, 127, 128, 191, 192, 253):
            if 2**k < p:
                out.append(('%s bitlen %d' % (pre, 2**k), 'BitLen/power-of-two'))
                out.append(('%s bitlen %d' % (pre, 2**k - 1 if k else 0), 'BitLen/power-of-two'))
        out.append(('%s modulus' % pre, 'Modulus'))
        out.append(('%s one' % pre, 'One'))
    for kind, arg in (('1', ff_mont(5)), ('2', ff_mont(Q - 1)), ('3', 2**64 - 1), ('4', -7), ('5', hexb(b'-12345')), ('5', hexb(b'zz')),
                      ('6', -Q - 3), ('7', 2**300), ('8', hexb(b'\x01\x02')), ('9', 0)):
        out.append(('ff asm setinterface %s %s' % (kind, arg), 'SetInterface/kind' + kind))
    for kind, arg in (('1', 5 * 2**64 % PG), ('2', (PG - 1) * 2**64 % PG), ('3', 2**64 - 1), ('4', -7), ('5', hexb(b'-12345')), ('5', hexb(b'zz')),
                      ('6', -PG - 3), ('7', 2**300), ('8', hexb(b'\x01\x02')), ('8', hexb(bytes(range(1, 20)))), ('9', 0)):
        out.append(('ffg setinterface %s %s' % (kind, arg), 'SetInterface/kind' + kind))
    for _ in range(5 if tier == 'quick' else 100):
        l = [rng.choice(big_ints(rng, 'quick', Q)) for _ in range(rng.randrange(0, 6))]
        out.append(('elarr ' + lst(l), 'BigIntArrayToElementArray'))
    return out


def two_power_torsion(p, e, nonres):
    s = (p - 1) >> e
    g = pow(nonres, s, p)   # order 2^e
    return [pow(g, 1 << (e - k), p) for k in range(0, e + 1)]   # element of order 2^k


def gen_C18(rng, tier):
    out = []
    for (pre, p, mont, e, nr) in (('ff asm', Q, ff_mont, 28, 5), ('ffg', PG, lambda v: v % PG * 2**64 % PG, 32, 7)):
        vals = [0, 1, p - 1, 2, 3, 4, p - 4]
        tors = two_power_torsion(p, e, nr)
        vals += tors + [t * t % p for t in tors] + [t * rng.randrange(1, p) ** 2 % p for t in tors[:6]]
        # squares whose Tonelli-Shanks loop needs every number of corrections 0..e-1:
        # x^s = g^(-(2^e - 2^j)), times an element of odd order
        s_odd = (p - 1) >> e
        g = tors[e]                      # order 2^e
        u = pow(s_odd, -1, 1 << e)
        for j in range(1, e + 1):
            for _ in range(1 if tier == 'quick' else 4):
                w = pow(rng.randrange(2, p), 1 << e, p)
                vals.append(pow(g, (-((1 << e) - (1 << j)) * u) % (1 << e), p) * w % p)
        # discrete logs with random bit patterns (squares and non-squares)
        for _ in range(20 if tier == 'quick' else 300):
            vals.append(pow(g, rng.randrange(1 << e), p) * pow(rng.randrange(2, p), 1 << e, p) % p)
        n = 20 if tier == 'quick' else 400
        for _ in range(n):
            x = rng.randrange(p)
            vals += [x, x * x % p]
        for v in vals:
            d = mont(rng.randrange(p))
            out.append(('%s legendre %d' % (pre, mont(v)), 'legendre'))
            out.append(('%s sqrt %d %d' % (pre, d, mont(v)), 'sqrt'))
        for v in vals[:12] + rng.sample(vals, min(len(vals), 30)):
            out.append(('%s sqrtalias %d' % (pre, mont(v)), 'sqrt/destination-is-operand'))
    return out


# --------------------------------------------------------------------------- C12 / C02 / C03 / C14
def keys(rng, tier):
    ks = [bytes(32), b'\xff' * 32, bytes(range(32)), b'\x01' + bytes(31), bytes(31) + b'\x80']
    ks += [rnd_bytes(rng, 32) for _ in range(6 if tier == 'quick' else 200)]
    return ks


def gen_C12(rng, tier):
    out = []
    for k in keys(rng, tier) + [rnd_bytes(rng, 32) for _ in range(20 if tier == 'quick' else 500)]:
        out.append(('pubroutes ' + hexb(k), 'routes'))
        out.append(('scalarseq ' + hexb(k), 'routes/one-scalar-object-in-sequence'))
        out.append(('sk2int ' + hexb(k), 'SkToBigInt'))
        out.append(('public ' + hexb(k), 'Public'))
    for s in [0, 1, L - 1, L, 2**251, 2**252 - 1] + [rng.randrange(2**252) for _ in range(5)]:
        out.append(('scalarpublic %d' % s, 'PrivKeyScalar.Public'))
    return out


def msgs(rng, tier):
    return [0, 1, Q - 1, 2**248 - 1, 2**248 + 1, 2**253] + [rng.randrange(Q) for _ in range(2 if tier == 'quick' else 20)]


def gen_C02(rng, tier):
    out = []
    ks = keys(rng, tier)
    for k in ks:
        for m in (rng.sample(msgs(rng, tier), 3) if tier == 'quick' else msgs(rng, tier)):
            out.append(('signp %s %d' % (hexb(k), m), 'SignPoseidon'))
            out.append(('signm %s %d' % (hexb(k), m), 'SignMimc7'))
    for m in (255, 256, 2**16 - 1, 2**64 - 1, 2**64, 2**128, 2**192, 2**240, 2**248 - 1, 2**248, 2**253, Q - 1):
        out.append(('signp %s %d' % (hexb(ks[1]), m), 'SignPoseidon/msg-byte-length-boundary'))
        out.append(('signm %s %d' % (hexb(ks[1]), m), 'SignMimc7/msg-byte-length-boundary'))
    for m in (Q, Q + 1, -1, 2**256):
        out.append(('signp %s %d' % (hexb(ks[2]), m), 'SignPoseidon/msg-out-of-field'))
        out.append(('signm %s %d' % (hexb(ks[2]), m), 'SignMimc7/msg-out-of-field'))
    for k in ks[:4]:
        for m in rng.sample(msgs(rng, tier), 2):
            out.append(('signverify p %s %d' % (hexb(k), m), 'chain/sign-encode-decode-verify'))
            out.append(('signverify m %s %d' % (hexb(k), m), 'chain/sign-encode-decode-verify'))
    out.append(('signverify p %s %d' % (hexb(ks[0]), Q), 'chain/msg-out-of-field'))
    # the derivation routes of the same keys, before and after signing with them
    for k in ks[:6]:
        out.insert(rng.randrange(len(out)), ('public %s' % hexb(k), 'Public/same-key-as-signing'))
        out.append(('public %s' % hexb(k), 'Public/same-key-as-signing'))
    return out


# --------------------------------------------------------------------------- C16 extras
def gen_C16_globals(rng, tier):
    """calls that receive the package-level objects THEMSELVES (and out-of-range / negative
    values) as arguments: an in-place operation on an argument then corrupts package state"""
    G = ['gQ', 'gZero', 'gOne', 'gMinusOne', 'gA', 'gD', 'gOrder', 'gSubOrder', 'gB8x', 'gB8y']
    out = []
    for g in G:
        g2 = rng.choice(G)
        out += [('infield ' + g, 'global-arg/infield'), ('lebytes ' + g, 'global-arg/lebytes'), ('csign ' + g, 'global-arg/csign'),
                ('packsigny true ' + g, 'global-arg/packsigny'), ('fromsigny false ' + g, 'global-arg/fromsigny'),
                ('fromsigny true ' + g, 'global-arg/fromsigny'),
                ('mimc7 %s %s' % (g, g2), 'global-arg/mimc7'), ('mimc7g %s %s 3' % (g, g2), 'global-arg/mimc7g'),
                ('mimchash %s [1,2]' % g, 'global-arg/mimc-key'), ('mimchashg %s [1,2] 2' % g, 'global-arg/mimc-iv'),
                ('mul %s gB8x gB8y' % g, 'global-arg/mul'), ('mulB8 ' + g, 'global-arg/mulB8'),
                ('incurve %s %s' % (g, g2), 'global-arg/incurve'), ('insub %s %s' % (g, g2), 'global-arg/insub'),
                ('padd %s %s gB8x gB8y' % (g, g2), 'global-arg/padd'), ('compress %s %s' % (g, g2), 'global-arg/compress'),
                ('ff asm setbigint 0 ' + g, 'global-arg/ff.SetBigInt'), ('ffg setbigint 0 ' + g, 'global-arg/ffg.SetBigInt'),
                ('ff asm exp 5 ' + g, 'global-arg/ff.Exp'), ('poseidon %s 1 [1]' % g, 'global-arg/poseidon-initstate'),
                ('scalarpublic ' + g, 'global-arg/scalarpublic'),
                ('verifyp gB8x gB8y %s gB8x gB8y %s' % (g, g2), 'global-arg/verify'),
                ('sigcomp gB8x gB8y ' + g, 'global-arg/sigcomp')]
    for v in (-1, -5, -Q, -Q - 3, Q, Q + 7, 3 * Q + 11, 2**256, -2**300):
        out += [('fromsigny false %d' % v, 'out-of-range/fromsigny'), ('mimc7 %d %d' % (v, -v), 'out-of-range/mimc7'),
                ('mimchash %d [3]' % v, 'out-of-range/mimc-key'), ('incurve %d %d' % (v, v + 1), 'out-of-range/incurve'),
                ('mul %d %d %d' % (abs(v), B8[0] + Q, B8[1] - 2 * Q), 'out-of-range/mul-noncanonical-point'),
                ('ff asm setbigint 0 %d' % v, 'out-of-range/SetBigInt'), ('elarr [%d,%d]' % (v, -v), 'out-of-range/elarr'),
                ('poseidon %d 1 [%d]' % (v, v), 'out-of-range/poseidon'), ('packsigny false %d' % v, 'out-of-range/packsigny')]
    out += [('incurveB8', 'global-receiver/B8'), ('compressB8', 'global-receiver/B8')]
    return out

#!/usr/bin/env python3
"""Orchestrator:  check.py <Cxx> [--tier quick|thorough] [--replay FILE]

For one property: (1) regenerate the Gen/*.v data from /repo's working tree
(constgen, effgen), (2) re-check the Coq development (full .vo build through
make, then the property file coq/Properties/<Cxx>.v with its Print Assumptions),
(3) rebuild the Go harness from /repo (-tags verif) and the extracted OCaml
driver, (4) run the correspondence: generated cases through the implementation
and through the extracted model, compared line by line, (5) evidence + exit
status.  See DESIGN.md."""
import fcntl
import json
import os
import random
import re
import subprocess
import sys
import time

V = '/verif'
REPO = '/repo'
COQ = V + '/coq'
BIN = V + '/_build/bin'
TABLES = V + '/_build/tables'
WORK = V + '/_build/work'
sys.path.insert(0, V + '/gen')
import gens  # noqa: E402
import oracle as ORC  # noqa: E402
import mathlib as M  # noqa: E402

GOENV = dict(os.environ, GOFLAGS='-mod=mod', GOPROXY='off', GOSUMDB='off', GOTOOLCHAIN='local',
             CGO_ENABLED=os.environ.get('CGO_ENABLED', '1'))

TRUSTED_BASE = [
    'Coq 8.16.1 kernel and the vm_compute bytecode VM (no native_compute)',
    'tools/constgen (Go go/parser+go/constant): copies literal tables/constants of /repo into coq/Gen/*.v',
    'tools/limbgen (Go AST -> Gallina) for the portable limb routines of ff/ffg; tools/asmgen (Plan 9 amd64 assembly -> instruction lists for Model/AsmSem.v); tools/bigintgen (symbolic execution of the loop-free math/big functions of babyjub/utils/mimc7/poseidon); each output is PROVED equal to the hand-written model, so a translator error shows up as a failing lemma or as a harness mismatch, but what the translators abstract (memory layout, Go evaluation order, the instruction semantics of AsmSem.v) is trusted',
    'tools/effgen (Go go/parser): translates Go function bodies into the effect IR (C16/C17/C19); the effect signatures it assumes for math/big, ff assembly stubs, hex, sha3, blake512 and sync.Pool are trusted',
    'extraction: ExtrOcamlBasic + ExtrOcamlZBigInt directives only; OCaml 4.13 + zarith; ocaml/driver.ml parser/printer (guarded by an in-Coq vm_compute re-evaluation of a sample of the same cases)',
    'harness/main.go (Go), gen/*.py (case generators, comparison) and gen/oracle.py (independent Python specification used as third voice)',
    'modelled, not verified: math/big, math/bits, encoding/hex, strconv, sync.Pool, x/crypto/sha3, dchest/blake512 (their mathematical meaning is the model), the Go compiler and runtime, the memory model and the scheduler (observed through the -race / concurrent harness passes)',
]


def sh(cmd, timeout=3600, cwd=None, env=None):
    t0 = time.time()
    try:
        p = subprocess.run(cmd, shell=True, cwd=cwd, env=env, stdout=subprocess.PIPE, stderr=subprocess.STDOUT,
                           timeout=timeout, text=True, errors='replace')
        return p.returncode, p.stdout, time.time() - t0
    except subprocess.TimeoutExpired as e:
        out = e.stdout if isinstance(e.stdout, str) else (e.stdout or b'').decode(errors='replace')
        return 124, out + '\nTIMEOUT', time.time() - t0


# ------------------------------------------------------------------ build
class Build:
    def __init__(self):
        self.make_ok = True
        self.make_log = ''
        self.failed_files = []
        self.notes = []


def newer(a, b):
    try:
        return os.path.getmtime(a) > os.path.getmtime(b)
    except OSError:
        return True


def ensure_built(need_race=False, need_386=False):
    os.makedirs(BIN, exist_ok=True)
    os.makedirs(WORK, exist_ok=True)
    b = Build()
    lock = open(V + '/_build/lock', 'w')
    fcntl.flock(lock, fcntl.LOCK_EX)
    try:
        # translators
        for tool in ('constgen', 'limbgen', 'asmgen', 'bigintgen', 'effgen'):
            src = V + '/tools/' + tool
            if not os.path.isdir(src):
                continue
            if tool == 'effgen' and 'Gen/EffectsIR.v' not in open(COQ + '/_CoqProject').read():
                continue
            if tool == 'limbgen' and 'Gen/FfRoutines.v' not in open(COQ + '/_CoqProject').read():
                continue
            if tool == 'bigintgen' and 'Gen/BigIntRoutines.v' not in open(COQ + '/_CoqProject').read():
                continue
            if tool == 'asmgen' and 'Gen/FfAsm.v' not in open(COQ + '/_CoqProject').read():
                continue
            exe = BIN + '/' + tool
            if not os.path.exists(exe) or any(newer(os.path.join(src, f), exe) for f in os.listdir(src) if f.endswith('.go')):
                rc, out, _ = sh('go build -o %s .' % exe, cwd=src, env=GOENV)
                if rc != 0:
                    raise SystemExit('cannot build %s:\n%s' % (tool, out))
            rc, out, _ = sh('%s %s %s' % (exe, REPO, V), timeout=600)
            if rc == 3 and tool in ('bigintgen', 'limbgen'):
                b.notes.append(tool + ': some functions could not be translated (marker definitions emitted): ' + out[-600:])
            elif rc != 0:
                b.notes.append('%s failed on the current tree: %s' % (tool, out[-2000:]))
                b.make_ok = False
                b.failed_files.append('translator:' + tool)
        # Coq
        if not os.path.exists(COQ + '/Makefile') or newer(COQ + '/_CoqProject', COQ + '/Makefile'):
            sh('coq_makefile -f _CoqProject -o Makefile', cwd=COQ)
        rc, out, dt = sh('timeout 7000 make -k -j16 2>&1', cwd=COQ, timeout=7200)
        b.make_log = out
        if rc != 0:
            b.make_ok = False
            b.failed_files += sorted(set(re.findall(r'File "\./([^"]+)", line', out)) |
                                     set(re.findall(r'\[Makefile[^\]]*: ([^\]]+\.vo)\]', out)))
        # extraction + driver
        drv = BIN + '/driver'
        srcs = [V + '/ocaml/driver.ml', COQ + '/Extract/Extract.v'] + \
            [os.path.join(COQ, d, f) for d in ('Model', 'Spec', 'Lib', 'Gen') for f in os.listdir(os.path.join(COQ, d)) if f.endswith('.vo')]
        if not os.path.exists(drv) or any(newer(s, drv) for s in srcs):
            rc, out, _ = sh(V + '/tools/build_driver.sh', timeout=1200)
            if rc != 0:
                b.notes.append('driver build failed: ' + out[-3000:])
                if os.path.exists(drv):
                    os.remove(drv)
        # harness, always rebuilt from /repo's working tree (go's build cache makes it cheap)
        sh('cp %s/go.sum %s/harness/go.sum' % (REPO, V))
        rc, out, _ = sh('go build -tags verif -o %s/harness .' % BIN, cwd=V + '/harness', env=GOENV, timeout=1200)
        if rc != 0:
            raise BuildError('go build of the harness against /repo failed:\n' + out[-3000:])
        if need_race:
            rc, out, _ = sh('go build -race -tags verif -o %s/harness_race .' % BIN, cwd=V + '/harness', env=GOENV, timeout=1200)
            if rc != 0:
                b.notes.append('race build failed: ' + out[-1000:])
        if need_386:
            env = dict(GOENV, GOARCH='386', CGO_ENABLED='0')
            rc, out, _ = sh('go build -tags verif -o %s/harness_386 .' % BIN, cwd=V + '/harness', env=env, timeout=1200)
            if rc != 0:
                b.notes.append('386 build failed: ' + out[-1000:])
    finally:
        fcntl.flock(lock, fcntl.LOCK_UN)
    return b


class BuildError(Exception):
    pass


# ------------------------------------------------------------------ Coq obligations
HYGIENE = r'\b(Admitted|admit|Axiom|Axioms|Parameter|Parameters|Conjecture|Conjectures|Hypothesis|Variable|bypass_check)\b|Unset Guard|Unset Positivity|Unset Universe|type-in-type|impredicative-set'
ALLOWED_AXIOM_PREFIXES = ('Uint63.', 'PrimInt63.', 'Coq.Numbers.Cyclic.Int63', 'PArray', 'functional_extensionality', 'Eqdep.Eq_rect_eq', 'Classical_Prop.classic', 'proof_irrelevance', 'JMeq_eq')


def strip_comments(s):
    out, depth, i = [], 0, 0
    while i < len(s):
        if s.startswith('(*', i):
            depth += 1
            i += 2
        elif s.startswith('*)', i) and depth > 0:
            depth -= 1
            i += 2
        else:
            if depth == 0:
                out.append(s[i])
            i += 1
    return ''.join(out)


def hygiene():
    """No Admitted/admit/Axiom/Parameter/...; Variable/Hypothesis only inside sections."""
    bad = []
    proj = open(COQ + '/_CoqProject').read().split()
    for f in proj:
        if not f.endswith('.v') or f.startswith('Gen/'):
            continue
        try:
            src = strip_comments(open(os.path.join(COQ, f)).read())
        except OSError:
            continue
        depth = 0
        for ln in src.split('\n'):
            s = ln.strip()
            if re.match(r'Section\b', s):
                depth += 1
            m = re.search(HYGIENE, ln)
            if m:
                w = m.group(0)
                if w in ('Hypothesis', 'Variable', 'Variables', 'Hypotheses') and depth > 0:
                    pass
                else:
                    bad.append('%s: %s' % (f, s[:100]))
            if re.match(r'End\b', s) and depth > 0:
                depth -= 1
    return bad


def property_closure(pid):
    """names of all files the property file transitively requires (from the .d file of coq_makefile)"""
    try:
        dtxt = open(COQ + '/.Makefile.d').read()
    except OSError:
        return ''
    deps = {}
    for m in re.finditer(r'^(\S+)\.vo \S+\.glob[^:]*:(.*)$', dtxt, re.M):
        deps[m.group(1)] = [d[:-3] for d in m.group(2).split() if d.endswith('.vo')]
    seen, todo = set(), ['Properties/' + pid]
    while todo:
        x = todo.pop()
        if x in seen:
            continue
        seen.add(x)
        todo += deps.get(x, [])
    return ' '.join(sorted(seen))


def coq_property(pid):
    """Compile coq/Properties/<pid>.v, return dict(ok, theorems, axioms, log)."""
    pf = 'Properties/%s.v' % pid
    res = dict(ok=False, theorems=[], axioms=[], closed=0, log='', file=pf)
    if not os.path.exists(os.path.join(COQ, pf)):
        res['log'] = 'missing ' + pf
        return res
    src = strip_comments(open(os.path.join(COQ, pf)).read())
    res['theorems'] = re.findall(r'(?:Theorem|Lemma|Corollary|Example)\s+([A-Za-z0-9_\']+)', src)
    rc, out, dt = sh('timeout 1500 coqc -Q . Verif %s' % pf, cwd=COQ, timeout=1600)
    res['log'] = out[-6000:]
    res['ok'] = rc == 0
    res['closed'] = out.count('Closed under the global context')
    ax = set()
    for blk in re.findall(r'Axioms:\n((?:.+\n)+?)(?=\n|Closed|Axioms:|$)', out + '\n'):
        for ln in blk.split('\n'):
            m = re.match(r'^([A-Za-z_][A-Za-z0-9_.\']*)\s*:', ln)
            if m:
                ax.add(m.group(1))
    res['axioms'] = sorted(ax)
    res['wall'] = dt
    return res


# ------------------------------------------------------------------ running cases
def run_cases(lines, tag, exe='harness', flags='', timeout=1800):
    os.makedirs(WORK, exist_ok=True)
    path = '%s/%s.cases' % (WORK, tag)
    with open(path, 'w') as f:
        f.write('\n'.join(l.lstrip('!') for l in lines) + '\n')
    outp = '%s/%s.%s.out' % (WORK, tag, exe)
    if os.path.exists(outp):
        os.remove(outp)
    rc, log, dt = sh('%s/%s %s -out %s %s' % (BIN, exe, flags, outp, path), timeout=timeout)
    try:
        out = open(outp).read()
    except OSError:
        out = ''
    LAST_LOG[0] = log
    return rc, out.split('\n'), dt


LAST_LOG = ['']


def _unused():
    return None


def run_model(lines, tag, timeout=3600):
    path = '%s/%s.mcases' % (WORK, tag)
    with open(path, 'w') as f:
        f.write('\n'.join(('skip' if l.startswith('!') else l) for l in lines) + '\n')
    rc, out, dt = sh('%s/driver %s %s' % (BIN, TABLES, path), timeout=timeout)
    return rc, out.split('\n'), dt


def compare(cases, impl, model, project=None):
    """cases: [(line, cls)]; returns list of mismatches (idx, line, impl, model)."""
    mism = []
    for i, (line, cls) in enumerate(cases):
        a = impl[i] if i < len(impl) else 'MISSING'
        m = model[i] if i < len(model) else 'MISSING'
        if m == 'UNKNOWN-OP' and line.startswith('!'):
            continue
        if project:
            a2, m2 = project(line, a), project(line, m)
        else:
            a2, m2 = a, m
        if a2 != m2:
            mism.append((i, line, a, m))
    return mism


def distribution(cases):
    d = {}
    for _, c in cases:
        d[c] = d.get(c, 0) + 1
    return d


# ------------------------------------------------------------------ property-specific flows
def proj_sqrt(line, out):
    """sqrt: compare only nil/non-nil and the destination after failure; the
    root itself is checked through z*z = x by a follow-up case."""
    if ' sqrt ' in line or ' sqrtalias ' in line:
        t = out.split()
        if t and t[0] == 'nil':
            return out
        return 'ROOT'
    return out


def sign_lines(rng, tier, nkeys, nmsgs):
    ks = gens.keys(rng, tier)[:nkeys]
    out = []
    for k in ks:
        for m in rng.sample(gens.msgs(rng, tier), nmsgs):
            out.append((k, m))
    return out


def honest_sigs(rng, tier, n):
    """honest signatures produced by the IMPLEMENTATION: [(digest, key, pk, msg, R8, S)]"""
    km = sign_lines(rng, tier, 3 if tier == 'quick' else 12, 2 if tier == 'quick' else 5)[:n]
    lines = []
    for k, m in km:
        lines += ['public ' + M.hexb(k), 'signp %s %d' % (M.hexb(k), m), 'signm %s %d' % (M.hexb(k), m)]
    rc, out, _ = run_cases(lines, 'honest')
    sigs = []
    for i, (k, m) in enumerate(km):
        pk = tuple(int(x) for x in out[3 * i].split())
        for j, dg in ((1, 'p'), (2, 'm')):
            t = out[3 * i + j].split()
            if len(t) == 3:
                sigs.append((dg, k, pk, m, (int(t[0]), int(t[1])), int(t[2])))
    return sigs


def vline(dg, pk, m, R8, S):
    return 'verify%s %d %d %d %d %d %d' % (dg, pk[0], pk[1], m, R8[0], R8[1], S)


def gen_C02_phase2(rng, tier):
    out = []
    for (dg, k, pk, m, R8, S) in honest_sigs(rng, tier, 6 if tier == 'quick' else 60):
        out.append((vline(dg, pk, m, R8, S), 'verify-honest/' + dg))
        comp = M.compress(R8) + S.to_bytes(32, 'little')
        out.append(('sigdecompc ' + M.hexb(comp), 'compress-decompress-roundtrip'))
        out.append(('sigcomp %d %d %d' % (R8[0], R8[1], S), 'compress'))
    return out


def gen_C03(rng, tier):
    out = []
    _done = set()
    sm = M.small_order_points()
    sigs = honest_sigs(rng, tier, 2 if tier == 'quick' else 12)
    other = {'p': 'm', 'm': 'p'}
    for (dg, k, pk, m, R8, S) in sigs:
        out.append((vline(dg, pk, m, R8, S), 'honest'))
        out.append((vline(other[dg], pk, m, R8, S), 'swapped-digest'))
        comp = bytearray(M.compress(R8) + S.to_bytes(32, 'little'))
        nbits = 512 if tier == 'thorough' else 0
        flips = list(range(512)) if tier == 'thorough' else sorted(rng.sample(range(512), 40) + [0, 254, 255, 256, 511, 503, 504])
        for bit in flips:
            c2 = bytearray(comp)
            c2[bit // 8] ^= 1 << (bit % 8)
            # decode through the implementation's own decoder would need a second phase; decode here
            y = int.from_bytes(c2[:32], 'little')
            sgn = bool(y >> 255)
            P = M.point_from_y(y & (2**255 - 1), sgn) if (y & (2**255 - 1)) < M.Q else None
            S2 = int.from_bytes(c2[32:], 'little')
            out.append(('sigdecompc ' + M.hexb(bytes(c2)), 'bitflip/decode'))
            if P is not None and not (sgn and P[0] == 0):
                out.append((vline(dg, pk, m, P, S2), 'bitflip/sig'))
        for bit in (range(254) if tier == 'thorough' else rng.sample(range(254), 12)):
            m2 = m ^ (1 << bit)
            out.append((vline(dg, pk, m2, R8, S), 'bitflip/msg' + ('-out-of-field' if m2 >= M.Q else '')))
        pkc = bytearray(M.compress(pk))
        for bit in (range(256) if tier == 'thorough' else rng.sample(range(256), 16)):
            c2 = bytearray(pkc)
            c2[bit // 8] ^= 1 << (bit % 8)
            y = int.from_bytes(c2, 'little')
            sgn = bool(y >> 255)
            P = M.point_from_y(y & (2**255 - 1), sgn) if (y & (2**255 - 1)) < M.Q else None
            if P is not None:
                out.append((vline(dg, P, m, R8, S), 'bitflip/pubkey'))
        negR = ((-R8[0]) % M.Q, R8[1])
        out.append((vline(dg, pk, m, negR, S), 'negated-R8'))
        out.append((vline(dg, pk, m, R8, (-S) % M.L), 'negated-S'))
        out.append((vline(dg, pk, m, negR, (-S) % M.L), 'negated-both'))
        for T in sm[1:]:
            out.append((vline(dg, pk, m, M.ed_add(R8, T), S), 'R8+small-order'))
            out.append((vline(dg, M.ed_add(pk, T), m, R8, S), 'A+small-order'))
        k2 = gens.rnd_bytes(rng, 32)
        out.append((vline(dg, M.random_point(rng, True), m, R8, S), 'foreign-key'))
        out.append((vline(dg, pk, (m + 1) % M.Q, R8, S), 'foreign-msg'))
        out.append((vline(dg, pk, M.Q + m, R8, S), 'msg+q'))
        out.append((vline(dg, pk, m - M.Q, R8, S), 'msg-q'))
        out.append((vline(dg, pk, m, (R8[0] + M.Q, R8[1]), S), 'noncanonical-R8x'))
        out.append((vline(dg, pk, m, (R8[0], R8[1] + M.Q), S), 'noncanonical-R8y'))
        out.append((vline(dg, pk, m, (R8[0] - M.Q, R8[1]), S), 'noncanonical-R8x'))
        out.append((vline(dg, (pk[0] + M.Q, pk[1]), m, R8, S), 'noncanonical-Ax'))
        out.append((vline(dg, (pk[0], pk[1] + M.Q), m, R8, S), 'noncanonical-Ay'))
        out.append((vline(dg, ((-pk[0]) % M.Q, pk[1]), m, R8, S), 'negated-A'))
        out.append((vline(dg, R8, m, pk, S), 'A-and-R8-swapped'))
        for S2 in (0, 1, M.L - 1, (S + 1) % M.L, (S - 1) % M.L, rng.randrange(M.L)):
            out.append((vline(dg, pk, m, R8, S2), 'altered-S'))
        # keys and nonce points with a small-order component: tuples that SATISFY the
        # verification equation (and near misses), built from the specification
        for T in sm[1:] if tier == 'thorough' else rng.sample(sm[1:], 3):
            sk, rr = rng.randrange(1, M.L), rng.randrange(1, M.L)
            A2 = M.ed_add(M.ed_mul(sk, M.B8), T)
            for T2 in ((0, 1), rng.choice(sm[1:])):
                R2 = M.ed_add(M.ed_mul(rr, M.B8), T2)
                v = [R2[0], R2[1], A2[0], A2[1], m]
                hm = ORC.poseidon_ex(v, 0, 1)[0] if dg == 'p' else ORC.mimc_hash(v, None)
                S2 = (rr + 8 * hm * sk) % M.L
                out.append((vline(dg, A2, m, R2, S2), 'mixed-order-key/' + ('equation-holds' if T2 == (0, 1) else 'R8-has-small-component')))
                R3 = M.ed_add(M.ed_mul(rr, M.B8), M.ed_mul((-((8 * hm) % M.L)) % 8, T))
                out.append((vline(dg, A2, m, R3, S2), 'mixed-order-key/shifted-R8'))
        # exhaustive small grid: keys and nonce points of small order, S in {0, 1}
        if dg + 'grid' not in _done:
            _done.add(dg + 'grid')
            for Asm in sm:
                for Rsm in sm:
                    for S0 in (0, 1):
                        out.append((vline(dg, Asm, m, Rsm, S0), 'small-order-grid'))
        # scalars of very different lengths: a digest with many leading zero bits next to a
        # full-length S (double-scalar evaluation orders must not depend on which is longer)
        if dg + 'short' not in _done:
            _done.add(dg + 'short')
            sk, rr = rng.randrange(1, M.L), rng.randrange(1, M.L)
            A2, R2 = M.ed_mul(sk, M.B8), M.ed_mul(rr, M.B8)
            found = 0
            for trial in range(4000):
                m3 = rng.randrange(M.Q)
                v = [R2[0], R2[1], A2[0], A2[1], m3]
                hm = ORC.poseidon_ex(v, 0, 1)[0] if dg == 'p' else ORC.mimc_hash(v, None)
                if hm.bit_length() > 246:
                    continue
                S3 = (rr + 8 * hm * sk) % M.L
                out.append((vline(dg, A2, m3, R2, S3), 'verify-honest/short-digest'))
                for bit in (S3.bit_length() - 1, 250, 249, 248, 247, hm.bit_length() + 3, hm.bit_length() + 4):
                    S4 = S3 ^ (1 << bit)
                    if 0 <= S4 < M.L:
                        out.append((vline(dg, A2, m3, R2, S4), 'short-digest/high-bit-of-S-flipped'))
                found += 1
                if found >= (2 if tier == 'quick' else 6):
                    break
        # off-curve / random group elements
        out.append((vline(dg, pk, m, (R8[0], (R8[1] + 1) % M.Q), S), 'R8-off-curve'))
        out.append((vline(dg, (0, 1), m, R8, S), 'A=identity'))
        out.append((vline(dg, pk, m, (0, 1), S), 'R8=identity'))
    return out


def gen_C14(rng, tier):
    out = []
    sm = M.small_order_points()
    for (dg, k, pk, m, R8, S) in honest_sigs(rng, tier, 4 if tier == 'quick' else 40):
        out.append((vline(dg, pk, m, R8, S), 'honest'))
        kmax = (2**256 - 1 - S) // M.L
        for kk in range(1, kmax + 1):
            out.append((vline(dg, pk, m, R8, S + kk * M.L), 'S+k*l<2^256'))
        out.append((vline(dg, pk, m, R8, S + (kmax + 1) * M.L), 'S+k*l>=2^256'))
        out.append((vline(dg, pk, m, R8, S + M.L * 2**200), 'S+huge*l'))
        for j in range(max(1, S.bit_length() - 2), S.bit_length() + 4):
            out.append((vline(dg, pk, m, R8, S - 2**j), 'S-2^j'))
        # tuples for which S = 0 satisfies the equation (A of small order, R8 = identity):
        # then k*l would satisfy it too if the range guard were missing or off by one
        for Asm in rng.sample(sm, 3) + [(0, 1)]:
            out.append((vline(dg, Asm, m, (0, 1), 0), 'S=0-valid/small-order-key'))
            for kk in (1, 2, 3, kmax):
                out.append((vline(dg, Asm, m, (0, 1), kk * M.L), 'S=k*l/small-order-key'))
            out.append((vline(dg, Asm, m, (0, 1), -M.L), 'S=-l/small-order-key'))
        for v in (-1, -S, -M.L, M.L, M.L + 1, 2**256 - 1, 2**256, S - M.L, S - 8 * M.L):
            out.append((vline(dg, pk, m, R8, v), 'noncanonical-const'))
        # ACCEPTED tuples with S at the top of the range (key of small order: 8*hm*A = O, so
        # S*B8 = R8 is the whole equation): an upper bound that is off by one downwards fails here
        for S9 in (M.L - 1, M.L - 2, 2**250, (M.L + 2**250) // 2, rng.randrange(2**250, M.L)):
            T9 = rng.choice(sm)
            out.append((vline(dg, T9, m, M.ed_mul(S9, M.B8), S9), 'verify-honest/top-of-range-S'))
        for kk in (1, 2, kmax):
            comp = M.compress(R8) + ((S + kk * M.L) % 2**256).to_bytes(32, 'little')
            out.append(('sigdecompc ' + M.hexb(comp), 'decode-noncanonical-S'))
    return out


def history_lines(rng, tier):
    """C16/C17: histories mixing every family of operation, failing and huge calls included."""
    pool = []
    for g in (gens.gen_C20, gens.gen_C15, gens.gen_C04, gens.gen_C13, gens.gen_C06, gens.gen_C19, gens.gen_C01, gens.gen_C07,
              gens.gen_C10, gens.gen_C08, gens.gen_C05, gens.gen_C09, gens.gen_C11, gens.gen_C18, gens.gen_C12, gens.gen_C02):
        cs = g(rng, 'quick')
        rng.shuffle(cs)
        pool.append(cs)
    sigl = []
    for (dg, k, pk, m, R8, S) in honest_sigs(rng, 'quick', 3):
        comp = M.compress(R8) + S.to_bytes(32, 'little')
        sigl += [(vline(dg, pk, m, R8, S), 'verify-honest/history'), ('sigdecompc ' + M.hexb(comp), 'sigdecompc/honest'),
                 ('sigdecomp ' + M.hexb(comp), 'sigdecomp/honest'), ('pkdecomp ' + M.hexb(M.compress(pk)), 'pkdecomp/honest'),
                 (('signp %s %d' if dg == 'p' else 'signm %s %d') % (M.hexb(k), m), 'sign/history'), ('public ' + M.hexb(k), 'public/history')]
    pool.append(sigl)
    gl = gens.gen_C16_globals(rng, tier)
    rng.shuffle(gl)
    pool.append(gl)
    pool.append(gl)
    n_hist = 12 if tier == 'quick' else 120
    hist = []
    for h in range(n_hist):
        ln = rng.randrange(10, 60)
        cs = [rng.choice(rng.choice(pool)) for _ in range(ln)]
        hist.append(cs)
    hist.append(list(gl))
    # one representative of EVERY class of every generator (rare branches such as the degenerate
    # projective triple or an all-zero batch would otherwise be drawn only now and then)
    strat = []
    for cs in pool[:-2]:    # every generator and the honest-signature lines
        seen = {}
        for c in cs:
            seen.setdefault(c[1], c)
        strat += list(seen.values())
    rng.shuffle(strat)
    hist.append(strat)
    return hist


# ------------------------------------------------------------------ registry
P386 = ('C01', 'C04', 'C05', 'C08', 'C09', 'C10', 'C11', 'C18')   # also run on the GOARCH=386 build (portable ff code through the public API)

def volume_search(pid, seed, tier):
    """High-volume differential pass for the hash properties, used only after a proof obligation or
    the correspondence broke without a failing input: uniformly random and small-valued inputs
    (faults that hit about one input in 10^5 -- a dropped carry in a lazily reduced accumulator --
    are out of reach of structured boundary inputs), sharded over all cores.  A search, not a proof."""
    per = {'C10': 20000, 'C01': 700, 'C08': 2500}.get(pid)
    if per is None:
        return None
    if tier != 'quick':
        per *= 3
    fast = None
    if pid == 'C10':
        # candidate finder: tools/goldfast evaluates the textbook permutation of Spec/GoldRef.v on
        # uint64 (70 us per hash against 5 ms for the extracted model); it is not trusted -- a
        # candidate counts only if the extracted model disagrees with the implementation on it
        gf = BIN + '/goldfast'
        if not os.path.exists(gf) or newer(V + '/tools/goldfast/main.go', gf):
            sh('go build -o %s .' % gf, cwd=V + '/tools/goldfast', env=GOENV, timeout=600)
        if os.path.exists(gf):
            fast = '%s %s/Spec/GoldRef.v' % (gf, COQ)
            per = 150000 if tier == 'quick' else 600000
    shards = max(1, min(16, os.cpu_count() or 1))
    t0 = time.time()
    os.makedirs(WORK, exist_ok=True)
    procs = []
    for k in range(shards):
        r = random.Random(seed * 1000003 + 7919 * k + 17)
        lines = []
        for i in range(per):
            small = (i % 2 == 0)
            if pid == 'C10':
                v = [r.randrange(1000) if small else r.randrange(M.PG) for _ in range(12)]
                lines.append('gold ' + M.lst(v))
            elif pid == 'C01':
                n = r.randrange(1, 17)
                v = [r.randrange(1000) if small else r.randrange(M.Q) for _ in range(n)]
                lines.append('poseidon 0 1 ' + M.lst(v))
            else:
                n = r.randrange(1, 5)
                v = [r.randrange(1000) if small else r.randrange(M.Q) for _ in range(n)]
                lines.append('mimchash nil ' + M.lst(v))
        path = '%s/%s_vol%d.cases' % (WORK, pid, k)
        open(path, 'w').write('\n'.join(lines) + '\n')
        pi = subprocess.Popen('%s/harness -out %s.out %s' % (BIN, path, path), shell=True, stdout=subprocess.DEVNULL, stderr=subprocess.DEVNULL)
        if fast:
            pm = subprocess.Popen('%s %s %s.mod' % (fast, path, path), shell=True, stdout=subprocess.DEVNULL, stderr=subprocess.DEVNULL)
        else:
            pm = subprocess.Popen('%s/driver %s %s > %s.mod' % (BIN, TABLES, path, path), shell=True, stderr=subprocess.DEVNULL)
        procs.append((path, lines, pi, pm))
    hit = None
    total = 0
    for path, lines, pi, pm in procs:
        try:
            pi.wait(timeout=1500)
            pm.wait(timeout=1500)
        except subprocess.TimeoutExpired:
            pi.kill()
            pm.kill()
            continue
        try:
            a = open(path + '.out').read().split('\n')
            m = open(path + '.mod').read().split('\n')
        except OSError:
            continue
        n = min(len(lines), len(a), len(m))
        total += n
        if hit is None:
            cand = [i for i in range(n) if a[i] != m[i] and m[i] != '']
            if fast and cand:
                # confirm the candidates on the extracted Coq model
                cl = [lines[i] for i in cand[:20]]
                _, mo, _ = run_model(cl, pid + '_volconfirm')
                for k_, i in enumerate(cand[:20]):
                    if k_ < len(mo) and mo[k_] != a[i]:
                        hit = (i, lines[i], a[i], mo[k_])
                        break
            elif cand:
                i = cand[0]
                hit = (i, lines[i], a[i], m[i])
        for suf in ('', '.out', '.mod'):
            try:
                os.remove(path + suf)
            except OSError:
                pass
    return dict(hit=hit, stats=dict(lines=total, shards=shards, wall_s=time.time() - t0, reference=('tools/goldfast (candidates confirmed on the extracted model)' if fast else 'extracted model')))


SIMPLE = {
    'C01': gens.gen_C01, 'C04': gens.gen_C04, 'C05': gens.gen_C05, 'C06': gens.gen_C06, 'C07': gens.gen_C07,
    'C08': gens.gen_C08, 'C09': gens.gen_C09, 'C10': gens.gen_C10, 'C11': gens.gen_C11, 'C12': gens.gen_C12,
    'C13': gens.gen_C13, 'C15': gens.gen_C15, 'C18': gens.gen_C18, 'C19': gens.gen_C19, 'C20': gens.gen_C20,
}


def load_known():
    kf = V + '/known_findings.jsonl'
    known = []
    if os.path.exists(kf):
        for ln in open(kf):
            ln = ln.strip()
            if ln:
                known.append(json.loads(ln))
    return known


def main():
    pid = sys.argv[1]
    tier = os.environ.get('VERIF_TIER', 'quick')
    replay = None
    a = sys.argv[2:]
    while a:
        if a[0] == '--tier':
            tier = a[1]
            a = a[2:]
        elif a[0] == '--replay':
            replay = a[1]
            a = a[2:]
        else:
            a = a[1:]
    seed = int(os.environ.get('VERIF_SEED', '20260101'))
    rng = random.Random(seed * 1000003 + int(pid[1:]))
    t0 = time.time()
    violations = []     # (description, replay dict): concrete failing inputs
    harmless = []       # correspondence broken although the property predicate still holds
    notes = []

    try:
        b = ensure_built(need_race=(pid == 'C17'), need_386=(pid in P386))
    except BuildError as e:
        b = None
        violations.append(('the harness does not build against the current /repo', dict(kind='build', log=str(e))))
    hyg = hygiene()
    if b is not None and any('LitsAdvisory' in f for f in b.failed_files):
        notes.append('advisory: the small-literal occurrence lists of some limb routine changed (Proofs/Ff(g)LitsAdvisory.v); the routines themselves are re-translated and proved equal to the model, so this is a note, not an obligation')
    if os.environ.get('VERIF_SUBSEARCH'):
        # a search round of a parent run that has already judged the proofs: correspondence only
        cp = dict(ok=True, theorems=[], axioms=[], log='', file='Properties/%s.v' % pid)
    else:
        cp = coq_property(pid)
    proof_ok = cp['ok'] and not hyg
    if b is not None:
        # a translator that refuses the current source leaves its generated file stale:
        # every property whose theorem file depends on that output is no longer shown to hold
        dep = dict(constgen=None, asmgen=('FfAsm', 'Asm'), limbgen=('FfRoutines', 'FfgRoutines', 'FfGlue', 'FfgGlue', 'FfMem', 'FfgMem'), bigintgen=('BigIntRoutines', 'BigIntLoops', 'BigIntEq'), effgen=('EffectsIR', 'Effects'))
        closure = property_closure(pid)
        for ff_ in b.failed_files:
            if ff_.startswith('translator:'):
                tname = ff_.split(':')[1]
                keys = dep.get(tname)
                if keys is None or any(k in closure for k in keys):
                    proof_ok = False
                    notes.append('translator %s failed on the current source (its output is stale)' % tname)
    bad_ax = [x for x in cp['axioms'] if not x.startswith(ALLOWED_AXIOM_PREFIXES)]
    if bad_ax:
        proof_ok = False
        notes.append('unexpected axioms: %s' % bad_ax)
    if hyg:
        notes.append('hygiene: ' + '; '.join(hyg[:5]))

    # ---- correspondence
    cases, impl, model, mism = [], [], [], []
    extra = {}
    if b is not None and not os.path.exists(BIN + '/driver'):
        # without the extracted model there is no correspondence check: that is never a pass
        violations.append(('the extracted model (OCaml driver) does not build on this tree: the correspondence check cannot run',
                           dict(kind='build', log='\n'.join(n for n in b.notes if 'driver' in n)[-3000:])))
    if b is not None and os.path.exists(BIN + '/driver'):
        if replay:
            rp = json.load(open(replay))
            cases = [(l, 'replay') for l in rp.get('lines', [])]
        elif pid in SIMPLE:
            cases = SIMPLE[pid](rng, tier)
            if tier == 'thorough':
                # plus four further seeds of the quick-size stream (different boundary mixes)
                for k in range(1, 5):
                    cases += SIMPLE[pid](random.Random(seed * 7919 + 104729 * k + int(pid[1:])), 'quick')
        elif pid == 'C02':
            cases = gens.gen_C02(rng, tier) + gen_C02_phase2(rng, tier)
        elif pid == 'C03':
            cases = gen_C03(rng, tier)
        elif pid == 'C14':
            cases = gen_C14(rng, tier)
        elif pid in ('C16', 'C17'):
            hist = history_lines(rng, tier)
            cases = [c for h in hist for c in h]
            if pid == 'C17':
                # work that a lazily initialised / memoised implementation would build on first use:
                # the concurrent pass runs BEFORE any sequential call ('!': implementation + oracle only)
                first = [('!mimc7g %d %d %d' % (rng.randrange(M.Q), rng.randrange(M.Q), n), 'first-use/mimc7-rounds') for n in range(95, 700, 11)]
                first += [('!mimchashg %d [%d,%d] %d' % (rng.randrange(M.Q), rng.randrange(M.Q), rng.randrange(M.Q), n), 'first-use/mimc7-rounds') for n in range(100, 400, 37)]
                first += [('mulB8 %d' % rng.randrange(M.L), 'first-use/B8') for _ in range(8)]
                first += [('poseidon 0 1 %s' % M.lst([rng.randrange(M.Q) for _ in range(n)]), 'first-use/poseidon-width') for n in range(1, 17)]
                cases = first + cases
            extra['histories'] = len(hist)
        if not cases and not replay:
            # a check that explored nothing must never look like a pass
            print('INTERNAL ERROR: no cases were generated for %s' % pid)
            sys.exit(2)
        lines = [c[0] for c in cases]
        flags = '-purity'
        exe = 'harness'
        if pid == 'C17':
            exe = 'harness_race'
            flags = '-conc %d -rounds %d' % ((16, 1) if tier == 'quick' else (64, 2))
        rc_i, impl, dt_i = run_cases(lines, pid, exe=exe, flags=flags)
        rc_m, model, dt_m = run_model(lines, pid)
        extra['impl_wall_s'] = round(dt_i, 2)
        extra['model_wall_s'] = round(dt_m, 2)
        project = None
        FL = r' (MUTATED:\S+|REPEAT-DIFF|RESULT-CHANGED|SCRIBBLE-GLOBALS|SCRIBBLE-DIFF)'
        if pid != 'C17':
            # purity flags (argument / package state modified, result changed by a later call,
            # repeated call differs) are violations whatever the property under check
            impl_clean = [re.sub(FL, '', x) for x in impl]
            mism = compare(cases, impl_clean, model, project)
            for i, x in enumerate(impl[:len(cases)]):
                if re.search(FL, x):
                    violations.append(('operation is not pure: %s -> %s' % (lines[i][:150], x[-60:]), dict(kind='purity', lines=lines[max(0, i - 5):i + 1], output=x)))
            impl = impl_clean
        elif pid == 'C17':
            mism = compare(cases, impl, model, project)
            tail = '\n'.join(impl[len(cases):])
            if 'CONC-DIFF' in tail:
                violations.append(('result differs under concurrency', dict(kind='conc', lines=lines, output=tail[:4000])))
            if 'DATA RACE' in LAST_LOG[0] or rc_i == 66:
                violations.append(('race detector report', dict(kind='race', lines=lines[:200], output=LAST_LOG[0][:6000])))
            if 'CONC-DONE' not in tail:
                violations.append(('concurrent run did not complete (rc=%d)' % rc_i, dict(kind='conc', lines=lines, output=tail[-3000:])))
        if rc_i not in (0, 66) and pid != 'C17':
            notes.append('harness exit code %d' % rc_i)
            violations.append(('harness crashed (rc=%d)' % rc_i, dict(kind='crash', lines=lines[:50], output='\n'.join(impl)[-3000:])))
        # additional back-ends for the field/hash properties
        if pid in ('C01', 'C11') and not replay:
            rc2, impl2, _ = run_cases(lines, pid + '_noadx', flags='-noadx')
            m2 = compare(cases, impl2, model, project)
            extra['noadx_mismatches'] = len(m2)
            mism += m2
        if os.path.exists(BIN + '/harness_386') and pid in P386 and not replay:
            rc3, impl3, _ = run_cases(lines, pid + '_386', exe='harness_386', flags='-purity')
            if rc3 == 0 and len(impl3) >= len(cases):
                impl3 = [re.sub(FL, '', x) for x in impl3]
                m3 = compare(cases, impl3, model, project)
                extra['portable386_mismatches'] = len(m3)
                extra['portable386_cases'] = len(cases)
                mism += m3
            else:
                extra['portable386_skipped'] = 'binary did not run here (rc=%d)' % rc3
        if pid != 'C17' and not replay and lines:
            # the property's own operations under concurrency: 8 goroutines over a sample of the
            # same lines (first concurrently on a cold process, then against the sequential
            # results); a value that depends on the schedule violates the property as stated
            # "for all inputs" as well as C17
            rs = random.Random(seed + 11)
            sub = lines if len(lines) <= 300 else [lines[i] for i in sorted(rs.sample(range(len(lines)), 300))]
            rc4, impl4, dt4 = run_cases(sub, pid + '_conc', exe='harness', flags='-conc 8 -rounds 1')
            tail4 = '\n'.join(impl4[len(sub):])
            extra['conc_cases'] = len(sub)
            extra['conc_wall_s'] = round(dt4, 2)
            if 'CONC-DIFF' in tail4:
                violations.append(('result differs under concurrency (8 goroutines over this property\'s own cases)', dict(kind='conc', lines=sub, output=tail4[:4000])))
            elif 'CONC-DONE' not in tail4:
                violations.append(('concurrent run did not complete (rc=%d)' % rc4, dict(kind='conc', lines=sub, output=tail4[-3000:])))
        if not replay:
            ic = incoq_sample(pid, cases, model, random.Random(seed + 7), 6 if tier == 'quick' else 40)
            extra.update(ic)
            if ic.get('incoq_cases') and not ic.get('incoq_ok'):
                harmless.append(('extracted OCaml model and in-Coq evaluation of the same model disagree (or the sample did not evaluate): %s' % ic.get('incoq_failed_line', ''),
                                 dict(kind='extraction', log=ic.get('incoq_log', ''))))
        # property predicates evaluated on the implementation's own outputs
        violations += predicates(pid, cases, impl)
        if pid == 'C05':
            # "identical on every build configuration": same call on the three back-ends
            byarg = {}
            for i, (line, cls) in enumerate(cases):
                t_ = line.lstrip('!').split()
                if len(t_) > 2 and t_[0] == 'ff' and t_[2] == 'butterflyalias' and i < len(impl):
                    byarg.setdefault(t_[3], {})[t_[1]] = impl[i]
            for arg, d in byarg.items():
                if len(set(d.values())) > 1:
                    violations.append(('build configurations disagree on Butterfly(&x, &x) (butterflyalias): %s' % d,
                                       dict(kind='config-divergence', lines=['ff %s butterflyalias %s' % (be_, arg) for be_ in d], impl=d)))
                    break
        # third voice: the specification evaluated independently (gen/oracle.py)
        orc_cov, orc_bad = 0, []
        impl_cmp = [re.sub(r' (MUTATED:\S+|REPEAT-DIFF|RESULT-CHANGED|SCRIBBLE-GLOBALS|SCRIBBLE-DIFF)', '', x) for x in impl]
        for i, (line, cls) in enumerate(cases):
            if i >= len(impl_cmp):
                break
            e = ORC.oracle(line.lstrip('!'))
            if e is not None:
                orc_cov += 1
                if e != impl_cmp[i]:
                    orc_bad.append((i, line, impl_cmp[i], e))
        extra['oracle_covered'] = orc_cov
        extra['oracle_disagreements'] = len(orc_bad)
        for (i, line, a_, e_) in orc_bad[:10]:
            violations.append(('implementation differs from the specification value on: %s' % line[:200], dict(kind='spec-mismatch', lines=[line], impl=a_, spec=e_)))
        bad_idx = set(i for (i, _, _, _) in orc_bad)
        for (i, line, a_, m_) in mism[:20]:
            if i in bad_idx:
                continue
            if ORC.oracle(line) == a_:
                harmless.append(('model/implementation correspondence broken on %s (implementation still equals the specification value)' % line[:120],
                                 dict(kind='correspondence-only', lines=[line], impl=a_, model=m_)))
            else:
                violations.append(('implementation and proven model disagree on: %s' % line[:200], dict(kind='mismatch', lines=[line], impl=a_, model=m_)))
    else:
        notes.append('driver not available: correspondence skipped')
        if b is not None:
            notes += b.notes

    # ---- independent re-check of the compiled proofs (thorough tier): coqchk -o
    if tier == 'thorough' and cp['ok'] and not replay and not os.environ.get('VERIF_SUBSEARCH'):
        import hashlib
        vo = '%s/Properties/%s.vo' % (COQ, pid)
        try:
            hsh = hashlib.sha256(open(vo, 'rb').read()).hexdigest()[:16]
        except OSError:
            hsh = 'none'
        os.makedirs(V + '/_build/coqchk', exist_ok=True)
        cache = '%s/_build/coqchk/%s_%s.log' % (V, pid, hsh)
        if not os.path.exists(cache):
            rc, out, dt = sh('timeout 5400 coqchk -silent -o -Q . Verif Verif.Properties.%s' % pid, cwd=COQ, timeout=5500)
            open(cache, 'w').write(out + '\nrc=%d wall=%.0fs\n' % (rc, dt))
        out = open(cache).read()
        extra['coqchk'] = dict(ok=('rc=0' in out), summary=out[out.find('CONTEXT SUMMARY'):][:1500] if 'CONTEXT SUMMARY' in out else out[-800:])
        if 'rc=124' in out:
            notes.append('coqchk timed out (it re-checks the vm_compute casts of the Grain / symbolic-checker obligations with its lazy conversion); the coqc kernel check stands')
        elif 'rc=0' not in out:
            proof_ok = False
            notes.append('coqchk did not accept the compiled proofs')

    # ---- a proof or the correspondence broke and this run's cases show no failing input:
    # search harder (thorough-size streams under further seeds) before reporting it as such
    if (not proof_ok or harmless) and not violations and b is not None and not replay \
            and not os.environ.get('VERIF_SUBSEARCH') and not os.environ.get('VERIF_NO_ESCALATE') and os.path.exists(BIN + '/driver'):
        budget = 300 if tier == 'quick' else 1500
        t_s = time.time()
        tried = 0
        vol = volume_search(pid, seed, tier)
        if vol is not None:
            extra['volume_search'] = vol['stats']
            notes.append('volume search: %(lines)d random hash inputs on %(shards)d cores in %(wall_s).0f s' % vol['stats'])
            if vol['hit']:
                i_, line_, a_, m_ = vol['hit']
                violations.append(('implementation and model disagree on %s: impl %s, model %s [found by the volume search]' % (line_[:150], a_[:80], m_[:80]),
                                   dict(kind='case', lines=[line_], impl=a_, model=m_)))
        for k in range(1, 61):
            if violations:
                break
            if time.time() - t_s > budget:
                break
            env = dict(os.environ, VERIF_SUBSEARCH='1', VERIF_SEED=str(seed * 31 + 1000003 * k))
            rc_s, out_s, _ = sh('python3 %s/check.py %s --tier thorough' % (V, pid), env=env, timeout=budget + 600)
            tried += 1
            hits = [l for l in out_s.splitlines() if l.startswith('VIOLATION') and 'no-failing-input-found' not in l]
            if hits:
                m_ = re.search(r'replay=(\S+)', hits[0])
                try:
                    rp_ = json.load(open(m_.group(1)))
                except (OSError, ValueError, AttributeError):
                    rp_ = dict(kind='search', lines=[])
                desc_ = re.sub(r'^VIOLATION property=\S+ replay=\S+ ', '', hits[0])
                violations.append((desc_ + ' [found by the escalated search, seed %s]' % env['VERIF_SEED'], rp_))
                break
        extra['escalated_search_rounds'] = tried
        notes.append('escalated search: %d thorough-size round(s) under further seeds' % tried)

    # ---- verdict
    known = load_known()
    status = 0
    printed = []
    if not proof_ok:
        why = 'theorem file %s does not check' % cp['file'] if not cp['ok'] else ('hygiene/axiom gate: ' + '; '.join(notes))
        if not violations:
            rp = dict(property=pid, kind='proof-broken', theorem_file=cp['file'], failed_files=(b.failed_files if b else []),
                      log=cp['log'][-3000:], note='no failing input found by the correspondence/search on this run')
            path = write_replay(pid, rp, 'proof')
            printed.append('VIOLATION property=%s replay=%s %s no-failing-input-found' % (pid, path, why.replace('\n', ' ')[:200]))
            status = 1
    if not violations and harmless:
        desc, rp = harmless[0]
        rp = dict(rp, property=pid, description=desc, seed=seed, tier=tier, note='correspondence no longer checks; no input found on which the property itself fails')
        path = write_replay(pid, rp, 'corr')
        printed.append('VIOLATION property=%s replay=%s %s no-failing-input-found' % (pid, path, desc[:200]))
        status = 1
    for desc, rp in violations[:10]:
        kn = [k for k in known if k.get('status') == 'known' and k.get('property') == pid and k.get('match') and k['match'] in json.dumps(rp)]
        if kn:
            printed.append('KNOWN-FINDING: property=%s %s' % (pid, kn[0].get('what', desc)))
            continue
        rp = dict(rp, property=pid, description=desc, seed=seed, tier=tier)
        path = write_replay(pid, rp, 'case')
        printed.append('VIOLATION property=%s replay=%s %s' % (pid, path, desc.replace('\n', ' ')[:300]))
        status = 1
    for ln in printed:
        print(ln)

    # ---- evidence
    nth = len(cp['theorems'])
    dist = distribution(cases)
    ev = dict(
        property_id=pid, tier=tier, seed=seed, level='proof',
        coverage=dict(
            obligations=max(nth, 1), discharged=(nth if cp['ok'] else 0) if nth else 0,
            checker_cmd='cd /verif/coq && make -j16 (full .vo build) && coqc -Q . Verif %s ; python3 /verif/check.py %s --tier %s' % (cp['file'], pid, tier),
            trusted_base=TRUSTED_BASE + ['axioms reported by Print Assumptions for %s: %s' % (pid, cp['axioms'] or 'none (Closed under the global context x%d)' % cp['closed'])],
            theorems=cp['theorems'], proof_file=cp['file'], proof_checked=bool(cp['ok']), hygiene_violations=hyg,
            make_ok=bool(b and b.make_ok), make_failed_files=(b.failed_files if b else []),
            evaluations=len(cases), distinct_nontrivial=len(set(c[0] for c in cases)),
            rule='cases generated by gen/gens.py (structured boundary classes + random, all from VERIF_SEED); every case is run by the Go implementation (harness, -tags verif) and by the OCaml extraction of the Coq model and compared; distinct = distinct operation lines',
            class_distribution=dist, mismatches=len(mism),
            samples=[c[0][:300] for c in cases[:3]] + ([cases[len(cases) // 2][0][:300]] if cases else []) or ['(no cases)'],
            **extra),
        assumptions=TRUSTED_BASE, wall_s=round(time.time() - t0, 2), violations=sum(1 for p in printed if p.startswith('VIOLATION')))
    if notes:
        ev['coverage']['notes'] = notes
    if os.environ.get('VERIF_SUBSEARCH'):
        print('%s: sub-search seed=%s status=%d' % (pid, seed, status))
        sys.exit(status)
    os.makedirs(V + '/evidence', exist_ok=True)
    tmp = V + '/evidence/%s.json.tmp' % pid
    with open(tmp, 'w') as f:
        json.dump(ev, f, indent=1)
    os.replace(tmp, V + '/evidence/%s.json' % pid)
    print('%s: tier=%s cases=%d mismatches=%d proof_checked=%s theorems=%d axioms=%s wall=%.1fs status=%d' %
          (pid, tier, len(cases), len(mism), cp['ok'], nth, cp['axioms'] or 'none', time.time() - t0, status))
    sys.exit(status)


_replay_n = [0]


def write_replay(pid, rp, kind):
    os.makedirs(V + '/replays', exist_ok=True)
    _replay_n[0] += 1
    path = '%s/replays/%s_%s_%d_%d.json' % (V, pid, kind, int(time.time()) % 10**8, _replay_n[0])
    with open(path, 'w') as f:
        json.dump(rp, f, indent=1)
    return path



# ------------------------------------------------------------------ in-Coq re-evaluation of a sample
# Guards the extraction step (ExtrOcamlBasic + ExtrOcamlZBigInt, zarith, the OCaml driver):
# a few of the cases of each run are evaluated by vm_compute INSIDE Coq on the same model
# definitions and must reproduce what the extracted driver printed.
def _zl(b):
    return '[' + '; '.join(str(x) for x in b) + ']'


def _ffel(v):
    m = (1 << 64) - 1
    return '(%d, %d, %d, %d)' % (v & m, (v >> 64) & m, (v >> 128) & m, (v >> 192) & m)


def coq_term(line, out):
    """(term, expected) as Coq source for the supported operations, or None."""
    t = line.split()
    op = t[0]
    a = [ORC.parse(x) for x in t[1:]]

    def pt_or_err(o):
        if o == 'ERR':
            return 'Err'
        if o == 'PANIC':
            return 'Panic'
        x, y = o.split()
        return 'Ok (%s, %s)' % (x, y)
    try:
        if op == 'padd':
            x, y = out.split()
            return ('BabyJub.Affine (BabyJub.Add (BabyJub.Projective (%d, %d)) (BabyJub.Projective (%d, %d)))' % tuple(a), '(%s, %s)' % (x, y))
        if op == 'mul' and 0 <= a[0] < 2 ** 12:
            x, y = out.split()
            return ('BabyJub.Mul %d (%d, %d)' % tuple(a), '(%s, %s)' % (x, y))
        if op == 'incurve':
            return ('BabyJub.InCurve (%d, %d)' % tuple(a), out)
        if op == 'compress':
            return ('BabyJub.Compress (%d, %d)' % tuple(a), _zl(bytes.fromhex(out[1:])))
        if op == 'decompress':
            return ('BabyJub.Decompress %s' % _zl(a[0]), pt_or_err(out))
        if op == 'lebytes':
            return ('Utils.BigIntLEBytes (%d)' % a[0], _zl(bytes.fromhex(out[1:])))
        if op == 'fromle':
            return ('Utils.SetBigIntFromLEBytes %s' % _zl(a[0]), out)
        if op == 'hexdecinto':
            return ('Utils.HexDecodeInto %d %s' % (a[0], _zl(a[1])), 'Err' if out == 'ERR' else 'Ok ' + _zl(bytes.fromhex(out[1:])))
        if op == 'keccak' and len(a) == 1 and a[0] is not None and len(a[0]) < 300:
            return ('KeccakStream.Hash [%s]' % _zl(a[0]), _zl(bytes.fromhex(out[1:])))
        if op == 'blake' and len(a[0]) < 300:
            return ('Blake512.blake512 %s' % _zl(a[0]), _zl(bytes.fromhex(out[1:])))
        if op == 'mimc7':
            return ('Mimc7.MIMC7Hash (%d) (%d)' % tuple(a), out)
        if op == 'gold':
            return ('GoldPoseidon.Hash GoldTables.c GoldTables.s GoldTables.p GoldTables.mcirc GoldTables.mdiag GoldTables.NROUNDSF GoldTables.NROUNDSP GoldTables.mLen %s %s' % (_zl(a[0][:8]), _zl(a[0][8:])),
                    '[' + '; '.join(out.strip('[]').split(',')) + ']')
        if op == 'poseidon' and len(a[2]) <= 2 and out not in ('PANIC',):
            n = len(a[2])
            tabs = '[(PoseidonT2.RP, PoseidonT2.C, PoseidonT2.S, PoseidonT2.M, PoseidonT2.P); (PoseidonT3.RP, PoseidonT3.C, PoseidonT3.S, PoseidonT3.M, PoseidonT3.P)]'
            exp = 'Err' if out == 'ERR' else 'Ok [' + '; '.join(out.strip('[]').split(',')) + ']'
            # only the table of the width in use matters; guards need length tables >= n: pad the list to 16 entries
            return ('Poseidon.HashWithStateEx Params.q PoseidonMeta.NROUNDSF (%s ++ repeat (O, [], [], [], []) 14) %s (%d) (%d)' % (tabs, _zl(a[2]), a[0], a[1]), exp)
        if op == 'ff' and t[2] in ('add', 'sub', 'mul') and int(t[3]) < 3:
            f = {'add': 'addGeneric', 'sub': 'subGeneric', 'mul': 'mulGeneric'}[t[2]]
            return ('FfLimbs.%s %s %s' % (f, _ffel(a[3]), _ffel(a[4])), _ffel(int(out)))
        if op == 'ff' and t[2] in ('neg', 'double', 'square'):
            f = {'neg': 'negGeneric', 'double': 'doubleGeneric', 'square': 'square'}[t[2]]
            return ('FfLimbs.%s %s' % (f, _ffel(a[3])), _ffel(int(out)))
        if op == 'ff' and t[2] in ('halve', 'mulby3', 'mulby5', 'mulby13', 'frommont'):
            f = {'halve': 'halve', 'mulby3': 'mulBy3', 'mulby5': 'mulBy5', 'mulby13': 'mulBy13', 'frommont': 'fromMontGeneric'}[t[2]]
            return ('FfLimbs.%s %s' % (f, _ffel(a[2])), _ffel(int(out)))
        if op == 'ffg' and t[1] in ('add', 'sub', 'mul') and int(t[2]) < 3:
            f = {'add': 'addGeneric', 'sub': 'subGeneric', 'mul': 'mulGeneric'}[t[1]]
            return ('FfgLimbs.%s %d %d' % (f, a[2], a[3]), out)
        if op == 'ffg' and t[1] == 'setuint64':
            return ('FfgLimbs.setUint64 %d' % a[1], out)
        if op == 'ffg' and t[1] == 'inverse':
            return ('FfgLimbs.inverse %d' % a[2], out)
    except (ValueError, IndexError, TypeError):
        return None
    return None


def incoq_sample(pid, cases, model, rng, limit):
    picks, seen = [], {}
    idx = list(range(min(len(cases), len(model))))
    rng.shuffle(idx)
    for i in idx:
        line = cases[i][0]
        if model[i].startswith(('DRIVER', 'UNKNOWN', 'OUTOFFUEL')):
            continue
        key = ' '.join(line.split()[:3 if line.startswith('ff') else 1])
        if seen.get(key, 0) >= 2:
            continue
        ct = coq_term(line, model[i])
        if ct:
            seen[key] = seen.get(key, 0) + 1
            picks.append((line, ct))
        if len(picks) >= limit:
            break
    if not picks:
        return dict(incoq_cases=0)
    src = ['From Coq Require Import ZArith List Bool.', 'Import ListNotations.',
           'From Verif Require Import Lib.Params Lib.Octets Model.Outcome Model.Utils Model.BabyJub Model.Poseidon Model.GoldPoseidon',
           '  Model.Mimc7 Model.FfLimbs Model.FfgLimbs Model.KeccakStream Spec.Blake512.',
           'From Verif Require Gen.PoseidonT2 Gen.PoseidonT3 Gen.PoseidonMeta Gen.GoldTables.', 'Local Open Scope Z_scope.']
    for n, (line, (term, exp)) in enumerate(picks):
        src.append('(* %s *)' % line[:150].replace('*)', '* )'))
        src.append('Example e%d : (%s) = (%s).\nProof. vm_compute. reflexivity. Qed.' % (n, term, exp))
    path = '%s/incoq_%s.v' % (WORK, pid)
    open(path, 'w').write('\n'.join(src) + '\n')
    rc, out, dt = sh('timeout 600 coqc -Q %s Verif -Q %s VerifWork %s' % (COQ, WORK, path), cwd=WORK, timeout=700)
    res = dict(incoq_cases=len(picks), incoq_ok=(rc == 0), incoq_wall_s=round(dt, 1))
    if rc != 0:
        res['incoq_log'] = out[-1500:]
        m = re.search(r'line (\d+)', out)
        res['incoq_failed_line'] = m.group(0) if m else ''
    return res

# ------------------------------------------------------------------ predicates on implementation outputs
def predicates(pid, cases, impl):
    """Checks stated directly by the property, evaluated on the implementation's
    outputs without the model (they also catch a matching model+impl error)."""
    v = []

    def bad(i, why):
        v.append((why + ': ' + cases[i][0][:160], dict(kind='predicate', lines=[cases[i][0]], impl=impl[i], why=why)))

    for i, (line, cls) in enumerate(cases):
        if i >= len(impl):
            break
        o = impl[i]
        t = line.split()
        op = t[0]
        try:
            if pid == 'C19' and op in ('mulrecv', 'mulalias', 'pset', 'psetalias', 'psetshared', 'decompressrecv', 'sigdecomp', 'mulzerorecv', 'decompresszero') and not o.startswith('ERR') and o != 'PANIC':
                f = o.split()
                h = len(f) // 2
                if f[:h] != f[h:]:
                    bad(i, 'receiver differs from the returned value')
            if pid == 'C06' and op == 'decompress' and o not in ('ERR', 'PANIC'):
                x, y = (int(s) for s in o.split())
                if not (0 <= x < M.Q and 0 <= y < M.Q and M.on_curve((x, y))):
                    bad(i, 'decompressed point is not a canonical curve point')
                elif M.compress((x, y)) != bytes.fromhex(t[1][1:]):
                    bad(i, 'decompressed point does not compress back to the input')
            if pid in ('C03', 'C14') and op.startswith('verify') and cls != 'honest' and not cls.startswith('verify-honest') and not cls.startswith('mixed-order-key') and not cls.startswith('S=0-valid') and cls != 'small-order-grid' and o != 'ERR':
                if pid == 'C14' or cls not in ('altered-S',):
                    bad(i, 'verification did not reject (%s) a %s signature' % (o, cls))
            if pid in ('C02', 'C03', 'C14') and (cls == 'honest' or cls.startswith('verify-honest')) and o != 'ok':
                bad(i, 'honest signature not accepted')
            if pid == 'C04' and op in ('padd', 'mul') and o not in ('PANIC',):
                x, y = (int(s) for s in o.split())
                if not (0 <= x < M.Q and 0 <= y < M.Q and M.on_curve((x, y))):
                    bad(i, 'result is not a canonical curve point')
            if op in ('ff', 'ffg') and ('sqrt' in t[1:4]) and o not in ('PANIC', 'OUTOFFUEL'):
                # Sqrt judged against the definition, not against the model: a returned root squares to
                # the operand; nil only for a non-residue, and then the destination is left as it was
                pp = M.Q if op == 'ff' else M.PG
                rinv = M.inv(M.R256 % M.Q) if op == 'ff' else M.inv(2**64 % M.PG, M.PG)
                k = t.index('sqrt') if 'sqrt' in t else t.index('sqrtalias')
                alias = t[k] == 'sqrtalias'
                xraw = int(t[k + 1]) if alias else int(t[k + 2])
                draw = xraw if alias else int(t[k + 1])
                xv = xraw * rinv % pp
                f = o.split()
                if f[0] == 'nil':
                    if xv == 0 or pow(xv, (pp - 1) // 2, pp) == 1:
                        bad(i, 'Sqrt reports no root for a square')
                    elif int(f[1]) != draw:
                        bad(i, 'Sqrt changed its destination although it reports no root')
                else:
                    zv = int(f[0]) * rinv % pp
                    if not (0 <= int(f[0]) < pp) or zv * zv % pp != xv:
                        bad(i, 'Sqrt returned a value whose square is not the operand')
                    elif f[1] != f[0]:
                        bad(i, 'Sqrt: destination differs from the returned value')
            if pid == 'C07' and o == 'PANIC':
                bad(i, 'entry point panicked')
            if pid == 'C15' and o == 'PANIC':
                bad(i, 'codec panicked')
            if pid in ('C05', 'C09') and op in ('ff', 'ffg') and o not in ('PANIC',) and not o.startswith('['):
                p = M.Q if op == 'ff' else M.PG
                for s in o.split():
                    if not (0 <= int(s) < p):
                        bad(i, 'result limbs are not canonical (< modulus)')
        except (ValueError, IndexError):
            bad(i, 'unparsable output ' + o[:60])
    return v[:20]


if __name__ == '__main__':
    main()

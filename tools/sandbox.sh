#!/bin/bash
# sandbox.sh <dir> : copy /verif (with its build products) and a clean clone of /repo to <dir>/verif and
# <dir>/repo, with the absolute paths rewritten, so that seeded changes (tools/mutant.sh, tools/benign.sh,
# tools/mutants_all.sh) can be exercised THERE while /verif and /repo stay untouched.  Development aid
# only: the registered checks and the committed evidence always come from /verif run against /repo.
set -e
D=${1:?usage: sandbox.sh <dir>}
rm -rf $D; mkdir -p $D
rsync -a --exclude .git /verif/ $D/verif/
git clone -q /repo $D/repo
cd $D/verif
grep -rlE '/verif|/repo' --include='*.py' --include='*.sh' --include='go.mod' --include='*.ml' . 2>/dev/null | grep -v '^./seeded\|^./_build/ocaml' | while read f; do
  sed -i "s#/verif#$D/verif#g; s#\([\"' =]\)/repo#\1$D/repo#g; s#=> /repo#=> $D/repo#" "$f"
done
(cd coq && coq_makefile -f _CoqProject -o Makefile >/dev/null)
echo "sandbox ready: $D"

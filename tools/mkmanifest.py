#!/usr/bin/env python3
"""Write MANIFEST.json from the table below (claimed properties + texts)."""
import json
BASE = "for m in $(cat /w/out/gomods.txt); do MF=$(cd /repo/$m && . /w/out/goenv.sh && gomodflag); (cd /repo/$m && go test $MF -json -vet=off -count=1 -timeout 25m ./...); done"
NOTE = ("Trusted: Coq 8.16.1 kernel + vm_compute; constgen/effgen translators; extraction (ExtrOcamlBasic, ExtrOcamlZBigInt) + OCaml driver; "
        "Go harness and Python generators; math/big, math/bits, encoding/hex, x/crypto/sha3, dchest/blake512, sync.Pool, the Go runtime and the amd64 "
        "assembly are modelled/tied by correspondence only. Axioms per theorem are listed in the evidence file (Print Assumptions).")
CLAIMS = {
 'C04': ('Coq theorems (Properties/C04.v): the projective addition of the code read back in affine form IS the affine twisted-Edwards law for every pair of curve points (complete law: identity, inverses, doubling, small-order points); associativity/commutativity/identity/inverse/closure of that law proved over the prime field (q proved prime by Pocklington certificates); Point.Mul = k-fold addition for every scalar >= 0 of any bit length; Order*P = identity for EVERY curve point (counting argument), Order = 8l, l prime, ord(B8) = l exactly; exhaustive 8x8 small-order table. Model tied to the Go code by regenerated constants and correspondence (impl vs extracted model vs independent Python evaluation) on structured points/scalars.', '6.C04'),
 'C09': ('Coq theorems (Properties/C09.v) on the one-limb line-by-line model of ffg/element.go: every operation returns the canonical representative of the exact result for ALL canonical operands (proved by linear arithmetic over the 64-bit word contracts of math/bits, i.e. including every carry/borrow boundary), inverse/div of zero, exp for every exponent, batch inverse for every list, construction from any uint64. Tie: constants regenerated from source + correspondence on boundary-structured operand pairs with all aliasing patterns.', '6.C09'),
 'C13': ('Coq theorems (Properties/C13.v): InCurve(x,y) = true iff the curve equation holds mod q (all integers); InSubGroup P = true iff on curve and l*P = O (canonical P); subgroup point + non-trivial small-order point is outside; every multiple of B8 inside; (0,0) and the 7 non-trivial small-order points outside. Tie by regenerated constants + correspondence.', '6.C13'),
 'C06': ('Coq theorems (Properties/C06.v) on the value-level model of Compress/Decompress/PointFromSignAndY: round trip for every canonical curve point, exact acceptance set of Decompress (iff), canonical re-encoding, rejection of y>=q and of non-residues, totality; model tied to the Go code by constants regenerated from source (constgen) and by running the extracted model and the implementation on the same structured + malformed inputs.', '6.C06'),
 'C15': ('Coq theorems (Properties/C15.v): all encoders/decoders (LE bytes, hex, signature/public-key compress, MarshalText/UnmarshalText, Scan/Value) are mutually inverse on canonical values, exact acceptance sets (iff) for HexDecodeInto and the Scan methods, never Panic; tie by correspondence on generated texts/bytes/scan sources of every length 0..200 and every Go dynamic type.', '6.C15'),
 'C20': ('Coq theorem: the streaming Keccak sponge as driven by keccak256.Hash equals one-shot Keccak-256 of the concatenation for every list of slices (Properties/C20.v); digest lengths; Keccak-256/BLAKE-512 Gallina specifications validated inside Coq against 54 digests of the Go libraries and against published vectors; third-party digests tied by correspondence (all block-boundary lengths, splits into <=4 slices).', '6.C20'),
}
checks = []
for pid in sorted(CLAIMS):
    text, ref = CLAIMS[pid]
    checks.append(dict(property_id=pid, quick_cmd='python3 check.py %s --tier quick' % pid,
                       thorough_cmd='python3 check.py %s --tier thorough' % pid,
                       evidence_file='/verif/evidence/%s.json' % pid,
                       replay_cmd_template='python3 check.py %s --replay {path}' % pid,
                       engine='coq', level_claimed=dict(category='proof', text=text, design_ref=ref),
                       level_note=NOTE, technique='machine-checked proof in Coq 8.16 + model/implementation correspondence (extracted OCaml vs Go harness)'))
ALL = ['C%02d' % i for i in range(1, 21)]
na = [dict(property_id=p, reason='check under construction in this snapshot (model + proofs exist or are in progress; will be claimed when wired into check.py)') for p in ALL if p not in CLAIMS]
m = dict(version=1, setup_cmd='./setup.sh',
         hooks=dict(guard='verif', enable='go build -tags verif', baseline_off_cmd=BASE, source_commits=['73166fb'], add_only=True),
         engines=[dict(name='coq', path='/verif/coq', serves_properties=sorted(CLAIMS), kind_free_text='Coq 8.16.1 development (Spec/Model/Proofs/Properties) + generated Gen/*.v; check.py orchestrates make, coqc, extraction, Go harness')],
         checks=checks, not_applicable=na,
         notes='Five genuine defects were found and fixed in /repo (see known_findings.jsonl, DESIGN.md 1.1); the reverted fixes are kept as seeded mutants under /verif/seeded.')
json.dump(m, open('/verif/MANIFEST.json', 'w'), indent=1)
print('claimed', sorted(CLAIMS))

#!/bin/bash
# coverage.sh : statement coverage of /repo's packages reached by the case files of the last run of every
# check (/verif/_build/work/Cxx.cases), measured with a coverage-instrumented build of the harness.
# Generator-quality measurement (which library statements the correspondence check exercises); not a check.
export GOFLAGS=-mod=mod GOPROXY=off GOSUMDB=off GOTOOLCHAIN=local
V=/verif
M=github.com/iden3/go-iden3-crypto/v2
D=$V/_build/cov; rm -rf $D; mkdir -p $D
(cd $V/harness && go build -cover -coverpkg=verifharness,$M/ff,$M/ffg,$M/babyjub,$M/poseidon,$M/goldenposeidon,$M/mimc7,$M/utils,$M/keccak256,$M/constants -tags verif -o $V/_build/bin/harness_cov .) || exit 2
cd $V/_build/work
for f in C??.cases; do
  p=${f%.cases}
  if [ $p = C17 ]; then GOCOVERDIR=$D $V/_build/bin/harness_cov -conc 4 -rounds 1 -out /dev/null $f 2>/dev/null
  else GOCOVERDIR=$D $V/_build/bin/harness_cov -purity -out /dev/null $f 2>/dev/null; fi
done
cd $V/harness
{ go tool covdata percent -i=$D 2>/dev/null | grep -v verifharness | sed "s#$M/##"
  echo "--- functions below 100%:"
  go tool covdata func -i=$D 2>/dev/null | awk '{v=$NF; gsub("%","",v); if (v+0 < 100) print}' | grep -v "verif_hooks\|verifharness\|^total" | sed "s#$M/##"
} > $V/_build/coverage.txt
cat $V/_build/coverage.txt

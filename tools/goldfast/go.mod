module goldfast

go 1.21

// goldfast: a fast evaluator of the TEXTBOOK Goldilocks Poseidon of coq/Spec/GoldRef.v (perm_ref of
// Spec/Hades.v with RCstar / MDSref read from the .v file at run time), on uint64 with math/bits only.
// It shares no code with the repository and none with the extracted model.  It is NOT part of the
// trusted base: check.py uses it only to FIND candidate inputs in the high-volume search; a candidate
// counts only when the extracted Coq model, run on that input, disagrees with the implementation.
//
//	goldfast <GoldRef.v> <cases> <out>     one line "gold [w0,...,w11]" in, "[h0,h1,h2,h3]" out
package main

import (
	"bufio"
	"fmt"
	"math/bits"
	"os"
	"regexp"
	"strconv"
	"strings"
)

const p = 0xffffffff00000001

func mulmod(a, b uint64) uint64 {
	hi, lo := bits.Mul64(a, b)
	_, r := bits.Div64(hi%p, lo, p)
	return r
}

func addmod(a, b uint64) uint64 {
	s, c := bits.Add64(a, b, 0)
	if c != 0 || s >= p {
		s -= p
	}
	return s
}

func list(src, name string) []uint64 {
	re := regexp.MustCompile(`(?s)Definition ` + name + ` : list Z :=\s*\[(.*?)\]`)
	m := re.FindStringSubmatch(src)
	if m == nil {
		fmt.Fprintln(os.Stderr, "goldfast: no definition of", name)
		os.Exit(2)
	}
	var out []uint64
	for _, f := range strings.Split(m[1], ";") {
		v, err := strconv.ParseUint(strings.TrimSpace(f), 10, 64)
		if err != nil {
			fmt.Fprintln(os.Stderr, "goldfast: bad literal in", name, err)
			os.Exit(2)
		}
		out = append(out, v)
	}
	return out
}

func main() {
	raw, err := os.ReadFile(os.Args[1])
	if err != nil {
		panic(err)
	}
	src := string(raw)
	rc, circ, diag := list(src, "RCstar"), list(src, "mds_circ"), list(src, "mds_diag")
	if len(rc) != 360 || len(circ) != 12 || len(diag) != 12 {
		fmt.Fprintln(os.Stderr, "goldfast: unexpected table sizes")
		os.Exit(2)
	}
	var mds [12][12]uint64 // MDSref[i][j] = Mstmt[j][i] = circ[(j-i) mod 12] (+ diag[i] on the diagonal)
	for i := 0; i < 12; i++ {
		for j := 0; j < 12; j++ {
			mds[i][j] = circ[(j+12-i)%12]
			if i == j {
				mds[i][j] += diag[i]
			}
		}
	}
	in, err := os.Open(os.Args[2])
	if err != nil {
		panic(err)
	}
	outf, err := os.Create(os.Args[3])
	if err != nil {
		panic(err)
	}
	w := bufio.NewWriter(outf)
	sc := bufio.NewScanner(in)
	sc.Buffer(make([]byte, 1<<20), 1<<20)
	for sc.Scan() {
		ln := strings.TrimSpace(sc.Text())
		if !strings.HasPrefix(ln, "gold [") || !strings.HasSuffix(ln, "]") {
			fmt.Fprintln(w, "UNKNOWN-OP")
			continue
		}
		fs := strings.Split(ln[6:len(ln)-1], ",")
		if len(fs) != 12 {
			fmt.Fprintln(w, "UNKNOWN-OP")
			continue
		}
		var st [12]uint64
		ok := true
		for i, f := range fs {
			v, err := strconv.ParseUint(f, 10, 64)
			if err != nil {
				ok = false
				break
			}
			st[i] = v % p
		}
		if !ok {
			fmt.Fprintln(w, "UNKNOWN-OP")
			continue
		}
		for r := 0; r < 30; r++ {
			for i := 0; i < 12; i++ {
				st[i] = addmod(st[i], rc[r*12+i]%p)
			}
			n := 12
			if r >= 4 && r < 26 {
				n = 1
			}
			for i := 0; i < n; i++ {
				x := st[i]
				x2 := mulmod(x, x)
				x4 := mulmod(x2, x2)
				st[i] = mulmod(mulmod(x4, x2), x)
			}
			var ns [12]uint64
			for i := 0; i < 12; i++ {
				var acc uint64
				for j := 0; j < 12; j++ {
					acc = addmod(acc, mulmod(mds[i][j], st[j]))
				}
				ns[i] = acc
			}
			st = ns
		}
		fmt.Fprintf(w, "[%d,%d,%d,%d]\n", st[0], st[1], st[2], st[3])
	}
	w.Flush()
	outf.Close()
}

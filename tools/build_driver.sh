#!/bin/bash
# Extract the Coq models to OCaml and build the driver.  Run after `make`.
set -e
V=/verif
E=$V/_build/ocaml/ext
mkdir -p $E $V/_build/bin
cd $E
find . -maxdepth 1 -type f \( -name '*.ml' -o -name '*.mli' -o -name '*.cm*' -o -name '*.o' \) -delete
timeout 600 coqc -Q $V/coq Verif $V/coq/Extract/Extract.v > extract.log 2>&1 || { cat extract.log; exit 1; }
rm -f $V/coq/Extract/Extract.vo $V/coq/Extract/Extract.glob $V/coq/Extract/.Extract.aux $V/coq/Extract/Extract.vos $V/coq/Extract/Extract.vok
cp $V/ocaml/driver.ml .
ORDER=$(ocamlfind ocamldep -sort *.ml *.mli)
ocamlfind ocamlopt -package zarith -linkpkg -O2 -w -a $ORDER -o $V/_build/bin/driver

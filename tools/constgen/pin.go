package main

// Pinned code.  The init functions that turn the literal tables into the
// run-time tables (string -> big.Int -> field element, circulant matrix from
// mcirc/mdiag, Aff/Dff from A/D, ...) are not interpreted by constgen: the
// hand-written Coq model assumes what they do.  constgen therefore accepts them
// only in the exact shape it was written against (comments and layout aside);
// for the inits whose literals constgen reads (moduli, exponents, curve
// constants) the literals are abstracted from the shape and every one of them
// is read.  `constgen -pins <repo>` prints the current hashes.

import (
	"bytes"
	"crypto/sha256"
	"fmt"
	"go/ast"
	"go/printer"
	"go/token"
)

type pin struct {
	what     string // message
	abstract bool   // abstract INT/STRING literals
	hash     string
}

// package dir -> key -> pin
var pins = map[string]map[string]pin{
	"poseidon": {
		"init/tables": {"init() converting cs.{C,S,M,P} (hex strings) to c.{c,s,m,p}", false, "ce9b19ff9f2582026551eb9da03a631527a1e7284707edd756e9a08f44775d13"},
	},
	"goldenposeidon": {
		"init/tables": {"init() building C, S, M, P from c, s, mcirc, mdiag, p", false, "4da1510ee9f0e2e7a6ca1ef11951b98054dbf84c0f8163fe8a103a09226c4043"},
	},
	"ff": {
		"init/modulus":   {"init() setting _modulus", true, "2bcfa5a9a044e719642943eb421da8e74ea4dd92cc429f2aa2d11d5dfee25e1b"},
		"init/exponents": {"init() setting the Legendre and Sqrt exponents", true, "04818843cef820eda94780e9a377f3da25adb135eaa2ded8876bee4c7af0331c"},
	},
	"ffg": {
		"init/modulus":   {"init() setting _modulus", true, "2bcfa5a9a044e719642943eb421da8e74ea4dd92cc429f2aa2d11d5dfee25e1b"},
		"init/exponents": {"init() setting the Legendre and Sqrt exponents", true, "04818843cef820eda94780e9a377f3da25adb135eaa2ded8876bee4c7af0331c"},
	},
	"utils": {
		"func/NewIntFromString": {"NewIntFromString (base-10 parser used by babyjub's init)", false, "ea5734ef8b5e9b7e9a6df9b1f1498114abe3fd82b263d67d1425e97b6d19a7b6"},
	},
}

// shapeHash: sha256 of the function printed without comments, optionally with
// every INT and STRING literal replaced by a placeholder.
func shapeHash(fd *ast.FuncDecl, abstract bool) string {
	type saved struct {
		bl *ast.BasicLit
		v  string
	}
	var undo []saved
	if abstract {
		ast.Inspect(fd, func(n ast.Node) bool {
			if bl, ok := n.(*ast.BasicLit); ok && (bl.Kind == token.INT || bl.Kind == token.STRING) {
				undo = append(undo, saved{bl, bl.Value})
				if bl.Kind == token.INT {
					bl.Value = "0"
				} else {
					bl.Value = `""`
				}
			}
			return true
		})
	}
	doc := fd.Doc
	fd.Doc = nil
	var b bytes.Buffer
	must((&printer.Config{Mode: printer.RawFormat}).Fprint(&b, token.NewFileSet(), fd))
	fd.Doc = doc
	for _, u := range undo {
		u.bl.Value = u.v
	}
	return fmt.Sprintf("%x", sha256.Sum256(b.Bytes()))
}

// pinned returns the unique function of the package that matches the pin.
func (pi *pkgInfo) pinned(key string) *ast.FuncDecl {
	p, ok := pins[pi.dir][key]
	if !ok {
		must(fmt.Errorf("internal: no pin %s/%s", pi.dir, key))
	}
	var cands []*ast.FuncDecl
	if len(key) > 5 && key[:5] == "func/" {
		if fd := pi.funcs[key[5:]]; fd != nil {
			cands = append(cands, fd)
		}
	} else {
		cands = pi.inits
	}
	var found *ast.FuncDecl
	for _, fd := range cands {
		if shapeHash(fd, p.abstract) == p.hash {
			if found != nil {
				must(fmt.Errorf("%s: two functions match the pinned %s", pi.dir, p.what))
			}
			found = fd
		}
	}
	if found == nil {
		must(fmt.Errorf("%s: no function has the pinned shape of %s: this code is not interpreted by constgen, the model assumes its behaviour; review the change and update tools/constgen/pin.go (constgen -pins)", pi.dir, p.what))
	}
	return found
}

func printPins() {
	for _, dir := range []string{"poseidon", "goldenposeidon", "ff", "ffg", "utils"} {
		pi := loadPkg(dir)
		for i, fd := range pi.inits {
			fmt.Printf("%s init#%d (%s) exact=%s abstract=%s\n", dir, i, fset.Position(fd.Pos()), shapeHash(fd, false), shapeHash(fd, true))
		}
		for key := range pins[dir] {
			if len(key) > 5 && key[:5] == "func/" {
				if fd := pi.funcs[key[5:]]; fd != nil {
					fmt.Printf("%s %s exact=%s\n", dir, key, shapeHash(fd, false))
				}
			}
		}
	}
}

package main

// File selection and package loading.  constgen reads exactly the files that
// the production build (linux/amd64, no build tags) compiles, as decided by
// go/build; a name that constgen could read and that is ALSO declared in a file
// outside that set (other GOOS/GOARCH, build tags) is rejected: such a constant
// is not one constant.

import (
	"fmt"
	"go/ast"
	"go/build"
	"go/parser"
	"go/token"
	"os"
	"path/filepath"
	"sort"
	"strings"
)

type pkgInfo struct {
	dir      string
	files    map[string]*ast.File // production files
	names    []string             // their names, sorted
	vars     map[string]ast.Expr  // package-level var/const name -> initialiser
	specs    map[string]*ast.ValueSpec
	consts   map[string]bool // declared by a const declaration
	declared map[string]bool // every package-level name (const, var, type, func)
	funcs    map[string]*ast.FuncDecl
	inits    []*ast.FuncDecl      // every init(), in compilation order
	alt      map[string]token.Pos // var/const names declared in files OUTSIDE the production build
	// files searched for writes to the tracked objects: the production files plus every
	// file that some other configuration compiles (other GOOS/GOARCH, cgo, custom tags),
	// except the harness-only files (compiled with -tags verif and not without)
	scan      map[string]*ast.File
	scanNames []string
}

func prodContext() build.Context {
	ctx := build.Default
	ctx.GOOS, ctx.GOARCH = "linux", "amd64"
	ctx.BuildTags = nil
	ctx.CgoEnabled = false
	return ctx
}

var pkgCache = map[string]*pkgInfo{}

func loadPkg(dir string) *pkgInfo {
	if pi, ok := pkgCache[dir]; ok {
		return pi
	}
	pi := &pkgInfo{dir: dir, files: map[string]*ast.File{}, vars: map[string]ast.Expr{},
		specs: map[string]*ast.ValueSpec{}, consts: map[string]bool{}, declared: map[string]bool{},
		funcs: map[string]*ast.FuncDecl{}, alt: map[string]token.Pos{}, scan: map[string]*ast.File{}}
	pkgCache[dir] = pi
	abs := filepath.Join(repo, dir)
	ents, err := os.ReadDir(abs)
	must(err)
	ctx := prodContext()
	hctx := prodContext()
	hctx.BuildTags = []string{"verif"}
	var others []string
	for _, e := range ents {
		n := e.Name()
		if !e.IsDir() && dir != "ff" {
			// (the assembly of ff is the business of tools/asmgen, which checks the file set itself)
			switch strings.ToLower(filepath.Ext(n)) {
			case ".s", ".sx", ".syso", ".c", ".cc", ".cpp", ".cxx", ".m", ".h", ".hh", ".hpp", ".hxx", ".f", ".f90", ".swig", ".swigcxx":
				if _, isTracked := trackedVars[dir]; isTracked {
					must(fmt.Errorf("%s/%s: non-Go source or object file in a package whose constants are read: it could write them", dir, n))
				}
			}
		}
		if e.IsDir() || !strings.HasSuffix(n, ".go") || strings.HasSuffix(n, "_test.go") {
			continue
		}
		ok, err := ctx.MatchFile(abs, n)
		must(err)
		if ok {
			pi.names = append(pi.names, n)
		} else {
			others = append(others, n)
		}
	}
	sort.Strings(pi.names)
	declare := func(name string, pos token.Pos) {
		if name == "_" {
			return
		}
		if pi.declared[name] {
			must(fmt.Errorf("%s: %s declared more than once at package level", fset.Position(pos), name))
		}
		pi.declared[name] = true
	}
	for _, n := range pi.names {
		f, err := parser.ParseFile(fset, filepath.Join(abs, n), nil, parser.ParseComments)
		must(err)
		pi.files[n] = f
		for _, d := range f.Decls {
			switch dd := d.(type) {
			case *ast.GenDecl:
				for _, sp := range dd.Specs {
					switch s := sp.(type) {
					case *ast.TypeSpec:
						declare(s.Name.Name, s.Pos())
					case *ast.ValueSpec:
						for i, nm := range s.Names {
							declare(nm.Name, nm.Pos())
							if nm.Name == "_" {
								continue
							}
							pi.specs[nm.Name] = s
							if dd.Tok == token.CONST {
								pi.consts[nm.Name] = true
							}
							if i < len(s.Values) {
								pi.vars[nm.Name] = s.Values[i]
							} else if len(s.Values) == 1 {
								pi.vars[nm.Name] = s.Values[0]
							}
						}
					}
				}
			case *ast.FuncDecl:
				name := dd.Name.Name
				if dd.Recv != nil && len(dd.Recv.List) == 1 {
					name = recvName(dd.Recv.List[0].Type) + "." + name
				} else if name == "init" {
					pi.inits = append(pi.inits, dd)
					continue
				} else {
					declare(name, dd.Pos())
				}
				if _, dup := pi.funcs[name]; dup {
					must(fmt.Errorf("%s: %s declared more than once", fset.Position(dd.Pos()), name))
				}
				pi.funcs[name] = dd
			}
		}
	}
	// files outside the production build (other GOOS/GOARCH, build tags): remember what they
	// declare; a name that constgen reads must not have another definition there (noAlt)
	for _, n := range pi.names {
		pi.scan[n] = pi.files[n]
	}
	for _, n := range others {
		f, err := parser.ParseFile(fset, filepath.Join(abs, n), nil, parser.ParseComments)
		must(err)
		if inHarness, err := hctx.MatchFile(abs, n); err != nil {
			must(err)
		} else if !inHarness {
			pi.scan[n] = f
		}
		for _, d := range f.Decls {
			if gd, ok := d.(*ast.GenDecl); ok {
				for _, sp := range gd.Specs {
					if vs, ok := sp.(*ast.ValueSpec); ok {
						for _, nm := range vs.Names {
							pi.alt[nm.Name] = nm.Pos()
						}
					}
				}
			}
		}
	}
	for n, f := range pi.scan {
		pi.scanNames = append(pi.scanNames, n)
		for _, cg := range f.Comments {
			for _, c := range cg.List {
				if strings.HasPrefix(c.Text, "//go:linkname") {
					must(fmt.Errorf("%s: //go:linkname can bind a declaration to a variable or function of another package; not supported", fset.Position(c.Pos())))
				}
			}
		}
	}
	sort.Strings(pi.scanNames)
	return pi
}

// isPkgLevel: the identifier denotes the package-level object of that name
// (not a local variable, parameter or field that shadows it).
func (pi *pkgInfo) isPkgLevel(id *ast.Ident) bool {
	if id.Obj == nil {
		return true // unresolved in the file: package scope (another file) or universe
	}
	if vs, ok := id.Obj.Decl.(*ast.ValueSpec); ok {
		return pi.specs[id.Name] == vs
	}
	return false
}

// noAlt: a name that constgen reads has a single definition, whatever the build
// constraints.
func (pi *pkgInfo) noAlt(name string) {
	if pos, ok := pi.alt[name]; ok {
		must(fmt.Errorf("%s: %s has another definition outside the production build (linux/amd64, no tags): a constant that depends on build constraints is not supported",
			fset.Position(pos), name))
	}
}

// get: initialiser of a package-level name that constgen reads.
func (pi *pkgInfo) get(name string) ast.Expr {
	pi.noAlt(name)
	return pi.vars[name]
}

package main

// Interpretation of babyjub's init(): unlike the table-conversion inits (pin.go)
// this one is read statement by statement, so that the constants follow the
// source while every statement has a known meaning:
//   T, _ = utils.NewIntFromString(<string>)        (base 10; utils.NewIntFromString is pinned)
//   T, _ = new(big.Int).SetString(<string>, <base>)      T in A, D, Order, B8.X, B8.Y
//   Aff = ff.NewElement().SetBigInt(A)     Dff = ff.NewElement().SetBigInt(D)
//   SubOrder = new(big.Int).Rsh(Order, <k>)
//   B8 = NewPoint()
// each target exactly once, each use after its definition, nothing else.

import (
	"fmt"
	"go/ast"
	"go/token"
	"math/big"
	"strings"
)

type curveInit struct {
	fd    *ast.FuncDecl
	vals  map[string]*big.Int // A, D, Order, B8.X, B8.Y
	shift *big.Int
}

var curveCache *curveInit

func fileOf(pi *pkgInfo, n ast.Node) *ast.File {
	for _, f := range pi.files {
		if f.Pos() <= n.Pos() && n.Pos() < f.End() {
			return f
		}
	}
	return nil
}

// importIs: in file f the package identifier `local` denotes exactly `path`.
func importIs(f *ast.File, local, path string) bool {
	found := false
	for _, im := range f.Imports {
		p := strings.Trim(im.Path.Value, "\"`")
		name := p[strings.LastIndex(p, "/")+1:]
		if im.Name != nil {
			name = im.Name.Name
		}
		if name == local {
			if p != path {
				return false
			}
			found = true
		}
	}
	return found
}

func interpCurveInit(bj *pkgInfo) *curveInit {
	if curveCache != nil {
		return curveCache
	}
	targets := map[string]bool{"A": true, "D": true, "Aff": true, "Dff": true, "Order": true, "SubOrder": true,
		"B8": true, "B8.X": true, "B8.Y": true}
	var fd *ast.FuncDecl
	for _, in := range bj.inits {
		writes := false
		ast.Inspect(in, func(n ast.Node) bool {
			if as, ok := n.(*ast.AssignStmt); ok {
				for _, l := range as.Lhs {
					if targets[exprText(l)] {
						writes = true
					}
				}
			}
			return true
		})
		if writes {
			if fd != nil {
				must(fmt.Errorf("%s: a second init() assigns the curve constants", fset.Position(in.Pos())))
			}
			fd = in
		}
	}
	if fd == nil {
		must(fmt.Errorf("babyjub: no init() assigns the curve constants"))
	}
	file := fileOf(bj, fd)
	mod := modulePath()
	for local, path := range map[string]string{"big": "math/big", "utils": mod + "/utils", "ff": mod + "/ff"} {
		if !importIs(file, local, path) || bj.declared[local] {
			must(fmt.Errorf("%s: in this file %s must denote the package %s", fset.Position(file.Pos()), local, path))
		}
	}
	if bj.declared["new"] || bj.funcs["NewPoint"] == nil {
		must(fmt.Errorf("babyjub: new is redeclared or NewPoint is missing"))
	}
	loadPkg("utils").pinned("func/NewIntFromString")
	ci := &curveInit{fd: fd, vals: map[string]*big.Int{}}
	done := map[string]bool{}
	en := bj.env()
	for _, st := range fd.Body.List {
		bad := func(why string) {
			must(fmt.Errorf("%s: statement of babyjub's init() that constgen cannot interpret (%s)", fset.Position(st.Pos()), why))
		}
		as, ok := st.(*ast.AssignStmt)
		if !ok || as.Tok != token.ASSIGN || len(as.Rhs) != 1 {
			bad("not a plain assignment of one call")
			continue
		}
		call, ok := as.Rhs[0].(*ast.CallExpr)
		if !ok {
			bad("right-hand side is not a call")
			continue
		}
		t := exprText(as.Lhs[0])
		if !targets[t] || done[t] {
			bad("unknown target, or target assigned twice")
		}
		if root, isId := rootIdent(as.Lhs[0]); !isId || !bj.isPkgLevel(root) {
			bad("target is not the package-level variable")
		}
		switch t {
		case "A", "D", "Order", "B8.X", "B8.Y":
			if len(as.Lhs) != 2 || exprText(as.Lhs[1]) != "_" {
				bad("expected `T, _ = ...`")
			}
			if (t == "B8.X" || t == "B8.Y") && !done["B8"] {
				bad("B8 is not yet set")
			}
			base := big.NewInt(10)
			switch {
			case exprText(call.Fun) == "utils.NewIntFromString" && len(call.Args) == 1:
			case isNewBigIntMethod(call, "SetString") && len(call.Args) == 2:
				b, ok := evalInt(call.Args[1], en)
				if !ok {
					bad("base is not a constant")
				}
				base = b
			default:
				bad("neither utils.NewIntFromString(s) nor new(big.Int).SetString(s, base)")
			}
			s, ok := evalString(call.Args[0], en)
			if !ok {
				bad("string is not a constant")
			}
			ci.vals[t] = bigFromString(s, int(base.Int64()), t)
		case "Aff", "Dff":
			src := map[string]string{"Aff": "A", "Dff": "D"}[t]
			sel, ok := call.Fun.(*ast.SelectorExpr)
			inner, ok2 := ast.Expr(nil), false
			if ok {
				inner, ok2 = sel.X.(*ast.CallExpr)
			}
			if len(as.Lhs) != 1 || !ok || !ok2 || sel.Sel.Name != "SetBigInt" || exprText(inner.(*ast.CallExpr).Fun) != "ff.NewElement" ||
				len(inner.(*ast.CallExpr).Args) != 0 || len(call.Args) != 1 || exprText(call.Args[0]) != src || !done[src] {
				bad("expected " + t + " = ff.NewElement().SetBigInt(" + src + ") after " + src)
			}
		case "SubOrder":
			if len(as.Lhs) != 1 || !isNewBigIntMethod(call, "Rsh") || len(call.Args) != 2 || exprText(call.Args[0]) != "Order" || !done["Order"] {
				bad("expected SubOrder = new(big.Int).Rsh(Order, k) after Order")
			}
			k, ok := evalInt(call.Args[1], en)
			if !ok {
				bad("shift is not a constant")
			}
			ci.shift = k
		case "B8":
			if id, isId := call.Fun.(*ast.Ident); len(as.Lhs) != 1 || !isId || id.Name != "NewPoint" || !bj.isFuncRef(id) || len(call.Args) != 0 {
				bad("expected B8 = NewPoint()")
			}
		}
		done[t] = true
	}
	for t := range targets {
		if !done[t] {
			must(fmt.Errorf("%s: babyjub's init() does not set %s", fset.Position(fd.Pos()), t))
		}
	}
	curveCache = ci
	return ci
}

func rootIdent(e ast.Expr) (*ast.Ident, bool) {
	for {
		switch t := e.(type) {
		case *ast.Ident:
			return t, true
		case *ast.SelectorExpr:
			e = t.X
		default:
			return nil, false
		}
	}
}

// isFuncRef: the identifier denotes the package-level function of that name.
func (pi *pkgInfo) isFuncRef(id *ast.Ident) bool {
	if id.Obj == nil {
		return pi.funcs[id.Name] != nil
	}
	fd, ok := id.Obj.Decl.(*ast.FuncDecl)
	return ok && pi.funcs[id.Name] == fd
}

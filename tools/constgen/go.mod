module constgen

go 1.20

package main

// Read-only discipline for the package-level objects whose initialisers
// constgen evaluates.  constgen reads INITIALISERS; the generated constants are
// what the program uses only if nothing writes these objects afterwards.  Every
// occurrence of a tracked name, in the production files of its package and (for
// exported names) of every other package of the repository, must be a read:
//   - never the target of an assignment, ++/--, range clause;
//   - never the receiver of a method outside a short list of read-only methods;
//   - never the first argument of copy/append/clear/delete;
//   - its address only as a call argument;
//   - literal tables (slices/arrays of numbers or strings) additionally must not
//     be aliased: below the scalar level only len()/cap() (and &X as a call
//     argument for the array-valued field elements) are accepted.
// Writes inside the pinned init functions (pin.go) are the sanctioned ones.
// NOT covered (effect analysis, tools/effgen): writes through a pointer that a
// read legitimately handed out (callee writing through &rSquare, *big.Int or
// *ff.Element values reached through the converted tables).

import (
	"fmt"
	"go/ast"
	"go/token"
	"os"
	"path/filepath"
	"sort"
	"strings"
)

type tracked struct {
	lit        bool           // literal table (else: object set up by an initialiser / pinned init)
	leaf       map[string]int // lit: field ("" = none) -> number of index steps down to a scalar
	arrayVal   bool           // lit: &X accepted as a call argument
	addrOK     bool           // object held by value (big.Int): &X accepted as a call argument
	sanctioned []string       // pin keys of the functions that may write it
}

var trackedVars = map[string]map[string]tracked{
	"poseidon": {
		"cs":       {lit: true, leaf: map[string]int{"C": 2, "S": 2, "M": 3, "P": 3}},
		"NROUNDSP": {lit: true, leaf: map[string]int{"": 1}},
		"c":        {sanctioned: []string{"init/tables"}},
	},
	"goldenposeidon": {
		"c": {lit: true, leaf: map[string]int{"": 1}}, "s": {lit: true, leaf: map[string]int{"": 1}},
		"mcirc": {lit: true, leaf: map[string]int{"": 1}}, "mdiag": {lit: true, leaf: map[string]int{"": 1}},
		"p": {lit: true, leaf: map[string]int{"": 2}},
		"C": {sanctioned: []string{"init/tables"}}, "S": {sanctioned: []string{"init/tables"}},
		"M": {sanctioned: []string{"init/tables"}}, "P": {sanctioned: []string{"init/tables"}},
	},
	"ff":        fieldTracked,
	"ffg":       fieldTracked,
	"constants": {"Q": {}, "Zero": {}, "One": {}, "MinusOne": {}},
	"babyjub": {
		"A": {sanctioned: []string{"init/curve"}}, "D": {sanctioned: []string{"init/curve"}},
		"Aff": {sanctioned: []string{"init/curve"}}, "Dff": {sanctioned: []string{"init/curve"}},
		"Order": {sanctioned: []string{"init/curve"}}, "SubOrder": {sanctioned: []string{"init/curve"}},
		"B8": {sanctioned: []string{"init/curve"}},
	},
}

var fieldTracked = map[string]tracked{
	"qElement":                  {lit: true, leaf: map[string]int{"": 1}, arrayVal: true},
	"rSquare":                   {lit: true, leaf: map[string]int{"": 1}, arrayVal: true},
	"_modulus":                  {addrOK: true, sanctioned: []string{"init/modulus"}},
	"_bLegendreExponentElement": {sanctioned: []string{"init/exponents"}},
	"_bSqrtExponentElement":     {sanctioned: []string{"init/exponents"}},
}

var readOnlyMethods = map[string]bool{"Cmp": true, "CmpAbs": true, "Sign": true, "Bit": true, "BitLen": true,
	"String": true, "Text": true, "Bytes": true, "Int64": true, "Uint64": true, "IsInt64": true,
	"IsUint64": true, "Equal": true, "IsZero": true}

// fields of the tracked objects (constantsStr, constants, Point); any other
// selector must be a call of a read-only method
var knownFields = map[string]bool{"C": true, "S": true, "M": true, "P": true, "c": true, "s": true, "m": true, "p": true, "X": true, "Y": true}

var writingBuiltins = map[string]bool{"copy": true, "append": true, "clear": true, "delete": true}

func contains(list []ast.Expr, e ast.Expr) bool {
	for _, x := range list {
		if x == e {
			return true
		}
	}
	return false
}

// classify decides whether the occurrence `root` (an identifier, or pkg.Name)
// of the tracked object `name` is a read.  stack[len-1] is root's parent.
func classify(name string, tv tracked, root ast.Expr, stack []ast.Node) error {
	_, _, err := classifyTop(name, tv, root, stack)
	return err
}

// classifyTop also returns the complete access path that starts at root and the
// index in stack of its parent.
func classifyTop(name string, tv tracked, root ast.Expr, stack []ast.Node) (ast.Expr, int, error) {
	pos := fset.Position(root.Pos())
	bad := func(format string, a ...interface{}) error {
		return fmt.Errorf("%s: %s: %s", pos, name, fmt.Sprintf(format, a...))
	}
	cur := root
	idx, field, steps := 0, "", 0
	i := len(stack) - 1
	parent := func() ast.Node {
		if i < 0 {
			return nil
		}
		return stack[i]
	}
climb:
	for {
		switch p := parent().(type) {
		case *ast.ParenExpr:
			cur = p
		case *ast.StarExpr:
			cur = p
		case *ast.IndexExpr:
			if p.X != cur {
				return cur, i, nil // used as an index: a read of a scalar
			}
			idx++
			steps++
			cur = p
		case *ast.SelectorExpr:
			if p.X != cur {
				break climb
			}
			if i > 0 {
				if call, ok := stack[i-1].(*ast.CallExpr); ok && call.Fun == p {
					if readOnlyMethods[p.Sel.Name] {
						return p, i - 1, nil
					}
					return cur, i, bad("receiver of method %s, which is not known to be read-only", p.Sel.Name)
				}
			}
			if !knownFields[p.Sel.Name] {
				return cur, i, bad("selector .%s is neither a known field nor a call of a read-only method", p.Sel.Name)
			}
			if idx == 0 && field == "" {
				field = p.Sel.Name
			}
			steps++
			cur = p
		default:
			break climb
		}
		i--
	}
	addr := false
	switch p := parent().(type) {
	case *ast.AssignStmt:
		if contains(p.Lhs, cur) {
			return cur, i, bad("assigned outside its initialiser / pinned init")
		}
	case *ast.IncDecStmt:
		return cur, i, bad("modified by %s", p.Tok)
	case *ast.RangeStmt:
		if p.Key == cur || p.Value == cur {
			return cur, i, bad("assigned by a range clause")
		}
	case *ast.UnaryExpr:
		if p.Op == token.AND {
			addr = true
			call, ok := ast.Node(nil), false
			if i > 0 {
				call, ok = stack[i-1].(*ast.CallExpr)
			}
			if !ok || !contains(call.(*ast.CallExpr).Args, p) {
				return cur, i, bad("address taken outside a call argument")
			}
			if tv.lit && !(tv.arrayVal && idx == 0) {
				return cur, i, bad("address of a literal table taken")
			}
			if !tv.lit && !(tv.addrOK && steps == 0) {
				return cur, i, bad("address taken: the callee could rebind or overwrite it")
			}
		}
	case *ast.CallExpr:
		if id, ok := p.Fun.(*ast.Ident); ok && writingBuiltins[id.Name] && len(p.Args) > 0 && p.Args[0] == cur {
			return cur, i, bad("first argument of %s", id.Name)
		}
	}
	if !tv.lit && !addr && steps == 0 {
		// the object itself (a pointer, slice or struct of pointers) must not be returned
		// or stored; a fresh local variable is followed as an alias (aliases.occurrence)
		switch parent().(type) {
		case *ast.ReturnStmt, *ast.CompositeLit, *ast.KeyValueExpr, *ast.SendStmt:
			return cur, i, bad("returned or stored: writes through the alias are not analysed")
		}
	}
	if !tv.lit || addr {
		return cur, i, nil
	}
	need, ok := tv.leaf[field]
	if ok && idx >= need {
		return cur, i, nil // scalar (number or string): a copy
	}
	if call, isCall := parent().(*ast.CallExpr); isCall {
		if id, isId := call.Fun.(*ast.Ident); isId && (id.Name == "len" || id.Name == "cap") && id.Obj == nil {
			return cur, i, nil
		}
	}
	return cur, i, bad("literal table used below its scalar level outside len()/cap(): it may be aliased and written")
}

// walk calls f(node, stack of ancestors) for every node of the file.
func walk(file *ast.File, f func(n ast.Node, stack []ast.Node)) {
	var stack []ast.Node
	ast.Inspect(file, func(n ast.Node) bool {
		if n == nil {
			stack = stack[:len(stack)-1]
			return true
		}
		f(n, stack)
		stack = append(stack, n)
		return true
	})
}

func enclosingFunc(stack []ast.Node) *ast.FuncDecl {
	for _, n := range stack {
		if fd, ok := n.(*ast.FuncDecl); ok {
			return fd
		}
	}
	return nil
}

// scanOwn: occurrences of the tracked names inside their own package.
func scanOwn(dir string) {
	tvs := trackedVars[dir]
	pi := loadPkg(dir)
	for name := range tvs {
		pi.noAlt(name)
		if pi.specs[name] == nil || pi.consts[name] {
			must(fmt.Errorf("%s: package-level variable %s not found", dir, name))
		}
	}
	sanctioned := map[string]map[*ast.FuncDecl]bool{}
	for name, tv := range tvs {
		sanctioned[name] = map[*ast.FuncDecl]bool{}
		for _, key := range tv.sanctioned {
			if dir == "babyjub" && key == "init/curve" {
				sanctioned[name][interpCurveInit(pi).fd] = true
			} else {
				sanctioned[name][pi.pinned(key)] = true
			}
		}
	}
	for _, fn := range pi.scanNames {
		taint := &aliases{objs: map[*ast.Object]string{}}
		walk(pi.scan[fn], func(n ast.Node, stack []ast.Node) {
			id, ok := n.(*ast.Ident)
			if !ok || len(stack) == 0 {
				return
			}
			tv, ok := tvs[id.Name]
			if !ok {
				return
			}
			switch p := stack[len(stack)-1].(type) {
			case *ast.SelectorExpr:
				if p.Sel == id {
					return // field or method name
				}
			case *ast.KeyValueExpr:
				if p.Key == id {
					return // field name in a struct literal
				}
			case *ast.ValueSpec:
				for _, nm := range p.Names {
					if nm == id {
						return // a declaration
					}
				}
			case *ast.Field:
				return
			}
			if !pi.isPkgLevel(id) {
				return
			}
			if fd := enclosingFunc(stack); fd != nil && sanctioned[id.Name][fd] {
				return
			}
			must(taint.occurrence(dir+"."+id.Name, tv, id, stack))
		})
		taint.check(pi.scan[fn])
	}
}

func modulePath() string {
	b, err := os.ReadFile(filepath.Join(repo, "go.mod"))
	must(err)
	for _, l := range strings.Split(string(b), "\n") {
		if f := strings.Fields(l); len(f) == 2 && f[0] == "module" {
			return f[1]
		}
	}
	must(fmt.Errorf("go.mod: no module line"))
	return ""
}

// scanOthers: occurrences pkg.Name of the exported tracked names in every
// other package of the repository (production files).
func scanOthers() {
	mod := modulePath()
	var dirs []string
	must(filepath.WalkDir(repo, func(p string, d os.DirEntry, err error) error {
		if err != nil {
			return err
		}
		if d.IsDir() {
			if n := d.Name(); p != repo && (strings.HasPrefix(n, ".") || strings.HasPrefix(n, "_") || n == "testdata") {
				return filepath.SkipDir
			}
			if m, _ := filepath.Glob(filepath.Join(p, "*.go")); len(m) > 0 {
				rel, _ := filepath.Rel(repo, p)
				dirs = append(dirs, rel)
			}
		}
		return nil
	}))
	sort.Strings(dirs)
	for _, dir := range dirs {
		pi := loadPkg(dir)
		for _, fn := range pi.scanNames {
			file := pi.scan[fn]
			local := map[string]string{} // local package name -> tracked dir
			for _, im := range file.Imports {
				path := strings.Trim(im.Path.Value, "\"`")
				if !strings.HasPrefix(path, mod+"/") {
					continue
				}
				tdir := strings.TrimPrefix(path, mod+"/")
				if _, ok := trackedVars[tdir]; !ok || tdir == dir {
					continue
				}
				name := ""
				for _, f := range loadPkg(tdir).files {
					name = f.Name.Name
				}
				if im.Name != nil {
					name = im.Name.Name
				}
				if name == "." || name == "_" {
					must(fmt.Errorf("%s: dot/blank import of %s is not supported", fset.Position(im.Pos()), path))
				}
				local[name] = tdir
			}
			if len(local) == 0 {
				continue
			}
			taint := &aliases{objs: map[*ast.Object]string{}}
			walk(file, func(n ast.Node, stack []ast.Node) {
				se, ok := n.(*ast.SelectorExpr)
				if !ok {
					return
				}
				x, ok := se.X.(*ast.Ident)
				if !ok || x.Obj != nil {
					return
				}
				tdir, ok := local[x.Name]
				if !ok {
					return
				}
				if tv, ok := trackedVars[tdir][se.Sel.Name]; ok && ast.IsExported(se.Sel.Name) {
					must(taint.occurrence(tdir+"."+se.Sel.Name, tv, se, stack))
				}
			})
			taint.check(file)
		}
	}
}

func scanAll() {
	var dirs []string
	for d := range trackedVars {
		dirs = append(dirs, d)
	}
	sort.Strings(dirs)
	for _, d := range dirs {
		scanOwn(d)
	}
	scanOthers()
}

// aliases: local variables that were given a part of a tracked object
// (row := c.c[0]; bx := B8.X).  Inside the function they are held to the same
// read-only rules as the object itself.  Storing such a part anywhere else than
// in a fresh local variable is rejected.
type aliases struct {
	objs map[*ast.Object]string // local variable -> tracked name it aliases
}

func (al *aliases) occurrence(name string, tv tracked, root ast.Expr, stack []ast.Node) error {
	top, pi, err := classifyTop(name, tv, root, stack)
	if err != nil || tv.lit || pi < 0 {
		return err
	}
	pos := fset.Position(root.Pos())
	var lhs ast.Expr
	switch p := stack[pi].(type) {
	case *ast.AssignStmt:
		for j, r := range p.Rhs {
			if r == top {
				if len(p.Lhs) != len(p.Rhs) {
					return fmt.Errorf("%s: %s: part of it assigned in a multi-value form", pos, name)
				}
				lhs = p.Lhs[j]
			}
		}
	case *ast.ValueSpec:
		for j, r := range p.Values {
			if r == top {
				if len(p.Names) != len(p.Values) {
					return fmt.Errorf("%s: %s: part of it assigned in a multi-value form", pos, name)
				}
				lhs = p.Names[j]
			}
		}
	case *ast.ReturnStmt, *ast.CompositeLit, *ast.KeyValueExpr, *ast.SendStmt:
		if _, isIndex := top.(*ast.IndexExpr); isIndex || top == root {
			return fmt.Errorf("%s: %s: returned or stored: writes through the alias are not analysed", pos, name)
		}
	}
	if lhs == nil {
		return nil
	}
	id, ok := lhs.(*ast.Ident)
	if !ok || id.Obj == nil || enclosingFunc(stack) == nil {
		return fmt.Errorf("%s: %s: part of it stored outside a local variable: writes through the alias are not analysed", pos, name)
	}
	if id.Name != "_" {
		al.objs[id.Obj] = name
	}
	return nil
}

func (al *aliases) check(file *ast.File) {
	if len(al.objs) == 0 {
		return
	}
	walk(file, func(n ast.Node, stack []ast.Node) {
		id, ok := n.(*ast.Ident)
		if !ok || id.Obj == nil || len(stack) == 0 {
			return
		}
		name, ok := al.objs[id.Obj]
		if !ok {
			return
		}
		switch p := stack[len(stack)-1].(type) {
		case *ast.AssignStmt:
			if contains(p.Lhs, id) {
				return // its definition, or the local variable itself is rebound
			}
		case *ast.ValueSpec:
			if id.Obj.Decl == p {
				return
			}
		}
		must(classify(name+" (through its alias "+id.Name+")", tracked{}, id, stack))
	})
}

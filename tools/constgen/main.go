// constgen: the constants translator.  Parses the Go sources of the repository
// (go/parser, go/ast, go/constant, go/build; nothing is executed) and regenerates
//
//	<out>/coq/Gen/*.v          plain Gallina definitions (Z, list Z, ...)
//	<out>/_build/tables/*.txt  the same data for the OCaml driver
//
// Files are rewritten only when their content changes so that make rebuilds
// exactly the dependants; nothing is written unless every check below passes.
//
// constgen reads INITIALISERS.  They are what the program uses at run time only
// under conditions that constgen checks itself, failing closed (exit 2, message
// naming the construct) -- see tools/constgen/selftest.sh for one seeded change
// per rule:
//
//	files.go  the file set is the one go/build selects for linux/amd64 without
//	          tags; a name that is read must not have another definition under
//	          other build constraints; no duplicate package-level names; no
//	          //go:linkname; no non-Go sources in the packages read.
//	main.go   identifiers inside evaluated expressions must be CONSTANTS (exact
//	          arithmetic, overflow rejected by the compiler); conversions are the
//	          predeclared integer types only; table literals have no keyed
//	          elements; Q/Zero/One/MinusOne must be exactly
//	          new(big.Int).SetString(s, base) / big.NewInt(n); string bases are
//	          read from the call, never assumed.
//	pin.go    the init functions that convert the literal tables (poseidon,
//	          goldenposeidon) and utils.NewIntFromString are accepted only in
//	          the shape the model was written against; the ff/ffg inits are
//	          pinned with their literals abstracted, and every literal is read.
//	curve.go  babyjub's init() is interpreted statement by statement.
//	scan.go   read-only discipline: no write, mutating method call, escaping
//	          address or alias of a tracked table/object anywhere in the
//	          repository outside its initialiser or pinned init (local aliases
//	          are followed inside their function).  Not covered: writes by a
//	          callee through a pointer it was legitimately given (tools/effgen).
//
// `constgen -pins <repo>` prints the shape hashes for pin.go.
package main

import (
	"bytes"
	"fmt"
	"go/ast"
	"go/constant"
	"go/token"
	"math/big"
	"os"
	"path/filepath"
	"sort"
	"strconv"
	"strings"
)

var repo, out string
var fset = token.NewFileSet()

func must(err error) {
	if err != nil {
		fmt.Fprintln(os.Stderr, "constgen:", err)
		os.Exit(2)
	}
}

func recvName(e ast.Expr) string {
	switch t := e.(type) {
	case *ast.StarExpr:
		return recvName(t.X)
	case *ast.Ident:
		return t.Name
	}
	return "?"
}

// env: what an identifier inside an evaluated expression may denote.  Only
// CONSTANTS are evaluated (the Go compiler then guarantees exact arithmetic and
// rejects overflow); a variable can be reassigned and wraps around.
type env struct {
	consts   map[string]ast.Expr // constant name -> its expression
	declared map[string]bool     // every other name in scope that constgen knows of
	pi       *pkgInfo
}

func (pi *pkgInfo) env() *env {
	en := &env{consts: map[string]ast.Expr{}, declared: map[string]bool{}, pi: pi}
	for n := range pi.declared {
		en.declared[n] = true
	}
	for n := range pi.consts {
		if ex, ok := pi.vars[n]; ok {
			en.consts[n] = ex
		}
	}
	return en
}

func (en *env) lookup(id *ast.Ident) (ast.Expr, bool) {
	if en == nil {
		return nil, false
	}
	if ex, ok := en.consts[id.Name]; ok {
		if en.pi.consts[id.Name] && en.pi.vars[id.Name] == ex {
			en.pi.noAlt(id.Name)
		}
		return ex, true
	}
	if en.declared[id.Name] {
		must(fmt.Errorf("%s: %s is not a constant with an explicit value: constgen evaluates constants only", fset.Position(id.Pos()), id.Name))
	}
	return nil, false
}

var intTypes = map[string]bool{"int": true, "int8": true, "int16": true, "int32": true, "int64": true,
	"uint": true, "uint8": true, "uint16": true, "uint32": true, "uint64": true, "uintptr": true, "byte": true, "rune": true}

// evalInt evaluates an integer constant expression (literals, unary/binary ops, parens, conversions)
func evalInt(e ast.Expr, env *env) (*big.Int, bool) {
	switch t := e.(type) {
	case *ast.BasicLit:
		if t.Kind == token.INT || t.Kind == token.CHAR {
			v := constant.MakeFromLiteral(t.Value, t.Kind, 0)
			if bi, ok := constant.Val(constant.ToInt(v)).(*big.Int); ok {
				return new(big.Int).Set(bi), true
			}
			if i64, ok := constant.Val(constant.ToInt(v)).(int64); ok {
				return big.NewInt(i64), true
			}
		}
	case *ast.ParenExpr:
		return evalInt(t.X, env)
	case *ast.UnaryExpr:
		if v, ok := evalInt(t.X, env); ok {
			switch t.Op {
			case token.SUB:
				return v.Neg(v), true
			case token.ADD:
				return v, true
			}
		}
	case *ast.BinaryExpr:
		a, ok1 := evalInt(t.X, env)
		b, ok2 := evalInt(t.Y, env)
		if ok1 && ok2 {
			switch t.Op {
			case token.ADD:
				return a.Add(a, b), true
			case token.SUB:
				return a.Sub(a, b), true
			case token.MUL:
				return a.Mul(a, b), true
			case token.QUO:
				if b.Sign() != 0 {
					return a.Quo(a, b), true
				}
			case token.SHL:
				return a.Lsh(a, uint(b.Uint64())), true
			case token.SHR:
				return a.Rsh(a, uint(b.Uint64())), true
			}
		}
	case *ast.Ident:
		if ex, ok := env.lookup(t); ok {
			return evalInt(ex, env)
		}
	case *ast.CallExpr: // uint64(x) style conversions: the predeclared integer types only
		if len(t.Args) == 1 {
			if id, ok := t.Fun.(*ast.Ident); ok && intTypes[id.Name] && id.Obj == nil && (env == nil || !env.declared[id.Name]) {
				return evalInt(t.Args[0], env)
			}
		}
	}
	return nil, false
}

func evalString(e ast.Expr, env *env) (string, bool) {
	switch t := e.(type) {
	case *ast.BasicLit:
		if t.Kind == token.STRING {
			s, err := strconv.Unquote(t.Value)
			if err == nil {
				return s, true
			}
		}
	case *ast.Ident:
		if ex, ok := env.lookup(t); ok {
			return evalString(ex, env)
		}
	case *ast.BinaryExpr:
		if t.Op == token.ADD {
			a, ok1 := evalString(t.X, env)
			b, ok2 := evalString(t.Y, env)
			return a + b, ok1 && ok2
		}
	case *ast.ParenExpr:
		return evalString(t.X, env)
	}
	return "", false
}

// tree: nested composite literal of ints or of strings (parsed with base)
type tree struct {
	leaf *big.Int
	kids []*tree
}

func buildTree(e ast.Expr, base int, env *env) *tree {
	switch t := e.(type) {
	case *ast.CompositeLit:
		tr := &tree{}
		for _, el := range t.Elts {
			if _, ok := el.(*ast.KeyValueExpr); ok {
				must(fmt.Errorf("%s: keyed element in a table literal: positions given by keys are not supported", fset.Position(el.Pos())))
			}
			tr.kids = append(tr.kids, buildTree(el, base, env))
		}
		return tr
	default:
		if s, ok := evalString(e, env); ok {
			v, ok2 := new(big.Int).SetString(s, base)
			if !ok2 {
				must(fmt.Errorf("cannot parse %q in base %d at %s", s, base, fset.Position(e.Pos())))
			}
			return &tree{leaf: v}
		}
		if v, ok := evalInt(e, env); ok {
			return &tree{leaf: v}
		}
		must(fmt.Errorf("unsupported table element at %s", fset.Position(e.Pos())))
	}
	return nil
}

func structField(e ast.Expr, field string) ast.Expr {
	cl, ok := e.(*ast.CompositeLit)
	if !ok {
		return nil
	}
	for _, el := range cl.Elts {
		if kv, ok := el.(*ast.KeyValueExpr); ok {
			if id, ok := kv.Key.(*ast.Ident); ok && id.Name == field {
				return kv.Value
			}
		}
	}
	return nil
}

func (t *tree) coq(b *bytes.Buffer) {
	if t.leaf != nil {
		if t.leaf.Sign() < 0 {
			b.WriteString("(" + t.leaf.String() + ")")
		} else if t.leaf.BitLen() > 64 {
			// hexadecimal: Coq 8.16 interprets big decimal literals ~3x slower
			b.WriteString("0x" + t.leaf.Text(16))
		} else {
			b.WriteString(t.leaf.String())
		}
		return
	}
	b.WriteString("[")
	for i, k := range t.kids {
		if i > 0 {
			b.WriteString(";\n ")
		}
		k.coq(b)
	}
	b.WriteString("]")
}

func (t *tree) txt(b *bytes.Buffer) { // one line: nested with brackets, space separated
	if t.leaf != nil {
		b.WriteString(t.leaf.String())
		return
	}
	b.WriteString("[")
	for i, k := range t.kids {
		if i > 0 {
			b.WriteString(" ")
		}
		k.txt(b)
	}
	b.WriteString("]")
}

func leafTree(v *big.Int) *tree { return &tree{leaf: v} }
func listTree(vs []*big.Int) *tree {
	t := &tree{kids: []*tree{}}
	for _, v := range vs {
		t.kids = append(t.kids, leafTree(v))
	}
	return t
}

// outputs are buffered and written only when every check has passed
type pendingFile struct {
	path    string
	content []byte
}

var pending []pendingFile

func writeIfChanged(path string, content []byte) {
	pending = append(pending, pendingFile{path, content})
}

func flush() {
	for _, p := range pending {
		writeNow(p.path, p.content)
	}
}

func writeNow(path string, content []byte) {
	old, err := os.ReadFile(path)
	if err == nil && bytes.Equal(old, content) {
		return
	}
	must(os.MkdirAll(filepath.Dir(path), 0o755))
	must(os.WriteFile(path, content, 0o644))
	fmt.Println("constgen: wrote", path)
}

const header = "(* GENERATED by tools/constgen from the repository sources on every run. DO NOT EDIT. *)\nFrom Coq Require Import ZArith List.\nImport ListNotations.\nLocal Open Scope Z_scope.\n\n"

type def struct {
	name string
	typ  string // "Z", "list Z", "list (list Z)", "nat", "list nat"
	t    *tree
}

func emit(vfile string, txtfile string, defs []def) {
	var vb, tb bytes.Buffer
	vb.WriteString(header)
	for _, d := range defs {
		if strings.Contains(d.typ, "nat") {
			vb.WriteString(fmt.Sprintf("Definition %s : %s := (", d.name, d.typ))
			d.t.coq(&vb)
			vb.WriteString(")%nat.\n")
		} else {
			vb.WriteString(fmt.Sprintf("Definition %s : %s :=\n ", d.name, d.typ))
			d.t.coq(&vb)
			vb.WriteString(".\n")
		}
		tb.WriteString(d.name + " ")
		d.t.txt(&tb)
		tb.WriteString("\n")
	}
	writeIfChanged(filepath.Join(out, "coq", "Gen", vfile), vb.Bytes())
	if txtfile != "" {
		writeIfChanged(filepath.Join(out, "_build", "tables", txtfile), tb.Bytes())
	}
}

// all integer literals of a function body, in source order
func funcLits(fd *ast.FuncDecl) []*big.Int {
	var res []*big.Int
	if fd == nil || fd.Body == nil {
		return res
	}
	ast.Inspect(fd.Body, func(n ast.Node) bool {
		if bl, ok := n.(*ast.BasicLit); ok && bl.Kind == token.INT {
			if v, ok := evalInt(bl, nil); ok {
				res = append(res, v)
			}
		}
		return true
	})
	return res
}

// localComposite: the initial value of the local variable `name` of fd: the
// variable must be DEFINED (var / :=) exactly once in the function, so that no
// inner scope shadows it; later plain assignments are part of the algorithm
// (translated by limbgen), not of the constant.
func localComposite(fd *ast.FuncDecl, name string) ast.Expr {
	var found ast.Expr
	ndef := 0
	if fd == nil {
		return nil
	}
	ast.Inspect(fd, func(n ast.Node) bool {
		switch s := n.(type) {
		case *ast.AssignStmt:
			for i, l := range s.Lhs {
				if id, ok := l.(*ast.Ident); ok && id.Name == name && s.Tok == token.DEFINE {
					ndef++
					if i < len(s.Rhs) && len(s.Lhs) == len(s.Rhs) {
						found = s.Rhs[i]
					}
				}
			}
		case *ast.ValueSpec:
			for i, nm := range s.Names {
				if nm.Name == name {
					ndef++
					if i < len(s.Values) {
						found = s.Values[i]
					}
				}
			}
		case *ast.Field:
			for _, nm := range s.Names {
				if nm.Name == name {
					ndef += 2
				}
			}
		}
		return true
	})
	if ndef > 1 {
		must(fmt.Errorf("%s: local %s is declared more than once in %s: which one a use denotes is not analysed", fset.Position(fd.Pos()), name, fd.Name.Name))
	}
	return found
}

// first string literal argument of a call to <anything>.SetString(lit, base) / NewIntFromString(lit)
// whose result is assigned to `target` (ident or selector text)
func exprText(e ast.Expr) string {
	switch t := e.(type) {
	case *ast.Ident:
		return t.Name
	case *ast.SelectorExpr:
		return exprText(t.X) + "." + t.Sel.Name
	}
	return ""
}

func assignedStringCall(fd *ast.FuncDecl, target string, env *env) (string, int, bool) {
	var s string
	base := 10
	ok := false
	if fd == nil {
		return "", 0, false
	}
	ast.Inspect(fd.Body, func(n ast.Node) bool {
		as, isAs := n.(*ast.AssignStmt)
		if !isAs || ok {
			return true
		}
		if len(as.Lhs) == 0 || exprText(as.Lhs[0]) != target || len(as.Rhs) == 0 {
			return true
		}
		if call, isCall := as.Rhs[0].(*ast.CallExpr); isCall && len(call.Args) >= 1 {
			if str, ok2 := evalString(call.Args[0], env); ok2 {
				s = str
				if len(call.Args) >= 2 {
					if b, ok3 := evalInt(call.Args[1], env); ok3 {
						base = int(b.Int64())
					}
				}
				ok = true
			}
		}
		return true
	})
	return s, base, ok
}

// isNewBigIntMethod: the call is new(big.Int).<method>(...)
func isNewBigIntMethod(call *ast.CallExpr, method string) bool {
	sel, ok := call.Fun.(*ast.SelectorExpr)
	if !ok || sel.Sel.Name != method {
		return false
	}
	nw, ok := sel.X.(*ast.CallExpr)
	if !ok || len(nw.Args) != 1 || exprText(nw.Fun) != "new" || exprText(nw.Args[0]) != "big.Int" {
		return false
	}
	id := nw.Fun.(*ast.Ident)
	return id.Obj == nil
}

// bigImported: in the file that declares `name`, the identifier big denotes math/big
// and new is the builtin.
func bigImported(pi *pkgInfo, name string) {
	if pi.specs[name] == nil {
		must(fmt.Errorf("%s: %s not found", pi.dir, name))
	}
	if pi.declared["big"] || pi.declared["new"] {
		must(fmt.Errorf("%s: big or new is redeclared at package level", pi.dir))
	}
	for _, f := range pi.files {
		if f.Pos() <= pi.specs[name].Pos() && pi.specs[name].Pos() < f.End() {
			ok := false
			for _, im := range f.Imports {
				path := strings.Trim(im.Path.Value, "\"`")
				local := path[strings.LastIndex(path, "/")+1:]
				if im.Name != nil {
					local = im.Name.Name
				}
				if local == "big" && path != "math/big" {
					must(fmt.Errorf("%s: big is not math/big", fset.Position(im.Pos())))
				}
				if local == "big" && path == "math/big" {
					ok = true
				}
			}
			if !ok {
				must(fmt.Errorf("%s: math/big is not imported as big in the file declaring %s", pi.dir, name))
			}
		}
	}
}

func bigFromString(s string, base int, what string) *big.Int {
	v, ok := new(big.Int).SetString(s, base)
	if !ok {
		must(fmt.Errorf("cannot parse %s literal %q", what, s))
	}
	return v
}

func genPoseidon() {
	pi := loadPkg("poseidon")
	pi.pinned("init/tables") // the conversion cs -> c (base 16, index for index) is assumed by the model
	cs := pi.get("cs")
	if cs == nil {
		must(fmt.Errorf("poseidon: var cs not found"))
	}
	get := func(f string) *tree {
		e := structField(cs, f)
		if e == nil {
			must(fmt.Errorf("poseidon: cs.%s not found", f))
		}
		return buildTree(e, 16, pi.env())
	}
	C, S, M, P := get("C"), get("S"), get("M"), get("P")
	rf, ok := evalInt(pi.get("NROUNDSF"), pi.env())
	if !ok {
		must(fmt.Errorf("poseidon: NROUNDSF"))
	}
	rp := buildTree(pi.get("NROUNDSP"), 10, pi.env())
	n := len(C.kids)
	meta := []def{
		{"NROUNDSF", "nat", leafTree(rf)},
		{"NROUNDSP", "list nat", rp},
		{"nC", "nat", leafTree(big.NewInt(int64(len(C.kids))))},
		{"nS", "nat", leafTree(big.NewInt(int64(len(S.kids))))},
		{"nM", "nat", leafTree(big.NewInt(int64(len(M.kids))))},
		{"nP", "nat", leafTree(big.NewInt(int64(len(P.kids))))},
	}
	emit("PoseidonMeta.v", "poseidon_meta.txt", meta)
	for i := 0; i < 16; i++ {
		empty := &tree{kids: []*tree{}}
		c, s, m, p := empty, empty, empty, empty
		if i < n {
			c = C.kids[i]
		}
		if i < len(S.kids) {
			s = S.kids[i]
		}
		if i < len(M.kids) {
			m = M.kids[i]
		}
		if i < len(P.kids) {
			p = P.kids[i]
		}
		rpi := leafTree(big.NewInt(0))
		if i < len(rp.kids) {
			rpi = rp.kids[i]
		}
		defs := []def{
			{"RP", "nat", rpi},
			{"C", "list Z", c},
			{"S", "list Z", s},
			{"M", "list (list Z)", m},
			{"P", "list (list Z)", p},
		}
		emit(fmt.Sprintf("PoseidonT%d.v", i+2), fmt.Sprintf("poseidon_t%d.txt", i+2), defs)
	}
}

func genGold() {
	pi := loadPkg("goldenposeidon")
	pi.pinned("init/tables") // C, S, M (circulant + diagonal), P as the model builds them
	need := func(n string) ast.Expr {
		e := pi.get(n)
		if e == nil {
			must(fmt.Errorf("goldenposeidon: %s not found", n))
		}
		return e
	}
	iv := func(n string) *tree {
		v, ok := evalInt(need(n), pi.env())
		if !ok {
			must(fmt.Errorf("goldenposeidon: %s not constant", n))
		}
		return leafTree(v)
	}
	defs := []def{
		{"NROUNDSF", "nat", iv("NROUNDSF")},
		{"NROUNDSP", "nat", iv("NROUNDSP")},
		{"CAPLEN", "nat", iv("CAPLEN")},
		{"mLen", "nat", iv("mLen")},
		{"mcirc", "list Z", buildTree(need("mcirc"), 10, pi.env())},
		{"mdiag", "list Z", buildTree(need("mdiag"), 10, pi.env())},
		{"c", "list Z", buildTree(need("c"), 10, pi.env())},
		{"s", "list Z", buildTree(need("s"), 10, pi.env())},
		{"p", "list (list Z)", buildTree(need("p"), 10, pi.env())},
	}
	emit("GoldTables.v", "gold_tables.txt", defs)
}

func genField(dir, vfile, txt string) {
	pi := loadPkg(dir)
	var defs []def
	arr := func(name string, e ast.Expr) {
		if e == nil {
			must(fmt.Errorf("%s: %s not found", dir, name))
		}
		defs = append(defs, def{name, "list Z", buildTree(e, 10, pi.env())})
	}
	arr("qElement", pi.get("qElement"))
	arr("rSquare", pi.get("rSquare"))
	// Legendre / sqrt exponents: the pinned init (shape fixed, literals read here)
	exps := pi.pinned("init/exponents")
	for _, t := range []struct{ target, name, what string }{
		{"_bLegendreExponentElement", "legendreExp", "legendre exponent"},
		{"_bSqrtExponentElement", "sqrtExp", "sqrt exponent"}} {
		s, b, ok := assignedStringCall(exps, t.target, localEnv(exps, pi))
		if !ok {
			must(fmt.Errorf("%s: assignment to %s not found in the pinned init", dir, t.target))
		}
		defs = append(defs, def{t.name, "Z", leafTree(bigFromString(s, b, t.what))})
	}
	// modulus: _modulus.SetString("...", base) in the pinned init; string AND base are read
	modStr, modBase, nmod := "", 0, 0
	ast.Inspect(pi.pinned("init/modulus").Body, func(n ast.Node) bool {
		if call, ok := n.(*ast.CallExpr); ok && exprText(call.Fun) == "_modulus.SetString" && len(call.Args) == 2 {
			s, ok1 := evalString(call.Args[0], pi.env())
			b, ok2 := evalInt(call.Args[1], pi.env())
			if !ok1 || !ok2 {
				must(fmt.Errorf("%s: arguments of _modulus.SetString", fset.Position(call.Pos())))
			}
			modStr, modBase = s, int(b.Int64())
			nmod++
		}
		return true
	})
	if nmod != 1 {
		must(fmt.Errorf("%s: expected exactly one _modulus.SetString(string, base) in the pinned init, found %d", dir, nmod))
	}
	defs = append(defs, def{"modulus", "Z", leafTree(bigFromString(modStr, modBase, "modulus"))})
	// Sqrt: the initial values of g and r (each defined exactly once in the function)
	sq := pi.funcs["Element.Sqrt"]
	if g := localComposite(sq, "g"); g != nil {
		defs = append(defs, def{"sqrt_g", "list Z", buildTree(g, 10, localEnv(sq, pi))})
	}
	if r := localComposite(sq, "r"); r != nil {
		v, ok := evalInt(r, localEnv(sq, pi))
		if !ok {
			must(fmt.Errorf("%s: initial value of r in Sqrt is not a constant expression", fset.Position(r.Pos())))
		}
		defs = append(defs, def{"sqrt_r", "Z", leafTree(v)})
	}
	// literal lists of the limb routines and friends
	names := []string{"_mulGeneric", "_fromMontGeneric", "_addGeneric", "_doubleGeneric", "_subGeneric",
		"_negGeneric", "_reduceGeneric", "Element.Halve", "Element.SetOne", "Element.Inverse",
		"Element.LexicographicallyLargest", "Element.Legendre", "Element.Sqrt", "mulByConstant",
		"Element.BitLen", "Element.Bit", "Element.Exp", "madd0", "madd1", "madd2", "madd3"}
	for _, n := range names {
		fd := pi.funcs[n]
		cn := "lits_" + strings.ReplaceAll(strings.TrimPrefix(n, "_"), ".", "_")
		lits := funcLits(fd)
		defs = append(defs, def{cn, "list Z", listTree(lits)})
		var bigl []*big.Int
		for _, v := range lits {
			if v.BitLen() > 16 {
				bigl = append(bigl, v)
			}
		}
		defs = append(defs, def{"big" + cn, "list Z", listTree(bigl)})
	}
	sort.SliceStable(defs, func(i, j int) bool { return false })
	emit(vfile, txt, defs)
}

// localEnv: the package constants plus the CONSTANTS declared inside the
// function; every other local name (variables, parameters) is known as a
// non-constant so that a reference to it is rejected.
func localEnv(fd *ast.FuncDecl, pi *pkgInfo) *env {
	en := pi.env()
	if fd == nil || fd.Body == nil {
		return en
	}
	seen := map[string]bool{}
	ast.Inspect(fd, func(n ast.Node) bool {
		switch t := n.(type) {
		case *ast.GenDecl:
			for _, sp := range t.Specs {
				vs, ok := sp.(*ast.ValueSpec)
				if !ok {
					continue
				}
				for i, nm := range vs.Names {
					if seen[nm.Name] {
						must(fmt.Errorf("%s: local %s declared twice in %s", fset.Position(nm.Pos()), nm.Name, fd.Name.Name))
					}
					seen[nm.Name] = true
					delete(en.consts, nm.Name)
					en.declared[nm.Name] = true
					if t.Tok == token.CONST && i < len(vs.Values) {
						en.consts[nm.Name] = vs.Values[i]
					}
				}
			}
		case *ast.AssignStmt:
			if t.Tok == token.DEFINE {
				for _, l := range t.Lhs {
					if id, ok := l.(*ast.Ident); ok && id.Name != "_" {
						delete(en.consts, id.Name)
						en.declared[id.Name] = true
					}
				}
			}
		case *ast.Field:
			for _, nm := range t.Names {
				delete(en.consts, nm.Name)
				en.declared[nm.Name] = true
			}
		}
		return true
	})
	return en
}

func genCurve() {
	bj := loadPkg("babyjub")
	co := loadPkg("constants")
	mi := loadPkg("mimc7")
	var defs []def
	// var Q, _ = new(big.Int).SetString(<constant string expression>, <base>): exactly this call;
	// string and base are read from the initialiser of Q (no fallback to qString)
	bigImported(co, "Q")
	qcall, isCall := co.get("Q").(*ast.CallExpr)
	if !isCall || len(qcall.Args) != 2 || !isNewBigIntMethod(qcall, "SetString") || len(co.specs["Q"].Names) != 2 || co.specs["Q"].Names[0].Name != "Q" {
		must(fmt.Errorf("constants: the initialiser of Q is not `var Q, _ = new(big.Int).SetString(<string>, <base>)`"))
	}
	qs, ok1 := evalString(qcall.Args[0], co.env())
	qb, ok2 := evalInt(qcall.Args[1], co.env())
	if !ok1 || !ok2 {
		must(fmt.Errorf("constants: arguments of the initialiser of Q are not constant expressions"))
	}
	defs = append(defs, def{"Q", "Z", leafTree(bigFromString(qs, int(qb.Int64()), "Q"))})
	for _, nm := range []string{"Zero", "One", "MinusOne"} {
		bigImported(co, nm)
		call, ok := co.get(nm).(*ast.CallExpr)
		if !ok || len(call.Args) != 1 || exprText(call.Fun) != "big.NewInt" || len(co.specs[nm].Names) != 1 {
			must(fmt.Errorf("constants: the initialiser of %s is not big.NewInt(<integer>)", nm))
		}
		v, ok := evalInt(call.Args[0], co.env())
		if !ok {
			must(fmt.Errorf("constants: %s value", nm))
		}
		defs = append(defs, def{nm, "Z", leafTree(v)})
	}
	// babyjub: init() interpreted statement by statement (curve.go)
	ci := interpCurveInit(bj)
	for _, t := range []struct{ target, name string }{{"A", "A"}, {"D", "D"}, {"Order", "Order"}, {"B8.X", "B8x"}, {"B8.Y", "B8y"}} {
		defs = append(defs, def{t.name, "Z", leafTree(ci.vals[t.target])})
	}
	shift := ci.shift
	defs = append(defs, def{"SubOrderShift", "Z", leafTree(shift)})
	defs = append(defs, def{"lits_pruneBuffer", "list Z", listTree(funcLits(bj.funcs["pruneBuffer"]))})
	defs = append(defs, def{"lits_SkToBigInt", "list Z", listTree(funcLits(bj.funcs["SkToBigInt"]))})
	defs = append(defs, def{"lits_PackSignY", "list Z", listTree(funcLits(bj.funcs["PackSignY"]))})
	defs = append(defs, def{"lits_UnpackSignY", "list Z", listTree(funcLits(bj.funcs["UnpackSignY"]))})
	defs = append(defs, def{"lits_PointCoordSign", "list Z", listTree(funcLits(bj.funcs["PointCoordSign"]))})
	// mimc7
	if !mi.consts["SEED"] {
		must(fmt.Errorf("mimc7: SEED is not a constant"))
	}
	seed, ok := evalString(mi.get("SEED"), mi.env())
	if !ok {
		must(fmt.Errorf("mimc7: SEED"))
	}
	var sb []*big.Int
	for _, c := range []byte(seed) {
		sb = append(sb, big.NewInt(int64(c)))
	}
	defs = append(defs, def{"mimc7_seed", "list Z", listTree(sb)})
	defs = append(defs, def{"lits_mimc7_generateConstantsData", "list Z", listTree(funcLits(mi.funcs["generateConstantsData"]))})
	defs = append(defs, def{"lits_mimc7_HashBytes", "list Z", listTree(funcLits(mi.funcs["HashBytes"]))})
	emit("CurveConsts.v", "curve_consts.txt", defs)
}

func main() {
	if len(os.Args) != 3 {
		fmt.Fprintln(os.Stderr, "usage: constgen <repo> <verif-dir>")
		os.Exit(2)
	}
	if os.Args[1] == "-pins" {
		repo = os.Args[2]
		printPins()
		return
	}
	repo, out = os.Args[1], os.Args[2]
	scanAll()
	genPoseidon()
	genGold()
	genField("ff", "FfConsts.v", "ff_consts.txt")
	genField("ffg", "FfgConsts.v", "ffg_consts.txt")
	genCurve()
	flush()
}

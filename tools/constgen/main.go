// constgen: the constants translator.  Parses the Go sources of the repository
// (go/parser, go/ast, go/constant; nothing is executed) and regenerates
//   <out>/coq/Gen/*.v          plain Gallina definitions (Z, list Z, ...)
//   <out>/_build/tables/*.txt  the same data for the OCaml driver
// Files are rewritten only when their content changes so that make rebuilds
// exactly the dependants.
package main

import (
	"bytes"
	"fmt"
	"go/ast"
	"go/constant"
	"go/parser"
	"go/token"
	"math/big"
	"os"
	"path/filepath"
	"sort"
	"strconv"
	"strings"
)

var repo, out string
var fset = token.NewFileSet()

type pkgInfo struct {
	files map[string]*ast.File
	vars  map[string]ast.Expr // package-level var/const name -> initialiser
	funcs map[string]*ast.FuncDecl
}

func must(err error) {
	if err != nil {
		fmt.Fprintln(os.Stderr, "constgen:", err)
		os.Exit(2)
	}
}

func loadPkg(dir string) *pkgInfo {
	pi := &pkgInfo{files: map[string]*ast.File{}, vars: map[string]ast.Expr{}, funcs: map[string]*ast.FuncDecl{}}
	ents, err := os.ReadDir(filepath.Join(repo, dir))
	must(err)
	for _, e := range ents {
		n := e.Name()
		if !strings.HasSuffix(n, ".go") || strings.HasSuffix(n, "_test.go") || strings.HasPrefix(n, "verif_") {
			continue
		}
		f, err := parser.ParseFile(fset, filepath.Join(repo, dir, n), nil, parser.ParseComments)
		must(err)
		pi.files[n] = f
		for _, d := range f.Decls {
			switch dd := d.(type) {
			case *ast.GenDecl:
				for _, sp := range dd.Specs {
					if vs, ok := sp.(*ast.ValueSpec); ok {
						for i, nm := range vs.Names {
							if i < len(vs.Values) {
								pi.vars[nm.Name] = vs.Values[i]
							} else if len(vs.Values) == 1 {
								pi.vars[nm.Name] = vs.Values[0]
							}
						}
					}
				}
			case *ast.FuncDecl:
				name := dd.Name.Name
				if dd.Recv != nil && len(dd.Recv.List) == 1 {
					name = recvName(dd.Recv.List[0].Type) + "." + name
				}
				// several init functions: keep them all under init#k
				if name == "init" {
					k := 0
					for {
						if _, ok := pi.funcs[fmt.Sprintf("init#%d", k)]; !ok {
							break
						}
						k++
					}
					name = fmt.Sprintf("init#%d", k)
				}
				if _, dup := pi.funcs[name]; !dup {
					pi.funcs[name] = dd
				}
			}
		}
	}
	return pi
}

func recvName(e ast.Expr) string {
	switch t := e.(type) {
	case *ast.StarExpr:
		return recvName(t.X)
	case *ast.Ident:
		return t.Name
	}
	return "?"
}

// evalInt evaluates an integer constant expression (literals, unary/binary ops, parens, conversions)
func evalInt(e ast.Expr, env map[string]ast.Expr) (*big.Int, bool) {
	switch t := e.(type) {
	case *ast.BasicLit:
		if t.Kind == token.INT || t.Kind == token.CHAR {
			v := constant.MakeFromLiteral(t.Value, t.Kind, 0)
			if bi, ok := constant.Val(constant.ToInt(v)).(*big.Int); ok {
				return new(big.Int).Set(bi), true
			}
			if i64, ok := constant.Val(constant.ToInt(v)).(int64); ok {
				return big.NewInt(i64), true
			}
		}
	case *ast.ParenExpr:
		return evalInt(t.X, env)
	case *ast.UnaryExpr:
		if v, ok := evalInt(t.X, env); ok {
			switch t.Op {
			case token.SUB:
				return v.Neg(v), true
			case token.ADD:
				return v, true
			}
		}
	case *ast.BinaryExpr:
		a, ok1 := evalInt(t.X, env)
		b, ok2 := evalInt(t.Y, env)
		if ok1 && ok2 {
			switch t.Op {
			case token.ADD:
				return a.Add(a, b), true
			case token.SUB:
				return a.Sub(a, b), true
			case token.MUL:
				return a.Mul(a, b), true
			case token.QUO:
				if b.Sign() != 0 {
					return a.Quo(a, b), true
				}
			case token.SHL:
				return a.Lsh(a, uint(b.Uint64())), true
			case token.SHR:
				return a.Rsh(a, uint(b.Uint64())), true
			}
		}
	case *ast.Ident:
		if env != nil {
			if ex, ok := env[t.Name]; ok {
				return evalInt(ex, env)
			}
		}
	case *ast.CallExpr: // uint64(x) style conversions
		if len(t.Args) == 1 {
			if id, ok := t.Fun.(*ast.Ident); ok && (strings.HasPrefix(id.Name, "uint") || strings.HasPrefix(id.Name, "int")) {
				return evalInt(t.Args[0], env)
			}
		}
	}
	return nil, false
}

func evalString(e ast.Expr, env map[string]ast.Expr) (string, bool) {
	switch t := e.(type) {
	case *ast.BasicLit:
		if t.Kind == token.STRING {
			s, err := strconv.Unquote(t.Value)
			if err == nil {
				return s, true
			}
		}
	case *ast.Ident:
		if env != nil {
			if ex, ok := env[t.Name]; ok {
				return evalString(ex, env)
			}
		}
	case *ast.BinaryExpr:
		if t.Op == token.ADD {
			a, ok1 := evalString(t.X, env)
			b, ok2 := evalString(t.Y, env)
			return a + b, ok1 && ok2
		}
	case *ast.ParenExpr:
		return evalString(t.X, env)
	}
	return "", false
}

// tree: nested composite literal of ints or of strings (parsed with base)
type tree struct {
	leaf *big.Int
	kids []*tree
}

func buildTree(e ast.Expr, base int, env map[string]ast.Expr) *tree {
	switch t := e.(type) {
	case *ast.CompositeLit:
		tr := &tree{}
		for _, el := range t.Elts {
			if kv, ok := el.(*ast.KeyValueExpr); ok {
				el = kv.Value
			}
			tr.kids = append(tr.kids, buildTree(el, base, env))
		}
		return tr
	default:
		if s, ok := evalString(e, env); ok {
			v, ok2 := new(big.Int).SetString(s, base)
			if !ok2 {
				must(fmt.Errorf("cannot parse %q in base %d at %s", s, base, fset.Position(e.Pos())))
			}
			return &tree{leaf: v}
		}
		if v, ok := evalInt(e, env); ok {
			return &tree{leaf: v}
		}
		must(fmt.Errorf("unsupported table element at %s", fset.Position(e.Pos())))
	}
	return nil
}

func structField(e ast.Expr, field string) ast.Expr {
	cl, ok := e.(*ast.CompositeLit)
	if !ok {
		return nil
	}
	for _, el := range cl.Elts {
		if kv, ok := el.(*ast.KeyValueExpr); ok {
			if id, ok := kv.Key.(*ast.Ident); ok && id.Name == field {
				return kv.Value
			}
		}
	}
	return nil
}

func (t *tree) coq(b *bytes.Buffer) {
	if t.leaf != nil {
		if t.leaf.Sign() < 0 {
			b.WriteString("(" + t.leaf.String() + ")")
		} else if t.leaf.BitLen() > 64 {
			// hexadecimal: Coq 8.16 interprets big decimal literals ~3x slower
			b.WriteString("0x" + t.leaf.Text(16))
		} else {
			b.WriteString(t.leaf.String())
		}
		return
	}
	b.WriteString("[")
	for i, k := range t.kids {
		if i > 0 {
			b.WriteString(";\n ")
		}
		k.coq(b)
	}
	b.WriteString("]")
}

func (t *tree) txt(b *bytes.Buffer) { // one line: nested with brackets, space separated
	if t.leaf != nil {
		b.WriteString(t.leaf.String())
		return
	}
	b.WriteString("[")
	for i, k := range t.kids {
		if i > 0 {
			b.WriteString(" ")
		}
		k.txt(b)
	}
	b.WriteString("]")
}

func leafTree(v *big.Int) *tree { return &tree{leaf: v} }
func listTree(vs []*big.Int) *tree {
	t := &tree{kids: []*tree{}}
	for _, v := range vs {
		t.kids = append(t.kids, leafTree(v))
	}
	return t
}

func writeIfChanged(path string, content []byte) {
	old, err := os.ReadFile(path)
	if err == nil && bytes.Equal(old, content) {
		return
	}
	must(os.MkdirAll(filepath.Dir(path), 0o755))
	must(os.WriteFile(path, content, 0o644))
	fmt.Println("constgen: wrote", path)
}

const header = "(* GENERATED by tools/constgen from the repository sources on every run. DO NOT EDIT. *)\nFrom Coq Require Import ZArith List.\nImport ListNotations.\nLocal Open Scope Z_scope.\n\n"

type def struct {
	name string
	typ  string // "Z", "list Z", "list (list Z)", "nat", "list nat"
	t    *tree
}

func emit(vfile string, txtfile string, defs []def) {
	var vb, tb bytes.Buffer
	vb.WriteString(header)
	for _, d := range defs {
		if strings.Contains(d.typ, "nat") {
			vb.WriteString(fmt.Sprintf("Definition %s : %s := (", d.name, d.typ))
			d.t.coq(&vb)
			vb.WriteString(")%nat.\n")
		} else {
			vb.WriteString(fmt.Sprintf("Definition %s : %s :=\n ", d.name, d.typ))
			d.t.coq(&vb)
			vb.WriteString(".\n")
		}
		tb.WriteString(d.name + " ")
		d.t.txt(&tb)
		tb.WriteString("\n")
	}
	writeIfChanged(filepath.Join(out, "coq", "Gen", vfile), vb.Bytes())
	if txtfile != "" {
		writeIfChanged(filepath.Join(out, "_build", "tables", txtfile), tb.Bytes())
	}
}

// all integer literals of a function body, in source order
func funcLits(fd *ast.FuncDecl) []*big.Int {
	var res []*big.Int
	if fd == nil || fd.Body == nil {
		return res
	}
	ast.Inspect(fd.Body, func(n ast.Node) bool {
		if bl, ok := n.(*ast.BasicLit); ok && bl.Kind == token.INT {
			if v, ok := evalInt(bl, nil); ok {
				res = append(res, v)
			}
		}
		return true
	})
	return res
}

// find, inside function fd, the composite literal assigned/declared to variable `name`
func localComposite(fd *ast.FuncDecl, name string) ast.Expr {
	var found ast.Expr
	if fd == nil {
		return nil
	}
	ast.Inspect(fd.Body, func(n ast.Node) bool {
		switch s := n.(type) {
		case *ast.AssignStmt:
			for i, l := range s.Lhs {
				if id, ok := l.(*ast.Ident); ok && id.Name == name && i < len(s.Rhs) && found == nil {
					found = s.Rhs[i]
				}
			}
		case *ast.ValueSpec:
			for i, nm := range s.Names {
				if nm.Name == name && i < len(s.Values) && found == nil {
					found = s.Values[i]
				}
			}
		}
		return true
	})
	return found
}

// first string literal argument of a call to <anything>.SetString(lit, base) / NewIntFromString(lit)
// whose result is assigned to `target` (ident or selector text)
func exprText(e ast.Expr) string {
	switch t := e.(type) {
	case *ast.Ident:
		return t.Name
	case *ast.SelectorExpr:
		return exprText(t.X) + "." + t.Sel.Name
	}
	return ""
}

func assignedStringCall(fd *ast.FuncDecl, target string, env map[string]ast.Expr) (string, int, bool) {
	var s string
	base := 10
	ok := false
	if fd == nil {
		return "", 0, false
	}
	ast.Inspect(fd.Body, func(n ast.Node) bool {
		as, isAs := n.(*ast.AssignStmt)
		if !isAs || ok {
			return true
		}
		if len(as.Lhs) == 0 || exprText(as.Lhs[0]) != target || len(as.Rhs) == 0 {
			return true
		}
		if call, isCall := as.Rhs[0].(*ast.CallExpr); isCall && len(call.Args) >= 1 {
			if str, ok2 := evalString(call.Args[0], env); ok2 {
				s = str
				if len(call.Args) >= 2 {
					if b, ok3 := evalInt(call.Args[1], env); ok3 {
						base = int(b.Int64())
					}
				}
				ok = true
			}
		}
		return true
	})
	return s, base, ok
}

func bigFromString(s string, base int, what string) *big.Int {
	v, ok := new(big.Int).SetString(s, base)
	if !ok {
		must(fmt.Errorf("cannot parse %s literal %q", what, s))
	}
	return v
}

func genPoseidon() {
	pi := loadPkg("poseidon")
	cs := pi.vars["cs"]
	if cs == nil {
		must(fmt.Errorf("poseidon: var cs not found"))
	}
	get := func(f string) *tree {
		e := structField(cs, f)
		if e == nil {
			must(fmt.Errorf("poseidon: cs.%s not found", f))
		}
		return buildTree(e, 16, pi.vars)
	}
	C, S, M, P := get("C"), get("S"), get("M"), get("P")
	rf, ok := evalInt(pi.vars["NROUNDSF"], pi.vars)
	if !ok {
		must(fmt.Errorf("poseidon: NROUNDSF"))
	}
	rp := buildTree(pi.vars["NROUNDSP"], 10, pi.vars)
	n := len(C.kids)
	meta := []def{
		{"NROUNDSF", "nat", leafTree(rf)},
		{"NROUNDSP", "list nat", rp},
		{"nC", "nat", leafTree(big.NewInt(int64(len(C.kids))))},
		{"nS", "nat", leafTree(big.NewInt(int64(len(S.kids))))},
		{"nM", "nat", leafTree(big.NewInt(int64(len(M.kids))))},
		{"nP", "nat", leafTree(big.NewInt(int64(len(P.kids))))},
	}
	emit("PoseidonMeta.v", "poseidon_meta.txt", meta)
	for i := 0; i < 16; i++ {
		empty := &tree{kids: []*tree{}}
		c, s, m, p := empty, empty, empty, empty
		if i < n {
			c = C.kids[i]
		}
		if i < len(S.kids) {
			s = S.kids[i]
		}
		if i < len(M.kids) {
			m = M.kids[i]
		}
		if i < len(P.kids) {
			p = P.kids[i]
		}
		rpi := leafTree(big.NewInt(0))
		if i < len(rp.kids) {
			rpi = rp.kids[i]
		}
		defs := []def{
			{"RP", "nat", rpi},
			{"C", "list Z", c},
			{"S", "list Z", s},
			{"M", "list (list Z)", m},
			{"P", "list (list Z)", p},
		}
		emit(fmt.Sprintf("PoseidonT%d.v", i+2), fmt.Sprintf("poseidon_t%d.txt", i+2), defs)
	}
}

func genGold() {
	pi := loadPkg("goldenposeidon")
	need := func(n string) ast.Expr {
		e := pi.vars[n]
		if e == nil {
			must(fmt.Errorf("goldenposeidon: %s not found", n))
		}
		return e
	}
	iv := func(n string) *tree {
		v, ok := evalInt(need(n), pi.vars)
		if !ok {
			must(fmt.Errorf("goldenposeidon: %s not constant", n))
		}
		return leafTree(v)
	}
	defs := []def{
		{"NROUNDSF", "nat", iv("NROUNDSF")},
		{"NROUNDSP", "nat", iv("NROUNDSP")},
		{"CAPLEN", "nat", iv("CAPLEN")},
		{"mLen", "nat", iv("mLen")},
		{"mcirc", "list Z", buildTree(need("mcirc"), 10, pi.vars)},
		{"mdiag", "list Z", buildTree(need("mdiag"), 10, pi.vars)},
		{"c", "list Z", buildTree(need("c"), 10, pi.vars)},
		{"s", "list Z", buildTree(need("s"), 10, pi.vars)},
		{"p", "list (list Z)", buildTree(need("p"), 10, pi.vars)},
	}
	emit("GoldTables.v", "gold_tables.txt", defs)
}

func genField(dir, vfile, txt string) {
	pi := loadPkg(dir)
	var defs []def
	arr := func(name string, e ast.Expr) {
		if e == nil {
			must(fmt.Errorf("%s: %s not found", dir, name))
		}
		defs = append(defs, def{name, "list Z", buildTree(e, 10, pi.vars)})
	}
	arr("qElement", pi.vars["qElement"])
	arr("rSquare", pi.vars["rSquare"])
	// modulus string: _modulus.SetString("...", 10) inside an init
	var modStr string
	for name, fd := range pi.funcs {
		if !strings.HasPrefix(name, "init#") {
			continue
		}
		ast.Inspect(fd.Body, func(n ast.Node) bool {
			if call, ok := n.(*ast.CallExpr); ok {
				if exprText(call.Fun) == "_modulus.SetString" && len(call.Args) >= 1 {
					if s, ok := evalString(call.Args[0], pi.vars); ok {
						modStr = s
					}
				}
			}
			return true
		})
		// Legendre / sqrt exponents
		if s, b, ok := assignedStringCall(fd, "_bLegendreExponentElement", localEnv(fd, pi.vars)); ok {
			defs = append(defs, def{"legendreExp", "Z", leafTree(bigFromString(s, b, "legendre exponent"))})
		}
		if s, b, ok := assignedStringCall(fd, "_bSqrtExponentElement", localEnv(fd, pi.vars)); ok {
			defs = append(defs, def{"sqrtExp", "Z", leafTree(bigFromString(s, b, "sqrt exponent"))})
		}
	}
	if modStr == "" {
		must(fmt.Errorf("%s: modulus string not found", dir))
	}
	defs = append(defs, def{"modulus", "Z", leafTree(bigFromString(modStr, 10, "modulus"))})
	// Sqrt: g and r
	sq := pi.funcs["Element.Sqrt"]
	if g := localComposite(sq, "g"); g != nil {
		defs = append(defs, def{"sqrt_g", "list Z", buildTree(g, 10, pi.vars)})
	}
	if r := localComposite(sq, "r"); r != nil {
		if v, ok := evalInt(r, pi.vars); ok {
			defs = append(defs, def{"sqrt_r", "Z", leafTree(v)})
		}
	}
	// literal lists of the limb routines and friends
	names := []string{"_mulGeneric", "_fromMontGeneric", "_addGeneric", "_doubleGeneric", "_subGeneric",
		"_negGeneric", "_reduceGeneric", "Element.Halve", "Element.SetOne", "Element.Inverse",
		"Element.LexicographicallyLargest", "Element.Legendre", "Element.Sqrt", "mulByConstant",
		"Element.BitLen", "Element.Bit", "Element.Exp", "madd0", "madd1", "madd2", "madd3"}
	for _, n := range names {
		fd := pi.funcs[n]
		cn := "lits_" + strings.ReplaceAll(strings.TrimPrefix(n, "_"), ".", "_")
		lits := funcLits(fd)
		defs = append(defs, def{cn, "list Z", listTree(lits)})
		var bigl []*big.Int
		for _, v := range lits {
			if v.BitLen() > 16 {
				bigl = append(bigl, v)
			}
		}
		defs = append(defs, def{"big" + cn, "list Z", listTree(bigl)})
	}
	sort.SliceStable(defs, func(i, j int) bool { return false })
	emit(vfile, txt, defs)
}

// localEnv: package vars plus constants declared inside the function
func localEnv(fd *ast.FuncDecl, pkg map[string]ast.Expr) map[string]ast.Expr {
	env := map[string]ast.Expr{}
	for k, v := range pkg {
		env[k] = v
	}
	ast.Inspect(fd.Body, func(n ast.Node) bool {
		if vs, ok := n.(*ast.ValueSpec); ok {
			for i, nm := range vs.Names {
				if i < len(vs.Values) {
					env[nm.Name] = vs.Values[i]
				}
			}
		}
		return true
	})
	return env
}

func genCurve() {
	bj := loadPkg("babyjub")
	co := loadPkg("constants")
	mi := loadPkg("mimc7")
	var defs []def
	// var Q, _ = new(big.Int).SetString(<string expression>, <base>): the string may be a named
	// constant (qString), a literal or a concatenation; what counts is the initialiser of Q
	qbase := 10
	qs, ok := "", false
	if call, isCall := co.vars["Q"].(*ast.CallExpr); isCall && len(call.Args) >= 1 {
		qs, ok = evalString(call.Args[0], co.vars)
		if len(call.Args) >= 2 {
			if b, ok3 := evalInt(call.Args[1], co.vars); ok3 {
				qbase = int(b.Int64())
			}
		}
	}
	if !ok {
		qs, ok = evalString(co.vars["qString"], co.vars)
	}
	if !ok {
		must(fmt.Errorf("constants: initialiser of Q"))
	}
	defs = append(defs, def{"Q", "Z", leafTree(bigFromString(qs, qbase, "Q"))})
	for _, nm := range []string{"Zero", "One", "MinusOne"} {
		call, ok := co.vars[nm].(*ast.CallExpr)
		if !ok || len(call.Args) != 1 {
			must(fmt.Errorf("constants: %s", nm))
		}
		v, ok := evalInt(call.Args[0], co.vars)
		if !ok {
			must(fmt.Errorf("constants: %s value", nm))
		}
		defs = append(defs, def{nm, "Z", leafTree(v)})
	}
	var initFd *ast.FuncDecl
	for name, fd := range bj.funcs {
		if strings.HasPrefix(name, "init#") {
			initFd = fd
		}
	}
	for _, t := range []struct{ target, name string }{{"A", "A"}, {"D", "D"}, {"Order", "Order"}, {"B8.X", "B8x"}, {"B8.Y", "B8y"}} {
		s, b, ok := assignedStringCall(initFd, t.target, bj.vars)
		if !ok {
			must(fmt.Errorf("babyjub: init assignment to %s not found", t.target))
		}
		defs = append(defs, def{t.name, "Z", leafTree(bigFromString(s, b, t.target))})
	}
	// SubOrder = new(big.Int).Rsh(Order, k)
	shift := big.NewInt(-1)
	ast.Inspect(initFd.Body, func(n ast.Node) bool {
		if as, ok := n.(*ast.AssignStmt); ok && len(as.Lhs) == 1 && exprText(as.Lhs[0]) == "SubOrder" {
			if call, ok := as.Rhs[0].(*ast.CallExpr); ok && len(call.Args) == 2 {
				if sel, ok := call.Fun.(*ast.SelectorExpr); ok && sel.Sel.Name == "Rsh" && exprText(call.Args[0]) == "Order" {
					if v, ok := evalInt(call.Args[1], bj.vars); ok {
						shift = v
					}
				}
			}
		}
		return true
	})
	defs = append(defs, def{"SubOrderShift", "Z", leafTree(shift)})
	defs = append(defs, def{"lits_pruneBuffer", "list Z", listTree(funcLits(bj.funcs["pruneBuffer"]))})
	defs = append(defs, def{"lits_SkToBigInt", "list Z", listTree(funcLits(bj.funcs["SkToBigInt"]))})
	defs = append(defs, def{"lits_PackSignY", "list Z", listTree(funcLits(bj.funcs["PackSignY"]))})
	defs = append(defs, def{"lits_UnpackSignY", "list Z", listTree(funcLits(bj.funcs["UnpackSignY"]))})
	defs = append(defs, def{"lits_PointCoordSign", "list Z", listTree(funcLits(bj.funcs["PointCoordSign"]))})
	// mimc7
	seed, ok := evalString(mi.vars["SEED"], mi.vars)
	if !ok {
		must(fmt.Errorf("mimc7: SEED"))
	}
	var sb []*big.Int
	for _, c := range []byte(seed) {
		sb = append(sb, big.NewInt(int64(c)))
	}
	defs = append(defs, def{"mimc7_seed", "list Z", listTree(sb)})
	defs = append(defs, def{"lits_mimc7_generateConstantsData", "list Z", listTree(funcLits(mi.funcs["generateConstantsData"]))})
	defs = append(defs, def{"lits_mimc7_HashBytes", "list Z", listTree(funcLits(mi.funcs["HashBytes"]))})
	emit("CurveConsts.v", "curve_consts.txt", defs)
}

func main() {
	if len(os.Args) != 3 {
		fmt.Fprintln(os.Stderr, "usage: constgen <repo> <verif-dir>")
		os.Exit(2)
	}
	repo, out = os.Args[1], os.Args[2]
	genPoseidon()
	genGold()
	genField("ff", "FfConsts.v", "ff_consts.txt")
	genField("ffg", "FfgConsts.v", "ffg_consts.txt")
	genCurve()
}

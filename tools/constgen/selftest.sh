#!/bin/bash
# Self-test of constgen's fail-closed rules on seeded source changes (scratch
# copies only: /repo and /verif are never modified).  Every change below makes
# the program use a constant or table that differs from its initialiser (or
# makes the initialiser ambiguous); constgen must either exit non-zero or emit
# different data.  The unmodified source must give byte-identical output.
#   REPO=/repo VERIF=/verif tools/constgen/selftest.sh
set -u
REPO=${REPO:-/repo}; VERIF=${VERIF:-/verif}; CG=$VERIF/_build/bin/constgen
S=$(mktemp -d /tmp/constgen_selftest.XXXXXX); trap 'rm -rf "$S"' EXIT
fail=0
gen() { rm -rf "$S/out"; mkdir -p "$S/out/coq/Gen" "$S/out/_build/tables"; "$CG" "$1" "$S/out" >"$S/log" 2>&1; }
same() { # generated data identical to $VERIF's
  for f in PoseidonMeta GoldTables FfConsts FfgConsts CurveConsts PoseidonT2 PoseidonT9 PoseidonT17; do
    cmp -s "$VERIF/coq/Gen/$f.v" "$S/out/coq/Gen/$f.v" || return 1; done; return 0; }
fresh() { rm -rf "$S/r"; mkdir "$S/r"; for d in babyjub constants ff ffg goldenposeidon keccak256 mimc7 poseidon utils; do cp -r "$REPO/$d" "$S/r/$d"; done; cp "$REPO/go.mod" "$S/r/"; }
# expect <name> reject|differ
expect() {
  if gen "$S/r"; then
    if same; then echo "$1: NOT DETECTED (exit 0, identical data)"; fail=1
    elif [ "$2" = differ ]; then echo "$1: ok (rendered: data differs)"
    else echo "$1: ok? exit 0 with different data (expected a rejection)"; fi
  else echo "$1: ok (rejected: $(grep -v wrote "$S/log" | head -1 | sed "s|$S/r/||g" | cut -c1-150))"; fi
}
put() { mkdir -p "$(dirname "$S/r/$1")"; printf "$2" > "$S/r/$1"; }
sub() { python3 - "$S/r/$1" "$2" "$3" <<'PY'
import sys
p,a,b=sys.argv[1:4]; s=open(p).read()
if a not in s: print("selftest: pattern not found in",p); sys.exit(1)
open(p,'w').write(s.replace(a,b,1))
PY
}
fresh; gen "$S/r" && same && echo "baseline: ok (exit 0, byte-identical data)" || { echo "baseline: FAILED"; cat "$S/log"; exit 1; }

fresh; put poseidon/zz.go 'package poseidon\n\nfunc init() { NROUNDSP[1] = 56 }\n'; expect "write in another init" reject
fresh; put poseidon/a.go 'package poseidon\n\nfunc init() { cs.C[0][0] = "0" }\n'; expect "string table changed before conversion" reject
fresh; put poseidon/zz.go 'package poseidon\n\nfunc init() { c.c[0][0].SetUint64(0) }\n'; expect "converted table changed in place" reject
fresh; put poseidon/zz.go 'package poseidon\n\nvar _ = tweak()\n\nfunc tweak() int { NROUNDSP[1] = 56; return 0 }\n'; expect "write from a package-level initialiser" reject
fresh; put poseidon/verif_more.go 'package poseidon\n\nfunc init() { NROUNDSP[1] = 56 }\n'; expect "untagged file named verif_*" reject
fresh; put poseidon/zz.go '//go:build cgo\n\npackage poseidon\n\nfunc init() { NROUNDSP[1] = 56 }\n'; expect "write in a cgo-tagged file" reject
fresh; put poseidon/zz.go 'package poseidon\n\nfunc init() {\n\tx := NROUNDSP\n\tx[1] = 56\n}\n'; expect "write through a slice alias" reject
fresh; put poseidon/zz.go 'package poseidon\n\nfunc init() {\n\trow := c.c[0]\n\trow[0] = row[1]\n}\n'; expect "write through an interior alias" reject
fresh; put babyjub/zz.go 'package babyjub\n\nimport (\n\t"github.com/iden3/go-iden3-crypto/v2/constants"\n\t"github.com/iden3/go-iden3-crypto/v2/poseidon"\n)\n\nfunc init() {\n\tposeidon.NROUNDSP[1] = 56\n\tconstants.Q.Sub(constants.Q, constants.One)\n}\n'; expect "write from another package" reject
fresh; put babyjub/zz.go 'package babyjub\n\nimport (\n\t"math/big"\n\t_ "unsafe"\n)\n\n//go:linkname myQ github.com/iden3/go-iden3-crypto/v2/constants.Q\nvar myQ *big.Int\n\nfunc init() { myQ.SetInt64(17) }\n'; expect "go:linkname to constants.Q" reject
fresh; put babyjub/zz.go 'package babyjub\n\nimport "github.com/iden3/go-iden3-crypto/v2/utils"\n\nfunc init() { D, _ = utils.NewIntFromString("168697") }\n'; expect "second init assigns D" reject
fresh; sub poseidon/poseidon.go 'const NROUNDSF = 8' ''; put poseidon/r_linux.go '//go:build linux\n\npackage poseidon\n\nconst NROUNDSF = 6\n'; put poseidon/r_other.go '//go:build !linux\n\npackage poseidon\n\nconst NROUNDSF = 8\n'; expect "constant defined per build constraint" reject
fresh; sub ff/element.go 'var rSquare = Element{
	1997599621687373223,
	6052339484930628067,' 'var rSquare = Element{
	1: 1997599621687373223,
	0: 6052339484930628067,'; expect "keyed table literal" reject
fresh; sub ff/element.go '808495617", 10)' '808495617", 16)'; expect "modulus parsed in base 16" differ
fresh; sub ff/element.go '	_bSqrtExponentElement, _ = new(big.Int).SetString(sqrtExponentElement, 16)' '	_bSqrtExponentElement, _ = new(big.Int).SetString(sqrtExponentElement, 16)
	_bLegendreExponentElement = new(big.Int).Rsh(_bLegendreExponentElement, 1)'; expect "exponent reassigned in init" reject
fresh; sub poseidon/constants.go 'SetString(cs.C[i][j], 16)' 'SetString(cs.C[i][len(cs.C[i])-1-j], 16)'; expect "conversion init reads C reversed" reject
fresh; sub goldenposeidon/constants.go 'mcirc[(i-j+mLen)%mLen]' 'mcirc[(j-i+mLen)%mLen]'; expect "circulant built transposed" reject
fresh; sub babyjub/babyjub.go 'Dff = ff.NewElement().SetBigInt(D)' 'Dff = ff.NewElement().SetBigInt(A)'; expect "Dff built from A" reject
fresh; sub babyjub/babyjub.go 'Rsh(Order, 3) //nolint:gomnd' 'Rsh(Order, 3) //nolint:gomnd
	SubOrder.Rsh(SubOrder, 1)'; expect "SubOrder shifted again" reject
fresh; sub babyjub/babyjub.go 'Rsh(Order, 3)' 'Rsh(Order, 2)'; expect "SubOrder shift 2" differ
fresh; sub ff/element.go '	r := uint64(28)' '	r := uint64(28) * sqrtW / sqrtW'; sub ff/element.go 'var bigIntPool' 'var sqrtW uint64 = 1 << 62

var bigIntPool'; expect "wrapping arithmetic on a variable" reject
fresh; sub poseidon/poseidon.go '[]int{56, 57,' '[]int{56, intf(58),'; sub poseidon/poseidon.go 'func zero()' 'func intf(x int) int { return x - 1 }

func zero()'; expect "helper named like a conversion" reject
fresh; sub constants/constants.go 'SetString(qString, 10)' 'SetString(qString[:76], 10)'; expect "Q from a slice of qString" reject
[ $fail = 0 ] && echo "selftest: every seeded change was detected" || echo "selftest: SOME SEEDED CHANGES WERE NOT DETECTED"
exit $fail

package main

import (
	"fmt"
	"go/ast"
	"os"
	"strings"
)

type gen struct {
	repo     string
	pkgs     map[string]*pkg
	done     map[string]*summary
	inpr     map[string]bool
	order    []string
	nfail    int
	loops    bool                // loops mode: loops are translated (Gen/BigIntLoops.v)
	aux      map[string][]string // loops mode: auxiliary definitions per package (tables of literals)
	auxNames map[string][]string
}

var pkgOrder = []string{"utils", "mimc7", "poseidon", "babyjub"}

func pkgRank(n string) int {
	for i, p := range pkgOrder {
		if p == n {
			return i
		}
	}
	return -1
}

// transErr: a function cannot be translated.  It is raised by tr.fail /
// pkg.failAt, caught per function in summaryOf: the function gets a marker
// definition instead of its translation and the run goes on (exit status 3).
type transErr struct{ msg string }

func coqNameOf(pn, key string) string { return pn + "_" + strings.ReplaceAll(key, ".", "_") }

func (g *gen) summaryOf(pn, key string, from *tr) (sm *summary) {
	id := pn + "." + key
	if sm, ok := g.done[id]; ok {
		return sm
	}
	p, ok := g.pkgs[pn]
	if !ok {
		fatalf("package %s is not loaded (call of %s)", pn, id)
	}
	fd, ok := p.funcs[key]
	if from != nil {
		// problems of the CALLER: raised before this function gets its own handler
		if !ok || fd.Body == nil {
			from.fail("call of %s, which is neither a function of the repository nor in the table of external functions", id)
		}
		if pkgRank(from.p.name) < pkgRank(pn) {
			from.fail("call from package %s into package %s: the generated file orders packages %v", from.p.name, pn, pkgOrder)
		}
	}
	defer func() {
		r := recover()
		if r == nil {
			return
		}
		te, isTe := r.(transErr)
		if !isTe {
			panic(r)
		}
		fmt.Fprintln(os.Stderr, "bigintgen: ERROR: "+te.msg)
		name := coqNameOf(pn, key)
		sm = &summary{key: key, coqName: name, failed: true, retAlias: -1, resParam: -1,
			text: "(* " + id + ": TRANSLATION FAILED (see the message of bigintgen); the definition\n   " + name +
				" is deliberately missing, so that only its equality lemma breaks. *)\n" +
				"Definition " + name + "__TRANSLATION_FAILED : unit := tt.\n"}
		delete(g.inpr, id)
		g.done[id] = sm
		g.order = append(g.order, id)
		g.nfail++
	}()
	if !ok || fd.Body == nil {
		panic(transErr{"function " + id + " not found in the repository"})
	}
	if g.inpr[id] {
		panic(transErr{p.pos(fd) + ": recursion through " + id})
	}
	g.inpr[id] = true
	sm = g.translate(p, key, fd)
	delete(g.inpr, id)
	g.done[id] = sm
	g.order = append(g.order, id)
	return sm
}

func (g *gen) newTr(p *pkg, key string, fd *ast.FuncDecl, resParam int, recvMode bool, aliasArg int) *tr {
	t := &tr{g: g, p: p, fd: fd, key: key, env: map[string]*binding{}, paramRead: map[int]bool{},
		writes: map[int]bool{}, retAlias: -2, resParam: resParam, secUsed: map[string]bool{},
		globals: map[string]*val{}, recvMode: recvMode, aliasArg: aliasArg, resAlias: map[int]bool{}}
	_, t.destRecv = destinations[p.name+"."+key]
	add := func(name string, ty *typ, recv bool) {
		i := len(t.params)
		if recvMode && i == aliasArg && i > 0 {
			// the argument IS the receiver: same object, no Coq binder
			rv := t.params[0].v
			if !compat(rv.t, ty) {
				t.fail("parameter %s cannot be the receiver: type %s", name, ty)
			}
			t.params = append(t.params, &param{name: sanitize(name), t: ty, v: rv, alias: true})
			t.env[name] = &binding{v: rv}
			return
		}
		if name == "" || name == "_" {
			name = "arg" + string(rune('0'+i))
		}
		cn := sanitize(name)
		var v *val
		switch ty.k {
		case kZ, kFe:
			c := t.newCell(cn, cn, oParam)
			c.pidx = i
			if nilableParams[p.name+"."+key][name] {
				c.nilable = true
				c.guard = "the parameter may be nil: test it with == nil first"
			}
			v = &val{t: ty, c: c}
		case kArr:
			c := t.newCell(cn, cn, oLocal)
			c.slen = ty.n
			v = &val{t: ty, c: c}
		case kArrPtr:
			c := t.newCell(cn, cn, oParam)
			c.pidx, c.slen = i, ty.n
			v = &val{t: ty, c: c}
		case kStruct:
			org := oParamVal
			if ty.ptr {
				org = oParam
			}
			o := t.newObject(ty.sd, cn, org)
			o.pidx, o.hint, o.pw = i, cn, true
			v = &val{t: ty, o: o}
		case kSlice:
			v = &val{t: ty, e: cn, spare: true} // (the caller's slice may have spare capacity: append could write into it)
		case kBool, kInt, kZList, kIface:
			v = &val{t: ty, e: cn}
		case kList:
			if intList(ty) {
				// the callee may write the elements in place
				c := t.newCell(cn, cn, oParam)
				c.pidx, c.ty = i, "list Z"
				v = &val{t: ty, c: c}
			} else {
				v = &val{t: ty, e: cn}
			}
		case kByte:
			v = &val{t: ty, e: cn}
		default:
			t.fail("parameter %s of unsupported type %s", name, ty)
		}
		t.params = append(t.params, &param{name: cn, t: ty, v: v, recv: recv})
		t.env[name] = &binding{v: v}
	}
	isVariadic := func(f *ast.Field) bool { _, ok := f.Type.(*ast.Ellipsis); return ok }
	if fd.Recv != nil {
		f := fd.Recv.List[0]
		n := ""
		if len(f.Names) == 1 {
			n = f.Names[0].Name
		}
		add(n, p.resolveType(f.Type), true)
	}
	for _, f := range fd.Type.Params.List {
		ty := p.resolveType(f.Type)
		if len(f.Names) == 0 {
			add("", ty, false)
		}
		for _, n := range f.Names {
			add(n.Name, ty, false)
		}
		if isVariadic(f) {
			t.params[len(t.params)-1].variadic = true
		}
	}
	if fd.Type.Results != nil {
		for _, f := range fd.Type.Results.List {
			if len(f.Names) != 0 {
				t.fail("named results")
			}
			ty := p.resolveType(f.Type)
			if ty.k == kErr {
				t.hasErr = true
				continue
			}
			if t.hasErr {
				t.fail("the error is not the last result")
			}
			t.results = append(t.results, ty)
		}
	}
	t.log = nil
	return t
}

func (g *gen) translate(p *pkg, key string, fd *ast.FuncDecl) *summary {
	resParam := -1
	var t *tr
	var body string
	for pass := 0; ; pass++ {
		t = g.newTr(p, key, fd, resParam, false, -1)
		stmts := fd.Body.List
		k := func() string {
			if len(t.results) == 0 && !t.hasErr {
				return t.success(nil)
			}
			t.fail("missing return")
			return ""
		}
		if gc, ok := guardCuts[p.name+"."+key]; ok && !g.loops {
			stmts, k = t.applyGuardCut(gc, stmts)
		}
		body = t.block(stmts, k)
		if len(t.results) == 0 && resParam < 0 && len(t.writes) > 0 {
			if len(t.writes) != 1 || pass > 0 {
				t.fail("a function without result that writes several parameters")
			}
			for i := range t.writes {
				resParam = i
			}
			continue
		}
		break
	}
	sm := &summary{key: key, params: t.params, results: t.results, hasErr: t.hasErr, writes: t.writes,
		retAlias: -1, resParam: resParam}
	sm.coqName = coqNameOf(p.name, key)
	if t.retAlias >= 0 {
		sm.retAlias = t.retAlias
	}
	sm.inplace, sm.destRecv, sm.resAlias = t.inplace, t.destRecv, t.resAlias
	for i := range t.writes {
		if i != sm.retAlias && i != sm.resParam && !(i == 0 && t.destRecv) {
			// (for a documented destination the receiver's final value is the
			// separate definition <name>__recv)
			t.cur = nil
			t.fail("parameter %s is written but its final value is not part of the result", t.params[i].name)
		}
	}
	var binders []string
	for i, pa := range t.params {
		u := true
		switch pa.t.k {
		case kZ, kFe, kArrPtr:
			u = t.paramRead[i]
		case kStruct:
			u = t.paramRead[i]
		}
		sm.used = append(sm.used, u)
		if u {
			ct := pa.t.coq()
			if pa.v.c != nil && pa.v.c.nilable {
				ct = "option Z"
			}
			binders = append(binders, "("+pa.name+" : "+ct+")")
		}
	}
	// result type
	var rt string
	switch {
	case len(t.results) == 0 && resParam >= 0:
		rt = t.params[resParam].t.coq()
	case len(t.results) == 0:
		rt = "unit"
	default:
		var ts []string
		for _, r := range t.results {
			ts = append(ts, r.coq())
		}
		rt = strings.Join(ts, " * ")
	}
	if t.hasErr {
		if strings.Contains(rt, " ") {
			rt = "(" + rt + ")"
		}
		rt = "res " + rt
	}
	sm.coqType = rt
	sm.identity = sm.retAlias >= 0 && len(t.writes) == 0 && strings.TrimSpace(body) == t.params[sm.retAlias].name
	for v := range t.secUsed {
		sm.secVars = append(sm.secVars, v)
	}
	pos := p.fset.Position(fd.Pos())
	hdr := exprText(&ast.FuncDecl{Recv: fd.Recv, Name: fd.Name, Type: fd.Type})
	hdr = strings.ReplaceAll(strings.ReplaceAll(hdr, "(*", "( *"), "*)", "* )")
	var b strings.Builder
	b.WriteString("(* " + hdr + "   -- " + p.name + "/" + baseName(pos.Filename) + " *)\n")
	b.WriteString("Definition " + sm.coqName)
	for _, bd := range binders {
		b.WriteString(" " + bd)
	}
	b.WriteString(" : " + rt + " :=\n" + indent(body) + ".\n")
	sm.text = b.String()
	return sm
}

func baseName(p string) string { return p[strings.LastIndex(p, "/")+1:] }

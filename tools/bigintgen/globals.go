package main

import (
	"go/ast"
	"go/token"
)

// Package-level state.  The translator reads some package-level variables as
// constants; scanGlobalAssign finds, in EVERY function body of the package
// (translated or not, init included), what may change such a variable:
//
//	g = ..   g.f = ..   g[i] = ..   *g = ..   g++   &g   g.M(..)   g.f.M(..)
//
// (a method call counts unless it is one of the read-only big.Int / Element
// methods below), with Go's block scoping, so that a local of the same name
// in another block does not hide an assignment to the global.  Names are
// recorded in p.assigned (functions other than init), p.assignedInit (init:
// variables without initialiser are legitimately set there) and
// p.assignedPkg (objects of an imported package, by the package's base name).

var readOnlyMethods = map[string]bool{"Cmp": true, "CmpAbs": true, "Sign": true, "Bit": true, "BitLen": true,
	"Bytes": true, "String": true, "Text": true, "Int64": true, "Uint64": true, "IsInt64": true, "IsUint64": true,
	"Equal": true, "IsZero": true}

type gscope struct {
	names map[string]string // local name -> "" or the package-level root it may point into (o := SubOrder)
	up    *gscope
}

type gscan struct {
	p    *pkg
	sc   *gscope
	init bool
}

func (g *gscan) push() { g.sc = &gscope{names: map[string]string{}, up: g.sc} }
func (g *gscan) pop()  { g.sc = g.sc.up }

func (g *gscan) declare(id *ast.Ident) {
	if id != nil && id.Name != "_" {
		g.sc.names[id.Name] = ""
	}
}

func (g *gscan) local(n string) bool {
	_, ok := g.lookup(n)
	return ok
}

func (g *gscan) lookup(n string) (alias string, ok bool) {
	for s := g.sc; s != nil; s = s.up {
		if a, ok := s.names[n]; ok {
			return a, true
		}
	}
	return "", false
}

// aliasOf: the package-level identifier (or "pkg." + imported package) that
// the value of e may point into: e is rooted in it, or in a local that is.
func (g *gscan) aliasOf(e ast.Expr) string {
	if u, ok := e.(*ast.UnaryExpr); ok && u.Op == token.AND {
		e = u.X
	}
	id := root(e)
	if id == nil || id.Name == "_" || id.Name == "nil" {
		return ""
	}
	if a, ok := g.lookup(id.Name); ok {
		return a
	}
	if base, ok := g.p.imports()[id.Name]; ok {
		if _, sel := e.(*ast.Ident); sel {
			return ""
		}
		return "pkg." + base
	}
	return id.Name
}

// bind: local id now holds the value of rhs: a write through it later is a
// write to the package-level object rhs is rooted in (o := SubOrder; o.Rsh(o, 1)).
func (g *gscan) bind(id *ast.Ident, rhs ast.Expr) {
	if a := g.aliasOf(rhs); a != "" {
		for s := g.sc; s != nil; s = s.up {
			if _, ok := s.names[id.Name]; ok {
				s.names[id.Name] = a
				return
			}
		}
	}
}

func (g *gscan) mark(name string) {
	switch {
	case len(name) > 4 && name[:4] == "pkg.":
		g.p.assignedPkg[name[4:]] = true
	case g.init:
		g.p.assignedInit[name] = true
	default:
		g.p.assigned[name] = true
	}
}

// root: the identifier an lvalue / receiver expression starts from (nil for
// calls, literals, ..).
func root(e ast.Expr) *ast.Ident {
	for {
		switch x := e.(type) {
		case *ast.Ident:
			return x
		case *ast.ParenExpr:
			e = x.X
		case *ast.SelectorExpr:
			e = x.X
		case *ast.IndexExpr:
			e = x.X
		case *ast.SliceExpr:
			e = x.X
		case *ast.StarExpr:
			e = x.X
		default:
			return nil
		}
	}
}

// touched: the storage e starts from is written (or may be, through a pointer).
func (g *gscan) touched(e ast.Expr) { g.touch(e, false) }

// touch: through = true for x.M(..) and &x, which reach the object x points to even
// when x is a plain local name.
func (g *gscan) touch(e ast.Expr, through bool) {
	id := root(e)
	if id == nil || id.Name == "_" {
		return
	}
	if a, ok := g.lookup(id.Name); ok {
		if a != "" {
			if _, plain := e.(*ast.Ident); !plain || through { // (o = .. re-binds the local; o.f = .., o.M(..), *o = .. write the target)
				g.mark(a)
			}
		}
		return
	}
	if base, ok := g.p.imports()[id.Name]; ok {
		g.mark("pkg." + base)
		return
	}
	g.mark(id.Name)
}

func (g *gscan) fieldList(fl *ast.FieldList) {
	if fl == nil {
		return
	}
	for _, f := range fl.List {
		for _, n := range f.Names {
			g.declare(n)
		}
	}
}

func (g *gscan) exprs(es []ast.Expr) {
	for _, e := range es {
		g.expr(e)
	}
}

func (g *gscan) expr(e ast.Expr) {
	if e == nil {
		return
	}
	ast.Inspect(e, func(n ast.Node) bool {
		switch n := n.(type) {
		case *ast.FuncLit:
			g.push()
			g.fieldList(n.Type.Params)
			g.fieldList(n.Type.Results)
			g.stmts(n.Body.List)
			g.pop()
			return false
		case *ast.UnaryExpr:
			if n.Op == token.AND {
				if _, isLit := n.X.(*ast.CompositeLit); !isLit {
					g.touch(n.X, true) // (the address escapes: later writes are not seen)
				}
			}
		case *ast.CallExpr:
			if se, ok := n.Fun.(*ast.SelectorExpr); ok && !readOnlyMethods[se.Sel.Name] {
				if id, isId := se.X.(*ast.Ident); isId && !g.local(id.Name) {
					if _, isPkg := g.p.imports()[id.Name]; isPkg {
						return true // pkg.F(..): a function of an imported package
					}
				}
				g.touch(se.X, true) // g.M(..) may write g in place
			}
		}
		return true
	})
}

func (g *gscan) stmts(l []ast.Stmt) {
	for _, s := range l {
		g.stmt(s)
	}
}

func (g *gscan) block(b *ast.BlockStmt) {
	if b != nil {
		g.push()
		g.stmts(b.List)
		g.pop()
	}
}

func (g *gscan) stmt(s ast.Stmt) {
	switch s := s.(type) {
	case nil:
	case *ast.BlockStmt:
		g.block(s)
	case *ast.AssignStmt:
		g.exprs(s.Rhs)
		for i, l := range s.Lhs {
			id, isId := l.(*ast.Ident)
			if isId && s.Tok == token.DEFINE {
				g.declare(id)
			} else {
				g.expr(l)
				g.touched(l)
			}
			if isId && g.local(id.Name) && len(s.Lhs) == len(s.Rhs) {
				g.bind(id, s.Rhs[i])
			}
		}
	case *ast.IncDecStmt:
		g.expr(s.X)
		g.touched(s.X)
	case *ast.DeclStmt:
		if gd, ok := s.Decl.(*ast.GenDecl); ok {
			for _, sp := range gd.Specs {
				switch sp := sp.(type) {
				case *ast.ValueSpec:
					g.exprs(sp.Values)
					for i, n := range sp.Names {
						g.declare(n)
						if len(sp.Values) == len(sp.Names) && n.Name != "_" {
							g.bind(n, sp.Values[i])
						}
					}
				case *ast.TypeSpec:
					g.declare(sp.Name)
				}
			}
		}
	case *ast.ExprStmt:
		g.expr(s.X)
	case *ast.ReturnStmt:
		g.exprs(s.Results)
	case *ast.GoStmt:
		g.expr(s.Call)
	case *ast.DeferStmt:
		g.expr(s.Call)
	case *ast.SendStmt:
		g.expr(s.Chan)
		g.expr(s.Value)
	case *ast.LabeledStmt:
		g.stmt(s.Stmt)
	case *ast.IfStmt:
		g.push()
		g.stmt(s.Init)
		g.expr(s.Cond)
		g.block(s.Body)
		g.stmt(s.Else)
		g.pop()
	case *ast.ForStmt:
		g.push()
		g.stmt(s.Init)
		g.expr(s.Cond)
		g.stmt(s.Post)
		g.block(s.Body)
		g.pop()
	case *ast.RangeStmt:
		g.push()
		g.expr(s.X)
		for _, kv := range []ast.Expr{s.Key, s.Value} {
			if kv == nil {
				continue
			}
			if id, ok := kv.(*ast.Ident); ok && s.Tok == token.DEFINE {
				g.declare(id)
				if id.Name != "_" {
					g.bind(id, s.X) // (the elements of a package-level slice are its pointers)
				}
			} else {
				g.expr(kv)
				g.touched(kv)
			}
		}
		g.block(s.Body)
		g.pop()
	case *ast.SwitchStmt:
		g.push()
		g.stmt(s.Init)
		g.expr(s.Tag)
		g.block(s.Body)
		g.pop()
	case *ast.TypeSwitchStmt:
		g.push()
		g.stmt(s.Init)
		g.stmt(s.Assign)
		g.block(s.Body)
		g.pop()
	case *ast.SelectStmt:
		g.block(s.Body)
	case *ast.CaseClause:
		g.push()
		g.exprs(s.List)
		g.stmts(s.Body)
		g.pop()
	case *ast.CommClause:
		g.push()
		g.stmt(s.Comm)
		g.stmts(s.Body)
		g.pop()
	}
}

func (p *pkg) scanGlobalAssign(fd *ast.FuncDecl) {
	g := &gscan{p: p, init: fd.Recv == nil && fd.Name.Name == "init"}
	g.push()
	g.fieldList(fd.Recv)
	g.fieldList(fd.Type.Params)
	g.fieldList(fd.Type.Results)
	g.stmts(fd.Body.List)
}

// foreignWrite: some loaded package changes objects of package pn.
func (g *gen) foreignWrite(pn string) string {
	for _, q := range g.pkgs {
		if q.assignedPkg[pn] {
			return q.name
		}
	}
	return ""
}

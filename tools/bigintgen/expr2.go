package main

import (
	"go/ast"
	"go/token"
	"strconv"
	"strings"
)

// relZ: Coq boolean for `a.Cmp(b) op k` (Sign(): b = 0).  Every spelling of the same
// predicate is emitted in ONE canonical form built from <? and =? only (x.Cmp(y) >= 0,
// x.Cmp(y) != -1 and !(x.Cmp(y) < 0) all become negb (x <? y)), so that re-spelling a
// comparison in the Go source does not change the generated term (<?, =?, >? and their
// negations: the forms the hand-written models use).
func (t *tr) relZ(op token.Token, k, a, b string) string {
	a, b = par(a), par(b)
	switch k + " " + op.String() {
	case "-1 ==", "0 <":
		return a + " <? " + b
	case "-1 !=", "0 >=":
		return "negb (" + a + " <? " + b + ")"
	case "0 ==":
		return a + " =? " + b
	case "0 !=":
		return "negb (" + a + " =? " + b + ")"
	case "0 >", "1 ==":
		return a + " >? " + b
	case "0 <=", "1 !=":
		return "negb (" + a + " >? " + b + ")"
	default:
		t.fail("unsupported comparison of a Cmp/Sign result: %s %s", op, k)
	}
	return ""
}

// stripNegb: for "negb (X)" / "negb X" with X one parenthesised or atomic term, X.
func stripNegb(c string) (string, bool) {
	if !strings.HasPrefix(c, "negb ") {
		return "", false
	}
	x := strings.TrimSpace(c[5:])
	if strings.HasPrefix(x, "(") {
		depth := 0
		for i, ch := range x {
			if ch == '(' {
				depth++
			} else if ch == ')' {
				depth--
				if depth == 0 {
					if i != len(x)-1 {
						return "", false
					}
					return x[1 : len(x)-1], true
				}
			}
		}
		return "", false
	}
	if strings.ContainsAny(x, " \n") {
		return "", false
	}
	return x, true
}

// ifExpr: `if c then a else b`, with a negated condition emitted as the swapped
// conditional (if negb c then a else b = if c then b else a).
func ifCond(c, a, b string) (string, string, string) {
	if x, ok := stripNegb(c); ok {
		return x, b, a
	}
	return c, a, b
}

// hold keeps v alive while later operands of the same expression are
// evaluated: a let emitted by them must not shadow a name that v's text uses.
// The returned function releases it.
func (t *tr) hold(v *val) func() {
	t.temps = append(t.temps, v)
	n := len(t.temps)
	return func() { t.temps = t.temps[:n-1] }
}

// evalAll evaluates the expressions left to right, holding the earlier values.
// Values of pointers must be read (valueOf) only AFTER all of them are
// evaluated: that is when the Go callee dereferences them.
func (t *tr) evalAll(es ...ast.Expr) []*val {
	var vs []*val
	for _, e := range es {
		v := t.eval(e)
		vs = append(vs, v)
		defer t.hold(v)()
	}
	return vs
}

func (t *tr) evalBinary(e *ast.BinaryExpr) *val {
	switch e.Op {
	case token.LAND, token.LOR:
		x := t.eval(e.X)
		n := len(t.lines)
		rel := t.hold(x)
		y := t.eval(e.Y)
		rel()
		if len(t.lines) != n {
			t.fail("the right operand of %s has side effects: %s", e.Op, exprText(e.Y))
		}
		if x.t.k != kBool || y.t.k != kBool {
			t.fail("%s on non-boolean operands", e.Op)
		}
		op := " && "
		if e.Op == token.LOR {
			op = " || "
		}
		return &val{t: tBool, e: par(x.e) + op + par(y.e)}
	case token.EQL, token.NEQ, token.LSS, token.LEQ, token.GTR, token.GEQ:
		// x.Cmp(y) op k   /   x.Sign() op k
		if ce, ok := unparen(e.X).(*ast.CallExpr); ok {
			if se, ok := ce.Fun.(*ast.SelectorExpr); ok && t.g.loops && se.Sel.Name == "Bit" && len(ce.Args) == 1 {
				if recv := t.eval(se.X); recv.t.k == kZ {
					// s.Bit(i) == 1 / != 0 ...: big.Int.Bit is two's complement, as Z.testbit
					k, ok := intLit(e.Y)
					if !ok || (k != "0" && k != "1") || (e.Op != token.EQL && e.Op != token.NEQ) {
						t.fail("a Bit result must be compared with 0 or 1 by == or !=: %s", exprText(e))
					}
					rel := t.hold(recv)
					i := t.eval(ce.Args[0])
					rel()
					t.exactInt(i, "bit index")
					b := "Z.testbit " + par(t.valueOf(recv)) + " " + par(t.asZ(i))
					if (k == "1") != (e.Op == token.EQL) {
						b = "negb (" + b + ")"
					}
					return &val{t: tBool, e: b}
				}
			}
			if se, ok := ce.Fun.(*ast.SelectorExpr); ok && (se.Sel.Name == "Cmp" || se.Sel.Name == "Sign") {
				recv := t.eval(se.X)
				if recv.t.k == kZ {
					k, ok := intLit(e.Y)
					if !ok {
						t.fail("a Cmp/Sign result must be compared with an integer literal: %s", exprText(e))
					}
					var y *val
					if len(ce.Args) == 1 && se.Sel.Name == "Cmp" {
						// (the receiver is dereferenced by Cmp, i.e. after the argument is evaluated)
						rel := t.hold(recv)
						y = t.eval(ce.Args[0])
						rel()
					}
					a := t.valueOf(recv)
					if se.Sel.Name == "Sign" {
						if len(ce.Args) != 0 {
							t.fail("Sign takes no argument")
						}
						return &val{t: tBool, e: t.relZ(e.Op, k, a, "0")}
					}
					if len(ce.Args) != 1 {
						t.fail("Cmp takes one argument")
					}
					if y.t.k != kZ {
						t.fail("Cmp argument of type %s", y.t)
					}
					return &val{t: tBool, e: t.relZ(e.Op, k, a, t.valueOf(y))}
				}
			}
		}
		vs := t.evalAll(e.X, e.Y)
		x, y := vs[0], vs[1]
		switch {
		case x.t.k == kByte && (y.t.k == kByte || y.t.k == kInt):
			return &val{t: tBool, e: t.relZ(e.Op, "0", x.e, zLit(y.e))}
		case x.t.k == kInt && y.t.k == kInt:
			if t.g.loops {
				t.exactInt(x, "operand of a comparison")
				t.exactInt(y, "operand of a comparison")
			}
			return &val{t: tBool, e: t.relInt(e.Op, x, y)}
		}
		if x.t.k == kBool && y.t.k == kBool && (e.Op == token.NEQ || e.Op == token.EQL) {
			// a != b on booleans, in the spelled-out form (a && !b) || (!a && b)
			a, b := par(x.e), par(y.e)
			ne := "(" + a + " && (negb " + b + ")) || ((negb " + a + ") && " + b + ")"
			if e.Op == token.EQL {
				return &val{t: tBool, e: "negb (" + ne + ")"}
			}
			return &val{t: tBool, e: ne}
		}
		t.fail("unsupported comparison %s (operand types %s, %s)", exprText(e), x.t, y.t)
	case token.ADD, token.SUB, token.MUL, token.QUO, token.REM:
		vs := t.evalAll(e.X, e.Y)
		x, y := vs[0], vs[1]
		if t.g.loops && x.t.k == kInt && y.t.k == kInt {
			return t.intArith(e.Op, x, y, e)
		}
		if t.g.loops && e.Op == token.ADD && x.t.k == kString && y.t.k == kString && x.hasStr && y.hasStr {
			return &val{t: tString, str: x.str + y.str, hasStr: true}
		}
		if e.Op != token.ADD {
			t.fail("unsupported binary expression %s", exprText(e))
		}
		if x.t.k == kInt && y.t.k == kInt {
			if (x.nat || x.lit) && (y.nat || y.lit) {
				return &val{t: tInt, nat: true, e: "Nat.add " + par(x.e) + " " + par(y.e)}
			}
			return &val{t: tInt, e: par(t.asZ(x)) + " + " + par(t.asZ(y))}
		}
		t.fail("unsupported addition %s", exprText(e))
	case token.AND, token.OR, token.XOR:
		vs := t.evalAll(e.X, e.Y)
		x, y := vs[0], vs[1]
		if x.t.k == kByte && (y.t.k == kByte || y.t.k == kInt) {
			return &val{t: tByte, e: t.byteOp(e.Op, x.e, y)}
		}
		t.fail("unsupported bit operation %s", exprText(e))
	}
	t.fail("unsupported binary expression %s", exprText(e))
	return nil
}

// byteOp: x op y on bytes; y must be a literal in 0..255 (so that the result
// is again a byte without truncation) or a byte.
func (t *tr) byteOp(op token.Token, x string, y *val) string {
	if y.t.k == kInt {
		n, err := strconv.Atoi(y.e)
		if err != nil || n < 0 || n > 255 {
			t.fail("byte operand %s out of range", y.e)
		}
	}
	f := map[token.Token]string{token.AND: "Z.land", token.OR: "Z.lor", token.XOR: "Z.lxor",
		token.AND_ASSIGN: "Z.land", token.OR_ASSIGN: "Z.lor", token.XOR_ASSIGN: "Z.lxor"}[op]
	if f == "" {
		t.fail("unsupported byte operator %s", op)
	}
	return f + " " + par(x) + " " + par(y.e)
}

func unparen(e ast.Expr) ast.Expr {
	for {
		p, ok := e.(*ast.ParenExpr)
		if !ok {
			return e
		}
		e = p.X
	}
}

// constIndex: a literal index within the static bounds.
func (t *tr) constIndex(e ast.Expr, n int) int {
	s, ok := intLit(e)
	if !ok {
		t.fail("non-constant index %s", exprText(e))
	}
	i, err := strconv.Atoi(s)
	if err != nil || i < 0 || (n > 0 && i >= n) {
		t.fail("index %s out of the static range [0,%d)", s, n)
	}
	return i
}

func (t *tr) evalIndex(e *ast.IndexExpr) *val {
	x := t.eval(e.X)
	if t.g.loops {
		if _, lit := intLit(e.Index); !lit || x.t.k == kList || (x.t.k == kZList && x.c != nil) || x.t.k == kSlice {
			return t.indexLoops(e, x)
		}
	}
	switch x.t.k {
	case kArr, kArrPtr:
		i := t.constIndex(e.Index, x.t.n)
		return &val{t: tByte, e: "nth " + strconv.Itoa(i) + " " + par(t.bytesOf(x)) + " 0"}
	case kZList:
		// may panic in Go when the list is shorter: the model's nth default 0
		// is only meaningful under the callee's length guarantee (reported).
		i := t.constIndex(e.Index, 0)
		c := t.newCell("nth "+strconv.Itoa(i)+" "+par(x.e)+" 0", "", oLocal)
		c.noWrite = "it is an element of a slice that is a value for the translator (" + exprText(e.X) + ")" // (the write would not reach the list)
		return &val{t: tZ, c: c}
	}
	t.fail("unsupported index expression %s on %s", exprText(e), x.t)
	return nil
}

// evalSlice: x[lo:hi] with literal bounds.
func (t *tr) evalSlice(e *ast.SliceExpr) *val {
	if e.Slice3 {
		t.fail("3-index slice")
	}
	x := t.eval(e.X)
	if t.g.loops {
		_, l1 := intLit(e.Low)
		_, l2 := intLit(e.High)
		if (e.Low != nil && !l1) || (e.High != nil && !l2) {
			return t.sliceLoops(e, x)
		}
	}
	n := 0
	switch x.t.k {
	case kArr, kArrPtr:
		n = x.t.n
	case kSlice:
	default:
		t.fail("slice of a value of type %s", x.t)
	}
	lo, hi := 0, -1
	bound := 0
	if n > 0 {
		bound = n + 1
	}
	if e.Low != nil {
		lo = t.constIndex(e.Low, bound)
	}
	if e.High != nil {
		hi = t.constIndex(e.High, bound)
		if hi < lo {
			t.fail("slice bounds out of order")
		}
	}
	spare := x.spare || e.High != nil // (views of array variables are refused by append anyway)
	if x.c != nil && x.t.k != kSlice {
		// view of an array's storage
		return &val{t: tSlice, c: x.c, lo: lo, hi: hi}
	}
	if x.c != nil { // re-slicing a view
		nlo := x.lo + lo
		nhi := x.hi
		if hi >= 0 {
			nhi = x.lo + hi
		}
		return &val{t: tSlice, c: x.c, lo: nlo, hi: nhi}
	}
	// pure value: slicing a dynamic slice may panic in Go if it is shorter
	// than the bound; the value-level model uses firstn/skipn (reported).
	b := par(t.bytesOf(x))
	switch {
	case lo == 0 && hi < 0:
		return &val{t: tSlice, e: t.bytesOf(x), spare: spare}
	case lo == 0:
		return &val{t: tSlice, e: "firstn " + strconv.Itoa(hi) + " " + b, spare: spare}
	case hi < 0:
		return &val{t: tSlice, e: "skipn " + strconv.Itoa(lo) + " " + b, spare: spare}
	}
	return &val{t: tSlice, e: "firstn " + strconv.Itoa(hi-lo) + " (skipn " + strconv.Itoa(lo) + " " + b + ")", spare: spare}
}

// heldByList: the pointer v was put into a slice literal, which the translator
// keeps as a list of VALUES: a later write through v would not reach it.
func (t *tr) heldByList(v *val) {
	if v.el != nil || v.c == nil {
		t.fail("a pointer to a slice element is stored in a slice literal: aliasing between slices is not modelled")
	}
	t.setNoWrite(v.c, "its pointer is held by a slice literal (a list of values for the translator)")
}

// setNoWrite forbids in-place writes to c from here on (undone by rollback).
func (t *tr) setNoWrite(c *cell, why string) {
	if c.noWrite != "" {
		return
	}
	t.log = append(t.log, logEnt{undo: func() { c.noWrite = "" }})
	c.noWrite = why
}

func (t *tr) zeroArr(ty *typ) *val {
	c := t.newCell("repeat 0 "+strconv.Itoa(ty.n), "", oLocal)
	c.zero, c.slen = ty.n, ty.n
	return &val{t: ty, c: c}
}

func (t *tr) evalComposite(e *ast.CompositeLit) *val {
	ty := t.p.resolveType(e.Type)
	switch ty.k {
	case kArr:
		if len(e.Elts) != 0 {
			t.fail("non-empty array literal")
		}
		return t.zeroArr(ty)
	case kZList:
		var parts []string
		for _, v := range t.evalAll(e.Elts...) {
			if v.t.k != kZ {
				t.fail("list element of type %s", v.t)
			}
			parts = append(parts, t.valueOf(v))
			t.heldByList(v)
		}
		return &val{t: tZList, e: "[" + strings.Join(parts, "; ") + "]"}
	case kList:
		if !t.g.loops {
			break
		}
		var parts []string
		for _, v := range t.evalAll(e.Elts...) {
			if !compat(ty.elem, v.t) {
				t.fail("list element of type %s, expected %s", v.t, ty.elem)
			}
			parts = append(parts, t.valueOf(v))
			if intElem(ty.elem) {
				t.heldByList(v)
			}
		}
		return &val{t: ty, e: "[" + strings.Join(parts, "; ") + "]"}
	case kStruct:
		if ty.ptr {
			t.fail("composite literal of pointer type")
		}
		o := t.newObject(ty.sd, "", oLocal)
		for _, el := range e.Elts {
			kv, ok := el.(*ast.KeyValueExpr)
			if !ok {
				t.fail("positional struct literal")
			}
			name := kv.Key.(*ast.Ident).Name
			idx := -1
			for i, f := range ty.sd.fields {
				if f == name {
					idx = i
				}
			}
			if idx < 0 {
				t.fail("no field %s in %s", name, ty)
			}
			v := t.eval(kv.Value)
			t.checkAssignable(ty.sd.ftyp[idx], v)
			t.adopt(v, name)
			o.f[name] = v
		}
		for i, f := range ty.sd.fields {
			if _, ok := o.f[f]; !ok {
				o.f[f] = &val{t: ty.sd.ftyp[i], isNil: true}
			}
		}
		return &val{t: ty, o: o}
	}
	t.fail("unsupported composite literal of type %s", ty)
	return nil
}

// asZ: an int value as a Z expression.
func (t *tr) asZ(v *val) string {
	if v.trunc {
		t.exactInt(v, "value")
	}
	if v.nat {
		return "Z.of_nat " + par(v.e)
	}
	return zLit(v.e)
}

// relInt: comparison of two Go ints.  Lengths and literals are compared in
// nat; as soon as an int parameter (Z) is involved, in Z.
func (t *tr) relInt(op token.Token, x, y *val) string {
	if (x.nat || x.lit) && (y.nat || y.lit) {
		if x.e[0] == '-' || y.e[0] == '-' {
			t.fail("negative literal compared with a length")
		}
		a, b := par(x.e), par(y.e)
		switch op {
		case token.EQL:
			return "Nat.eqb " + a + " " + b
		case token.NEQ:
			return "negb (Nat.eqb " + a + " " + b + ")"
		case token.LSS:
			return "Nat.ltb " + a + " " + b
		case token.LEQ:
			return "Nat.leb " + a + " " + b
		case token.GTR:
			return "Nat.ltb " + b + " " + a
		case token.GEQ:
			return "Nat.leb " + b + " " + a
		}
	}
	return t.relZ(op, "0", t.asZ(x), t.asZ(y))
}

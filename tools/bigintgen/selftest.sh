#!/bin/bash
# Mutation self-test of bigintgen + Proofs/BigIntEq*.v (nine lemma files).
# Works on scratch copies only (/tmp/bgrepo, /tmp/bgself); never touches /repo
# or /verif/coq.  For each mutant: copy /repo, apply ONE textual change inside
# one Go function, regenerate into the scratch tree, compile the generated file
# and each of the nine lemma files there, report which files / lemmas fail.
set -u
export GOFLAGS=-mod=mod GOPROXY=off GOSUMDB=off GOTOOLCHAIN=local
BIN=/verif/_build/bin/bigintgen
R=/tmp/bgrepo
S=/tmp/bgself
C=/verif/coq
FILES="Utils Compress Member Add Keys Sign Verify Codec Hash Recv"   # dependency order

setup_tree() {
  rm -rf $S; mkdir -p $S/coq/Gen $S/coq/Proofs
  ln -s $C/Lib $S/coq/Lib; ln -s $C/Model $S/coq/Model; ln -s $C/Spec $S/coq/Spec
  for f in $C/Gen/*; do
    case $(basename $f) in BigIntRoutines.*|BigIntLoops.*) ;; *) ln -s $f $S/coq/Gen/ ;; esac
  done
  # the final files have no Default Timeout; the self-test wants quick failures
  for f in $FILES; do
    sed 's/^Local Open Scope Z_scope\.$/Local Open Scope Z_scope. Set Default Timeout 60./' \
      $C/Proofs/BigIntEq$f.v > $S/coq/Proofs/BigIntEq$f.v
  done
}

# mutate <file> <function header substring> <old> <new>: replace the FIRST
# occurrence of <old> after the function header; fails if not found inside
# that function.
mutate() {
  python3 - "$R/$1" "$2" "$3" "$4" <<'PYEOF'
import sys
path, hdr, old, new = sys.argv[1:5]
s = open(path).read()
i = s.index(hdr)
j = s.index(old, i)
end = s.find("\nfunc ", i + 1)
if end < 0: end = len(s)
assert j < end, "pattern not inside the function"
s = s[:j] + new + s[j+len(old):]
open(path, "w").write(s)
PYEOF
}

# run <label>: regenerate, compile the generated file, then each of the nine
# lemma files in dependency order.  FAILS = a lemma of that file does not hold
# any more; blocked = the file needs the lemmas of a file that failed.
run() {
  local label="$1"
  echo "== $label"
  $BIN $R $S > $S/gen.out 2> $S/gen.err; local rc=$?
  if [ $rc -eq 3 ]; then
    echo "   bigintgen: EXIT 3, markers: $(grep -o '[A-Za-z0-9_]*__TRANSLATION_FAILED' $S/coq/Gen/BigIntRoutines.v | sort -u | tr '\n' ' ')"
    echo "   first message: $(head -1 $S/gen.err | cut -c1-250)"
  elif [ $rc -ne 0 ]; then
    echo "   bigintgen: EXIT $rc -- $(head -1 $S/gen.err)"; return
  fi
  if diff -q $C/Gen/BigIntRoutines.v $S/coq/Gen/BigIntRoutines.v >/dev/null; then
    echo "   generated BigIntRoutines.v: UNCHANGED"
  else
    echo "   generated BigIntRoutines.v: changed ($(diff $C/Gen/BigIntRoutines.v $S/coq/Gen/BigIntRoutines.v | grep -c '^[<>]') diff lines)"
  fi
  ( cd $S/coq
    timeout 600 coqc -Q . Verif Gen/BigIntRoutines.v > /dev/null 2> $S/err.txt || { echo "   Gen/BigIntRoutines.v: FAILS TO COMPILE: $(grep -m1 -A3 Error $S/err.txt | tr '\n' ' ')"; exit; }
    okl=""
    for f in $FILES; do
      t0=$(date +%s.%N)
      if timeout 900 coqc -Q . Verif Proofs/BigIntEq$f.v > /dev/null 2> $S/err.txt; then
        okl="$okl $f"
      elif grep -q "Cannot find a physical path\|Unable to locate library\|Cannot find library" $S/err.txt; then
        echo "   BigIntEq$f.v: blocked (requires $(tr '\n' ' ' < $S/err.txt | grep -o 'path Proofs.BigIntEq[A-Za-z]*' | head -1 | sed 's/.*BigIntEq/BigIntEq/')"
      else
        line=$(grep -m1 -o 'line [0-9]*' $S/err.txt | cut -d' ' -f2)
        lemma=$(head -n "$line" Proofs/BigIntEq$f.v | grep -o '^ *Lemma [A-Za-z0-9_]*' | tail -1 | sed 's/^ *Lemma //')
        printf "   BigIntEq%s.v: FAILS at line %s (%s) after %.1fs: %s\n" "$f" "$line" "$lemma" \
          "$(echo "$(date +%s.%N) - $t0" | bc)" "$(grep -A2 Error $S/err.txt | tr '\n' ' ' | cut -c1-150)"
      fi
    done
    echo "   compile:$okl" )
}

fresh() { rm -rf $R; cp -r /repo $R; setup_tree; }

fresh
run "baseline: unmodified copy of /repo"

fresh
mutate babyjub/babyjub.go "func PointFromSignAndY(" "p.Y.Cmp(constants.Q) >= 0" "p.Y.Cmp(constants.Q) > 0"
run "(i) PointFromSignAndY: p.Y.Cmp(constants.Q) >= 0  ->  > 0"

fresh
mutate babyjub/babyjub.go "func (p *Point) InCurve(" "	a.Mod(a, constants.Q)
" ""
run "(ii) InCurve: the line a.Mod(a, constants.Q) dropped"

fresh
mutate babyjub/eddsa.go "func (pk *PublicKey) VerifyPoseidon(" "sig.S.Sign() < 0 || sig.S.Cmp(SubOrder) >= 0" "sig.S.Sign() < 0"
run "(iii) VerifyPoseidon: the disjunct sig.S.Cmp(SubOrder) >= 0 removed"

fresh
mutate babyjub/babyjub.go "func PackSignY(" "0x80" "0x40"
run "(iv) PackSignY: 0x80 -> 0x40"

fresh
mutate babyjub/eddsa.go "func SkToBigInt(" "s.Rsh(s, 3)" "s.Rsh(s, 2)"
run "(v) SkToBigInt: s.Rsh(s, 3) -> s.Rsh(s, 2)"

echo; echo "---- C19: the receiver of the documented destinations (BigIntEqRecv.v) ----"
fresh
mutate babyjub/babyjub.go "func (p *Point) Mul(" "	res := resProj.Affine()
	p.X, p.Y = res.X, res.Y
	return p" "	p = resProj.Affine()
	return p"
run "(R1) Point.Mul: fix reverted -- p = resProj.Affine(); return p (the receiver is never written)"

fresh
mutate babyjub/babyjub.go "func (p *Point) Decompress(" "	sign, y := UnpackSignY(leBuf)
	res, err := PointFromSignAndY(sign, y)
	if err != nil {
		return nil, err
	}
	p.X, p.Y = res.X, res.Y
	return p, nil" "	var sign bool
	sign, p.Y = UnpackSignY(leBuf)
	return PointFromSignAndY(sign, p.Y)"
run "(R2) Point.Decompress: fix reverted -- sign, p.Y = UnpackSignY(leBuf); return PointFromSignAndY(sign, p.Y)"

fresh
mutate babyjub/babyjub.go "func (p *Point) Mul(" "	exp := q.Projective()
" "	p.X = big.NewInt(0)
	exp := q.Projective()
"
run "(R3) Point.Mul: p.X overwritten BEFORE q is read (only wrong when q is the receiver)"

fresh
mutate babyjub/babyjub.go "func (p *Point) Set(" "p.Y.Set(c.Y)" "p.Y.Set(c.X)"
run "(R4) Point.Set: p.Y.Set(c.Y) -> p.Y.Set(c.X)"

if [ "${1:-}" = "more" ]; then
  . /verif/tools/bigintgen/selftest_more.sh
fi

rm -rf $R $S

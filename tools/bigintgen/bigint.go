package main

import (
	"go/ast"
	"strconv"
)

const coqQ = "Gen.CurveConsts.Q"

// moduli that are known to be positive (Go's Mod is the Euclidean modulus;
// Coq's `mod` agrees with it exactly when the modulus is positive).
var positiveGlobals = map[string]bool{
	"Gen.CurveConsts.Q": true, "BabyJub.SubOrder": true, "BabyJub.Order": true,
}

func (t *tr) zArg(e ast.Expr) string { return t.zVal(t.eval(e), e) }

// zVal: the integer value of an evaluated pointer argument.
func (t *tr) zVal(v *val, e ast.Expr) string {
	if v.t.k != kZ && v.t.k != kFe {
		t.fail("argument %s of type %s where an integer is expected", exprText(e), v.t)
	}
	return t.valueOf(v)
}

func (t *tr) isGlobalQ(e ast.Expr) bool {
	v := t.eval(e)
	return v.c != nil && v.c.origin == oGlobal && v.c.cur == coqQ
}

func (t *tr) nargs(ce *ast.CallExpr, n int) {
	if len(ce.Args) != n {
		t.fail("%s: expected %d arguments", exprText(ce.Fun), n)
	}
}

// bigMethod: recv.M(args) for recv *big.Int.  In-place methods re-bind the
// receiver's cell and return the receiver.
func (t *tr) bigMethod(recv *val, m string, ce *ast.CallExpr) callRes {
	one := func(v *val) callRes { return callRes{vals: []*val{v}} }
	if recv.isNil || (recv.c == nil && recv.el == nil) {
		t.fail("method %s on a nil *big.Int", m)
	}
	bin := func(op string) callRes {
		t.nargs(ce, 2)
		nl := len(t.lines)
		a, b := t.zArg(ce.Args[0]), t.zArg(ce.Args[1])
		if len(t.lines) != nl {
			t.fail("an argument of %s has side effects: evaluation order is not modelled", m)
		}
		t.writeInt(recv, par(a)+" "+op+" "+par(b))
		return one(recv)
	}
	switch m {
	case "Set":
		t.nargs(ce, 1)
		t.writeInt(recv, t.zArg(ce.Args[0]))
		return one(recv)
	case "SetInt64", "SetUint64":
		t.nargs(ce, 1)
		s, ok := intLit(ce.Args[0])
		if !ok {
			t.fail("%s of a non-literal", m)
		}
		t.writeInt(recv, zLit(s))
		return one(recv)
	case "Add":
		return bin("+")
	case "Sub":
		return bin("-")
	case "Mul":
		return bin("*")
	case "Mod":
		t.nargs(ce, 2)
		vs := t.evalAll(ce.Args[0], ce.Args[1]) // (values are read after both pointers are evaluated)
		a, b := t.zVal(vs[0], ce.Args[0]), t.zVal(vs[1], ce.Args[1])
		if !positiveGlobals[b] {
			t.fail("Mod by %s, which is not a modulus known to be positive", b)
		}
		t.writeInt(recv, par(a)+" mod "+par(b))
		return one(recv)
	case "Neg":
		t.nargs(ce, 1)
		t.writeInt(recv, "- "+par(t.zArg(ce.Args[0])))
		return one(recv)
	case "Lsh", "Rsh":
		t.nargs(ce, 2)
		a := t.zArg(ce.Args[0])
		s, ok := intLit(ce.Args[1])
		if !ok || s[0] == '-' {
			t.fail("%s by a non-literal shift count", m)
		}
		f := "Z.shiftl"
		if m == "Rsh" {
			f = "Z.shiftr"
		}
		t.writeInt(recv, f+" "+par(a)+" "+s)
		return one(recv)
	case "ModInverse":
		t.nargs(ce, 2)
		a := t.zArg(ce.Args[0])
		if !t.isGlobalQ(ce.Args[1]) {
			t.fail("ModInverse with a modulus other than constants.Q")
		}
		t.writeInt(recv, "BabyJub.modinv "+par(a))
		return one(recv)
	case "ModSqrt":
		t.nargs(ce, 2)
		a := t.zArg(ce.Args[0])
		if !t.isGlobalQ(ce.Args[1]) {
			t.fail("ModSqrt with a modulus other than constants.Q")
		}
		// z.ModSqrt(x, p) sets z and returns it, or returns nil and leaves z
		// alone: the outcome must be examined by `if r == nil` right away.
		return one(&val{t: tZ, c: recv.c, sq: &sqrtPend{expr: "BabyJub.modsqrt " + par(a), recv: recv.c}})
	case "SetBytes":
		t.nargs(ce, 1)
		b := t.eval(ce.Args[0])
		if b.t.k != kSlice {
			t.fail("SetBytes of %s", b.t)
		}
		t.writeInt(recv, "be_val "+par(t.bytesOf(b)))
		return one(recv)
	case "Bytes":
		t.nargs(ce, 0)
		return one(&val{t: tSlice, e: "min_be_bytes " + par(t.valueOf(recv))})
	case "Cmp", "Sign":
		t.fail("the result of %s must be compared with a literal", m)
	}
	if t.g.loops {
		if r, ok := t.bigMethodLoops(recv, m, ce); ok {
			return r
		}
	}
	if m == "BitLen" {
		// first pass (loops abstracted): a bit length hoisted out of a loop header
		t.nargs(ce, 0)
		return one(&val{t: tInt, e: "BabyJubCore.bitlen " + par(t.valueOf(recv))})
	}
	t.fail("unsupported big.Int method %s", m)
	return callRes{}
}

type sqrtPend struct {
	expr string
	recv *cell
}

// feMethod: recv.M(args) for recv *ff.Element, at value level: the canonical
// representative in [0, Q) (what C05 proves about the limb code).
func (t *tr) feMethod(recv *val, m string, ce *ast.CallExpr) callRes {
	one := func(v *val) callRes { return callRes{vals: []*val{v}} }
	if recv.isNil || (recv.c == nil && recv.el == nil) {
		t.fail("method %s on a nil *ff.Element", m)
	}
	q := t.modOf(recv.t)
	modq := func(s string) string { return "(" + s + ") mod " + q }
	switch m {
	case "Mul", "Add", "Sub":
		t.nargs(ce, 2)
		// both pointers are evaluated first, the values are read afterwards (as the Go
		// method does): z.Sub(t, t.Set(e)) reads the NEW t twice
		vs := t.evalAll(ce.Args[0], ce.Args[1])
		a, b := par(t.zVal(vs[0], ce.Args[0])), par(t.zVal(vs[1], ce.Args[1]))
		op := map[string]string{"Mul": "*", "Add": "+", "Sub": "-"}[m]
		t.writeInt(recv, modq(a+" "+op+" "+b))
		return one(recv)
	case "Square":
		t.nargs(ce, 1)
		a := par(t.zArg(ce.Args[0]))
		t.writeInt(recv, modq(a+" * "+a))
		return one(recv)
	case "Set":
		t.nargs(ce, 1)
		t.writeInt(recv, t.zArg(ce.Args[0]))
		return one(recv)
	case "SetZero":
		t.nargs(ce, 0)
		t.writeInt(recv, "0")
		return one(recv)
	case "SetOne":
		t.nargs(ce, 0)
		t.writeInt(recv, "1")
		return one(recv)
	case "SetBigInt":
		t.nargs(ce, 1)
		t.writeInt(recv, par(t.zArg(ce.Args[0]))+" mod "+q)
		return one(recv)
	}
	if t.g.loops {
		if r, ok := t.feMethodLoops(recv, m, ce); ok {
			return r
		}
	}
	t.fail("unsupported ff.Element method %s", m)
	return callRes{}
}

// byteLit: a literal in 0..255.
func (t *tr) byteLit(e ast.Expr) string {
	s, ok := intLit(e)
	if !ok {
		t.fail("byte operand %s is not a literal", exprText(e))
	}
	n, err := strconv.Atoi(s)
	if err != nil || n < 0 || n > 255 {
		t.fail("byte literal %s out of range", s)
	}
	return s
}

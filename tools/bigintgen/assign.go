package main

import (
	"go/ast"
	"go/token"
	"strings"
)

// adopt names an anonymous temporary after the variable / field it is stored
// in, and let-binds its value if that is a compound expression.
func (t *tr) adopt(v *val, hint string) {
	if v.isNil {
		return
	}
	switch {
	case v.c != nil && (v.t.k == kZ || v.t.k == kFe):
		c := v.c
		if c.hint != "" {
			return
		}
		c.hint = hint
		t.log = append(t.log, logEnt{undo: func() { c.hint = "" }})
		if !isAtom(c.cur) {
			name := t.fresh(hint, c)
			t.emit("let " + name + " := " + c.cur + " in")
			oc := c.cur
			t.log = append(t.log, logEnt{undo: func() { c.cur = oc }})
			c.cur = name
		}
	case v.o != nil:
		o := v.o
		if o.hint != "" {
			return
		}
		o.hint = hint
		t.log = append(t.log, logEnt{undo: func() { o.hint = "" }})
		if o.whole != "" && !isAtom(o.whole) {
			name := t.fresh(hint, o)
			t.emit("let " + name + " := " + o.whole + " in")
			t.setWhole(o, name)
		}
	}
}

// pure let-binds a compound pure value under the variable's name.
func (t *tr) pure(v *val, name string) *val {
	if isAtom(v.e) {
		return &val{t: v.t, e: v.e, nat: v.nat, lit: v.lit, lb: v.lb, cv: v.cv, hasCv: v.hasCv, trunc: v.trunc, spare: v.spare}
	}
	n := t.freshFor(name, name)
	t.emit("let " + n + " := " + v.e + " in")
	return &val{t: v.t, e: n, nat: v.nat, lb: v.lb, cv: v.cv, hasCv: v.hasCv, trunc: v.trunc, spare: v.spare}
}

func (t *tr) storeVar(name string, v *val, define bool) {
	if name == "_" {
		return
	}
	old, had := t.env[name]
	if !define && !had {
		t.fail("assignment to undeclared variable %s", name)
	}
	if define && had && old.depth < t.depth && (old.v.t.k != kErr || old.v.errK == 2) {
		t.fail("declaration of %s shadows an outer variable", name)
	}
	if had && !define && old.v.t.k != kErr && v.t.k != kErr && !compat(old.v.t, v.t) {
		t.fail("assignment of %s to variable %s of type %s", v.t, name, old.v.t)
	}
	if v.sq != nil {
		t.fail("the outcome of ModSqrt must be examined by `if r == nil` right away")
	}
	if had && (old.v.t.k == kArr || (old.v.t.k == kStruct && !old.v.t.ptr) || (old.v.t.k == kZ && old.v.t.bigVal)) {
		// Go overwrites the variable's storage, the translator would give it new storage:
		// slices of it and pointers to it taken earlier (x[:], &x) would go stale
		t.fail("re-assignment of the whole %s variable %s", old.v.t, name)
	}
	if v.t.k == kStruct && !v.t.ptr && v.o != nil && v.o.hint != "" {
		// struct VALUE assignment copies (the fields are shared pointers)
		v = t.copyStruct(v, v.t)
		v.o.hint = ""
	}
	if t.g.loops && v.c != nil && !v.isNil && (v.t.k == kList || v.t.k == kZList || v.t.k == kKeccak || (v.t.k == kSlice && v.c.slen == 0)) {
		if had {
			delete(t.env, name)
		}
		t.nameCell(v.c, name)
		if had {
			t.env[name] = old
		}
		t.setVar(name, v, define)
		return
	}
	switch v.t.k {
	case kZ, kFe, kStruct:
		// the variable's previous value dies here: it does not keep its name alive
		if had {
			delete(t.env, name)
		}
		t.adopt(v, name)
		if had {
			t.env[name] = old
		}
		t.setVar(name, v, define)
	case kArr:
		var c *cell
		if v.c != nil && v.c.hint == "" {
			c = v.c
			c.hint = name
			t.log = append(t.log, logEnt{undo: func() { c.hint = "" }})
		} else {
			c = t.newCell(t.bytesOf(v), name, oLocal)
		}
		c.slen = v.t.n
		if !isAtom(c.cur) && c.zero == 0 {
			n := t.fresh(name, c)
			t.emit("let " + n + " := " + c.cur + " in")
			oc := c.cur
			t.log = append(t.log, logEnt{undo: func() { c.cur = oc }})
			c.cur = n
		}
		t.setVar(name, &val{t: v.t, c: c}, define)
	case kArrPtr, kErr:
		t.setVar(name, v, define)
	case kSlice:
		if v.c != nil {
			t.setVar(name, v, define)
		} else {
			t.setVar(name, t.pure(v, name), define)
		}
	case kBool, kInt, kZList, kByte:
		t.setVar(name, t.pure(v, name), define)
	case kList:
		if v.isNil {
			t.setVar(name, v, define)
		} else {
			p := t.pure(v, name)
			t.setVar(name, p, define)
		}
	default:
		t.fail("variable %s of type %s", name, v.t)
	}
}

// store assigns v to the Go lvalue lhs.
func (t *tr) store(lhs ast.Expr, v *val, define bool) {
	switch l := unparen(lhs).(type) {
	case *ast.Ident:
		t.storeVar(l.Name, v, define)
		return
	case *ast.SelectorExpr:
		x := t.eval(l.X)
		if x.t.k != kStruct || x.isNil {
			t.fail("assignment to a field of %s", x.t)
		}
		for i, f := range x.t.sd.fields {
			if f == l.Sel.Name {
				t.checkAssignable(x.t.sd.ftyp[i], v)
				t.checkObjWritable(x.o)
				t.unwhole(x.o)
				if v.isNil {
					v = &val{t: x.t.sd.ftyp[i], isNil: true}
				}
				t.adopt(v, x.o.hint+"_"+f)
				t.setField(x.o, f, v)
				return
			}
		}
		t.fail("no field %s", l.Sel.Name)
	case *ast.StarExpr:
		x := t.eval(l.X)
		if x.t.k == kStruct && x.t.ptr && v.t.k == kStruct && !v.t.ptr && v.t.sd == x.t.sd {
			t.checkObjWritable(x.o)
			ow, of, opw := x.o.whole, x.o.f, x.o.pw
			o := x.o
			t.log = append(t.log, logEnt{undo: func() { o.whole, o.f, o.pw = ow, of, opw }})
			o.whole, o.f, o.pw = v.o.whole, map[string]*val{}, false
			for k, fv := range v.o.f {
				o.f[k] = fv
			}
			return
		}
		t.fail("unsupported assignment through a pointer of type %s", x.t)
	}
	t.fail("unsupported assignment target %s", exprText(lhs))
}

// assignStmt handles an assignment; took = true when it consumed the rest of
// the block (error matches, type assertions, ModSqrt outcomes).
func (t *tr) assignStmt(s *ast.AssignStmt, rest []ast.Stmt, k func() string) (string, bool) {
	define := s.Tok == token.DEFINE
	if s.Tok != token.DEFINE && s.Tok != token.ASSIGN {
		// op-assignment on a byte of an array
		if ie, ok := s.Lhs[0].(*ast.IndexExpr); ok && len(s.Lhs) == 1 {
			t.indexAssign(ie, s.Tok.String(), s.Rhs[0])
			return "", false
		}
		t.fail("unsupported assignment operator %s", s.Tok)
	}
	if len(s.Rhs) == 1 {
		switch rhs := unparen(s.Rhs[0]).(type) {
		case *ast.TypeAssertExpr:
			return t.typeAssert(s, rhs, rest, k), true
		case *ast.CallExpr:
			if t.g.loops {
				if ie, ok := s.Lhs[0].(*ast.IndexExpr); ok && len(s.Lhs) == 1 && t.indexStore(ie, rhs) {
					return "", false
				}
				if id, ok := rhs.Fun.(*ast.Ident); ok && id.Name == "append" && len(rhs.Args) > 0 && t.lookup("append") == nil {
					if l := t.lookup(exprText(rhs.Args[0])); l != nil && intList(l.t) && (len(s.Lhs) != 1 || exprText(s.Lhs[0]) != exprText(rhs.Args[0])) {
						t.fail("append(%s, ..) must be assigned back to %s", exprText(rhs.Args[0]), exprText(rhs.Args[0]))
					}
				}
			}
			r := t.call(rhs)
			switch {
			case r.pend != nil:
				return t.errMatch(s, r.pend, rest, k), true
			case len(r.vals) == 1 && r.vals[0].sq != nil:
				return t.sqrtMatch(s, r.vals[0], rest, k), true
			case r.tuple != "":
				t.tupleAssign(s, r, define)
				return "", false
			}
			allBlank := true
			for _, l := range s.Lhs {
				if id, ok := l.(*ast.Ident); !ok || id.Name != "_" {
					allBlank = false
				}
			}
			if allBlank { // `_, _ = f(..)`: a call whose results are discarded, like the bare call
				return "", false
			}
			if len(s.Lhs) != len(r.vals) {
				t.fail("assignment count mismatch")
			}
			for i, l := range s.Lhs {
				t.store(l, r.vals[i], define)
			}
			return "", false
		}
	}
	if len(s.Lhs) != len(s.Rhs) {
		t.fail("assignment count mismatch")
	}
	if len(s.Lhs) == 1 {
		if ie, ok := s.Lhs[0].(*ast.IndexExpr); ok {
			if t.g.loops && t.indexStore(ie, s.Rhs[0]) {
				return "", false
			}
			t.indexAssign(ie, "=", s.Rhs[0])
			return "", false
		}
	}
	vs := t.evalAll(s.Rhs...)
	for i, l := range s.Lhs {
		t.store(l, vs[i], define)
	}
	return "", false
}

func (t *tr) tupleAssign(s *ast.AssignStmt, r callRes, define bool) {
	if len(s.Lhs) != len(r.tupleT) {
		t.fail("assignment count mismatch")
	}
	var names []string
	var vals []*val
	for i, l := range s.Lhs {
		id, ok := l.(*ast.Ident)
		if !ok {
			if _, sel := l.(*ast.SelectorExpr); !sel || define {
				t.fail("multi-value assignment to %s", exprText(l))
			}
			id = &ast.Ident{Name: sanitize(exprText(l))} // x.f: a temporary named x_f
		}
		n := "_"
		if id.Name != "_" {
			n = t.freshFor(id.Name, id.Name)
			for _, m := range names {
				if m == n {
					t.fail("duplicate name in a multi-value assignment")
				}
			}
		}
		names = append(names, n)
		vals = append(vals, t.mkVal(r.tupleT[i], n))
	}
	t.emit("let '(" + strings.Join(names, ", ") + ") := " + r.tuple + " in")
	for i, l := range s.Lhs {
		t.store(l, vals[i], define)
	}
}

func (t *tr) declStmt(s *ast.DeclStmt) {
	gd, ok := s.Decl.(*ast.GenDecl)
	if !ok || gd.Tok != token.VAR {
		t.fail("unsupported declaration")
	}
	for _, sp := range gd.Specs {
		vs := sp.(*ast.ValueSpec)
		if len(vs.Values) != 0 {
			if len(vs.Values) != len(vs.Names) {
				t.fail("unsupported var declaration")
			}
			for i, n := range vs.Names {
				t.store(n, t.eval(vs.Values[i]), true)
			}
			continue
		}
		ty := t.p.resolveType(vs.Type)
		for _, n := range vs.Names {
			switch ty.k {
			case kBool:
				t.storeVar(n.Name, &val{t: tBool, e: "false"}, true)
			case kErr:
				t.storeVar(n.Name, &val{t: tErr, isNil: true, errK: 1}, true)
			case kArr:
				t.storeVar(n.Name, t.zeroArr(ty), true)
			case kZ, kFe:
				t.storeVar(n.Name, &val{t: ty, isNil: true}, true)
			case kStruct:
				if ty.ptr {
					t.storeVar(n.Name, &val{t: ty, isNil: true}, true)
					continue
				}
				o := t.newObject(ty.sd, "", oLocal)
				for i, f := range ty.sd.fields {
					o.f[f] = &val{t: ty.sd.ftyp[i], isNil: true}
				}
				t.storeVar(n.Name, &val{t: ty, o: o}, true)
			case kSlice, kList:
				// var b []byte / var l []T: the nil slice, i.e. the empty list
				t.storeVar(n.Name, &val{t: ty, e: "[]"}, true)
			default:
				t.fail("unsupported var declaration of type %s", ty)
			}
		}
	}
}

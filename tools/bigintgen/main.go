// bigintgen: translator from the loop-free big-integer level functions of
// iden3/go-iden3-crypto (packages utils, babyjub, poseidon, mimc7) to
// value-level Gallina.
//
//	bigintgen <repo> <verif>
//
// writes <verif>/coq/Gen/BigIntRoutines.v and, in a second pass that also
// translates LOOPS (emitloops.go, loopgen*.go, lists.go, ints.go, extras.go),
// <verif>/coq/Gen/BigIntLoops.v (each only when its content changes).
// Exit status: 0 all roots translated; 3 the file was written but some
// functions could not be translated (each gets a marker definition
// <name>__TRANSLATION_FAILED : unit instead of its translation, the positioned
// messages are on stderr); 1 fatal error, nothing written; 2 usage.
// Proofs/BigIntEq*.v tie every generated definition to the
// hand-written model (Model/Utils.v, BabyJub.v, BabyJubCore.v, Eddsa.v,
// Poseidon.v, Mimc7.v) by a lemma gen_<pkg>_<name>_eq.  The translation
// scheme is documented in README.md next to this file.
package main

import (
	"bytes"
	"fmt"
	"os"
	"path/filepath"
	"strings"
)

// roots: the functions to translate, "pkg.Key" (Key = name or Recv.name).
// Every function they call is translated too unless it is in the table of
// external functions (call2.go: external).
var roots = []string{
	"utils.CheckBigIntInField",
	"utils.BigIntLEBytes",
	"utils.SetBigIntFromLEBytes",
	"utils.Hex.MarshalText",
	"utils.Hex.String",
	"mimc7.Hash",
	"poseidon.HashWithStateEx",
	"poseidon.HashWithState",
	"poseidon.Hash",
	"poseidon.HashEx",
	"babyjub.PointProjective.Add",
	"babyjub.NewPoint",
	"babyjub.Point.Mul", // the returned value (call sites use BabyJub.Mul: table of externals)
	"babyjub.Point.Set",
	"babyjub.PointCoordSign",
	"babyjub.PackSignY",
	"babyjub.UnpackSignY",
	"babyjub.Point.Compress",
	"babyjub.PointFromSignAndY",
	"babyjub.Point.Decompress",
	"babyjub.Point.InCurve",
	"babyjub.Point.InSubGroup",
	"babyjub.pruneBuffer",
	"babyjub.SkToBigInt",
	"babyjub.PrivateKey.Scalar",
	"babyjub.PrivKeyScalar.Public",
	"babyjub.PrivateKey.Public",
	"babyjub.PrivateKey.SignPoseidon",
	"babyjub.PrivateKey.SignMimc7",
	"babyjub.PublicKey.VerifyPoseidon",
	"babyjub.PublicKey.VerifyMimc7",
	"babyjub.PublicKey.Compress",
	"babyjub.PublicKeyComp.Decompress",
	"babyjub.Signature.Compress",
	"babyjub.Signature.Decompress",
	"babyjub.SignatureComp.Decompress",
	"babyjub.SignatureComp.Scan",
	"babyjub.Signature.Scan",
	"babyjub.PublicKey.Scan",
	"babyjub.PublicKeyComp.Scan",
	"babyjub.PublicKey.MarshalText",
	"babyjub.PublicKey.String",
	"babyjub.PublicKey.UnmarshalText",
	"babyjub.PublicKeyComp.MarshalText",
	"babyjub.PublicKeyComp.String",
	"babyjub.PublicKeyComp.UnmarshalText",
	"babyjub.SignatureComp.MarshalText",
	"babyjub.SignatureComp.String",
	"babyjub.SignatureComp.UnmarshalText",
	"babyjub.DecompressSig",
	"babyjub.SignatureComp.Value",
	"babyjub.Signature.Value",
	"babyjub.PublicKey.Value",
	"babyjub.PublicKeyComp.Value",
}

func fatalf(format string, args ...interface{}) {
	fmt.Fprintf(os.Stderr, "bigintgen: ERROR: "+format+"\n", args...)
	os.Exit(1)
}

func writeIfChanged(path string, content []byte) {
	old, err := os.ReadFile(path)
	if err == nil && bytes.Equal(old, content) {
		fmt.Println("bigintgen: unchanged", path)
		return
	}
	if err := os.MkdirAll(filepath.Dir(path), 0o755); err != nil {
		fatalf("%v", err)
	}
	if err := os.WriteFile(path, content, 0o644); err != nil {
		fatalf("%v", err)
	}
	fmt.Println("bigintgen: wrote", path)
}

func main() {
	if len(os.Args) != 3 {
		fmt.Fprintln(os.Stderr, "usage: bigintgen <repo> <verif>")
		os.Exit(2)
	}
	repo, verif := os.Args[1], os.Args[2]
	defer func() { // a transErr outside a translation (loading the packages): fatal
		if r := recover(); r != nil {
			if te, ok := r.(transErr); ok {
				fatalf("%s", te.msg)
			}
			panic(r)
		}
	}()
	g := &gen{repo: repo, pkgs: map[string]*pkg{}, done: map[string]*summary{}, inpr: map[string]bool{}}
	for _, n := range []string{"constants", "utils", "mimc7", "poseidon", "babyjub", "keccak256", "goldenposeidon"} {
		g.pkgs[n] = loadPkg(repo, n)
	}
	for _, r := range roots {
		if r[len(r)-1] == '?' {
			continue
		}
		i := 0
		for r[i] != '.' {
			i++
		}
		g.summaryOf(r[:i], r[i+1:], nil)
	}
	// final value of the receiver of the documented destinations
	for _, k := range []string{"babyjub.Point.Mul", "babyjub.Point.Set", "babyjub.Point.Decompress", "babyjub.Signature.Decompress"} {
		g.recvDefs("babyjub", k[len("babyjub."):])
	}
	writeIfChanged(filepath.Join(verif, "coq", "Gen", "BigIntRoutines.v"), []byte(g.emitFile()))
	// second pass, loops mode: the functions with loops and their callees
	gl := &gen{repo: repo, pkgs: g.pkgs, done: map[string]*summary{}, inpr: map[string]bool{}, loops: true,
		aux: map[string][]string{}, auxNames: map[string][]string{}}
	pkgOrder = loopPkgOrder
	for _, r := range loopRoots {
		i := strings.Index(r, ".")
		gl.summaryOf(r[:i], r[i+1:], nil)
	}
	gl.recvDefs("babyjub", "Point.Mul")
	writeIfChanged(filepath.Join(verif, "coq", "Gen", "BigIntLoops.v"), []byte(gl.emitLoopsFile()))
	g.nfail += gl.nfail
	if g.nfail > 0 {
		// exit status 3: the file was written, with a marker definition
		// <name>__TRANSLATION_FAILED in place of each function that could not be
		// translated (status 1 is a fatal error: nothing written; 2: usage)
		fmt.Fprintf(os.Stderr, "bigintgen: %d function(s) could not be translated (marker definitions emitted)\n", g.nfail)
		os.Exit(3)
	}
}

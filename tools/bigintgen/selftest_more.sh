# sourced by selftest.sh when called as `selftest.sh more`
B=babyjub/babyjub.go
E=babyjub/eddsa.go
U=utils/utils.go

m() { # label file header old new
  fresh; mutate "$2" "$3" "$4" "$5"; run "$1"
}

echo; echo "---- more mutants that must break a lemma ----"
m "(a) CheckBigIntInField: Cmp(Q) == -1 -> != 1" $U "func CheckBigIntInField(" "a.Cmp(constants.Q) == -1" "a.Cmp(constants.Q) != 1"
m "(b) BigIntLEBytes: copy(res[:], le) -> copy(res[1:], le)" $U "func BigIntLEBytes(" "copy(res[:], le)" "copy(res[1:], le)"
m "(c) SetBigIntFromLEBytes: SetBytes(beBuf) -> SetBytes(leBuf)" $U "func SetBigIntFromLEBytes(" "v.SetBytes(beBuf)" "v.SetBytes(leBuf)"
m "(d1) PointCoordSign: Rsh(Q, 1) -> Rsh(Q, 2)" $B "func PointCoordSign(" "Rsh(constants.Q, 1)" "Rsh(constants.Q, 2)"
m "(d2) PointCoordSign: == 1 -> >= 0" $B "func PointCoordSign(" "== 1" ">= 0"
m "(e) UnpackSignY: leBuf[31] &= 0x7F dropped" $B "func UnpackSignY(" "		leBuf[31] &= 0x7F //nolint:gomnd
" ""
m "(f) Compress: PackSignY(sign, p.Y) -> PackSignY(sign, p.X)" $B "func (p *Point) Compress(" "PackSignY(sign, p.Y)" "PackSignY(sign, p.X)"
m "(g1) PointFromSignAndY: xb.Sub(A, xb) -> xb.Sub(xb, A)" $B "func PointFromSignAndY(" "xb.Sub(A, xb)" "xb.Sub(xb, A)"
m "(g2) PointFromSignAndY: final p.X.Mod dropped" $B "func PointFromSignAndY(" "	p.X.Mod(p.X, constants.Q)

	return &p, nil" "	return &p, nil"
m "(g3) PointFromSignAndY: check 'sign && p.X.Sign() == 0' removed" $B "func PointFromSignAndY(" "	if sign && p.X.Sign() == 0 {
		return nil, fmt.Errorf(\"sign bit set for x = 0\")
	}
" ""
m "(g4) PointFromSignAndY: xa := big.NewInt(1) -> xa := y2 (ALIAS: xa.Sub then zeroes y2 too)" $B "func PointFromSignAndY(" "xa := big.NewInt(1)" "xa := y2"
m "(g5) PointFromSignAndY: p.X.Mul(p.X, MinusOne) -> p.X.Neg(p.X)  [same value: must still COMPILE after a proof step? see report]" $B "func PointFromSignAndY(" "p.X.Mul(p.X, constants.MinusOne)" "p.X.Neg(p.X)"
m "(h) Point.Decompress: res.X, res.Y -> res.Y, res.X" $B "func (p *Point) Decompress(" "p.X, p.Y = res.X, res.Y" "p.X, p.Y = res.Y, res.X"
m "(i1) InSubGroup: res.Y.Cmp(One) -> res.Y.Cmp(Zero)" $B "func (p *Point) InSubGroup(" "res.Y.Cmp(constants.One)" "res.Y.Cmp(constants.Zero)"
m "(i2) InSubGroup: InCurve check removed" $B "func (p *Point) InSubGroup(" "	if !p.InCurve() {
		return false
	}
" ""
m "(i3) InCurve: b.Add(One, b) -> b.Add(Zero, b)" $B "func (p *Point) InCurve(" "b.Add(constants.One, b)" "b.Add(constants.Zero, b)"
m "(j) pruneBuffer: 0xF8 -> 0xF0" $E "func pruneBuffer(" "0xF8" "0xF0"
m "(k1) SignPoseidon: S.Add(r, S) dropped" $E "func (k *PrivateKey) SignPoseidon(" "	S.Add(r, S)
" ""
m "(k2) SignMimc7: r.Mod(r, SubOrder) dropped" $E "func (k *PrivateKey) SignMimc7(" "	r.Mod(r, SubOrder)
" ""
m "(k3) SignPoseidon: hash input A.X, A.Y swapped" $E "func (k *PrivateKey) SignPoseidon(" "A.X, A.Y, msg" "A.Y, A.X, msg"
m "(k4) SignPoseidon: h1[32:] -> h1[:32]" $E "func (k *PrivateKey) SignPoseidon(" "h1[32:]" "h1[:32]"
m "(l1) VerifyMimc7: big.NewInt(8) -> big.NewInt(4)" $E "func (pk *PublicKey) VerifyMimc7(" "big.NewInt(8)" "big.NewInt(4)"
m "(l2) VerifyPoseidon: Y comparison dropped" $E "func (pk *PublicKey) VerifyPoseidon(" "(left.X.Cmp(right.X) == 0) && (left.Y.Cmp(right.Y) == 0)" "(left.X.Cmp(right.X) == 0)"
m "(l3) VerifyPoseidon: Sign() < 0 -> Sign() <= 0" $E "func (pk *PublicKey) VerifyPoseidon(" "sig.S.Sign() < 0" "sig.S.Sign() <= 0"
m "(m) Signature.Compress: copy(buf[32:], ..) -> copy(buf[31:], ..)" $E "func (s *Signature) Compress(" "copy(buf[32:], Sp[:])" "copy(buf[31:], Sp[:])"
m "(n) Signature.Decompress: buf[32:] -> buf[31:]" $E "func (s *Signature) Decompress(" "buf[32:]" "buf[31:]"
m "(o) SignatureComp.Scan: len(srcB) != 64 -> != 32" $E "func (sComp *SignatureComp) Scan(" "len(srcB) != 64" "len(srcB) != 32"
m "(p1) PointProjective.Add: x3.Sub(x3, d) -> x3.Add(x3, d)" $B "func (p *PointProjective) Add(" "x3.Sub(x3, d)" "x3.Add(x3, d)"
m "(p2) PointProjective.Add: Mul(Aff, c) -> Mul(Dff, c)" $B "func (p *PointProjective) Add(" "Mul(Aff, c)" "Mul(Dff, c)"
m "(p3) PointProjective.Add: p.X = x3 / p.Y = y3 swapped" $B "func (p *PointProjective) Add(" "	p.X = x3
	p.Y = y3" "	p.X = y3
	p.Y = x3"
m "(q1) poseidon.HashWithStateEx: nOuts < 1 -> nOuts < 0" poseidon/poseidon.go "func HashWithStateEx(" "nOuts < 1" "nOuts < 0"
m "(q2) poseidon.HashWithStateEx: initState guard removed" poseidon/poseidon.go "func HashWithStateEx(" "	if !utils.CheckBigIntInField(initState) {
		return nil, errors.New(\"initState values not inside Finite Field\")
	}
" ""
m "(q3) poseidon.HashWithStateEx: len(inpBI) > len(NROUNDSP) -> >=" poseidon/poseidon.go "func HashWithStateEx(" "len(inpBI) > len(NROUNDSP)" "len(inpBI) >= len(NROUNDSP)"
m "(q4) poseidon.HashWithState: res[0] -> res[1]" poseidon/poseidon.go "func HashWithState(" "res[0]" "res[1]"
m "(r1) mimc7.Hash: key == nil gives big.NewInt(1)" mimc7/mimc7.go "func Hash(" "r = big.NewInt(0)" "r = big.NewInt(1)"
m "(r2) mimc7.Hash: field check negation removed" mimc7/mimc7.go "func Hash(" "if !utils.CheckBigIntArrayInField(arr)" "if utils.CheckBigIntArrayInField(arr)"
m "(s) PublicKey.UnmarshalText: error of HexDecodeInto ignored (return nil)" $E "func (pk *PublicKey) UnmarshalText(" "	if err := utils.HexDecodeInto(pkc[:], h); err != nil {
		return err
	}" "	if err := utils.HexDecodeInto(pkc[:], h); err != nil {
		return nil
	}"

echo; echo "---- semantics-preserving edits (the lemmas must still hold) ----"
m "(S1) PointFromSignAndY: p.Y = y -> p.Y = new(big.Int).Set(y)  (alias removed, same values)" $B "func PointFromSignAndY(" "p.Y = y" "p.Y = new(big.Int).Set(y)"
m "(S2) SignPoseidon: S = S.Mul(hm, S) -> S = hm.Mul(hm, S)  (S now aliases hm, same values)" $E "func (k *PrivateKey) SignPoseidon(" "S = S.Mul(hm, S)" "S = hm.Mul(hm, S)"

echo; echo "---- translator checks (bigintgen exits 3 with a marker definition, or 1 for package-level errors; only the files of that function break) ----"
m "(T1) InCurve: x2 := new(big.Int).Set(p.X) -> x2 := p.X (in-place write to the receiver's field)" $B "func (p *Point) InCurve(" "x2 := new(big.Int).Set(p.X)" "x2 := p.X"
m "(T2) PackSignY: a for loop" $B "func PackSignY(" "	if sign {" "	for i := 0; i < 1; i++ {
	}
	if sign {"
m "(T3) SignPoseidon: the error check after poseidon.Hash removed" $E "func (k *PrivateKey) SignPoseidon(" "	if err != nil {
		return nil, err
	}
" ""
m "(T4) poseidon.HashWithStateEx: loop bound nRoundsF/2-1 -> nRoundsF/2 (modelled part: fingerprint)" poseidon/poseidon.go "func HashWithStateEx(" "i < nRoundsF/2-1" "i < nRoundsF/2"
m "(T5) mimc7.Hash: loop body changed (modelled part: fingerprint)" mimc7/mimc7.go "func Hash(" "MIMC7Hash(arr[i], r))" "MIMC7Hash(r, arr[i]))"
m "(T6) SignMimc7: r.Mod(r, SubOrder) -> r.Mod(r, msg) (modulus not known positive)" $E "func (k *PrivateKey) SignMimc7(" "r.Mod(r, SubOrder)" "r.Mod(r, msg)"
m "(T7) PointFromSignAndY: y.Add(y, One) inserted (in-place write to a parameter that is not a result)" $B "func PointFromSignAndY(" "	p.Y = y" "	p.Y = y
	y.Add(y, constants.One)"
m "(T8) SkToBigInt: error-free call result dropped: pruneBuffer(&sBuf32) kept but s.Rsh replaced by s.Cmp(s)" $E "func SkToBigInt(" "s.Rsh(s, 3)" "s.Cmp(s)"
m "(T9) VerifyPoseidon: mimc7.Hash(hmInput, msg) key not nil" $E "func (pk *PublicKey) VerifyMimc7(" "mimc7.Hash(hmInput, nil)" "mimc7.Hash(hmInput, msg)"
m "(T10) babyjub: a function assigns the global SubOrder" $E "func pruneBuffer(" "	buf[0] &= 0xF8" "	SubOrder = big.NewInt(1)
	buf[0] &= 0xF8"

package main

import (
	"crypto/sha256"
	"encoding/hex"
	"fmt"
	"go/ast"
	"go/token"
	"os"
)

// Functions that contain a loop are translated only up to the loop: the loop
// itself is replaced by a section variable that stands for the hand model of
// that part (Proofs/BigIntEqHash.v instantiates it with the model's own
// code).  The replaced source text is fingerprinted; since the second pass
// (loops mode) translates these loops and Proofs/BigIntEqLoops*.v prove them
// equal to the same models, a changed fingerprint is only reported as a note.

// loopModel: a `for` statement replaced by  <assign> = <fn>(<args>).
type loopModel struct {
	fn      string   // section variable
	args    []string // Go variables passed (by value)
	assign  string   // Go variable (*big.Int or pointer to struct) whose pointee holds the result afterwards
	clobber []string // Go variables the loop leaves in a state the model does not describe
	sha     string   // fingerprint of the printed loop statement
}

var loopModels = map[string]loopModel{
	"mimc7.Hash": {fn: "absorb", args: []string{"arr", "r"}, assign: "r",
		sha: "65a752f7ac306556342594bc4850b1d0"},
	// for i := 0; i < s.BitLen(); i++ { if s.Bit(i) == 1 { resProj.Add(resProj, exp) }; exp = exp.Add(exp, exp) }
	"babyjub.Point.Mul": {fn: "mulLoop", args: []string{"s", "resProj", "exp"}, assign: "resProj",
		clobber: []string{"exp"}, sha: "9cd7df991a3719234213e1bbcee0ad59"},
}

// guardCut: a function of which only the guards (if .. { return nil, error })
// and the listed definitions are translated; every other top-level statement
// belongs to the part that is replaced by  <fn>(<args>)  at the end.
type guardCut struct {
	fn   string
	args []string
	keep []string // variables whose := definitions are translated
	sha  string   // fingerprint of the replaced statements, in order
}

var guardCuts = map[string]guardCut{
	"poseidon.HashWithStateEx": {fn: "hades", args: []string{"inpBI", "initState", "nOuts"},
		keep: []string{"t"}, sha: "d5b2d04a2c8be050df8594fc4048b06d"},
}

// parameters that may be nil: Coq type option Z
var nilableParams = map[string]map[string]bool{
	"mimc7.Hash": {"key": true},
}

func fingerprint(nodes ...ast.Node) string {
	h := sha256.New()
	for _, n := range nodes {
		h.Write([]byte(exprText(n)))
		h.Write([]byte{0})
	}
	return hex.EncodeToString(h.Sum(nil))[:32]
}

// loopStmt handles a `for` statement that has a model; false if s is not one.
func (t *tr) loopStmt(s ast.Stmt) bool {
	fs, ok := s.(*ast.ForStmt)
	if !ok {
		return false
	}
	lm, ok := loopModels[t.p.name+"."+t.key]
	if !ok {
		return false
	}
	if fp := fingerprint(fs); fp != lm.sha {
		// Not an error any more: the loop itself is translated by the second pass
		// (Gen/BigIntLoops.v) and proved equal to the same model there
		// (Proofs/BigIntEqLoops*.v, which the Properties files require), so an edit of
		// the loop is judged by that proof, not by its text.
		fmt.Fprintf(os.Stderr, "bigintgen: note: %s.%s: the loop text changed (fingerprint %s, recorded %s); it is checked by the loops pass\n", t.p.name, t.key, fp, lm.sha)
	}
	e := lm.fn
	for _, a := range lm.args {
		v := t.lookup(a)
		if v == nil {
			t.fail("loop model argument %s is not a variable in scope", a)
		}
		e += " " + par(t.valueOf(v))
	}
	t.secUsed[lm.fn] = true
	old := t.lookup(lm.assign)
	switch {
	case old != nil && old.t.k == kZ:
		t.storeVar(lm.assign, &val{t: tZ, c: t.newCell(e, "", oLocal)}, false)
	case old != nil && old.t.k == kStruct && old.t.ptr && !old.isNil:
		t.writeObj(old.o, e, false) // the loop writes the struct in place
	default:
		t.fail("loop model result %s is not a *big.Int or struct pointer variable", lm.assign)
	}
	for _, cn := range lm.clobber {
		if v := t.lookup(cn); v != nil {
			t.setVar(cn, &val{t: tErr, isNil: true, poison: true}, false)
		}
	}
	return true
}

// globalSliceLen: len(G) for a package-level `var G = []T{..}` that is never assigned.
func (t *tr) globalSliceLen(e ast.Expr) (int, bool) {
	id, ok := e.(*ast.Ident)
	if !ok || t.lookup(id.Name) != nil {
		return 0, false
	}
	for _, f := range t.p.files {
		for _, d := range f.Decls {
			gd, ok := d.(*ast.GenDecl)
			if !ok || gd.Tok != token.VAR {
				continue
			}
			for _, sp := range gd.Specs {
				vs := sp.(*ast.ValueSpec)
				for i, n := range vs.Names {
					if n.Name != id.Name || i >= len(vs.Values) {
						continue
					}
					cl, ok := vs.Values[i].(*ast.CompositeLit)
					if !ok {
						return 0, false
					}
					if at, ok := cl.Type.(*ast.ArrayType); !ok || at.Len != nil {
						return 0, false
					}
					if t.p.assigned[id.Name] || t.p.assignedInit[id.Name] {
						t.fail("package-level slice %s is assigned in a function: its length is not a constant", id.Name)
					}
					for _, el := range cl.Elts {
						if _, kv := el.(*ast.KeyValueExpr); kv {
							return 0, false
						}
					}
					return len(cl.Elts), true
				}
			}
		}
	}
	return 0, false
}

// applyGuardCut splits the body of a function with a guardCut entry.
func (t *tr) applyGuardCut(gc guardCut, body []ast.Stmt) (kept []ast.Stmt, tail func() string) {
	var skipped []ast.Node
	keep := map[string]bool{}
	for _, k := range gc.keep {
		keep[k] = true
	}
	for _, s := range body {
		switch s := s.(type) {
		case *ast.AssignStmt:
			if s.Tok == token.DEFINE && len(s.Lhs) == 1 {
				if id, ok := s.Lhs[0].(*ast.Ident); ok && keep[id.Name] {
					kept = append(kept, s)
					continue
				}
			}
		case *ast.IfStmt:
			if isGuard(s) {
				kept = append(kept, s)
				continue
			}
		}
		skipped = append(skipped, s)
	}
	if len(skipped) == 0 {
		t.fail("nothing left for the model %q", gc.fn)
	}
	if _, ok := skipped[len(skipped)-1].(*ast.ReturnStmt); !ok {
		t.fail("the part modelled by %q does not end in a return", gc.fn)
	}
	if fp := fingerprint(skipped...); fp != gc.sha {
		fmt.Fprintf(os.Stderr, "bigintgen: note: %s.%s: the part after the guards changed (fingerprint %s, recorded %s); it is checked by the loops pass\n", t.p.name, t.key, fp, gc.sha)
	}
	tail = func() string {
		e := gc.fn
		for _, a := range gc.args {
			v := t.lookup(a)
			if v == nil {
				t.fail("model argument %s is not a variable in scope", a)
			}
			e += " " + par(t.valueOf(v))
		}
		t.secUsed[gc.fn] = true
		return e
	}
	return kept, tail
}

// isGuard: if c { return nil, <new error> } without else / init.
func isGuard(s *ast.IfStmt) bool {
	if s.Init != nil || s.Else != nil || len(s.Body.List) != 1 {
		return false
	}
	r, ok := s.Body.List[0].(*ast.ReturnStmt)
	if !ok || len(r.Results) != 2 {
		return false
	}
	if id, ok := r.Results[0].(*ast.Ident); !ok || id.Name != "nil" {
		return false
	}
	ce, ok := r.Results[1].(*ast.CallExpr)
	return ok && (isSel(ce.Fun, "fmt", "Errorf") || isSel(ce.Fun, "errors", "New"))
}

// optionJoin: if key == nil { r = A } else { r = B } on a nil-able parameter:
// r becomes `match key with None => A | Some key => B end`.
func (t *tr) optionJoin(s *ast.IfStmt, be *ast.BinaryExpr, v *val, rest []ast.Stmt, k func() string) string {
	thenL, elseL := s.Body.List, elseList(s.Else)
	if be.Op == token.NEQ {
		thenL, elseL = elseL, thenL
	}
	single := func(l []ast.Stmt) (string, ast.Expr) {
		if len(l) == 1 {
			if as, ok := l[0].(*ast.AssignStmt); ok && as.Tok == token.ASSIGN && len(as.Lhs) == 1 && len(as.Rhs) == 1 {
				if id, ok := as.Lhs[0].(*ast.Ident); ok {
					return id.Name, as.Rhs[0]
				}
			}
		}
		t.fail("a nil test of parameter %s must have the form if %s == nil { r = A } else { r = B }", v.c.hint, v.c.hint)
		return "", nil
	}
	n1, e1 := single(thenL)
	n2, e2 := single(elseL)
	if n1 != n2 {
		t.fail("the two branches of the nil test assign different variables")
	}
	old := t.lookup(n1)
	if old == nil || old.t.k != kZ {
		t.fail("%s is not a *big.Int variable", n1)
	}
	pre := t.takeLines()
	value := func(e ast.Expr, unguard bool) string {
		m := t.mark()
		g := v.c.guard
		if unguard {
			v.c.guard = ""
		}
		x := t.eval(e)
		if x.t.k != kZ || len(t.lines) != 0 {
			t.fail("unsupported branch of a nil test")
		}
		r := t.valueOf(x)
		v.c.guard = g
		t.rollback(m)
		return r
	}
	a := value(e1, false)
	b := value(e2, true)
	t.paramRead[v.c.pidx] = true
	c := t.newCell("match "+v.c.cur+" with None => "+a+" | Some "+v.c.cur+" => "+b+" end", "", oLocal)
	c.noWrite = "it may be the pointee of parameter " + v.c.hint
	c.shares = v.c
	t.storeVar(n1, &val{t: tZ, c: c}, false)
	return pre + t.takeLines() + t.block(rest, k)
}

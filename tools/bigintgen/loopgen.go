package main

import (
	"go/ast"
	"go/token"
)

// Loops mode: `for i := a; i < b; i++ {..}`, `for i := range xs`,
// `for i, x := range xs`, `for _, x := range xs` become
//
//	let '(c1, .., cn) := fold_left (fun (acc : T1 * .. * Tn) (i : nat) =>
//	                                  let '(c1, .., cn) := acc in BODY) (seq a (b - a)) (c1, .., cn) in
//
// (a fold over the list itself for `for _, x := range xs`).  The loop-carried
// components are found by a dry run of the body on the state at the loop
// head: the cells and structs it writes that exist outside, and the pointer
// variables declared outside that it re-binds.  A cell that every iteration
// overwrites before reading it (a scratch register such as `mul`) is not
// carried: its value is unusable after the loop.  The bound is evaluated
// once, at the loop head: it must not depend on what the body changes other
// than through len() of a slice whose elements (not the slice variable) are
// written.  A `return` inside the body makes the accumulator
// `option <result> * ..`: once Some, later iterations do nothing and the
// function returns that value after the loop.

type litem struct {
	c    *cell
	o    *object
	v    string // variable re-bound to other storage / a new pure value
	vt   *typ
	ty   string // Coq type of the component
	init string
	drop bool // scratch cell: written before read in every iteration
	// variable item whose target at the loop head is written in place by the
	// body before the variable is re-bound (exp5state(state); state = mix(..)):
	// the variable carries the value, the old target dies
	oldCell *cell
}

// loopHead describes the iteration space and binds the loop variables.
type loopHead struct {
	binder  string // Coq name of the fold variable
	bty     string // its type
	domain  string // Coq list folded over
	bind    func() // declares the Go loop variables in the body's scope
	idxName string // Go index variable ("" if none)
	bound   []ast.Expr
}

func cellType(c *cell) string {
	switch {
	case c.ty != "":
		return c.ty
	case c.slen > 0:
		return "bytes"
	}
	return "Z"
}

func assignsTo(body []ast.Stmt, name string) bool {
	found := false
	for _, s := range body {
		ast.Inspect(s, func(n ast.Node) bool {
			switch n := n.(type) {
			case *ast.AssignStmt:
				for _, l := range n.Lhs {
					if id, ok := l.(*ast.Ident); ok && id.Name == name {
						found = true
					}
				}
			case *ast.IncDecStmt:
				if id, ok := n.X.(*ast.Ident); ok && id.Name == name {
					found = true
				}
			}
			return true
		})
	}
	return found
}

// countedHead: for i := a; i < b; i++.
func (t *tr) countedHead(fs *ast.ForStmt) *loopHead {
	bad := func() { t.fail("only loops of the form `for i := a; i < b; i++` are translated") }
	as, ok := fs.Init.(*ast.AssignStmt)
	if !ok || as.Tok != token.DEFINE || len(as.Lhs) != 1 || len(as.Rhs) != 1 {
		bad()
	}
	id, ok := as.Lhs[0].(*ast.Ident)
	if !ok {
		bad()
	}
	cond, ok := fs.Cond.(*ast.BinaryExpr)
	if !ok || cond.Op != token.LSS || exprText(cond.X) != id.Name {
		bad()
	}
	inc, ok := fs.Post.(*ast.IncDecStmt)
	if !ok || inc.Tok != token.INC || exprText(inc.X) != id.Name {
		bad()
	}
	if assignsTo(fs.Body.List, id.Name) {
		t.fail("the loop body assigns the loop variable %s", id.Name)
	}
	a := litVal(t.eval(as.Rhs[0]))
	if !natLike(a) || a.trunc {
		t.fail("loop start %s is not a length or literal", exprText(as.Rhs[0]))
	}
	b := t.eval(cond.Y)
	if b.t.k != kInt {
		t.fail("loop bound of type %s", b.t)
	}
	nb := t.natIndex(b)
	cnt := nb
	if !(a.hasCv && a.cv == 0) {
		cnt = "(" + par(nb) + " - " + par(a.e) + ")%nat"
	}
	h := &loopHead{bty: "nat", domain: "seq " + par(a.e) + " " + par(cnt), idxName: id.Name, bound: []ast.Expr{cond.Y}}
	h.bind = func() {
		h.binder = t.freshFor(id.Name, id.Name)
		t.setVar(id.Name, &val{t: tInt, nat: true, e: h.binder, lb: a.lb}, true)
	}
	return h
}

// rangeHead: for k, v := range X.
func (t *tr) rangeHead(rs *ast.RangeStmt) *loopHead {
	if rs.Tok != token.DEFINE {
		t.fail("range loop that assigns existing variables")
	}
	name := func(e ast.Expr) string {
		if e == nil {
			return ""
		}
		id, ok := e.(*ast.Ident)
		if !ok {
			t.fail("unsupported range variable %s", exprText(e))
		}
		if id.Name == "_" {
			return ""
		}
		if assignsTo(rs.Body.List, id.Name) {
			t.fail("the loop body assigns the loop variable %s", id.Name)
		}
		return id.Name
	}
	kn, vn := name(rs.Key), name(rs.Value)
	x := t.eval(rs.X)
	var lst string
	var el *typ
	switch {
	case x.t.k == kSlice || x.t.k == kArr:
		lst, el = t.bytesOf(x), tByte
	case x.t.k == kZList || x.t.k == kList:
		lst, el = t.listExpr(x), elemOf(x.t)
	default:
		t.fail("range over a value of type %s", x.t)
	}
	h := &loopHead{idxName: kn, bound: []ast.Expr{rs.X}}
	elemVal := func(e string) *val {
		switch el.k {
		case kZ, kFe:
			c := t.newCell(e, "", oLocal)
			c.noWrite = "it is an element of the slice a range loop runs over"
			return &val{t: el, c: c}
		case kInt:
			return &val{t: tInt, nat: el.natInt, e: e}
		}
		return &val{t: el, e: e}
	}
	if kn == "" && vn != "" {
		// for _, v := range X: fold over the list itself
		h.domain, h.bty = lst, el.coq()
		h.bind = func() {
			h.binder = t.freshFor(vn, vn)
			t.setVar(vn, elemVal(h.binder), true)
		}
		return h
	}
	if kn == "" {
		kn = "i"
		h.idxName = ""
	}
	if vn == "" {
		// for i := range X  is  for i := 0; i < len(X); i++ : only the LENGTH of X must be
		// invariant under the body (the body may write X[i])
		h.bound = []ast.Expr{&ast.CallExpr{Fun: ast.NewIdent("len"), Args: []ast.Expr{rs.X}}}
	}
	h.domain, h.bty = "seq 0 (length "+par(lst)+")", "nat"
	h.bind = func() {
		h.binder = t.freshFor(kn, kn)
		if h.idxName != "" {
			t.setVar(kn, &val{t: tInt, nat: true, e: h.binder}, true)
		}
		if vn != "" {
			t.setVar(vn, elemVal("nth "+h.binder+" "+par(lst)+" "+defaultOf(el)), true)
		}
	}
	return h
}

// checkBound: the bound expressions must be invariant under the body.
func (t *tr) checkBound(h *loopHead, items []*litem) {
	changedVar := map[string]bool{}
	changedCell := map[*cell]bool{}
	changedObj := map[*object]bool{}
	for _, it := range items {
		switch {
		case it.c != nil:
			changedCell[it.c] = true
		case it.o != nil:
			changedObj[it.o] = true
		default:
			changedVar[it.v] = true
		}
	}
	for _, be := range h.bound {
		var walk func(n ast.Node, underLen bool)
		walk = func(n ast.Node, underLen bool) {
			switch n := n.(type) {
			case *ast.Ident:
				v := t.lookup(n.Name)
				if v == nil {
					return
				}
				if changedVar[n.Name] {
					t.fail("the loop bound depends on %s, which the body re-assigns", n.Name)
				}
				if v.c != nil && changedCell[v.c] && !(underLen && (intList(v.t) || v.t.k == kSlice)) {
					t.fail("the loop bound depends on %s, which the body writes", n.Name)
				}
				if v.o != nil && changedObj[v.o] {
					t.fail("the loop bound depends on %s, which the body writes", n.Name)
				}
			case *ast.CallExpr:
				if id, ok := n.Fun.(*ast.Ident); ok && id.Name == "len" && len(n.Args) == 1 {
					walk(n.Args[0], true)
					return
				}
				walk(n.Fun, false)
				for _, a := range n.Args {
					walk(a, false)
				}
			case *ast.SelectorExpr:
				walk(n.X, false)
			case *ast.BinaryExpr:
				walk(n.X, false)
				walk(n.Y, false)
			case *ast.ParenExpr:
				walk(n.X, underLen)
			case *ast.IndexExpr:
				walk(n.X, false)
				walk(n.Index, false)
			case *ast.UnaryExpr:
				walk(n.X, false)
			case *ast.BasicLit:
			default:
				t.fail("unsupported expression in a loop bound: %s", exprText(be))
			}
		}
		walk(be, false)
	}
}

package main

import (
	"go/ast"
	"strings"
)

// first-access tracking (which cells an iteration overwrites before reading)
type accTrack struct {
	first map[*cell]byte // 'R' or 'W'
	depth int
	outer *accTrack
}

func (t *tr) noteRead(c *cell) {
	if a := t.acc; a != nil {
		if _, ok := a.first[c]; !ok {
			a.first[c] = 'R'
		}
	}
}

func (t *tr) noteWrite(c *cell) {
	if a := t.acc; a != nil {
		if _, ok := a.first[c]; !ok {
			if t.depth == a.depth {
				a.first[c] = 'W'
			} else {
				a.first[c] = 'R' // conditional write: the old value may survive
			}
		}
	}
}

// heldFields: a variable in scope points to a field integer of o.
func (t *tr) heldField(o *object) string {
	for n, b := range t.env {
		if v := b.v; v != nil && v.c != nil && v.c.owner == o {
			return n
		}
	}
	return ""
}

// loopItems: what the body changed relative to mark m (called at the end of
// the dry run, before its rollback).
func (t *tr) loopItems(m mark, outer map[string]*binding) []*litem {
	var out []*litem
	seen := map[interface{}]bool{}
	for _, e := range t.log[m.nlog:] {
		if e.mv != nil && t.cellExistedAt(e.mv, m) {
			// (the dry run starts every iteration from the loop-head state, where it is not yet moved)
			t.fail("the loop stores the pointer %s, which exists outside the loop, into a slice: all iterations would share it", e.mv.hint)
		}
	}
	for _, e := range t.log[m.nlog:] {
		switch {
		case e.o != nil && e.o.id <= m.nobj && !seen[e.o]:
			seen[e.o] = true
			if n := t.heldField(e.o); n != "" {
				t.fail("the loop writes the struct %s while %s points to one of its fields", e.o.hint, n)
			}
			out = append(out, &litem{o: e.o, ty: e.o.sd.coq})
		case e.c != nil && !seen[e.c] && t.cellExistedAt(e.c, m):
			seen[e.c] = true
			if e.c.owner != nil && e.c.owner.id <= m.nobj {
				if !seen[e.c.owner] {
					seen[e.c.owner] = true
					out = append(out, &litem{o: e.c.owner, ty: e.c.owner.sd.coq})
				}
				continue
			}
			out = append(out, &litem{c: e.c, ty: cellType(e.c)})
		case e.v != "" && !seen[e.v]:
			seen[e.v] = true
			ob, ok := outer[e.v]
			if !ok {
				continue // declared inside the body
			}
			nv := t.lookup(e.v)
			if sameVal(nv, ob.v) {
				continue // x = x.Op(..): the same pointer
			}
			if oc := ob.v.c; oc != nil && (isListTy(oc.ty) || oc.origin == oLocal) && len(t.holders(oc, outer, e.v)) > 0 {
				// (carried as a VALUE, the variable would lose its alias with the other holder:
				// shared element pointers after append, or the same integer when no iteration runs)
				t.fail("the loop re-binds %s while %s refers to the same storage", e.v, t.holders(oc, outer, e.v)[0])
			}
			out = append(out, t.varItem(e.v, ob.v, nv, m))
		}
	}
	return out
}

// varItem: variable name (declared outside) is re-bound by the body.
func (t *tr) varItem(name string, old, nv *val, m mark) *litem {
	it := &litem{v: name, vt: old.t}
	if old.t.k == kErr && nv.t.k != kErr {
		it.vt = nv.t
	}
	switch it.vt.k {
	case kBool:
		it.ty = "bool"
	case kZ, kFe:
		if nv.c == nil || nv.c.id <= m.ncell {
			t.fail("variable %s is made to point to an integer that exists outside the loop", name)
		}
		it.ty = "Z"
	case kZList, kList:
		if nv.c != nil && nv.c.id <= m.ncell {
			t.fail("variable %s is made to point to a slice that exists outside the loop", name)
		}
		it.ty = it.vt.coq()
	case kStruct:
		if !it.vt.ptr || nv.o == nil || nv.o.id <= m.nobj {
			t.fail("variable %s of type %s is re-assigned in a loop", name, it.vt)
		}
		it.ty = it.vt.sd.coq
	case kKeccak:
		it.ty = it.vt.coq()
	default:
		t.fail("variable %s of type %s is re-assigned in a loop", name, it.vt)
	}
	return it
}

// itemInit: the value of a carried component at the loop head.
func (t *tr) itemInit(it *litem) string {
	switch {
	case it.c != nil:
		return t.read(it.c)
	case it.o != nil:
		return t.wholeOf(it.o)
	}
	v := t.lookup(it.v)
	if v.isNil {
		switch it.vt.k {
		case kZ, kFe:
			return "0" // a nil pointer: it is assigned before it is dereferenced (otherwise Go panics)
		case kZList, kList:
			return "[]"
		}
		t.fail("variable %s is nil at the loop head", it.v)
	}
	return t.valueOf(v)
}

// bindItem gives a carried component the Coq name n (inside the body, and
// again after the loop).
func (t *tr) bindItem(it *litem, n string, after bool) {
	switch {
	case it.c != nil:
		if after {
			t.preWrite(it.c)
		}
		t.setCur(it.c, n, 0)
	case it.o != nil:
		if after {
			t.checkObjWritable(it.o)
		}
		t.setWhole(it.o, n)
	default:
		var nv *val
		const why = "it is the target of a pointer variable carried around a loop"
		switch it.vt.k {
		case kBool:
			nv = &val{t: tBool, e: n}
		case kZ, kFe, kKeccak:
			c := t.newCell(n, it.v, oLocal)
			c.noWrite = why
			if it.vt.k == kKeccak {
				c.ty, c.noWrite = it.vt.coq(), ""
			}
			nv = &val{t: it.vt, c: c}
		case kZList, kList:
			if intList(it.vt) {
				c := t.newCell(n, it.v, oLocal)
				c.ty = "list Z"
				nv = &val{t: it.vt, c: c}
			} else {
				nv = &val{t: it.vt, e: n}
			}
		case kStruct:
			o := t.newObject(it.vt.sd, n, oLocal)
			o.hint = it.v
			nv = &val{t: it.vt, o: o}
		}
		t.setVar(it.v, nv, false)
	}
}

func (t *tr) itemName(it *litem) string {
	switch {
	case it.c != nil:
		if it.c.hint == "" {
			t.fail("internal: anonymous cell carried around a loop")
		}
		return t.fresh(it.c.hint, it.c)
	case it.o != nil:
		if it.o.hint == "" {
			t.fail("internal: anonymous struct carried around a loop")
		}
		return t.fresh(it.o.hint, it.o)
	}
	return t.freshFor(it.v, it.v)
}

func tuple(parts []string) string {
	if len(parts) == 1 {
		return parts[0]
	}
	return "(" + strings.Join(parts, ", ") + ")"
}

func tupleType(items []*litem, first string) string {
	var ts []string
	if first != "" {
		ts = append(ts, first)
	}
	for _, it := range items {
		if !it.drop {
			ts = append(ts, par(it.ty))
		}
	}
	return strings.Join(ts, " * ")
}

// resultType: the Coq type of the function's result (as in translate).
func (t *tr) resultType() string {
	var rt string
	switch {
	case t.recvMode:
		rt = t.params[0].t.coq()
		if t.hasErr {
			rt = "option " + rt
		}
		return rt
	case len(t.results) == 0 && t.resParam >= 0:
		rt = t.params[t.resParam].t.coq()
	case len(t.results) == 0:
		rt = "unit"
	default:
		var ts []string
		for _, r := range t.results {
			ts = append(ts, r.coq())
		}
		rt = strings.Join(ts, " * ")
	}
	if t.hasErr {
		rt = "res " + par(rt)
	}
	return rt
}

func hasReturn(body []ast.Stmt) bool {
	found := false
	for _, s := range body {
		ast.Inspect(s, func(n ast.Node) bool {
			switch n.(type) {
			case *ast.FuncLit:
				return false
			case *ast.ReturnStmt:
				found = true
			}
			return true
		})
	}
	return found
}

// holders: the variables (other than except) through which cell c is reachable.
func (t *tr) holders(c *cell, env map[string]*binding, except string) []string {
	var out []string
	for n, b := range env {
		if n == except || b.v == nil {
			continue
		}
		v := b.v
		if v.c == c || (v.el != nil && v.el.c == c) {
			out = append(out, n)
		}
		if v.o != nil {
			for _, fv := range v.o.f {
				if fv != nil && fv.c == c {
					out = append(out, n)
				}
			}
		}
	}
	return out
}

// mergeRebound: a pointer variable that the body re-binds, and whose target at
// the loop head the body also writes in place, carries the VALUE; the old
// target is not a component of its own (nothing else may refer to it).
func (t *tr) mergeRebound(items []*litem, outer map[string]*binding) []*litem {
	var out []*litem
	dead := map[*cell]bool{}
	for _, it := range items {
		if it.v == "" {
			continue
		}
		ov := outer[it.v].v
		if ov.c == nil {
			continue
		}
		for _, jt := range items {
			if jt.c == ov.c {
				if h := t.holders(ov.c, outer, it.v); len(h) > 0 || ov.c.origin != oLocal || ov.c.owner != nil {
					t.fail("the loop writes the target of %s in place and re-binds %s, while the target is reachable otherwise", it.v, it.v)
				}
				dead[ov.c] = true
				it.oldCell = ov.c
			}
		}
	}
	for _, it := range items {
		if it.c != nil && dead[it.c] {
			continue
		}
		out = append(out, it)
	}
	return out
}

package main

import (
	"go/ast"
	"sort"
	"strings"
)

// genLoop translates one loop.  took = true: the rest of the block was
// consumed (the body contains a return).
func (t *tr) genLoop(h *loopHead, body []ast.Stmt, rest []ast.Stmt, k func() string) (string, bool) {
	if t.inJoin > 0 {
		t.fail("a loop inside a conditional branch that falls through is not translated")
	}
	pre := strings.TrimRight(t.takeLines(), "\n")
	outer := map[string]*binding{}
	for n, b := range t.env {
		outer[n] = b
	}
	savedRet, savedAcc := t.loopRet, t.acc
	if savedRet != nil && hasReturn(body) {
		// (the inner loop's `Some r => r` would become the accumulator of the outer loop)
		t.fail("return inside a loop that is nested in another loop")
	}
	defer func() { t.loopRet, t.acc = savedRet, savedAcc }()

	// ---- dry run: what does the body change, what does it read first -----
	sawRet := false
	m := t.mark()
	t.depth++
	t.acc = &accTrack{first: map[*cell]byte{}, depth: t.depth, outer: savedAcc}
	t.loopRet = func(s string) string { sawRet = true; return s }
	h.bind()
	var nilVars []string
	for n, b := range outer {
		if b.v.isNil && (b.v.t.k == kZ || b.v.t.k == kFe) && assignsTo(body, n) {
			nilVars = append(nilVars, n)
		}
	}
	sort.Strings(nilVars)
	for _, n := range nilVars {
		// nil at the loop head: the dry run gives it a dummy target so that the
		// iterations after the first can be analysed
		c := t.newCell("0", n, oLocal)
		c.noWrite = "it stands for a pointer variable that is nil at the loop head"
		t.env[n] = &binding{v: &val{t: outer[n].v.t, c: c}, depth: outer[n].depth}
	}
	var items []*litem
	t.block(body, func() string { items = t.loopItems(m, outer); return "" })
	first := t.acc.first
	t.rollback(m)
	for _, n := range nilVars {
		t.env[n] = outer[n]
	}
	t.acc = savedAcc
	if sawRet && !hasReturn(body) {
		t.fail("internal: return bookkeeping")
	}
	items = t.mergeRebound(items, outer)
	t.checkBound(h, items)
	for _, it := range items {
		if it.c != nil && first[it.c] == 'W' && !sawRet {
			it.drop = true
		}
	}
	var carried []*litem
	for _, it := range items {
		if !it.drop {
			it.init = t.itemInit(it) // (reads: seen by an enclosing loop's tracking)
			carried = append(carried, it)
		}
	}
	for c, a := range first { // reads of outer cells inside the body are reads for an enclosing loop
		if a == 'R' && t.cellExistedAt(c, m) {
			t.noteRead(c)
		}
	}
	if len(carried) == 0 && !sawRet {
		t.fail("a loop without effect on the translated state")
	}
	rty := ""
	if sawRet {
		rty = "option " + par(t.resultType())
	}
	accTy := tupleType(items, rty)

	// ---- the body as a function of the accumulator ---------------------------
	m = t.mark()
	t.depth++
	t.acc = &accTrack{first: map[*cell]byte{}, depth: t.depth, outer: savedAcc}
	var inNames []string
	if sawRet {
		inNames = append(inNames, t.freshFor("ret", ""))
	}
	for _, it := range items {
		if it.drop {
			t.setGuard(it.c, "it is a scratch value of the loop (overwritten by every iteration before it is read): not carried")
			continue
		}
		n := t.itemName(it)
		t.bindItem(it, n, false)
		inNames = append(inNames, n)
	}
	h.bind()
	accName := t.freshFor("acc", "")
	finish := func(ret string) string {
		var parts []string
		if sawRet {
			parts = append(parts, ret)
		}
		for _, it := range carried {
			switch {
			case it.c != nil:
				parts = append(parts, t.read(it.c))
			case it.o != nil:
				parts = append(parts, t.wholeOf(it.o))
			default:
				parts = append(parts, t.valueOf(t.lookup(it.v)))
			}
		}
		return tuple(parts)
	}
	t.loopRet = func(s string) string {
		// the components at a return site do not matter: the loop-head values
		parts := []string{"Some " + par(s)}
		parts = append(parts, inNames[1:]...)
		return tuple(parts)
	}
	bodyText := t.block(body, func() string { return finish("None") })
	t.rollback(m)
	t.acc = savedAcc
	t.loopRet = savedRet

	// ---- assemble ---------------------------------------------------------------
	var lam strings.Builder
	single := len(inNames) == 1
	if single {
		lam.WriteString("fun (" + inNames[0] + " : " + accTy + ") (" + h.binder + " : " + h.bty + ") =>\n")
	} else {
		lam.WriteString("fun (" + accName + " : " + accTy + ") (" + h.binder + " : " + h.bty + ") =>\n")
		lam.WriteString("  let '" + tuple(inNames) + " := " + accName + " in\n")
	}
	if sawRet {
		whole := accName
		if single {
			whole = inNames[0]
		}
		lam.WriteString("  match " + inNames[0] + " with\n  | Some _ => " + whole + "\n  | None =>\n" + indent(indent(bodyText)) + "\n  end")
	} else {
		lam.WriteString(indent(bodyText))
	}
	var inits []string
	if sawRet {
		inits = append(inits, "None")
	}
	for _, it := range carried {
		inits = append(inits, it.init)
	}
	// names after the loop
	var outNames []string
	retName := ""
	if sawRet {
		retName = t.freshFor("ret", "")
		outNames = append(outNames, retName)
	}
	for _, it := range items {
		if it.drop {
			t.setGuard(it.c, "it is a scratch value of the preceding loop: its value after the loop is not tracked")
			t.noteWrite(it.c)
			continue
		}
		n := t.itemName(it)
		t.bindItem(it, n, true)
		if it.c != nil {
			t.noteWrite(it.c)
		}
		outNames = append(outNames, n)
	}
	for _, it := range items {
		if it.oldCell != nil {
			t.setGuard(it.oldCell, "the variable "+it.v+" that pointed to it was re-bound by the preceding loop")
		}
	}
	pat := outNames[0]
	if len(outNames) > 1 {
		pat = "'" + tuple(outNames)
	}
	if pre != "" {
		t.emit(pre)
	}
	t.emit("let " + pat + " :=\n  fold_left (" + strings.ReplaceAll(lam.String(), "\n", "\n    ") + ")\n    (" + h.domain + ") " + par(tuple(inits)) + " in")
	if !sawRet {
		return "", false
	}
	head := t.takeLines()
	r := t.freshFor("r", "")
	restText := t.block(rest, k)
	return head + "match " + retName + " with\n| Some " + r + " => " + r + "\n| None =>\n" + indent(restText) + "\nend", true
}

func (t *tr) forStmtGen(s ast.Stmt, rest []ast.Stmt, k func() string) (string, bool) {
	switch s := s.(type) {
	case *ast.ForStmt:
		if s.Init == nil || s.Cond == nil || s.Post == nil {
			t.fail("only loops of the form `for i := a; i < b; i++` are translated")
		}
		return t.genLoop(t.countedHead(s), s.Body.List, rest, k)
	case *ast.RangeStmt:
		return t.genLoop(t.rangeHead(s), s.Body.List, rest, k)
	}
	t.fail("internal: not a loop")
	return "", false
}

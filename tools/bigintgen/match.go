package main

import (
	"go/ast"
	"go/token"
	"strings"
)

func (t *tr) resMatch(scrut, binder, okBody, errBody string) string {
	pb := "Panic"
	if t.recvMode {
		pb = "None" // the callee panics: no statement about the receiver
	}
	return "match " + scrut + " with\n| Ok " + binder + " =>\n" + indent(okBody) +
		"\n| Err =>\n" + indent(errBody) + "\n| Panic => " + pb + "\nend"
}

// errMatch: `x, err := f(..)` (or `err := f(..)`, `x.f, err = f(..)`) where f
// has an error result.  Both continuations are translated with the error
// variable known nil / known non-nil, so that the usual
// `if err != nil { return .., err }` is decided statically in each branch.
func (t *tr) errMatch(s *ast.AssignStmt, pd *pending, rest []ast.Stmt, k func() string) string {
	if !t.hasErr {
		t.fail("call of a function that can fail inside a function without error result")
	}
	define := s.Tok == token.DEFINE
	n := len(s.Lhs)
	errId, ok := s.Lhs[n-1].(*ast.Ident)
	if !ok || errId.Name == "_" {
		t.fail("the error result of a call is dropped")
	}
	pre := t.takeLines()
	hint := pd.hint
	for _, l := range s.Lhs[:n-1] {
		if id, ok := l.(*ast.Ident); ok && id.Name != "_" {
			hint = id.Name
			break
		}
	}
	// Ok branch
	m := t.mark()
	binder := "_"
	var hintVar string
	if !pd.unit {
		if id, ok := s.Lhs[0].(*ast.Ident); ok && n > 1 {
			hintVar = id.Name
		}
		binder = t.freshFor(hint, hintVar)
	}
	vals := pd.bind(binder)
	if len(vals) != n-1 {
		t.fail("assignment count mismatch: %d values besides the error for %d targets", len(vals), n-1)
	}
	for i, l := range s.Lhs[:n-1] {
		t.store(l, vals[i], define)
	}
	t.storeVar(errId.Name, &val{t: tErr, isNil: true, errK: 1}, define)
	okBody := t.takeLines() + t.block(rest, k)
	t.rollback(m)
	// Err branch: the other results are unusable
	m = t.mark()
	for _, l := range s.Lhs[:n-1] {
		if id, ok := l.(*ast.Ident); ok && id.Name != "_" {
			t.setVar(id.Name, &val{t: tErr, isNil: true, poison: true}, define)
		} else if _, ok := l.(*ast.SelectorExpr); ok {
			// x.f, err = g(..): on failure the callee returns nil for the value
			t.store(l, &val{t: tErr, isNil: true, errK: 1}, false)
		}
	}
	t.storeVar(errId.Name, &val{t: tErr, errK: 2}, define)
	for _, w := range pd.written {
		t.poison(w)
	}
	errBody := t.block(rest, k)
	t.rollback(m)
	if errBody == "Err" && ((!pd.unit && okBody == "Ok "+binder) || (pd.unit && okBody == "Ok tt")) {
		return pre + pd.expr
	}
	return pre + t.resMatch(pd.expr, binder, okBody, errBody)
}

// sqrtMatch: r := z.ModSqrt(x, Q) followed by `if r == nil { .. return }`.
func (t *tr) sqrtMatch(s *ast.AssignStmt, v *val, rest []ast.Stmt, k func() string) string {
	if len(s.Lhs) != 1 || len(rest) == 0 {
		t.fail("the outcome of ModSqrt must be examined by `if r == nil` right away")
	}
	id, ok := s.Lhs[0].(*ast.Ident)
	is, ok2 := rest[0].(*ast.IfStmt)
	if !ok || !ok2 || is.Init != nil || is.Else != nil || !terminates(is.Body.List) {
		t.fail("the outcome of ModSqrt must be examined by `if r == nil { ..return.. }` right away")
	}
	be, ok := unparen(is.Cond).(*ast.BinaryExpr)
	if !ok || be.Op != token.EQL || exprText(be.X) != id.Name || exprText(be.Y) != "nil" {
		t.fail("the outcome of ModSqrt must be examined by `if %s == nil` right away", id.Name)
	}
	pre := t.takeLines()
	m := t.mark()
	t.setVar(id.Name, &val{t: tZ, isNil: true}, s.Tok == token.DEFINE)
	none := t.block(is.Body.List, t.noFall)
	t.rollback(m)
	c := v.sq.recv
	name := t.fresh(c.hint, c)
	if c.hint == "" {
		name = t.fresh(id.Name, c)
	}
	t.preWrite(c)
	t.setCur(c, name, 0)
	t.storeVar(id.Name, &val{t: tZ, c: c}, s.Tok == token.DEFINE)
	some := t.block(rest[1:], k)
	return pre + "match " + v.sq.expr + " with\n| None =>\n" + indent(none) + "\n| Some " + name + " =>\n" + indent(some) + "\nend"
}

// typeAssert: b, ok := src.([]byte) followed by `if !ok { .. return }`.
func (t *tr) typeAssert(s *ast.AssignStmt, ta *ast.TypeAssertExpr, rest []ast.Stmt, k func() string) string {
	if len(s.Lhs) != 2 || s.Tok != token.DEFINE {
		t.fail("unsupported type assertion form")
	}
	src := t.eval(ta.X)
	if src.t.k != kIface || ta.Type == nil || t.p.resolveType(ta.Type).k != kSlice {
		t.fail("only src.([]byte) on an interface{} value is supported")
	}
	bid, ok1 := s.Lhs[0].(*ast.Ident)
	oid, ok2 := s.Lhs[1].(*ast.Ident)
	if !ok1 || !ok2 || len(rest) == 0 {
		t.fail("unsupported type assertion form")
	}
	is, ok := rest[0].(*ast.IfStmt)
	if !ok || is.Init != nil || is.Else != nil || !terminates(is.Body.List) || exprText(is.Cond) != "!"+oid.Name {
		t.fail("a type assertion must be followed by `if !%s { ..return.. }`", oid.Name)
	}
	pre := t.takeLines()
	bad := t.branch(is.Body.List, t.noFall)
	name := t.freshFor(bid.Name, bid.Name)
	t.storeVar(bid.Name, &val{t: tSlice, e: name}, true)
	t.storeVar(oid.Name, &val{t: tBool, e: "true"}, true)
	good := t.block(rest[1:], k)
	return pre + "match " + src.e + " with\n| SrcBytes " + name + " =>\n" + indent(good) + "\n| _ =>\n" + indent(bad) + "\nend"
}

// ifSpecial: conditions on error variables whose state is known.
func (t *tr) ifSpecial(s *ast.IfStmt, rest []ast.Stmt, k func() string) (string, bool) {
	be, ok := unparen(s.Cond).(*ast.BinaryExpr)
	if !ok || (be.Op != token.EQL && be.Op != token.NEQ) || exprText(be.Y) != "nil" {
		return "", false
	}
	id, ok := unparen(be.X).(*ast.Ident)
	if !ok {
		return "", false
	}
	v := t.lookup(id.Name)
	if v == nil {
		return "", false
	}
	if v.t.k != kErr {
		return t.nilTest(s, be, v, rest, k)
	}
	if v.errK == 0 {
		t.fail("test of an error whose state is unknown")
	}
	isNil := v.errK == 1
	taken := isNil == (be.Op == token.EQL)
	var l []ast.Stmt
	if taken {
		l = append(l, s.Body.List...)
		if !terminates(s.Body.List) {
			if hasDecl(s.Body.List) {
				t.fail("declarations in a statically taken branch that falls through")
			}
			l = append(l, rest...)
		}
	} else {
		l = append(append(l, elseList(s.Else)...), rest...)
	}
	return t.block(l, k), true
}

func hasDecl(l []ast.Stmt) bool {
	for _, s := range l {
		switch s := s.(type) {
		case *ast.DeclStmt:
			return true
		case *ast.AssignStmt:
			if s.Tok == token.DEFINE {
				return true
			}
		}
	}
	return false
}

// ret translates a return statement.
func (t *tr) ret(s *ast.ReturnStmt) string {
	if t.recvMode {
		return t.retRecv(s)
	}
	want := len(t.results)
	if t.hasErr {
		want++
	}
	if len(s.Results) == 1 && (want > 1 || t.hasErr) {
		if ce, ok := unparen(s.Results[0]).(*ast.CallExpr); ok {
			r := t.call(ce)
			if r.pend != nil {
				return t.retPending(r.pend)
			}
			if want == 1 && len(r.vals) == 1 && r.vals[0].t.k == kErr {
				if r.vals[0].errK == 2 {
					return "Err"
				}
			}
			t.fail("unsupported return of a call: %s", exprText(ce))
		}
	}
	if len(s.Results) != want {
		t.fail("return with %d values, expected %d", len(s.Results), want)
	}
	if t.hasErr {
		ev := t.eval(s.Results[want-1])
		if ev.t.k != kErr {
			t.fail("the last result is not an error")
		}
		switch {
		case ev.pend != nil:
			t.fail("internal: pending error in return")
		case ev.errK == 2:
			return "Err"
		case ev.errK != 1:
			t.fail("return of an error whose state is unknown")
		}
	}
	vals := t.evalAll(s.Results[:len(t.results)]...) // (earlier results are held while later ones are evaluated)
	return t.success(vals)
}

func (t *tr) retPending(pd *pending) string {
	pre := t.takeLines()
	m := t.mark()
	binder := "_"
	if !pd.unit {
		binder = t.freshFor(pd.hint, "")
	}
	vals := pd.bind(binder)
	if len(vals) != len(t.results) {
		t.fail("return of a call with %d values besides the error, expected %d", len(vals), len(t.results))
	}
	ok := t.takeLines() + t.success(vals)
	t.rollback(m)
	if (!pd.unit && ok == "Ok "+binder) || (pd.unit && ok == "Ok tt") {
		return pre + pd.expr
	}
	return pre + t.resMatch(pd.expr, binder, ok, "Err")
}

// success builds the Coq result for the Go results vals (error nil).
func (t *tr) success(vals []*val) string {
	var parts []string
	for i, v := range vals {
		want := t.results[i]
		t.checkAssignable(want, v)
		parts = append(parts, t.valueOf(v))
		if len(vals) == 1 && (want.k == kZ || want.k == kFe || want.k == kArrPtr || (want.k == kStruct && want.ptr)) {
			al := -1
			if v.c != nil && v.c.origin == oParam {
				al = v.c.pidx
			}
			if v.o != nil && v.o.origin == oParam {
				al = v.o.pidx
			}
			if t.retAlias != -2 && t.retAlias != al {
				t.fail("the returned pointer is a parameter on some paths and not on others")
			}
			t.retAlias = al
			t.noteResAlias(v, al)
		} else {
			t.noteResAlias(v, -1)
		}
	}
	var e string
	switch {
	case len(parts) == 0 && t.resParam >= 0:
		e = t.valueOf(t.params[t.resParam].v)
	case len(parts) == 0:
		e = "tt"
	case len(parts) == 1:
		e = parts[0]
	default:
		e = "(" + strings.Join(parts, ", ") + ")"
	}
	if t.hasErr {
		return "Ok " + par(e)
	}
	return e
}

// noteResAlias records the parameters whose integers are reachable from the
// returned value v (self: v IS that parameter, which call sites handle as an
// alias): the caller must not write them in place while the result lives.
func (t *tr) noteResAlias(v *val, self int) {
	seen := map[*object]bool{}
	var cellOf func(c *cell)
	var visit func(v *val)
	cellOf = func(c *cell) {
		if c == nil {
			return
		}
		if c.origin == oGlobal { // (the caller would take it for fresh storage and could write the global through it)
			t.fail("the result points to the package-level object %s", c.hint)
		}
		if (c.origin == oPField || (c.origin == oParam && c.pidx != self)) && c.pidx >= 0 {
			t.resAlias[c.pidx] = true
		}
		cellOf(c.shares)
		for _, a := range c.via {
			visit(a)
		}
	}
	visit = func(v *val) {
		if v == nil || v.isNil {
			return
		}
		if v.c == nil && (v.t.k == kZList || (v.t.k == kList && intList(v.t))) {
			// a slice of pointers kept as a list of values: it may hold any pointer argument
			for i, pa := range t.params {
				switch pa.t.k {
				case kZ, kFe, kStruct, kZList, kList:
					t.resAlias[i] = true
				}
			}
		}
		cellOf(v.c)
		if v.el != nil {
			cellOf(v.el.c)
		}
		if o := v.o; o != nil && !seen[o] {
			seen[o] = true
			if o.origin == oGlobal {
				t.fail("the result points to the package-level object %s", o.hint)
			}
			isSelf := o.origin == oParam && o.pidx == self && o.owner == nil
			if !isSelf && o.pw && o.pidx >= 0 && (o.whole != "" || o.origin == oParamVal) {
				t.resAlias[o.pidx] = true // (a part of a parameter, or a by-value copy holding its pointers)
			}
			for _, fv := range o.f {
				visit(fv)
			}
			for _, a := range o.via {
				visit(a)
			}
		}
	}
	visit(v)
}

// protect forbids in-place writes to everything reachable from v (call sites
// of a function whose result may alias an argument).
func (t *tr) protect(v *val, why string) {
	if v == nil || v.isNil {
		return
	}
	if v.c != nil {
		t.setNoWrite(v.c, why)
	}
	if v.el != nil {
		t.setNoWrite(v.el.c, why)
	}
	if o := v.o; o != nil && o.ro == "" {
		t.log = append(t.log, logEnt{undo: func() { o.ro = "" }})
		o.ro = why // (field cells created later inherit it: state.go field)
		for _, fv := range o.f {
			t.protect(fv, why)
		}
	}
}

// poison: after a failed call the pointee of a written argument has an
// unspecified value (Go callees may have written a part of it).
func (t *tr) poison(v *val) {
	const why = "its value after a failed call is unspecified"
	switch {
	case v.c != nil:
		c := v.c
		og := c.guard
		t.log = append(t.log, logEnt{undo: func() { c.guard = og }})
		c.guard = why
	case v.o != nil:
		o := v.o
		ow, of, opw := o.whole, o.f, o.pw
		t.log = append(t.log, logEnt{undo: func() { o.whole, o.f, o.pw = ow, of, opw }})
		o.whole, o.pw, o.f = "", false, map[string]*val{}
		for i, f := range o.sd.fields {
			o.f[f] = &val{t: o.sd.ftyp[i], isNil: true}
		}
	}
}

#!/bin/bash
# Mutation self-test of bigintgen's LOOPS mode (Gen/BigIntLoops.v) +
# Proofs/BigIntEqLoops*.v.  Works on scratch copies only ($R, $S); never
# touches the repository or the project's coq directory.  For each mutant:
# copy the repository, apply ONE textual change inside one Go function with a
# loop, regenerate into the scratch tree, compile the generated file and each
# lemma file there, report which files / lemmas fail.  Expected: exactly the
# lemma file of the mutated function fails (files that Require it: blocked).
#   V=<project root, default /verif>  REPO=<repository, default /repo>
set -u
export GOFLAGS=-mod=mod GOPROXY=off GOSUMDB=off GOTOOLCHAIN=local
V=${V:-/verif}
REPO=${REPO:-/repo}
BIN=$V/_build/bin/bigintgen
R=/tmp/bglrepo
S=/tmp/bglself
C=$V/coq
FILES="Lib Misc Mul Mimc7 Poseidon Gold"   # dependency order (Mimc7, Poseidon Require Misc)

setup_tree() {
  rm -rf $S; mkdir -p $S/coq/Gen $S/coq/Proofs
  ln -s $C/Lib $S/coq/Lib; ln -s $C/Model $S/coq/Model; ln -s $C/Spec $S/coq/Spec
  for f in $C/Gen/*; do
    case $(basename $f) in BigIntRoutines.*|BigIntLoops.*) ;; *) ln -s $f $S/coq/Gen/ ;; esac
  done
  for f in $C/Proofs/*; do
    case $(basename $f) in BigIntEq*) ;; *) ln -s $f $S/coq/Proofs/ ;; esac
  done
  for f in $FILES; do
    [ -f $C/Proofs/BigIntEqLoops$f.v ] || continue
    sed 's/^Local Open Scope Z_scope\.$/Local Open Scope Z_scope. Set Default Timeout 120./' \
      $C/Proofs/BigIntEqLoops$f.v > $S/coq/Proofs/BigIntEqLoops$f.v
  done
}

mutate() {
  python3 - "$R/$1" "$2" "$3" "$4" <<'PYEOF'
import sys
path, hdr, old, new = sys.argv[1:5]
s = open(path).read()
i = s.index(hdr)
j = s.index(old, i)
end = s.find("\nfunc ", i + 1)
if end < 0: end = len(s)
assert j < end, "pattern not inside the function"
s = s[:j] + new + s[j+len(old):]
open(path, "w").write(s)
PYEOF
}

run() {
  local label="$1"
  echo "== $label"
  $BIN $R $S > $S/gen.out 2> $S/gen.err; local rc=$?
  if [ $rc -eq 3 ]; then
    echo "   bigintgen: EXIT 3, markers in BigIntLoops.v: $(grep -o '[A-Za-z0-9_]*__TRANSLATION_FAILED' $S/coq/Gen/BigIntLoops.v | sort -u | tr '\n' ' ')"
    echo "   first message: $(head -1 $S/gen.err | cut -c1-250)"
  elif [ $rc -ne 0 ]; then
    echo "   bigintgen: EXIT $rc -- $(head -1 $S/gen.err)"; return
  fi
  if diff -q $C/Gen/BigIntLoops.v $S/coq/Gen/BigIntLoops.v >/dev/null; then
    echo "   generated BigIntLoops.v: UNCHANGED"
  else
    echo "   generated BigIntLoops.v: changed ($(diff $C/Gen/BigIntLoops.v $S/coq/Gen/BigIntLoops.v | grep -c '^[<>]') diff lines)"
  fi
  ( cd $S/coq
    timeout 600 coqc -Q . Verif Gen/BigIntLoops.v > /dev/null 2> $S/err.txt || { echo "   Gen/BigIntLoops.v: FAILS TO COMPILE: $(grep -m1 -A3 Error $S/err.txt | tr '\n' ' ')"; exit; }
    okl=""
    for f in $FILES; do
      [ -f Proofs/BigIntEqLoops$f.v ] || continue
      t0=$(date +%s.%N)
      if timeout 900 coqc -Q . Verif Proofs/BigIntEqLoops$f.v > /dev/null 2> $S/err.txt; then
        okl="$okl $f"
      elif grep -q "Cannot find a physical path\|Unable to locate library\|Cannot find library" $S/err.txt; then
        echo "   BigIntEqLoops$f.v: blocked (requires $(tr '\n' ' ' < $S/err.txt | grep -o 'path Proofs.BigIntEq[A-Za-z0-9]*' | head -1 | sed 's/.*BigIntEq/BigIntEq/'))"
      else
        line=$(grep -m1 -o 'line [0-9]*' $S/err.txt | cut -d' ' -f2)
        lemma=$(head -n "$line" Proofs/BigIntEqLoops$f.v | grep -o '^ *Lemma [A-Za-z0-9_]*' | tail -1 | sed 's/^ *Lemma //')
        printf "   BigIntEqLoops%s.v: FAILS at line %s (%s) after %.1fs: %s\n" "$f" "$line" "$lemma" \
          "$(echo "$(date +%s.%N) - $t0" | bc)" "$(grep -A2 Error $S/err.txt | tr '\n' ' ' | cut -c1-150)"
      fi
    done
    echo "   compile:$okl" )
}

fresh() { rm -rf $R; cp -r $REPO $R; setup_tree; }

fresh
run "baseline: unmodified copy of the repository"

fresh
mutate babyjub/babyjub.go "func (p *Point) Mul(" "i < s.BitLen()" "i < s.BitLen()-1"
run "(L1) Point.Mul: i < s.BitLen()  ->  i < s.BitLen()-1"

fresh
mutate poseidon/poseidon.go "func HashWithStateEx(" "(i+1)*t" "i*t"
run "(L2) poseidon.HashWithStateEx: ark(state, C, (i+1)*t) -> i*t in the first full-round loop"

fresh
mutate mimc7/mimc7.go "func MIMC7Hash(" "		if i == 0 {
			t = ff.NewElement().Add(xIn, k)
		} else {
			t = ff.NewElement().Add(ff.NewElement().Add(r, k), constants.cts[i])
		}" "		t = ff.NewElement().Add(ff.NewElement().Add(xIn, k), constants.cts[i])"
run "(L3) mimc7.MIMC7Hash: the i == 0 / else branches replaced by one assignment"

fresh
mutate mimc7/mimc7.go "func HashBytes(" "i < len(b)/n" "i < len(b)/n+1"
run "(L4) mimc7.HashBytes: i < len(b)/n -> i < len(b)/n+1"

fresh
mutate poseidon/poseidon.go "func HashWithStateEx(" "i < nRoundsF/2-1" "i < nRoundsF/2"
run "(L5) poseidon.HashWithStateEx: first loop bound nRoundsF/2-1 -> nRoundsF/2"

if [ "${1:-}" = "more" ]; then
  fresh
  mutate utils/utils.go "func SwapEndianness(" "ys[len(xs)-1-i] = b" "ys[i] = b"
  run "(L6) utils.SwapEndianness: ys[len(xs)-1-i] = b -> ys[i] = b"

  fresh
  mutate utils/utils.go "func CheckBigIntArrayInField(" "return false" "return true"
  run "(L7) utils.CheckBigIntArrayInField: return false -> return true inside the loop"

  fresh
  mutate mimc7/mimc7.go "func getConstants(" "for i := 1; i < nRounds" "for i := 0; i < nRounds"
  run "(L8) mimc7.getConstants: the loop starts at 0 instead of 1"

  fresh
  mutate mimc7/mimc7.go "func Hash(" "		r = new(big.Int).Mod(r, _constants.Q)
" ""
  run "(L9) mimc7.Hash: the reduction r = r mod Q inside the loop dropped"

  fresh
  mutate poseidon/poseidon.go "func mix(" "m[j][i]" "m[i][j]"
  run "(L10) poseidon.mix: m[j][i] -> m[i][j]"

  fresh
  mutate poseidon/poseidon.go "func HashWithStateEx(" "for k := 1; k < t; k++" "for k := 1; k < t-1; k++"
  run "(L11) poseidon.HashWithStateEx: sparse round updates lanes 1..t-2 only"

  fresh
  mutate keccak256/keccac256.go "func Hash(" "for _, d := range data {" "for _, d := range data[1:] {"
  run "(L12) keccak256.Hash: the first slice is skipped"

  fresh
  mutate goldenposeidon/poseidon.go "func Hash(" "r == NROUNDSF/2-1" "r == NROUNDSF/2"
  run "(L13) goldenposeidon.Hash: mix with P never selected"

  fresh
  mutate babyjub/babyjub.go "func (p *Point) Mul(" "		exp = exp.Add(exp, exp)
" "		if i > 0 {
			exp = exp.Add(exp, exp)
		}
"
  run "(L14) Point.Mul: the doubling skipped in the first iteration"
fi

rm -rf $R $S

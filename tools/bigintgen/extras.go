package main

import (
	"go/ast"
	"go/token"
	"strconv"
	"strings"
)

// Loops mode: package-level objects, library methods and slice expressions
// that only the functions with loops need.

var (
	tFeList = tListOf(tFe)
	tFeMat  = tListOf(tFeList)
	tFeCube = tListOf(tFeMat)
	// mimc7: type constantsData struct { seedHash, iv *big.Int; nRounds int; cts []*ff.Element }
	sdMimcConsts = &structDesc{name: "constantsData", coq: "(Z * Z * Z * list Z)%type",
		fields: []string{"seedHash", "iv", "nRounds", "cts"}, ftyp: []*typ{tZ, tZ, tInt, tFeList}}
	// poseidon: type constants struct { c, s [][]*ff.Element; m, p [][][]*ff.Element }
	sdPosConsts = &structDesc{name: "constants", coq: "?", fields: []string{"c", "s", "m", "p"},
		ftyp: []*typ{tFeMat, tFeMat, tFeCube, tFeCube}}
)

// loopsGlobal: a package-level variable of the current package that the
// functions with loops read.
func (t *tr) loopsGlobal(name string) *val {
	k := t.p.name + "." + name
	if v, ok := t.globals[k]; ok {
		return v
	}
	constant := func() {
		if t.p.assigned[name] {
			t.fail("package-level variable %s is assigned outside init: it cannot be read as a constant", k)
		}
	}
	var v *val
	init := t.p.varDecl(name)
	if init != nil && t.p.assignedInit[name] {
		// (only variables WITHOUT initialiser are taken to be set by init)
		t.fail("package-level variable %s has an initialiser and is changed by init(): it cannot be read as a constant", k)
	}
	switch {
	case k == "poseidon.c":
		// var c *constants, filled by init() from the tables of constants.go: the
		// four tables are section variables of the generated file
		constant()
		o := t.newObject(sdPosConsts, "", oGlobal)
		o.hint = k
		for i, f := range sdPosConsts.fields {
			o.f[f] = &val{t: sdPosConsts.ftyp[i], e: "c_" + f}
			t.secUsed["c_"+f] = true
		}
		v = &val{t: &typ{k: kStruct, sd: sdPosConsts, ptr: true}, o: o}
	case k == "goldenposeidon.C" || k == "goldenposeidon.S":
		constant()
		t.secUsed["g"+name] = true
		v = &val{t: &typ{k: kList, elem: tFg}, e: "g" + name}
	case k == "goldenposeidon.M" || k == "goldenposeidon.P":
		constant()
		t.secUsed["g"+name] = true
		v = &val{t: tListOf(&typ{k: kList, elem: tFg}), e: "g" + name}
	case init == nil:
		return nil
	default:
		switch in := init.(type) {
		case *ast.CallExpr:
			switch {
			case isSel(in.Fun, "big", "NewInt") && len(in.Args) == 1:
				// var big5 = big.NewInt(5)
				s, ok := intLit(in.Args[0])
				if !ok {
					return nil
				}
				constant()
				c := t.newCell(zLit(s), k, oGlobal)
				v = &val{t: tZ, c: c}
			case len(in.Args) == 0:
				// var constants = generateConstantsData(): the value of that function
				id, ok := in.Fun.(*ast.Ident)
				if !ok {
					return nil
				}
				constant()
				sm := t.g.summaryOf(t.p.name, id.Name, t)
				if sm.failed {
					t.fail("reads %s, the value of %s, whose translation failed", k, id.Name)
				}
				if len(sm.results) != 1 || sm.hasErr || sm.results[0].k != kStruct {
					t.fail("package-level variable %s: unsupported initialiser", k)
				}
				o := t.newObject(sm.results[0].sd, sm.coqName, oGlobal)
				o.hint = k
				v = &val{t: sm.results[0], o: o}
			}
		case *ast.CompositeLit:
			// var NROUNDSP = []int{56, 57, ..}: an auxiliary definition
			ty := t.p.resolveType(in.Type)
			if ty.k != kList || ty.elem.k != kInt {
				return nil
			}
			constant()
			var parts []string
			for _, el := range in.Elts {
				s, ok := intLit(el)
				if !ok || s[0] == '-' {
					t.fail("package-level slice %s: element %s is not a natural literal", k, exprText(el))
				}
				parts = append(parts, s)
			}
			cn := t.p.name + "_" + name
			t.g.addAux(t.p.name, cn, "Definition "+cn+" : list nat := (["+strings.Join(parts, "; ")+"])%nat.\n")
			v = &val{t: ty, e: cn}
		}
	}
	if v != nil {
		t.globals[k] = v
	}
	return v
}

func (g *gen) addAux(pn, name, text string) {
	for _, a := range g.auxNames[pn] {
		if a == name {
			return
		}
	}
	g.auxNames[pn] = append(g.auxNames[pn], name)
	g.aux[pn] = append(g.aux[pn], text)
}

// bigMethodLoops: *big.Int methods used by the functions with loops.
func (t *tr) bigMethodLoops(recv *val, m string, ce *ast.CallExpr) (callRes, bool) {
	one := func(v *val) (callRes, bool) { return callRes{vals: []*val{v}}, true }
	switch m {
	case "BitLen":
		t.nargs(ce, 0)
		return one(&val{t: tInt, e: "bitlen " + par(t.valueOf(recv))})
	case "Bit":
		t.fail("the result of Bit must be compared with 0 or 1")
	case "FillBytes":
		// c.FillBytes(make([]byte, n)): big-endian, exactly n bytes (Go panics if
		// c does not fit; the value-level reading is be_bytes n c)
		t.nargs(ce, 1)
		mk, ok := unparen(ce.Args[0]).(*ast.CallExpr)
		if ok {
			if id, isId := mk.Fun.(*ast.Ident); !isId || id.Name != "make" || len(mk.Args) != 2 || t.p.resolveType(mk.Args[0]).k != kSlice {
				ok = false
			}
		}
		if !ok {
			t.fail("FillBytes into something else than a fresh make([]byte, n)")
		}
		n := t.natIndex(t.eval(mk.Args[1]))
		return one(&val{t: tSlice, e: "be_bytes " + par(n) + " " + par(t.valueOf(recv))})
	}
	return callRes{}, false
}

// feMethodLoops: *ff.Element methods used by the functions with loops.
func (t *tr) feMethodLoops(recv *val, m string, ce *ast.CallExpr) (callRes, bool) {
	one := func(v *val) (callRes, bool) { return callRes{vals: []*val{v}}, true }
	q := t.modOf(recv.t)
	switch m {
	case "ToBigIntRegular":
		// the canonical representative: the value itself
		t.nargs(ce, 1)
		dst := t.eval(ce.Args[0])
		if dst.t.k != kZ || dst.isNil {
			t.fail("ToBigIntRegular into a value of type %s", dst.t)
		}
		t.writeInt(dst, t.valueOf(recv))
		return one(dst)
	case "ToUint64Regular":
		t.nargs(ce, 0)
		return one(&val{t: tU64, e: t.valueOf(recv)})
	case "Exp":
		// z.Exp(x, k) for a package-level constant k = big.NewInt(lit)
		t.nargs(ce, 2)
		x := t.eval(ce.Args[0])
		k := t.eval(ce.Args[1])
		if x.t.k != kFe || k.t.k != kZ || k.c == nil || k.c.origin != oGlobal {
			t.fail("Exp with an exponent that is not a package-level constant")
		}
		if _, err := strconv.Atoi(k.c.cur); err != nil {
			t.fail("Exp with an exponent that is not a literal constant")
		}
		t.writeInt(recv, "("+par(t.valueOf(x))+" ^ "+k.c.cur+") mod "+q)
		return one(recv)
	case "SetUint64":
		t.nargs(ce, 1)
		if s, ok := intLit(ce.Args[0]); ok && s[0] != '-' {
			if s != "0" && s != "1" {
				s = s + " mod " + q
			}
			t.writeInt(recv, s)
			return one(recv)
		}
		v := t.eval(ce.Args[0])
		if v.t.k != kByte || !v.t.gold {
			t.fail("SetUint64 of a value of type %s", v.t)
		}
		t.writeInt(recv, par(v.e)+" mod "+q)
		return one(recv)
	}
	return callRes{}, false
}

// keccakMethod: methods of the sha3 sponge (golang.org/x/crypto/sha3), whose
// meaning is Model/KeccakStream.v.
func (t *tr) keccakMethod(recv *val, m string, ce *ast.CallExpr) callRes {
	switch m {
	case "Write":
		t.nargs(ce, 1)
		d := t.eval(ce.Args[0])
		if d.t.k != kSlice {
			t.fail("Write of a value of type %s", d.t)
		}
		t.write(recv.c, "KeccakStream.kwrite "+par(t.read(recv.c))+" "+par(t.bytesOf(d)), 0)
		return callRes{}
	case "Sum":
		t.nargs(ce, 1)
		if id, ok := ce.Args[0].(*ast.Ident); ok && id.Name == "nil" {
			return callRes{vals: []*val{{t: tSlice, e: "KeccakStream.ksum " + par(t.read(recv.c))}}}
		}
		// Sum(b) appends the digest to b
		b := t.eval(ce.Args[0])
		if b.t.k != kSlice {
			t.fail("Sum with an argument of type %s", b.t)
		}
		if b.spare || b.c != nil { // (Sum appends in place when there is room)
			t.fail("Sum(b) may write into the storage behind b")
		}
		return callRes{vals: []*val{{t: tSlice, e: par(t.bytesOf(b)) + " ++ KeccakStream.ksum " + par(t.read(recv.c))}}}
	}
	t.fail("unsupported sha3 method %s", m)
	return callRes{}
}

// sliceLoops: x[lo:hi] with dynamic bounds on a byte slice value.
func (t *tr) sliceLoops(e *ast.SliceExpr, x *val) *val {
	if x.t.k != kSlice && x.t.k != kArr {
		t.fail("slice expression with dynamic bounds on a value of type %s", x.t)
	}
	b := par(t.bytesOf(x))
	var lo, hi *val
	if e.Low != nil {
		lo = litVal(t.eval(e.Low))
	}
	if e.High != nil {
		hi = litVal(t.eval(e.High))
	}
	switch {
	case lo == nil && hi == nil:
		return &val{t: tSlice, e: t.bytesOf(x)}
	case hi == nil:
		return &val{t: tSlice, e: "skipn " + par(t.natIndex(lo)) + " " + b, spare: x.spare}
	case lo == nil:
		return &val{t: tSlice, e: "firstn " + par(t.natIndex(hi)) + " " + b, spare: true}
	}
	n := t.intArith(token.SUB, hi, lo, e)
	return &val{t: tSlice, e: "firstn " + par(t.natIndex(n)) + " (skipn " + par(t.natIndex(lo)) + " " + b + ")", spare: true}
}

// modOf: the modulus of a field element type.
func (t *tr) modOf(ty *typ) string {
	if ty.gold {
		return "pg"
	}
	return coqQ
}

// adaptArgs: variadic packing and constant strings passed as []byte.
func (t *tr) adaptArgs(sm *summary, argv []*val) []*val {
	n := len(sm.params)
	if n > 0 && sm.params[n-1].variadic && len(argv) >= n-1 {
		rest := argv[n-1:]
		var parts []string
		for _, a := range rest {
			if a.t.k == kString {
				a = t.strBytes(a)
			}
			if !compat(sm.params[n-1].t.elem, a.t) {
				t.fail("variadic argument of type %s, expected %s", a.t, sm.params[n-1].t.elem)
			}
			parts = append(parts, t.valueOf(a))
		}
		argv = append(append([]*val{}, argv[:n-1]...), &val{t: sm.params[n-1].t, e: "[" + strings.Join(parts, "; ") + "]"})
	}
	for i, a := range argv {
		if i < n && a.t.k == kString && sm.params[i].t.k == kSlice {
			argv[i] = t.strBytes(a)
		}
	}
	return argv
}

// checkDisjointArgs: a slice whose elements the callee writes must not be
// passed twice.
func (t *tr) checkDisjointArgs(pn, key string, sm *summary, argv []*val) {
	for i := range sm.writes {
		a := argv[i]
		if a.c == nil || !isListTy(a.c.ty) {
			continue
		}
		for j, b := range argv {
			if j != i && (b.c == a.c || (b.el != nil && b.el.c == a.c)) {
				t.fail("%s.%s writes the elements of its argument %d, which is also (part of) argument %d", pn, key, i, j)
			}
		}
	}
}

// copyLoops: copy(dst, src) on slices of pointers; false for byte copies.
func (t *tr) copyLoops(dstE, srcE ast.Expr) bool {
	lo := 0
	base := dstE
	if se, ok := unparen(dstE).(*ast.SliceExpr); ok {
		base = se.X
		if se.High != nil || se.Slice3 {
			base = nil
		} else if se.Low != nil {
			s, ok := intLit(se.Low)
			n, err := strconv.Atoi(s)
			if !ok || err != nil || n < 0 {
				base = nil
			}
			lo = n
		}
	}
	if base == nil {
		return false
	}
	if id, ok := unparen(base).(*ast.Ident); !ok || t.lookup(id.Name) == nil {
		return false
	}
	d := t.eval(base)
	if !intList(d.t) {
		return false
	}
	s := t.eval(srcE)
	if !intList(s.t) || !compat(elemOf(d.t), elemOf(s.t)) {
		t.fail("copy of %s into %s", s.t, d.t)
	}
	t.copyList(dstE, d, s, lo)
	return true
}

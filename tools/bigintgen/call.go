package main

import (
	"go/ast"
	"strconv"
)

// callRes is the outcome of evaluating a call: its non-error results, or (for
// a callee with an error result) a pending outcome `expr : res T` that the
// next statement must examine.
type callRes struct {
	vals   []*val
	pend   *pending
	tuple  string // several results: the Coq expression of the tuple
	tupleT []*typ
}

type pending struct {
	expr    string
	hint    string
	written []*val                   // arguments whose pointee the callee writes: unusable after a failure
	unit    bool                     // payload is unit (no value on Ok)
	bind    func(name string) []*val // state updates on Ok, payload named `name`; returns the Go results
}

func (t *tr) call(ce *ast.CallExpr) callRes {
	one := func(v *val) callRes { return callRes{vals: []*val{v}} }
	switch fun := unparen(ce.Fun).(type) {
	case *ast.Ident:
		if t.lookup(fun.Name) != nil {
			t.fail("call of a function value %s", fun.Name)
		}
		switch fun.Name {
		case "new":
			t.nargs(ce, 1)
			if isSel(ce.Args[0], "big", "Int") {
				return one(&val{t: tZ, c: t.newCell("0", "", oLocal)})
			}
			ty := t.p.resolveType(ce.Args[0])
			if ty.k == kStruct && !ty.ptr {
				o := t.newObject(ty.sd, "", oLocal)
				for i, f := range ty.sd.fields {
					o.f[f] = &val{t: ty.sd.ftyp[i], isNil: true}
				}
				return one(&val{t: &typ{k: kStruct, sd: ty.sd, ptr: true, name: ty.name, pkg: ty.pkg}, o: o})
			}
			t.fail("unsupported new(%s)", exprText(ce.Args[0]))
		case "len":
			t.nargs(ce, 1)
			if n, ok := t.globalSliceLen(ce.Args[0]); ok {
				return one(&val{t: tInt, e: strconv.Itoa(n), lit: true})
			}
			x := t.eval(ce.Args[0])
			switch x.t.k {
			case kArr, kArrPtr:
				return one(&val{t: tInt, e: strconv.Itoa(x.t.n), lit: true})
			case kSlice:
				return one(&val{t: tInt, nat: true, e: "length " + par(t.bytesOf(x))})
			case kZList:
				if t.g.loops {
					return one(&val{t: tInt, nat: true, e: "length " + par(t.listExpr(x))})
				}
				return one(&val{t: tInt, nat: true, e: "length " + par(x.e)})
			case kList:
				return one(&val{t: tInt, nat: true, e: "length " + par(t.listExpr(x))})
			}
			t.fail("len of %s", x.t)
		case "copy":
			t.nargs(ce, 2)
			if t.g.loops && t.copyLoops(ce.Args[0], ce.Args[1]) {
				return callRes{}
			}
			t.copyBytes(ce.Args[0], ce.Args[1])
			return callRes{}
		case "append":
			if t.g.loops && len(ce.Args) > 0 {
				if l := t.eval(ce.Args[0]); intList(l.t) {
					return one(t.appendList(ce, l))
				}
			}
			return one(t.appendBytes(ce))
		case "make":
			if t.g.loops {
				return one(t.makeCall(ce))
			}
		}
		if _, ok := t.p.named[fun.Name]; ok {
			t.nargs(ce, 1)
			return one(t.conv(t.p.resolveType(fun), ce.Args[0]))
		}
		return t.callNamed(t.p.name, fun.Name, nil, ce)
	case *ast.StarExpr, *ast.ArrayType:
		t.nargs(ce, 1)
		return one(t.conv(t.p.resolveType(fun), ce.Args[0]))
	case *ast.SelectorExpr:
		if id, ok := fun.X.(*ast.Ident); ok && t.lookup(id.Name) == nil {
			if pn := t.importName(id.Name); pn != "" {
				return t.callPkg(pn, fun.Sel.Name, ce)
			}
		}
		recv := t.eval(fun.X)
		m := fun.Sel.Name
		if recv.t.k == kKeccak {
			return t.keccakMethod(recv, m, ce)
		}
		switch {
		case recv.t.k == kZ && recv.t.name == "":
			return t.bigMethod(recv, m, ce)
		case recv.t.k == kFe:
			return t.feMethod(recv, m, ce)
		case recv.t.name != "":
			return t.callNamed(recv.t.pkg, recv.t.name+"."+m, recv, ce)
		}
		t.fail("method %s on a value of type %s", m, recv.t)
	}
	t.fail("unsupported call %s", exprText(ce))
	return callRes{}
}

// callPkg: pkg.F(args) for an imported package.
func (t *tr) callPkg(pn, name string, ce *ast.CallExpr) callRes {
	one := func(v *val) callRes { return callRes{vals: []*val{v}} }
	switch pn + "." + name {
	case "big.NewInt":
		t.nargs(ce, 1)
		s, ok := intLit(ce.Args[0])
		if !ok {
			t.fail("big.NewInt of a non-literal")
		}
		return one(&val{t: tZ, c: t.newCell(zLit(s), "", oLocal)})
	case "ff.NewElement":
		t.nargs(ce, 0)
		return one(&val{t: tFe, c: t.newCell("0", "", oLocal)})
	case "fmt.Errorf", "errors.New":
		// the arguments are not translated: they must not contain calls (other than len), whose
		// effects would be lost
		for _, a := range ce.Args {
			ast.Inspect(a, func(n ast.Node) bool {
				if c, ok := n.(*ast.CallExpr); ok {
					if id, isId := c.Fun.(*ast.Ident); !isId || id.Name != "len" || t.lookup("len") != nil {
						t.fail("call inside the arguments of %s.%s: %s", pn, name, exprText(c))
					}
				}
				return true
			})
		}
		return one(&val{t: tErr, errK: 2})
	case "hex.EncodeToString":
		t.nargs(ce, 1)
		x := t.eval(ce.Args[0])
		if x.t.k != kSlice {
			t.fail("hex.EncodeToString of %s", x.t)
		}
		return one(&val{t: tSlice, e: "hex_encode " + par(t.bytesOf(x))})
	case "utils.Hex":
		t.nargs(ce, 1)
		return one(t.conv(&typ{k: kSlice, name: "Hex", pkg: "utils"}, ce.Args[0]))
	case "sha3.NewLegacyKeccak256":
		if t.g.loops {
			t.nargs(ce, 0)
			c := t.newCell("KeccakStream.kinit", "", oLocal)
			c.ty = "KeccakStream.kstate"
			return one(&val{t: &typ{k: kKeccak}, c: c})
		}
	case "ffg.NewElement":
		if t.g.loops {
			t.nargs(ce, 0)
			return one(&val{t: tFg, c: t.newCell("0", "", oLocal)})
		}
	}
	if _, ok := t.g.pkgs[pn]; ok {
		return t.callNamed(pn, name, nil, ce)
	}
	t.fail("call of %s.%s: package not modelled", pn, name)
	return callRes{}
}

// conv: T(x) conversions between the named types and their underlying types.
func (t *tr) conv(ty *typ, arg ast.Expr) *val {
	// PrivKeyScalar(*s): copy of the big.Int value
	if ty.k == kZ && ty.bigVal {
		if st, ok := unparen(arg).(*ast.StarExpr); ok {
			x := t.eval(st.X)
			if x.t.k == kZ && x.c != nil {
				// a struct copy of a big.Int shares the limb array: no in-place write to either afterwards
				c := t.newCell(t.valueOf(x), "", oLocal)
				c.shares = x.c
				why := "its big.Int value was copied as a struct (" + exprText(arg) + "): the limbs are shared"
				c.noWrite = why
				t.setNoWrite(x.c, why)
				return &val{t: ty, c: c}
			}
		}
		t.fail("unsupported conversion to %s", ty.name)
	}
	x := t.eval(arg)
	switch {
	case t.g.loops && ty.k == kSlice && x.t.k == kString:
		return t.strBytes(x)
	case ty.k == kZ && x.t.k == kZ && !x.t.bigVal:
		return &val{t: ty, c: x.c, isNil: x.isNil}
	case ty.k == kStruct && x.t.k == kStruct && ty.sd == x.t.sd && ty.ptr == x.t.ptr:
		return &val{t: ty, o: x.o, isNil: x.isNil}
	case ty.k == kArr && x.t.k == kArr && ty.n == x.t.n:
		return &val{t: ty, e: t.bytesOf(x)}
	case ty.k == kSlice && x.t.k == kSlice:
		y := *x
		y.t = ty
		return &y
	}
	t.fail("unsupported conversion of %s to %s", x.t, ty)
	return nil
}

// ---- byte arrays ----------------------------------------------------------

// arrayView: e denotes bytes [lo,hi) of an array with storage.
func (t *tr) arrayView(e ast.Expr) (c *cell, lo, hi int) {
	v := t.eval(e)
	if v.c == nil || v.c.slen == 0 {
		t.fail("%s is not (a slice of) a byte array variable", exprText(e))
	}
	lo, hi = 0, v.c.slen
	if v.t.k == kSlice {
		lo = v.lo
		if v.hi >= 0 {
			hi = v.hi
		}
	}
	return v.c, lo, hi
}

// copyBytes: copy(dst, src) where dst is a slice of an array variable.
func (t *tr) copyBytes(dst, src ast.Expr) {
	s := t.eval(src)
	if s.t.k != kSlice {
		t.fail("copy from %s", s.t)
	}
	sv := t.bytesOf(s)
	c, lo, hi := t.arrayView(dst)
	if s.c == c {
		t.fail("copy within one array")
	}
	if c.zero == c.slen && lo == 0 && hi == c.slen {
		// copy into a fresh zero array: the hand models' copy_into
		t.write(c, "copy_into "+strconv.Itoa(c.slen)+" "+par(sv), 0)
		return
	}
	old := t.read(c)
	t.write(c, "copy_at "+strconv.Itoa(lo)+" "+strconv.Itoa(hi)+" "+par(old)+" "+par(sv), 0)
}

// appendBytes: append(a, b...) of byte slices, as a value.
func (t *tr) appendBytes(ce *ast.CallExpr) *val {
	if len(ce.Args) != 2 || !ce.Ellipsis.IsValid() {
		t.fail("unsupported append form %s", exprText(ce))
	}
	a, b := t.eval(ce.Args[0]), t.eval(ce.Args[1])
	if a.t.k != kSlice || b.t.k != kSlice {
		t.fail("append of %s and %s", a.t, b.t)
	}
	if a.c != nil {
		t.fail("append to a slice of an array variable may write into the array")
	}
	if a.spare { // x[:hi]: append writes into the bytes of x behind hi
		t.fail("append to a slice with an upper bound (%s) may write into the storage it was cut from", exprText(ce.Args[0]))
	}
	return &val{t: tSlice, e: par(t.bytesOf(a)) + " ++ " + par(t.bytesOf(b))}
}

// indexAssign: x[i] op= lit  /  x[i] = lit on a byte array variable or pointer.
func (t *tr) indexAssign(ie *ast.IndexExpr, op string, rhs ast.Expr) {
	x := t.eval(ie.X)
	if (x.t.k != kArr && x.t.k != kArrPtr) || x.c == nil {
		t.fail("assignment to an element of %s", x.t)
	}
	i := t.constIndex(ie.Index, x.t.n)
	cur := t.read(x.c)
	lit := t.byteLit(rhs)
	is := strconv.Itoa(i)
	var nv string
	switch op {
	case "=":
		nv = lit
	case "&=":
		nv = "Z.land (nth " + is + " " + par(cur) + " 0) " + lit
	case "|=":
		nv = "Z.lor (nth " + is + " " + par(cur) + " 0) " + lit
	case "^=":
		nv = "Z.lxor (nth " + is + " " + par(cur) + " 0) " + lit
	default:
		t.fail("unsupported element assignment operator %s", op)
	}
	t.write(x.c, "set_nth "+is+" "+par(nv)+" "+par(cur), 0)
}

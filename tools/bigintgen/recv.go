package main

import (
	"fmt"
	"go/ast"
	"os"
	"strings"
)

// destinations: methods with a pointer receiver that are DOCUMENTED to store
// their result in the receiver ("... and stores the result in p, which is
// also returned").  For each of them bigintgen emits, besides the value of
// the Go results, the definition <pkg>_<Type>_<Method>__recv : the FINAL
// value of the receiver as a function of its initial value and the arguments,
// under the assumption that the receiver (the struct and the integers behind
// its fields) is disjoint from the pointer arguments; and, where the table
// gives a parameter index, <..>__recv_aliased for the call in which that
// argument IS the receiver (p.Mul(s, p), p.Set(p)).
//
// A method without error result yields the receiver's type; a method with an
// error result yields `option <type>`: the value on every path that returns
// (success or error), None where the receiver is left with a nil field
// ("clobbered", not a value of the model's type) or where a callee panics.
var destinations = map[string]int{
	"babyjub.Point.Mul":            2, // (p *Point) Mul(s, q): q may be p
	"babyjub.Point.Set":            1, // (p *Point) Set(c): c may be p
	"babyjub.Point.Decompress":     -1,
	"babyjub.Signature.Decompress": -1,
}

// guarded runs f; a transErr becomes a marker definition for coqName.
func (g *gen) guarded(id, coqName string, f func() *summary) (sm *summary) {
	defer func() {
		r := recover()
		if r == nil {
			return
		}
		te, isTe := r.(transErr)
		if !isTe {
			panic(r)
		}
		fmt.Fprintln(os.Stderr, "bigintgen: ERROR: "+te.msg)
		sm = &summary{coqName: coqName, failed: true, retAlias: -1, resParam: -1,
			text: "(* " + id + ": TRANSLATION FAILED (see the message of bigintgen); the definition\n   " + coqName +
				" is deliberately missing, so that only its equality lemma breaks. *)\n" +
				"Definition " + coqName + "__TRANSLATION_FAILED : unit := tt.\n"}
		delete(g.inpr, id)
		g.done[id] = sm
		g.order = append(g.order, id)
		g.nfail++
	}()
	sm = f()
	g.done[id] = sm
	g.order = append(g.order, id)
	return sm
}

// recvDefs emits the __recv (and __recv_aliased) definitions of pn.key.
func (g *gen) recvDefs(pn, key string) {
	p := g.pkgs[pn]
	aliasIdx := destinations[pn+"."+key]
	variants := []struct {
		suffix string
		alias  int
	}{{"__recv", -1}}
	if aliasIdx > 0 {
		variants = append(variants, struct {
			suffix string
			alias  int
		}{"__recv_aliased", aliasIdx})
	}
	for _, v := range variants {
		v := v
		id := pn + "." + key + "#" + v.suffix
		name := coqNameOf(pn, key) + v.suffix
		g.guarded(id, name, func() *summary {
			fd, ok := p.funcs[key]
			if !ok || fd.Body == nil || fd.Recv == nil {
				panic(transErr{"method " + pn + "." + key + " not found in the repository"})
			}
			return g.translateRecv(p, key, fd, name, v.alias)
		})
	}
}

func (g *gen) translateRecv(p *pkg, key string, fd *ast.FuncDecl, name string, alias int) *summary {
	t := g.newTr(p, key, fd, -1, true, alias)
	rt := t.params[0].t
	if rt.k != kStruct || !rt.ptr {
		t.fail("the receiver of a documented destination must be a pointer to a struct")
	}
	body := t.block(fd.Body.List, func() string {
		if len(t.results) == 0 && !t.hasErr {
			return t.recvValue()
		}
		t.fail("missing return")
		return ""
	})
	var b strings.Builder
	hdr := exprText(&ast.FuncDecl{Recv: fd.Recv, Name: fd.Name, Type: fd.Type})
	hdr = strings.ReplaceAll(strings.ReplaceAll(hdr, "(*", "( *"), "*)", "* )")
	what := "final value of the receiver " + t.params[0].name + " (disjoint from the pointer arguments)"
	if alias > 0 {
		what = "final value of the receiver " + t.params[0].name + " when the argument " + t.params[alias].name + " IS the receiver"
	}
	b.WriteString("(* " + hdr + ": " + what + " *)\n")
	b.WriteString("Definition " + name)
	for i, pa := range t.params {
		if pa.alias {
			continue
		}
		u := true
		switch pa.t.k {
		case kZ, kFe, kArrPtr, kStruct:
			u = t.paramRead[i]
		}
		if i == 0 {
			u = true // always: the statement "unchanged" needs the initial value
		}
		if u {
			b.WriteString(" (" + pa.name + " : " + pa.t.coq() + ")")
		}
	}
	ty := rt.coq()
	if t.hasErr {
		ty = "option " + ty
	}
	b.WriteString(" : " + ty + " :=\n" + indent(body) + ".\n")
	sm := &summary{key: key, coqName: name, retAlias: -1, resParam: -1, text: b.String()}
	for v := range t.secUsed {
		sm.secVars = append(sm.secVars, v)
	}
	return sm
}

// recvValue: the current value of the receiver object, as the Coq result of
// a __recv definition.
func (t *tr) recvValue() string {
	o := t.params[0].v.o
	if !t.complete(o) {
		if !t.hasErr {
			t.fail("the receiver is left with a nil field on a path of a method without error result")
		}
		return "None"
	}
	v := t.wholeOf(o)
	if t.hasErr {
		return "Some " + par(v)
	}
	return v
}

// complete: no field of o (recursively) is nil.
func (t *tr) complete(o *object) bool {
	if o.whole != "" {
		return true
	}
	for _, f := range o.sd.fields {
		v, ok := o.f[f]
		if !ok || v.isNil {
			return false
		}
		if v.o != nil && !t.complete(v.o) {
			return false
		}
		if v.c != nil && v.c.guard != "" {
			return false
		}
	}
	return true
}

// retRecv: a return statement in recvMode.  The results are evaluated for
// their effects; the Coq value is the receiver's.
func (t *tr) retRecv(s *ast.ReturnStmt) string {
	if len(s.Results) == 1 {
		if ce, ok := unparen(s.Results[0]).(*ast.CallExpr); ok {
			r := t.call(ce)
			if r.pend == nil {
				return t.takeLines() + t.recvValue()
			}
			pd := r.pend
			pre := t.takeLines()
			m := t.mark()
			binder := "_"
			if !pd.unit {
				binder = t.freshFor(pd.hint, "")
			}
			pd.bind(binder)
			okB := t.takeLines() + t.recvValue()
			t.rollback(m)
			m = t.mark()
			for _, w := range pd.written {
				t.poison(w)
			}
			errB := t.recvValue()
			t.rollback(m)
			return pre + t.resMatch(pd.expr, binder, okB, errB)
		}
	}
	for _, e := range s.Results {
		if id, ok := e.(*ast.Ident); ok && (id.Name == "nil" || t.lookup(id.Name) != nil) {
			continue // a variable or nil: no effect (and it may be a poisoned result)
		}
		t.eval(e)
	}
	return t.takeLines() + t.recvValue()
}

package main

import (
	"go/ast"
	"go/token"
	"strconv"
	"strings"
)

// Loops mode: Go `int` arithmetic.
//
// An int value is a Coq nat (lengths, loop indices, literals and what is
// computed from them) or a Coq Z (int parameters, int struct fields).  nat
// arithmetic is exact for + * / mod; a - b in nat truncates at 0, so it is
// emitted only when (1) a known lower bound of a is >= the constant b, or (2)
// the result is marked `trunc` and then only accepted where a negative Go
// value panics or is equivalent to 0: an index, a slice bound, a make length,
// a loop bound, or the left operand of a further subtraction of a value >= 0.
// As soon as a Z operand is involved the arithmetic is done in Z (exact).

func natLike(v *val) bool { return v.nat || v.lit }

func (t *tr) exactInt(v *val, what string) {
	if v.t.k != kInt {
		t.fail("%s of type %s where an int is expected", what, v.t)
	}
	if v.trunc {
		t.fail("%s may be negative in Go (a difference of lengths): its nat value is only usable as an index or bound", what)
	}
}

// natIndex: v as a Coq nat in a position where a negative Go value panics
// (index, slice bound, make length) or means "no iteration" (loop bound).
func (t *tr) natIndex(v *val) string {
	if v.t.k != kInt {
		t.fail("index of type %s", v.t)
	}
	if natLike(v) {
		if v.e != "" && v.e[0] == '-' {
			t.fail("negative literal %s used as an index or bound", v.e)
		}
		return v.e
	}
	return "Z.to_nat " + par(v.e)
}

func mkLit(n int64) *val {
	v := &val{t: tInt, e: strconv.FormatInt(n, 10), lit: true, cv: n, hasCv: true}
	if n > 0 {
		v.lb = n
	}
	return v
}

// litVal completes the constant attributes of a literal int value.
func litVal(v *val) *val {
	if v.t.k == kInt && v.lit && !v.hasCv {
		if n, err := strconv.ParseInt(v.e, 10, 64); err == nil {
			v.cv, v.hasCv = n, true
			if n > 0 {
				v.lb = n
			}
		}
	}
	return v
}

// intArith: x op y for op in + - * / %.
func (t *tr) intArith(op token.Token, x, y *val, src ast.Expr) *val {
	litVal(x)
	litVal(y)
	if !(natLike(x) && natLike(y)) {
		t.exactInt(x, "operand")
		t.exactInt(y, "operand")
		sym := map[token.Token]string{token.ADD: " + ", token.SUB: " - ", token.MUL: " * "}[op]
		if sym == "" {
			t.fail("%s on Go ints that are not lengths: / and %% round differently in Go and Coq for negative values", op)
		}
		return &val{t: tInt, e: par(t.asZ(x)) + sym + par(t.asZ(y))}
	}
	if (x.lit && x.e[0] == '-') || (y.lit && y.e[0] == '-') {
		t.fail("negative literal in arithmetic on lengths: %s", exprText(src))
	}
	r := &val{t: tInt, nat: true}
	t.exactInt(y, "right operand")
	if op != token.SUB {
		t.exactInt(x, "left operand")
	}
	both := x.hasCv && y.hasCv
	switch op {
	case token.ADD:
		r.e = "(" + par(x.e) + " + " + par(y.e) + ")%nat"
		r.lb = x.lb + y.lb
		if both {
			r.cv, r.hasCv = x.cv+y.cv, true
		}
	case token.MUL:
		r.e = "(" + par(x.e) + " * " + par(y.e) + ")%nat"
		r.lb = x.lb * y.lb
		if both {
			r.cv, r.hasCv = x.cv*y.cv, true
		}
	case token.SUB:
		r.e = "(" + par(x.e) + " - " + par(y.e) + ")%nat"
		switch {
		case both:
			if x.cv < y.cv {
				t.fail("negative constant %s", exprText(src))
			}
			r.cv, r.hasCv, r.lb = x.cv-y.cv, true, x.cv-y.cv
		case !x.trunc && y.hasCv && x.lb >= y.cv:
			r.lb = x.lb - y.cv
		default:
			r.trunc = true
		}
	case token.QUO, token.REM:
		if y.lb < 1 {
			t.fail("division by %s, which is not known to be positive", exprText(src))
		}
		if op == token.QUO {
			r.e = "(" + par(x.e) + " / " + par(y.e) + ")%nat"
			if both {
				r.cv, r.hasCv, r.lb = x.cv/y.cv, true, x.cv/y.cv
			}
		} else {
			r.e = "(" + par(x.e) + " mod " + par(y.e) + ")%nat"
			if both {
				r.cv, r.hasCv, r.lb = x.cv%y.cv, true, x.cv%y.cv
			}
		}
	default:
		t.fail("unsupported int operator %s", op)
	}
	return r
}

// constDecl finds `const name = expr` (or a typed / grouped form) of package p.
func (p *pkg) constDecl(name string) ast.Expr {
	for _, f := range p.files {
		for _, d := range f.Decls {
			gd, ok := d.(*ast.GenDecl)
			if !ok || gd.Tok != token.CONST {
				continue
			}
			for _, sp := range gd.Specs {
				vs := sp.(*ast.ValueSpec)
				for i, n := range vs.Names {
					if n.Name == name && i < len(vs.Values) {
						return vs.Values[i]
					}
				}
			}
		}
	}
	return nil
}

// varDecl finds the initialiser of the package-level `var name = expr`.
func (p *pkg) varDecl(name string) ast.Expr {
	for _, f := range p.files {
		for _, d := range f.Decls {
			gd, ok := d.(*ast.GenDecl)
			if !ok || gd.Tok != token.VAR {
				continue
			}
			for _, sp := range gd.Specs {
				vs := sp.(*ast.ValueSpec)
				for i, n := range vs.Names {
					if n.Name == name && i < len(vs.Values) {
						return vs.Values[i]
					}
				}
			}
		}
	}
	return nil
}

// constIdent: a package-level constant (int or string), evaluated with the
// local variables out of sight.
func (t *tr) constIdent(name string) *val {
	e := t.p.constDecl(name)
	if e == nil {
		return nil
	}
	saved := t.env
	t.env = map[string]*binding{}
	v := t.eval(e)
	t.env = saved
	switch {
	case v.t.k == kInt && v.hasCv:
		return mkLit(v.cv)
	case v.t.k == kInt && v.lit:
		return litVal(v)
	case v.t.k == kString && v.hasStr:
		return v
	}
	t.fail("constant %s is neither an integer nor a string constant", name)
	return nil
}

// bytesLit: a constant string as a list of bytes.
func bytesLit(s string) string {
	var parts []string
	for _, b := range []byte(s) {
		parts = append(parts, strconv.Itoa(int(b)))
	}
	return "[" + strings.Join(parts, "; ") + "]"
}

// strBytes: a constant string value as a []byte value.
func (t *tr) strBytes(v *val) *val {
	if v.t.k != kString || !v.hasStr {
		t.fail("a string that is not a constant")
	}
	return &val{t: tSlice, e: bytesLit(v.str)}
}

package main

import (
	"strings"
)

// origin of a cell / object
const (
	oLocal    = iota // created by the function being translated
	oParam           // pointee of a pointer parameter / receiver
	oPField          // reached through a field of a parameter object
	oGlobal          // package-level object (constants.Q, SubOrder, B8 ...)
	oParamVal        // struct passed by value: a local copy whose fields point to the caller's integers
)

// cell is one mutable memory location: the big.Int behind a *big.Int, the
// ff.Element behind a *ff.Element, or the storage of a byte array.  cur is
// the Coq expression (usually a variable) that currently holds its VALUE.
type cell struct {
	id      int
	cur     string
	hint    string // Coq name used when the cell is re-bound by a let
	origin  int
	pidx    int // parameter index for oParam
	zero    int // > 0: byte array known to be n zero bytes (fresh [n]byte{})
	slen    int // static length of a byte array (0: not an array)
	written bool
	owner   *object
	noWrite string // non-empty: reason why an in-place write is not representable
	nilable bool   // parameter that may be nil (Coq type option Z)
	guard   string // non-empty: the value must not be read (reason)
	ty      string // loops mode: Coq type when it is not Z / bytes (list cells, sponge state)
	pver    int    // loops mode, list cells: version of the slots (bumped by a pointer store l[i] = p)
	moved   bool   // its pointer was stored into a slice slot: any later write through it would also change the slot
	via     []*val // arguments of the call that returned it, into which it may point (call2.go: shared)
	shares  *cell  // big.Int value copied from this cell by a struct copy (PrivKeyScalar(*s)): the limbs are shared
}

// object is one struct (Point, Signature, PointProjective).  Either `whole`
// is a Coq expression of the tuple type and the fields are its projections
// (materialised lazily), or whole == "" and the fields are authoritative.
type object struct {
	id     int
	sd     *structDesc
	whole  string
	f      map[string]*val
	origin int
	pidx   int
	owner  *object
	hint   string
	pw     bool   // whole is (a projection of) the incoming value of parameter pidx
	via    []*val // as cell.via
	ro     string // non-empty: the field integers may be shared with an argument of the call that returned it (reason)
}

// val is the symbolic value of a Go expression.
type val struct {
	t      *typ
	c      *cell   // kZ kFe; storage of kArr variables / kArrPtr / views of kSlice
	lo, hi int     // kSlice view of c: bytes [lo, hi) (hi < 0: up to the static length)
	e      string  // pure value: kBool kInt kZList kIface, kArr / kSlice without storage
	o      *object // kStruct
	isNil  bool
	pend   *pending // kErr: result of a call not yet examined
	errK   int      // kErr: 0 unknown/pending, 1 known nil, 2 known non-nil
	sq     *sqrtPend
	nat    bool // kInt: a length (Coq nat); otherwise a Go int parameter (Coq Z)
	lit    bool // kInt: an integer literal (either)
	poison bool // result of a call that failed
	// loops mode
	el     *elemRef // kZ kFe: pointer to an element of a list cell
	lb     int64    // kInt (nat / lit): known lower bound of the Go value
	cv     int64    // kInt: known constant value (hasCv)
	hasCv  bool
	trunc  bool   // kInt nat: a - b that may be negative in Go (only usable as index / bound)
	str    string // kString: value of a constant string
	hasStr bool
	spare  bool // kSlice: x[:hi] of something longer: append may write into the storage behind it
}

// elemRef: the pointer stored in slot idx of the list behind cell c.
type elemRef struct {
	c    *cell
	idx  string // Coq nat expression
	pver int
}

// sameVal: two bindings of a variable denote the same thing (same storage,
// same view bounds, same slot reference, same nil / error state).
func sameVal(a, b *val) bool {
	if a == b {
		return true
	}
	if a.c != b.c || a.o != b.o || a.e != b.e || a.lo != b.lo || a.hi != b.hi || a.isNil != b.isNil ||
		a.errK != b.errK || a.poison != b.poison || a.pend != b.pend || a.sq != b.sq {
		return false
	}
	if (a.el == nil) != (b.el == nil) {
		return false
	}
	return a.el == nil || (a.el.c == b.el.c && a.el.idx == b.el.idx && a.el.pver == b.el.pver)
}

type logEnt struct {
	undo func()
	c    *cell   // cell whose value changed
	v    string  // variable re-bound
	o    *object // struct whose fields / value were stored to
	mv   *cell   // cell whose pointer was moved into a slice slot
}

type binding struct {
	v     *val
	depth int
}

// par parenthesises a compound Coq expression.
func par(s string) string {
	if isAtom(s) {
		return s
	}
	return "(" + s + ")"
}

func isAtom(s string) bool {
	if s == "" {
		return true
	}
	if strings.ContainsAny(s, " \n") {
		// already wrapped by one balanced outer pair?
		if s[0] == '(' && s[len(s)-1] == ')' {
			d := 0
			for i, ch := range s {
				if ch == '(' {
					d++
				} else if ch == ')' {
					d--
					if d == 0 && i != len(s)-1 {
						return false
					}
				}
			}
			return true
		}
		if s[0] == '[' && s[len(s)-1] == ']' {
			return true
		}
		return false
	}
	return s[0] != '-'
}

// mentions reports whether identifier id occurs as a token in Coq text s.
func mentions(s, id string) bool {
	for i := 0; ; {
		j := strings.Index(s[i:], id)
		if j < 0 {
			return false
		}
		j += i
		k := j + len(id)
		if (j == 0 || !identCh(s[j-1])) && (k == len(s) || !identCh(s[k])) {
			return true
		}
		i = j + 1
	}
}

func identCh(b byte) bool {
	return b == '_' || b == '\'' || b == '.' || (b >= '0' && b <= '9') || (b >= 'a' && b <= 'z') || (b >= 'A' && b <= 'Z')
}

// ---- translation state of one function ------------------------------------

func (t *tr) newCell(cur, hint string, origin int) *cell {
	t.ncell++
	c := &cell{id: t.ncell, cur: cur, hint: hint, origin: origin, pidx: -1}
	t.cells = append(t.cells, c)
	n := len(t.cells)
	t.log = append(t.log, logEnt{undo: func() { t.cells = t.cells[:n-1]; t.ncell-- }})
	return c
}

func (t *tr) newObject(sd *structDesc, whole string, origin int) *object {
	t.nobj++
	o := &object{id: t.nobj, sd: sd, whole: whole, f: map[string]*val{}, origin: origin, pidx: -1}
	t.objs = append(t.objs, o)
	n := len(t.objs)
	t.log = append(t.log, logEnt{undo: func() { t.objs = t.objs[:n-1]; t.nobj-- }})
	return o
}

// read returns the current value expression of a cell and records that a
// parameter's incoming value is used / checks the aliasing assumption.
func (t *tr) read(c *cell) string {
	if c.guard != "" {
		t.fail("read of %s: %s", c.hint, c.guard)
	}
	t.noteRead(c)
	if w := t.objStored; w != nil && c.origin == oPField && !c.written && c.owner != nil && c.owner.sd == w.sd && c.pidx != w.pidx {
		t.fail("reads %s after a field of parameter %s was stored to: the two structs may be the same object (p.Add(p, q))", c.hint, w.hint)
	}
	if c.origin != oLocal && !c.written {
		if (c.origin == oParam || c.origin == oPField) && c.pidx >= 0 {
			t.paramRead[c.pidx] = true
		}
		if t.paramWritten != nil && !(c.origin == oParam && c == t.paramWritten) && !isListTy(c.ty) && !isListTy(t.paramWritten.ty) {
			t.fail("reads %s after the pointee of parameter %q was written in place: the two may alias and the value-level reading would be unsound",
				c.hint, t.paramWritten.hint)
		}
	}
	return c.cur
}

func (t *tr) setCur(c *cell, cur string, zero int) {
	oc, oz, ow, og := c.cur, c.zero, c.written, c.guard
	t.log = append(t.log, logEnt{undo: func() { c.cur, c.zero, c.written, c.guard = oc, oz, ow, og }, c: c})
	c.cur, c.zero, c.written = cur, zero, true
	if t.g.loops {
		c.guard = "" // an overwritten value is defined again
		t.noteWrite(c)
	}
}

// isListTy: the Coq type of a list cell (slices of pointers: the callers'
// slices are assumed pairwise disjoint, checked at translated call sites).
func isListTy(ty string) bool { return strings.HasPrefix(ty, "list ") }

// preWrite checks that an in-place write to c is representable and records it.
func (t *tr) preWrite(c *cell) {
	switch c.origin {
	case oGlobal:
		t.fail("in-place write to the package-level object %s", c.hint)
	case oPField:
		if !(t.destRecv && c.pidx == 0) {
			t.fail("in-place write to %s, which belongs to a parameter: the caller-visible effect has no value-level counterpart", c.hint)
		}
		// a field integer of a documented destination receiver (p.X.Set(..)):
		// assumes it is shared with no other parameter unless that parameter
		// IS the receiver (the _aliased variant)
		t.writes[0] = true
		t.inplace = true
	case oParam:
		t.writes[c.pidx] = true
		if t.paramWritten != c {
			pw := t.paramWritten
			t.log = append(t.log, logEnt{undo: func() { t.paramWritten = pw }})
			t.paramWritten = c
		}
	}
	if c.noWrite != "" {
		t.fail("in-place write to %s: %s", c.hint, c.noWrite)
	}
	if c.moved {
		t.fail("in-place write to %s after its pointer was stored in a slice: the slot would change too", c.hint)
	}
	if c.owner != nil {
		t.unwhole(c.owner)
	}
}

// write re-binds cell c to the value e with a let named after the cell's hint.
// Every alias of the cell sees the new value because aliases share the cell.
func (t *tr) write(c *cell, e string, zero int) {
	t.preWrite(c)
	if c.hint == "" {
		// anonymous temporary (new(big.Int).Op(..) inside an expression)
		t.setCur(c, e, zero)
		return
	}
	name := t.fresh(c.hint, c)
	t.emit("let " + name + " := " + e + " in")
	t.setCur(c, name, zero)
}

// unwhole makes the fields of o (and of the objects it is a field of)
// authoritative: called before a field or a field's cell changes.
func (t *tr) unwhole(o *object) {
	if o.whole == "" {
		return
	}
	for i, f := range o.sd.fields {
		t.field(o, f, i)
	}
	ow, opw := o.whole, o.pw
	t.log = append(t.log, logEnt{undo: func() { o.whole, o.pw = ow, opw }})
	o.whole, o.pw = "", false
	if o.owner != nil {
		t.unwhole(o.owner)
	}
}

// field returns the value of field name of object o.
func (t *tr) field(o *object, name string, idx int) *val {
	if v, ok := o.f[name]; ok {
		return v
	}
	if o.whole == "" {
		t.fail("field %s of %s is not set (nil)", name, o.hint)
	}
	ft := o.sd.ftyp[idx]
	org := oLocal
	switch {
	case o.origin == oGlobal:
		org = oGlobal
	case o.pw:
		org = oPField
	}
	var v *val
	if ft.k == kInt || (ft.k == kList && !intList(ft)) {
		v = &val{t: ft, e: o.sd.proj(idx, o.whole)}
	} else if ft.k == kStruct {
		fo := t.newObject(ft.sd, o.sd.proj(idx, o.whole), org)
		fo.owner, fo.hint, fo.pidx, fo.pw = o, o.hint+"_"+name, o.pidx, o.pw
		v = &val{t: ft, o: fo}
	} else {
		c := t.newCell(o.sd.proj(idx, o.whole), o.hint+"_"+name, org)
		c.owner, c.pidx = o, -1
		if intList(ft) {
			c.ty = "list Z"
		}
		if o.pw {
			c.pidx = o.pidx
		}
		v = &val{t: ft, c: c}
	}
	if o.ro != "" {
		t.protect(v, o.ro)
	}
	t.setField(o, name, v)
	return v
}

func (t *tr) setField(o *object, name string, v *val) {
	old, had := o.f[name]
	t.log = append(t.log, logEnt{undo: func() {
		if had {
			o.f[name] = old
		} else {
			delete(o.f, name)
		}
	}})
	o.f[name] = v
}

// wholeOf is the tuple value of an object.  (fst e, snd e) is printed as e.
func (t *tr) wholeOf(o *object) string {
	if o.whole != "" {
		if o.pw && o.pidx >= 0 {
			t.paramRead[o.pidx] = true
			if w := t.objStored; w != nil && o != w && o.sd == w.sd && o.pidx != w.pidx {
				t.fail("reads %s after a field of parameter %s was stored to: the two structs may be the same object", o.hint, w.hint)
			}
		}
		return o.whole
	}
	var parts []string
	for i, f := range o.sd.fields {
		v, ok := o.f[f]
		if !ok || v.isNil {
			t.fail("field %s of %s is nil where the value of the struct is needed", f, o.hint)
		}
		_ = i
		parts = append(parts, t.valueOf(v))
	}
	// eta: all fields are the projections of one expression
	if base, ok := etaBase(o.sd, parts); ok {
		return base
	}
	return "(" + strings.Join(parts, ", ") + ")"
}

func etaBase(sd *structDesc, parts []string) (string, bool) {
	p0 := parts[0]
	if !strings.HasPrefix(p0, "fst ") {
		return "", false
	}
	// candidate base: strip the projections of field 0
	cands := []string{}
	s := p0
	for strings.HasPrefix(s, "fst ") {
		s = strings.TrimPrefix(s, "fst ")
		if len(s) > 1 && s[0] == '(' && isAtom(s) && strings.HasPrefix(s[1:], "fst ") {
			s = s[1 : len(s)-1]
			continue
		}
		cands = append(cands, s)
		break
	}
	for _, b := range cands {
		base := b
		if len(base) > 1 && base[0] == '(' && isAtom(base) {
			base = base[1 : len(base)-1]
		}
		ok := true
		for i := range parts {
			if sd.proj(i, base) != parts[i] {
				ok = false
			}
		}
		if ok {
			return base, true
		}
	}
	return "", false
}

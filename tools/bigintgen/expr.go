package main

import (
	"bytes"
	"go/ast"
	"go/constant"
	"go/printer"
	"go/token"
	"strconv"
	"strings"
)

func exprText(e ast.Node) string {
	var b bytes.Buffer
	_ = printer.Fprint(&b, token.NewFileSet(), e)
	return b.String()
}

// intLit returns the decimal text of an integer literal (possibly -lit).
func intLit(e ast.Expr) (string, bool) {
	neg := false
	if u, ok := e.(*ast.UnaryExpr); ok && u.Op == token.SUB {
		neg, e = true, u.X
	}
	if pe, ok := e.(*ast.ParenExpr); ok {
		return intLit(pe.X)
	}
	bl, ok := e.(*ast.BasicLit)
	if !ok || bl.Kind != token.INT {
		return "", false
	}
	v := constant.MakeFromLiteral(bl.Value, token.INT, 0)
	if v.Kind() != constant.Int {
		return "", false
	}
	s := v.ExactString()
	if neg {
		s = "-" + s
	}
	return s, true
}

func zLit(s string) string {
	if strings.HasPrefix(s, "-") {
		return "(" + s + ")"
	}
	return s
}

// global objects of the repository that the hand models treat as constants.
type globalDef struct {
	coq string
	t   *typ
}

var globalTable = map[string]globalDef{
	"constants.Q":        {"Gen.CurveConsts.Q", tZ},
	"constants.Zero":     {"Gen.CurveConsts.Zero", tZ},
	"constants.One":      {"Gen.CurveConsts.One", tZ},
	"constants.MinusOne": {"Gen.CurveConsts.MinusOne", tZ},
	"babyjub.A":          {"BabyJub.A", tZ},
	"babyjub.D":          {"BabyJub.D", tZ},
	"babyjub.Order":      {"BabyJub.Order", tZ},
	"babyjub.SubOrder":   {"BabyJub.SubOrder", tZ},
	"babyjub.B8":         {"BabyJub.B8", tStruct(sdPoint, true)},
	// Aff = SetBigInt(A), Dff = SetBigInt(D): A, D < Q, the value is A, D
	"babyjub.Aff": {"BabyJub.A", tFe},
	"babyjub.Dff": {"BabyJub.D", tFe},
}

func (t *tr) global(pkgName, name string) *val {
	k := pkgName + "." + name
	gd, ok := globalTable[k]
	if !ok {
		return nil
	}
	if v, ok := t.globals[k]; ok {
		return v
	}
	if gp := t.g.pkgs[pkgName]; gp != nil && gp.assigned[name] {
		t.fail("package-level variable %s is assigned outside init: it cannot be read as a constant", k)
	}
	if q := t.g.foreignWrite(pkgName); q != "" {
		t.fail("package %s may change an object of package %s", q, pkgName)
	}
	var v *val
	if gd.t.k == kStruct {
		o := t.newObject(gd.t.sd, gd.coq, oGlobal)
		o.hint = k
		v = &val{t: gd.t, o: o}
	} else {
		c := t.newCell(gd.coq, k, oGlobal)
		v = &val{t: gd.t, c: c}
	}
	t.globals[k] = v
	return v
}

// importName maps the local name of an import to the package's base name
// (mimc7 imports constants as _constants).
func (t *tr) importName(id string) string {
	if b, ok := t.p.imports()[id]; ok {
		return b
	}
	return ""
}

// knownImport: the import path the translator means by a package name ("" if none).
func (p *pkg) knownImport(n string) string {
	switch n {
	case "constants", "utils", "mimc7", "poseidon", "babyjub", "keccak256", "goldenposeidon", "ff", "ffg":
		return p.module + "/" + n
	}
	return map[string]string{"big": "math/big", "fmt": "fmt", "errors": "errors", "hex": "encoding/hex",
		"sha3": "golang.org/x/crypto/sha3", "driver": "database/sql/driver"}[n]
}

func (p *pkg) imports() map[string]string {
	if p.imp != nil {
		return p.imp
	}
	p.imp = map[string]string{}
	for _, f := range p.files {
		for _, is := range f.Imports {
			path, _ := strconv.Unquote(is.Path.Value)
			base := path[strings.LastIndex(path, "/")+1:]
			local := base
			if is.Name != nil {
				local = is.Name.Name
			}
			if old, ok := p.imp[local]; ok && old != base {
				fatalf("%s: import name %s is used for two packages", p.pos(is), local)
			}
			// the translator knows packages by these names: another package under one of them
			// (.../internal/utils, import big "x/y") would be taken for the known one
			for _, n := range []string{base, local} {
				if want := p.knownImport(n); want != "" && want != path {
					fatalf("%s: import %q under the name %s, which the translator reads as %q", p.pos(is), path, n, want)
				}
			}
			if path == "C" || local == "." {
				fatalf("%s: cgo and dot imports are not modelled", p.pos(is))
			}
			p.imp[local] = base
		}
	}
	return p.imp
}

// eval evaluates a single-valued expression.
func (t *tr) eval(e ast.Expr) *val {
	switch e := e.(type) {
	case *ast.ParenExpr:
		return t.eval(e.X)
	case *ast.Ident:
		return t.evalIdent(e)
	case *ast.BasicLit:
		if s, ok := intLit(e); ok {
			return &val{t: tInt, e: s, lit: true}
		}
		if e.Kind == token.STRING {
			v := &val{t: tString, e: e.Value}
			if s, err := strconv.Unquote(e.Value); err == nil {
				v.str, v.hasStr = s, true
			}
			return v
		}
	case *ast.SelectorExpr:
		if id, ok := e.X.(*ast.Ident); ok && t.lookup(id.Name) == nil {
			if pn := t.importName(id.Name); pn != "" {
				if v := t.global(pn, e.Sel.Name); v != nil {
					return v
				}
				t.fail("unknown package-level object %s.%s", pn, e.Sel.Name)
			}
		}
		x := t.eval(e.X)
		if t.g.loops && x.t.k == kStruct && !x.isNil {
			if fv, ok := x.o.f[e.Sel.Name]; ok && x.o.whole == "" {
				return fv // (also fields that are not pointers to integers)
			}
		}
		if x.t.k != kStruct {
			t.fail("field selection %s on a value of type %s", e.Sel.Name, x.t)
		}
		if x.isNil {
			t.fail("field of a nil pointer")
		}
		for i, f := range x.t.sd.fields {
			if f == e.Sel.Name {
				return t.field(x.o, f, i)
			}
		}
		t.fail("no field %s in %s", e.Sel.Name, x.t)
	case *ast.UnaryExpr:
		return t.evalUnary(e)
	case *ast.StarExpr:
		x := t.eval(e.X)
		switch {
		case x.t.k == kStruct && x.t.ptr:
			return t.copyStruct(x, &typ{k: kStruct, sd: x.t.sd, name: x.t.name, pkg: x.t.pkg})
		case x.t.k == kArrPtr:
			return &val{t: &typ{k: kArr, n: x.t.n, name: x.t.name, pkg: x.t.pkg}, e: t.read(x.c)}
		case t.g.loops && x.t.k == kFe && !x.isNil:
			// *a on an *ff.Element: a copy of the element's value
			return &val{t: x.t, c: t.newCell(t.valueOf(x), "", oLocal)}
		}
		t.fail("unsupported dereference of %s", x.t)
	case *ast.BinaryExpr:
		return t.evalBinary(e)
	case *ast.CallExpr:
		r := t.call(e)
		if r.pend != nil {
			t.fail("call with an error result used as a plain value: %s", exprText(e))
		}
		if len(r.vals) != 1 {
			t.fail("call with %d results used as a single value: %s", len(r.vals), exprText(e))
		}
		return r.vals[0]
	case *ast.IndexExpr:
		return t.evalIndex(e)
	case *ast.SliceExpr:
		return t.evalSlice(e)
	case *ast.CompositeLit:
		return t.evalComposite(e)
	}
	t.fail("unsupported expression %s", exprText(e))
	return nil
}

func (t *tr) evalIdent(e *ast.Ident) *val {
	switch e.Name {
	case "nil":
		return &val{t: tErr, isNil: true, errK: 1}
	case "true", "false":
		if t.lookup(e.Name) == nil {
			return &val{t: tBool, e: e.Name}
		}
	}
	if v := t.lookup(e.Name); v != nil {
		if v.poison {
			t.fail("%s is a result of a call that failed (its error is not checked on this path)", e.Name)
		}
		return v
	}
	if t.p.errVars[e.Name] {
		return &val{t: tErr, errK: 2}
	}
	if v := t.global(t.p.name, e.Name); v != nil {
		return v
	}
	if t.g.loops {
		if v := t.constIdent(e.Name); v != nil {
			return v
		}
		if v := t.loopsGlobal(e.Name); v != nil {
			return v
		}
	}
	t.fail("unknown identifier %s", e.Name)
	return nil
}

func (t *tr) copyStruct(x *val, ty *typ) *val {
	o := t.newObject(x.o.sd, x.o.whole, oLocal)
	o.hint, o.pw, o.pidx = x.o.hint, x.o.pw, x.o.pidx
	for k, v := range x.o.f {
		o.f[k] = v
	}
	if x.o.whole != "" {
		// the fields of the copy are the same pointers: share materialised cells
		for i, f := range x.o.sd.fields {
			o.f[f] = t.field(x.o, f, i)
		}
		// the shared cells are authoritative for the copy too: a cached tuple would not
		// see a later in-place write through the original (pk := PublicKey(*p); p.X.Neg(p.X))
		o.whole, o.pw = "", false
	}
	return &val{t: ty, o: o}
}

func (t *tr) evalUnary(e *ast.UnaryExpr) *val {
	switch e.Op {
	case token.NOT:
		x := t.eval(e.X)
		if x.t.k != kBool {
			t.fail("! on %s", x.t)
		}
		if y, ok := stripNegb(x.e); ok { // double negation
			return &val{t: tBool, e: y}
		}
		return &val{t: tBool, e: "negb " + par(x.e)}
	case token.AND:
		if cl, ok := e.X.(*ast.CompositeLit); ok {
			v := t.evalComposite(cl)
			return t.addrOf(v)
		}
		if id, ok := e.X.(*ast.Ident); ok {
			v := t.lookup(id.Name)
			if v == nil {
				t.fail("& of unknown variable %s", id.Name)
			}
			return t.addrOf(v)
		}
	case token.SUB:
		if s, ok := intLit(e); ok {
			return &val{t: tInt, e: s, lit: true}
		}
	}
	t.fail("unsupported unary expression %s", exprText(e))
	return nil
}

// addrOf: &x for a struct or array variable shares the variable's storage.
func (t *tr) addrOf(v *val) *val {
	switch {
	case v.t.k == kStruct && !v.t.ptr:
		return &val{t: &typ{k: kStruct, sd: v.t.sd, ptr: true, name: v.t.name, pkg: v.t.pkg}, o: v.o}
	case v.t.k == kZ && v.t.bigVal && v.c != nil:
		return &val{t: &typ{k: kZ, name: v.t.name, pkg: v.t.pkg}, c: v.c}
	case v.t.k == kArr && v.c != nil:
		return &val{t: &typ{k: kArrPtr, n: v.t.n, name: v.t.name, pkg: v.t.pkg}, c: v.c}
	}
	t.fail("unsupported & of a value of type %s", v.t)
	return nil
}

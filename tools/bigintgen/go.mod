module bigintgen

go 1.20

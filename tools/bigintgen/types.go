package main

import (
	"go/ast"
	"go/token"
	"strconv"
)

// kind of a Go type the translator understands (syntactic typing: the
// packages are parsed, not type-checked; every expression gets its type from
// declarations, signatures and the tables below, and anything else is an
// error).
type kind int

const (
	kZ      kind = iota // *big.Int, *PrivKeyScalar: pointer to a mutable integer -> Z
	kFe                 // *ff.Element: pointer to a mutable field element -> Z (value in [0,Q))
	kBool               // bool
	kInt                // int (only lengths and literals) -> nat
	kArr                // [n]byte and named array types (value) -> bytes
	kArrPtr             // *[n]byte, *PrivateKey, ... -> bytes
	kSlice              // []byte, utils.Hex -> bytes
	kStruct             // Point/PublicKey, Signature, PointProjective (value or pointer)
	kZList              // []*big.Int -> list Z
	kIface              // interface{} (Scan sources) -> Eddsa.scan_src
	kErr                // error
	kString             // string (only as argument of fmt.Errorf & co: never evaluated)
	kByte               // byte (element of a byte array) -> Z
	kList               // loops mode: slice / array of elem (list of the element's Coq type)
	kKeccak             // loops mode: sha3 sponge state (KeccakStream.kstate)
)

type typ struct {
	name   string // Go named type ("PublicKey", "PrivateKey", ...; "" for unnamed types)
	pkg    string // package of the named type
	k      kind
	n      int         // static length of kArr / kArrPtr
	sd     *structDesc // kStruct
	ptr    bool        // kStruct: pointer to struct
	bigVal bool        // kZ: big.Int as a value type (type PrivKeyScalar big.Int)
	iface  bool        // kSlice: an interface result (driver.Value) that is given a []byte
	elem   *typ        // kList: element type
	gold   bool        // kFe / kByte-like: an ffg.Element (Goldilocks modulus) / uint64 word
	natInt bool        // kInt element of a list: the Coq element type is nat
}

type structDesc struct {
	name   string   // canonical Go name
	coq    string   // Coq type
	fields []string // in tuple order
	ftyp   []*typ
}

var (
	tZ      = &typ{k: kZ}
	tFe     = &typ{k: kFe}
	tBool   = &typ{k: kBool}
	tInt    = &typ{k: kInt}
	tSlice  = &typ{k: kSlice}
	tZList  = &typ{k: kZList}
	tIface  = &typ{k: kIface}
	tErr    = &typ{k: kErr}
	tString = &typ{k: kString}
	tByte   = &typ{k: kByte}
	tFg     = &typ{k: kFe, gold: true}   // *ffg.Element: value in [0, pg)
	tU64    = &typ{k: kByte, gold: true} // uint64 -> Z
	tNatInt = &typ{k: kInt, natInt: true}

	sdPoint = &structDesc{name: "Point", coq: "point", fields: []string{"X", "Y"}, ftyp: []*typ{tZ, tZ}}
	sdProj  = &structDesc{name: "PointProjective", coq: "ppoint", fields: []string{"X", "Y", "Z"}, ftyp: []*typ{tFe, tFe, tFe}}
	sdSig   = &structDesc{name: "Signature", coq: "signature", fields: []string{"R8", "S"},
		ftyp: []*typ{{k: kStruct, sd: sdPoint, ptr: true, name: "Point", pkg: "babyjub"}, tZ}}
)

func tArr(n int) *typ    { return &typ{k: kArr, n: n} }
func tArrPtr(n int) *typ { return &typ{k: kArrPtr, n: n} }
func tStruct(sd *structDesc, ptr bool) *typ {
	return &typ{k: kStruct, sd: sd, ptr: ptr, name: sd.name, pkg: "babyjub"}
}

func (t *typ) coq() string {
	switch t.k {
	case kZ, kFe, kByte:
		return "Z"
	case kBool:
		return "bool"
	case kInt: // int parameters and results; lengths are nat inside expressions
		return "Z"
	case kArr, kArrPtr, kSlice:
		return "bytes"
	case kStruct:
		return t.sd.coq
	case kZList:
		return "list Z"
	case kIface:
		return "scan_src"
	case kList:
		if t.elem.k == kInt && t.elem.natInt {
			return "list nat"
		}
		return "list " + par(t.elem.coq())
	case kKeccak:
		return "KeccakStream.kstate"
	}
	return "?"
}

func (t *typ) String() string {
	switch t.k {
	case kArr:
		return "[" + strconv.Itoa(t.n) + "]byte"
	case kArrPtr:
		return "*[" + strconv.Itoa(t.n) + "]byte"
	case kStruct:
		if t.ptr {
			return "*" + t.sd.name
		}
		return t.sd.name
	case kList:
		return "[]" + t.elem.String()
	case kKeccak:
		return "sha3 state"
	}
	return [...]string{"*big.Int", "*ff.Element", "bool", "int", "", "", "[]byte", "", "[]*big.Int",
		"interface{}", "error", "string", "byte"}[t.k]
}

// proj is the Coq projection of field i of a tuple value e of struct sd.
func (sd *structDesc) proj(i int, e string) string {
	n := len(sd.fields)
	// (a, b, c) = ((a, b), c)
	s := par(e)
	if i == 0 {
		for j := 0; j < n-2; j++ {
			s = "(fst " + s + ")"
		}
		return "fst " + s
	}
	for j := 0; j < n-1-i; j++ {
		s = "(fst " + s + ")"
	}
	return "snd " + s
}

// resolveType maps a type expression of package p to a typ.
func (p *pkg) resolveType(e ast.Expr) *typ {
	switch e := e.(type) {
	case *ast.StarExpr:
		if isSel(e.X, "big", "Int") {
			return tZ
		}
		if isSel(e.X, "ff", "Element") {
			return tFe
		}
		if isSel(e.X, "ffg", "Element") {
			return tFg
		}
		in := p.resolveType(e.X)
		switch in.k {
		case kArr:
			return &typ{k: kArrPtr, n: in.n, name: in.name, pkg: in.pkg}
		case kStruct:
			if !in.ptr {
				return &typ{k: kStruct, sd: in.sd, ptr: true, name: in.name, pkg: in.pkg}
			}
		case kZ: // *PrivKeyScalar where PrivKeyScalar is big.Int
			if in.bigVal {
				return &typ{k: kZ, name: in.name, pkg: in.pkg}
			}
		}
		p.failAt(e, "unsupported pointer type")
	case *ast.ArrayType:
		if e.Len == nil {
			if id, ok := e.Elt.(*ast.Ident); ok && id.Name == "byte" {
				return tSlice
			}
			if st, ok := e.Elt.(*ast.StarExpr); ok && isSel(st.X, "big", "Int") {
				return tZList
			}
			// (loops mode) slices of other element types
			if id, ok := e.Elt.(*ast.Ident); ok && id.Name == "int" {
				return tListOf(tNatInt)
			}
			return tListOf(p.resolveType(e.Elt))
		}
		if id, ok := e.Elt.(*ast.Ident); ok && id.Name == "uint64" {
			// [N]uint64 with a constant N: a value (copied on assignment)
			return &typ{k: kList, elem: tU64, n: -1}
		}
		if id, ok := e.Elt.(*ast.Ident); ok && id.Name == "byte" {
			if bl, ok := e.Len.(*ast.BasicLit); ok && bl.Kind == token.INT {
				n, err := strconv.Atoi(bl.Value)
				if err == nil {
					return tArr(n)
				}
			}
		}
		p.failAt(e, "unsupported array type")
	case *ast.InterfaceType:
		if e.Methods == nil || len(e.Methods.List) == 0 {
			return tIface
		}
	case *ast.Ellipsis: // variadic parameter
		return tListOf(p.resolveType(e.Elt))
	case *ast.SelectorExpr:
		if isSel(e, "big", "Int") {
			return tBigVal
		}
		if isSel(e, "utils", "Hex") {
			return &typ{k: kSlice, name: "Hex", pkg: "utils"}
		}
		if isSel(e, "driver", "Value") { // database/sql/driver.Value: the methods return a []byte
			return &typ{k: kSlice, iface: true}
		}
	case *ast.Ident:
		switch e.Name {
		case "bool":
			return tBool
		case "int":
			return tInt
		case "error":
			return tErr
		case "string": // a string is its bytes
			return tSlice
		case "uint64":
			return tU64
		}
		if t, ok := p.named[e.Name]; ok {
			return t
		}
	}
	p.failAt(e, "unsupported type")
	return nil
}

// tBigVal is big.Int as a VALUE type: it only occurs in `type PrivKeyScalar
// big.Int` and in conversions PrivKeyScalar(*s).
var tBigVal = &typ{k: kZ, bigVal: true}

func isSel(e ast.Expr, x, sel string) bool {
	s, ok := e.(*ast.SelectorExpr)
	if !ok || s.Sel.Name != sel {
		return false
	}
	id, ok := s.X.(*ast.Ident)
	return ok && id.Name == x
}

package main

import (
	"go/ast"
	"strconv"
)

// Loops mode: slices of pointers ([]*ff.Element, []*big.Int) and byte slices
// with dynamic indices.
//
// A slice of element pointers is a Coq list of the pointees' values, held in a
// cell.  Assumption (checked where the translator sees the stores): the slots
// of one slice point to pairwise distinct integers that nothing else refers
// to.  l[i] is an elemRef (cell of l, index); an in-place method on it, or a
// callee writing through it, is `set_nth i v l`.  A pointer store l[i] = p
// MOVES p: p must be a local integer, its value goes into slot i and p itself
// must not be used afterwards (guard); references to slots taken before a
// pointer store are stale (pver).  make([]*T, n) is `repeat 0 n`: a nil slot
// is represented by 0 and must be filled before it is dereferenced.

func intElem(ty *typ) bool { return ty != nil && (ty.k == kFe || ty.k == kZ) }

// intList: []*big.Int or []*ff.Element (list Z with mutable elements).
func intList(ty *typ) bool { return ty.k == kZList || (ty.k == kList && intElem(ty.elem)) }

func elemOf(ty *typ) *typ {
	if ty.k == kZList {
		return tZ
	}
	return ty.elem
}

func tListOf(e *typ) *typ { return &typ{k: kList, elem: e} }

// defaultOf: the default element for nth on a list of ty's elements.
func defaultOf(el *typ) string {
	switch el.k {
	case kList, kSlice, kZList:
		return "[]"
	case kInt:
		if el.natInt {
			return "0%nat"
		}
	}
	return "0"
}

// listExpr: the Coq value of a list-typed value.
func (t *tr) listExpr(v *val) string {
	if v.isNil {
		t.fail("nil slice used as a value")
	}
	if v.c != nil {
		return t.read(v.c)
	}
	return v.e
}

func (t *tr) bumpPver(c *cell) {
	old := c.pver
	t.log = append(t.log, logEnt{undo: func() { c.pver = old }})
	c.pver++
}

func (t *tr) setGuard(c *cell, why string) {
	og := c.guard
	t.log = append(t.log, logEnt{undo: func() { c.guard = og }, c: c})
	c.guard = why
}

func (t *tr) readElem(r *elemRef) string {
	if r.pver != r.c.pver {
		t.fail("use of a pointer to element %s of %s taken before a pointer was stored into that slice", r.idx, r.c.hint)
	}
	return "nth " + par(r.idx) + " " + par(t.read(r.c)) + " 0"
}

func (t *tr) writeElem(r *elemRef, e string) {
	if r.pver != r.c.pver {
		t.fail("write through a pointer to element %s of %s taken before a pointer was stored into that slice", r.idx, r.c.hint)
	}
	old := t.read(r.c)
	t.write(r.c, "set_nth "+par(r.idx)+" "+par(e)+" "+par(old), 0)
}

// writeInt: the integer v points to gets the value e.
func (t *tr) writeInt(v *val, e string) {
	if v.el != nil {
		t.writeElem(v.el, e)
		return
	}
	t.write(v.c, e, 0)
}

// nameCell names an anonymous cell after the variable it is stored in.
func (t *tr) nameCell(c *cell, name string) {
	if c.hint != "" {
		return
	}
	c.hint = name
	t.log = append(t.log, logEnt{undo: func() { c.hint = "" }})
	if !isAtom(c.cur) {
		n := t.fresh(name, c)
		t.emit("let " + n + " := " + c.cur + " in")
		oc := c.cur
		t.log = append(t.log, logEnt{undo: func() { c.cur = oc }})
		c.cur = n
	}
}

// indexLoops: x[i] in loops mode (x already evaluated).
func (t *tr) indexLoops(e *ast.IndexExpr, x *val) *val {
	iv := t.eval(e.Index)
	idx := t.natIndex(iv)
	switch {
	case x.t.k == kArr || x.t.k == kArrPtr || x.t.k == kSlice:
		return &val{t: tByte, e: "nth " + par(idx) + " " + par(t.bytesOf(x)) + " 0"}
	case intList(x.t):
		el := elemOf(x.t)
		if x.c != nil {
			return &val{t: el, el: &elemRef{c: x.c, idx: idx, pver: x.c.pver}}
		}
		c := t.newCell("nth "+par(idx)+" "+par(x.e)+" 0", "", oLocal)
		c.noWrite = "it is an element of a slice that is a value for the translator (" + exprText(e.X) + ")"
		return &val{t: el, c: c}
	case x.t.k == kList:
		el := x.t.elem
		ex := "nth " + par(idx) + " " + par(t.listExpr(x)) + " " + defaultOf(el)
		switch el.k {
		case kInt:
			return &val{t: tInt, nat: el.natInt, e: ex}
		case kByte:
			return &val{t: el, e: ex}
		}
		return &val{t: el, e: ex}
	}
	t.fail("unsupported index expression %s on %s", exprText(e), x.t)
	return nil
}

// makeCall: make(T, n) / make([]*big.Int, 0, cap).
func (t *tr) makeCall(ce *ast.CallExpr) *val {
	if len(ce.Args) < 2 || len(ce.Args) > 3 {
		t.fail("unsupported make form %s", exprText(ce))
	}
	ty := t.p.resolveType(ce.Args[0])
	n := t.eval(ce.Args[1])
	if len(ce.Args) == 3 {
		t.natIndex(t.eval(ce.Args[2]))
	}
	cnt := t.natIndex(n)
	cur := "repeat 0 " + par(cnt)
	if litVal(n).hasCv && n.cv == 0 {
		cur = "[]"
	}
	switch {
	case ty.k == kSlice:
		c := t.newCell(cur, "", oLocal)
		c.ty = "bytes"
		return &val{t: tSlice, c: c, lo: 0, hi: -1}
	case intList(ty):
		c := t.newCell(cur, "", oLocal)
		c.ty = "list Z"
		return &val{t: ty, c: c}
	}
	t.fail("unsupported make of %s", ty)
	return nil
}

// movable: v points to a local integer that may be moved into a slice slot.
func (t *tr) movable(v *val, what string) string {
	if v.isNil || v.c == nil || (v.t.k != kZ && v.t.k != kFe) {
		t.fail("%s: only a pointer to a local integer can be stored in a slice", what)
	}
	c := v.c
	if c.origin != oLocal || c.owner != nil || c.noWrite != "" {
		t.fail("%s: the integer %s is reachable otherwise (parameter, struct field or slice value)", what, c.hint)
	}
	e := t.read(c)
	t.setGuard(c, "it was stored in a slice ("+what+"): use the slice element")
	t.log = append(t.log, logEnt{undo: func() { c.moved = false }, mv: c})
	c.moved = true // (a write would clear the guard, but it would also change the slot in Go)
	return e
}

// indexStore: l[i] = rhs on a list cell or a byte slice cell; false if the
// target is not one (the caller falls back to the byte-array form).
func (t *tr) indexStore(ie *ast.IndexExpr, rhs ast.Expr) bool {
	x := t.eval(ie.X)
	switch {
	case x.t.k == kSlice && x.c != nil && x.c.slen == 0 && x.lo == 0 && x.hi < 0:
		idx := t.natIndex(t.eval(ie.Index))
		b := t.eval(rhs)
		var bv string
		switch {
		case b.t.k == kByte:
			bv = b.e
		case b.t.k == kInt && b.lit:
			bv = t.byteLit(rhs)
		default:
			t.fail("byte slice element assigned a value of type %s", b.t)
		}
		old := t.read(x.c)
		t.write(x.c, "set_nth "+par(idx)+" "+par(bv)+" "+par(old), 0)
		return true
	case intList(x.t) && x.c != nil:
		idx := t.natIndex(t.eval(ie.Index))
		v := t.eval(rhs)
		if v.el != nil {
			if v.el.c == x.c && v.el.idx == idx {
				return true // l[i] = l[i].Op(..): the same pointer
			}
			t.fail("a pointer to an element of a slice is stored in a slice slot: aliasing between slices is not modelled")
		}
		e := t.movable(v, exprText(ie)+" = ..")
		old := t.read(x.c)
		t.write(x.c, "set_nth "+par(idx)+" "+par(e)+" "+par(old), 0)
		t.bumpPver(x.c)
		return true
	case x.t.k == kList || x.t.k == kZList:
		t.fail("assignment to an element of %s, which is a value for the translator", exprText(ie.X))
	}
	return false
}

// appendList: append(l, p) on a list of integers; the result must be assigned
// back to l (checked by the caller).
func (t *tr) appendList(ce *ast.CallExpr, l *val) *val {
	if len(ce.Args) != 2 || ce.Ellipsis.IsValid() {
		t.fail("unsupported append form %s", exprText(ce))
	}
	old := t.listExpr(l)
	e := t.movable(t.eval(ce.Args[1]), exprText(ce))
	if l.c != nil {
		// the result holds the SAME element pointers: the old slice must not be used under another name
		oc, og := l.c, l.c.guard // (not a change of the cell's VALUE: no entry for join / loop items)
		t.log = append(t.log, logEnt{undo: func() { oc.guard = og }})
		oc.guard = "its pointers were handed to the result of " + exprText(ce)
	}
	c := t.newCell(par(old)+" ++ ["+e+"]", "", oLocal)
	c.ty = "list Z"
	if old == "[]" {
		c.cur = "[" + e + "]"
	}
	return &val{t: l.t, c: c}
}

// copyList: copy(dst[lo:], src) / copy(dst, src) on lists of integers; the
// pointers of src are moved (src is unusable afterwards).
func (t *tr) copyList(dstE ast.Expr, d, s *val, lo int) {
	if d.c == nil {
		t.fail("copy into %s, which is a value for the translator", exprText(dstE))
	}
	sv := t.listExpr(s)
	if s.c != nil {
		if s.c.origin != oLocal {
			t.fail("copy of the pointers of a parameter slice into another slice: aliasing between slices is not modelled")
		}
		t.setGuard(s.c, "its pointers were copied into "+d.c.hint)
	}
	old := t.read(d.c)
	t.write(d.c, "copy_at "+strconv.Itoa(lo)+" (length "+par(old)+") "+par(old)+" "+par(sv), 0)
	t.bumpPver(d.c)
}

package main

import (
	"go/ast"
	"go/token"
	"strings"
)

// block translates a statement list to the Coq term "rest of the function
// from here"; k produces the term for falling off the end of the list.
func (t *tr) block(stmts []ast.Stmt, k func() string) string {
	var sb strings.Builder
	for i, s := range stmts {
		t.cur = s
		rest := stmts[i+1:]
		switch s := s.(type) {
		case *ast.ReturnStmt:
			if len(rest) != 0 {
				t.fail("statements after return")
			}
			if t.inJoin > 0 {
				// (the value would be taken for the joined variables and execution would go on)
				t.fail("return inside an if statement that falls through")
			}
			body := t.ret(s)
			if t.loopRet != nil {
				body = t.loopRet(body)
			}
			sb.WriteString(t.takeLines())
			sb.WriteString(body)
			return sb.String()
		case *ast.IfStmt:
			body := t.ifStmt(s, rest, k)
			return sb.String() + body
		case *ast.AssignStmt:
			if body, took := t.assignStmt(s, rest, k); took {
				return sb.String() + body
			}
		case *ast.DeclStmt:
			t.declStmt(s)
		case *ast.ExprStmt:
			ce, ok := s.X.(*ast.CallExpr)
			if !ok {
				t.fail("unsupported expression statement")
			}
			r := t.call(ce)
			if r.pend != nil {
				t.fail("the error result of %s is dropped", exprText(ce.Fun))
			}
			for _, v := range r.vals {
				if v.sq != nil {
					t.fail("the outcome of ModSqrt is not examined")
				}
			}
		case *ast.EmptyStmt:
		case *ast.ForStmt, *ast.RangeStmt:
			if !t.g.loops {
				if t.loopStmt(s) {
					break
				}
				t.fail("unsupported statement (%T); loops, switch, goto, defer and go are not translated", s)
			}
			if body, took := t.forStmtGen(s, rest, k); took {
				return sb.String() + body
			}
		default:
			if t.loopStmt(s) {
				break
			}
			t.fail("unsupported statement (%T); loops, switch, goto, defer and go are not translated", s)
		}
		sb.WriteString(t.takeLines())
	}
	t.cur = nil
	tail := k()
	return sb.String() + t.takeLines() + tail
}

func terminates(stmts []ast.Stmt) bool {
	if len(stmts) == 0 {
		return false
	}
	switch s := stmts[len(stmts)-1].(type) {
	case *ast.ReturnStmt:
		return true
	case *ast.IfStmt:
		if s.Else == nil {
			return false
		}
		return terminates(s.Body.List) && terminates(elseList(s.Else))
	case *ast.BlockStmt:
		return terminates(s.List)
	}
	return false
}

func elseList(e ast.Stmt) []ast.Stmt {
	switch e := e.(type) {
	case nil:
		return nil
	case *ast.BlockStmt:
		return e.List
	}
	return []ast.Stmt{e}
}

func indent(s string) string {
	s = strings.TrimRight(s, "\n")
	return "  " + strings.ReplaceAll(s, "\n", "\n  ")
}

func (t *tr) noFall() string {
	t.fail("control reaches the end of a branch that must return")
	return ""
}

// branch runs stmts in a nested scope and undoes every state change.
func (t *tr) branch(stmts []ast.Stmt, k func() string) string {
	m := t.mark()
	t.depth++
	s := t.block(stmts, k)
	t.rollback(m)
	return s
}

func (t *tr) ifStmt(s *ast.IfStmt, rest []ast.Stmt, k func() string) string {
	if s.Init != nil {
		as, ok := s.Init.(*ast.AssignStmt)
		if !ok {
			t.fail("unsupported if-initialiser")
		}
		if as.Tok == token.DEFINE {
			// the scope of an if-initialiser ends with the if statement: an outer variable of
			// the same name would wrongly keep the inner value afterwards
			for _, l := range as.Lhs {
				if id, ok := l.(*ast.Ident); ok && id.Name != "_" && t.lookup(id.Name) != nil {
					t.fail("if-initialiser declares %s, which shadows an outer variable", id.Name)
				}
			}
		}
		s2 := *s
		s2.Init = nil
		if body, took := t.assignStmt(as, append([]ast.Stmt{&s2}, rest...), k); took {
			return body
		}
		pre := t.takeLines()
		return pre + t.ifStmt(&s2, rest, k)
	}
	if body, ok := t.ifSpecial(s, rest, k); ok {
		return body
	}
	c := t.eval(s.Cond)
	if c.t.k != kBool {
		t.fail("condition of type %s", c.t)
	}
	pre := t.takeLines()
	thenL, elseL := s.Body.List, elseList(s.Else)
	switch {
	case terminates(thenL):
		a := t.branch(thenL, t.noFall)
		b := t.block(append(append([]ast.Stmt{}, elseL...), rest...), k)
		cc := c.e
		if s.Else != nil { // an explicit if/else (not the early-return idiom): canonical polarity
			cc, a, b = ifCond(c.e, a, b)
		}
		return pre + "if " + cc + " then\n" + indent(a) + "\nelse\n" + indent(b)
	case s.Else != nil && terminates(elseL):
		b := t.branch(elseL, t.noFall)
		a := t.block(append(append([]ast.Stmt{}, thenL...), rest...), k)
		cc, a, b := ifCond(c.e, a, b)
		return pre + "if " + cc + " then\n" + indent(a) + "\nelse\n" + indent(b)
	}
	t.join(c.e, thenL, elseL)
	return pre + t.block(rest, k)
}

// item changed in a branch: a cell or a value variable.
type item struct {
	c *cell
	v string
	o *object // loops mode: a struct whose value is written
}

func (t *tr) changes(m mark) []item {
	var out []item
	seen := map[interface{}]bool{}
	for _, e := range t.log[m.nlog:] {
		if e.mv != nil && t.cellExistedAt(e.mv, m) {
			// (after the join it would be usable again although one path has given it away)
			t.fail("the pointer %s is stored into a slice in one branch of an if without return", e.mv.hint)
		}
		if e.o != nil && e.o.id <= m.nobj {
			if !t.g.loops {
				t.fail("a struct (%s) is stored to in one branch of an if without return", e.o.hint)
			}
			if !seen[e.o] {
				seen[e.o] = true
				if n := t.heldField(e.o); n != "" {
					t.fail("the struct %s is written in a branch while %s points to one of its fields", e.o.hint, n)
				}
				out = append(out, item{o: e.o})
			}
			continue
		}
		switch {
		case e.c != nil && !seen[e.c]:
			if t.cellExistedAt(e.c, m) {
				seen[e.c] = true
				out = append(out, item{c: e.c})
			}
		case e.v != "" && !seen[e.v]:
			seen[e.v] = true
			out = append(out, item{v: e.v})
		}
	}
	return out
}

func (t *tr) cellExistedAt(c *cell, m mark) bool { return c.id <= m.ncell }

// join: if c { A } else { B } where neither branch returns.  The values that
// the branches change are re-bound by one let over the conditional.
func (t *tr) join(cond string, thenL, elseL []ast.Stmt) {
	if len(t.lines) != 0 {
		t.fail("internal: pending lines at a join")
	}
	t.inJoin++
	defer func() { t.inJoin-- }()
	outer := map[string]*binding{}
	for n, b := range t.env {
		outer[n] = b
	}
	savedAcc := t.acc
	var tracks []*accTrack
	collect := func(l []ast.Stmt) []item {
		if savedAcc != nil {
			t.acc = &accTrack{first: map[*cell]byte{}, depth: t.depth + 1}
			tracks = append(tracks, t.acc)
			defer func() { t.acc = savedAcc }()
		}
		m := t.mark()
		t.depth++
		var its []item
		t.block(l, func() string {
			for _, it := range t.changes(m) {
				if it.v != "" {
					ob, ok := outer[it.v]
					if !ok {
						continue // declared inside the branch
					}
					nv := t.lookup(it.v)
					switch ob.v.t.k {
					case kBool, kInt:
					default:
						// (sameVal also compares view bounds, slot references and the nil / error
						// state: a change of any of them in one branch only must not be dropped)
						if !sameVal(nv, ob.v) {
							if t.g.loops && t.ptrVarJoinable(ob.v, nv, m) && !t.heldElsewhere(ob.v, outer, it.v) {
								break // carried as a value: see below
							}
							t.fail("variable %s of type %s is re-assigned in one branch of an if without return", it.v, ob.v.t)
						}
						continue
					}
				}
				its = append(its, it)
			}
			return ""
		})
		t.rollback(m)
		return its
	}
	var items []item
	have := map[interface{}]bool{}
	for _, l := range [][]ast.Stmt{thenL, elseL} {
		for _, it := range collect(l) {
			key := interface{}(it.v)
			if it.c != nil {
				key = it.c
			}
			if it.o != nil {
				key = it.o
			}
			if !have[key] {
				have[key] = true
				items = append(items, it)
			}
		}
	}
	if len(items) == 0 {
		t.fail("if without effect on the translated state")
	}
	if savedAcc != nil {
		// first accesses of the two branches, seen from the enclosing loop body:
		// written first on both paths = written first; anything else = read
		for _, tk := range tracks {
			for c, a := range tk.first {
				if !t.cellExistedAt(c, t.mark()) {
					continue
				}
				if a == 'W' && tracks[0].first[c] == 'W' && tracks[1].first[c] == 'W' {
					t.noteWrite(c)
				} else {
					t.noteRead(c)
				}
			}
		}
		t.acc = nil
		defer func() { t.acc = savedAcc }()
	}
	tuple := func() string {
		var parts []string
		for _, it := range items {
			switch {
			case it.c != nil:
				parts = append(parts, it.c.cur)
			case it.o != nil:
				parts = append(parts, t.wholeOf(it.o))
			default:
				if v := t.lookup(it.v); v.t.k == kBool || v.t.k == kInt {
					parts = append(parts, v.e)
				} else {
					parts = append(parts, t.valueOf(v))
				}
			}
		}
		if len(parts) == 1 {
			return parts[0]
		}
		return "(" + strings.Join(parts, ", ") + ")"
	}
	a := simplifyLet(t.branch(thenL, tuple))
	b := simplifyLet(t.branch(elseL, tuple))
	var names []string
	for _, it := range items {
		if it.c != nil {
			h := it.c.hint
			if h == "" {
				t.fail("internal: anonymous cell changed in a branch")
			}
			names = append(names, t.fresh(h, it.c))
		} else if it.o != nil {
			names = append(names, t.fresh(it.o.hint, it.o))
		} else {
			names = append(names, t.freshFor(it.v, it.v))
		}
	}
	pat := names[0]
	if len(names) > 1 {
		pat = "'(" + strings.Join(names, ", ") + ")"
	}
	if len(elseL) != 0 { // explicit if/else: canonical polarity
		cond, a, b = ifCond(cond, a, b)
	}
	if strings.Contains(a, "\n") || strings.Contains(b, "\n") {
		t.emit("let " + pat + " :=\n  if " + cond + " then\n" + indent(indent(a)) + "\n  else\n" + indent(indent(b)) + " in")
	} else {
		t.emit("let " + pat + " := if " + cond + " then " + a + " else " + b + " in")
	}
	for i, it := range items {
		if it.c != nil {
			t.preWrite(it.c)
			t.setCur(it.c, names[i], 0)
		} else if it.o != nil {
			t.checkObjWritable(it.o)
			t.setWhole(it.o, names[i])
		} else {
			old := t.lookup(it.v)
			if old.t.k != kBool && old.t.k != kInt {
				li := &litem{v: it.v, vt: old.t}
				t.bindItem(li, names[i], true)
				continue
			}
			t.setVar(it.v, &val{t: old.t, e: names[i]}, false)
		}
	}
}

// simplifyLet: "let x := e in\nx" is e.
func simplifyLet(s string) string {
	s = strings.TrimSpace(s)
	if strings.Count(s, "\n") == 1 && strings.HasPrefix(s, "let ") {
		i := strings.Index(s, " := ")
		j := strings.LastIndex(s, " in\n")
		if i > 0 && j > i {
			name := s[4:i]
			if s[j+4:] == name && !strings.ContainsAny(name, "'(, ") {
				return s[i+4 : j]
			}
		}
	}
	return s
}

// heldElsewhere: another variable refers to the storage old points to: joining the
// variable as a value would cut it off from that alias (old := l; if c { l = append(l, v) }).
func (t *tr) heldElsewhere(old *val, env map[string]*binding, name string) bool {
	return old.c != nil && len(t.holders(old.c, env, name)) > 0
}

// ptrVarJoinable (loops mode): a pointer variable that a branch makes point
// to storage created in that branch can be joined as a VALUE; afterwards it
// points to a cell that must not be written in place (the pointer differs
// between the paths).
func (t *tr) ptrVarJoinable(old, nv *val, m mark) bool {
	if old.t.k == kErr || nv.t.k == kErr {
		return false // an error (or nil) assigned in one branch only: not joined
	}
	switch nv.t.k {
	case kZ, kFe:
		// only a variable that is nil before the if: otherwise the path that keeps the old
		// pointer would lose its alias with the old target
		return old.isNil && nv.c != nil && nv.c.id > m.ncell
	case kZList, kList:
		return nv.c == nil || nv.c.id > m.ncell
	}
	return false
}

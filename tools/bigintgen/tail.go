package main

import (
	"go/ast"
)

// nilTest: `x == nil` / `x != nil` on a pointer that is not an error.
func (t *tr) nilTest(s *ast.IfStmt, be *ast.BinaryExpr, v *val, rest []ast.Stmt, k func() string) (string, bool) {
	if v.c != nil && v.c.nilable {
		return t.optionJoin(s, be, v, rest, k), true
	}
	t.fail("nil test of %s: only error values, ModSqrt outcomes and declared nil-able parameters can be tested", exprText(be.X))
	return "", false
}

package main

import (
	"go/ast"
	"strconv"
)

func (t *tr) checkObjWritable(o *object) {
	switch o.origin {
	case oGlobal:
		t.fail("write to the package-level object %s", o.hint)
	case oPField:
		t.fail("write to %s, which belongs to a parameter: the caller-visible effect has no value-level counterpart", o.hint)
	case oParam:
		t.writes[o.pidx] = true
		if t.objStored == nil && !t.recvMode { // (__recv ASSUMES a receiver disjoint from the arguments; __recv_aliased shares the object)
			t.log = append(t.log, logEnt{undo: func() { t.objStored = nil }})
			t.objStored = o
		}
	}
	if o.owner != nil {
		t.unwhole(o.owner)
	}
	t.log = append(t.log, logEnt{undo: func() {}, o: o})
}

func (t *tr) setWhole(o *object, e string) {
	ow, of, opw := o.whole, o.f, o.pw
	t.log = append(t.log, logEnt{undo: func() { o.whole, o.f, o.pw = ow, of, opw }})
	o.whole, o.f, o.pw = e, map[string]*val{}, false
}

// writeObj gives the struct behind o the new value e (a let when o is named).
func (t *tr) writeObj(o *object, e string, bindOnly bool) {
	t.checkObjWritable(o)
	if bindOnly || o.hint == "" || isAtom(e) {
		t.setWhole(o, e)
		return
	}
	name := t.fresh(o.hint, o)
	t.emit("let " + name + " := " + e + " in")
	t.setWhole(o, name)
}

// writeArg: the pointee of argument v gets the value e.
func (t *tr) writeArg(v *val, e string, bindOnly bool) {
	if v.isNil {
		t.fail("write through a nil pointer")
	}
	switch v.t.k {
	case kZ, kFe, kArrPtr:
		if v.el != nil {
			t.writeElem(v.el, e)
			return
		}
		t.writeCell(v.c, e, bindOnly)
	case kList, kZList:
		if v.c == nil {
			t.fail("callee writes the elements of a slice that is a value for the translator")
		}
		t.writeCell(v.c, e, bindOnly)
	case kSlice:
		if v.c == nil || v.c.slen == 0 || v.lo != 0 || (v.hi >= 0 && v.hi != v.c.slen) {
			t.fail("callee writes through a slice that is not a whole array variable")
		}
		t.writeCell(v.c, e, bindOnly)
	case kStruct:
		if !v.t.ptr {
			t.fail("callee writes through a struct value")
		}
		t.writeObj(v.o, e, bindOnly)
	default:
		t.fail("callee writes through an argument of type %s", v.t)
	}
}

func (t *tr) writeCell(c *cell, e string, bindOnly bool) {
	if !bindOnly {
		t.write(c, e, 0)
		return
	}
	h := c.hint
	c.hint = ""
	t.write(c, e, 0) // anonymous path: checks + setCur, no let
	c.hint = h
}

func (t *tr) mkVal(ty *typ, e string) *val {
	switch ty.k {
	case kZ, kFe:
		return &val{t: ty, c: t.newCell(e, "", oLocal)}
	case kSlice:
		return &val{t: ty, e: e, spare: true} // (a callee may return a slice with spare capacity, e.g. its own parameter)
	case kBool, kInt, kZList, kArr, kByte:
		return &val{t: ty, e: e}
	case kStruct:
		return &val{t: ty, o: t.newObject(ty.sd, e, oLocal)}
	case kList:
		if intList(ty) {
			c := t.newCell(e, "", oLocal)
			c.ty = "list Z"
			return &val{t: ty, c: c}
		}
		return &val{t: ty, e: e}
	}
	t.fail("result of type %s is not representable", ty)
	return nil
}

// recvAdjust: Go's automatic & / * on method receivers.
func (t *tr) recvAdjust(want *typ, v *val) *val {
	switch {
	case want.k == kStruct && v.t.k == kStruct && want.ptr && !v.t.ptr:
		return t.addrOf(v)
	case want.k == kStruct && v.t.k == kStruct && !want.ptr && v.t.ptr:
		return t.copyStruct(v, want)
	case want.k == kArrPtr && v.t.k == kArr && v.c != nil:
		return t.addrOf(v)
	case want.k == kArr && v.t.k == kArrPtr:
		return &val{t: want, e: t.read(v.c)}
	}
	return v
}

func compat(want, got *typ) bool {
	if got.k == kErr { // nil
		return false
	}
	if want.k != got.k {
		return false
	}
	switch want.k {
	case kArr, kArrPtr:
		return want.n == got.n
	case kStruct:
		return want.sd == got.sd && want.ptr == got.ptr
	case kList:
		return compat(want.elem, got.elem)
	case kFe, kByte:
		return want.gold == got.gold
	}
	return true
}

func (t *tr) checkAssignable(want *typ, v *val) {
	if v.isNil && v.t.k == kErr {
		return
	}
	if !compat(want, v.t) {
		t.fail("value of type %s where %s is expected", v.t, want)
	}
}

// callNamed: a function or method of one of the parsed packages.
func (t *tr) callNamed(pn, key string, recv *val, ce *ast.CallExpr) callRes {
	if r, ok := t.external(pn, key, recv, ce); ok {
		return r
	}
	sm := t.g.summaryOf(pn, key, t)
	if sm.failed {
		t.fail("calls %s.%s, whose translation failed", pn, key)
	}
	var argv []*val
	if recv != nil {
		argv = append(argv, t.recvAdjust(sm.params[0].t, recv))
	}
	nl := len(t.lines)
	for _, v := range argv {
		defer t.hold(v)()
	}
	for i, a := range ce.Args {
		v := t.eval(a)
		argv = append(argv, v)
		defer t.hold(v)() // (by-value arguments already evaluated keep their names)
		if i > 0 && len(t.lines) != nl {
			t.fail("argument %d of %s.%s has side effects: evaluation order is not modelled", i, pn, key)
		}
	}
	if t.g.loops {
		argv = t.adaptArgs(sm, argv)
	}
	if len(argv) != len(sm.params) {
		t.fail("call of %s.%s with %d arguments, expected %d", pn, key, len(argv), len(sm.params))
	}
	coq := sm.coqName
	for _, sv := range sm.secVars {
		t.secUsed[sv] = true
	}
	for i, p := range sm.params {
		if !(t.g.loops && p.v.c != nil && p.v.c.nilable && argv[i].isNil) && !compat(p.t, argv[i].t) {
			t.fail("argument %d of %s.%s has type %s, expected %s", i, pn, key, argv[i].t, p.t)
		}
		if sm.used[i] {
			if p.v.c != nil && p.v.c.nilable { // option Z
				if argv[i].isNil {
					coq += " None"
				} else {
					coq += " (Some " + par(t.valueOf(argv[i])) + ")"
				}
				continue
			}
			coq += " " + par(t.valueOf(argv[i]))
		}
	}
	if t.g.loops {
		t.checkDisjointArgs(pn, key, sm, argv)
	}
	if sm.inplace {
		t.fail("%s.%s writes the integers behind its receiver's fields in place: calls of it are not modelled", pn, key)
	}
	for i := range sm.writes {
		if i != sm.retAlias && i != sm.resParam {
			if a := argv[i]; a.o != nil && a.o.origin == oLocal && a.o.hint == "" && a.o.owner == nil {
				continue // a fresh temporary (NewPoint().M(..)): the write cannot be observed
			}
			t.fail("%s.%s writes parameter %s whose final value is not part of its result", pn, key, sm.params[i].name)
		}
	}
	retag := func(v *val, ty *typ) *val {
		u := *v
		u.t = ty
		return &u
	}
	// the result may point to integers of some arguments (p.Y = y; return &p): from here on
	// neither those arguments nor the result may be written in place
	shared := func(vals []*val) []*val {
		if len(sm.resAlias) == 0 {
			return vals
		}
		why := "it may be shared between an argument and the result of " + pn + "." + key
		for i := range sm.resAlias {
			t.protect(argv[i], why)
		}
		var via []*val
		for i := range sm.resAlias {
			via = append(via, argv[i])
		}
		for _, v := range vals {
			t.protect(v, why)
			// provenance, so that a caller that returns v in turn records the aliasing too
			switch {
			case v.c != nil:
				c, old := v.c, v.c.via
				t.log = append(t.log, logEnt{undo: func() { c.via = old }})
				c.via = append(append([]*val{}, old...), via...)
			case v.o != nil:
				o, old := v.o, v.o.via
				t.log = append(t.log, logEnt{undo: func() { o.via = old }})
				o.via = append(append([]*val{}, old...), via...)
			}
		}
		return vals
	}
	if !sm.hasErr {
		switch {
		case sm.retAlias >= 0 && sm.identity:
			return callRes{vals: []*val{retag(argv[sm.retAlias], sm.results[0])}}
		case sm.retAlias >= 0:
			t.writeArg(argv[sm.retAlias], coq, false)
			return callRes{vals: shared([]*val{retag(argv[sm.retAlias], sm.results[0])})}
		case len(sm.results) == 0 && sm.resParam >= 0:
			t.writeArg(argv[sm.resParam], coq, false)
			return callRes{}
		case len(sm.results) == 1:
			return callRes{vals: shared([]*val{t.mkVal(sm.results[0], coq)})}
		case len(sm.results) > 1 && len(sm.resAlias) > 0:
			t.fail("%s.%s has several results, some of which may point into its arguments: not modelled", pn, key)
		case len(sm.results) > 1:
			return callRes{tuple: coq, tupleT: sm.results}
		}
		t.fail("call of %s.%s has neither a result nor an effect", pn, key)
	}
	pd := &pending{expr: coq, hint: "r"}
	for i := range sm.writes {
		pd.written = append(pd.written, argv[i])
	}
	switch {
	case sm.retAlias >= 0:
		pd.bind = func(name string) []*val {
			t.writeArg(argv[sm.retAlias], name, true)
			return shared([]*val{retag(argv[sm.retAlias], sm.results[0])})
		}
	case len(sm.results) == 0 && sm.resParam >= 0:
		pd.hint = sm.params[sm.resParam].name
		pd.bind = func(name string) []*val {
			t.writeArg(argv[sm.resParam], name, true)
			return nil
		}
	case len(sm.results) == 0:
		pd.unit = true
		pd.bind = func(string) []*val { return nil }
	case len(sm.results) == 1:
		pd.bind = func(name string) []*val { return shared([]*val{t.mkVal(sm.results[0], name)}) }
	default:
		t.fail("%s.%s: several results besides the error", pn, key)
	}
	return callRes{pend: pd}
}

// external: functions that are not translated (loops, other packages'
// algorithms, library code) and are mapped to the names the hand models use.
// externalSha: fingerprints of the bodies of the functions that are NOT translated
// but replaced by a name of the hand models (below).  An edit of such a body
// changes what the Go code computes without changing the generated files: it
// must be re-validated against the model (and the fingerprint updated).
var externalSha = map[string]string{
	"babyjub.Blake512":               "925a4145528153169e74bcf8cb2ea1f7",
	"babyjub.Point.Projective":       "78aff38ae3481c46fec724167cc1482a",
	"babyjub.PointProjective.Affine": "f5cc8107919d6d445e75143a5315c388",
	"utils.HexDecodeInto":            "02e9a1e7240d31567f3f7db6381abac1",
}

func (t *tr) checkExternal(pn, key string) {
	want, ok := externalSha[pn+"."+key]
	if !ok {
		return
	}
	fd := t.g.pkgs[pn].funcs[key]
	if fd == nil || fd.Body == nil {
		t.fail("external function %s.%s not found", pn, key)
	}
	if fp := fingerprint(fd); fp != want {
		t.fail("the untranslated function %s.%s changed (fingerprint %s, recorded %s): its model must be re-validated", pn, key, fp, want)
	}
}

func (t *tr) external(pn, key string, recv *val, ce *ast.CallExpr) (callRes, bool) {
	t.checkExternal(pn, key)
	one := func(v *val) (callRes, bool) { return callRes{vals: []*val{v}}, true }
	bytesArg := func(i int) string {
		v := t.eval(ce.Args[i])
		if v.t.k != kSlice {
			t.fail("argument %d of %s.%s has type %s, expected []byte", i, pn, key, v.t)
		}
		return par(t.bytesOf(v))
	}
	listArg := func(i int) string {
		v := t.eval(ce.Args[i])
		if v.t.k != kZList {
			t.fail("argument %d of %s.%s has type %s, expected []*big.Int", i, pn, key, v.t)
		}
		return par(v.e)
	}
	if t.g.loops {
		switch pn + "." + key {
		case "utils.SwapEndianness", "utils.CheckBigIntArrayInField", "babyjub.Point.Mul":
			return callRes{}, false // translated, with their loops
		}
	}
	switch pn + "." + key {
	case "utils.SwapEndianness": // loop
		t.nargs(ce, 1)
		return one(&val{t: tSlice, e: "Utils.SwapEndianness " + bytesArg(0)})
	case "babyjub.Blake512": // github.com/dchest/blake512
		t.nargs(ce, 1)
		t.secUsed["blake512"] = true
		return one(&val{t: tSlice, e: "blake512 " + bytesArg(0)})
	case "poseidon.Hash":
		if t.p.name == "poseidon" {
			return callRes{}, false
		}
		t.nargs(ce, 1)
		t.secUsed["poseidon5"] = true
		return callRes{pend: &pending{expr: "poseidon5 " + listArg(0), hint: "h",
			bind: func(n string) []*val { return []*val{t.mkVal(tZ, n)} }}}, true
	case "mimc7.Hash":
		if t.p.name == "mimc7" {
			return callRes{}, false
		}
		t.nargs(ce, 2)
		if id, ok := ce.Args[1].(*ast.Ident); !ok || id.Name != "nil" {
			t.fail("mimc7.Hash with a key other than nil")
		}
		t.secUsed["mimc7h"] = true
		return callRes{pend: &pending{expr: "mimc7h " + listArg(0), hint: "h",
			bind: func(n string) []*val { return []*val{t.mkVal(tZ, n)} }}}, true
	case "utils.CheckBigIntArrayInField": // loop
		t.nargs(ce, 1)
		return one(&val{t: tBool, e: "Utils.CheckBigIntArrayInField " + coqQ + " " + listArg(0)})
	case "utils.HexDecodeInto": // encoding/hex
		t.nargs(ce, 2)
		c, lo, hi := t.arrayView(ce.Args[0])
		if lo != 0 || hi != c.slen {
			t.fail("HexDecodeInto into a part of an array")
		}
		h := bytesArg(1)
		dst := t.eval(ce.Args[0])
		return callRes{pend: &pending{expr: "Utils.HexDecodeInto " + strconv.Itoa(c.slen) + " " + h,
			hint: c.hint, written: []*val{dst}, bind: func(n string) []*val { t.writeArg(dst, n, true); return nil }}}, true
	case "babyjub.Point.Mul": // loop
		t.nargs(ce, 2)
		s := par(t.zArg(ce.Args[0]))
		q := t.eval(ce.Args[1])
		if q.t.k != kStruct || q.t.sd != sdPoint {
			t.fail("Point.Mul of %s", q.t)
		}
		t.writeObj(recv.o, "BabyJub.Mul "+s+" "+par(t.wholeOf(q.o)), false)
		return one(recv)
	case "babyjub.Point.Projective": // ff conversion
		t.nargs(ce, 0)
		pty := &typ{k: kStruct, sd: sdProj, ptr: true, name: "PointProjective", pkg: "babyjub"}
		return one(t.mkVal(pty, "BabyJub.Projective "+par(t.wholeOf(recv.o))))
	case "babyjub.PointProjective.Affine": // ff.Inverse
		t.nargs(ce, 0)
		ty := &typ{k: kStruct, sd: sdPoint, ptr: true, name: "Point", pkg: "babyjub"}
		return one(t.mkVal(ty, "BabyJub.Affine "+par(t.wholeOf(recv.o))))
	}
	return callRes{}, false
}

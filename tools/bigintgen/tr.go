package main

import (
	"fmt"
	"go/ast"
	"strconv"
	"strings"
)

type param struct {
	name     string
	t        *typ
	v        *val
	recv     bool
	alias    bool // recvMode: bound to the receiver's object
	variadic bool
}

// summary of a translated function, used at its call sites.
type summary struct {
	key      string
	coqName  string
	params   []*param
	used     []bool // parameter i is an argument of the Coq definition
	results  []*typ // Go results without the trailing error
	hasErr   bool
	writes   map[int]bool // pointer parameters whose pointee is written
	retAlias int          // the (single, pointer) result is parameter i; -1: fresh
	resParam int          // no Go result: the Coq result is the final value of parameter i (-1: unit)
	identity bool         // retAlias >= 0, nothing written: the call is the argument itself
	resAlias map[int]bool // parameters whose integers the (fresh) result may point to: p.Y = y; return &p
	secVars  []string     // section variables (hash functions) the definition depends on
	text     string
	coqType  string
	failed   bool // translation failed: marker definition only
	inplace  bool // writes the receiver's field integers in place: not callable from translated code
	destRecv bool
}

// tr translates one function.
type tr struct {
	g   *gen
	p   *pkg
	fd  *ast.FuncDecl
	key string
	cur ast.Node

	cells        []*cell
	objs         []*object
	ncell, nobj  int
	env          map[string]*binding
	depth        int
	log          []logEnt
	lines        []string
	paramRead    map[int]bool
	writes       map[int]bool
	paramWritten *cell
	params       []*param
	results      []*typ
	hasErr       bool
	retAlias     int // -2: no return seen yet
	resParam     int
	secUsed      map[string]bool
	nfresh       int
	globals      map[string]*val
	destRecv     bool         // the receiver is a documented destination: its fields may be written in place
	recvMode     bool         // translate to the FINAL VALUE OF THE RECEIVER instead of the result
	aliasArg     int          // recvMode: this parameter IS the receiver (p.Mul(s, p)); -1: none
	inplace      bool         // some field integer of the receiver was written in place
	temps        []*val       // values held by an expression under evaluation
	resAlias     map[int]bool // see summary.resAlias
	objStored    *object      // struct behind a pointer parameter whose fields were stored to (p.Y = y3)
	// loops mode
	acc     *accTrack           // first-access tracking of the loop body being analysed
	loopRet func(string) string // inside a loop body: wraps the value of a return statement
	inJoin  int                 // > 0: inside a branch of an if that falls through
}

func (t *tr) fail(format string, args ...interface{}) {
	where := t.p.pos(t.fd)
	if t.cur != nil {
		where = t.p.pos(t.cur)
	}
	panic(transErr{fmt.Sprintf(where+": in "+t.p.name+"."+t.key+": "+format, args...)})
}

func (t *tr) emit(line string) { t.lines = append(t.lines, line) }

func (t *tr) takeLines() string {
	if len(t.lines) == 0 {
		return ""
	}
	s := strings.Join(t.lines, "\n") + "\n"
	t.lines = nil
	return s
}

type mark struct {
	nlog   int
	nfresh int
	depth  int
	ncell  int
	nobj   int
}

func (t *tr) mark() mark { return mark{len(t.log), t.nfresh, t.depth, t.ncell, t.nobj} }

func (t *tr) rollback(m mark) {
	for i := len(t.log) - 1; i >= m.nlog; i-- {
		t.log[i].undo()
	}
	t.log = t.log[:m.nlog]
	t.nfresh = m.nfresh
	t.depth = m.depth
}

var reserved = map[string]bool{}

func init() {
	for _, w := range strings.Fields(`S O Z N Q fst snd nth firstn skipn length rev negb andb orb true false tt
 Ok Err Panic Some None bytes point signature ppoint res list nat bool unit repeat app set_nth copy_into
 copy_at be_val min_be_bytes hex_encode let in if then else match with end fun forall as return at mod
 blake512 poseidon5 mimc7h hades absorb SrcBytes SrcString SrcInt SrcNil SrcOther scan_src bind is_ok exists Type Prop Set
 Definition Lemma Section Variable Module End Import fix cofix struct where using IF`) {
		reserved[w] = true
	}
}

func sanitize(h string) string {
	h = strings.NewReplacer(".", "_", "[", "_", "]", "", "(", "", ")", "", "*", "", "&", "", " ", "").Replace(h)
	if h == "" || h == "_" {
		h = "tmp"
	}
	if reserved[h] {
		h += "_"
	}
	return h
}

// inUse: some live value other than `except` still refers to Coq name n, so a
// new let must not shadow it.  Live = reachable from the variables in scope
// and from the parameters.
func (t *tr) inUse(n string, except interface{}) bool {
	seenO := map[*object]bool{}
	var visit func(v *val) bool
	visit = func(v *val) bool {
		if v == nil {
			return false
		}
		if v.e != "" && mentions(v.e, n) {
			return true
		}
		if v.c != nil && interface{}(v.c) != except && mentions(v.c.cur, n) {
			return true
		}
		if v.sq != nil && mentions(v.sq.expr, n) {
			return true
		}
		if v.el != nil && (mentions(v.el.idx, n) || (interface{}(v.el.c) != except && mentions(v.el.c.cur, n))) {
			return true // (a slot reference l[k] uses the names of l and of k)
		}
		if o := v.o; o != nil && !seenO[o] {
			seenO[o] = true
			if interface{}(o) != except && o.whole != "" && mentions(o.whole, n) {
				return true
			}
			for _, fv := range o.f {
				if visit(fv) {
					return true
				}
			}
		}
		return false
	}
	for _, b := range t.env {
		if visit(b.v) {
			return true
		}
	}
	for _, p := range t.params {
		if visit(p.v) {
			return true
		}
	}
	for _, v := range t.temps {
		if visit(v) {
			return true
		}
	}
	return false
}

func (t *tr) fresh(hint string, except interface{}) string {
	base := sanitize(hint)
	name := base
	for i := 1; t.inUse(name, except); i++ {
		name = base + strconv.Itoa(i)
	}
	return name
}

// freshFor is fresh for names that are not tied to a cell (let of a pure value).
func (t *tr) freshFor(hint string, exceptVar string) string {
	base := sanitize(hint)
	name := base
	for i := 1; ; i++ {
		saved, had := t.env[exceptVar]
		if had {
			delete(t.env, exceptVar)
		}
		u := t.inUse(name, nil)
		if had {
			t.env[exceptVar] = saved
		}
		if !u {
			return name
		}
		name = base + strconv.Itoa(i)
	}
}

func (t *tr) lookup(name string) *val {
	if b, ok := t.env[name]; ok {
		return b.v
	}
	return nil
}

func (t *tr) setVar(name string, v *val, declare bool) {
	old, had := t.env[name]
	t.log = append(t.log, logEnt{undo: func() {
		if had {
			t.env[name] = old
		} else {
			delete(t.env, name)
		}
	}, v: name})
	d := t.depth
	if had && !declare {
		d = old.depth
	}
	t.env[name] = &binding{v: v, depth: d}
}

// valueOf is the Coq expression of the VALUE of v (pointee for pointers).
func (t *tr) valueOf(v *val) string {
	if v.isNil {
		t.fail("nil used as a value")
	}
	switch v.t.k {
	case kZ, kFe:
		if v.el != nil {
			return t.readElem(v.el)
		}
		if v.c == nil {
			t.fail("internal: integer without cell")
		}
		return t.read(v.c)
	case kInt:
		return t.asZ(v)
	case kZList, kList:
		return t.listExpr(v)
	case kKeccak:
		return t.read(v.c)
	case kBool, kIface, kByte:
		return v.e
	case kArr, kArrPtr, kSlice:
		return t.bytesOf(v)
	case kStruct:
		return t.wholeOf(v.o)
	}
	t.fail("value of type %s is not representable", v.t)
	return ""
}

// bytesOf is the byte list denoted by an array, array pointer or slice.
func (t *tr) bytesOf(v *val) string {
	if v.c == nil {
		return v.e
	}
	base := t.read(v.c)
	if v.t.k != kSlice {
		return base
	}
	lo, hi := v.lo, v.hi
	full := hi < 0 || (v.c.slen > 0 && hi == v.c.slen)
	switch {
	case lo == 0 && full:
		return base
	case lo == 0:
		return "firstn " + strconv.Itoa(hi) + " " + par(base)
	case full:
		return "skipn " + strconv.Itoa(lo) + " " + par(base)
	}
	return "firstn " + strconv.Itoa(hi-lo) + " (skipn " + strconv.Itoa(lo) + " " + par(base) + ")"
}

package main

import (
	"fmt"
	"go/ast"
	"go/build"
	"go/parser"
	"go/token"
	"os"
	"path/filepath"
	"sort"
	"strings"
)

// pkg is one parsed Go package of the repository.
type pkg struct {
	name         string
	fset         *token.FileSet
	files        []*ast.File
	funcs        map[string]*ast.FuncDecl // "name" or "Recv.name"
	named        map[string]*typ          // package-level named types
	errVars      map[string]bool          // package-level `var X = errors.New(..)`
	assigned     map[string]bool          // package-level variables that some function other than init may change (globals.go)
	assignedInit map[string]bool          // .. that init() may change
	assignedPkg  map[string]bool          // imported packages (base name) whose objects some function may change
	imp          map[string]string
	module       string // module path (go.mod)
}

func (p *pkg) pos(n ast.Node) string { return p.fset.Position(n.Pos()).String() }

func (p *pkg) failAt(n ast.Node, format string, args ...interface{}) {
	// inside a translation this is caught per function (gen.go: summaryOf); at
	// load time main turns it into a fatal error
	panic(transErr{fmt.Sprintf(p.pos(n)+": "+format, args...)})
}

func funcKey(fd *ast.FuncDecl) string {
	if fd.Recv == nil || len(fd.Recv.List) == 0 {
		return fd.Name.Name
	}
	t := fd.Recv.List[0].Type
	if st, ok := t.(*ast.StarExpr); ok {
		t = st.X
	}
	if id, ok := t.(*ast.Ident); ok {
		return id.Name + "." + fd.Name.Name
	}
	return "?." + fd.Name.Name
}

func loadPkg(repo, name string) *pkg {
	p := &pkg{name: name, fset: token.NewFileSet(), funcs: map[string]*ast.FuncDecl{},
		named: map[string]*typ{}, errVars: map[string]bool{}, assigned: map[string]bool{},
		assignedInit: map[string]bool{}, assignedPkg: map[string]bool{}}
	dir := filepath.Join(repo, name)
	if gm, err := os.ReadFile(filepath.Join(repo, "go.mod")); err == nil {
		for _, l := range strings.Split(string(gm), "\n") {
			if f := strings.Fields(l); len(f) == 2 && f[0] == "module" {
				p.module = f[1]
			}
		}
	}
	if p.module == "" {
		fatalf("no module path in %s/go.mod", repo)
	}
	ents, err := os.ReadDir(dir)
	if err != nil {
		fatalf("%v", err)
	}
	// the files the Go compiler takes for linux/amd64 without custom tags: a file excluded by a
	// build constraint must not supply (or hide) declarations
	ctx := build.Default
	ctx.GOOS, ctx.GOARCH, ctx.BuildTags, ctx.CgoEnabled = "linux", "amd64", nil, true
	var names []string
	for _, e := range ents {
		n := e.Name()
		if strings.HasSuffix(n, ".go") && !strings.HasSuffix(n, "_test.go") {
			if ok, err := ctx.MatchFile(dir, n); err != nil {
				fatalf("%v", err)
			} else if ok {
				names = append(names, n)
			}
		}
	}
	sort.Strings(names)
	for _, n := range names {
		f, err := parser.ParseFile(p.fset, filepath.Join(dir, n), nil, parser.SkipObjectResolution)
		if err != nil {
			fatalf("%v", err)
		}
		p.files = append(p.files, f)
	}
	// named types: two rounds so that `type PublicKey Point` may precede Point
	for round := 0; round < 2; round++ {
		for _, f := range p.files {
			for _, d := range f.Decls {
				gd, ok := d.(*ast.GenDecl)
				if !ok || gd.Tok != token.TYPE {
					continue
				}
				for _, s := range gd.Specs {
					ts := s.(*ast.TypeSpec)
					if _, done := p.named[ts.Name.Name]; done {
						continue
					}
					if t := p.namedType(ts); t != nil {
						u := *t
						u.name, u.pkg = ts.Name.Name, p.name
						p.named[ts.Name.Name] = &u
					}
				}
			}
		}
	}
	p.checkPredeclared()
	p.imports() // (checks the import paths)
	for _, f := range p.files {
		for _, d := range f.Decls {
			switch d := d.(type) {
			case *ast.FuncDecl:
				k := funcKey(d)
				if _, dup := p.funcs[k]; dup && k != "init" {
					fatalf("%s: duplicate function %s", p.pos(d), k)
				}
				p.funcs[k] = d
				if d.Body != nil {
					p.scanGlobalAssign(d)
				}
			case *ast.GenDecl:
				if d.Tok != token.VAR {
					continue
				}
				for _, s := range d.Specs {
					vs := s.(*ast.ValueSpec)
					for i, n := range vs.Names {
						if i < len(vs.Values) {
							if c, ok := vs.Values[i].(*ast.CallExpr); ok && isSel(c.Fun, "errors", "New") {
								p.errVars[n.Name] = true
							}
						}
					}
				}
			}
		}
	}
	return p
}

// predeclared: the universe scope of Go.  The translator gives these names
// their predeclared meaning wherever no local variable hides them.
var predeclared = map[string]bool{}

func init() {
	for _, w := range strings.Fields(`any bool byte comparable complex64 complex128 error float32 float64 int int8 int16
 int32 int64 rune string uint uint8 uint16 uint32 uint64 uintptr true false iota nil append cap clear close complex copy
 delete imag len make max min new panic print println real recover`) {
		predeclared[w] = true
	}
}

// checkPredeclared: a package-level declaration (or import name) that hides a
// predeclared identifier (func copy, const false, ..) would silently change
// the meaning of every use: fatal.
func (p *pkg) checkPredeclared() {
	bad := func(n *ast.Ident) {
		if n != nil && predeclared[n.Name] {
			fatalf("%s: package-level declaration of %s hides the predeclared identifier", p.pos(n), n.Name)
		}
	}
	for _, f := range p.files {
		for _, is := range f.Imports {
			bad(is.Name)
		}
		for _, d := range f.Decls {
			switch d := d.(type) {
			case *ast.FuncDecl:
				if d.Recv == nil {
					bad(d.Name)
				}
			case *ast.GenDecl:
				for _, s := range d.Specs {
					switch s := s.(type) {
					case *ast.ValueSpec:
						for _, n := range s.Names {
							bad(n)
						}
					case *ast.TypeSpec:
						bad(s.Name)
					}
				}
			}
		}
	}
}

// namedType recognises the declared types the translator knows; a struct is
// identified by its exact field list, so that a change of Point / Signature /
// PointProjective is an error and not a silent mistranslation.
func (p *pkg) namedType(ts *ast.TypeSpec) *typ {
	switch t := ts.Type.(type) {
	case *ast.StructType:
		var fs []string
		for _, f := range t.Fields.List {
			for _, n := range f.Names {
				fs = append(fs, n.Name+":"+exprText(f.Type))
			}
		}
		sig := strings.Join(fs, ",")
		switch ts.Name.Name {
		case "Point":
			if sig != "X:*big.Int,Y:*big.Int" {
				fatalf("%s: struct Point changed: %s", p.pos(ts), sig)
			}
			return tStruct(sdPoint, false)
		case "PointProjective":
			if sig != "X:*ff.Element,Y:*ff.Element,Z:*ff.Element" {
				fatalf("%s: struct PointProjective changed: %s", p.pos(ts), sig)
			}
			return tStruct(sdProj, false)
		case "Signature":
			if sig != "R8:*Point,S:*big.Int" {
				fatalf("%s: struct Signature changed: %s", p.pos(ts), sig)
			}
			return tStruct(sdSig, false)
		}
		if ts.Name.Name == "constantsData" && p.name == "mimc7" {
			if sig != "seedHash:*big.Int,iv:*big.Int,nRounds:int,cts:[]*ff.Element" {
				fatalf("%s: struct constantsData changed: %s", p.pos(ts), sig)
			}
			return tStruct(sdMimcConsts, false)
		}
		return nil // other structs: unknown type, an error only if used
	case *ast.ArrayType:
		if id, ok := t.Elt.(*ast.Ident); ok && id.Name == "byte" {
			return p.resolveType(t)
		}
		return nil
	case *ast.Ident:
		if u, ok := p.named[t.Name]; ok {
			return u
		}
		return nil
	case *ast.SelectorExpr:
		if isSel(t, "big", "Int") {
			return tBigVal
		}
	}
	return nil
}

package main

import (
	"fmt"
	"go/ast"
	"go/parser"
	"go/token"
	"os"
	"path/filepath"
	"sort"
	"strings"
)

// pkg is one parsed Go package of the repository.
type pkg struct {
	name     string
	fset     *token.FileSet
	files    []*ast.File
	funcs    map[string]*ast.FuncDecl // "name" or "Recv.name"
	named    map[string]*typ          // package-level named types
	errVars  map[string]bool          // package-level `var X = errors.New(..)`
	assigned map[string]bool          // package-level variables assigned inside some function other than init
	imp      map[string]string
}

func (p *pkg) pos(n ast.Node) string { return p.fset.Position(n.Pos()).String() }

func (p *pkg) failAt(n ast.Node, format string, args ...interface{}) {
	// inside a translation this is caught per function (gen.go: summaryOf); at
	// load time main turns it into a fatal error
	panic(transErr{fmt.Sprintf(p.pos(n)+": "+format, args...)})
}

func funcKey(fd *ast.FuncDecl) string {
	if fd.Recv == nil || len(fd.Recv.List) == 0 {
		return fd.Name.Name
	}
	t := fd.Recv.List[0].Type
	if st, ok := t.(*ast.StarExpr); ok {
		t = st.X
	}
	if id, ok := t.(*ast.Ident); ok {
		return id.Name + "." + fd.Name.Name
	}
	return "?." + fd.Name.Name
}

func loadPkg(repo, name string) *pkg {
	p := &pkg{name: name, fset: token.NewFileSet(), funcs: map[string]*ast.FuncDecl{},
		named: map[string]*typ{}, errVars: map[string]bool{}, assigned: map[string]bool{}}
	dir := filepath.Join(repo, name)
	ents, err := os.ReadDir(dir)
	if err != nil {
		fatalf("%v", err)
	}
	var names []string
	for _, e := range ents {
		n := e.Name()
		if strings.HasSuffix(n, ".go") && !strings.HasSuffix(n, "_test.go") {
			names = append(names, n)
		}
	}
	sort.Strings(names)
	for _, n := range names {
		f, err := parser.ParseFile(p.fset, filepath.Join(dir, n), nil, parser.SkipObjectResolution)
		if err != nil {
			fatalf("%v", err)
		}
		p.files = append(p.files, f)
	}
	// named types: two rounds so that `type PublicKey Point` may precede Point
	for round := 0; round < 2; round++ {
		for _, f := range p.files {
			for _, d := range f.Decls {
				gd, ok := d.(*ast.GenDecl)
				if !ok || gd.Tok != token.TYPE {
					continue
				}
				for _, s := range gd.Specs {
					ts := s.(*ast.TypeSpec)
					if _, done := p.named[ts.Name.Name]; done {
						continue
					}
					if t := p.namedType(ts); t != nil {
						u := *t
						u.name, u.pkg = ts.Name.Name, p.name
						p.named[ts.Name.Name] = &u
					}
				}
			}
		}
	}
	for _, f := range p.files {
		for _, d := range f.Decls {
			switch d := d.(type) {
			case *ast.FuncDecl:
				k := funcKey(d)
				if _, dup := p.funcs[k]; dup && k != "init" {
					fatalf("%s: duplicate function %s", p.pos(d), k)
				}
				p.funcs[k] = d
				if k != "init" && d.Body != nil {
					p.scanGlobalAssign(d)
				}
			case *ast.GenDecl:
				if d.Tok != token.VAR {
					continue
				}
				for _, s := range d.Specs {
					vs := s.(*ast.ValueSpec)
					for i, n := range vs.Names {
						if i < len(vs.Values) {
							if c, ok := vs.Values[i].(*ast.CallExpr); ok && isSel(c.Fun, "errors", "New") {
								p.errVars[n.Name] = true
							}
						}
					}
				}
			}
		}
	}
	return p
}

// namedType recognises the declared types the translator knows; a struct is
// identified by its exact field list, so that a change of Point / Signature /
// PointProjective is an error and not a silent mistranslation.
func (p *pkg) namedType(ts *ast.TypeSpec) *typ {
	switch t := ts.Type.(type) {
	case *ast.StructType:
		var fs []string
		for _, f := range t.Fields.List {
			for _, n := range f.Names {
				fs = append(fs, n.Name+":"+exprText(f.Type))
			}
		}
		sig := strings.Join(fs, ",")
		switch ts.Name.Name {
		case "Point":
			if sig != "X:*big.Int,Y:*big.Int" {
				fatalf("%s: struct Point changed: %s", p.pos(ts), sig)
			}
			return tStruct(sdPoint, false)
		case "PointProjective":
			if sig != "X:*ff.Element,Y:*ff.Element,Z:*ff.Element" {
				fatalf("%s: struct PointProjective changed: %s", p.pos(ts), sig)
			}
			return tStruct(sdProj, false)
		case "Signature":
			if sig != "R8:*Point,S:*big.Int" {
				fatalf("%s: struct Signature changed: %s", p.pos(ts), sig)
			}
			return tStruct(sdSig, false)
		}
		if ts.Name.Name == "constantsData" && p.name == "mimc7" {
			if sig != "seedHash:*big.Int,iv:*big.Int,nRounds:int,cts:[]*ff.Element" {
				fatalf("%s: struct constantsData changed: %s", p.pos(ts), sig)
			}
			return tStruct(sdMimcConsts, false)
		}
		return nil // other structs: unknown type, an error only if used
	case *ast.ArrayType:
		if id, ok := t.Elt.(*ast.Ident); ok && id.Name == "byte" {
			return p.resolveType(t)
		}
		return nil
	case *ast.Ident:
		if u, ok := p.named[t.Name]; ok {
			return u
		}
		return nil
	case *ast.SelectorExpr:
		if isSel(t, "big", "Int") {
			return tBigVal
		}
	}
	return nil
}

// scanGlobalAssign records package-level identifiers that are assigned in a
// function body (x = .., x.f = ..): a global used as a constant by the
// translator must not be among them.
func (p *pkg) scanGlobalAssign(fd *ast.FuncDecl) {
	locals := map[string]bool{}
	addFields := func(fl *ast.FieldList) {
		if fl == nil {
			return
		}
		for _, f := range fl.List {
			for _, n := range f.Names {
				locals[n.Name] = true
			}
		}
	}
	addFields(fd.Recv)
	addFields(fd.Type.Params)
	addFields(fd.Type.Results)
	ast.Inspect(fd.Body, func(n ast.Node) bool {
		switch s := n.(type) {
		case *ast.AssignStmt:
			for _, l := range s.Lhs {
				root := l
				for {
					if se, ok := root.(*ast.SelectorExpr); ok {
						root = se.X
						continue
					}
					if ie, ok := root.(*ast.IndexExpr); ok {
						root = ie.X
						continue
					}
					break
				}
				if id, ok := root.(*ast.Ident); ok {
					if s.Tok == token.DEFINE {
						locals[id.Name] = true
					} else if !locals[id.Name] {
						p.assigned[id.Name] = true
					}
				}
			}
		case *ast.ValueSpec:
			for _, n := range s.Names {
				locals[n.Name] = true
			}
		}
		return true
	})
}

#!/bin/bash
# Independent re-check (coqchk -o) of every Properties/Cxx.vo; results cached in _build/coqchk/ keyed by the .vo hash
# (the thorough tier of check.py reads the same cache).  usage: coqchk_all.sh [jobs]
cd /verif/coq
mkdir -p /verif/_build/coqchk
J=${1:-4}
ls Properties/C*.vo | sed 's/.*\/\(C[0-9]*\)\.vo/\1/' | xargs -P $J -I{} bash -c '
  p={}; h=$(sha256sum Properties/$p.vo | cut -c1-16); f=/verif/_build/coqchk/${p}_$h.log
  if [ ! -f $f ]; then s=$(date +%s); timeout 7200 coqchk -silent -o -Q . Verif Verif.Properties.$p > $f.tmp 2>&1; rc=$?; echo "rc=$rc wall=$(( $(date +%s) - s ))s" >> $f.tmp; mv $f.tmp $f; fi
  echo "$p $(tail -1 $f)"'

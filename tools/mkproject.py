#!/usr/bin/env python3
"""Write coq/_CoqProject from the whitelist coq/FILES (finished files) plus the
generated Gen/*.v files (fixed names, produced by constgen/effgen at every run)."""
import os
C = os.path.normpath(os.path.join(os.path.dirname(os.path.abspath(__file__)), '..', 'coq'))
files = [l.strip() for l in open(C + '/FILES') if l.strip() and not l.startswith('#')]
gen = ['Gen/CurveConsts.v', 'Gen/FfConsts.v', 'Gen/FfgConsts.v', 'Gen/GoldTables.v', 'Gen/PoseidonMeta.v'] + \
      ['Gen/PoseidonT%d.v' % t for t in range(2, 18)]
if any(f.startswith('Proofs/FfRoutinesEq') for f in files):
    gen += ['Gen/FfRoutines.v', 'Gen/FfgRoutines.v']
if any(f.startswith('Proofs/FfMemEq') for f in files):
    gen += ['Gen/FfMem.v', 'Gen/FfgMem.v']
if any(f.startswith('Proofs/FfGlueEq') for f in files):
    gen += ['Gen/FfGlue.v', 'Gen/FfgGlue.v']
if any(f.startswith('Proofs/AsmProofs') for f in files):
    gen.append('Gen/FfAsm.v')
if any(f.startswith('Proofs/BigIntEq') for f in files):
    gen.append('Gen/BigIntRoutines.v')
if any(f.startswith('Proofs/BigIntEqLoops') for f in files):
    gen.append('Gen/BigIntLoops.v')
if any(f.startswith('Proofs/EffectsDocumented') for f in files):
    gen.append('Gen/EffectsIR.v')
open(C + '/_CoqProject', 'w').write('-Q . Verif\n' + '\n'.join(gen + files) + '\n')
print(len(gen) + len(files), 'files')

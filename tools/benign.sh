#!/bin/bash
# benign.sh [Bnn ...] : apply each behaviour-preserving refactoring of /verif/seeded/benign to /repo,
# run the checks of the properties its files are anchored in, revert.  A check that reports a
# VIOLATION here raises a false alarm (see DESIGN.md 9.4); evidence written meanwhile is discarded.
cd /verif
declare -A PROPS=(
 [B01]="C04 C03 C16" [B02]="C04 C08 C16" [B03]="C01 C07 C16" [B04]="C05 C06 C11 C16"
 [B05]="C06 C07 C11 C16" [B06]="C08 C16" [B07]="C15 C11 C16" [B08]="C02 C03 C14 C16"
 [B09]="C05 C16" [B10]="C09 C16" [B11]="C10 C16" [B12]="C20 C12 C16" [B13]="C02 C11 C16" [B14]="C01 C05 C13 C15 C16 C19"
 [B15]="C04 C19 C16" [B16]="C13 C16" [B17]="C06 C16" [B18]="C03 C14 C16" [B19]="C15 C19 C16" [B20]="C01 C07 C16"
 [B21]="C01 C16" [B22]="C08 C07 C16" [B23]="C10 C16" [B24]="C15 C11 C07 C16" [B25]="C11 C18 C05 C16" [B26]="C09 C16"
 [B27]="C05 C16" [B28]="C04 C06 C16" [B29]="C20 C15 C16" [B30]="C05 C09 C12 C16"
)
names="$@"; [ -z "$names" ] && names=$(ls seeded/benign/*.diff | xargs -n1 basename | sed 's/.diff//')
mkdir -p _build/evidence_keep
for b in $names; do
  git -C /repo apply /verif/seeded/benign/$b.diff || { echo "$b: patch does not apply"; continue; }
  for p in ${PROPS[$b]}; do
    cp -f evidence/$p.json _build/evidence_keep/$p.json 2>/dev/null
    out=$(timeout 3000 python3 check.py $p --tier quick 2>&1 | grep -v "^WARNING")
    rc=$?
    v=$(echo "$out" | grep -c "^VIOLATION")
    echo "$b $p violations=$v :: $(echo "$out" | grep "^VIOLATION" | head -1 | cut -c1-220)"
    cp -f _build/evidence_keep/$p.json evidence/$p.json 2>/dev/null
  done
  git -C /repo checkout -- .
done
git -C /repo status --short

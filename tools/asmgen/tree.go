package main

// Checks on the file set of <repo>/ff: asmgen translates three fixed files, so
// everything that decides WHICH code the Go tool chain assembles and links
// (file set, build constraints, include shadowing, go:linkname, the definition
// of supportAdx) must be exactly what the proofs assume.  Fail closed.

import (
	"os"
	"path/filepath"
	"regexp"
	"sort"
	"strings"
)

// expected build-constraint lines per file that asmgen relies on
var wantConstraints = map[string][]string{
	"element_ops_amd64.s":     {},
	"element_mul_amd64.s":     {"// +build !amd64_adx"},
	"element_mul_adx_amd64.s": {"// +build amd64_adx"},
	"element_ops_amd64.go":    {},
	"asm.go":                  {"// +build !noadx", "//go:build !noadx"},
	"asm_noadx.go":            {"// +build noadx", "//go:build noadx"},
}

// the only accepted definitions of the run-time ADX switch
var wantSupportAdx = map[string]string{
	"asm.go":       "var supportAdx = cpu.X86.HasADX && cpu.X86.HasBMI2",
	"asm_noadx.go": "var supportAdx = false",
}

var constraintRe = regexp.MustCompile(`^\s*//\s*(\+build\b|go:build\b)`)
var linknameRe = regexp.MustCompile(`^\s*//go:linkname\b`)
var supportAdxDeclRe = regexp.MustCompile(`^\s*(var\s+)?supportAdx\b[^=]*(=|:=)[^=]`)

func constraintLines(src string) []string {
	var res []string
	for _, l := range strings.Split(src, "\n") {
		if constraintRe.MatchString(l) {
			res = append(res, strings.TrimSpace(l))
		}
	}
	sort.Strings(res)
	return res
}

func checkTree(repo string) {
	dir := filepath.Join(repo, "ff")
	ents, err := os.ReadDir(dir)
	if err != nil {
		fatalf("%v", err)
	}
	asmSeen := map[string]bool{}
	for _, e := range ents {
		n := e.Name()
		ext := strings.ToLower(filepath.Ext(n))
		switch ext {
		case ".s":
			if _, ok := wantConstraints[n]; !ok || filepath.Ext(n) != ".s" {
				fatalf("ff/%s: assembly file that asmgen does not translate (only %s, %s, %s are)", n,
					sources[0].file, sources[1].file, sources[2].file)
			}
			asmSeen[n] = true
		case ".h":
			fatalf("ff/%s: a header in the package directory can shadow textflag.h/funcdata.h or define macros; not supported", n)
		case ".syso", ".c", ".cc", ".cpp", ".cxx", ".m", ".sx", ".f", ".f90", ".swig", ".swigcxx":
			fatalf("ff/%s: non-Go object/source file in the package directory; not supported", n)
		case ".go":
			if strings.HasSuffix(n, "_test.go") {
				continue
			}
			src := mustRead(filepath.Join(dir, n))
			for i, l := range strings.Split(src, "\n") {
				if linknameRe.MatchString(l) {
					fatalf("ff/%s:%d: //go:linkname can bind a Go declaration to another symbol; not supported: %q", n, i+1, strings.TrimSpace(l))
				}
				if supportAdxDeclRe.MatchString(l) && !strings.HasPrefix(n, "verif_") {
					if want, ok := wantSupportAdx[n]; !ok || strings.TrimSpace(l) != want {
						fatalf("ff/%s:%d: unexpected definition of supportAdx: %q", n, i+1, strings.TrimSpace(l))
					}
				}
			}
		}
	}
	for n, want := range wantConstraints {
		src := mustRead(filepath.Join(dir, n))
		got := constraintLines(src)
		w := append([]string{}, want...)
		sort.Strings(w)
		if strings.Join(got, "\n") != strings.Join(w, "\n") {
			fatalf("ff/%s: build constraints %q differ from the expected %q: asmgen cannot tell which file the build uses", n, got, w)
		}
	}
	for n, want := range wantSupportAdx {
		if !strings.Contains(mustRead(filepath.Join(dir, n)), "\n"+want+"\n") {
			fatalf("ff/%s: expected the declaration %q", n, want)
		}
	}
}

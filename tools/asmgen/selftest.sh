#!/bin/bash
# Self-test of the assembly pipeline (translator + Coq proofs) on seeded changes.
# Works on scratch copies only: /repo and /verif are never modified.
#   tools/asmgen/selftest.sh            all seeded changes
#   tools/asmgen/selftest.sh baseline   only the unmodified sources
set -u
REPO=${REPO:-/repo}
VERIF=${VERIF:-/verif}
ASMGEN=$VERIF/_build/bin/asmgen
S=$(mktemp -d /tmp/asm_selftest.XXXXXX)
trap 'rm -rf "$S"' EXIT

mkdir -p "$S/repo" "$S/verif/coq/Gen" "$S/verif/coq/Lib" "$S/verif/coq/Model" "$S/verif/coq/Proofs"
cp -r "$REPO/ff" "$S/repo/ff"
# compiled dependencies (not rebuilt) and the sources under test
for f in Gen/FfConsts Lib/FermatBridge Lib/NumberTheory Lib/Params Lib/Powmod Lib/Words \
         Model/FfLimbs Proofs/FfArith Proofs/FfEl Proofs/FfOps Proofs/FfWords; do
  cp "$VERIF/coq/$f.vo" "$S/verif/coq/$f.vo" || { echo "missing $f.vo"; exit 2; }
done
CHAIN="Model/AsmSem Gen/FfAsm Proofs/AsmLemmas Proofs/AsmOps Proofs/AsmMont Proofs/AsmMul Proofs/AsmProofs Proofs/AsmVectors"
for f in Model/AsmSem Proofs/AsmLemmas Proofs/AsmOps Proofs/AsmMont Proofs/AsmMul Proofs/AsmProofs Proofs/AsmVectors; do
  cp "$VERIF/coq/$f.v" "$S/verif/coq/$f.v"
done

# run the pipeline on the scratch repo; prints one verdict line
pipeline() {
  local name=$1
  rm -f "$S/verif/coq/Gen/FfAsm.v"
  if ! out=$("$ASMGEN" "$S/repo" "$S/verif" 2>&1); then
    echo "$name: DETECTED by the translator: $out"
    return 0
  fi
  for f in $CHAIN; do
    if ! err=$(cd "$S/verif/coq" && timeout 1500 coqc -Q . Verif "$f.v" 2>&1 >/dev/null); then
      echo "$name: DETECTED: $f.v no longer compiles: $(echo "$err" | grep -v '^WARNING' | head -4 | tr '\n' ' ' | cut -c1-300)"
      return 0
    fi
  done
  echo "$name: NOT DETECTED (everything compiles)"
  return 1
}

# seeded change: file, sed expression
mutate() {
  local name=$1 file=$2 expr=$3
  cp "$REPO/ff/$file" "$S/repo/ff/$file"
  sed -i "$expr" "$S/repo/ff/$file"
  if cmp -s "$REPO/ff/$file" "$S/repo/ff/$file"; then
    echo "$name: seeded change did not apply"; return 2
  fi
  pipeline "$name"
  local rc=$?
  cp "$REPO/ff/$file" "$S/repo/ff/$file"
  return $rc
}

# the same seeded change in the dispatching build and in the amd64_adx build, so
# that it is the correctness theorems (not the comparison of the two builds)
# that must notice it
mutate2() {
  local name=$1 e1=$2 e2=$3
  cp "$REPO/ff/$MUL" "$S/repo/ff/$MUL"; cp "$REPO/ff/$ADX" "$S/repo/ff/$ADX"
  sed -i "$e1" "$S/repo/ff/$MUL"; sed -i "$e2" "$S/repo/ff/$ADX"
  if cmp -s "$REPO/ff/$MUL" "$S/repo/ff/$MUL" || cmp -s "$REPO/ff/$ADX" "$S/repo/ff/$ADX"; then
    echo "$name: seeded change did not apply"; return 2
  fi
  pipeline "$name"
  local rc=$?
  cp "$REPO/ff/$MUL" "$S/repo/ff/$MUL"; cp "$REPO/ff/$ADX" "$S/repo/ff/$ADX"
  return $rc
}

OPS=element_ops_amd64.s; MUL=element_mul_amd64.s; ADX=element_mul_adx_amd64.s
fail=0
if pipeline baseline | grep -q "NOT DETECTED"; then
  echo "baseline: ok (translator + all proofs on the unmodified sources)"
else
  echo "baseline: FAILED"; pipeline baseline; exit 1
fi
[ "${1:-}" = baseline ] && exit 0

if [ "${1:-}" != both ]; then
mutate "sub: CMOVQCC DI,R8 -> CMOVQCS"            $OPS '83s/CMOVQCC/CMOVQCS/'   || fail=1
mutate "add: ADCQ 8(DX),BX -> ADDQ"               $OPS '52s/ADCQ/ADDQ/'         || fail=1
mutate "Butterfly: CMOVQCC AX,R12 -> CMOVQHI"     $OPS '319s/CMOVQCC/CMOVQHI/'  || fail=1
mutate "REDUCE macro: CMOVQCS rb3,ra3 -> CMOVQCC" $OPS '41s/CMOVQCS/CMOVQCC/'   || fail=1
mutate "add: store 8(R12) -> 16(R12)"             $OPS '61s/8(R12)/16(R12)/'    || fail=1
mutate "neg: JEQ -> JNE"                          $OPS '133s/JEQ/JNE/'          || fail=1
mutate "double: result stored through x"          $OPS '113s/res+0(FP)/x+8(FP)/' || fail=1
mutate "ops: DATA q<>+8 low bit"                  $OPS '20s/7091/7090/'         || fail=1
mutate "sub: immediate q0 changed"                $OPS '79s/f0000001/f0000003/' || fail=1
mutate "MulBy13: one REDUCE dropped"              $OPS '270d'                   || fail=1
mutate "mul: ADOXQ BP,BX -> ADOXQ AX,BX (round 1)" $MUL '134s/ADOXQ BP, BX/ADOXQ AX, BX/' || fail=1
mutate "mul: MULXQ R8 -> MULXQ R9 (round 2)"      $MUL '146s/MULXQ R8/MULXQ R9/' || fail=1
mutate "fromMont: q<>+8 -> q<>+16 (round 3)"      $MUL '429s/q<>+8(SB)/q<>+16(SB)/' || fail=1
mutate "mul dispatch: JNE -> JEQ"                 $MUL '63s/JNE/JEQ/'           || fail=1
mutate "adx build: ADCXQ -> ADOXQ in mul"         $ADX '110s/ADCXQ/ADOXQ/'      || fail=1
mutate "adx build: unsupported opcode SHLQ"       $ADX '346s/XORQ  AX, AX/SHLQ  $1, AX/' || fail=1
fi
mutate2 "both builds, mul: ADOXQ BP,BX -> ADOXQ AX,BX (round 1)" '134s/ADOXQ BP, BX/ADOXQ AX, BX/' '131s/ADOXQ BP, BX/ADOXQ AX, BX/' || fail=1
mutate2 "both builds, mul: MULXQ R8 -> MULXQ R9 (round 2)" '146s/MULXQ R8/MULXQ R9/' '143s/MULXQ R8/MULXQ R9/' || fail=1
mutate2 "both builds, fromMont: q<>+8 -> q<>+16 (round 3)" '429s/q<>+8(SB)/q<>+16(SB)/' '413s/q<>+8(SB)/q<>+16(SB)/' || fail=1
mutate2 "both builds, mul: ADCXQ BP,R15 -> ADOXQ (round 2)" '145s/ADCXQ/ADOXQ/' '142s/ADCXQ/ADOXQ/' || fail=1
# ---- changes of the file set / preprocessing that the TRANSLATOR must reject (no Coq run):
# they leave the three translated files' instruction lists unchanged (or asmgen's reading of
# them) while the Go tool chain assembles or links something else
treject() {
  local name=$1; shift
  rm -rf "$S/repo/ff"; cp -r "$REPO/ff" "$S/repo/ff"
  ( cd "$S/repo/ff" && eval "$@" ) || { echo "$name: seeded change did not apply"; return 2; }
  rm -f "$S/verif/coq/Gen/FfAsm.v"
  if out=$("$ASMGEN" "$S/repo" "$S/verif" 2>&1); then
    echo "$name: NOT DETECTED (translator exit 0)"; rm -rf "$S/repo/ff"; cp -r "$REPO/ff" "$S/repo/ff"; return 1
  fi
  echo "$name: DETECTED by the translator: $(echo "$out" | head -1 | cut -c1-200)"
  rm -rf "$S/repo/ff"; cp -r "$REPO/ff" "$S/repo/ff"; return 0
}
treject "ops file tagged out, modified copy in a new .s file" "sed '83s/CMOVQCC/CMOVQCS/' $OPS > element_ops2_amd64.s && sed -i '1i // +build ignore\n' $OPS" || fail=1
treject "ops file tagged out only" "sed -i '1i //go:build ignore\n' $OPS" || fail=1
treject "token-level macro renames an opcode" "sed -i '28i #define CMOVQCC CMOVQCS' $OPS" || fail=1
treject "token-level macro renames a register" "sed -i '28i #define R12 R13' $OPS" || fail=1
treject "local textflag.h shadows the standard header" "printf '#define NOSPLIT 4\n#define ADCQ ADDQ\n' > textflag.h" || fail=1
treject "NO_LOCAL_POINTERS defined as code" "sed -i 's|^#include \"funcdata.h\"|#define NO_LOCAL_POINTERS MOVQ \$0, AX|' $MUL" || fail=1
treject "frame smaller than the outgoing slots" "sed -i 's|^TEXT ·mul(SB), \$24-24|TEXT ·mul(SB), \$16-24|' $MUL" || fail=1
treject "octal offset 016(SI)" "sed -i '77s/16(SI)/016(SI)/' $OPS" || fail=1
treject "go:linkname rebinding add" "sed -i 's|^func add(res, x, y \*Element)|//go:linkname add github.com/iden3/go-iden3-crypto/v2/ff._subGeneric\nfunc add(res, x, y *Element)|' element_ops_amd64.go" || fail=1
treject "supportAdx forced to true" "sed -i 's|^var supportAdx = .*|var supportAdx = true|' asm.go" || fail=1
treject "mul/adx build tags swapped" "sed -i '1s/.*/\/\/ +build amd64_adx/' $MUL && sed -i '1s/.*/\/\/ +build !amd64_adx/' $ADX" || fail=1
[ $fail = 0 ] && echo "selftest: every seeded change was detected" || echo "selftest: SOME SEEDED CHANGES WERE NOT DETECTED"
exit $fail

package main

// Preprocessing of a Plan 9 assembly file: comments, #include, #define (with
// arguments and '\' continuations), macro expansion, statement splitting.

import (
	"fmt"
	"regexp"
	"strings"
)

type macro struct {
	params []string
	body   string
}

// a statement with its origin (for error messages and comments)
type stmt struct {
	text string
	file string
	line int
}

var knownIncludes = map[string]bool{"textflag.h": true, "funcdata.h": true}

// pseudo-instructions of funcdata.h that emit no machine code
var noCodeMacros = map[string]bool{"NO_LOCAL_POINTERS": true}

var identRe = regexp.MustCompile(`[A-Za-z_][A-Za-z0-9_]*`)
var defineRe = regexp.MustCompile(`^#define\s+([A-Za-z_][A-Za-z0-9_]*)(\(([^)]*)\))?\s*(.*)$`)
var invokeRe = regexp.MustCompile(`^([A-Za-z_][A-Za-z0-9_]*)\s*\((.*)\)$`)

func stripComment(s string) string {
	if i := strings.Index(s, "//"); i >= 0 {
		s = s[:i]
	}
	if strings.Contains(s, "/*") {
		fatalf("block comments are not supported: %q", s)
	}
	return s
}

// preprocess returns the statements of the file with macros expanded.
func preprocess(file, src string) []stmt {
	macros := map[string]macro{}
	var out []stmt
	lines := strings.Split(src, "\n")
	for i := 0; i < len(lines); i++ {
		lineNo := i + 1
		l := strings.TrimSpace(stripComment(lines[i]))
		// join continuation lines
		for strings.HasSuffix(l, "\\") {
			l = strings.TrimSpace(strings.TrimSuffix(l, "\\"))
			i++
			if i >= len(lines) {
				fatalf("%s:%d: continuation at end of file", file, lineNo)
			}
			l += " " + strings.TrimSpace(stripComment(lines[i]))
		}
		if l == "" {
			continue
		}
		if strings.HasPrefix(l, "#include") {
			m := regexp.MustCompile(`^#include\s+"([^"]+)"$`).FindStringSubmatch(l)
			if m == nil || !knownIncludes[m[1]] {
				fatalf("%s:%d: unsupported include %q", file, lineNo, l)
			}
			continue
		}
		if strings.HasPrefix(l, "#define") {
			m := defineRe.FindStringSubmatch(l)
			if m == nil {
				fatalf("%s:%d: cannot parse %q", file, lineNo, l)
			}
			if noCodeMacros[m[1]] {
				fatalf("%s:%d: #define of %s, a funcdata.h pseudo-instruction that asmgen drops", file, lineNo, m[1])
			}
			if _, dup := macros[m[1]]; dup {
				fatalf("%s:%d: redefinition of macro %s", file, lineNo, m[1])
			}
			mc := macro{body: strings.TrimSpace(m[4])}
			if m[2] != "" {
				for _, p := range strings.Split(m[3], ",") {
					mc.params = append(mc.params, strings.TrimSpace(p))
				}
			}
			macros[m[1]] = mc
			continue
		}
		if strings.HasPrefix(l, "#") {
			fatalf("%s:%d: unsupported preprocessor directive %q", file, lineNo, l)
		}
		for _, s := range splitStatements(l) {
			out = append(out, expand(s, macros, file, lineNo, 0)...)
		}
	}
	return out
}

func splitStatements(l string) []string {
	var res []string
	for _, s := range strings.Split(l, ";") {
		s = strings.TrimSpace(s)
		if s != "" {
			res = append(res, s)
		}
	}
	return res
}

// expand expands a macro invocation statement (recursively) or returns the
// statement unchanged.
func expand(s string, macros map[string]macro, file string, line, depth int) []stmt {
	if depth > 8 {
		fatalf("%s:%d: macro expansion too deep", file, line)
	}
	if noCodeMacros[s] {
		return nil
	}
	name, args, isCall := "", []string(nil), false
	if m := invokeRe.FindStringSubmatch(s); m != nil {
		if _, ok := macros[m[1]]; ok {
			name, isCall = m[1], true
			for _, a := range strings.Split(m[2], ",") {
				args = append(args, strings.TrimSpace(a))
			}
		}
	} else if mc, ok := macros[s]; ok && len(mc.params) == 0 {
		name, isCall = s, true
	}
	if !isCall {
		// The Go assembler expands macros token by token; asmgen only expands a
		// macro that is a whole statement.  Any other occurrence of a macro name
		// (register, opcode, symbol or operand position) is rejected.
		for _, id := range identRe.FindAllString(s, -1) {
			if _, ok := macros[id]; ok {
				fatalf("%s:%d: macro %s used inside the statement %q: token-level macro expansion is not supported", file, line, id, s)
			}
		}
		return []stmt{{text: s, file: file, line: line}}
	}
	mc := macros[name]
	if len(args) != len(mc.params) {
		fatalf("%s:%d: macro %s expects %d arguments, got %d", file, line, name, len(mc.params), len(args))
	}
	sub := map[string]string{}
	for i, p := range mc.params {
		sub[p] = args[i]
	}
	body := identRe.ReplaceAllStringFunc(mc.body, func(id string) string {
		if v, ok := sub[id]; ok {
			return v
		}
		return id
	})
	var out []stmt
	for _, t := range splitStatements(body) {
		out = append(out, expand(t, macros, file, line, depth+1)...)
	}
	return out
}

func (s stmt) where() string { return fmt.Sprintf("%s:%d", s.file, s.line) }

module asmgen

go 1.20

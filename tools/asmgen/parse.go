package main

// Parsing of the preprocessed statements: DATA/GLOBL constants, TEXT blocks,
// labels and instructions with their operands.

import (
	"fmt"
	"regexp"
	"strconv"
	"strings"
)

type operand struct {
	coq     string // Coq term
	comment string // original text when information was resolved away
}

type instr struct {
	coq  string
	orig string
}

type function struct {
	name   string
	instrs []instr
	labels map[string]int
	argc   int // number of 8-byte argument slots (from $frame-args)
	frame  int // bytes of local frame (from $frame-args): the outgoing argument slots
}

type asmFile struct {
	path   string
	consts map[string]map[int64]uint64 // sym -> byte offset -> 64-bit value
	sizes  map[string]int64            // from GLOBL
	funcs  []*function
}

var regNames = map[string]bool{"AX": true, "BX": true, "CX": true, "DX": true, "SI": true,
	"DI": true, "BP": true, "R8": true, "R9": true, "R10": true, "R11": true, "R12": true,
	"R13": true, "R14": true, "R15": true}

var (
	dataRe  = regexp.MustCompile(`^DATA\s+([A-Za-z_][A-Za-z0-9_]*)<>(\+(\d+))?\(SB\)/(\d+)\s*,\s*\$(\S+)$`)
	globlRe = regexp.MustCompile(`^GLOBL\s+([A-Za-z_][A-Za-z0-9_]*)<>\(SB\)\s*,\s*(.+?)\s*,\s*\$(\d+)$`)
	textRe  = regexp.MustCompile(`^TEXT\s+·([A-Za-z_][A-Za-z0-9_]*)\(SB\)\s*,\s*(?:[A-Z|]+\s*,\s*)?\$(\d+)-(\d+)$`)
	labelRe = regexp.MustCompile(`^([A-Za-z_][A-Za-z0-9_]*):$`)
	memRe   = regexp.MustCompile(`^(\d*)\(([A-Z0-9]+)\)$`)
	argRe   = regexp.MustCompile(`^([A-Za-z_][A-Za-z0-9_]*)\+(\d+)\(FP\)$`)
	symRe   = regexp.MustCompile(`^([A-Za-z_][A-Za-z0-9_]*)<>(\+(\d+))?\(SB\)$`)
)

// noOctal rejects decimal-looking numbers that the Go assembler reads as octal
// (a leading 0 followed by more digits): asmgen parses offsets and sizes in base 10.
func noOctal(st stmt, nums ...string) {
	for _, n := range nums {
		if len(n) > 1 && n[0] == '0' {
			fatalf("%s: number %q has a leading zero (octal for the Go assembler) in %q", st.where(), n, st.text)
		}
	}
}

func parseUint(s string, st stmt) uint64 {
	v, err := strconv.ParseUint(s, 0, 64)
	if err != nil {
		fatalf("%s: cannot parse 64-bit unsigned literal %q", st.where(), s)
	}
	return v
}

func parseFile(path, src string) *asmFile {
	f := &asmFile{path: path, consts: map[string]map[int64]uint64{}, sizes: map[string]int64{}}
	var cur *function
	for _, st := range preprocess(path, src) {
		t := st.text
		switch {
		case strings.HasPrefix(t, "DATA"):
			m := dataRe.FindStringSubmatch(t)
			if m == nil {
				fatalf("%s: cannot parse %q", st.where(), t)
			}
			if m[4] != "8" {
				fatalf("%s: only 8-byte DATA is supported: %q", st.where(), t)
			}
			off := int64(0)
			noOctal(st, m[3], m[4])
			if m[3] != "" {
				off, _ = strconv.ParseInt(m[3], 10, 64)
			}
			if off%8 != 0 {
				fatalf("%s: unaligned DATA %q", st.where(), t)
			}
			if f.consts[m[1]] == nil {
				f.consts[m[1]] = map[int64]uint64{}
			}
			if _, dup := f.consts[m[1]][off]; dup {
				fatalf("%s: duplicate DATA %q", st.where(), t)
			}
			f.consts[m[1]][off] = parseUint(m[5], st)
		case strings.HasPrefix(t, "GLOBL"):
			m := globlRe.FindStringSubmatch(t)
			if m == nil {
				fatalf("%s: cannot parse %q", st.where(), t)
			}
			if !strings.Contains(m[2], "RODATA") {
				fatalf("%s: constant %s is not RODATA", st.where(), m[1])
			}
			noOctal(st, m[3])
			f.sizes[m[1]], _ = strconv.ParseInt(m[3], 10, 64)
		case strings.HasPrefix(t, "TEXT"):
			m := textRe.FindStringSubmatch(t)
			if m == nil {
				fatalf("%s: cannot parse %q", st.where(), t)
			}
			noOctal(st, m[2], m[3])
			argBytes, _ := strconv.Atoi(m[3])
			frameBytes, _ := strconv.Atoi(m[2])
			cur = &function{name: m[1], labels: map[string]int{}, argc: argBytes / 8, frame: frameBytes}
			f.funcs = append(f.funcs, cur)
		default:
			if cur == nil {
				fatalf("%s: statement outside TEXT: %q", st.where(), t)
			}
			if m := labelRe.FindStringSubmatch(t); m != nil {
				cur.add(fmt.Sprintf("LABEL %d", cur.label(m[1])), t)
				continue
			}
			f.parseInstr(cur, st)
		}
	}
	// every constant must be completely defined
	for sym, size := range f.sizes {
		for off := int64(0); off < size; off += 8 {
			if _, ok := f.consts[sym][off]; !ok {
				fatalf("%s: %s<>+%d is not initialised", path, sym, off)
			}
		}
	}
	for sym := range f.consts {
		if _, ok := f.sizes[sym]; !ok {
			fatalf("%s: DATA %s<> without GLOBL", path, sym)
		}
	}
	return f
}

func (fn *function) add(coq, orig string) {
	fn.instrs = append(fn.instrs, instr{coq: coq, orig: orig})
}

func (fn *function) label(name string) int {
	if id, ok := fn.labels[name]; ok {
		return id
	}
	id := len(fn.labels) + 1
	fn.labels[name] = id
	return id
}

// parseOperand translates one operand; kind restrictions are checked by the caller.
func (f *asmFile) parseOperand(fn *function, s string, st stmt) (op operand, kind string) {
	s = strings.TrimSpace(s)
	switch {
	case regNames[s]:
		return operand{coq: "OReg " + s}, "reg"
	case strings.HasPrefix(s, "$"):
		v := parseUint(s[1:], st)
		return operand{coq: fmt.Sprintf("OImm %d", v)}, "imm"
	case argRe.MatchString(s):
		m := argRe.FindStringSubmatch(s)
		noOctal(st, m[2])
		off, _ := strconv.Atoi(m[2])
		if off%8 != 0 || off/8 >= fn.argc {
			fatalf("%s: argument slot out of range: %q", st.where(), s)
		}
		checkArgName(fn.name, m[1], off/8, st)
		return operand{coq: fmt.Sprintf("OArg %d", off), comment: s}, "arg"
	case symRe.MatchString(s):
		m := symRe.FindStringSubmatch(s)
		off := int64(0)
		noOctal(st, m[3])
		if m[3] != "" {
			off, _ = strconv.ParseInt(m[3], 10, 64)
		}
		v, ok := f.consts[m[1]][off]
		if !ok {
			fatalf("%s: unknown constant %q", st.where(), s)
		}
		return operand{coq: fmt.Sprintf("OConst %d", v), comment: s}, "const"
	case memRe.MatchString(s):
		m := memRe.FindStringSubmatch(s)
		off := 0
		noOctal(st, m[1])
		if m[1] != "" {
			off, _ = strconv.Atoi(m[1])
		}
		if m[2] == "SP" {
			if off%8 != 0 || off+8 > fn.frame {
				fatalf("%s: %q is outside the %d-byte frame declared by TEXT ·%s", st.where(), s, fn.frame, fn.name)
			}
			return operand{coq: fmt.Sprintf("OStk %d", off)}, "stk"
		}
		if !regNames[m[2]] {
			fatalf("%s: unsupported base register in %q", st.where(), s)
		}
		if off%8 != 0 || off < 0 || off > 24 {
			fatalf("%s: offset outside a 4-limb element in %q", st.where(), s)
		}
		return operand{coq: fmt.Sprintf("OMem %d %s", off, m[2])}, "mem"
	}
	fatalf("%s: unsupported operand form %q in %q", st.where(), s, st.text)
	return
}

package main

// Instructions: one case per modelled opcode, with the operand forms that the
// Coq semantics (Model/AsmSem.v) gives a meaning to.  Everything else is a
// fatal error.

import (
	"fmt"
	"regexp"
	"strings"
)

// Go declarations "func name(a, b *Element)" of the assembly routines:
// routine -> parameter names in order.
var goSigs = map[string][]string{}

var sigRe = regexp.MustCompile(`(?m)^func\s+([A-Za-z_][A-Za-z0-9_]*)\(([a-z, ]+)\*Element\)\s*$`)

func loadSigs(src string) {
	for _, m := range sigRe.FindAllStringSubmatch(src, -1) {
		var names []string
		for _, p := range strings.Split(m[2], ",") {
			names = append(names, strings.TrimSpace(p))
		}
		goSigs[m[1]] = names
	}
}

func checkArgName(fn, name string, idx int, st stmt) {
	sig, ok := goSigs[fn]
	if !ok {
		fatalf("%s: no Go declaration found for routine %s", st.where(), fn)
	}
	if idx >= len(sig) || sig[idx] != name {
		fatalf("%s: %s+%d(FP) does not match the Go declaration of %s %v", st.where(), name, 8*idx, fn, sig)
	}
}

func in(kind string, allowed ...string) bool {
	for _, a := range allowed {
		if a == kind {
			return true
		}
	}
	return false
}

func paren(o operand) string { return "(" + o.coq + ")" }

func (f *asmFile) parseInstr(fn *function, st stmt) {
	t := st.text
	fields := regexp.MustCompile(`^(\S+)\s*(.*)$`).FindStringSubmatch(t)
	if fields == nil {
		fatalf("%s: cannot parse %q", st.where(), t)
	}
	opc := fields[1]
	var rawOps []string
	if strings.TrimSpace(fields[2]) != "" {
		for _, o := range strings.Split(fields[2], ",") {
			rawOps = append(rawOps, strings.TrimSpace(o))
		}
	}
	need := func(n int) {
		if len(rawOps) != n {
			fatalf("%s: %s expects %d operands: %q", st.where(), opc, n, t)
		}
	}
	ops := func() ([]operand, []string) {
		var os []operand
		var ks []string
		for _, r := range rawOps {
			o, k := f.parseOperand(fn, r, st)
			os = append(os, o)
			ks = append(ks, k)
		}
		return os, ks
	}
	bad := func() { fatalf("%s: unsupported operand form for %s: %q", st.where(), opc, t) }

	switch opc {
	case "MOVQ":
		need(2)
		o, k := ops()
		if !in(k[0], "reg", "imm", "mem", "arg", "const") || !in(k[1], "reg", "mem", "stk") {
			bad()
		}
		if k[0] != "reg" && k[1] != "reg" {
			bad() // no memory-to-memory or immediate-to-memory moves
		}
		fn.add(fmt.Sprintf("MOVQ %s %s", paren(o[0]), paren(o[1])), t)
	case "ADDQ", "ADCQ", "SUBQ", "SBBQ":
		need(2)
		o, k := ops()
		if !in(k[0], "reg", "mem", "const") || k[1] != "reg" {
			bad()
		}
		fn.add(fmt.Sprintf("%s %s %s", opc, paren(o[0]), paren(o[1])), t)
	case "XORQ", "ORQ", "TESTQ", "CMOVQCC", "CMOVQCS", "ADCXQ", "ADOXQ", "IMULQ":
		need(2)
		o, k := ops()
		if k[0] != "reg" || k[1] != "reg" {
			bad()
		}
		fn.add(fmt.Sprintf("%s %s %s", opc, paren(o[0]), paren(o[1])), t)
	case "MULXQ":
		need(3)
		o, k := ops()
		if !in(k[0], "reg", "const") || k[1] != "reg" || k[2] != "reg" {
			bad()
		}
		fn.add(fmt.Sprintf("MULXQ %s %s %s", paren(o[0]), paren(o[1]), paren(o[2])), t)
	case "CMPB":
		// only the run-time ADX dispatch
		need(2)
		if rawOps[0] != "·supportAdx(SB)" || rawOps[1] != "$1" {
			bad()
		}
		fn.add("CMPB_ADX", t)
	case "JEQ", "JNE", "JMP":
		need(1)
		if !regexp.MustCompile(`^[A-Za-z_][A-Za-z0-9_]*$`).MatchString(rawOps[0]) {
			bad()
		}
		fn.add(fmt.Sprintf("%s %d", opc, fn.label(rawOps[0])), t)
	case "CALL":
		need(1)
		switch rawOps[0] {
		case "·_mulGeneric(SB)":
			fn.add("CALL F_mulGeneric", t)
		case "·_fromMontGeneric(SB)":
			fn.add("CALL F_fromMontGeneric", t)
		default:
			bad()
		}
	case "RET":
		need(0)
		fn.add("RET", t)
	default:
		fatalf("%s: unsupported opcode %s in %q", st.where(), opc, t)
	}
}

// checkLabels: every label used must be defined exactly once.
func (fn *function) checkLabels(path string) {
	defined := map[int]int{}
	for _, i := range fn.instrs {
		var id int
		if n, _ := fmt.Sscanf(i.coq, "LABEL %d", &id); n == 1 {
			defined[id]++
		}
	}
	for name, id := range fn.labels {
		if defined[id] != 1 {
			fatalf("%s: routine %s: label %s defined %d times", path, fn.name, name, defined[id])
		}
	}
	if len(fn.instrs) == 0 {
		fatalf("%s: routine %s is empty", path, fn.name)
	}
}

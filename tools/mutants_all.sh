#!/bin/bash
# Run every seeded change against the check of the property it breaks; one summary line each.
# (Applies each patch to /repo and reverts it; do not run other checks at the same time.)
cd /verif
out=${1:-/verif/_build/mutants_all.log}
: > $out
for d in seeded/*/; do
  n=$(basename $d)
  p=$(python3 -c "import json;print(json.load(open('$d/meta.json')).get('property','?'))" 2>/dev/null)
  [ -z "$p" ] && continue
  res=$(tools/mutant.sh run $n $p 2>&1 | grep -v "^WARNING")
  nv=$(echo "$res" | grep -c "^VIOLATION")
  concrete=$(echo "$res" | grep "^VIOLATION" | grep -vc "no-failing-input-found")
  first=$(echo "$res" | grep "^VIOLATION" | head -1 | sed 's/.*replay=[^ ]* //' | cut -c1-110)
  echo "$n $p violations=$nv concrete=$concrete :: $first" | tee -a $out
done

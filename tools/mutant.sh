#!/bin/bash
# mutant.sh verify <worktree> <name>   : confirm a seeded change (demo passes clean / fails mutated, existing tests pass), store under /verif/seeded/<name>
# mutant.sh run <name> <Cxx> [...]      : apply /verif/seeded/<name>/patch.diff to /repo, run the checks, revert
export GOFLAGS=-mod=mod GOPROXY=off GOSUMDB=off GOTOOLCHAIN=local
cmd=$1; shift
if [ "$cmd" = verify ]; then
  wt=$1; name=$2; out=$wt/_out
  pkg=$(python3 -c "import json;print(json.load(open('$out/meta.json'))['demo_pkg_dir'])")
  cd $wt || exit 2
  git apply -R $out/patch.diff || exit 2   # (git stash is shared between worktrees: not used)
  cp $out/demo_test.go $pkg/zz_demo_test.go
  if go test -count=1 ./$pkg >/tmp/mut_clean.log 2>&1; then clean=pass; else clean=FAIL; fi
  rm -f $pkg/zz_demo_test.go
  git apply $out/patch.diff || exit 2
  if go build ./... >/tmp/mut_build.log 2>&1 && go test -count=1 ./... >/tmp/mut_suite.log 2>&1; then suite=pass; else suite=FAIL; fi
  cp $out/demo_test.go $pkg/zz_demo_test.go
  if go test -count=1 ./$pkg >/tmp/mut_demo.log 2>&1; then demo=PASS-unexpected; else demo=fails; fi
  rm -f $pkg/zz_demo_test.go
  echo "$name: clean-tree demo=$clean  mutated suite=$suite  mutated demo=$demo"
  if [ $clean = pass ] && [ $suite = pass ] && [ $demo = fails ]; then
    mkdir -p /verif/seeded/$name
    cp $out/patch.diff $out/demo_test.go /verif/seeded/$name/
    python3 - <<PY
import json
m=json.load(open('$out/meta.json'))
m['confirmed_by_lead']={'clean_tree_demo':'pass','mutated_existing_suite':'pass','mutated_demo':'fails','how':'tools/mutant.sh verify (go test in a scratch worktree)'}
json.dump(m,open('/verif/seeded/$name/meta.json','w'),indent=1)
PY
    echo "stored /verif/seeded/$name"
  fi
elif [ "$cmd" = run ]; then
  name=$1; shift
  git -C /repo apply /verif/seeded/$name/patch.diff || exit 2
  mkdir -p /verif/_build/evidence_keep
  for p in "$@"; do
    cp -f /verif/evidence/$p.json /verif/_build/evidence_keep/$p.json 2>/dev/null
    (cd /verif && timeout 3000 python3 check.py $p --tier ${TIER:-quick} 2>&1 | grep -v "^WARNING" | cut -c1-400 | tail -6)
    # evidence written while a seeded change is applied must never be kept
    cp -f /verif/_build/evidence_keep/$p.json /verif/evidence/$p.json 2>/dev/null
  done
  git -C /repo checkout -- .
  git -C /repo status --short
fi

#!/usr/bin/env python3
"""Python prototype of the Coq checker `conds` (coq/Proofs/HadesConds.v).

It mirrors the Coq definitions one for one (getv, transp, mv, vm, mm, mpow,
stage A, stage B) and, in addition, transcribes Spec/Hades.v `perm_ref` and
Model/HadesOpt.v `perm_opt` to compare them on random states.

Usage:  python3 hades_conds_ref.py            # all BN254 widths + Goldilocks
"""
import io, contextlib, random, sys, os

sys.path.insert(0, os.path.dirname(os.path.abspath(__file__)))
with contextlib.redirect_stdout(io.StringIO()):
    import grain_ref  # validated reference generator (prints a self-test on import)

Q = grain_ref.q
RPS = grain_ref.RPS
GOLD_P = 2**64 - 2**32 + 1

# ---------------------------------------------------------------- helpers (as in Coq)

def nth(l, i, d=0):
    return l[i] if 0 <= i < len(l) else d

def nthm(m, i, j):
    return nth(nth(m, i, []), j, 0)

def getv(l, off, n):
    return [nth(l, off + i) for i in range(n)]

def transp(t, m):
    return [[nthm(m, j, i) for j in range(t)] for i in range(t)]

def cv(p, l):
    return [x % p for x in l]

def dotZ(u, v):
    return sum(a * b for a, b in zip(u, v))

def mv(p, A, x):
    return [dotZ(r, x) % p for r in A]

def vm(p, n, a, B):
    acc = [0] * n
    for ai, Bi in reversed(list(zip(a, B))):        # fold_right
        acc = [ai * b + c for b, c in zip(Bi, acc)]
    return cv(p, acc)

def mm(p, n, A, B):
    return [vm(p, n, a, B) for a in A]

def ident(n):
    return [[1 if i == j else 0 for j in range(n)] for i in range(n)]

def mpow_pos(p, n, A, k):
    """k a positive integer, recursion on its binary representation (Coq positive)."""
    if k == 1:
        return [cv(p, r) for r in A]
    B = mpow_pos(p, n, A, k >> 1)
    B2 = mm(p, n, B, B)
    return mm(p, n, A, B2) if k & 1 else B2

def mpow(p, n, A, k):
    return ident(n) if k == 0 else mpow_pos(p, n, A, k)

# ---------------------------------------------------------------- the checker

def conds(p, t, RF, RP, RC, MDS, C, S, M, P, verbose=False):
    h = RF // 2
    ok = {}
    # (0) stored M is the transpose of MDS
    ok['M=MDS^T'] = (MDS == transp(t, M))
    # (1) first constants
    ok['C0'] = cv(p, getv(C, 0, t)) == cv(p, getv(RC, 0, t))
    # (2) first half
    ok['first'] = all(mv(p, MDS, getv(C, (i + 1) * t, t)) == cv(p, getv(RC, (i + 1) * t, t))
                      for i in range(h - 1))
    # (3) stage A
    beta = cv(p, [a - b for a, b in zip(mv(p, MDS, getv(C, h * t, t)), getv(RC, h * t, t))])
    okA = True
    for i in range(RP):
        okA = okA and (nth(beta, 0) == 0)
        ci = nth(C, (h + 1) * t + i)
        beta = cv(p, [a - b for a, b in zip(mv(p, MDS, [ci] + beta[1:]),
                                              getv(RC, (h + i + 1) * t, t))])
    okA = okA and all(b == 0 for b in beta)
    ok['stageA'] = okA
    # (4) last half
    ok['last'] = all(mv(p, MDS, getv(C, (h + 1) * t + RP + i * t, t))
                     == cv(p, getv(RC, (h + RP + i + 1) * t, t)) for i in range(h - 1))
    # (5) stage B
    m00 = nthm(MDS, 0, 0)
    v = MDS[0][1:] if MDS else []
    w = [nth(r, 0) for r in MDS[1:]]
    Mhat = [r[1:] for r in MDS[1:]]
    vS = lambda i: getv(S, (t * 2 - 1) * i + 1, t - 1) if i < RP else v
    wS = lambda i: getv(S, (t * 2 - 1) * i + t, t - 1)
    ok['B:s0'] = all(nth(S, (t * 2 - 1) * i) % p == m00 % p for i in range(RP))
    ok['B:v'] = all(vm(p, t - 1, vS(i), Mhat) == cv(p, vS(i + 1)) for i in range(RP))
    ok['B:w'] = all(cv(p, wS(i)) == (mv(p, Mhat, wS(i + 1)) if i + 1 < RP else cv(p, w))
                    for i in range(RP))
    PT = transp(t, P)
    N0 = mpow(p, t - 1, Mhat, RP)
    ok['B:P'] = (cv(p, PT[0]) == cv(p, MDS[0])
                 and [cv(p, r) for r in PT[1:]] == mm(p, t, N0, MDS[1:]))
    if verbose:
        print('   ', ok)
    return all(ok.values())

# ---------------------------------------------------------------- the two permutations

def perm_ref(p, sbox, t, RF, RP, RC, MDS, st):
    h = RF // 2
    for r in range(RF + RP):
        st = [(x + nth(RC, r * t + i)) % p for i, x in enumerate(st)]
        if r < h or h + RP <= r:
            st = [sbox(x) for x in st]
        else:
            st = [sbox(st[0])] + st[1:] if st else []
        st = [dotZ(row, st) % p for row in MDS]
    return st

def perm_opt(p, sbox, t, RF, RP, C, S, M, P, st):
    h = RF // 2
    ark = lambda st, it: [(x + nth(C, it + i)) % p for i, x in enumerate(st)]
    mix = lambda m, st: [sum(nthm(m, j, i) * x for j, x in enumerate(st)) % p for i in range(t)]
    sb = lambda st: [sbox(x) for x in st]
    st = ark(st, 0)
    for i in range(h - 1):
        st = mix(M, ark(sb(st), (i + 1) * t))
    st = mix(P, ark(sb(st), h * t))
    for i in range(RP):
        if not st:
            continue
        s0 = (sbox(st[0]) + nth(C, (h + 1) * t + i)) % p
        st1 = [s0] + st[1:]
        new0 = sum(nth(S, (t * 2 - 1) * i + j) * x for j, x in enumerate(st1)) % p
        rest = [(x + s0 * nth(S, (t * 2 - 1) * i + t + k - 1)) % p
                for k, x in zip(range(1, len(st)), st[1:])]
        st = [new0] + rest
    for i in range(h - 1):
        st = mix(M, ark(sb(st), (h + 1) * t + RP + i * t))
    return mix(M, sb(st))

# ---------------------------------------------------------------- Goldilocks

def gold_tables():
    d = {}
    for line in open('/verif/_build/tables/gold_tables.txt'):
        name, rest = line.split(' ', 1)
        d[name] = eval(rest.replace(' ', ','))
    n = d['mLen']
    # constants.go: M[i][j] = mcirc[(i-j) mod n] (+ mdiag[i] on the diagonal)
    M = [[(d['mcirc'][(i - j) % n] + (d['mdiag'][i] if i == j else 0)) for j in range(n)]
         for i in range(n)]
    return n, d['NROUNDSF'], d['NROUNDSP'], d['c'], d['s'], M, d['p']

def unoptimize_rc(p, t, RF, RP, MDS, C):
    """A textbook RC consistent with the optimized constants C (not unique: we take
    beta_i = 0 for every i, i.e. RC_{h} = MDS*C4 and RC_{h+i+1} = c_i * MDS*e0)."""
    h = RF // 2
    RC = list(getv(C, 0, t))
    for i in range(h - 1):
        RC += mv(p, MDS, getv(C, (i + 1) * t, t))
    RC += mv(p, MDS, getv(C, h * t, t))
    for i in range(RP):
        RC += mv(p, MDS, [nth(C, (h + 1) * t + i)] + [0] * (t - 1))
    for i in range(h - 1):
        RC += mv(p, MDS, getv(C, (h + 1) * t + RP + i * t, t))
    # the last RC block written above is RC_{h+RP+(h-2)+1} = RC_{R-1}; lengths agree
    return RC

# ---------------------------------------------------------------- main

def main():
    random.seed(1)
    allok = True
    sbox5 = lambda x: pow(x, 5, Q)
    for t in range(2, 18):
        RP = RPS[t - 2]
        RC, MDS = grain_ref.gen(t, 8, RP)
        d = grain_ref.load(t)
        r = conds(Q, t, 8, RP, RC, MDS, d['C'], d['S'], d['M'], d['P'], verbose='-v' in sys.argv)
        same = True
        for _ in range(3):
            st = [random.randrange(Q) for _ in range(t)]
            same = same and (perm_opt(Q, sbox5, t, 8, RP, d['C'], d['S'], d['M'], d['P'], st)
                             == perm_ref(Q, sbox5, t, 8, RP, RC, MDS, st))
        # negative tests: flip one entry of each table
        neg = []
        for name in 'CSMP':
            e = {k: (list(map(list, v)) if k in 'MP' else list(v)) for k, v in d.items() if k in 'CSMP'}
            if name in 'MP':
                i, j = random.randrange(t), random.randrange(t)
                e[name][i][j] = (e[name][i][j] + 1) % Q
            else:
                i = random.randrange(len(e[name]))
                e[name][i] = (e[name][i] + 1) % Q
            neg.append(not conds(Q, t, 8, RP, RC, MDS, e['C'], e['S'], e['M'], e['P']))
        print('bn254 t=%2d RP=%d conds=%s perm_opt==perm_ref=%s negatives_rejected=%s'
              % (t, RP, r, same, all(neg)))
        allok = allok and r and same and all(neg)
    # Goldilocks
    t, RF, RP, C, S, M, P = gold_tables()
    p = GOLD_P
    MDS = transp(t, M)
    RC = unoptimize_rc(p, t, RF, RP, MDS, C)
    assert len(RC) == (RF + RP) * t
    r = conds(p, t, RF, RP, RC, MDS, C, S, M, P, verbose='-v' in sys.argv)
    sbox7 = lambda x: pow(x, 7, p)
    same = all(perm_opt(p, sbox7, t, RF, RP, C, S, M, P, st) == perm_ref(p, sbox7, t, RF, RP, RC, MDS, st)
               for st in ([random.randrange(p) for _ in range(t)] for _ in range(5)))
    print('goldilocks t=%d RP=%d conds=%s perm_opt==perm_ref=%s' % (t, RP, r, same))
    allok = allok and r and same
    print(allok)
    return 0 if allok else 1

if __name__ == '__main__':
    sys.exit(main())

package main

// Glue of a FRAGMENTED limb-level function (loops.go: ff's Inverse):
//
//	func F(..) { P; for { for c1 { B1 }; ..; for cn { Bn }; T } }
//
// FfRoutines.v has the straight-line fragments F_pre, F_loopk_cond/_body,
// F_tail; here the loops themselves are generated: one fuelled fixpoint per
// inner loop (fuel2 .. fuel(n+1)), one for the outer loop (fuel1), and F.

import (
	"fmt"
	"strings"
)

func (gl *glue) fragGlue(bs *summary) *gsum {
	fi := bs.frag
	if fi == nil {
		panic(transErr{bs.key + ": internal: fragmented function without fragment description"})
	}
	s := gl.fromBase(bs)
	s.qual = ""
	base := gl.cfg.base + "." + bs.coqName
	name := bs.coqName
	// parameters of F that the definitions below bind (the "in" ones)
	var fparams, fnames []string
	isParam := map[string]bool{}
	for _, pa := range s.params {
		if pa.in {
			fparams = append(fparams, "("+pa.name+" : "+pa.kind.coq()+")")
			fnames = append(fnames, pa.name)
			isParam[pa.name] = true
		}
	}
	roArgs := func(frag string) string {
		var as []string
		for _, pa := range fi.ro[frag] {
			if !isParam[pa.name] {
				panic(transErr{bs.key + ": fragment " + frag + " reads " + pa.name +
					", a local variable of the part before the loop (unsupported by the glue translator)"})
			}
			as = append(as, pa.name)
		}
		if len(as) == 0 {
			return ""
		}
		return " " + strings.Join(as, " ")
	}
	for _, n := range fi.stateNames {
		if isParam[n] || strings.HasPrefix(n, "fuel") || glueReserved[n] {
			panic(transErr{bs.key + ": state variable " + n + " clashes with a parameter or a reserved name"})
		}
	}
	var stBinders []string
	for i, n := range fi.stateNames {
		stBinders = append(stBinders, "("+n+" : "+fi.stateTypes[i]+")")
	}
	st := strings.Join(fi.stateNames, " ")
	stTuple := tupleOf(fi.stateNames)
	stType := strings.Join(fi.stateTypes, " * ")
	var rts []string
	for _, pa := range s.params {
		if pa.out {
			rts = append(rts, pa.kind.coq())
		}
	}
	for _, k := range s.results {
		rts = append(rts, k.coq())
	}
	rType := strings.Join(rts, " * ")
	// the loops take only the parameters of F that some fragment reads
	used := map[string]bool{}
	for _, ps := range fi.ro {
		for _, pa := range ps {
			used[pa.name] = true
		}
	}
	var lparams, lnames []string
	for i, n := range fnames {
		if used[n] {
			lparams = append(lparams, fparams[i])
			lnames = append(lnames, n)
		}
	}
	pall := strings.Join(lparams, " ")
	if pall != "" {
		pall = " " + pall
	}
	pnames := strings.Join(lnames, " ")
	if pnames != "" {
		pnames = " " + pnames
	}
	fall := strings.Join(fparams, " ")
	if fall != "" {
		fall = " " + fall
	}
	fargs := strings.Join(fnames, " ")
	if fargs != "" {
		fargs = " " + fargs
	}
	var b strings.Builder
	fmt.Fprintf(&b, "(* %s %s: the loops around the fragments %s_pre, _loop<k>_cond/_body, _tail of\n"+
		"   Gen/%s.v.  State at the head of the outer loop: %s.\n"+
		"   fuel1: outer `for { }`; fuel<k+1>: inner loop k. *)\n", gl.p.cfg.pkgDir, bs.key, bs.coqName, gl.cfg.base, stTuple)
	var fuels []string
	fuels = append(fuels, "fuel1")
	for k := 1; k <= fi.inner; k++ {
		fuel := "fuel" + itoa(k+1)
		fuels = append(fuels, fuel)
		ln := fmt.Sprintf("%s_loop%d", name, k)
		cond, body := fmt.Sprintf("%s_loop%d_cond", bs.coqName, k), fmt.Sprintf("%s_loop%d_body", bs.coqName, k)
		fmt.Fprintf(&b, "Fixpoint %s (%s : nat)%s %s {struct %s} : fuelled (%s) :=\n", ln, fuel, pall, strings.Join(stBinders, " "), fuel, stType)
		fmt.Fprintf(&b, "  match %s with\n  | O => OutOfFuel\n  | S %s =>\n", fuel, fuel)
		fmt.Fprintf(&b, "    if %s.%s %s%s then (\n", gl.cfg.base, cond, st, roArgs(cond))
		fmt.Fprintf(&b, "      %s%s.%s %s%s in\n", letPattern(fi.stateNames), gl.cfg.base, body, st, roArgs(body))
		fmt.Fprintf(&b, "      %s %s%s %s\n    ) else (\n      Done %s\n    )\n  end.\n", ln, fuel, pnames, st, paren(stTuple))
		gl.coqUsed[ln] = bs.key
	}
	ln := name + "_loop"
	var fb []string
	for _, f := range fuels[1:] {
		fb = append(fb, "("+f+" : nat)")
	}
	fbs := strings.Join(fb, " ")
	if fbs != "" {
		fbs = " " + fbs
	}
	fmt.Fprintf(&b, "Fixpoint %s (fuel1 : nat)%s%s %s {struct fuel1} : fuelled (%s) :=\n", ln, fbs, pall, strings.Join(stBinders, " "), rType)
	b.WriteString("  match fuel1 with\n  | O => OutOfFuel\n  | S fuel1 =>\n")
	ends := ""
	for k := 1; k <= fi.inner; k++ {
		fmt.Fprintf(&b, "    match %s_loop%d fuel%d%s %s with\n    | OutOfFuel => OutOfFuel\n    | Done %s =>\n", name, k, k+1, pnames, st, stTuple)
		ends += "    end\n"
	}
	tail := bs.coqName + "_tail"
	fmt.Fprintf(&b, "    match %s.%s %s%s with\n    | inl res => Done res\n    | inr %s => %s %s%s %s\n    end\n", gl.cfg.base, tail, st, roArgs(tail),
		stTuple, ln, strings.Join(fuels, " "), pnames, st)
	b.WriteString(ends + "  end.\n")
	gl.coqUsed[ln] = bs.key
	fmt.Fprintf(&b, "Definition %s", name)
	for _, f := range fuels {
		b.WriteString(" (" + f + " : nat)")
	}
	fmt.Fprintf(&b, "%s : fuelled (%s) :=\n", fall, rType)
	fmt.Fprintf(&b, "  match %s_pre%s with\n  | inl res => Done res\n  | inr %s => %s %s%s %s\n  end.\n", base, fargs, stTuple, ln, strings.Join(fuels, " "), pnames, st)
	_ = fargs
	s.fuels = fuels
	s.text = b.String()
	return s
}
